import TxV.Model.Profiler
open TxV TxV.Proto TxV.Profiler

/-!
protocol (one output line per input line)

  cfg tx=1,2,3 m=4,5 par=4:;5:2,4 tbm=4:1;5:1,2 cf=1:2;2:1;3:      → ok | bad-cfg
      (ids of transactions / methods in sample order; the three maps of ProfileData in dict order,
       `-` for an empty map; is_transaction is true exactly for the `tx` ids)
  cyc t=110,111,000 m=01        per transaction `ready runnable run`, per method `run` (`-` if none)
      → run=2:-,5:2 lck=1:2     CycleProfile.running / .locked in dict order (`-` if empty)
      | raise StopIteration     (profiler.py:254; the cycle is then not appended to the profile)
  ana      → stats=1:0/2,2:2/0                 analyze_transactions(): id:run/locked per transaction
  anarec   → rows=1:0/2;1.4:0/1;2:2/0          analyze_transactions(recursive=True), one entry per node,
                                               path of ids from the root joined by `.`, sorted by path
-/

structure DState where
  d : Data
  txIds : List Nat
  mIds : List Nat
  cycles : List CycleProfile
  ok : Bool

def DState.empty : DState :=
  { d := { info := [], parents := [], tbm := [], conflicts := [] }, txIds := [], mIds := [], cycles := [], ok := false }

def parseNats (s : String) : Option (List Nat) :=
  if s == "" || s == "-" then some [] else (s.splitOn ",").mapM String.toNat?

def parseMap (s : String) : Option (List (Nat × List Nat)) :=
  if s == "-" then some []
  else (s.splitOn ";").mapM fun e =>
    match e.splitOn ":" with
    | [k, v] => do
      let k ← k.toNat?
      let v ← parseNats v
      pure (k, v)
    | _ => none

def parseBits (s : String) : Option (List Bool) :=
  s.toList.mapM fun c => if c == '1' then some true else if c == '0' then some false else none

def parseCfg (t : List String) : Option DState := do
  let tx ← parseNats (← kv? t "tx")
  let ms ← parseNats (← kv? t "m")
  let par ← parseMap (← kv? t "par")
  let tbm ← parseMap (← kv? t "tbm")
  let cf ← parseMap (← kv? t "cf")
  let d : Data := { info := tx.map (·, true) ++ ms.map (·, false), parents := par, tbm := tbm, conflicts := cf }
  if d.complete tx ms then
    pure { d := d, txIds := tx, mIds := ms, cycles := [], ok := true }
  else none

def parseSamples (st : DState) (t : List String) : Option Samples := do
  let ts ← kv? t "t"
  let tl := if ts == "-" then [] else ts.splitOn ","
  if tl.length != st.txIds.length then none
  let txs ← (st.txIds.zip tl).mapM fun (i, b) => do
    match ← parseBits b with
    | [r, rn, ru] => pure ({ id := i, ready := r, runnable := rn, run := ru } : TxSample)
    | _ => none
  let mb ← kv? t "m"
  let ml ← if mb == "-" then pure [] else parseBits mb
  if ml.length != st.mIds.length then none
  pure { txs := txs, ms := (st.mIds.zip ml).map fun (i, b) => { id := i, run := b } }

def showRunning (r : List (Nat × Option Nat)) : String :=
  if r.isEmpty then "-" else ",".intercalate (r.map fun (k, v) => s!"{k}:{showOpt v}")

def showLocked (r : List (Nat × Nat)) : String :=
  if r.isEmpty then "-" else ",".intercalate (r.map fun (k, v) => s!"{k}:{v}")

def pathLe : List Nat → List Nat → Bool
  | [], _ => true
  | _ :: _, [] => false
  | a :: as, b :: bs => if a < b then true else if b < a then false else pathLe as bs

def showPath (p : List Nat) : String := ".".intercalate (p.map toString)

def stepLine (st : DState) (line : String) : DState × String :=
  let t := tokens line
  match t.head? with
  | some "cfg" =>
    match parseCfg t with
    | some s => (s, "ok")
    | none => (DState.empty, "bad-cfg")
  | some "cyc" =>
    if !st.ok then (st, "bad-op") else
    match parseSamples st t with
    | none => (st, "bad-op")
    | some s =>
      if makeRaises s st.d then (st, "raise StopIteration")
      else
        let c := make s st.d
        ({ st with cycles := st.cycles ++ [c] }, s!"run={showRunning c.running} lck={showLocked c.locked}")
  | some "ana" =>
    if !st.ok then (st, "bad-op") else
    let r := analyze st.d st.cycles
    (st, "stats=" ++ (if r.isEmpty then "-" else ",".intercalate (r.map fun x => s!"{x.id}:{x.run}/{x.locked}")))
  | some "anarec" =>
    if !st.ok then (st, "bad-op") else
    let fuel := st.txIds.length + st.mIds.length + 1
    let r := (analyzeRec fuel st.d st.cycles).mergeSort fun a b => pathLe a.path b.path
    (st, "rows=" ++ (if r.isEmpty then "-" else ";".intercalate (r.map fun x => s!"{showPath x.path}:{x.run}/{x.locked}")))
  | _ => (st, "bad-op")

def main : IO Unit := Proto.run DState.empty stepLine
