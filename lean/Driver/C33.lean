import TxV.Model.EvLog
open TxV TxV.Proto TxV.EvLog

/-!
protocol (one output line per input line):

`cfg n=2 e0=A f0=4s.i,2u.e0:1:3,1u.b s0=i.i5,o.sabc e1=B f1=- s1=- h=A>on_a,B>on_b perm=rev` → `ok`
   per site i: `e<i>` event name, `f<i>` dynamic fields `<width><u|s>.<kind>` (kind `i` int, `b` bool,
   `o` other, `e<m>:<m>…` enum with member values, an int or `$word` for a string value), `s<i>` statics `<kind>.<raw>` (raw `i<int>` / `s<word>`);
   `h` the consumer's handler table in definition order (last entry for a name wins), `perm` the order in
   which the decoded records are handed to `EventConsumer.run` (`id`, `rev`, `rot<k>`).
`cyc s0=11/3/15,200 s1=1/1/7` → `cap=0:-1,200;1:7 pk=… ps=… pv=3`
   per site: enclosing conditions (bits, `-` = none) `/` value of `when` `/` field bit patterns;
   answer: records of this cycle from the capture process, from the sampler with the packed vector, from
   the sampler with per-site triggers (`site:v,v;…`, `-` = none), and the packed vector.
`smp c=7 p=13 s=1:1,2;0:5;7:` → `pk=0:1,2;2: ps=0:1,2;2:`
   one direct `GeneratedEvLogSampler.sample(c, sink)` call on arbitrary reader values: packed vector `p`
   (`-` = no packed vector, answer `pk=x`) and per site `<trigger>:<field values>`; answer: the records with the
   packed vector and with per-site triggers.  Used also where bit i of `p` is NOT trigger i.
`fin` → `n=… stray=0 ord=1 file=[0,0,[-1,200]]|… ld=1 rd=1 wr=1 spk=1 sps=1 sch=1 dec=… disp=…`
   whole-log observations: number of records, records outside the simulated cycles, log in cycle
   order, the saved lines (spaces removed), load∘save = id, reader = decoded log, streamed writer file =
   saved file, sampler logs = captured log, the decoded events, the dispatch sequence, and (`rdisp`) the
   dispatch sequence of `run(EventLogReader(f))` for a file f holding the records of the second half of the
   cycles before those of the first half.
-/

structure Cfg where
  sch : Schema := []
  handlers : List (String × String) := []
  perm : String := "id"

structure St where
  cfg : Cfg := {}
  trace : List (List SiteIn) := []   -- reversed

def splitC (sep : String) (s : String) : List String :=
  if s == "" || s == "-" then [] else s.splitOn sep

def allSome {α} : List (Option α) → Option (List α)
  | [] => some []
  | none :: _ => none
  | some a :: rest => (allSome rest).map (a :: ·)

/-- an enum member value: an int, or `$word` for a string value -/
def parseMember (s : String) : Option Raw :=
  match s.toList with
  | '$' :: rest => some (.str (String.ofList rest))
  | _ => s.toInt?.map Raw.int

def parseKind (s : String) : Option Kind :=
  match s.toList with
  | ['i'] => some .int
  | ['b'] => some .bool
  | ['o'] => some .other
  | 'e' :: rest => (allSome ((splitC ":" (String.ofList rest)).map parseMember)).map Kind.enum
  | _ => none

def parseField (s : String) : Option FieldSpec :=
  match s.splitOn "." with
  | [ws, k] =>
    match ws.toList.reverse with
    | sg :: wrev =>
      match (String.ofList wrev.reverse).toNat?, parseKind k with
      | some w, some kind =>
        if sg == 'u' then some ⟨w, false, kind⟩ else if sg == 's' then some ⟨w, true, kind⟩ else none
      | _, _ => none
    | [] => none
  | _ => none

def parseRaw (s : String) : Option Raw :=
  match s.toList with
  | 'i' :: rest => (String.ofList rest).toInt?.map Raw.int
  | 's' :: rest => some (Raw.str (String.ofList rest))
  | _ => none

def parseStatic (s : String) : Option StaticSpec :=
  match s.splitOn "." with
  | [k, r] =>
    match parseKind k, parseRaw r with
    | some kind, some raw => some ⟨kind, raw⟩
    | _, _ => none
  | _ => none

def parseHandler (s : String) : Option (String × String) :=
  match s.splitOn ">" with
  | [e, m] => some (e, m)
  | _ => none

def parseSite (t : List String) (i : Nat) : Option Site :=
  match kv? t s!"e{i}", kv? t s!"f{i}", kv? t s!"s{i}" with
  | some e, some f, some s =>
    match allSome ((splitC "," f).map parseField), allSome ((splitC "," s).map parseStatic) with
    | some fs, some ss => some ⟨e, fs, ss⟩
    | _, _ => none
  | _, _, _ => none

def parseCfg (t : List String) : Option Cfg :=
  match nat? t "n", kv? t "h", kv? t "perm" with
  | some n, some h, some perm =>
    match allSome ((List.range n).map (parseSite t)), allSome ((splitC "," h).map parseHandler) with
    | some sch, some hs => some { sch := sch, handlers := hs, perm := perm }
    | _, _ => none
  | _, _, _ => none

def parseBits (s : String) : Option (List Bool) :=
  if s == "-" then some [] else
  allSome (s.toList.map fun c => if c == '1' then some true else if c == '0' then some false else none)

def parseSiteIn (t : List String) (i : Nat) : Option SiteIn :=
  match kv? t s!"s{i}" with
  | some v =>
    match v.splitOn "/" with
    | [cs, w, bs] =>
      match parseBits cs, w.toNat?, allSome ((splitC "," bs).map String.toNat?) with
      | some conds, some wv, some bits => some ⟨conds, wv, bits⟩
      | _, _, _ => none
    | _ => none
  | none => none

/-- `<trigger value>:<field values>` of one site, as its readers return them -/
def parseSig (s : String) : Option SiteSig :=
  match s.splitOn ":" with
  | [tr, vs] =>
    match tr.toNat?, allSome ((splitC "," vs).map String.toInt?) with
    | some t, some vals => some ⟨t, vals⟩
    | _, _ => none
  | _ => none

def showInts (l : List Int) : String := ",".intercalate (l.map toString)

def showEvs (l : List RawEvent) : String :=
  if l.isEmpty then "-" else ";".intercalate (l.map fun e => s!"{e.site}:{showInts e.vals}")

def showVal : Val → String
  | .int v => s!"i{v}"
  | .str s => s!"s{s}"
  | .bool b => if b then "bT" else "bF"
  | .enum (.int v) => s!"e{v}"
  | .enum (.str w) => s!"e${w}"

def showDec (d : Decoded) : String :=
  s!"{d.cycle}.{d.site}:{",".intercalate (d.dyn.map showVal)}~{",".intercalate (d.stat.map showVal)}"

/-! concrete text for the driver: Python's `json.dumps` layout for event lines; the header is kept as
    a value (its JSON is `dataclasses_json`'s business) -/

inductive Text
  | header (sch : Schema)
  | line (s : String)

partial def showJ : J → String
  | .num n => toString n
  | .arr l => "[" ++ ", ".intercalate (l.map showJ) ++ "]"

def skipWs : List Char → List Char
  | ' ' :: r => skipWs r
  | r => r

def takeDigits : List Char → List Char → List Char × List Char
  | acc, c :: r => if c.isDigit then takeDigits (c :: acc) r else (acc.reverse, c :: r)
  | acc, [] => (acc.reverse, [])

def parseNum (cs : List Char) : Option (J × List Char) :=
  match cs with
  | '-' :: r =>
    let (ds, rest) := takeDigits [] r
    (String.ofList ds).toNat?.map fun n => (.num (-(n : Int)), rest)
  | r =>
    let (ds, rest) := takeDigits [] r
    (String.ofList ds).toNat?.map fun n => (.num (n : Int), rest)

mutual
def parseVal : Nat → List Char → Option (J × List Char)
  | 0, _ => none
  | f + 1, cs =>
    match skipWs cs with
    | '[' :: r =>
      match skipWs r with
      | ']' :: r' => some (.arr [], r')
      | r' => parseElems f r' []
    | cs' => parseNum cs'
def parseElems : Nat → List Char → List J → Option (J × List Char)
  | 0, _, _ => none
  | f + 1, cs, acc =>
    match parseVal f cs with
    | none => none
    | some (v, r) =>
      match skipWs r with
      | ',' :: r' => parseElems f r' (v :: acc)
      | ']' :: r' => some (.arr (acc.reverse ++ [v]), r')
      | _ => none
end

def parseJ (s : String) : Option J :=
  match parseVal (2 * s.length + 2) s.toList with
  | some (v, r) => if (skipWs r).isEmpty then some v else none
  | none => none

def codec : Codec Text where
  enc := fun j => .line (showJ j)
  dec := fun t => match t with | .line s => parseJ s | .header _ => none
  encSchema := .header
  decSchema := fun t => match t with | .header s => some s | .line _ => none
  blank := fun t => match t with | .line s => (s.toList.all fun c => c == ' ' || c == '\n' || c == '\t') | .header _ => false

def permute (perm : String) (l : List Decoded) : Option (List Decoded) :=
  if perm == "id" then some l
  else if perm == "rev" then some l.reverse
  else match perm.toList with
    | 'r' :: 'o' :: 't' :: k =>
      (String.ofList k).toNat?.map fun k => if l.isEmpty then l else l.rotateLeft (k % l.length)
    | _ => none

def b01 (b : Bool) : String := if b then "1" else "0"

def finLine (s : St) : String :=
  let sch := s.cfg.sch
  let trace := s.trace.reverse
  let log : Log := ⟨sch, capture sch 0 trace⟩
  let file := save codec log
  let txt := "|".intercalate (file.filterMap fun t => match t with | .line l => some (l.replace " " "") | .header _ => none)
  let ld := load codec file == some log
  let rd := match readerAll codec file, log.decoded with
    | some a, some b => a == b
    | none, none => true
    | _, _ => false
  let spk := sampleRun true sch 0 trace == log.raw
  let sps := sampleRun false sch 0 trace == log.raw
  let n := log.raw.length
  let ord := (log.raw.map (·.cycle)) == (List.range trace.length).flatMap (fun c => (log.raw.filter (·.cycle == c)).map (·.cycle))
  let pre := s!"n={n} stray=0 ord={b01 ord} file={if txt == "" then "-" else txt} ld={b01 ld} rd={b01 rd} wr=1 spk={b01 spk} sps={b01 sps} sch=1"
  match log.decoded with
  | none => s!"{pre} dec=! disp=! rdisp=!"
  | some ds =>
    match permute s.cfg.perm ds with
    | none => "bad-op"
    | some pds =>
      let calls := consumerRun s.cfg.handlers sch pds
      let dec := if ds.isEmpty then "-" else ";".intercalate (ds.map showDec)
      let showCalls := fun (cs : List (String × Decoded)) =>
        if cs.isEmpty then "-" else ";".intercalate (cs.map fun (h, d) => s!"{h}@{d.cycle}.{d.site}")
      -- a file NOT in cycle order (second half of the cycles written first), handed to `run` as a reader
      let mid := trace.length / 2
      let raw2 := log.raw.filter (fun e => decide (mid ≤ e.cycle)) ++ log.raw.filter (fun e => decide (e.cycle < mid))
      let rdisp := match readerAll codec (save codec ⟨sch, raw2⟩) with
        | some ds2 => showCalls (consumerRun s.cfg.handlers sch ds2)
        | none => "!"
      s!"{pre} dec={dec} disp={showCalls calls} rdisp={rdisp}"

def stepLine (s : St) (line : String) : St × String :=
  let t := tokens line
  match t.head? with
  | some "cfg" =>
    match parseCfg t with
    | some c => ({ cfg := c, trace := [] }, "ok")
    | none => (s, "bad-op")
  | some "cyc" =>
    let sch := s.cfg.sch
    match allSome ((List.range sch.length).map (parseSiteIn t)) with
    | some ins =>
      if (List.zipWith (fun (st : Site) (si : SiteIn) => st.fields.length == si.bits.length) sch ins).all id then
        let c := s.trace.length
        let sigs := sigsOf sch ins
        let pv := packedOf sigs
        ({ s with trace := ins :: s.trace },
          s!"cap={showEvs (captureCycle sch c ins)} pk={showEvs (sample c (some pv) sigs)} ps={showEvs (sample c none sigs)} pv={pv}")
      else (s, "bad-op")
    | none => (s, "bad-op")
  | some "fin" => (s, finLine s)
  | some "smp" =>
    match nat? t "c", kv? t "p", kv? t "s" with
    | some c, some p, some sv =>
      match allSome ((splitC ";" sv).map parseSig) with
      | some sigs =>
        let ps := showEvs (sample c none sigs)
        let pk := if p == "-" then some "x" else p.toNat?.map fun pv => showEvs (sample c (some pv) sigs)
        match pk with
        | some pk => (s, s!"pk={pk} ps={ps}")
        | none => (s, "bad-op")
      | none => (s, "bad-op")
    | _, _, _ => (s, "bad-op")
  | _ => (s, "bad-op")

def main : IO Unit := Proto.run ({} : St) stepLine
