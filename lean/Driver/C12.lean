import TxV.Model.SimultaneousProto
import TxV.Proofs.Simultaneous
/-!
Driver of C12 (`condition()`): line protocol of `TxV/Model/SimultaneousProto.lean`.
The `Checks` are the decidable hypotheses of the theorems of `TxV/Props/C12.lean` / `C13.lean`
(`TxV.Core.shapeC12B`, `nbrOkB`, `shapeC13B`, `linkEnB`, `derEnB`, `defaultReadyB`, and the core's
`Bridge.staticOk` / `Bridge.cycleOk`), evaluated on the model's post-merge design (which the driver
compares with the real one: `merge=`).
-/
open TxV TxV.Core TxV.Core.Bridge

def TxV.SimulProto.useOf (u : TxV.Simul.Use) : TxV.Core.CondUse := ⟨u.parent, u.branches, u.hasDefault, u.priority⟩

def TxV.SimulProto.checks : TxV.SimulProto.Checks (TxV.Core.Design × TxV.Core.Sched) where
  prep := fun D E order => (toAbs D, toSched E order)
  staticOk := staticOk
  cycleOk := cycleOk
  shape12 := fun a u L Dr => shapeC12B a.1 (TxV.SimulProto.useOf u) L Dr
  nbr := fun a u => nbrOkB a.1 a.2 (TxV.SimulProto.useOf u)
  shape13 := fun a x y L => shapeC13B a.1 x y L
  linkEn := fun a v rb L => linkEnB a.1 ⟨v.ready, v.en, v.arg, fun _ _ => true⟩ rb L
  derEn := fun v rb Dr => derEnB ⟨v.ready, v.en, v.arg, fun _ _ => true⟩ rb Dr
  dflt := fun v u => defaultReadyB ⟨v.ready, v.en, v.arg, fun _ _ => true⟩ (TxV.SimulProto.useOf u)

def main : IO Unit :=
  TxV.Proto.run (none : Option (TxV.SimulProto.St (TxV.Core.Design × TxV.Core.Sched))) (TxV.SimulProto.stepLine TxV.SimulProto.checks)
