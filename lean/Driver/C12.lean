import TxV.Proofs.SimultaneousChecks
/-!
Driver of C12: line protocol of `TxV/Model/SimultaneousProto.lean` (cfg line = real pre-merge and post-merge designs plus
the description of the inputs; valuation lines) with the decidable hypotheses of the theorems of
`TxV/Props/C12.lean` from `TxV/Proofs/SimultaneousChecks.lean`.
-/
def main : IO Unit := TxV.SimulProto.driverMain
