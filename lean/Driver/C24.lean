import TxV.Model.CAM
open TxV TxV.Proto TxV.CAM

/-- `7:3` ↦ (7,3) -/
def pair? (toks : List String) (key : String) : Option (Option (Nat × Nat)) :=
  match kv? toks key with
  | some "-" => some none
  | some v =>
    match (v.splitOn ":").mapM String.toNat? with
    | some [a, b] => some (some (a, b))
    | _ => none
  | none => none

def one? (toks : List String) (key : String) : Option (Option Nat) :=
  match kv? toks key with
  | some "-" => some none
  | some v => v.toNat?.map some
  | none => none

/-- protocol: `cfg n=4` → `ok` ;
    `cyc r=5 w=3:7 x=- p=4:9` (read key / write key:data / remove key / push key:data, `-` = no call)
    → `r=12:0 w=1 x=- p=1 rdy=1`  (read data:not_found, write not_found, remove/push done, push ready) -/
def stepLine (s : State) (line : String) : State × String :=
  let t := tokens line
  match t.head? with
  | some "cfg" =>
    match nat? t "n" with
    | some n => (init n, "ok")
    | none => (s, "bad-op")
  | some "cyc" =>
    match one? t "r", pair? t "w", one? t "x", pair? t "p" with
    | some r, some w, some x, some p =>
      let (s', o) := step s ⟨r, w, x, p⟩
      let rs := match o.read with | some (d, nf) => s!"{d}:{showBool nf}" | none => "-"
      let ws := match o.write with | some nf => showBool nf | none => "-"
      let xs := if o.remove then "1" else "-"
      let ps := if o.push then "1" else "-"
      (s', s!"r={rs} w={ws} x={xs} p={ps} rdy={showBool (pushReady s)}")
    | _, _, _, _ => (s, "bad-op")
  | _ => (s, "bad-op")

def main : IO Unit := Proto.run (init 1) stepLine
