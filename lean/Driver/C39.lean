import TxV.Model.RoundRobin
open TxV TxV.Proto TxV.RoundRobin

/-- protocol:
    `cfg comp=onehot n=5` → `ok` ; `cyc r=10` → `grant=2 valid=1`  (combinational outputs of the cycle;
       `grant` is the one-hot vector as a number)
    `cfg comp=bin n=5`    → `ok` ; `cyc r=10` → `grant=0 valid=0`  (registers sampled before the edge) -/
structure DState where
  comp : String
  n : Nat
  g : Nat
  bin : BinState

def stepLine (s : DState) (line : String) : DState × String :=
  let t := tokens line
  match t.head? with
  | some "cfg" =>
    match kv? t "comp", nat? t "n" with
    | some "onehot", some n => ({ comp := "onehot", n := n, g := init, bin := binInit }, "ok")
    | some "bin", some n => ({ comp := "bin", n := n, g := init, bin := binInit }, "ok")
    | _, _ => ({ s with comp := "" }, "bad-op")
  | some "cyc" =>
    match nat? t "r" with
    | none => (s, "bad-op")
    | some r =>
      if s.comp == "onehot" then
        let (g', o) := rrStep s.n s.g (reqOf r)
        ({ s with g := g' }, s!"grant={o.grant} valid={showBool o.valid}")
      else if s.comp == "bin" then
        let s' := binStep s.n s.bin (reqOf r)
        ({ s with bin := s' }, s!"grant={s.bin.grant} valid={showBool s.bin.valid}")
      else (s, "bad-op")
  | _ => (s, "bad-op")

def main : IO Unit := Proto.run ({ comp := "", n := 1, g := init, bin := binInit } : DState) stepLine
