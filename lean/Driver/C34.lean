import TxV.Model.HwLogging
open TxV TxV.Proto TxV.HwLogging

/-!
protocol (one output line per input line; all texts are hex strings of their UTF-8 bytes):

`cfg level=20 n=2 r0=30/1/0/0/612e62/L783d;F2b303564;L2073 r1=40/1/1/1/61/N` → `ok`
   per record: level / namespace-regexp matches / registered by a top_* function / is an assertion /
   logger name / chunks (`L<text>` literal, `F<spec>` format chunk, `N` = no chunks); optional `py=1011`:
   per record whether Python's logging configuration lets its messages through (only what is printed
   in `m=` is filtered by it; `err`/`dead` come from the model unfiltered).
`cyc r0=11/1/3,26984 r1=N/0/N tab=2b303564:i3:2b30303033,…` → `m=0.30.612e62.783d2b30303033… err=0`
   per record: enclosing conditions (bits, `N` = none) / value of the trigger (asserted) expression /
   sampled field values; `tab` is Python's `format(value, spec)` for the (spec, value) pairs of this
   cycle (`<spec>:i<int>|s<bytes>:<result>`), the only thing the model does not compute itself.
   answer: reported messages `<record>.<level>.<logger>.<text>` in order, `err=1` when `on_error` is
   called in this cycle; `dead` for every cycle after that (the simulation has ended with a failure).
-/

structure TabEntry where
  spec : String
  key : String
  out : String

structure St where
  level : Nat := 0
  recs : List Rec := []
  py : List Bool := []   -- per record: Python's logging lets its messages through (display filter only)
  cycle : Nat := 0
  dead : Bool := false   -- `run` has returned a failing cycle: the simulation is over

def splitN (sep : String) (s : String) : List String :=
  if s == "" || s == "N" then [] else s.splitOn sep

def allSome {α} : List (Option α) → Option (List α)
  | [] => some []
  | none :: _ => none
  | some a :: rest => (allSome rest).map (a :: ·)

def hexVal (c : Char) : Option Nat :=
  if '0' ≤ c ∧ c ≤ '9' then some (c.toNat - '0'.toNat)
  else if 'a' ≤ c ∧ c ≤ 'f' then some (c.toNat - 'a'.toNat + 10)
  else none

def hexBytes : List Char → Option (List Nat)
  | [] => some []
  | [_] => none
  | a :: b :: rest =>
    match hexVal a, hexVal b, hexBytes rest with
    | some x, some y, some l => some ((16 * x + y) :: l)
    | _, _, _ => none

/-- hex → the (ASCII) string itself; used for format specifiers only -/
def unhex (s : String) : Option String := (hexBytes s.toList).map fun bs => String.ofList (bs.map Char.ofNat)

def hexDigit (n : Nat) : Char := if n < 10 then Char.ofNat (n + '0'.toNat) else Char.ofNat (n - 10 + 'a'.toNat)

def hexOf (bs : List Nat) : String := String.ofList (bs.flatMap fun b => [hexDigit (b / 16 % 16), hexDigit (b % 16)])

def parseChunk (s : String) : Option Chunk :=
  match s.toList with
  | 'L' :: rest => some (.lit (String.ofList rest))
  | 'F' :: rest => (unhex (String.ofList rest)).map Chunk.fmt
  | _ => none

def parseRec (t : List String) (i : Nat) : Option Rec :=
  match kv? t s!"r{i}" with
  | some v =>
    match v.splitOn "/" with
    | [lv, ok, top, neg, lg, ch] =>
      match lv.toNat?, allSome ((splitN ";" ch).map parseChunk) with
      | some l, some cs => some ⟨l, ok == "1", top == "1", neg == "1", lg, cs⟩
      | _, _ => none
    | _ => none
  | none => none

def parseBits (s : String) : Option (List Bool) :=
  if s == "N" then some [] else
  allSome (s.toList.map fun c => if c == '1' then some true else if c == '0' then some false else none)

def parseRecIn (t : List String) (i : Nat) : Option RecIn :=
  match kv? t s!"r{i}" with
  | some v =>
    match v.splitOn "/" with
    | [cs, tr, vs] =>
      match parseBits cs, tr.toNat?, allSome ((splitN "," vs).map String.toInt?) with
      | some conds, some tv, some vals => some ⟨conds, tv, vals⟩
      | _, _, _ => none
    | _ => none
  | none => none

def parseTab (s : String) : Option (List TabEntry) :=
  allSome ((splitN "," s).map fun e =>
    match e.splitOn ":" with
    | [sp, k, o] => (unhex sp).map fun spec => ⟨spec, k, o⟩
    | _ => none)

def keyOf : FVal → String
  | .int n => s!"i{n}"
  | .str bs => s!"s{hexOf bs}"

/-- Python's `format`, as tabulated by the harness; `3f` ("?") for a pair that was not tabulated -/
def renderOf (tab : List TabEntry) : Render := fun spec v =>
  match tab.find? (fun e => e.spec == spec && e.key == keyOf v) with
  | some e => e.out
  | none => "3f"

def showMsg (m : Msg) : String :=
  s!"{m.idx}.{m.level}.{m.logger}.{m.text.getD "!"}"

def stepLine (s : St) (line : String) : St × String :=
  let t := tokens line
  match t.head? with
  | some "cfg" =>
    match nat? t "level", nat? t "n" with
    | some l, some n =>
      match allSome ((List.range n).map (parseRec t)) with
      | some recs =>
        let py := match kv? t "py" with
          | some b => b.toList.map (· == '1')
          | none => recs.map fun _ => true
        if py.length == recs.length then ({ level := l, recs := recs, py := py }, "ok") else (s, "bad-op")
      | none => (s, "bad-op")
    | _, _ => (s, "bad-op")
  | some "cyc" =>
    match allSome ((List.range s.recs.length).map (parseRecIn t)), parseTab ((kv? t "tab").getD "N") with
    | some ins, some tab =>
      if s.dead then (s, "dead") else
      -- one more cycle of the process: `run` on the one-cycle remainder of the trace
      let res := run (renderOf tab) s.level s.recs s.cycle [ins]
      match res.1 with
      | [ms0] =>
        let err := res.2 == some s.cycle
        -- Python-side filtering (`logging.disable`, logger levels) drops messages, nothing else
        let ms := ms0.filter fun m => s.py[m.idx]?.getD true
        ({ s with cycle := s.cycle + 1, dead := err },
          s!"m={if ms.isEmpty then "-" else ";".intercalate (ms.map showMsg)} err={if err then "1" else "0"}")
      | _ => (s, "bad-op")
    | _, _ => (s, "bad-op")
  | _ => (s, "bad-op")

def main : IO Unit := Proto.run ({} : St) stepLine
