import TxV.Model.TransformersProto
open TxV TxV.Proto TxV.TransformersProto

/-- C18 driver: protocol documented in `TxV/Model/TransformersProto.lean` -/
def main : IO Unit := Proto.run Cfg.none stepLine
