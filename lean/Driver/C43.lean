import TxV.Model.Testbench
open TxV TxV.Proto TxV.Testbench

/-!
protocol (one output line per input line)

  cfg w=8 fn=<ka>,<kb>,<kc>,<ne> prog=k,c5,t3,k,c7        → ok | bad-cfg
      w    data width;  fn  the mocked function: ret = (ka*arg + kb*len(log) + kc*sum(log)) mod 2^w,
      registered effects = ne payloads arg, arg+1, … (mod 2^w);  prog  the testbench process
      (c<d> = call, t<d> = call_try, k = tick; `-` = no process: raw mode)
  cyc p=1,0,1 e=0 men=1 val=12          three phases (rdy only)            (command mode)
  cyc p=1x1x5,0x1x7,1x0x7 e=1 men=0 val=3     phases rdy x en x data_in    (raw mode)
      e = the mock re-enables after phase e, men = enable(), val = the design's `val` input
      → en=1 done=1 ret=17 app=5,6 evt=c:17
        en   wrapper adapter.en at the edge        done  adapter.done at the edge (= method ran)
        ret  adapter.data_out if done else -       app   payloads of the mock effects applied after this edge
        evt  - | c:<v> (call returned v) | t:<v> | t:- (call_try returned v / None)
-/

structure DState where
  f : MockFn
  s : Sys
  ok : Bool

def mkFn (w ka kb kc ne : Nat) : MockFn :=
  { ret := fun log arg => (ka * arg + kb * log.length + kc * log.sum) % 2 ^ w,
    effs := fun _ arg => (List.range ne).map fun i => (arg + i) % 2 ^ w }

def DState.empty : DState := { f := mkFn 1 0 0 0 0, s := Sys.init 1 [], ok := false }

def parseCmd (s : String) : Option Cmd :=
  if s == "k" then some .tick
  else match s.toList with
    | 'c' :: r => (String.ofList r).toNat?.map .call
    | 't' :: r => (String.ofList r).toNat?.map .try_
    | _ => none

def parseProg (s : String) : Option (List Cmd) :=
  if s == "-" then some [] else (s.splitOn ",").mapM parseCmd

def parseBit (s : String) : Option Bool :=
  if s == "1" then some true else if s == "0" then some false else none

def parsePhase (s : String) : Option Phase :=
  match s.splitOn "x" with
  | [r] => do pure { rdy := ← parseBit r, raw := none }
  | [r, e, d] => do pure { rdy := ← parseBit r, raw := some (← parseBit e, ← d.toNat?) }
  | _ => none

def parseCfg (t : List String) : Option DState := do
  let w ← nat? t "w"
  let prog ← parseProg (← kv? t "prog")
  match natList (← kv? t "fn") with
  | [ka, kb, kc, ne] => pure { f := mkFn w ka kb kc ne, s := Sys.init w prog, ok := true }
  | _ => none

def parseCyc (t : List String) : Option CycIn := do
  let ps ← ((← kv? t "p").splitOn ",").mapM parsePhase
  let e ← nat? t "e"
  let men ← parseBit (← kv? t "men")
  let val ← nat? t "val"
  pure { phases := ps, e := e, men := men, val := val }

def showEvt : Option Evt → String
  | none => "-"
  | some (.called v) => s!"c:{v}"
  | some (.tried v) => s!"t:{showOpt v}"

def stepLine (st : DState) (line : String) : DState × String :=
  let t := tokens line
  match t.head? with
  | some "cfg" =>
    match parseCfg t with
    | some s => (s, "ok")
    | none => (DState.empty, "bad-cfg")
  | some "cyc" =>
    if !st.ok then (st, "bad-op") else
    match parseCyc t with
    | none => (st, "bad-op")
    | some i =>
      let (s', o) := st.s.step st.f i
      ({ st with s := s' },
       s!"en={showBool o.en} done={showBool o.done} ret={showOpt o.ret} app={showList o.applied} evt={showEvt o.evt}")
  | _ => (st, "bad-op")

def main : IO Unit := Proto.run DState.empty stepLine
