import TxV.Model.Testbench
open TxV TxV.Proto TxV.Testbench

/-!
protocol (one output line per input line)

  cfg w=8 fn=<ka>,<kb>,<kc>,<ne>,<kn> prog=k,c5,t3,k,c7        → ok | bad-cfg
      w    data width;  fn  the mocked function, reading the Python-side state x of the cycle (`x=` below):
      returns None if kn > 0 and (arg + len(log)) mod kn = 0, else ret = (ka*arg + kb*len(log) + kc*sum(log) + x) mod 2^w;
      registered effects = ne payloads arg+x, arg+x+1, … (mod 2^w);  prog  the testbench process
      (c<d> = call, t<d> = call_try, k = tick; `-` = no process: raw mode)
  cyc p=1,0,1 e=0 men=1 val=12 x=3      three phases (rdy only)            (command mode)
  cyc p=1x1x5,0x1x7,1x0x7 e=1 men=0 val=3 x=0     phases rdy x en x data_in    (raw mode)
      e = the mock re-enables after phase e, men = enable(), val = the design's `val` input,
      x = the Python-side state read by the mocked function when the mock re-enables (and until the edge)
      → en=1 done=1 ret=17 app=5,6 evt=c:17
        en   wrapper adapter.en at the edge        done  adapter.done at the edge (= method ran)
        ret  adapter.data_out if done else -       app   payloads of the mock effects applied after this edge
        evt  - | c:<v> (call returned v) | t:<v> | t:- (call_try returned v / None)

  multi-call CallTrigger (three plain methods, method m returns (arg + val + 7*m) mod 2^w, ready iff g bit):
  cfg mode=trig w=6 prog=k,U:c0.5+c1.9+s2+v,A:c0.3+c1.4,O:c1.7,k
      k = tick; O/U/A = await once / until_done / until_all_done of the trigger with entries joined by `+`:
      c<m>.<d> = .call(method m, d), s<m> = .sample(method m), v = .sample(val signal)
  cyc g=101 x=-,-,5 val=9       g = ready bit per method, x = data another agent enables the adapter with (`-` none)
      → en=101 done=100 evt=12/9/3    adapter.en / adapter.done per method; evt = returned tuple joined by `/`
        (a None element is printed as a dash), or a single dash when nothing is returned
-/

structure DState where
  f : Nat → MockFn
  s : Sys
  ok : Bool
  trig : Option TCaller := none     -- `mode=trig`
  w : Nat := 1

def mkFn (w ka kb kc ne kn x : Nat) : MockFn :=
  MockFn.ofPy
    (fun log arg =>
      if kn > 0 && (arg + log.length) % kn == 0 then none
      else some ((ka * arg + kb * log.length + kc * log.sum + x) % 2 ^ w))
    (fun _ arg => (List.range ne).map fun i => (arg + x + i) % 2 ^ w)

def DState.empty : DState := { f := mkFn 1 0 0 0 0 0, s := Sys.init 1 [], ok := false }

def parseCmd (s : String) : Option Cmd :=
  if s == "k" then some .tick
  else match s.toList with
    | 'c' :: r => (String.ofList r).toNat?.map .call
    | 't' :: r => (String.ofList r).toNat?.map .try_
    | _ => none

def parseProg (s : String) : Option (List Cmd) :=
  if s == "-" then some [] else (s.splitOn ",").mapM parseCmd

def parseBit (s : String) : Option Bool :=
  if s == "1" then some true else if s == "0" then some false else none

def parsePhase (s : String) : Option Phase :=
  match s.splitOn "x" with
  | [r] => do pure { rdy := ← parseBit r, raw := none }
  | [r, e, d] => do pure { rdy := ← parseBit r, raw := some (← parseBit e, ← d.toNat?) }
  | _ => none

def parseCfg (t : List String) : Option DState := do
  let w ← nat? t "w"
  let prog ← parseProg (← kv? t "prog")
  match natList (← kv? t "fn") with
  | [ka, kb, kc, ne, kn] => pure { f := mkFn w ka kb kc ne kn, s := Sys.init w prog, ok := true }
  | _ => none

def parseCyc (t : List String) : Option CycIn := do
  let ps ← ((← kv? t "p").splitOn ",").mapM parsePhase
  let e ← nat? t "e"
  let men ← parseBit (← kv? t "men")
  let val ← nat? t "val"
  let x ← nat? t "x"
  pure { phases := ps, e := e, men := men, val := val, x := x }

def parseEntry (s : String) : Option Entry :=
  if s == "v" then some .value
  else match s.toList with
    | 's' :: r => (String.ofList r).toNat?.map .samp
    | 'c' :: r =>
      match (String.ofList r).splitOn "." with
      | [m, d] => do pure (.call (← m.toNat?) (← d.toNat?))
      | _ => none
    | _ => none

def parseTCmd (s : String) : Option TCmd :=
  if s == "k" then some .tick
  else match s.splitOn ":" with
    | [m, es] => do
      let mode ← if m == "O" then some Mode.once else if m == "U" then some .anyDone
                 else if m == "A" then some .allDone else none
      let es ← (es.splitOn "+").mapM parseEntry
      pure (.trig es mode)
    | _ => none

def parseTrigCfg (t : List String) : Option DState := do
  let w ← nat? t "w"
  let ps ← kv? t "prog"
  let prog ← if ps == "-" then some [] else (ps.splitOn ",").mapM parseTCmd
  pure { DState.empty with ok := true, trig := some { prog := prog }, w := w }

def parseOptNat (s : String) : Option (Option Nat) :=
  if s == "-" then some none else s.toNat?.map some

def parseTEnv (w : Nat) (t : List String) : Option TEnv := do
  let g ← (← kv? t "g").toList.mapM fun c => if c == '1' then some true else if c == '0' then some false else none
  let x ← ((← kv? t "x").splitOn ",").mapM parseOptNat
  let val ← nat? t "val"
  if g.length != 3 || x.length != 3 then none
  pure { ext := fun m => (x.getD m none).map (· % 2 ^ w), grant := fun m => g.getD m false,
         out := fun m a => (a + val + 7 * m) % 2 ^ w, value := val % 2 ^ w }

def showBits (f : Nat → Bool) : String := String.join ((List.range 3).map fun m => showBool (f m))

def showTuple : Option (List (Option Nat)) → String
  | none => "-"
  | some rs => "/".intercalate (rs.map showOpt)

def showEvt : Option Evt → String
  | none => "-"
  | some (.called v) => s!"c:{v}"
  | some (.tried v) => s!"t:{showOpt v}"

def stepLine (st : DState) (line : String) : DState × String :=
  let t := tokens line
  match t.head? with
  | some "cfg" =>
    if kv? t "mode" == some "trig" then
      match parseTrigCfg t with
      | some s => (s, "ok")
      | none => (DState.empty, "bad-cfg")
    else
    match parseCfg t with
    | some s => (s, "ok")
    | none => (DState.empty, "bad-cfg")
  | some "cyc" =>
    if !st.ok then (st, "bad-op") else
    if let some c := st.trig then
      match parseTEnv st.w t with
      | none => (st, "bad-op")
      | some e =>
        let (c', o) := c.step e
        ({ st with trig := some c' }, s!"en={showBits o.en} done={showBits o.done} evt={showTuple o.evt}")
    else
    match parseCyc t with
    | none => (st, "bad-op")
    | some i =>
      let (s', o) := st.s.step (st.f i.x) i
      ({ st with s := s' },
       s!"en={showBool o.en} done={showBool o.done} ret={showOpt o.ret} app={showList o.applied} evt={showEvt o.evt}")
  | _ => (st, "bad-op")

def main : IO Unit := Proto.run DState.empty stepLine
