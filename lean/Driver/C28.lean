import TxV.Model.Pipeline
open TxV TxV.Proto TxV.Pipeline

/-!
protocol (one output line per input line); an empty record / list is written as a single minus sign:
  `cfg w=8,8,4 n0=E/0/1/1/EMPTY/0:0:EMPTY;1:0:EMPTY n1=C/0/1/1/0,1/2:3:1.2 n2=E/0/4/0/1,2/EMPTY`  gives `ok`
      (EMPTY stands for the minus sign here)
      `w`  = width of field 0,1,2...;  node `i`: `kind/nodep/cap/isPipe/req/gen/vpred`  (vpred: EMPTY or `field:mask`, the node's
      method validates `(field & mask) != 0`)
      kind `E` external (`add_external`), `C` computed (called method / function stage);
      `req` = comma list of field ids; `gen` = `;`-separated `field:const:c1.c2...[:width]` (coefficients per
      required field; `width` when the stage redefines the field with another shape)
  `live`  gives  `live 0,1|0,1,2|EMPTY`   (fields live after each node, `get_live_signals`)
  `cyc c=0 e0=1/0:5,1:7/n e1=0/EMPTY/n`   event per node: `fire/x/entry` with records `f:v,f:v`, entry `n` = none
      gives `c=0 o0=EMPTY/0:5,1:7/n o1=.`   per node `ret/gen/ent` (`.` = nothing happened)
      or `reject <reason>` if the label is not enabled in the automaton (sticky until the next cfg)
-/

structure DState where
  nodes : List Node
  descs : List Desc
  st : State
  dead : Bool

def splitNats (sep : String) (s : String) : Option (List Nat) :=
  if s == "-" || s == "" then some [] else (s.splitOn sep).mapM String.toNat?

def parseRec (s : String) : Option Rec :=
  if s == "-" then some [] else
    (s.splitOn ",").mapM fun p =>
      match p.splitOn ":" with
      | [k, v] => match k.toNat?, v.toNat? with
        | some k, some v => some (k, v)
        | _, _ => none
      | _ => none

def showRec (r : Rec) : String :=
  if r.isEmpty then "-" else ",".intercalate (r.map fun p => s!"{p.1}:{p.2}")

def parseGen (s : String) : Option (List GenSpec) :=
  if s == "-" then some [] else
    (s.splitOn ";").mapM fun g =>
      match g.splitOn ":" with
      | [f, c, cs] => match f.toNat?, c.toNat?, splitNats "." cs with
        | some f, some c, some cs => some { field := f, const := c, coefs := cs, width := none }
        | _, _, _ => none
      | [f, c, cs, w] => match f.toNat?, c.toNat?, splitNats "." cs, w.toNat? with
        | some f, some c, some cs, some w => some { field := f, const := c, coefs := cs, width := some w }
        | _, _, _, _ => none
      | _ => none

def parseBit (s : String) : Option Bool :=
  if s == "0" then some false else if s == "1" then some true else none

def parseDesc (s : String) : Option Desc :=
  match s.splitOn "/" with
  | [kind, nodep, cap, pipe, req, gen, vp] =>
    let vpred : Option (Option (Nat × Nat)) :=
      if vp == "-" then some none else
        match vp.splitOn ":" with
        | [f, k] => match f.toNat?, k.toNat? with
          | some f, some k => some (some (f, k))
          | _, _ => none
        | _ => none
    match (if kind == "E" then some true else if kind == "C" then some false else none),
          parseBit nodep, cap.toNat?, parseBit pipe, splitNats "," req, parseGen gen, vpred with
    | some e, some nd, some c, some p, some r, some g, some v =>
      some { ext := e, nodep := nd, cap := c, isPipe := p, req := r, gen := g, vpred := v }
    | _, _, _, _, _, _, _ => none
  | _ => none

def parseDescs (t : List String) (fuel : Nat) (i : Nat) : Option (List Desc) :=
  match fuel with
  | 0 => some []
  | fuel + 1 =>
    match kv? t s!"n{i}" with
    | none => some []
    | some v => match parseDesc v, parseDescs t fuel (i + 1) with
      | some d, some ds => some (d :: ds)
      | _, _ => none

def parseEv (s : String) : Option Ev :=
  match s.splitOn "/" with
  | [f, x, e] =>
    match parseBit f, parseRec x, (if e == "n" then some none else (parseRec e).map some) with
    | some f, some x, some e => some { fire := f, x := x, entry := e }
    | _, _, _ => none
  | _ => none

def parseEvs (t : List String) (n : Nat) : Option (List Ev) :=
  (List.range n).mapM fun i => (kv? t s!"e{i}").bind parseEv

def showOut (i : Nat) (o : NodeOut) : String :=
  match o.fired, o.ent with
  | none, none => s!"o{i}=."
  | f, e =>
    let r := match f with | some f => showRec f.ret | none => "."
    let g := match f with | some f => showRec f.gen | none => "."
    let e := match e with | some e => showRec e | none => "n"
    s!"o{i}={r}/{g}/{e}"

def showLive (l : List (List Nat)) : String :=
  "live " ++ "|".intercalate (l.map fun x => showList (sortFields x))

def stepLine (s : DState) (line : String) : DState × String :=
  let t := tokens line
  match t.head? with
  | some "cfg" =>
    match (kv? t "w").bind (splitNats ","), parseDescs t 64 0 with
    | some w, some ds =>
      if ds.isEmpty then ({ s with dead := true }, "bad-op") else
      let nodes := mkNodes w ds
      ({ nodes := nodes, descs := ds, st := init nodes, dead := false }, "ok")
    | _, _ => ({ s with dead := true }, "bad-op")
  | some "live" => (s, showLive (liveAfter s.descs))
  | some "cyc" =>
    if s.dead then (s, "reject (earlier line rejected)") else
    match parseEvs t s.nodes.length, (kv? t "c").bind parseBit with
    | some evs, some c =>
      match step s.nodes s.st { evs := evs, clear := c } with
      | .ok (st', outs) =>
        ({ s with st := st' }, s!"c={showBool c} " ++ " ".intercalate ((List.zip (List.range outs.length) outs).map fun p => showOut p.1 p.2))
      | .error e => ({ s with dead := true }, s!"reject {e}")
    | _, _ => (s, "bad-op")
  | _ => (s, "bad-op")

def main : IO Unit := Proto.run ({ nodes := [], descs := [], st := [], dead := true } : DState) stepLine
