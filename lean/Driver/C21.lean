import TxV.Model.MemoryBank
open TxV TxV.Proto TxV.BankMem TxV.MemoryBank

def bitList (s : String) : Option (List Bool) :=
  if s == "" then some [] else
  (s.splitOn ",").mapM fun t => if t == "1" then some true else if t == "0" then some false else none

/-- protocol: `cfg depth=5 gran=1 g=4 n=2 t=0 r=1 rp=2` → `ok`
    (`gran` = granularity given, `g`,`n` = chunk width/count, `t` = transparent, `r` = read_on_resp,
     `rp` = number of read ports);
    `cyc q=1,- s=0,1 w=1:171:3,-`  (per read port: read_req address / read_resp attempted; per write
     port `addr:data:mask`, `-` = no call)
    → `q=1,0 s=-,171 w=1,0 rdy=10,01`  (read_req done, read_resp data, write done, and per read port
     the two ready bits read_req.ready read_resp.ready) -/
def stepLine (cs : Cfg × State) (line : String) : (Cfg × State) × String :=
  let t := tokens line
  match t.head? with
  | some "cfg" =>
    match nat? t "depth", nat? t "gran", nat? t "g", nat? t "n", nat? t "t", nat? t "r", nat? t "rp" with
    | some d, some gr, some g, some n, some tr, some ror, some rp =>
      let c : Cfg := ⟨d, gr == 1, g, n, tr == 1, ror == 1⟩
      ((c, init c rp), "ok")
    | _, _, _, _, _, _, _ => (cs, "bad-op")
  | some "cyc" =>
    match (kv? t "q").bind optList, (kv? t "s").bind bitList, (kv? t "w").bind wrList with
    | some qs, some ss, some ws =>
      let (s', o) := step cs.1 cs.2 ⟨qs, ss, ws⟩
      let q := showBits (o.ports.map (·.req))
      let s := showOptList (o.ports.map (·.resp))
      let rdy := ",".intercalate (o.ports.map fun p => showBool p.reqRdy ++ showBool p.respRdy)
      ((cs.1, s'), s!"q={q} s={s} w={showBits o.writes} rdy={rdy}")
    | _, _, _ => (cs, "bad-op")
  | _ => (cs, "bad-op")

def main : IO Unit :=
  let c : Cfg := ⟨1, false, 1, 1, false, false⟩
  Proto.run (c, init c 1) stepLine
