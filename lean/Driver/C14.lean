import TxV.Model.BasicFifo
import TxV.Model.BufferedFifo
open TxV TxV.Proto TxV.BasicFifo TxV.QueueUtil

/-- driver state: which class, depth, model state of each class -/
structure DState where
  cls : String
  depth : Nat
  basic : State
  queue : List Nat
  buf : TxV.BufferedFifo.State := TxV.BufferedFifo.init
  ow : List Nat := []
  or : List Nat := []

/-- protocol:
    `cfg cls=basic depth=5 w=8` → `ok`      (BasicFifo)
    `cfg cls=fifo depth=5 w=8`  → `ok`      (connectors.FIFO over SyncFIFO)
    `cfg cls=fifobuf depth=5 w=8` → `ok`    (connectors.FIFO over SyncFIFOBuffered; same line formats as `fifo`)
    `cfg cls=basic depth=0 …`   → `raise AssertionError`, every following `cyc` line → `-`
    `cyc w=17 r=1 p=0 c=0` (absent write: `w=-`) →
       basic: `w=1 r=42 p=- c=0 rdy=1 lvl=2 ri=0 wi=2 head=42`   (rdy = peek.ready = allocator.free.ready;
              `read.ready`/`write.ready` are constant 1 in the source, their effective readiness shows in the done bits)
       fifo : `w=1 r=42 rdy=11`                                     (rdy = read.ready, write.ready)
    all values sampled before the clock edge -/
def stepLine (s : DState) (line : String) : DState × String :=
  let t := tokens line
  match t.head? with
  | some "cfg" =>
    match kv? t "cls", nat? t "depth" with
    | some "basic", some d =>
      -- CircularAllocator(0) → `mod_add(·, 0, ·, ·)` → `assert mod > 0` (functions.py:62) at elaboration
      if d == 0 then ({ s with cls := "raised" }, "raise AssertionError")
      else ({ cls := "basic", depth := d, basic := init d, queue := [], ow := natListOf t "pw", or := natListOf t "pr" }, "ok")
    | some "fifo", some d => ({ cls := "fifo", depth := d, basic := init d, queue := [], ow := natListOf t "pw", or := natListOf t "pr" }, "ok")
    | some "fifobuf", some d => ({ cls := "fifobuf", depth := d, basic := init d, queue := [], ow := natListOf t "pw", or := natListOf t "pr" }, "ok")
    | _, _ => ({ s with cls := "" }, "bad-op")
  | some "cyc" =>
    match kv? t "w", nat? t "r" with
    | some wtok, some r =>
      let w := if wtok == "-" then some none else wtok.toNat?.map some
      match w with
      | none => (s, "bad-op")
      | some w =>
        if s.cls == "basic" then
          match nat? t "p", nat? t "c" with
          | some p, some c =>
            let i : In := ⟨w, r == 1, p == 1, c == 1⟩
            let (b', o) := step s.depth s.basic i
            ({ s with basic := b' },
             s!"w={showBool o.wr.isSome} r={showOpt o.rd} p={showOpt o.pk} c={showBool o.clr} rdy={showBool o.rrdy} lvl={s.basic.alloc} ri={s.basic.start} wi={s.basic.stop} head={s.basic.rd}")
          | _, _ => (s, "bad-op")
        else if s.cls == "fifo" then
          let (q', o) := specStep s.depth s.queue (fifoIn w (r == 1))
          ({ s with queue := q' }, s!"w={showBool o.wr.isSome} r={showOpt o.rd} rdy={showBool o.rrdy}{showBool o.wrdy}")
        else if s.cls == "fifobuf" then
          let (b', o) := TxV.BufferedFifo.step s.depth s.buf ⟨w, r == 1⟩
          ({ s with buf := b' }, s!"w={showBool o.wr.isSome} r={showOpt o.rd} rdy={showBool o.rrdy}{showBool o.wrdy}")
        else if s.cls == "raised" then (s, "-")
        else (s, "bad-op")
    | _, _ => (s, "bad-op")
  | some "mcyc" =>
    -- several callers per method: `mcyc w=5,- r=1,1 p=0,1 c=0` (fifo: without p, c)
    if s.cls == "basic" then
      match MProto.parseMIn t true with
      | none => (s, "bad-op")
      | some mi =>
        let e := eff s.ow s.or mi
        let (b', o) := step s.depth s.basic ⟨e.w, e.r, e.p, e.c⟩
        ({ s with basic := b' },
         s!"{MProto.showM mi e o.wr o.rd o.pk o.clr true} rdy={showBool o.rrdy} lvl={s.basic.alloc} ri={s.basic.start} wi={s.basic.stop} head={s.basic.rd}")
    else if s.cls == "fifo" then
      match MProto.parseMIn t false with
      | none => (s, "bad-op")
      | some mi =>
        let e := eff s.ow s.or mi
        let (q', o) := specStep s.depth s.queue (fifoIn e.w e.r)
        ({ s with queue := q' }, s!"{MProto.showM mi e o.wr o.rd o.pk o.clr false} rdy={showBool o.rrdy}{showBool o.wrdy}")
    else if s.cls == "fifobuf" then
      match MProto.parseMIn t false with
      | none => (s, "bad-op")
      | some mi =>
        let e := eff s.ow s.or mi
        let (b', o) := TxV.BufferedFifo.step s.depth s.buf ⟨e.w, e.r⟩
        ({ s with buf := b' }, s!"{MProto.showM mi e o.wr o.rd none false false} rdy={showBool o.rrdy}{showBool o.wrdy}")
    else (s, "bad-op")
  | _ => (s, "bad-op")

def main : IO Unit := Proto.run ({ cls := "", depth := 1, basic := init 1, queue := [] } : DState) stepLine
