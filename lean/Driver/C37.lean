import TxV.Model.Shifter
open TxV TxV.Proto TxV.Bits TxV.Shifter

/-- protocol (one result line per input line):
    `cfg …` → `ok`
    `op=shr|shl w=5 x=19 off=2 ph=1`          → `r=28`      (shift_right / shift_left)
    `op=ror|rol w=5 x=19 off=2`               → `r=28`      (rotate_right / rotate_left)
    `op=gsr|gsl w=5 a=19 b=7 off=2`           → `r=…`       (generic_shift_right / _left)
    `op=vshr|vshl ew=3 d=1,2,3,7 off=3 ph=5`  → `r=7,5,5,5` (shift_vec_right / _left)
    `op=vror|vrol ew=3 d=1,2,3,7 off=1`       → `r=2,3,7,1` (rotate_vec_right / _left)
    `op=gvsr|gvsl ew=3 d=1,2 e=3,4 off=1`     → `r=2,3`     (generic_shift_vec_right / _left)
    `op=len f=shr w=5` → `r=5` ; `op=len f=vshr ew=3 n=4` → `r=3,3,3,3` (width of the returned values) -/
def fits (ew : Nat) (l : List Nat) : Bool := l.all (· < 2 ^ ew)

/-- documented result width: scalars keep the operand width, vectors keep length and entry width -/
def evalLen (t : List String) : Option String := do
  let f ← kv? t "f"
  if ["shr", "shl", "ror", "rol", "gsr", "gsl"].contains f then
    let w ← nat? t "w"; some s!"r={w}"
  else if ["vshr", "vshl", "vror", "vrol", "gvsr", "gvsl"].contains f then
    let ew ← nat? t "ew"; let n ← nat? t "n"
    if n = 0 then none else some s!"r={showList (List.replicate n ew)}"
  else none

def eval (t : List String) : Option String := do
  let op ← kv? t "op"
  if op == "len" then evalLen t else
  let off ← nat? t "off"
  let scalar (f : List Bool → List Bool) : Option String := do
    let w ← nat? t "w"; let x ← nat? t "x"
    if x < 2 ^ w then some s!"r={onBits w f x}" else none
  match op with
  | "shr" => do let ph ← nat? t "ph"; if ph > 1 then none else scalar fun v => shiftRight false v off (ph == 1)
  | "shl" => do let ph ← nat? t "ph"; if ph > 1 then none else scalar fun v => shiftLeft false v off (ph == 1)
  | "ror" => scalar fun v => rotateRight false v off
  | "rol" => scalar fun v => rotateLeft false v off
  | "gsr" | "gsl" => do
    let w ← nat? t "w"; let a ← nat? t "a"; let b ← nat? t "b"
    if a < 2 ^ w ∧ b < 2 ^ w then
      let f := if op == "gsr" then genericShiftRight false else genericShiftLeft false
      some s!"r={ofBits (f (toBits w a) (toBits w b) off)}"
    else none
  | "vshr" | "vshl" => do
    let ew ← nat? t "ew"; let ph ← nat? t "ph"
    let d := natListOf t "d"
    if d.isEmpty || !fits ew d || !fits ew [ph] then none
    else some s!"r={showList ((if op == "vshr" then shiftVecRight else shiftVecLeft) ew d off ph)}"
  | "vror" | "vrol" => do
    let ew ← nat? t "ew"
    let d := natListOf t "d"
    if d.isEmpty || !fits ew d then none
    else some s!"r={showList ((if op == "vror" then rotateVecRight else rotateVecLeft) ew d off)}"
  | "gvsr" | "gvsl" => do
    let ew ← nat? t "ew"
    let d := natListOf t "d"; let e := natListOf t "e"
    if d.isEmpty || d.length ≠ e.length || !fits ew d || !fits ew e then none
    else some s!"r={showList ((if op == "gvsr" then genericShiftVecRight else genericShiftVecLeft) ew d e off)}"
  | _ => none

def stepLine (s : Unit) (line : String) : Unit × String :=
  let t := tokens line
  match t.head? with
  | some "cfg" => (s, "ok")
  | _ =>
    match eval t with
    | some r => (s, r)
    | none => (s, "bad-op")

def main : IO Unit := Proto.run () stepLine
