import TxV.Model.Semaphore
open TxV TxV.Proto TxV.Semaphore

/-- protocol:  `cfg max=5` → `ok` ;  `cyc a=1 r=0 c=0` → `a=1 r=0 c=0 rdy=10 cnt=3`
    (`rdy` = acquire_ready,release_ready and `cnt` = count, both sampled before the edge) -/
def stepLine (s : State) (line : String) : State × String :=
  let t := tokens line
  match t.head? with
  | some "cfg" => (init (natD t "max" 1), "ok")
  | some "cyc" =>
    let i : In := { acq := flag t "a", rel := flag t "r", clr := flag t "c" }
    let (s', o) := step s i
    (s', s!"a={showBool o.acq} r={showBool o.rel} c={showBool o.clr} rdy={showBool (acquireReady s)}{showBool (releaseReady s)} cnt={s.count}")
  | _ => (s, "bad-op")

def main : IO Unit := Proto.run (init 1) stepLine
