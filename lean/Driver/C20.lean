import TxV.Model.Semaphore
open TxV TxV.Proto TxV.Semaphore

/-- protocol:  `cfg max=5 [ao=0 ro=0]` → `ok` ;  `cyc a=1 r=0 c=0` → `a=1 r=0 c=0 rdy=10 cnt=3`
    (`rdy` = acquire_ready,release_ready and `cnt` = count, both sampled before the edge).
    Two callers per method: `mcyc a=1/1 r=0/1 c=0` → `a=1/0 r=0/1 c=0 rdy=11 cnt=3`.  `acquire` and `release`
    are exclusive methods: of the callers attempting, the one the real scheduler serves first (`ao`/`ro` of the
    cfg line, probed on the real circuit) is granted when the method is ready; the component sees the union. -/
structure DState where
  s : State
  ao : Nat := 0
  ro : Nat := 0

def pair (t : List String) (key : String) : Option (Bool × Bool) :=
  match (kv? t key).map (·.splitOn "/") with
  | some ["0", "0"] => some (false, false)
  | some ["0", "1"] => some (false, true)
  | some ["1", "0"] => some (true, false)
  | some ["1", "1"] => some (true, true)
  | _ => none

/-- which caller is served: the first attempting one in the scheduler's order -/
def winner (first : Nat) (x : Bool × Bool) : Option Nat :=
  if first == 0 then (if x.1 then some 0 else if x.2 then some 1 else none)
  else (if x.2 then some 1 else if x.1 then some 0 else none)

def stepLine (d : DState) (line : String) : DState × String :=
  let t := tokens line
  match t.head? with
  | some "cfg" => ({ s := init (natD t "max" 1), ao := natD t "ao" 0, ro := natD t "ro" 0 }, "ok")
  | some "cyc" =>
    let i : In := { acq := flag t "a", rel := flag t "r", clr := flag t "c" }
    let (s', o) := step d.s i
    ({ d with s := s' }, s!"a={showBool o.acq} r={showBool o.rel} c={showBool o.clr} rdy={showBool (acquireReady d.s)}{showBool (releaseReady d.s)} cnt={d.s.count}")
  | some "mcyc" =>
    match pair t "a", pair t "r" with
    | some a, some r =>
      let i : In := { acq := a.1 || a.2, rel := r.1 || r.2, clr := flag t "c" }
      let (s', o) := step d.s i
      let aw := winner d.ao a
      let rw := winner d.ro r
      let g (w : Option Nat) (done : Bool) (k : Nat) : String := showBool (done && w == some k)
      ({ d with s := s' },
       s!"a={g aw o.acq 0}/{g aw o.acq 1} r={g rw o.rel 0}/{g rw o.rel 1} c={showBool o.clr} " ++
       s!"rdy={showBool (acquireReady d.s)}{showBool (releaseReady d.s)} cnt={d.s.count}")
    | _, _ => (d, "bad-op")
  | _ => (d, "bad-op")

def main : IO Unit := Proto.run ({ s := init 1 } : DState) stepLine
