import TxV.Model.MultiportMemIlvt
open TxV TxV.Proto TxV.MultiportMem

/-!
protocol (one output line per input line):

`cfg cls=<mr|xor|xilvt|ohilvt|lvt|oh> depth=5 w=4 g=0,0 tr=3,0 init=1,2,3`
   `g`   = granularity per write port (0 = None; `-` = no write port),
   `tr`  = per read port the set of write ports it is transparent for (bit `j` = port `j`),
   `init` = initial rows (`-` = none)
   → `ok`, or `raise <Exception>` when the constructor / `write_port()` refuses the configuration
`cyc w=<en>:<addr>:<data>,… r=<en>:<addr>,…`  (`w=-` when there is no write port)
   → `d=<data of every read port of the modelled class> ref=<data of every read port of the ideal memory>`

`cls=oh` is the bare `OneHotCodedILVT`: `d` is its one-hot answer as a number and the reference is an
ideal memory of `nw`-bit rows initialised to 1 into which write port `k` writes `1 <<< k`
(the `data` of the `cyc` line is ignored, as the class ignores it).
-/

inductive Cls | mr | xor | xilvt | ohilvt | lvt | oh
deriving DecidableEq, Inhabited

inductive St
  | none
  | mr (s : MultiRead.State)
  | xor (s : Xor.State)
  | ilvt (s : Ilvt.State)
  | oh (s : OneHot.State)
deriving Inhabited

structure DState where
  cls : Cls := .mr
  c : Cfg := default
  refc : Cfg := default
  st : St := .none
  ref : Ideal.State := default
deriving Inhabited

def parseCls : String → Option Cls
  | "mr" => some .mr | "xor" => some .xor | "xilvt" => some .xilvt
  | "ohilvt" => some .ohilvt | "lvt" => some .lvt | "oh" => some .oh | _ => none

/-- strict list of naturals: `-` ↦ [], any malformed element ↦ none -/
def natListS (s : String) : Option (List Nat) :=
  if s == "-" then some [] else (s.splitOn ",").mapM String.toNat?

def wrListS (s : String) : Option (List WrIn) :=
  if s == "-" then some [] else
  (s.splitOn ",").mapM fun t =>
    match (t.splitOn ":").mapM String.toNat? with
    | some [e, a, d] => some ⟨e, a, d⟩
    | _ => none

def rdListS (s : String) : Option (List RdIn) :=
  if s == "-" then some [] else
  (s.splitOn ",").mapM fun t =>
    match (t.splitOn ":").mapM String.toNat? with
    | some [e, a] => if e ≤ 1 then some ⟨e == 1, a⟩ else none
    | _ => none

/-- what the constructors refuse (memory.py:53-62, 137-140, 199-202, 318-321) -/
def rejects (cls : Cls) (c : Cfg) : Option String :=
  if (cls == .xor || cls == .oh) && c.grans.any (· != 0) then some "ValueError"
  else if cls == .mr && c.nw > 1 then
    (if c.grans.take 1 |>.any (fun g => g != 0 && c.w % g != 0) then some "ValueError"
     else some "IncorrectWritePortNumber")
  else if c.grans.any (fun g => g != 0 && c.w % g != 0) then some "ValueError"
  else none

def ilvtKind : Cls → Ilvt.Kind
  | .xilvt => .xor | .ohilvt => .onehot | _ => .plain

def stepLine (s : DState) (line : String) : DState × String :=
  let t := tokens line
  match t.head? with
  | some "cfg" =>
    match (kv? t "cls").bind parseCls, nat? t "depth", nat? t "w",
          (kv? t "g").bind natListS, (kv? t "tr").bind natListS, (kv? t "init").bind natListS with
    | some cls, some depth, some w, some g, some tr, some init =>
      let c : Cfg := { depth := depth, w := w, init := init, grans := g, trs := tr }
      match rejects cls c with
      | some e => ({ cls := cls, c := c, refc := c, st := .none, ref := default }, s!"raise {e}")
      | none =>
        let refc : Cfg :=
          if cls == .oh then { depth := depth, w := c.nw, init := tab depth (fun _ => 1),
                               grans := tab c.nw (fun _ => 0), trs := tab c.nr (fun _ => 0) }
          else c
        let st : St := match cls with
          | .mr => .mr (MultiRead.init c)
          | .xor => .xor (Xor.init c)
          | .oh => .oh (OneHot.init depth c.nw c.nr)
          | k => .ilvt (Ilvt.init (ilvtKind k) c)
        ({ cls := cls, c := c, refc := refc, st := st, ref := Ideal.init refc }, "ok")
    | _, _, _, _, _, _ => (s, "bad-op")
  | some "cyc" =>
    match (kv? t "w").bind wrListS, (kv? t "r").bind rdListS with
    | some ws, some rs =>
      if ws.length != s.c.nw || rs.length != s.c.nr then (s, "bad-op") else
      let i : In := ⟨ws, rs⟩
      let refi : In :=
        if s.cls == .oh then ⟨tab s.c.nw (fun k => ⟨(i.w k).en, (i.w k).addr, 1 <<< k⟩), rs⟩ else i
      let refOut := Ideal.out s.refc s.ref
      let ref' := Ideal.step s.refc s.ref refi
      match s.st with
      | .none => (s, "bad-op")
      | .mr m =>
        ({ s with st := .mr (MultiRead.step s.c m i), ref := ref' },
         s!"d={showList (MultiRead.out s.c m)} ref={showList refOut}")
      | .xor m =>
        ({ s with st := .xor (Xor.step s.c m i), ref := ref' },
         s!"d={showList (Xor.out s.c m)} ref={showList refOut}")
      | .ilvt m =>
        ({ s with st := .ilvt (Ilvt.step s.c m i), ref := ref' },
         s!"d={showList (Ilvt.out s.c m)} ref={showList refOut}")
      | .oh m =>
        ({ s with st := .oh (OneHot.step s.c.nw s.c.nr m i), ref := ref' },
         s!"d={showList (OneHot.out s.c.nw s.c.nr m)} ref={showList refOut}")
    | _, _ => (s, "bad-op")
  | _ => (s, "bad-op")

def main : IO Unit := Proto.run (default : DState) stepLine
