import TxV.Model.Latency
open TxV TxV.Proto TxV.Metrics TxV.Latency

/-!
protocol (one component per case, selected by the `cfg` line):

  `cfg kind=wide ways=2 slots=3 msta=2 msto=2 ml=10`   (FIFOLatencyMeasurer: `kind=fifo`, msta = msto = 1)
      `cyc a=-,2 o=1,-`   per way: start count / stop count (`-` = not attempted)
      → `a=0,1 o=1,0 cnt=.. sum=.. min=.. max=.. b=..`   executed starts / stops, histogram registers
  `cfg kind=tagged ways=2 slots=5 ml=10`
      `cyc a=3,- o=-,1`   per way: start slot / stop slot
      → same output format

Everything is sampled before the clock edge.
-/

inductive St where
  | none
  | fifo (unit : Bool) (ways : Nat) (c : Cfg) (s : State)   -- unit: FIFOLatencyMeasurer, every count is 1
  | tagged (ways : Nat) (c : Latency.TCfg) (s : TState)

def optNatList (s : String) : Option (List (Option Nat)) :=
  (s.splitOn ",").mapM fun t => if t == "-" then some none else t.toNat?.map some

def showBits (l : List Bool) : String := showList (l.map Bool.toNat)

def showHist (h : Hist) : String :=
  s!"cnt={h.count} sum={h.sum} min={h.min} max={h.max} b={showList h.buckets}"

def stepLine (s : St) (line : String) : St × String :=
  let t := tokens line
  match t.head? with
  | some "cfg" =>
    match kv? t "kind", nat? t "ways", nat? t "slots", nat? t "ml" with
    | some "wide", some ways, some slots, some ml =>
      match nat? t "msta", nat? t "msto" with
      | some msta, some msto =>
        if msta = 0 ∨ msto = 0 then (St.none, "bad-op") else
        let c : Cfg := { slotsReq := slots, msta := msta, msto := msto, maxLat := ml }
        (St.fifo false ways c (init c ways), "ok")
      | _, _ => (St.none, "bad-op")
    | some "fifo", some ways, some slots, some ml =>
      let c : Cfg := { slotsReq := slots, msta := 1, msto := 1, maxLat := ml }
      (St.fifo true ways c (init c ways), "ok")
    | some "tagged", some _ways, some slots, some ml =>
      let c : Latency.TCfg := { slots := slots, maxLat := ml }
      (St.tagged _ways c (tInit c), "ok")
    | _, _, _, _ => (St.none, "bad-op")
  | some "cyc" =>
    match (kv? t "a").bind optNatList, (kv? t "o").bind optNatList with
    | some a, some o =>
      match s with
      | St.none => (s, "bad-op")
      | St.fifo unit ways c st =>
        if a.length = ways ∧ o.length = ways ∧ a.all (fun x => x.all (· ≤ c.msta)) ∧ o.all (fun x => x.all (· ≤ c.msto))
            ∧ (unit = false ∨ (a ++ o).all (fun x => x.all (· == 1))) then
          let ins := a.zip o
          let outs := coreOuts c.slots c.msto st.core ins
          (St.fifo unit ways c (step c st ins),
            s!"a={showBits (outs.map (·.startDone))} o={showBits (outs.map (·.stopDone))} {showHist st.hist}")
        else (s, "bad-op")
      | St.tagged ways c st =>
        if a.length = ways ∧ o.length = ways ∧ a.all (fun x => x.all (· < c.slots)) ∧ o.all (fun x => x.all (· < c.slots)) then
          let ins := a.zip o
          (St.tagged ways c (tStep c st ins),
            s!"a={showBits (a.map Option.isSome)} o={showBits (o.map Option.isSome)} {showHist st.hist}")
        else (s, "bad-op")
    | _, _ => (s, "bad-op")
  | _ => (s, "bad-op")

def main : IO Unit := Proto.run St.none stepLine
