import TxV.Model.ReqResProto
open TxV TxV.Proto TxV.ReqResProto

/-- C19 driver: protocol documented in `TxV/Model/ReqResProto.lean` -/
def main : IO Unit := Proto.run Cfg.none stepLine
