import TxV.Model.Metrics
open TxV TxV.Proto TxV.Metrics

/-!
protocol (one component per case, selected by the `cfg` line):

  `cfg kind=counter w=3 ways=2`            `cyc i=1,0`      → `d=1,0 cnt=5`
  `cfg kind=tagged w=4 tw=3 ways=2 tags=-2,0,3`  `cyc t=-,3`  → `d=0,1 oh=0 c=0,1,2`
  `cfg kind=hist n=5 sw=4 rw=6 ways=2`     `cyc s=-,7`      → `d=0,1 cnt=1 sum=7 min=7 max=7 b=0,0,0,1,0`

`d` = executed calls per way (all attempted calls execute), registers as sampled before the edge.
-/

inductive St where
  | none
  | counter (ways : Nat) (s : Counter)
  | tagged (ways : Nat) (c : TCfg) (s : List Nat)
  | hist (ways : Nat) (c : HCfg) (s : Hist)

/-- `-,3,-2` ↦ [none, some 3, some (-2)]; anything unparsable ↦ none -/
def optIntList (s : String) : Option (List (Option Int)) :=
  (s.splitOn ",").mapM fun t => if t == "-" then some none else t.toInt?.map some

def intList (s : String) : Option (List Int) := (s.splitOn ",").mapM String.toInt?

def toNatOpt : Option Int → Option (Option Nat)
  | none => some none
  | some v => if 0 ≤ v then some (some v.toNat) else none

def showBits (l : List Bool) : String := showList (l.map Bool.toNat)

def stepLine (s : St) (line : String) : St × String :=
  let t := tokens line
  match t.head? with
  | some "cfg" =>
    match kv? t "kind", nat? t "ways" with
    | some "counter", some ways =>
      match nat? t "w" with
      | some w => (St.counter ways (Counter.init w), "ok")
      | none => (St.none, "bad-op")
    | some "tagged", some ways =>
      match nat? t "w", nat? t "tw", (kv? t "tags").bind intList with
      | some w, some tw, some tags =>
        let c : TCfg := { tags := tags, tagW := tw, w := w }
        (St.tagged ways c c.init, "ok")
      | _, _, _ => (St.none, "bad-op")
    | some "hist", some ways =>
      match nat? t "n", nat? t "sw", nat? t "rw" with
      | some n, some sw, some rw =>
        let c : HCfg := { n := n, sw := sw, rw := rw }
        (St.hist ways c c.init, "ok")
      | _, _, _ => (St.none, "bad-op")
    | _, _ => (St.none, "bad-op")
  | some "cyc" =>
    match s with
    | St.none => (s, "bad-op")
    | St.counter ways st =>
      match (kv? t "i").bind optIntList with
      | some l =>
        if l.length = ways ∧ l.all (fun o => o == some 0 || o == some 1) then
          let bits := l.map (· == some 1)
          (St.counter ways (st.step bits), s!"d={showBits bits} cnt={st.count}")
        else (s, "bad-op")
      | none => (s, "bad-op")
    | St.tagged ways c st =>
      match (kv? t "t").bind optIntList with
      | some l =>
        if l.length = ways then
          (St.tagged ways c (c.step st l), s!"d={showBits (l.map Option.isSome)} oh={showBool c.oneHot} c={showList st}")
        else (s, "bad-op")
      | none => (s, "bad-op")
    | St.hist ways c st =>
      match ((kv? t "s").bind optIntList).bind (fun l => l.mapM toNatOpt) with
      | some l =>
        if l.length = ways ∧ l.all (fun o => o.all (· < 2 ^ c.sw)) then
          (St.hist ways c (c.step st l),
            s!"d={showBits (l.map Option.isSome)} cnt={st.count} sum={st.sum} min={st.min} max={st.max} b={showList st.buckets}")
        else (s, "bad-op")
      | none => (s, "bad-op")
  | _ => (s, "bad-op")

def main : IO Unit := Proto.run St.none stepLine
