import TxV.Model.Metrics
open TxV TxV.Proto TxV.Metrics

/-!
protocol (one component per case, selected by the `cfg` line):

  `cfg kind=counter w=3 ways=2`            `cyc i=1,0`      → `d=1,0 cnt=5`
  `cfg kind=tagged w=4 tw=3 ways=2 tags=-2,0,3`  `cyc t=-,3`  → `d=0,1 oh=0 c=0,1,2`
  `cfg kind=hist n=5 sw=4 rw=6 ways=2`     `cyc s=-,7`      → `d=0,1 cnt=1 sum=7 min=7 max=7 b=0,0,0,1,0`

`d` = executed calls per way (all attempted calls execute), registers as sampled before the edge.
-/

inductive St where
  | none
  | counter (ways : Nat) (s : Counter)
  | tagged (ways : Nat) (c : TCfg) (s : List Nat)
  | hist (ways : Nat) (c : HCfg) (s : Hist)

/-- `-,3,-2` ↦ [none, some 3, some (-2)]; anything unparsable ↦ none -/
def optIntList (s : String) : Option (List (Option Int)) :=
  (s.splitOn ",").mapM fun t => if t == "-" then some none else t.toInt?.map some

def intList (s : String) : Option (List Int) := (s.splitOn ",").mapM String.toInt?

def toNatOpt : Option Int → Option (Option Nat)
  | none => some none
  | some v => if 0 ≤ v then some (some v.toNat) else none

def showBits (l : List Bool) : String := showList (l.map Bool.toNat)

/-- Two callers per way (each caller is a separate transaction calling the same exclusive method
    `incr[k]` / `add[k]`): the transaction manager grants at most one of two competing callers per way
    and cycle; which one is a static priority of the real manager, passed in as `prio` (index of the
    winning caller per way).  This is driver glue (arbitration is C01–C07's business): the metric
    model itself sees, per way, the executed call. -/
def arbitrate {α} (prio : List Nat) (a b : List (Option α)) : List (Option α × Bool × Bool) :=
  (prio.zip (a.zip b)).map fun (p, x, y) =>
    match x, y with
    | some u, some v => if p = 0 then (some u, true, false) else (some v, false, true)
    | some u, none => (some u, true, false)
    | none, some v => (some v, false, true)
    | none, none => (none, false, false)

structure DS where
  prio : Option (List Nat)     -- none: one caller per way
  st : St

/-- attempts of the callers ↦ (executed call per way, text of the done bits) -/
def callers (ds : DS) (ways : Nat) (t : List String) (key : String) (zeroIsNone : Bool := false) :
    Option (List (Option Int) × String) :=
  let norm (l : List (Option Int)) : List (Option Int) :=
    if zeroIsNone then l.map (fun o => if o == some 0 then none else o) else l
  match ((kv? t key).bind optIntList).map norm with
  | none => none
  | some l1 =>
    if l1.length ≠ ways then none else
    match ds.prio with
    | none => some (l1, s!"d={showBits (l1.map Option.isSome)}")
    | some prio =>
      match ((kv? t (key ++ "2")).bind optIntList).map norm with
      | none => none
      | some l2 =>
        if l2.length ≠ ways then none else
        let r := arbitrate prio l1 l2
        some (r.map (·.1), s!"d={showBits (r.map (·.2.1))} d2={showBits (r.map (·.2.2))}")

def stepLine (ds : DS) (line : String) : DS × String :=
  let s := ds.st
  let t := tokens line
  let bad : DS × String := (ds, "bad-op")
  match t.head? with
  | some "cfg" =>
    let fresh (st : St) (ways : Nat) : DS × String :=
      match kv? t "prio" with
      | none => ({ prio := none, st := st }, "ok")
      | some v =>
        let p := natList v
        if p.length = ways ∧ p.all (· ≤ 1) then ({ prio := some p, st := st }, "ok") else ({ prio := none, st := St.none }, "bad-op")
    match kv? t "kind", nat? t "ways" with
    | some "counter", some ways =>
      match nat? t "w" with
      | some w => fresh (St.counter ways (Counter.init w)) ways
      | none => ({ prio := none, st := St.none }, "bad-op")
    | some "tagged", some ways =>
      match nat? t "w", nat? t "tw", (kv? t "tags").bind intList with
      | some w, some tw, some tags =>
        let c : TCfg := { tags := tags, tagW := tw, w := w }
        fresh (St.tagged ways c c.init) ways
      | _, _, _ => ({ prio := none, st := St.none }, "bad-op")
    | some "hist", some ways =>
      match nat? t "n", nat? t "sw", nat? t "rw" with
      | some n, some sw, some rw =>
        let c : HCfg := { n := n, sw := sw, rw := rw }
        fresh (St.hist ways c c.init) ways
      | _, _, _ => ({ prio := none, st := St.none }, "bad-op")
    | _, _ => ({ prio := none, st := St.none }, "bad-op")
  | some "cyc" =>
    match s with
    | St.none => bad
    | St.counter ways st =>
      match callers ds ways t "i" true with
      | some (l, d) =>
        -- an attempted incr is written `1`; `0` and `-` both mean "not attempted"
        if l.all (fun o => o == none || o == some 1) then
          let bits := l.map (· == some 1)
          ({ ds with st := St.counter ways (st.step bits) }, s!"{d} cnt={st.count}")
        else bad
      | none => bad
    | St.tagged ways c st =>
      match callers ds ways t "t" with
      | some (l, d) => ({ ds with st := St.tagged ways c (c.step st l) }, s!"{d} oh={showBool c.oneHot} c={showList st}")
      | none => bad
    | St.hist ways c st =>
      match (callers ds ways t "s").bind (fun (l, d) => (l.mapM toNatOpt).map (·, d)) with
      | some (l, d) =>
        if l.all (fun o => o.all (· < 2 ^ c.sw)) then
          ({ ds with st := St.hist ways c (c.step st l) },
            s!"{d} cnt={st.count} sum={st.sum} min={st.min} max={st.max} b={showList st.buckets}")
        else bad
      | none => bad
  | _ => bad

def main : IO Unit := Proto.run ({ prio := none, st := St.none } : DS) stepLine
