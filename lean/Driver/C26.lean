import TxV.Model.POAllocator
open TxV TxV.Proto TxV.POAllocator

/-- protocol:
    `cfg n=3 ff=1` → `ok`   (`ff` = `free` has priority over `free_idx` when both are attempted)
    `cyc a=1 f=- x=- o=1 c=0` → `a=0 f=0 x=0 o=0:0,1,2 c=0 rdy=1`
    input: `a` alloc attempt, `f` free(ident) or `-`, `x` free_idx(idx) or `-`, `o` order attempt, `c` clear.
    output: returned identifier or `-`; done bits of free, free_idx; `used:order` or `-`; done bit of
    clear; `rdy` = alloc.ready.  Arguments that do not fit the argument signal are `bad-op`. -/
def parseCall (t : List String) (key : String) : Option (Option Nat) :=
  match kv? t key with
  | some "-" => some none
  | some v => (v.toNat?).map some
  | none => none

def stepLine (ns : (Nat × Bool) × State) (line : String) : ((Nat × Bool) × State) × String :=
  let ((n, ff), s) := ns
  let t := tokens line
  match t.head? with
  | some "cfg" =>
    match nat? t "n" with
    | some n' => if n' = 0 then (ns, "bad-op") else (((n', natD t "ff" 1 == 1), init n'), "ok")
    | none => (ns, "bad-op")
  | some "cyc" =>
    match nat? t "a", parseCall t "f", parseCall t "x", nat? t "o", nat? t "c" with
    | some a, some f, some x, some o, some cl =>
      let lim := 2 ^ bitsFor (n - 1)
      if a > 1 || o > 1 || cl > 1 || f.getD 0 ≥ lim || x.getD 0 ≥ lim then (ns, "bad-op") else
      let i : In := { alloc := a == 1, free := f, freeIdx := x, order := o == 1, clear := cl == 1 }
      let (s', r) := stepP n ff s i
      let so := match r.order with
        | some (u, l) => s!"{u}:{showList l}"
        | none => "-"
      (((n, ff), s'), s!"a={showOpt r.alloc} f={showBool r.free} x={showBool r.freeIdx} o={so} c={showBool r.clear} rdy={showBool (s.used != n)}")
    | _, _, _, _, _ => (ns, "bad-op")
  | _ => (ns, "bad-op")

def main : IO Unit := Proto.run ((1, true), init 1) stepLine
