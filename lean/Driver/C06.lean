import TxV.Model.TModule
open TxV TxV.Proto TxV.TModule

/-!
protocol (one output line per input line)

`cfg t=<prog>` → `ok nw=<#witnesses> nf=<#fsms>`  (`bad-op` when the program does not parse,
  `raise NameError` when an FSM has two states of the same name — what Amaranth does)

  `<prog>` is a comma-separated prefix encoding of a block; a block is a sequence of items closed by `.`:
    `c<w>` `s<w>` `a<w>` `t<w>`   assignment of witness w in comb / sync / av_comb / top_comb
    `n<f>:<st>`                    `m.next = st` of FSM f
    `I` alts `.`                   If-chain; alt = `?<i>` block (If/Elif on condition input i) | `e` block (Else)
    `S<sel>` alts `.`              Switch on selector input sel; alt = `p<v>|<v>|…` block (Case) | `e` block (Default)
    `F<f>:<init>` states `.`       FSM f with init state; state = `q<st>` block
    `B<r>` block                   AvoidedIf / transaction or method body with run signal r

`cyc c=<bits> s=<v,v,…> r=<bits> [fst=<f>:<st>,…]` → `r=<bits echoed> w=<bits> st=<v,v,…>`
  c: condition inputs (bit string, index 0 first), s: selector values, r: run signals as sampled from
  the real circuit, fst: FSM state registers overwritten by the testbench before this cycle.
  w: the witnesses in program order, sampled at the edge (comb/av/top: in effect; sync: toggle register);
  st: FSM states (in order of FSM definition) sampled at the edge.
-/

def splitAt1 (s : String) : String × String := ((s.take 1).toString, (s.drop 1).toString)

def parsePair (s : String) : Option (Nat × Nat) :=
  match s.splitOn ":" with
  | [a, b] => do
    let x ← a.toNat?
    let y ← b.toNat?
    pure (x, y)
  | _ => none

def parsePats (s : String) : Option (List Nat) :=
  if s == "" then some [] else (s.splitOn "|").mapM String.toNat?

mutual
def parseBlk : Nat → List String → Option (TBlk × List String)
  | 0, _ => none
  | _, [] => none
  | n + 1, tok :: rest =>
    if tok == "." then some (.nil, rest) else
    let (k, a) := splitAt1 tok
    if k == "c" || k == "s" || k == "a" || k == "t" then do
      let w ← a.toNat?
      let d := if k == "c" then Dom.comb else if k == "s" then Dom.sync else if k == "a" then Dom.av else Dom.top
      let (b, r) ← parseBlk n rest
      pure (.leaf (.assign d w) b, r)
    else if k == "n" then do
      let (f, st) ← parsePair a
      let (b, r) ← parseBlk n rest
      pure (.leaf (.next f st) b, r)
    else if k == "I" then do
      let (al, r) ← parseAlts n rest
      let (b, r) ← parseBlk n r
      pure (.ifc al b, r)
    else if k == "S" then do
      let sel ← a.toNat?
      let (al, r) ← parseAlts n rest
      let (b, r) ← parseBlk n r
      pure (.sw sel al b, r)
    else if k == "F" then do
      let (f, ini) ← parsePair a
      let (sts, r) ← parseStates n rest
      let (b, r) ← parseBlk n r
      pure (.fsm f ini sts b, r)
    else if k == "B" then do
      let run ← a.toNat?
      let (body, r) ← parseBlk n rest
      let (b, r) ← parseBlk n r
      pure (.avoided run body b, r)
    else none
def parseAlts : Nat → List String → Option (TAlts × List String)
  | 0, _ => none
  | _, [] => none
  | n + 1, tok :: rest =>
    if tok == "." then some (.nil, rest) else
    let (k, a) := splitAt1 tok
    if k == "?" then do
      let i ← a.toNat?
      let (b, r) ← parseBlk n rest
      let (al, r) ← parseAlts n r
      pure (.cons (.cond i) b al, r)
    else if k == "e" then do
      let (b, r) ← parseBlk n rest
      let (al, r) ← parseAlts n r
      pure (.cons .els b al, r)
    else if k == "p" then do
      let ps ← parsePats a
      let (b, r) ← parseBlk n rest
      let (al, r) ← parseAlts n r
      pure (.cons (.pats ps) b al, r)
    else none
def parseStates : Nat → List String → Option (TStates × List String)
  | 0, _ => none
  | _, [] => none
  | n + 1, tok :: rest =>
    if tok == "." then some (.nil, rest) else
    let (k, a) := splitAt1 tok
    if k == "q" then do
      let st ← a.toNat?
      let (b, r) ← parseBlk n rest
      let (sts, r) ← parseStates n r
      pure (.cons st b sts, r)
    else none
end

def parseProg (s : String) : Option TBlk :=
  let toks := s.splitOn ","
  match parseBlk (toks.length + 1) toks with
  | some (t, []) => some t
  | _ => none

def bitsOf (s : String) : List Bool := s.toList.map (· == '1')

def showBits (l : List Bool) : String := String.ofList (l.map fun b => if b then '1' else '0')

structure DState where
  prog : Option TBlk
  st : State

def applyForce (s : State) (forces : List (Nat × Nat)) : State :=
  { s with fsm := s.fsm.map fun (f, st) => (f, ((forces.lookup f)).getD st) }

def stepLine (d : DState) (line : String) : DState × String :=
  let t := tokens line
  match t.head? with
  | some "cfg" =>
    match (kv? t "t").bind parseProg with
    | some p =>
      if p.wf then
        (⟨some p, init p⟩, s!"ok nw={(witnesses p).length} nf={(fsmInits p).length}")
      else (⟨none, ⟨[], []⟩⟩, "raise NameError")
    | none => (⟨none, ⟨[], []⟩⟩, "bad-op")
  | some "cyc" =>
    match d.prog, kv? t "c", kv? t "r" with
    | some p, some c, some r =>
      let cs := bitsOf (if c == "-" then "" else c)
      let rs := bitsOf (if r == "-" then "" else r)
      let ss := natListOf t "s"
      let forces? : Option (List (Nat × Nat)) :=
        match kv? t "fst" with
        | none => some []
        | some f => (f.splitOn ",").mapM parsePair
      match forces? with
      | none => (d, "bad-op")
      | some forces =>
        let s0 := applyForce d.st forces
        let i : Inp := ⟨fun k => cs.getD k false, fun k => ss.getD k 0, fun k => rs.getD k false⟩
        let (s1, out) := step p s0 i
        (⟨some p, s1⟩, s!"r={if rs.isEmpty then "-" else showBits rs} w={if out.isEmpty then "-" else showBits out} st={showList (s0.fsm.map (·.2))}")
    | _, _, _ => (d, "bad-op")
  | _ => (d, "bad-op")

def main : IO Unit := Proto.run (⟨none, ⟨[], []⟩⟩ : DState) stepLine
