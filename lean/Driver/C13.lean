import TxV.Proofs.SimultaneousChecks
/-!
Driver of C13: line protocol of `TxV/Model/SimultaneousProto.lean` (cfg line = real pre-merge and post-merge designs plus
the description of the inputs; valuation lines) with the decidable hypotheses of the theorems of
`TxV/Props/C13.lean` from `TxV/Proofs/SimultaneousChecks.lean`.
-/
def main : IO Unit := TxV.SimulProto.driverMain
