import TxV.Model.AssignIO
/-! C40 driver: see TxV/Model/AssignIO.lean for the protocol. -/
def main : IO Unit := TxV.Proto.run () TxV.Assign.IO.stepLine
