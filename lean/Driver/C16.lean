import TxV.Model.Stack
open TxV TxV.Proto TxV.Stack TxV.QueueUtil

structure DState where
  ok : Bool
  depth : Nat
  st : State
  ow : List Nat := []
  or : List Nat := []

/-- protocol:
    `cfg depth=5 w=8` → `ok`
    `cyc w=17 r=1 p=0 c=0` (no write attempt: `w=-`) → `w=1 r=42 p=- c=0 rdy=111 lvl=2 head=42`
    (`rdy` = read.ready, peek.ready, write.ready; `lvl` = level, `head` = read-port register;
     all sampled before the clock edge) -/
def stepLine (s : DState) (line : String) : DState × String :=
  let t := tokens line
  match t.head? with
  | some "cfg" =>
    match nat? t "depth" with
    | some d => ({ ok := true, depth := d, st := init d, ow := natListOf t "pw", or := natListOf t "pr" }, "ok")
    | none => ({ s with ok := false }, "bad-op")
  | some "cyc" =>
    match s.ok, kv? t "w", nat? t "r", nat? t "p", nat? t "c" with
    | true, some wtok, some r, some p, some c =>
      let w := if wtok == "-" then some none else wtok.toNat?.map some
      match w with
      | none => (s, "bad-op")
      | some w =>
        let (st', o) := step s.depth s.st ⟨w, r == 1, p == 1, c == 1⟩
        ({ s with st := st' },
         s!"w={showBool o.wr.isSome} r={showOpt o.rd} p={showOpt o.pk} c={showBool o.clr} rdy={showBool o.rrdy}{showBool o.rrdy}{showBool o.wrdy} lvl={s.st.level} head={s.st.rd}")
    | _, _, _, _, _ => (s, "bad-op")
  | some "mcyc" =>
    match s.ok, MProto.parseMIn t true with
    | true, some mi =>
      let e := eff s.ow s.or mi
      let (st', o) := step s.depth s.st ⟨e.w, e.r, e.p, e.c⟩
      ({ s with st := st' },
       s!"{MProto.showM mi e o.wr o.rd o.pk o.clr true} rdy={showBool o.rrdy}{showBool o.rrdy}{showBool o.wrdy} lvl={s.st.level} head={s.st.rd}")
    | _, _ => (s, "bad-op")
  | _ => (s, "bad-op")

def main : IO Unit := Proto.run ({ ok := false, depth := 1, st := init 1 } : DState) stepLine
