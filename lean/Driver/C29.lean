import TxV.Model.Stream
open TxV TxV.Proto TxV.Stream

/-- protocol (every exclusive method has two independent callers 0/1; `wp`/`rp` = which caller the
    TransactionManager prefers when both attempt, probed on the real circuit):
    `cfg comp=source wp=0`                   → `ok`
    `cyc w0=5 w1=- rdy=1` (`-`: no attempt)  → `valid=0 payload=0 wrdy=1 w0=1 w1=0`
    `cfg comp=sink rp=0`                     → `ok`
    `cyc v=1 p=5 r0=1 r1=1 k0=1 k1=0`        → `rdy=1 r0=5 r1=- k0=5 k1=-`
    `cfg comp=wrap mod=pass|reg|stutter|dup w=8 k=1 ish=u8 osh=s8 wp=0 rp=1` → `ok`
        (`ish`/`osh`: payload shapes of the wrapped module's `i`/`o`; `s<w>` = signed: values read are
         printed in the signed interpretation)
    `shape`                                  → `shape w=u8 r=s8 mi=u8 mo=s8`  (layout of write's argument /
         read's result must be the module's i / o payload shape)
    `cyc w0=5 w1=- r0=1 r1=0`                → `wrdy=1 w0=1 w1=0 r0=- r1=- iv=0 ip=0 ir=1 ov=0 op=1 or=0` -/
structure WCfg where
  w : Nat
  ish : String
  osh : String
  wp : Bool
  rp : Bool

inductive DState where
  | none
  | source (wp : Bool) (s : Source.State)
  | sink (rp : Bool)
  | wpass (c : WCfg) (k : Nat) (s : Wrapper.State Unit)
  | wreg (c : WCfg) (k : Nat) (s : Wrapper.State (Bool × Nat))
  | wstut (c : WCfg) (s : Wrapper.State (Bool × Bool × Nat))
  | wdup (c : WCfg) (s : Wrapper.State (Nat × Nat))

def bit? (t : List String) (k : String) : Option Bool :=
  match kv? t k with
  | some "0" => some false
  | some "1" => some true
  | _ => Option.none

/-- `key=-` ↦ some none, `key=17` ↦ some (some 17), otherwise none (malformed) -/
def optNat? (t : List String) (k : String) : Option (Option Nat) :=
  match kv? t k with
  | some "-" => some Option.none
  | some v => v.toNat?.map some
  | Option.none => Option.none

/-- a `w`-bit value in the interpretation of shape `sh` (`s…` = signed) -/
def showVal (sh : String) (w : Nat) (v : Nat) : String :=
  if sh.startsWith "s" && !sh.startsWith "st" && w > 0 && v ≥ 2 ^ (w - 1) then s!"-{2 ^ w - v}" else toString v

def showOptVal (sh : String) (w : Nat) : Option Nat → String
  | none => "-"
  | some v => showVal sh w v

structure WIn where
  w0 : Option Nat
  w1 : Option Nat
  r0 : Bool
  r1 : Bool

def wIn? (t : List String) : Option WIn :=
  match optNat? t "w0", optNat? t "w1", bit? t "r0", bit? t "r1" with
  | some w0, some w1, some r0, some r1 => some { w0 := w0, w1 := w1, r0 := r0, r1 := r1 }
  | _, _, _, _ => Option.none

/-- one wrapper cycle with two callers per method: arbitration, then the single-caller model -/
def wstep {σ : Type} (c : WCfg) (M : Stream.Mod σ) (st : Wrapper.State σ) (i : WIn) : Wrapper.State σ × String :=
  let gw := grant c.wp i.w0.isSome i.w1.isSome
  let gr := grant c.rp i.r0 i.r1
  let (st', o) := Wrapper.step M st { write := pickArg c.wp i.w0 i.w1, read := gr.isSome }
  let e := o.port
  let wd (j : Bool) := showBool (deliver gw j o.written).isSome
  let rd (j : Bool) := showOptVal c.osh c.w (deliver gr j o.read)
  (st', s!"wrdy={showBool o.wready} w0={wd false} w1={wd true} r0={rd false} r1={rd true} iv={showBool e.iv} ip={e.ip} ir={showBool e.ir} ov={showBool e.ov} op={showVal c.osh c.w e.op} or={showBool e.ordy}")

def wcfg? (t : List String) : Option WCfg :=
  match nat? t "w", kv? t "ish", kv? t "osh", bit? t "wp", bit? t "rp" with
  | some w, some i, some o, some wp, some rp => some { w := w, ish := i, osh := o, wp := wp, rp := rp }
  | _, _, _, _, _ => Option.none

def showShape (c : WCfg) : String := s!"shape w={c.ish} r={c.osh} mi={c.ish} mo={c.osh}"

def stepLine (s : DState) (line : String) : DState × String :=
  let t := tokens line
  match t.head? with
  | some "cfg" =>
    match kv? t "comp" with
    | some "source" => match bit? t "wp" with
      | some wp => (.source wp Source.init, "ok")
      | Option.none => (.none, "bad-op")
    | some "sink" => match bit? t "rp" with
      | some rp => (.sink rp, "ok")
      | Option.none => (.none, "bad-op")
    | some "wrap" =>
      match kv? t "mod", wcfg? t, nat? t "k" with
      | some "pass", some c, some k => (.wpass c k (Wrapper.init (passMod c.w k)), "ok")
      | some "reg", some c, some k => (.wreg c k (Wrapper.init (regMod c.w k)), "ok")
      | some "stutter", some c, _ => (.wstut c (Wrapper.init stutterMod), "ok")
      | some "dup", some c, _ => (.wdup c (Wrapper.init dupMod), "ok")
      | _, _, _ => (.none, "bad-op")
    | _ => (.none, "bad-op")
  | some "shape" =>
    match s with
    | .wpass c _ _ => (s, showShape c)
    | .wreg c _ _ => (s, showShape c)
    | .wstut c _ => (s, showShape c)
    | .wdup c _ => (s, showShape c)
    | _ => (s, "bad-op")
  | some "cyc" =>
    match s with
    | .source wp st =>
      match optNat? t "w0", optNat? t "w1", bit? t "rdy" with
      | some w0, some w1, some r =>
        let g := grant wp w0.isSome w1.isSome
        let (st', o) := Source.step st { write := pickArg wp w0 w1, ready := r }
        let wd (j : Bool) := showBool (deliver g j o.written).isSome
        (.source wp st', s!"valid={showBool o.valid} payload={o.payload} wrdy={showBool o.wready} w0={wd false} w1={wd true}")
      | _, _, _ => (s, "bad-op")
    | .sink rp =>
      match bit? t "v", nat? t "p", bit? t "r0", bit? t "r1", bit? t "k0", bit? t "k1" with
      | some v, some p, some r0, some r1, some k0, some k1 =>
        let o := Sink.step2 rp { valid := v, payload := p, r0 := r0, r1 := r1, k0 := k0, k1 := k1 }
        (s, s!"rdy={showBool o.ready} r0={showOpt o.r0} r1={showOpt o.r1} k0={showOpt o.k0} k1={showOpt o.k1}")
      | _, _, _, _, _, _ => (s, "bad-op")
    | .wpass c k st =>
      match wIn? t with
      | some i => let (st', o) := wstep c (passMod c.w k) st i; (.wpass c k st', o)
      | Option.none => (s, "bad-op")
    | .wreg c k st =>
      match wIn? t with
      | some i => let (st', o) := wstep c (regMod c.w k) st i; (.wreg c k st', o)
      | Option.none => (s, "bad-op")
    | .wstut c st =>
      match wIn? t with
      | some i => let (st', o) := wstep c stutterMod st i; (.wstut c st', o)
      | Option.none => (s, "bad-op")
    | .wdup c st =>
      match wIn? t with
      | some i => let (st', o) := wstep c dupMod st i; (.wdup c st', o)
      | Option.none => (s, "bad-op")
    | .none => (s, "bad-op")
  | _ => (s, "bad-op")

def main : IO Unit := Proto.run DState.none stepLine
