import TxV.Model.Stream
open TxV TxV.Proto TxV.Stream

/-- protocol:
    `cfg comp=source`                       → `ok`
    `cyc w=5 rdy=1` (`w=-`: no attempt)     → `valid=0 payload=0 wrdy=1 w=1`
    `cfg comp=sink`                         → `ok`
    `cyc v=1 p=5 r=1 k=1`                   → `rdy=1 r=5 k=5`
    `cfg comp=wrap mod=pass|reg|stutter|dup w=8 k=1` → `ok`
    `cyc w=5 r=1`                           → `wrdy=1 w=1 r=- iv=0 ip=0 ir=1 ov=0 op=1 or=0` -/
inductive DState where
  | none
  | source (s : Source.State)
  | sink
  | wpass (w k : Nat) (s : Wrapper.State Unit)
  | wreg (w k : Nat) (s : Wrapper.State (Bool × Nat))
  | wstut (s : Wrapper.State (Bool × Bool × Nat))
  | wdup (s : Wrapper.State (Nat × Nat))

def bit? (t : List String) (k : String) : Option Bool :=
  match kv? t k with
  | some "0" => some false
  | some "1" => some true
  | _ => Option.none

/-- `key=-` ↦ some none, `key=17` ↦ some (some 17), otherwise none (malformed) -/
def optNat? (t : List String) (k : String) : Option (Option Nat) :=
  match kv? t k with
  | some "-" => some Option.none
  | some v => v.toNat?.map some
  | Option.none => Option.none

def showW (o : Wrapper.Out) : String :=
  let e := o.port
  s!"wrdy={showBool o.wready} w={showBool o.written.isSome} r={showOpt o.read} iv={showBool e.iv} ip={e.ip} ir={showBool e.ir} ov={showBool e.ov} op={e.op} or={showBool e.ordy}"

def wIn? (t : List String) : Option Wrapper.In :=
  match optNat? t "w", bit? t "r" with
  | some w, some r => some { write := w, read := r }
  | _, _ => Option.none

def stepLine (s : DState) (line : String) : DState × String :=
  let t := tokens line
  match t.head? with
  | some "cfg" =>
    match kv? t "comp" with
    | some "source" => (.source Source.init, "ok")
    | some "sink" => (.sink, "ok")
    | some "wrap" =>
      match kv? t "mod", nat? t "w", nat? t "k" with
      | some "pass", some w, some k => (.wpass w k (Wrapper.init (passMod w k)), "ok")
      | some "reg", some w, some k => (.wreg w k (Wrapper.init (regMod w k)), "ok")
      | some "stutter", _, _ => (.wstut (Wrapper.init stutterMod), "ok")
      | some "dup", _, _ => (.wdup (Wrapper.init dupMod), "ok")
      | _, _, _ => (.none, "bad-op")
    | _ => (.none, "bad-op")
  | some "cyc" =>
    match s with
    | .source st =>
      match optNat? t "w", bit? t "rdy" with
      | some w, some r =>
        let (st', o) := Source.step st { write := w, ready := r }
        (.source st', s!"valid={showBool o.valid} payload={o.payload} wrdy={showBool o.wready} w={showBool o.written.isSome}")
      | _, _ => (s, "bad-op")
    | .sink =>
      match bit? t "v", nat? t "p", bit? t "r", bit? t "k" with
      | some v, some p, some r, some k =>
        let o := Sink.step { valid := v, payload := p, read := r, peek := k }
        (s, s!"rdy={showBool o.ready} r={showOpt o.read} k={showOpt o.peek}")
      | _, _, _, _ => (s, "bad-op")
    | .wpass w k st =>
      match wIn? t with
      | some i => let (st', o) := Wrapper.step (passMod w k) st i; (.wpass w k st', showW o)
      | Option.none => (s, "bad-op")
    | .wreg w k st =>
      match wIn? t with
      | some i => let (st', o) := Wrapper.step (regMod w k) st i; (.wreg w k st', showW o)
      | Option.none => (s, "bad-op")
    | .wstut st =>
      match wIn? t with
      | some i => let (st', o) := Wrapper.step stutterMod st i; (.wstut st', showW o)
      | Option.none => (s, "bad-op")
    | .wdup st =>
      match wIn? t with
      | some i => let (st', o) := Wrapper.step dupMod st i; (.wdup st', showW o)
      | Option.none => (s, "bad-op")
    | .none => (s, "bad-op")
  | _ => (s, "bad-op")

def main : IO Unit := Proto.run DState.none stepLine
