import TxV.Model.PEAllocator
open TxV TxV.Proto TxV.PEAllocator

/-- protocol:
    `cfg n=5 aw=2 fw=2 init=31 cf=0` → `ok`   (`init` = reset mask reduced to `n` bits, two's complement for
    negative masks; `cf` = `clear` has priority over `replace` when both are attempted)
    `cyc a=10 f=3,- p=1 r=- c=0` → `a=0,- f=10 p=31 r=0 c=0 rdy=11`
    input: `a` one attempt bit per alloc way; `f` per free way the identifier or `-` (empty for 0 ways);
    `p` peek attempt; `r` replace mask or `-`; `c` clear attempt.
    output: per alloc way the returned identifier or `-`; done bits of the free ways; peeked mask or `-`;
    done bits of replace and clear; `rdy` = ready bits of the alloc ways (`encoder.valids`). -/
def parseBits (s : String) : Option (List Bool) :=
  s.toList.mapM fun ch => if ch == '1' then some true else if ch == '0' then some false else none

def parseOptList (s : String) : Option (List (Option Nat)) :=
  if s == "" then some [] else
  (s.splitOn ",").mapM fun t => if t == "-" then some none else t.toNat?.map some

def showBits (l : List Bool) : String := String.join (l.map showBool)

def stepLine (cs : (Cfg × Bool) × State) (line : String) : ((Cfg × Bool) × State) × String :=
  let ((c, cf), s) := cs
  let t := tokens line
  match t.head? with
  | some "cfg" =>
    match nat? t "n", nat? t "aw", nat? t "fw", nat? t "init" with
    | some n, some aw, some fw, some iv =>
      if n = 0 || iv ≥ 2 ^ n then (cs, "bad-op") else
      let c' : Cfg := { n := n, aw := aw, fw := fw, init := bitsOf n iv }
      (((c', natD t "cf" 0 == 1), init c'), "ok")
    | _, _, _, _ => (cs, "bad-op")
  | some "cyc" =>
    match (kv? t "a").bind parseBits, (kv? t "f").bind parseOptList, nat? t "p", kv? t "r", nat? t "c" with
    | some a, some f, some p, some r, some cl =>
      let rep : Option (Option Nat) := if r == "-" then some none else r.toNat?.map some
      match rep with
      | none => (cs, "bad-op")
      | some rep =>
        if a.length ≠ c.aw || f.length ≠ c.fw || p > 1 || cl > 1 || (rep.getD 0) ≥ 2 ^ c.n then (cs, "bad-op") else
        let i : In := { alloc := a, free := f, peek := p == 1, replace := rep.map (bitsOf c.n), clear := cl == 1 }
        let (s', o) := stepP c cf s i
        let sa := ",".intercalate (o.alloc.map showOpt)
        (((c, cf), s'), s!"a={sa} f={showBits o.free} p={showOpt (o.peek.map natOf)} r={showBool o.replace} c={showBool o.clear} rdy={showBits o.rdy}")
    | _, _, _, _, _ => (cs, "bad-op")
  | _ => (cs, "bad-op")

def main : IO Unit := Proto.run ((({ n := 1, aw := 1, fw := 1, init := [true] } : Cfg), false), ({ mask := [true] } : State)) stepLine
