import TxV.Model.WideFifo
open TxV TxV.Proto TxV.WideFifo

/-- protocol:
    `cfg depth=6 rw=2 ww=3 max=1 dw=8` → `ok` (or `raise ValueError` / `raise ZeroDivisionError` as the constructor does,
    `raise AssertionError` as elaboration does for depth 0)
    `cyc r=2 p=1 w=3:3:1,2,3 c=0` (`r=-`/`w=-` = no call attempt; `w=count:max_count:data`) →
    `r=2:1,2 p=2:1,2 w=1 c=0 rdy=111 ri=0.0 wi=1.0`
    (`r`/`p` = returned `count:data` with all `read_width` data entries, `-` if not executed;
     `rdy` = read.ready, peek.ready, write.ready; `ri`/`wi` = `read_idx`/`write_idx` as `row.col`,
     all sampled before the edge) -/
structure DState where
  cfg : Cfg
  dw : Nat     -- data width: write data must fit (the harness flattens the structs; the model does not truncate data)
  ok : Bool
  s : State

def parseW (c : Cfg) (dw : Nat) (v : String) : Option (Option WArg) :=
  if v == "-" then some none else
  match v.splitOn ":" with
  | [a, b, d] =>
    match a.toNat?, b.toNat? with
    | some cnt, some mx =>
      let parts := if d == "-" then [] else d.splitOn ","
      let data := parts.filterMap String.toNat?
      if data.length == parts.length && data.length == c.ww && data.all (· < 2 ^ dw) then some (some ⟨cnt, mx, data⟩) else none
    | _, _ => none
  | _ => none

def parseR (v : String) : Option (Option Nat) :=
  if v == "-" then some none else v.toNat?.map some

def parseB (v : String) : Option Bool :=
  if v == "1" then some true else if v == "0" then some false else none

def showRes : Option RRes → String
  | none => "-"
  | some r => s!"{r.count}:{showList r.data}"

def showIdx (i : Idx) : String := s!"{i.row}.{i.col}"

def stepLine (d : DState) (line : String) : DState × String :=
  let t := tokens line
  match t.head? with
  | some "cfg" =>
    match nat? t "depth", nat? t "rw", nat? t "ww", nat? t "max", nat? t "dw" with
    | some depth, some rw, some ww, some mx, some dw =>
      let c : Cfg := ⟨depth, rw, ww, mx != 0⟩
      if mx > 1 then (d, "bad-op")
      else if c.cols == 0 then ({ d with ok := false }, "raise ZeroDivisionError")
      else if !c.valid then ({ d with ok := false }, "raise ValueError")
      else if c.rows == 0 then ({ d with ok := false }, "raise AssertionError")   -- `mod_incr(…, 0)` at elaboration (fifo.py:291)
      else ({ cfg := c, dw := dw, ok := true, s := init c }, "ok")
    | _, _, _, _, _ => ({ d with ok := false }, "bad-op")
  | some "cyc" =>
    if !d.ok then (d, "bad-op") else
    match (kv? t "r").bind parseR, (kv? t "p").bind parseB, (kv? t "w").bind (parseW d.cfg d.dw), (kv? t "c").bind parseB with
    | some r, some p, some w, some c =>
      let i : In := { read := r, peek := p, write := w, clear := c }
      let (s', o) := step d.cfg d.s i
      ({ d with s := s' },
       s!"r={showRes o.read} p={showRes o.peek} w={showBool o.write} c={showBool o.clear} " ++
       s!"rdy={showBool (readReady d.cfg d.s)}{showBool (peekReady d.cfg d.s)}{showBool (writeReady d.cfg d.s)} " ++
       s!"ri={showIdx d.s.ridx} wi={showIdx d.s.widx}")
    | _, _, _, _ => (d, "bad-op")
  | _ => (d, "bad-op")

def main : IO Unit := Proto.run ({ cfg := ⟨1, 1, 1, false⟩, dw := 0, ok := false, s := init ⟨1, 1, 1, false⟩ } : DState) stepLine
