import TxV.Model.WideFifo
open TxV TxV.Proto TxV.WideFifo

/-- protocol:
    `cfg depth=6 rw=2 ww=3 max=1 dw=8` → `ok` (or `raise ValueError` / `raise ZeroDivisionError` as the constructor does,
    `raise AssertionError` as elaboration does for depth 0)
    `cyc r=2 p=1 w=3:3:1,2,3 c=0` (`r=-`/`w=-` = no call attempt; `w=count:max_count:data`) →
    `r=2:1,2 p=2:1,2 w=1 c=0 rdy=111 ri=0.0 wi=1.0`
    (`r`/`p` = returned `count:data` with all `read_width` data entries, `-` if not executed;
     `rdy` = read.ready, peek.ready, write.ready; `ri`/`wi` = `read_idx`/`write_idx` as `row.col`,
     all sampled before the edge) -/
structure DState where
  cfg : Cfg
  ro : Nat := 0    -- two-caller scenario: index of the `read` caller the real scheduler serves first
  wo : Nat := 0    -- … and of the `write` caller
  dw : Nat     -- data width: write data must fit (the harness flattens the structs; the model does not truncate data)
  ok : Bool
  s : State

def parseW (c : Cfg) (dw : Nat) (v : String) : Option (Option WArg) :=
  if v == "-" then some none else
  match v.splitOn ":" with
  | [a, b, d] =>
    match a.toNat?, b.toNat? with
    | some cnt, some mx =>
      let parts := if d == "-" then [] else d.splitOn ","
      let data := parts.filterMap String.toNat?
      if data.length == parts.length && data.length == c.ww && data.all (· < 2 ^ dw) then some (some ⟨cnt, mx, data⟩) else none
    | _, _ => none
  | _ => none

def parseR (v : String) : Option (Option Nat) :=
  if v == "-" then some none else v.toNat?.map some

def parseB (v : String) : Option Bool :=
  if v == "1" then some true else if v == "0" then some false else none

def showRes : Option RRes → String
  | none => "-"
  | some r => s!"{r.count}:{showList r.data}"

def showIdx (i : Idx) : String := s!"{i.row}.{i.col}"

def stepLine (d : DState) (line : String) : DState × String :=
  let t := tokens line
  match t.head? with
  | some "cfg" =>
    match nat? t "depth", nat? t "rw", nat? t "ww", nat? t "max", nat? t "dw" with
    | some depth, some rw, some ww, some mx, some dw =>
      let c : Cfg := ⟨depth, rw, ww, mx != 0⟩
      if mx > 1 then (d, "bad-op")
      else if c.cols == 0 then ({ d with ok := false }, "raise ZeroDivisionError")
      else if !c.valid then ({ d with ok := false }, "raise ValueError")
      else if c.rows == 0 then ({ d with ok := false }, "raise AssertionError")   -- `mod_incr(…, 0)` at elaboration (fifo.py:291)
      else ({ cfg := c, dw := dw, ok := true, s := init c, ro := natD t "ro" 0, wo := natD t "wo" 0 }, "ok")
    | _, _, _, _, _ => ({ d with ok := false }, "bad-op")
  | some "cyc" =>
    if !d.ok then (d, "bad-op") else
    match (kv? t "r").bind parseR, (kv? t "p").bind parseB, (kv? t "w").bind (parseW d.cfg d.dw), (kv? t "c").bind parseB with
    | some r, some p, some w, some c =>
      let i : In := { read := r, peek := p, write := w, clear := c }
      let (s', o) := step d.cfg d.s i
      ({ d with s := s' },
       s!"r={showRes o.read} p={showRes o.peek} w={showBool o.write} c={showBool o.clear} " ++
       s!"rdy={showBool (readReady d.cfg d.s)}{showBool (peekReady d.cfg d.s)}{showBool (writeReady d.cfg d.s)} " ++
       s!"ri={showIdx d.s.ridx} wi={showIdx d.s.widx}")
    | _, _, _, _ => (d, "bad-op")
  | some "mcyc" =>
    -- two independent callers per method (`r=a/b p=a/b w=a/b c=x`).  `read` and `write` are exclusive methods:
    -- the scheduler serves the first caller, in its static order (`ro`/`wo` of the cfg line, probed on the real
    -- circuit), whose call can run (attempted, method ready, arguments valid); `peek` is nonexclusive: every
    -- attempted call executes when ready.  The component sees the union of the granted calls.
    if !d.ok then (d, "bad-op") else
    let two (key : String) : Option (String × String) :=
      match (kv? t key).map (·.splitOn "/") with
      | some [a, b] => some (a, b)
      | _ => none
    match two "r", two "p", two "w", (kv? t "c").bind parseB with
    | some (r0, r1), some (p0, p1), some (w0, w1), some c =>
      match parseR r0, parseR r1, parseB p0, parseB p1, parseW d.cfg d.dw w0, parseW d.cfg d.dw w1 with
      | some r0, some r1, some p0, some p1, some w0, some w1 =>
        let rs := [r0, r1]
        let ws := [w0, w1]
        let rorder := if d.ro == 0 then [0, 1] else [1, 0]
        let worder := if d.wo == 0 then [0, 1] else [1, 0]
        let rwin := rorder.find? fun k => (rs.getD k none).isSome
        let wok (k : Nat) : Bool :=
          match ws.getD k none with
          | some a => writeReady d.cfg d.s && writeValid d.cfg d.s a
          | none => false
        let wwin := worder.find? wok
        let i : In := { read := rwin.bind (fun k => rs.getD k none), peek := p0 || p1,
                        write := wwin.bind (fun k => ws.getD k none), clear := c }
        let (s', o) := step d.cfg d.s i
        let rres (k : Nat) : String := if rwin == some k then showRes o.read else "-"
        let pres (b : Bool) : String := if b then showRes o.peek else "-"
        let wres (k : Nat) : String := showBool (wwin == some k && o.write)
        ({ d with s := s' },
         s!"r={rres 0}/{rres 1} p={pres p0}/{pres p1} w={wres 0}/{wres 1} c={showBool o.clear} " ++
         s!"rdy={showBool (readReady d.cfg d.s)}{showBool (peekReady d.cfg d.s)}{showBool (writeReady d.cfg d.s)} " ++
         s!"ri={showIdx d.s.ridx} wi={showIdx d.s.widx}")
      | _, _, _, _, _, _ => (d, "bad-op")
    | _, _, _, _ => (d, "bad-op")
  | _ => (d, "bad-op")

def main : IO Unit := Proto.run ({ cfg := ⟨1, 1, 1, false⟩, dw := 0, ok := false, s := init ⟨1, 1, 1, false⟩ } : DState) stepLine
