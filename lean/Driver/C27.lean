import TxV.Model.CircAllocator
open TxV TxV.Proto TxV.CircAllocator

/-- protocol:
    `cfg n=3 ma=2 mf=2 val=1 [s=0 e=0 cnt=0]` → `ok`
    `cyc a=2 f=- c=0` → `a=0,1/2 f=- c=0 s=0 e=0 cnt=0 rdy=10`
    (per executed call: all returned idents `/` new pointer; `s`,`e`,`cnt` = `start_idx`, `end_idx`,
    `allocated` and `rdy` = alloc.ready,free.ready, all sampled before the edge).
    A count that does not fit the argument signal is `bad-op`. -/
def showRes : Option Res → String
  | none => "-"
  | some r => s!"{showList r.idents}/{r.next}"

def parseCall (t : List String) (key : String) : Option (Option Nat) :=
  match kv? t key with
  | some "-" => some none
  | some v => (v.toNat?).map some
  | none => none

def stepLine (cs : Cfg × State) (line : String) : (Cfg × State) × String :=
  let (c, s) := cs
  let t := tokens line
  match t.head? with
  | some "cfg" =>
    match nat? t "n", nat? t "ma", nat? t "mf", nat? t "val" with
    | some n, some ma, some mf, some v =>
      -- optional `s= e= cnt=`: preset registers (exhaustive single-step mode)
      let st : State := { start := natD t "s" 0, end_ := natD t "e" 0, allocated := natD t "cnt" 0 }
      if n = 0 then (cs, "bad-op") else (({ n := n, ma := ma, mf := mf, validate := v == 1 }, st), "ok")
    | _, _, _, _ => (cs, "bad-op")
  | some "cyc" =>
    match parseCall t "a", parseCall t "f", nat? t "c" with
    | some a, some f, some cl =>
      if (a.getD 0) ≥ 2 ^ bitsFor c.ma || (f.getD 0) ≥ 2 ^ bitsFor c.mf || cl > 1 then (cs, "bad-op") else
      let i : In := { alloc := a, free := f, clear := cl == 1 }
      let (s', o) := step c s i
      ((c, s'), s!"a={showRes o.alloc} f={showRes o.free} c={showBool o.clear} s={s.start} e={s.end_} cnt={s.allocated} rdy={showBool (allocReady c s)}{showBool (freeReady c s)}")
    | _, _, _ => (cs, "bad-op")
  | _ => (cs, "bad-op")

def main : IO Unit := Proto.run (({ n := 1, ma := 1, mf := 1, validate := true } : Cfg), init) stepLine
