import TxV.Model.Bits
open TxV TxV.Proto TxV.Bits

/-- protocol (one result line per input line):
    `cfg …` → `ok`
    `op=popcount|ctz|clz w=5 x=19`                                   → `r=3`
    `op=extract|clear|mfrom|mafter|muntil|mbefore w=6 x=20`          → `r=4`
    `op=cmask w=6 s=4 e=1`                                           → `r=51`
    `op=modincr m=5 x=4` ; `op=modadd m=5 mi=4 x=4 i=4`              → `r=0` ; `r=3`
    `op=sum|or|min|max v=5,3,9` ; `op=and w=4 v=5,7,13` (`v=-` empty) → `r=17`
    `op=mux s=2 a=8 b=9` (val1 = a, val0 = b)                        → `r=8`
    `op=switch t=2 k=1/2,3/d/2 v=10,20,30,40` (`d` = default key)    → `r=20` -/
def parseKeys (s : String) : List Key :=
  (s.splitOn "/").map fun k => if k == "d" then none else some (natList k)

def eval (t : List String) : Option Nat := do
  let op ← kv? t "op"
  let bv1 (f : (w : Nat) → BitVec w → BitVec w) : Option Nat := do
    let w ← nat? t "w"; let x ← nat? t "x"
    if x < 2 ^ w then some (f w (BitVec.ofNat w x)).toNat else none
  let bits1 (f : List Bool → Nat) : Option Nat := do
    let w ← nat? t "w"; let x ← nat? t "x"
    if x < 2 ^ w then some (f (toBits w x)) else none
  match op with
  | "len" => do   -- documented width of the returned Value: `op=len f=popcount w=5` → `r=3`
    let w ← nat? t "w"; let f ← kv? t "f"
    match f with
    | "popcount" => some (bitsFor w)
    | "ctz" | "clz" => some (ceilLog2 (w + 1))
    | "extract" | "clear" | "mfrom" | "mafter" | "muntil" | "mbefore" => some w
    | _ => none
  | "popcount" => bits1 popcount
  | "ctz" => bits1 ctz
  | "clz" => bits1 clz
  | "extract" => bv1 fun _ x => extractLowest x
  | "clear" => bv1 fun _ x => clearLowest x
  | "mfrom" => bv1 fun _ x => maskFrom x
  | "mafter" => bv1 fun _ x => maskAfter x
  | "muntil" => bv1 fun _ x => maskUntil x
  | "mbefore" => bv1 fun _ x => maskBefore x
  | "cmask" => do
    let w ← nat? t "w"; let s ← nat? t "s"; let e ← nat? t "e"
    some (cyclicMask w s e)
  | "modincr" => do
    let m ← nat? t "m"; let x ← nat? t "x"
    if m = 0 then none else some (modIncr x m)
  | "modadd" => do
    let m ← nat? t "m"; let mi ← nat? t "mi"; let x ← nat? t "x"; let i ← nat? t "i"
    if m = 0 then none else some (modAdd x m i mi)
  | "sum" => some (sumValue (natListOf t "v"))
  | "or" => some (orValue (natListOf t "v"))
  | "and" => do let w ← nat? t "w"; some (andValue w (natListOf t "v"))
  | "min" => some (minValue (natListOf t "v"))
  | "max" => some (maxValue (natListOf t "v"))
  | "mux" => do
    let s ← nat? t "s"; let a ← nat? t "a"; let b ← nat? t "b"
    some (mux s a b)
  | "switch" => do
    let tv ← nat? t "t"; let ks ← kv? t "k"
    let keys := parseKeys ks
    let vals := natListOf t "v"
    if keys.length ≠ vals.length then none else some (switchValue tv (keys.zip vals))
  | _ => none

def stepLine (s : Unit) (line : String) : Unit × String :=
  let t := tokens line
  match t.head? with
  | some "cfg" => (s, "ok")
  | _ =>
    match eval t with
    | some r => (s, s!"r={r}")
    | none => (s, "bad-op")

def main : IO Unit := Proto.run () stepLine
