import TxV.Model.DepMgr
open TxV TxV.Proto TxV.DepMgr

/-!
protocol
  `cfg n=2 k0=s:1:1:0:- k1=l:0:1:1:7`  → `ok`     key i = kind(s|l|u):lock_on_get:cache:empty_valid:default(-|nat)
  `add k=0 v=5`  → `added` | `raise KeyError`
  `get k=0`      → `ret nat:5` | `ret list:1,2` | `ret list:-` | `ret meth:3` | `ret unif:1,2` | `raise KeyError|RuntimeError`
  `opt k=0`      → the same, plus `ret none`
-/

structure DState where
  n : Nat
  cfg : Cfg
  st : State

def dfltKey : KeyCfg := ⟨.simple, true, true, false, none⟩

def parseKey (s : String) : Option KeyCfg :=
  match s.splitOn ":" with
  | [kd, l, c, e, d] =>
    let kind? : Option Kind := if kd == "s" then some .simple else if kd == "l" then some .list else if kd == "u" then some .unifier else none
    let b? (x : String) : Option Bool := if x == "1" then some true else if x == "0" then some false else none
    let d? : Option (Option Nat) := if d == "-" then some none else d.toNat?.map some
    match kind?, b? l, b? c, b? e, d? with
    | some kind, some l, some c, some e, some d => some ⟨kind, l, c, e, d⟩
    | _, _, _, _, _ => none
  | _ => none

def parseCfg (t : List String) : Option (Nat × List KeyCfg) :=
  match nat? t "n" with
  | none => none
  | some n =>
    let ks := (List.range n).map fun i => (kv? t s!"k{i}").bind parseKey
    if ks.all Option.isSome then some (n, ks.filterMap id) else none

def showVal : Option Val → String
  | none => "none"
  | some (.nat n) => s!"nat:{n}"
  | some (.list l) => s!"list:{showList l}"
  | some (.meth m) => s!"meth:{m}"
  | some (.unif l) => s!"unif:{showList l}"

def showOut : Out → String
  | .added => "added"
  | .ret v => s!"ret {showVal v}"
  | .raised .keyError => "raise KeyError"
  | .raised .runtimeError => "raise RuntimeError"

def parseOp (n : Nat) (t : List String) : Option Op :=
  match t.head?, nat? t "k" with
  | some "add", some k => if k < n then (nat? t "v").map (Op.add k) else none
  | some "get", some k => if k < n then some (.get k) else none
  | some "opt", some k => if k < n then some (.opt k) else none
  | _, _ => none

def stepLine (s : DState) (line : String) : DState × String :=
  let t := tokens line
  match t.head? with
  | some "cfg" =>
    match parseCfg t with
    | some (n, ks) => ({ n := n, cfg := fun k => (ks[k]?).getD dfltKey, st := init }, "ok")
    | none => (s, "bad-op")
  | _ =>
    match parseOp s.n t with
    | some op =>
      let (st', o) := step s.cfg s.st op
      ({ s with st := st' }, showOut o)
    | none => (s, "bad-op")

def main : IO Unit := Proto.run ({ n := 0, cfg := fun _ => dfltKey, st := init } : DState) stepLine
