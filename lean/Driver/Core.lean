import TxV.Model.CoreProto
import TxV.Core.Bridge
import TxV.Core.BridgeEagerFold
/-!
Line protocol of the core (transaction manager) model.

* design line (starts with `{`): one JSON object
  `{"bodies":[B…],"trans":[ids],"meths":[ids],"porder":[ids]|null}` with
  `B = {"t":0|1,"dp":{"m":uid,"p":[[alt,par]…]},"do":n,"nx":0|1,"sc":0|1,"val":null|[kind,c],
        "comb":"mux|or|sum|xor|count","iw":n,"ow":n,"out":[kind(,c)],
        "calls":[{"c":callee,"m":uid,"p":[[alt,par]…],"s":site}],
        "rels":[{"d":dst,"p":"U|L|R","c":0|1,"rd":0|1,"sl":0|1}]}`
  answer: `reject kind=<Reject>` or
  `ok mbt=<t:m,m;…> tbm=<m:t,t;…> cgr=<a-b,…> ccs=<a,b|c> vo=<validOrder of porder> hyp=<Bridge.staticOk> rdl=<Bridge.readyDepLeftOk>`
* valuation line `v r=<bit per body> e=<bit per site> a=<arg per site> l=<local per body>`
  answer: `rn=<runnable per transaction> run=<run per body> act=<active per site>
           din=<data_in per method> dout=<data_out per method> res=<result per site> hx=<exclHolds> cons=<consistentEager> hyp=<Bridge.cycleOk>`
  (`hyp` = the decidable hypotheses of the theorems in TxV/Props/C01…C11, evaluated on this design / valuation)
  (bodies, transactions, methods, sites all in ascending id order; `-` for an empty list)
* anything else: `bad-op`
-/

def main : IO Unit :=
  TxV.Proto.run (none : Option TxV.CoreProto.St)
    (TxV.CoreProto.stepLine TxV.Core.Bridge.staticOk TxV.Core.Bridge.readyDepLeftOk TxV.Core.Bridge.cycleOk)
