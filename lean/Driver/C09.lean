import TxV.Model.RRSched
open TxV TxV.Proto TxV.RRSched

/-- protocol (transactions and methods are numbered in definition order; `;` separates lists,
    `-` is an empty inner list, `*` an empty outer list):
    `cfg n=5 k=3 calls=0,2;0,1,2;2;-;1 edges=0,1;0,2;1,2 ccs=1,0,2;4;3 gobs=1`
        n      number of transactions, k number of methods
        calls  per transaction the method bodies that must be ready (`methods_by_transaction`)
        edges  the conflict graph `cgr` the manager handed to the scheduler
        ccs    the components it handed to the scheduler, each in arbiter index order
        gobs   1: also print the index granted by each arbiter (`rr.grant`), 0: do not
      → `ok` when `validPart`, `edgesIntra`, `ccsConnected` hold and `calls` has `n` rows with
        entries `< k`, else `bad-cfg part=_ intra=_ conn=_ calls=_`
    `cyc tr=22 mr=5` (bit `i` of `tr` = ready input of transaction `i`, of `mr` = ready input of method `i`)
      → `rdy=01101 rbl=00101 run=00100 g=1;0;0`   (bit strings by transaction number, left = 0;
         `g` per component of `ccs` the index the arbiter grants = register after the edge) -/
structure DState where
  good : Bool
  n : Nat
  calls : List (List Nat)
  ccs : List (List Nat)
  gobs : Bool
  s : List Nat

def lists (toks : List String) (key : String) : Option (List (List Nat)) :=
  match kv? toks key with
  | none => none
  | some "*" => some []
  | some v => some ((v.splitOn ";").map natList)

def pairs (l : List (List Nat)) : Option (List (Nat × Nat)) :=
  l.mapM fun e => match e with
    | [a, b] => some (a, b)
    | _ => none

def bits (n : Nat) (f : Nat → Bool) : String :=
  String.join ((List.range n).map fun i => showBool (f i))

def showLists (l : List Nat) : String := ";".intercalate (l.map toString)

def blank : DState := { good := false, n := 0, calls := [], ccs := [], gobs := false, s := [] }

def stepLine (st : DState) (line : String) : DState × String :=
  let t := tokens line
  match t.head? with
  | some "cfg" =>
    match nat? t "n", nat? t "k", lists t "calls", (lists t "edges").bind pairs, lists t "ccs", nat? t "gobs" with
    | some n, some k, some calls, some edges, some ccs, some gobs =>
      let p := validPart n ccs
      let i := edgesIntra edges ccs
      let c := ccsConnected edges ccs
      let cl := calls.length == n && calls.all (fun l => l.all (· < k))
      if p && i && c && cl && gobs ≤ 1 then
        ({ good := true, n := n, calls := calls, ccs := ccs, gobs := gobs == 1, s := init ccs }, "ok")
      else
        (blank, s!"bad-cfg part={showBool p} intra={showBool i} conn={showBool c} calls={showBool cl}")
    | _, _, _, _, _, _ => (blank, "bad-op")
  | some "cyc" =>
    if !st.good then (st, "bad-op") else
    match nat? t "tr", nat? t "mr" with
    | some tr, some mr =>
      let trf : Nat → Bool := fun i => tr.testBit i
      let mrf : Nat → Bool := fun i => mr.testBit i
      let callsf : Nat → List Nat := fun i => (st.calls[i]?).getD []
      let req := requestOf callsf trf mrf
      let (s', out) := step st.ccs st.s req
      let o := s!"rdy={bits st.n trf} rbl={bits st.n req} run={bits st.n (runOf st.ccs out)}"
      ({ st with s := s' }, if st.gobs then o ++ s!" g={showLists s'}" else o)
    | _, _ => (st, "bad-op")
  | _ => (st, "bad-op")

def main : IO Unit := Proto.run blank stepLine
