import TxV.Model.BasicIO
open TxV TxV.Proto TxV.BasicIO

/-- protocol:
    `cfg comp=in edge=1 pol=0 sync=1`  → `ok`   (InputSampler)
    `cyc t=1 d=5 g=1`                  → `rdy=1 g=5`      (`g=-` when get did not execute)
    `cfg comp=out edge=0 pol=1 sync=0` → `ok`   (OutputBuffer)
    `cyc t=1 p=7`  (`p=-`: no attempt) → `rdy=1 p=1 data=3` (`data` = the output port in this cycle) -/
inductive DState where
  | none
  | sampler (c : Cfg) (s : Sampler.State)
  | outbuf (c : Cfg) (s : OutBuf.State)

def bit? (t : List String) (k : String) : Option Bool :=
  match kv? t k with
  | some "0" => some false
  | some "1" => some true
  | _ => Option.none

def stepLine (s : DState) (line : String) : DState × String :=
  let t := tokens line
  match t.head? with
  | some "cfg" =>
    match bit? t "edge", bit? t "pol", bit? t "sync", kv? t "comp" with
    | some e, some p, some y, some "in" => let c : Cfg := ⟨e, p, y⟩; (.sampler c (Sampler.init c), "ok")
    | some e, some p, some y, some "out" => let c : Cfg := ⟨e, p, y⟩; (.outbuf c (OutBuf.init c), "ok")
    | _, _, _, _ => (.none, "bad-op")
  | some "cyc" =>
    match s with
    | .sampler c st =>
      match bit? t "t", nat? t "d", bit? t "g" with
      | some tr, some d, some g =>
        let (st', o) := Sampler.step c st { trig := tr, data := d, get := g }
        (.sampler c st', s!"rdy={showBool o.ready} g={showOpt o.get}")
      | _, _, _ => (s, "bad-op")
    | .outbuf c st =>
      match bit? t "t", kv? t "p" with
      | some tr, some pv =>
        match (if pv == "-" then some Option.none else pv.toNat?.map some) with
        | some p =>
          let (st', o) := OutBuf.step c st { trig := tr, put := p }
          (.outbuf c st', s!"rdy={showBool o.ready} p={showBool o.put} data={o.data}")
        | Option.none => (s, "bad-op")
      | _, _ => (s, "bad-op")
    | .none => (s, "bad-op")
  | _ => (s, "bad-op")

def main : IO Unit := Proto.run DState.none stepLine
