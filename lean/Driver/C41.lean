import TxV.Model.DataHelpersIO
/-! C41 driver: see TxV/Model/DataHelpersIO.lean for the protocol. -/
def main : IO Unit := TxV.Proto.run () TxV.DataHelpers.IO.stepLine
