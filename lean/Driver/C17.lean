import TxV.Model.Forwarder
import TxV.Model.Pipe
open TxV TxV.Proto

structure DState where
  cls : String
  fwd : TxV.Forwarder.State
  pipe : TxV.Pipe.State

/-- protocol:
    `cfg cls=fwd w=8` | `cfg cls=pipe w=8` → `ok`
    `cyc w=17 r=1 p=0 c=0` (no write attempt: `w=-`) → `w=1 r=17 p=- c=0 rdy=110`
    (`rdy` = read.ready, peek.ready, write.ready; all sampled before the clock edge) -/
def stepLine (s : DState) (line : String) : DState × String :=
  let t := tokens line
  match t.head? with
  | some "cfg" =>
    match kv? t "cls" with
    | some "fwd" => ({ cls := "fwd", fwd := TxV.Forwarder.init, pipe := TxV.Pipe.init }, "ok")
    | some "pipe" => ({ cls := "pipe", fwd := TxV.Forwarder.init, pipe := TxV.Pipe.init }, "ok")
    | _ => ({ s with cls := "" }, "bad-op")
  | some "cyc" =>
    match kv? t "w", nat? t "r", nat? t "p", nat? t "c" with
    | some wtok, some r, some p, some c =>
      let w := if wtok == "-" then some none else wtok.toNat?.map some
      match w with
      | none => (s, "bad-op")
      | some w =>
        if s.cls == "fwd" then
          let (f', o) := TxV.Forwarder.step s.fwd ⟨w, r == 1, p == 1, c == 1⟩
          ({ s with fwd := f' },
           s!"w={showBool o.wr.isSome} r={showOpt o.rd} p={showOpt o.pk} c={showBool o.clr} rdy={showBool o.rrdy}{showBool o.rrdy}{showBool o.wrdy}")
        else if s.cls == "pipe" then
          let (f', o) := TxV.Pipe.step s.pipe ⟨w, r == 1, p == 1, c == 1⟩
          ({ s with pipe := f' },
           s!"w={showBool o.wr.isSome} r={showOpt o.rd} p={showOpt o.pk} c={showBool o.clr} rdy={showBool o.rrdy}{showBool o.rrdy}{showBool o.wrdy}")
        else (s, "bad-op")
    | _, _, _, _ => (s, "bad-op")
  | _ => (s, "bad-op")

def main : IO Unit := Proto.run ({ cls := "", fwd := TxV.Forwarder.init, pipe := TxV.Pipe.init } : DState) stepLine
