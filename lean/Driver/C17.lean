import TxV.Model.Forwarder
import TxV.Model.Pipe
open TxV TxV.Proto TxV.QueueUtil

structure DState where
  cls : String
  ow : List Nat := []     -- priority order of the write callers (multi-caller cases)
  or : List Nat := []     -- priority order of the read callers
  fwd : TxV.Forwarder.State
  pipe : TxV.Pipe.State

/-- protocol:
    `cfg cls=fwd w=8` | `cfg cls=pipe w=8` → `ok`
    `cyc w=17 r=1 p=0 c=0` (no write attempt: `w=-`) → `w=1 r=17 p=- c=0 rdy=110`
    (`rdy` = read.ready, peek.ready, write.ready; all sampled before the clock edge) -/
def stepLine (s : DState) (line : String) : DState × String :=
  let t := tokens line
  match t.head? with
  | some "cfg" =>
    match kv? t "cls" with
    | some "fwd" => ({ cls := "fwd", ow := natListOf t "pw", or := natListOf t "pr", fwd := TxV.Forwarder.init, pipe := TxV.Pipe.init }, "ok")
    | some "pipe" => ({ cls := "pipe", ow := natListOf t "pw", or := natListOf t "pr", fwd := TxV.Forwarder.init, pipe := TxV.Pipe.init }, "ok")
    | _ => ({ s with cls := "" }, "bad-op")
  | some "cyc" =>
    match kv? t "w", nat? t "r", nat? t "p", nat? t "c" with
    | some wtok, some r, some p, some c =>
      let w := if wtok == "-" then some none else wtok.toNat?.map some
      match w with
      | none => (s, "bad-op")
      | some w =>
        if s.cls == "fwd" then
          let (f', o) := TxV.Forwarder.step s.fwd ⟨w, r == 1, p == 1, c == 1⟩
          ({ s with fwd := f' },
           s!"w={showBool o.wr.isSome} r={showOpt o.rd} p={showOpt o.pk} c={showBool o.clr} rdy={showBool o.rrdy}{showBool o.rrdy}{showBool o.wrdy}")
        else if s.cls == "pipe" then
          let (f', o) := TxV.Pipe.step s.pipe ⟨w, r == 1, p == 1, c == 1⟩
          ({ s with pipe := f' },
           s!"w={showBool o.wr.isSome} r={showOpt o.rd} p={showOpt o.pk} c={showBool o.clr} rdy={showBool o.rrdy}{showBool o.rrdy}{showBool o.wrdy}")
        else (s, "bad-op")
    | _, _, _, _ => (s, "bad-op")
  | some "mcyc" =>
    -- several callers per method: `mcyc w=5,- r=1,1 p=0,1 c=0` → `w=1,0 r=-,5 p=-,5 c=0 rdy=…`
    match MProto.parseMIn t true with
    | none => (s, "bad-op")
    | some mi =>
      let e := eff s.ow s.or mi
      if s.cls == "fwd" then
        let (f', o) := TxV.Forwarder.step s.fwd ⟨e.w, e.r, e.p, e.c⟩
        ({ s with fwd := f' },
         s!"{MProto.showM mi e o.wr o.rd o.pk o.clr true} rdy={showBool o.rrdy}{showBool o.rrdy}{showBool o.wrdy}")
      else if s.cls == "pipe" then
        let (f', o) := TxV.Pipe.step s.pipe ⟨e.w, e.r, e.p, e.c⟩
        ({ s with pipe := f' },
         s!"{MProto.showM mi e o.wr o.rd o.pk o.clr true} rdy={showBool o.rrdy}{showBool o.rrdy}{showBool o.wrdy}")
      else (s, "bad-op")
  | _ => (s, "bad-op")

def main : IO Unit := Proto.run ({ cls := "", fwd := TxV.Forwarder.init, pipe := TxV.Pipe.init } : DState) stepLine
