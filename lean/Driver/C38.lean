import TxV.Model.Encoders
import TxV.Model.Coding
open TxV TxV.Proto TxV.Encoders TxV.Coding

/-- protocol (`cfg …` → `ok`, then one `in …` line per input valuation):
    `cfg comp=mpe w=4 k=2`          `in x=5`                 → `out=0,2 val=3`
    `cfg comp=ring w=4 k=2`         `in x=5 f=1 l=3`         → `out=2,1 val=1`
    `cfg comp=ssn n=4`              `in d=1,2,3,4 v=5`       → `out=1,3,0,0 cnt=2`
    `cfg comp=mux|muxc n=3 prio=1 dflt=1`  `in s=5 d=1,2,3 df=7` → `out=1`  (`raise ValueError` for n=0 without default)
    `cfg comp=enc|penc w=4`         `in x=4`                 → `o=2 n=0`
    `cfg comp=dec|pdec w=4`         `in x=2 n=0`             → `o=4`
    `cfg comp=genc|gdec w=4`        `in x=5`                 → `o=7` -/
structure DState where
  comp : String
  w : Nat
  k : Nat
  prio : Bool
  dflt : Bool

def comps : List String := ["mpe", "ring", "ssn", "mux", "muxc", "enc", "penc", "dec", "pdec", "genc", "gdec"]

def showPair (r : List Nat × List Bool) : String := s!"out={showList r.1} val={natOf r.2}"

def stepLine (s : DState) (line : String) : DState × String :=
  let t := tokens line
  match t.head? with
  | some "cfg" =>
    match kv? t "comp" with
    | some c =>
      if comps.contains c then
        ({ comp := c, w := (nat? t "w").getD ((nat? t "n").getD 0), k := natD t "k" 1,
           prio := flag t "prio", dflt := flag t "dflt" }, "ok")
      else ({ s with comp := "" }, "bad-op")
    | none => ({ s with comp := "" }, "bad-op")
  | some "in" =>
    let x := natD t "x" 0
    let o :=
      match s.comp with
      | "mpe" => showPair (mpe s.k (bitsOf s.w x))
      | "ring" =>
        match nat? t "f", nat? t "l" with
        | some f, some l => showPair (ring s.k (bitsOf s.w x) f l)
        | _, _ => "bad-op"
      | "ssn" =>
        match ssn (natListOf t "d") (bitsOf s.w (natD t "v" 0)) with
        | some (o, c) => s!"out={showList o} cnt={c}"
        | none => "bad-op"
      | "mux" | "muxc" =>
        let d := natListOf t "d"
        if d.length != s.w then "bad-op"
        else if s.w == 0 && !s.dflt then "raise ValueError"
        else
          let df := if s.dflt then nat? t "df" else none
          if s.dflt && df.isNone then "bad-op"
          else s!"out={oneHotMux s.prio (bitsOf s.w (natD t "s" 0)) d df}"
      | "enc" => let r := encoder s.w x; s!"o={r.1} n={showBool r.2}"
      | "penc" => let r := prioEncoder (bitsOf s.w x); s!"o={r.1} n={showBool r.2}"
      | "dec" | "pdec" => s!"o={decoder s.w x (flag t "n")}"
      | "genc" => s!"o={natOf (grayEnc (bitsOf s.w x))}"
      | "gdec" => s!"o={natOf (grayDec (bitsOf s.w x))}"
      | _ => "bad-op"
    (s, o)
  | _ => (s, "bad-op")

def main : IO Unit := Proto.run ({ comp := "", w := 0, k := 1, prio := false, dflt := false } : DState) stepLine
