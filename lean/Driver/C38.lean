import TxV.Model.Encoders
import TxV.Model.Coding
open TxV TxV.Proto TxV.Encoders TxV.Coding

/-- protocol (`cfg …` → `ok`, then one `in …` line per input valuation):
    `cfg comp=mpe w=4 k=2`          `in x=5`                 → `out=0,2 val=3`
    `cfg comp=ring w=4 k=2`         `in x=5 f=1 l=3`         → `out=2,1 val=1`
    `cfg comp=ssn n=4`              `in d=1,2,3,4 v=5`       → `out=1,3,0,0 cnt=2`
    `cfg comp=mux|muxc n=3 prio=1 dflt=1`  `in s=5 d=1,2,3 df=7` → `out=1`  (`raise ValueError` for n=0 without default)
    `cfg comp=enc|penc w=4`         `in x=4`                 → `o=2 n=0`
    `cfg comp=dec|pdec w=4`         `in x=2 n=0`             → `o=4`
    `cfg comp=genc|gdec w=4`        `in x=5`                 → `o=7`
    typed helpers (the returned Value observed wider than its shape, plus its width / signedness):
    `cfg comp=muxz prio=1 shp=u5,s4,s3 dshp=u2|-`  `in s=6 d=9,-3,2 df=1` → `out=-3 w=6 sg=1`   (one_hot_mux)
    `cfg comp=muxcz prio=1 shp=s4,s4 dshp=s4|-`    `in s=2 d=1,-3 df=1`   → `out=-3 w=4 sg=1`   (OneHotMux(signed(4)))
    `cfg comp=lsb w=5`  `in x=12` → `o=4 w=5 sg=0`      (extract_lowest_set_bit)
    `cfg comp=ctz w=5`  `in x=12` → `o=2 w=3 sg=0`      (count_trailing_zeros) -/
structure DState where
  comp : String
  w : Nat
  k : Nat
  prio : Bool
  dflt : Bool
  shps : List Shp := []
  dshp : Option Shp := none

def intList (s : String) : List Int :=
  if s == "" || s == "-" then [] else (s.splitOn ",").filterMap String.toInt?

/-- `s4` ↦ signed(4), `u5` ↦ unsigned(5) -/
def shp? (s : String) : Option Shp :=
  match s.toList with
  | 's' :: r => (String.ofList r).toNat?.map (fun w => { width := w, signed := true })
  | 'u' :: r => (String.ofList r).toNat?.map (fun w => { width := w, signed := false })
  | _ => none

def shpList (s : String) : List Shp :=
  if s == "" || s == "-" then [] else (s.splitOn ",").filterMap shp?

def comps : List String :=
  ["mpe", "ring", "ssn", "mux", "muxc", "enc", "penc", "dec", "pdec", "genc", "gdec", "muxz", "muxcz", "lsb", "ctz"]

def showPair (r : List Nat × List Bool) : String := s!"out={showList r.1} val={natOf r.2}"

def stepLine (s : DState) (line : String) : DState × String :=
  let t := tokens line
  match t.head? with
  | some "cfg" =>
    match kv? t "comp" with
    | some c =>
      if comps.contains c then
        ({ comp := c, w := (nat? t "w").getD ((nat? t "n").getD 0), k := natD t "k" 1,
           prio := flag t "prio", dflt := flag t "dflt",
           shps := shpList ((kv? t "shp").getD "-"), dshp := (kv? t "dshp").bind shp? }, "ok")
      else ({ s with comp := "" }, "bad-op")
    | none => ({ s with comp := "" }, "bad-op")
  | some "in" =>
    let x := natD t "x" 0
    let o :=
      match s.comp with
      | "mpe" => showPair (mpe s.k (bitsOf s.w x))
      | "ring" =>
        match nat? t "f", nat? t "l" with
        | some f, some l => showPair (ring s.k (bitsOf s.w x) f l)
        | _, _ => "bad-op"
      | "ssn" =>
        match ssn (natListOf t "d") (bitsOf s.w (natD t "v" 0)) with
        | some (o, c) => s!"out={showList o} cnt={c}"
        | none => "bad-op"
      | "mux" | "muxc" =>
        let d := natListOf t "d"
        if d.length != s.w then "bad-op"
        else if s.w == 0 && !s.dflt then "raise ValueError"
        else
          let df := if s.dflt then nat? t "df" else none
          if s.dflt && df.isNone then "bad-op"
          else s!"out={oneHotMux s.prio (bitsOf s.w (natD t "s" 0)) d df}"
      | "muxz" | "muxcz" =>
        let d := intList ((kv? t "d").getD "-")
        let df := ((kv? t "df").bind String.toInt?)
        if d.length != s.shps.length then "bad-op"
        else if s.shps.isEmpty && s.dshp.isNone then "raise ValueError"
        else
          match s.dshp, df with
          | some _, none => "bad-op"
          | dshp, df =>
            let dflt := dshp.bind (fun sh => df.map (fun v => (sh, v)))
            let r := oneHotMuxZ s.prio (bitsOf s.shps.length (natD t "s" 0)) (s.shps.zip d) dflt
            s!"out={r.2} w={r.1.width} sg={showBool r.1.signed}"
      | "lsb" => s!"o={natOf (lowestSet (bitsOf s.w x))} w={s.w} sg=0"
      | "ctz" => s!"o={ctz (bitsOf s.w x)} w={clog2 (s.w + 1)} sg=0"
      | "enc" => let r := encoder s.w x; s!"o={r.1} n={showBool r.2}"
      | "penc" => let r := prioEncoder (bitsOf s.w x); s!"o={r.1} n={showBool r.2}"
      | "dec" | "pdec" => s!"o={decoder s.w x (flag t "n")}"
      | "genc" => s!"o={natOf (grayEnc (bitsOf s.w x))}"
      | "gdec" => s!"o={natOf (grayDec (bitsOf s.w x))}"
      | _ => "bad-op"
    (s, o)
  | _ => (s, "bad-op")

def main : IO Unit := Proto.run ({ comp := "", w := 0, k := 1, prio := false, dflt := false } : DState) stepLine
