import TxV.Model.Util
import TxV.Model.DepGraph
open TxV TxV.Proto TxV.DepGraph

/-!
protocol (three lines per design):
  `cfg n=5 trans=2,4 meths=0:3:0:1:0;1:0:3:0:0 sites=0:2:0;1:4:1 rels=2:4:L:0:1 cgr=2-4 order=2,4 rr=4:2 rl=- er=- dr=o1:i1`
        → `ok`       (`meths` = id:inW:outW:validate:customCombiner, `sites` = id:caller:callee,
                      `rels` = src:dst:U|L|R:conflict:readyDep, `rr` = b:b' (ready b reads run b'), `rl` = b:b' (ready b reads ready b'),
                      `er` = s:d (enable s reads run d), `dr` = x:y (data node x reads data node y))
  `check` → `wf=1 vo=1 rule=1 rdwf=1 noen=1 enok=1 data=1 thm=1 thmd=1 cyc=0 ne=17`
        (`thm` = all hypotheses of `c10_wellfounded_partial` hold for this design, `thmd` = those of
         `c10_wellfounded_derived_partial`; `cyc` = `hasCycle` of the model graph)
  `edges` → `n2>r2,r0 u2>r2,n2 …`   every node with its out-edges (`x>y` = x is driven by y), canonical order
node names: r=ready n=runnable u=run e=enable a=arg i=dataIn o=dataOut, followed by the body / site id
-/

def splitList (s : String) (sep : String) : List String :=
  if s == "" || s == "-" then [] else (s.splitOn sep).filter (· ≠ "")

def field (toks : List String) (key : String) : List String :=
  match kv? toks key with
  | some v => splitList v ";"
  | none => []

def nats (s : String) (sep : String) : Option (List Nat) := (splitList s sep).mapM String.toNat?

def parseNode (s : String) : Option Node :=
  match s.toList with
  | c :: rest =>
    match (String.ofList rest).toNat? with
    | none => none
    | some k =>
      match c with
      | 'r' => some (.ready k) | 'n' => some (.runnable k) | 'u' => some (.run k) | 'e' => some (.en k)
      | 'a' => some (.arg k) | 'i' => some (.dataIn k) | 'o' => some (.dataOut k) | _ => none
  | [] => none

def parsePrio : String → Option Prio
  | "U" => some .undefined | "L" => some .left | "R" => some .right | _ => none

def parseDesign (t : List String) : Option Design := do
  let n ← nat? t "n"
  let trans ← nats ((kv? t "trans").getD "-") ","
  let order ← nats ((kv? t "order").getD "-") ","
  let meths ← (field t "meths").mapM fun s => do
    match ← nats s ":" with
    | [id, iw, ow, v, cc] => some { id := id, inW := iw, outW := ow, validate := v == 1, customComb := cc == 1 : Meth }
    | _ => none
  let sites ← (field t "sites").mapM fun s => do
    match ← nats s ":" with
    | [id, a, b] => some { id := id, caller := a, callee := b : Site }
    | _ => none
  let rels ← (field t "rels").mapM fun s =>
    match s.splitOn ":" with
    | [a, b, p, c, rd] => do
      some { src := ← a.toNat?, dst := ← b.toNat?, prio := ← parsePrio p, conflict := c == "1", readyDep := rd == "1" : Rel }
    | _ => none
  let cgr ← (field t "cgr").mapM fun s => do
    match ← nats s "-" with
    | [a, b] => some (a, b)
    | _ => none
  let pair (key : String) : Option (List (Nat × Nat)) := (field t key).mapM fun s => do
    match ← nats s ":" with
    | [a, b] => some (a, b)
    | _ => none
  let rr ← pair "rr"
  let rl ← pair "rl"
  let er ← pair "er"
  let dr ← (field t "dr").mapM fun s =>
    match s.splitOn ":" with
    | [a, b] => do some (← parseNode a, ← parseNode b)
    | _ => none
  some { trans := trans, meths := meths, sites := sites, rels := rels, cgr := cgr, order := order,
         reach := closeReach n sites, readyReads := rr, readyLocal := rl, enReads := er, dataReads := dr }

def TxV.DepGraph.Node.key : Node → Nat × Nat
  | .ready b => (0, b) | .runnable b => (1, b) | .run b => (2, b) | .en s => (3, s)
  | .arg s => (4, s) | .dataIn b => (5, b) | .dataOut b => (6, b)

def TxV.DepGraph.Node.show (x : Node) : String :=
  let k := Node.key x
  s!"{"rnueaio".toList.getD k.1 '?'}{k.2}"

def keyLt (a b : Nat × Nat) : Bool := a.1 < b.1 || (a.1 == b.1 && a.2 < b.2)

def insertSorted (x : Node) : List Node → List Node
  | [] => [x]
  | y :: ys => if x == y then y :: ys else if keyLt x.key y.key then x :: y :: ys else y :: insertSorted x ys

def sortNodes (l : List Node) : List Node := l.foldl (fun acc x => insertSorted x acc) []

def showEdges (es : List (Node × Node)) : String :=
  let srcs := sortNodes (es.map (·.1))
  if srcs.isEmpty then "-" else
  " ".intercalate (srcs.map fun x =>
    s!"{x.show}>{",".intercalate ((sortNodes ((es.filter (·.1 == x)).map (·.2))).map Node.show)}")

def stepLine (s : Option Design) (line : String) : Option Design × String :=
  let t := tokens line
  match t.head?, s with
  | some "cfg", _ =>
    match parseDesign t with
    | some D => (some D, "ok")
    | none => (none, "bad-cfg")
  | some "check", some D =>
    let noen := D.enReads.isEmpty
    let data := D.dataOk D.dataCert
    let enok := D.enOk
    let base := D.wf && D.validOrder && D.ruleReady && D.rdWf && data
    (s, s!"wf={showBool D.wf} vo={showBool D.validOrder} rule={showBool D.ruleReady} rdwf={showBool D.rdWf} noen={showBool noen} enok={showBool enok} data={showBool data} thm={showBool (base && noen)} thmd={showBool (base && enok)} cyc={showBool (hasCycle D.edges)} ne={D.edges.length}")
  | some "edges", some D => (s, showEdges D.edges)
  | _, _ => (s, "bad-op")

def main : IO Unit := Proto.run (none : Option Design) stepLine
