import TxV.Model.AsyncMemoryBank
open TxV TxV.Proto TxV.BankMem TxV.AsyncMemoryBank

/-- protocol: `cfg depth=5 g=4 n=2` → `ok` ;
    `cyc r=1,-,7 w=1:171:3,-` → `r=171,-,0 w=1,0`
    (`r` = per read port the address / returned data, `-` = no call;
     `w` = per write port `addr:data:mask` / done bit) -/
def stepLine (cs : Cfg × State) (line : String) : (Cfg × State) × String :=
  let t := tokens line
  match t.head? with
  | some "cfg" =>
    match nat? t "depth", nat? t "g", nat? t "n" with
    | some d, some g, some n => let c : Cfg := ⟨d, g, n⟩; ((c, init c), "ok")
    | _, _, _ => (cs, "bad-op")
  | some "cyc" =>
    match (kv? t "r").bind optList, (kv? t "w").bind wrList with
    | some rs, some ws =>
      let (s', o) := step cs.1 cs.2 ⟨rs, ws⟩
      ((cs.1, s'), s!"r={showOptList o.reads} w={showBits o.writes}")
    | _, _ => (cs, "bad-op")
  | _ => (cs, "bad-op")

def main : IO Unit := Proto.run (⟨1, 1, 1⟩, init ⟨1, 1, 1⟩) stepLine
