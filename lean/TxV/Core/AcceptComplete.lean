import TxV.Core.Accept
import TxV.Core.Topo
/-!
# Core theory: completeness of the validator (C11, second half)

`accept_iff`: `accept D ord = true` exactly when the declarative acceptance facts hold for `ord`;
`accept_exists_iff`: some order is accepted exactly when the design is free of the listed defects
(the priority order is constructed by `topo_exists`).
-/
namespace TxV.Core

variable {D : Design}

theorem exclusiveWithinB_complete (hb : Bounded D) {t a b : Nat} (h : ExclusiveWithin D t a b) :
    exclusiveWithinB D t a b = true := by
  obtain ⟨h1, h2, h3⟩ := h
  simp only [exclusiveWithinB, Bool.and_eq_true, Bool.not_eq_true', decide_eq_false_iff_not, List.all_eq_true]
  refine ⟨⟨h1, h2⟩, ?_⟩
  intro ch1 m1 ch2 m2
  obtain ⟨i1, g1⟩ := (mem_info_iff hb).1 m1
  obtain ⟨i2, g2⟩ := (mem_info_iff hb).1 m2
  exact h3 ch1 ch2 i1 g1 i2 g2

theorem sameTransOkB_complete (hb : Bounded D) (h : SameTransOk D) : sameTransOkB D = true := by
  apply all_range.2; intro a la
  apply List.all_eq_true.2; intro r hr
  by_cases hc : (r.conflict && decide (r.dst < D.n)) = true
  · simp only [hc, Bool.not_true, Bool.false_or]
    simp only [Bool.and_eq_true, decide_eq_true_eq] at hc
    apply all_range.2; intro t _
    by_cases ht : (transForB D t a && transForB D t r.dst) = true
    · simp only [ht, Bool.not_true, Bool.false_or]
      simp only [Bool.and_eq_true, transForB_iff hb] at ht
      exact exclusiveWithinB_complete hb (h a r.dst ⟨la, hc.2, r, hr, hc.1, rfl⟩ t ht.1 ht.2)
    · simp only [Bool.not_eq_true] at ht; simp [ht]
  · simp only [Bool.not_eq_true] at hc; simp [hc]

theorem validOrderB_complete (hb : Bounded D) {S : Sched} (h : ValidOrder D S) : validOrderB D S = true := by
  apply all_range.2; intro a la
  apply List.all_eq_true.2; intro r hr
  by_cases hd : r.dst < D.n
  · simp only [hd, decide_true, Bool.not_true, Bool.false_or]
    apply all_range.2; intro ta _
    apply all_range.2; intro tb _
    by_cases ht : (transForB D ta a && transForB D tb r.dst) = true
    · simp only [ht, Bool.not_true, Bool.false_or]
      simp only [Bool.and_eq_true, transForB_iff hb] at ht
      by_cases hc : (r.conflict && decide (ta = tb)) = true
      · simp [hc]
      · have hnc : ¬ (r.conflict = true ∧ ta = tb) := by
          intro hh; apply hc; simp [hh.1, hh.2]
        simp only [Bool.not_eq_true] at hc
        simp only [hc, Bool.false_or]
        cases hp : r.prio with
        | undef => rfl
        | left =>
          simp only [decide_eq_true_eq]
          exact h ta tb ⟨a, r.dst, r, la, hd, hr, rfl, ta, tb, ht.1, ht.2, hnc, Or.inl ⟨hp, rfl, rfl⟩⟩
        | right =>
          simp only [decide_eq_true_eq]
          exact h tb ta ⟨a, r.dst, r, la, hd, hr, rfl, ta, tb, ht.1, ht.2, hnc, Or.inr ⟨hp, rfl, rfl⟩⟩
    · simp only [Bool.not_eq_true] at ht; simp [ht]
  · simp [hd]

theorem singleCallerB_complete (hb : Bounded D) (h : SingleCallerOk D) : singleCallerB D = true := by
  apply all_range.2; intro m lm
  by_cases hc : ((D.body m).singleCaller && (List.range D.n).any fun t => D.isTrans t && reachesB D t m) = true
  · simp only [hc, Bool.not_true, Bool.false_or, decide_eq_true_eq]
    simp only [Bool.and_eq_true, any_range, reachesB_iff hb] at hc
    obtain ⟨hs, t, _, ht, hr⟩ := hc
    exact h m lm hs ⟨t, ht, hr⟩
  · simp only [Bool.not_eq_true] at hc; simp [hc]

theorem noReadyDepConflictB_complete {cgr : Nat → Nat → Bool} (h : NoReadyDepConflict D cgr) :
    noReadyDepConflictB D cgr = true := by
  apply all_range.2; intro t _
  cases ht : D.isTrans t with
  | false => rfl
  | true =>
    simp only [Bool.not_true, Bool.false_or, List.all_eq_true, Bool.not_eq_true']
    intro d hd
    exact h t ht d (mem_readyDepsOf.1 hd)

theorem accept_complete {ord : Nat → Nat} (h : AcceptFacts D ord) : accept D ord = true := by
  have hb := h.bounded
  simp [accept, h.wf, boundedB_complete hb, (noSelfCallB_iff hb).2 h.noSelfCall,
    (validRootsB_iff hb).2 h.noDoubleCall, sameTransOkB_complete hb h.sameTransOk,
    validOrderB_complete hb h.validOrder, h.ordInj, singleCallerB_complete hb h.singleCallerOk,
    noReadyDepConflictB_complete h.noReadyDepConflict]

theorem accept_iff {ord : Nat → Nat} : accept D ord = true ↔ AcceptFacts D ord :=
  ⟨accept_facts, accept_complete⟩

/-- a design is accepted (with some priority order) iff it is free of the defects the manager checks for -/
theorem accept_exists_iff :
    (∃ ord, accept D ord = true) ↔
      (D.WF ∧ Bounded D ∧ NoDoubleCall D ∧ SameTransOk D ∧ (∀ x, ¬ PgrPath D x x) ∧ SingleCallerOk D ∧
        NoReadyDepConflict D (cgrOf D)) := by
  constructor
  · rintro ⟨ord, h⟩
    have f := accept_facts h
    exact ⟨f.wf, f.bounded, f.noDoubleCall, f.sameTransOk, validOrder_acyclic f.validOrder, f.singleCallerOk,
      f.noReadyDepConflict⟩
  · rintro ⟨h1, h2, h3, h4, h5, h6, h7⟩
    obtain ⟨ord, hv, hi⟩ := (topo_exists D (cgrOf D)).1 h5
    exact ⟨ord, accept_complete ⟨h1, h2, noSelfCall_of_bounded h2, h3, h4, hv, hi, h6, h7⟩⟩

end TxV.Core
