import TxV.Core.BridgeExplicit
/-!
# Bridge, part 6: the priority order

From the executable model's order check `CoreModel.validOrder E.g.before D.transactions order`
(evaluated by the driver on the implementation's `porder`): `OrdInj` and `ValidOrder` for
`toSched E order` — so that, for an accepted design, *every* static hypothesis of C01–C05 and C08 is
proved from `elaborate D = ok E` and this one check (`elaborate_static`).
-/
namespace TxV.Core.Bridge
open TxV
open TxV.CoreModel (Graphs MethodMap Elab)

theorem addEdge_before_mono (g : Graphs) (b e : Nat) (p : CoreModel.Priority) (c : Bool) (x : Nat × Nat)
    (h : x ∈ g.before) : x ∈ (g.addEdge b e p c).before := by
  unfold Graphs.addEdge
  cases c <;> cases p <;> simp [h]

theorem addEdge_before_new (g : Graphs) (b e : Nat) (p : CoreModel.Priority) (c : Bool) :
    (p = .left → (b, e) ∈ (g.addEdge b e p c).before) ∧ (p = .right → (e, b) ∈ (g.addEdge b e p c).before) := by
  unfold Graphs.addEdge
  cases c <;> cases p <;> simp

/-- what one successful innermost step establishes for the priority constraints of its own pair -/
def BeforeOk (r : CoreModel.Rel) (ts te : Nat) (g : Graphs) : Prop :=
  ¬ (r.conflict = true ∧ ts = te) →
    (r.prio = .left → (ts, te) ∈ g.before) ∧ (r.prio = .right → (te, ts) ∈ g.before)

theorem relStep_before_mono (D : CoreModel.Design) (mm : MethodMap) (start : Nat) (r : CoreModel.Rel) (ts : Nat)
    (x : Nat × Nat) (g : Graphs) (te : Nat) (g' : Graphs) (h : relStep D mm start r ts g te = .ok g')
    (hg : x ∈ g.before) : x ∈ g'.before := by
  unfold relStep at h
  split at h
  · split at h
    · cases h
    · cases h; exact hg
  · cases h; exact addEdge_before_mono _ _ _ _ _ x hg

theorem relStep_before_hit (D : CoreModel.Design) (mm : MethodMap) (start : Nat) (r : CoreModel.Rel)
    (ts te : Nat) (g g' : Graphs) (h : relStep D mm start r ts g te = .ok g') : BeforeOk r ts te g' := by
  intro hn
  unfold relStep at h
  have : (r.conflict && ts == te) = false := by
    cases hc : r.conflict with
    | false => simp
    | true =>
      have : ts ≠ te := fun h' => hn ⟨hc, h'⟩
      simpa using this
  simp only [this, Bool.false_eq_true, if_false] at h
  cases h
  exact addEdge_before_new g ts te r.prio _

theorem BeforeOk.mono {r : CoreModel.Rel} {ts te : Nat} {g g' : Graphs}
    (hm : ∀ x, x ∈ g.before → x ∈ g'.before) (h : BeforeOk r ts te g) : BeforeOk r ts te g' :=
  fun hn => ⟨fun hp => hm _ ((h hn).1 hp), fun hp => hm _ ((h hn).2 hp)⟩

theorem relationEdges_before (D : CoreModel.Design) (mm : MethodMap) {g0 g : Graphs}
    (h : CoreModel.relationEdges D mm g0 = .ok g) {start : Nat} {r : CoreModel.Rel}
    (hrel : (start, r) ∈ CoreModel.relations D) {ts te : Nat}
    (hts : ts ∈ mm.transFor start) (hte : te ∈ mm.transFor r.dst) : BeforeOk r ts te g := by
  rw [relationEdges_step_eq] at h
  have mono3 : ∀ (s : Nat) (r' : CoreModel.Rel) (ts' : Nat) (g : Graphs) (te' : Nat) (g' : Graphs),
      relStep D mm s r' ts' g te' = .ok g' → BeforeOk r ts te g → BeforeOk r ts te g' :=
    fun s r' ts' g te' g' hs hp => hp.mono (fun x => relStep_before_mono D mm s r' ts' x g te' g' hs)
  have mono2 : ∀ (s : Nat) (r' : CoreModel.Rel) (g : Graphs) (ts' : Nat) (g' : Graphs),
      (mm.transFor r'.dst).foldlM (relStep D mm s r' ts') g = .ok g' →
      BeforeOk r ts te g → BeforeOk r ts te g' :=
    fun s r' g ts' g' hs hp => foldlM_inv _ _ (mono3 s r' ts') _ _ _ hs hp
  refine foldlM_hit (BeforeOk r ts te) _ ?_ (x0 := (start, r)) ?_ _ _ _ hrel h
  · intro g x g' hstep hp
    split at hstep
    · cases hstep
    · exact foldlM_inv _ _ (mono2 x.1 x.2) _ _ _ hstep hp
  · intro g g' hstep
    split at hstep
    · cases hstep
    · refine foldlM_hit (BeforeOk r ts te) _ (mono2 start r) (x0 := ts) ?_ _ _ _ hts hstep
      intro g g' hstep
      refine foldlM_hit (BeforeOk r ts te) _ (mono3 start r ts) (x0 := te) ?_ _ _ _ hte hstep
      intro g g' hstep
      exact relStep_before_hit D mm start r ts te g g' hstep

theorem validOrder_facts {before : List (Nat × Nat)} {transactions order : List Nat}
    (h : CoreModel.validOrder before transactions order = true) :
    (∀ t ∈ transactions, t ∈ order) ∧ (∀ x ∈ before, order.idxOf x.1 < order.idxOf x.2) := by
  simp only [CoreModel.validOrder, Bool.and_eq_true, List.all_eq_true, List.contains_eq_mem,
    decide_eq_true_eq] at h
  refine ⟨h.1.2, ?_⟩
  intro x hx
  have := h.2 x hx
  unfold CoreModel.indexOf? at this
  obtain ⟨a, b⟩ := x
  simp only at this ⊢
  split at this
  · rename_i i j hi hj
    split at hi
    · split at hj
      · simp only [Option.some.injEq] at hi hj
        subst hi; subst hj
        simpa using this
      · cases hj
    · cases hi
  · cases this

/-- **all static hypotheses of C01–C05 and C08 from the executable model**: `elaborate D = ok E` and
the executable order check on the supplied `order` -/
theorem elaborate_static {D : CoreModel.Design} {E : Elab} (h : CoreModel.elaborate D = .ok E)
    {order : List Nat} (ho : CoreModel.validOrder E.g.before D.transactions order = true) :
    Accepted (toAbs D) (toSched E order) ∧ ValidOrder (toAbs D) (toSched E order) ∧
      (toAbs D).SitesNodup := by
  obtain ⟨hin, hlt⟩ := validOrder_facts ho
  obtain ⟨hwfA, hnd, hb, _, _, _⟩ := elaborate_sound h order
  obtain ⟨hwf, _, hmm, hrel⟩ := elaborate_ok h
  obtain ⟨hall, htr, hme, _, _⟩ := wf_facts hwf
  have hmemT : ∀ t, (toAbs D).isTrans t = true → t ∈ D.transactions := by
    intro t ht
    have hlt : t < D.bodies.length := by rw [← toAbs_n]; exact (toAbs D).isTrans_lt ht
    have := hall t hlt
    simp only [CoreModel.Design.methodsAndTransactions, List.mem_append] at this
    rcases this with hm | ht'
    · rw [toAbs_isTrans, hme t hm] at ht; cases ht
    · exact ht'
  have hdisj : ∀ t, t ∈ D.transactions → t ∉ D.methods := by
    intro t ht hm
    have := htr t ht; rw [hme t hm] at this; cases this
  have hmeth : ∀ t m, Reaches (toAbs D) t m → m ∈ D.methods := by
    intro t m hr
    obtain ⟨hlt, hnt⟩ := Reaches.lt hwfA hr
    rw [toAbs_n] at hlt; rw [toAbs_isTrans] at hnt
    have := hall m hlt
    simp only [CoreModel.Design.methodsAndTransactions, List.mem_append] at this
    rcases this with hm | ht'
    · exact hm
    · rw [htr m ht'] at hnt; cases hnt
  have hinj : OrdInj (toAbs D) (toSched E order) := by
    intro a _ b _ ta tb he
    simp only [toSched, ordOf] at he
    have ha := hin a (hmemT a ta)
    have hb' := hin b (hmemT b tb)
    have la : order.idxOf a < order.length := List.idxOf_lt_length_of_mem ha
    have lb : order.idxOf b < order.length := List.idxOf_lt_length_of_mem hb'
    have e1 := List.getElem_idxOf la
    have e2 := List.getElem_idxOf lb
    rw [← e1, ← e2]
    simp only [he]
  refine ⟨elaborate_accepted h order hinj, ?_, hnd⟩
  intro x y ⟨a, b, r', la, lb, hr', hd', ta, tb, hta, htb, hnc, hcase⟩
  rw [toAbs_rels] at hr'
  obtain ⟨r, hr, rfl⟩ := List.mem_map.1 hr'
  have hd : r.dst = b := hd'
  rw [toAbs_n] at la lb
  have hrelm : (a, r) ∈ CoreModel.relations D := by
    unfold CoreModel.relations
    simp only [List.mem_flatMap, List.mem_map, List.mem_filter, List.contains_eq_mem, decide_eq_true_eq]
    exact ⟨a, hall a la, r, ⟨hr, by rw [hd]; exact hall b lb⟩, rfl⟩
  have ht1 := transFor_mem D hmemT hdisj hmeth hb hta
  have ht2 := transFor_mem D hmemT hdisj hmeth hb htb
  rw [← hmm] at ht1 ht2
  rw [← hd] at ht2
  have hbo := relationEdges_before D E.mm hrel hrelm ht1 ht2 (fun hh => hnc hh)
  simp only [toSched, ordOf]
  rcases hcase with ⟨hp, rfl, rfl⟩ | ⟨hp, rfl, rfl⟩
  · have hp' : r.prio = .left := by
      cases hpr : r.prio <;> simp [cvtRel, cvtPrio, hpr] at hp ⊢
    exact hlt _ (hbo.1 hp')
  · have hp' : r.prio = .right := by
      cases hpr : r.prio <;> simp [cvtRel, cvtPrio, hpr] at hp ⊢
    exact hlt _ (hbo.2 hp')

end TxV.Core.Bridge
