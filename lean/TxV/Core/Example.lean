import TxV.Core.Check
import TxV.Core.Glue
import TxV.Core.Accept
/-!
# A concrete design used by the non-vacuity examples of C01–C08

Three transactions in one module: `T0` calls exclusive `M3`; `T1` calls `M3` and `M4` and declares
`T1.add_conflict(T2, Priority.LEFT)`; `T2` calls exclusive `M4` in both alternatives of an
`If/Else`.  Conflict graph `T0—T1—T2`, order `T0, T1, T2`.  In the example cycle everything is
ready and the `If` condition holds: the eager scheduler runs `T0`, blocks `T1` (conflict with
`T0`), and therefore runs the lower-priority `T2`.
-/
namespace TxV.Core.Ex

def p (l : List (Nat × Nat)) : CtrlPath := ⟨0, l.map fun e => ⟨e.1, e.2⟩⟩

def D : Design := ⟨[
  ⟨true,  p [], false, false, false, [⟨3, p [(0,0)], 0⟩], []⟩,
  ⟨true,  p [], false, false, false, [⟨3, p [(0,1)], 1⟩, ⟨4, p [(0,1)], 2⟩], [⟨2, .left, true, false⟩]⟩,
  ⟨true,  p [], false, false, false, [⟨4, p [(0,2),(0,0)], 3⟩, ⟨4, p [(0,2),(1,0)], 4⟩], []⟩,
  ⟨false, p [], false, false, true,  [], []⟩,
  ⟨false, p [], false, false, false, [], []⟩]⟩

def S : Sched := ⟨fun t => t, fun a b => (a, b) ∈ [(0,1),(1,0),(1,2),(2,1)]⟩

def v : Val := ⟨fun _ => true, fun s => s != 4, fun s => 10 + s, fun _ _ => true⟩

def run : Nat → Bool := fun b => b != 1 && b < 5

def comp : Nat → Nat := fun _ => 0
/-- a round-robin outcome for the same cycle: only `T1` is granted -/
def runRR : Nat → Bool := fun b => b == 1 || b == 3 || b == 4

theorem accepted : acceptedB D S = true := by decide
theorem cgrSources : cgrSourcesB D S = true := by decide
theorem validOrder : validOrderB D S = true := by decide
theorem cycleEager : cycleEagerB D v S run = true := by decide
theorem cycleRR : cycleRRB D v S comp runRR = true := by decide

/-- the module the design was extracted from: the three transaction bodies (`AvoidedIf`) one after
the other, the third containing `If(c7) … Else …`; site 100 stands for the definitions at top level -/
def tree : Blk :=
  .site 100 <|
  .struct (.avoid 0) (.cons (.site 0 .nil) .nil) <|
  .struct (.avoid 1) (.cons (.site 1 (.site 2 .nil)) .nil) <|
  .struct (.avoid 2) (.cons
    (.struct (.ifc [7]) (.cons (.site 3 .nil) (.cons (.site 4 .nil) .nil)) .nil) .nil) .nil

def cv : CVal := ⟨fun _ => true, fun _ => 0, fun _ => 0, run⟩

theorem callsPlaced : CallsPlaced D v cv [(0, tree)] := by decide
theorem bodiesPlaced : BodiesPlaced D v cv [(0, tree)] := by decide

end TxV.Core.Ex

/-!
# Second example: nonexclusive common ancestor, call chains of depth 2, a nested transaction

`T0` and `T1` both call nonexclusive `N`, which calls exclusive `M`; transaction `K` is nested in
`N` (ready-dependent on it).  No conflict edges: `M` is reached only through the common
nonexclusive ancestor.  In the example cycle everything runs; `M` has a single active call site.
-/
namespace TxV.Core.Ex2
open TxV.Core.Ex (p)

def D : Design := ⟨[
  ⟨true,  p [], false, false, false, [⟨2, p [(0,0)], 0⟩], []⟩,
  ⟨true,  p [], false, false, false, [⟨2, p [(0,1)], 1⟩], []⟩,
  ⟨false, p [], true,  false, false, [⟨3, p [(0,2)], 2⟩], [⟨4, .left, false, true⟩]⟩,
  ⟨false, p [], false, false, false, [], []⟩,
  ⟨true,  p [(0,2)], false, false, false, [], []⟩]⟩

def ord : Nat → Nat := fun t => t
def S : Sched := ⟨ord, cgrOf D⟩
def v : Val := ⟨fun _ => true, fun _ => true, fun s => 20 + s, fun _ _ => true⟩
def run : Nat → Bool := fun b => b < 5
/-- a cycle in which `N` is not ready: nothing that depends on it runs -/
def v' : Val := ⟨fun b => b != 2, fun _ => true, fun s => 20 + s, fun _ _ => true⟩
def run' : Nat → Bool := fun _ => false

theorem accepted : accept D ord = true := by decide
theorem noEdges : ((List.range 5).all fun a => (List.range 5).all fun b => !cgrOf D a b) = true := by decide
theorem cycleEager : cycleEagerB D v S run = true := by decide
theorem cycleEager' : cycleEagerB D v' S run' = true := by decide
theorem cycleRR : cycleRRB D v S (fun t => t) run = true := by decide

end TxV.Core.Ex2
