import TxV.Core.Check
import TxV.Core.Glue
import TxV.Core.Accept
/-!
# A concrete design used by the non-vacuity examples of C01–C08

Three transactions in one module: `T0` calls exclusive `M3`; `T1` calls `M3` and `M4` and declares
`T1.add_conflict(T2, Priority.LEFT)`; `T2` calls exclusive `M4` in both alternatives of an
`If/Else`.  Conflict graph `T0—T1—T2`, order `T0, T1, T2`.  In the example cycle everything is
ready and the `If` condition holds: the eager scheduler runs `T0`, blocks `T1` (conflict with
`T0`), and therefore runs the lower-priority `T2`.
-/
namespace TxV.Core.Ex

def p (l : List (Nat × Nat)) : CtrlPath := ⟨0, l.map fun e => ⟨e.1, e.2⟩⟩

def D : Design := ⟨[
  ⟨true,  p [], false, false, false, [⟨3, p [(0,0)], 0⟩], []⟩,
  ⟨true,  p [], false, false, false, [⟨3, p [(0,1)], 1⟩, ⟨4, p [(0,1)], 2⟩], [⟨2, .left, true, false⟩]⟩,
  ⟨true,  p [], false, false, false, [⟨4, p [(0,2),(0,0)], 3⟩, ⟨4, p [(0,2),(1,0)], 4⟩], []⟩,
  ⟨false, p [], false, false, true,  [], []⟩,
  ⟨false, p [], false, false, false, [], []⟩]⟩

def S : Sched := ⟨fun t => t, fun a b => (a, b) ∈ [(0,1),(1,0),(1,2),(2,1)]⟩

def v : Val := ⟨fun _ => true, fun s => s != 4, fun s => 10 + s, fun _ _ => true⟩

def run : Nat → Bool := fun b => b != 1 && b < 5

def comp : Nat → Nat := fun _ => 0
/-- a round-robin outcome for the same cycle: only `T1` is granted -/
def runRR : Nat → Bool := fun b => b == 1 || b == 3 || b == 4

theorem accepted : acceptedB D S = true := by decide
theorem cgrSources : cgrSourcesB D S = true := by decide
theorem validOrder : validOrderB D S = true := by decide
theorem cycleEager : cycleEagerB D v S run = true := by decide
theorem cycleRR : cycleRRB D v S comp runRR = true := by decide
theorem eager : eagerB D v S run = true := by decide
theorem grants : grantsB D v run = true := by decide
theorem methodRun : methodRunB D v run = true := by decide
theorem bounded : boundedB D = true := by decide
theorem exclReady : decide (ExclReady D v) = true := by decide
theorem runnable1 : runnableB D v run 1 = true := by decide
theorem runnable2 : runnableB D v run 2 = true := by decide
theorem accept' : accept D S.ord = true := by decide
theorem cgrEq : ((List.range 5).all fun a => (List.range 5).all fun b => cgrOf D a b == S.cgr a b) = true := by
  decide

/-- the module the design was extracted from: the three transaction bodies (`AvoidedIf`) one after
the other, the third containing `If(c7) … Else …`; site 100 stands for the definitions at top level -/
def tree : Blk :=
  .site 100 <|
  .struct (.avoid 0) (.cons (.site 0 .nil) .nil) <|
  .struct (.avoid 1) (.cons (.site 1 (.site 2 .nil)) .nil) <|
  .struct (.avoid 2) (.cons
    (.struct (.ifc [7]) (.cons (.site 3 .nil) (.cons (.site 4 .nil) .nil)) .nil) .nil) .nil

def cv : CVal := ⟨fun _ => true, fun _ => 0, fun _ => 0, run⟩

theorem callsPlaced : CallsPlaced D v cv [(0, tree)] := by decide
theorem bodiesPlaced : BodiesPlaced D v cv [(0, tree)] := by decide

end TxV.Core.Ex

