import TxV.Core.Design
import TxV.Core.Mux
/-!
# Core theory: the equations the manager and the schedulers emit for one cycle

`Runnable` transcribes manager.py:529–548 (`runnable_terms`), `Eager` transcribes
schedulers.py:38–43, `RoundRobin` abstracts schedulers.py:71–76 (`run = grant[k] & valid`,
where `OneHotRoundRobin` grants at most one requester — that is property C39).
All theorems are about an arbitrary assignment `run` of the run signals that *satisfies* the
equations, so they do not depend on an evaluation order.
-/
namespace TxV.Core

/-- `m ∈ methods_by_transaction[t]` — the *static* call tree: no valuation is involved, a call under
a false condition or with `enable_call = 0` counts (method.py:311–327 records every call) -/
def Reaches (D : Design) (t m : Nat) : Prop := ∃ ch, IsChain D t ch ∧ target ch = some m

/-- `s ∈ ready_dependencies[b]` (manager.py:319–329): body `s` carries a `ready_dependent`
relation ending in `b` (created by nesting, body.py:94, or `schedule_before(…, ready_dependent=True)`) -/
def ReadyDep (D : Design) (s b : Nat) : Prop :=
  s < D.n ∧ ∃ r ∈ (D.body s).rels, r.readyDep = true ∧ r.dst = b

/-- `info_by_call[(t, m)]` in enumeration order -/
def info (D : Design) (t m : Nat) : List (List Call) :=
  (chains D D.n t).filter (fun ch => target ch == some m)

/-- the argument record of the last call of a chain (`CallInfo.arg`) -/
def argOf (v : Val) (ch : List Call) : Nat :=
  match ch.getLast? with
  | some c => v.arg c.site
  | none => 0

/-- manager.py:531–537 `validate_args_for_method` (for a method with `validate_arguments`) -/
def validTerm (D : Design) (v : Val) (t m : Nat) : Bool :=
  if D.nonexcl m then
    (info D t m).all fun ch => !chainEn v ch || v.pred m (argOf v ch)
  else
    !((info D t m).any (chainEn v)) ||
      v.pred m (oneHotMux ((info D t m).map fun ch => (chainEn v ch, argOf v ch)))

/-- manager.py:539–548: `runnable` of transaction `t` -/
def Runnable (D : Design) (v : Val) (run : Nat → Bool) (t : Nat) : Prop :=
  (∀ b, (b = t ∨ Reaches D t b) → v.ready b = true ∧ ∀ d, ReadyDep D d b → run d = true) ∧
  (∀ m, Reaches D t m → (D.body m).hasValidate = true → validTerm D v t m = true)

/-- what `_conflict_graph` hands to the scheduler -/
structure Sched where
  /-- `porder` -/
  ord : Nat → Nat
  /-- `cgr` as an adjacency predicate -/
  cgr : Nat → Nat → Bool

/-- schedulers.py:38–43: `run t = ready t & runnable t & ~any(run t' | t' earlier in the component, t' ∈ cgr[t])`.
(Restricting `t'` to the connected component of `t` changes nothing: a `cgr` neighbour is in it.) -/
def Eager (D : Design) (v : Val) (S : Sched) (run : Nat → Bool) : Prop :=
  ∀ t, D.isTrans t = true →
    (run t = true ↔ (v.ready t = true ∧ Runnable D v run t ∧
      ∀ t', D.isTrans t' = true → S.ord t' < S.ord t → S.cgr t t' = true → run t' = false))

/-- both schedulers: a transaction is granted only if `ready & runnable` (schedulers.py:43, :75–76) -/
def Grants (D : Design) (v : Val) (run : Nat → Bool) : Prop :=
  ∀ t, D.isTrans t = true → run t = true → v.ready t = true ∧ Runnable D v run t

/-- conflicting transactions are never granted together -/
def Mutex (D : Design) (S : Sched) (run : Nat → Bool) : Prop :=
  ∀ t1 t2, D.isTrans t1 = true → D.isTrans t2 = true → t1 ≠ t2 → S.cgr t1 t2 = true →
    ¬ (run t1 = true ∧ run t2 = true)

/-- schedulers.py:71–76 abstracted: grants only requesters, at most one grant per connected
component `comp` of the conflict graph -/
def RoundRobin (D : Design) (v : Val) (comp : Nat → Nat) (run : Nat → Bool) : Prop :=
  Grants D v run ∧
  ∀ t1 t2, D.isTrans t1 = true → D.isTrans t2 = true → t1 ≠ t2 → comp t1 = comp t2 →
    ¬ (run t1 = true ∧ run t2 = true)

/-- `ccs = _graph_ccs(cgr)`: every conflict edge lies inside one component -/
def CompOk (D : Design) (S : Sched) (comp : Nat → Nat) : Prop :=
  ∀ t1, t1 < D.n → ∀ t2, t2 < D.n → S.cgr t1 t2 = true → comp t1 = comp t2

instance (D : Design) (S : Sched) (comp : Nat → Nat) : Decidable (CompOk D S comp) := by
  unfold CompOk; exact Nat.decidableBallLT _ _

/-- `porder` is injective on transactions (it enumerates a topological sort, manager.py:313) -/
def OrdInj (D : Design) (S : Sched) : Prop :=
  ∀ a, a < D.n → ∀ b, b < D.n → D.isTrans a = true → D.isTrans b = true → S.ord a = S.ord b → a = b

instance (D : Design) (S : Sched) : Decidable (OrdInj D S) := by
  unfold OrdInj; exact Nat.decidableBallLT _ _

/-- `cgr` is symmetric (manager.py:261–262 `add_edge` inserts both directions) -/
def CgrSymm (D : Design) (S : Sched) : Prop :=
  ∀ a, a < D.n → ∀ b, b < D.n → S.cgr a b = S.cgr b a

instance (D : Design) (S : Sched) : Decidable (CgrSymm D S) := by
  unfold CgrSymm; exact Nat.decidableBallLT _ _

theorem Design.isTrans_lt {D : Design} {t : Nat} (h : D.isTrans t = true) : t < D.n := by
  by_cases ht : t < D.n
  · exact ht
  · simp [Design.isTrans, D.body_of_ge (Nat.le_of_not_lt ht), Body.empty] at h

variable {D : Design} {v : Val} {S : Sched} {run : Nat → Bool}

theorem Eager.grants (h : Eager D v S run) : Grants D v run :=
  fun t ht hr => ⟨((h t ht).1 hr).1, ((h t ht).1 hr).2.1⟩

theorem Eager.mutex (h : Eager D v S run) (hsym : CgrSymm D S) (hinj : OrdInj D S) : Mutex D S run := by
  intro t t' ht ht' hne he ⟨r1, r2⟩
  have l1 := D.isTrans_lt ht
  have l2 := D.isTrans_lt ht'
  rcases Nat.lt_trichotomy (S.ord t) (S.ord t') with h' | h' | h'
  · have := ((h t' ht').1 r2).2.2 t ht h' (by rw [hsym t' l2 t l1]; exact he)
    rw [r1] at this; cases this
  · exact hne (hinj t l1 t' l2 ht ht' h')
  · have := ((h t ht).1 r1).2.2 t' ht' h' he
    rw [r2] at this; cases this

theorem RoundRobin.mutex {comp : Nat → Nat} (h : RoundRobin D v comp run) (hc : CompOk D S comp) :
    Mutex D S run :=
  fun t1 t2 h1 h2 hne he => h.2 t1 t2 h1 h2 hne (hc t1 (D.isTrans_lt h1) t2 (D.isTrans_lt h2) he)

/-- the eager scheduler wastes no cycle: an enabled transaction that does not run is blocked by a
running conflicting transaction that precedes it in the priority order -/
theorem eager_no_waste (h : Eager D v S run) {t : Nat} (ht : D.isTrans t = true)
    (hready : v.ready t = true) (hrunnable : Runnable D v run t) (hnr : run t = false) :
    ∃ t', D.isTrans t' = true ∧ S.ord t' < S.ord t ∧ S.cgr t t' = true ∧ run t' = true := by
  apply Classical.byContradiction
  intro hno
  have : run t = true := (h t ht).2 ⟨hready, hrunnable, fun t' h1 h2 h3 => by
    cases hr : run t' with
    | false => rfl
    | true => exact absurd ⟨t', h1, h2, h3, hr⟩ hno⟩
  rw [hnr] at this; cases this

/-- with a conflict edge and `a` before `b` in the order, `b` runs only if `a` does not, and `a`
(if enabled) is then blocked by a third running transaction -/
theorem eager_priority (h : Eager D v S run) (hsym : CgrSymm D S)
    {a b : Nat} (ha : D.isTrans a = true) (hb : D.isTrans b = true) (hord : S.ord a < S.ord b)
    (he : S.cgr a b = true) (hready : v.ready a = true) (hrunnable : Runnable D v run a)
    (hrb : run b = true) :
    run a = false ∧ ∃ t'', t'' ≠ b ∧ D.isTrans t'' = true ∧ S.ord t'' < S.ord a ∧ S.cgr a t'' = true ∧
      run t'' = true := by
  have hra : run a = false :=
    ((h b hb).1 hrb).2.2 a ha hord (by rw [hsym b (D.isTrans_lt hb) a (D.isTrans_lt ha)]; exact he)
  obtain ⟨t', h1, h2, h3, h4⟩ := eager_no_waste h ha hready hrunnable hra
  refine ⟨hra, t', ?_, h1, h2, h3, h4⟩
  intro h; subst h; omega

end TxV.Core
