import TxV.Core.BridgeCgr
/-!
# Bridge, part 4: `CoreModel.elaborate D = ok E` establishes the static hypotheses of C01

`elaborate_sound`: for every design the executable manager model accepts,
`(toAbs D).WF`, `(toAbs D).SitesNodup`, `Bounded`, `ValidRoot` for every root, symmetry of the
conflict graph and "no edge ⇒ `NoImplicitConflict`" hold — i.e. every field of `Accepted` except
`ordInj` (a property of the implementation-supplied order; checked by the driver) and
`cgrExplicit` (the lifting of `add_conflict` relations; checked by the driver through
`Bridge.staticOk`).
-/
namespace TxV.Core.Bridge
open TxV
open TxV.CoreModel (Reject Elab)

theorem elaborate_ok {D : CoreModel.Design} {E : Elab} (h : CoreModel.elaborate D = .ok E) :
    D.wf = true ∧ CoreModel.validateAll D = .ok () ∧ E.mm = CoreModel.methodMap D ∧
      CoreModel.relationEdges D E.mm (CoreModel.implicitEdges D E.mm) = .ok E.g := by
  unfold CoreModel.elaborate at h
  by_cases hwf : D.wf = true
  · simp only [hwf, Bool.not_true, Bool.false_eq_true, if_false, bind, Except.bind, pure, Except.pure] at h
    cases hv : CoreModel.validateAll D with
    | error e => simp [hv] at h
    | ok u =>
      simp only [hv] at h
      cases hr : CoreModel.relationEdges D (CoreModel.methodMap D)
          (CoreModel.implicitEdges D (CoreModel.methodMap D)) with
      | error e => simp [hr] at h
      | ok g =>
        simp only [hr] at h
        split at h
        · cases h
        · split at h
          · cases h
          · split at h
            · cases h
            · simp only [Except.ok.injEq] at h
              subst h
              exact ⟨hwf, rfl, rfl, hr⟩
  · simp [hwf, bind, Except.bind, throw, throwThe, MonadExceptOf.throw] at h

theorem toAbs_isTrans (D : CoreModel.Design) (b : Nat) : (toAbs D).isTrans b = D.isTrans b := by
  unfold Design.isTrans; rw [toAbs_body]; unfold CoreModel.Design.isTrans CoreModel.Design.body?
  cases D.bodies[b]? <;> simp [cvtBody, Body.empty]

/-- what `Design.wf` (the extraction sanity condition) provides -/
theorem wf_facts {D : CoreModel.Design} (hwf : D.wf = true) :
    (∀ b, b < D.bodies.length → b ∈ D.methodsAndTransactions) ∧
    (∀ t, t ∈ D.transactions → D.isTrans t = true) ∧
    (∀ m, m ∈ D.methods → D.isTrans m = false) ∧
    (∀ b c, c ∈ D.calls b → c.callee < D.bodies.length ∧ D.isTrans c.callee = false) ∧
    ((List.range D.bodies.length).flatMap fun b => (D.calls b).map (·.site)).Nodup := by
  simp only [CoreModel.Design.wf, Bool.and_eq_true, List.all_eq_true, decide_eq_true_eq, List.mem_range,
    List.contains_eq_mem, Bool.not_eq_true'] at hwf
  obtain ⟨⟨⟨⟨⟨⟨⟨h1, h2⟩, _⟩, _⟩, h5⟩, h6⟩, h7⟩, _⟩ := hwf
  refine ⟨h5, fun t ht => (h1 t ht).2, fun m hm => (h2 m hm).2, ?_, by simpa using h7⟩
  intro b c hc
  by_cases hb : b < D.bodies.length
  · exact (h6 b hb).1 c hc
  · simp [CoreModel.Design.calls, CoreModel.Design.body?, List.getElem?_eq_none (Nat.le_of_not_lt hb)] at hc

theorem elaborate_sound {D : CoreModel.Design} {E : Elab} (h : CoreModel.elaborate D = .ok E)
    (order : List Nat) :
    (toAbs D).WF ∧ (toAbs D).SitesNodup ∧ Bounded (toAbs D) ∧ (∀ r, ValidRoot (toAbs D) r) ∧
    CgrSymm (toAbs D) (toSched E order) ∧
    (∀ t1 t2, (toAbs D).isTrans t1 = true → (toAbs D).isTrans t2 = true → t1 ≠ t2 →
      (toSched E order).cgr t1 t2 = false → NoImplicitConflict (toAbs D) t1 t2) := by
  obtain ⟨hwf, hval, hmm, hrel⟩ := elaborate_ok h
  obtain ⟨hall, htr, hme, hcal, hnd⟩ := wf_facts hwf
  obtain ⟨hb, hvr⟩ := validateAll_sound hall hval
  have hmemT : ∀ t, (toAbs D).isTrans t = true → t ∈ D.transactions := by
    intro t ht
    have hlt : t < D.bodies.length := by rw [← toAbs_n]; exact (toAbs D).isTrans_lt ht
    have := hall t hlt
    simp only [CoreModel.Design.methodsAndTransactions, List.mem_append] at this
    rcases this with hm | ht'
    · rw [toAbs_isTrans, hme t hm] at ht; cases ht
    · exact ht'
  have hcallee : ∀ b c, c ∈ D.calls b → c.callee ∈ D.methods := by
    intro b c hc
    obtain ⟨hlt, hnt⟩ := hcal b c hc
    have := hall c.callee hlt
    simp only [CoreModel.Design.methodsAndTransactions, List.mem_append] at this
    rcases this with hm | ht'
    · exact hm
    · rw [htr _ ht'] at hnt; cases hnt
  have hcalls : ∀ c ∈ (toAbs D).allCalls, ∃ b c', c' ∈ D.calls b ∧ c = cvtCall c' := by
    intro c hc
    simp only [Design.allCalls, toAbs, List.mem_flatMap, List.mem_map] at hc
    obtain ⟨_, ⟨bd, hbd, rfl⟩, hc⟩ := hc
    simp only [cvtBody, List.mem_map] at hc
    obtain ⟨c', hc', rfl⟩ := hc
    obtain ⟨i, hi, rfl⟩ := List.mem_iff_getElem.1 hbd
    exact ⟨i, c', by simp [CoreModel.Design.calls, CoreModel.Design.body?, List.getElem?_eq_getElem hi, hc'], rfl⟩
  refine ⟨?_, ?_, hb, hvr, ?_, ?_⟩
  · intro c hc
    obtain ⟨b, c', hc', rfl⟩ := hcalls c hc
    obtain ⟨hlt, hnt⟩ := hcal b c' hc'
    exact ⟨by rw [toAbs_n]; exact hlt, by rw [toAbs_isTrans]; exact hnt⟩
  · unfold Design.SitesNodup Design.allSites
    have : (List.flatMap (fun b => List.map (fun c => (b, c)) ((toAbs D).body b).calls)
        (List.range (toAbs D).n)).map (fun x => x.2.site) =
        (List.range D.bodies.length).flatMap fun b => (D.calls b).map (·.site) := by
      rw [toAbs_n, List.map_flatMap]
      congr 1; funext b
      rw [toAbs_calls]; simp [cvtCall, Function.comp_def]
    rw [this]; exact hnd
  · have hs : SymG E.g :=
      relationEdges_inv D E.mm SymG (fun g b e p c hg => addEdge_sym g b e p c hg) hrel
        (implicitEdges_sym D E.mm)
    intro a _ b _
    simp only [toSched]
    cases hab : E.g.adj a b with
    | true => rw [hs a b hab]
    | false =>
      cases hba : E.g.adj b a with
      | true => rw [hs b a hba] at hab; cases hab
      | false => rfl
  · intro t1 t2 h1 h2 hne hno
    exact noEdge_noImplicit hb hmm rfl hrel hcallee (hmemT t1 h1) (hmemT t2 h2) hne hno

end TxV.Core.Bridge
