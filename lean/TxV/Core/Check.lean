import TxV.Core.Conflicts
import TxV.Core.Routing
/-!
# Core theory: executable checkers for the hypotheses of the core theorems

Every hypothesis of the theorems in `Theorems/Routing/Conflicts` is a declarative predicate over
`IsChain`.  Here each gets a `Bool`-valued checker over the fuel-bounded enumeration `chains D D.n`
with a soundness lemma `checker = true → predicate` (under `Bounded D`, itself checked by
`boundedB`), so the driver can evaluate the hypotheses on every extracted design and valuation.
-/
namespace TxV.Core

def Design.chainsOf (D : Design) (r : Nat) : List (List Call) := chains D D.n r

theorem all_range {n : Nat} {p : Nat → Bool} : (List.range n).all p = true ↔ ∀ i, i < n → p i = true := by
  simp [List.all_eq_true]

theorem any_range {n : Nat} {p : Nat → Bool} : (List.range n).any p = true ↔ ∃ i, i < n ∧ p i = true := by
  simp [List.any_eq_true]

variable {D : Design}

theorem mem_chainsOf (hb : Bounded D) {r : Nat} {ch : List Call} : ch ∈ D.chainsOf r ↔ IsChain D r ch :=
  mem_chains_iff hb

/-! ## static checks -/

def validRootB (D : Design) (r : Nat) : Bool :=
  (D.chainsOf r).all fun ch1 => (D.chainsOf r).all fun ch2 =>
    decide (ch1 = ch2) || (match target ch1 with
      | some m => !(target ch2 == some m) || D.nonexcl m || cpe ch1 ch2
      | none => true)

theorem validRootB_sound (hb : Bounded D) {r : Nat} (h : validRootB D r = true) : ValidRoot D r := by
  intro ch1 ch2 m i1 i2 hne g1 g2 hm
  simp only [validRootB, List.all_eq_true] at h
  have := h ch1 ((mem_chainsOf hb).2 i1) ch2 ((mem_chainsOf hb).2 i2)
  simpa [hne, g1, g2, hm] using this

theorem validRootB_complete (hb : Bounded D) {r : Nat} (h : ValidRoot D r) : validRootB D r = true := by
  simp only [validRootB, List.all_eq_true]
  intro ch1 m1 ch2 m2
  have i1 := (mem_chainsOf hb).1 m1
  have i2 := (mem_chainsOf hb).1 m2
  by_cases heq : ch1 = ch2
  · simp [heq]
  · cases g1 : target ch1 with
    | none => simp
    | some m =>
      by_cases g2 : target ch2 = some m
      · cases hm : D.nonexcl m with
        | true => simp [hm]
        | false => simp [h ch1 ch2 m i1 i2 heq g1 g2 hm]
      · simp [g2]

def validRootsB (D : Design) : Bool := (List.range D.n).all (validRootB D)

theorem validRootsB_sound (hb : Bounded D) (h : validRootsB D = true) : ∀ r, ValidRoot D r := by
  intro r
  by_cases hr : r < D.n
  · exact validRootB_sound hb (all_range.1 h r hr)
  · intro ch1 _ _ i1; exact absurd i1.root_lt hr

def noImplicitB (D : Design) (t1 t2 : Nat) : Bool :=
  (D.chainsOf t1).all fun ch1 => (D.chainsOf t2).all fun ch2 =>
    !(target ch1 == target ch2) || lcaNonexcl D ch1 ch2 || cpe ch1 ch2

theorem noImplicitB_sound (hb : Bounded D) {t1 t2 : Nat} (h : noImplicitB D t1 t2 = true) :
    NoImplicitConflict D t1 t2 := by
  intro ch1 ch2 m i1 i2 g1 g2
  simp only [noImplicitB, List.all_eq_true] at h
  have := h ch1 ((mem_chainsOf hb).2 i1) ch2 ((mem_chainsOf hb).2 i2)
  simpa [g1, g2] using this

def reachesB (D : Design) (t m : Nat) : Bool := (D.chainsOf t).any fun ch => target ch == some m

theorem reachesB_iff (hb : Bounded D) {t m : Nat} : reachesB D t m = true ↔ Reaches D t m := by
  simp only [reachesB, List.any_eq_true, beq_iff_eq, Reaches]
  constructor
  · rintro ⟨ch, hm, ht⟩; exact ⟨ch, (mem_chainsOf hb).1 hm, ht⟩
  · rintro ⟨ch, hi, ht⟩; exact ⟨ch, (mem_chainsOf hb).2 hi, ht⟩

/-- `ready_for_transaction(t)` (manager.py:166): the transaction and every method it reaches -/
def reachList (D : Design) (t : Nat) : List Nat := t :: (D.chainsOf t).filterMap target

theorem mem_reachList (hb : Bounded D) {t b : Nat} : b ∈ reachList D t ↔ (b = t ∨ Reaches D t b) := by
  simp only [reachList, List.mem_cons, List.mem_filterMap, Reaches]
  constructor
  · rintro (h | ⟨ch, hm, ht⟩)
    · exact Or.inl h
    · exact Or.inr ⟨ch, (mem_chainsOf hb).1 hm, ht⟩
  · rintro (h | ⟨ch, hi, ht⟩)
    · exact Or.inl h
    · exact Or.inr ⟨ch, (mem_chainsOf hb).2 hi, ht⟩

def transForB (D : Design) (t b : Nat) : Bool := D.isTrans t && (decide (t = b) || reachesB D t b)

theorem transForB_iff (hb : Bounded D) {t b : Nat} : transForB D t b = true ↔ TransFor D t b := by
  simp [transForB, TransFor, reachesB_iff hb]

def transExclusiveB (D : Design) (t1 t2 : Nat) : Bool :=
  (reachList D t1).any fun b1 => (reachList D t2).any fun b2 =>
    (D.body b1).defPath.exclusiveWith (D.body b2).defPath

theorem transExclusiveB_iff (hb : Bounded D) {t1 t2 : Nat} :
    transExclusiveB D t1 t2 = true ↔ TransExclusive D t1 t2 := by
  simp only [transExclusiveB, List.any_eq_true, TransExclusive]
  constructor
  · rintro ⟨b1, h1, b2, h2, hx⟩
    exact ⟨b1, b2, (mem_reachList hb).1 h1, (mem_reachList hb).1 h2, hx⟩
  · rintro ⟨b1, b2, h1, h2, hx⟩
    exact ⟨b1, (mem_reachList hb).2 h1, b2, (mem_reachList hb).2 h2, hx⟩

def exclusiveWithinB (D : Design) (t a b : Nat) : Bool :=
  !decide (a = t) && !decide (b = t) &&
    (info D t a).all fun ch1 => (info D t b).all fun ch2 => cpe ch1 ch2

theorem exclusiveWithinB_sound (hb : Bounded D) {t a b : Nat} (h : exclusiveWithinB D t a b = true) :
    ExclusiveWithin D t a b := by
  simp only [exclusiveWithinB, Bool.and_eq_true, Bool.not_eq_true', decide_eq_false_iff_not,
    List.all_eq_true] at h
  refine ⟨h.1.1, h.1.2, ?_⟩
  intro ch1 ch2 i1 g1 i2 g2
  exact h.2 ch1 ((mem_info_iff hb).2 ⟨i1, g1⟩) ch2 ((mem_info_iff hb).2 ⟨i2, g2⟩)

def cgrImplicitB (D : Design) (S : Sched) : Bool :=
  (List.range D.n).all fun t1 => (List.range D.n).all fun t2 =>
    !(D.isTrans t1 && D.isTrans t2 && !decide (t1 = t2) && !S.cgr t1 t2) || noImplicitB D t1 t2

def cgrExplicitB (D : Design) (S : Sched) : Bool :=
  (List.range D.n).all fun a => (D.body a).rels.all fun r =>
    !(r.conflict && decide (r.dst < D.n)) ||
    (List.range D.n).all fun ta => (List.range D.n).all fun tb =>
      !(transForB D ta a && transForB D tb r.dst) ||
      (if ta = tb then exclusiveWithinB D ta a r.dst else (S.cgr ta tb || transExclusiveB D ta tb))

/-- the executable form of `Accepted`: what the driver evaluates on the extracted design together
with the implementation's `cgr` and `porder` -/
def acceptedB (D : Design) (S : Sched) : Bool :=
  decide D.WF && boundedB D && validRootsB D && decide (CgrSymm D S) && decide (OrdInj D S) &&
    cgrImplicitB D S && cgrExplicitB D S

theorem acceptedB_sound {S : Sched} (h : acceptedB D S = true) : Accepted D S := by
  simp only [acceptedB, Bool.and_eq_true, decide_eq_true_eq] at h
  obtain ⟨⟨⟨⟨⟨⟨hwf, hbB⟩, hvr⟩, hsym⟩, hinj⟩, himp⟩, hexp⟩ := h
  have hb := boundedB_sound hbB
  refine ⟨hwf, hb, validRootsB_sound hb hvr, hsym, hinj, ?_, ?_⟩
  · intro t1 t2 h1 h2 hne he
    have := all_range.1 (all_range.1 himp t1 (D.isTrans_lt h1)) t2 (D.isTrans_lt h2)
    simp [h1, h2, hne, he] at this
    exact noImplicitB_sound hb this
  · intro a b ⟨la, lb, r, hr, hc, hd⟩ ta tb hta htb
    have h1 := all_range.1 hexp a la
    simp only [List.all_eq_true] at h1
    have h2 := h1 r hr
    simp only [hc, hd, lb, decide_true, Bool.and_self, Bool.not_true, Bool.false_or] at h2
    have h3 := all_range.1 (all_range.1 h2 ta (D.isTrans_lt hta.1)) tb (D.isTrans_lt htb.1)
    simp only [(transForB_iff hb).2 hta, (transForB_iff hb).2 htb, Bool.and_self, Bool.not_true,
      Bool.false_or] at h3
    constructor
    · intro heq
      simp only [heq, if_true] at h3
      rw [heq]; exact exclusiveWithinB_sound hb h3
    · intro hne
      simp only [hne, if_false, Bool.or_eq_true] at h3
      rcases h3 with h3 | h3
      · exact Or.inl h3
      · exact Or.inr ((transExclusiveB_iff hb).1 h3)

/-! ## sources of conflict edges, validity of the order -/

theorem IsChain.target_some {r : Nat} {ch : List Call} (h : IsChain D r ch) : ∃ m, target ch = some m := by
  obtain ⟨c, rest, rfl, _⟩ := h.head_mem
  cases hl : (c :: rest).getLast? with
  | none => simp at hl
  | some x => exact ⟨x.callee, by simp [target, hl]⟩

def implicitB (D : Design) (t1 t2 : Nat) : Bool :=
  (D.chainsOf t1).any fun ch1 => (D.chainsOf t2).any fun ch2 =>
    (target ch1 == target ch2) && !lcaNonexcl D ch1 ch2 && !cpe ch1 ch2

theorem implicitB_sound (hb : Bounded D) {t1 t2 : Nat} (h : implicitB D t1 t2 = true) :
    ImplicitConflict D t1 t2 := by
  simp only [implicitB, List.any_eq_true, Bool.and_eq_true, beq_iff_eq, Bool.not_eq_true'] at h
  obtain ⟨ch1, m1, ch2, m2, ⟨ht, hl⟩, hc⟩ := h
  have i1 := (mem_chainsOf hb).1 m1
  obtain ⟨m, hm⟩ := i1.target_some
  exact ⟨ch1, ch2, m, i1, (mem_chainsOf hb).1 m2, hm, by rw [← ht]; exact hm, hl, hc⟩

def conflictRelB (D : Design) (a b : Nat) : Bool :=
  decide (a < D.n) && decide (b < D.n) && (D.body a).rels.any fun r => r.conflict && decide (r.dst = b)

theorem conflictRelB_iff {a b : Nat} : conflictRelB D a b = true ↔ ConflictRel D a b := by
  simp [conflictRelB, ConflictRel, and_assoc]

def liftedB (D : Design) (t1 t2 : Nat) : Bool :=
  ((List.range D.n).any fun a => (List.range D.n).any fun b =>
    (conflictRelB D a b || conflictRelB D b a) && transForB D t1 a && transForB D t2 b) &&
  !transExclusiveB D t1 t2

theorem liftedB_sound (hb : Bounded D) {t1 t2 : Nat} (h : liftedB D t1 t2 = true) : LiftedConflict D t1 t2 := by
  simp only [liftedB, Bool.and_eq_true, any_range, Bool.or_eq_true, conflictRelB_iff, transForB_iff hb,
    Bool.not_eq_true'] at h
  obtain ⟨⟨a, _, b, _, ⟨hr, h1⟩, h2⟩, hx⟩ := h
  refine ⟨a, b, hr, h1, h2, ?_⟩
  intro hte
  rw [(transExclusiveB_iff hb).2 hte] at hx; cases hx

/-- executable form of `CgrSources` -/
def cgrSourcesB (D : Design) (S : Sched) : Bool :=
  (List.range D.n).all fun t1 => (List.range D.n).all fun t2 =>
    !S.cgr t1 t2 ||
      (D.isTrans t1 && D.isTrans t2 && !decide (t1 = t2) && (implicitB D t1 t2 || liftedB D t1 t2))

theorem cgrSourcesB_sound (hb : Bounded D) {S : Sched} (h : cgrSourcesB D S = true) : CgrSources D S := by
  intro t1 l1 t2 l2 he
  have := all_range.1 (all_range.1 h t1 l1) t2 l2
  simp only [he, Bool.not_true, Bool.false_or, Bool.and_eq_true, Bool.not_eq_true', decide_eq_false_iff_not,
    Bool.or_eq_true] at this
  obtain ⟨⟨⟨h1, h2⟩, h3⟩, h4⟩ := this
  refine ⟨h1, h2, h3, ?_⟩
  rcases h4 with h4 | h4
  · exact Or.inl (implicitB_sound hb h4)
  · exact Or.inr (liftedB_sound hb h4)

/-- executable form of `ValidOrder` -/
def validOrderB (D : Design) (S : Sched) : Bool :=
  (List.range D.n).all fun a => (D.body a).rels.all fun r =>
    !decide (r.dst < D.n) ||
    (List.range D.n).all fun ta => (List.range D.n).all fun tb =>
      !(transForB D ta a && transForB D tb r.dst) || (r.conflict && decide (ta = tb)) ||
      (match r.prio with
       | .left => decide (S.ord ta < S.ord tb)
       | .right => decide (S.ord tb < S.ord ta)
       | .undef => true)

theorem validOrderB_sound (hb : Bounded D) {S : Sched} (h : validOrderB D S = true) : ValidOrder D S := by
  intro x y ⟨a, b, r, la, lb, hr, hd, ta, tb, hta, htb, hnc, hcase⟩
  have h1 := all_range.1 h a la
  simp only [List.all_eq_true] at h1
  have h2 := h1 r hr
  simp only [hd, lb, decide_true, Bool.not_true, Bool.false_or] at h2
  have h3 := all_range.1 (all_range.1 h2 ta (D.isTrans_lt hta.1)) tb (D.isTrans_lt htb.1)
  simp only [(transForB_iff hb).2 hta, (transForB_iff hb).2 htb, Bool.and_self, Bool.not_true,
    Bool.false_or, Bool.or_eq_true, Bool.and_eq_true, decide_eq_true_eq] at h3
  rcases h3 with h3 | h3
  · exact absurd h3 hnc
  · rcases hcase with ⟨hp, rfl, rfl⟩ | ⟨hp, rfl, rfl⟩
    · simpa [hp] using h3
    · simpa [hp] using h3

/-! ## per-cycle checks -/

def readyDepB (D : Design) (s b : Nat) : Bool :=
  decide (s < D.n) && (D.body s).rels.any fun r => r.readyDep && decide (r.dst = b)

theorem readyDepB_iff {s b : Nat} : readyDepB D s b = true ↔ ReadyDep D s b := by
  simp [readyDepB, ReadyDep]

/-- `ready_dependencies[b]` -/
def readyDepsOf (D : Design) (b : Nat) : List Nat := (List.range D.n).filter (readyDepB D · b)

theorem mem_readyDepsOf {b d : Nat} : d ∈ readyDepsOf D b ↔ ReadyDep D d b := by
  simp only [readyDepsOf, List.mem_filter, List.mem_range]
  exact ⟨fun h => readyDepB_iff.1 h.2, fun h => ⟨h.1, readyDepB_iff.2 h⟩⟩

theorem all_readyDepsOf {b : Nat} {run : Nat → Bool} :
    (readyDepsOf D b).all run = true ↔ ∀ d, ReadyDep D d b → run d = true := by
  simp only [readyDepsOf, List.all_eq_true, List.mem_filter, List.mem_range]
  constructor
  · intro h d hd; exact h d ⟨hd.1, readyDepB_iff.2 hd⟩
  · intro h d hd; exact h d (readyDepB_iff.1 hd.2)

def runnableB (D : Design) (v : Val) (run : Nat → Bool) (t : Nat) : Bool :=
  ((reachList D t).all fun b => v.ready b && (readyDepsOf D b).all run) &&
  (((D.chainsOf t).filterMap target).all fun m => !(D.body m).hasValidate || validTerm D v t m)

theorem runnableB_iff (hb : Bounded D) {v : Val} {run : Nat → Bool} {t : Nat} :
    runnableB D v run t = true ↔ Runnable D v run t := by
  simp only [runnableB, Bool.and_eq_true, List.all_eq_true, Runnable]
  constructor
  · rintro ⟨h1, h2⟩
    refine ⟨fun b hb' => ⟨(h1 b ((mem_reachList hb).2 hb')).1,
      fun d hd => (h1 b ((mem_reachList hb).2 hb')).2 d (mem_readyDepsOf.2 hd)⟩, ?_⟩
    intro m ⟨ch, hi, ht⟩ hv
    have := h2 m (List.mem_filterMap.2 ⟨ch, (mem_chainsOf hb).2 hi, ht⟩)
    simpa [hv] using this
  · rintro ⟨h1, h2⟩
    refine ⟨fun b hb' => ⟨(h1 b ((mem_reachList hb).1 hb')).1,
      fun d hd => (h1 b ((mem_reachList hb).1 hb')).2 d (mem_readyDepsOf.1 hd)⟩, ?_⟩
    intro m hm
    obtain ⟨ch, hc, ht⟩ := List.mem_filterMap.1 hm
    cases hv : (D.body m).hasValidate with
    | false => simp
    | true => simp [h2 m ⟨ch, (mem_chainsOf hb).1 hc, ht⟩ hv]

def grantsB (D : Design) (v : Val) (run : Nat → Bool) : Bool :=
  (List.range D.n).all fun t => !(D.isTrans t && run t) || (v.ready t && runnableB D v run t)

theorem grantsB_sound (hb : Bounded D) {v : Val} {run : Nat → Bool} (h : grantsB D v run = true) :
    Grants D v run := by
  intro t ht hr
  have := all_range.1 h t (D.isTrans_lt ht)
  simp only [ht, hr, Bool.and_self, Bool.not_true, Bool.false_or, Bool.and_eq_true] at this
  exact ⟨this.1, (runnableB_iff hb).1 this.2⟩

def mutexB (D : Design) (S : Sched) (run : Nat → Bool) : Bool :=
  (List.range D.n).all fun t1 => (List.range D.n).all fun t2 =>
    !(D.isTrans t1 && D.isTrans t2 && !decide (t1 = t2) && S.cgr t1 t2 && run t1 && run t2)

theorem mutexB_sound {S : Sched} {run : Nat → Bool} (h : mutexB D S run = true) : Mutex D S run := by
  intro t1 t2 h1 h2 hne he ⟨r1, r2⟩
  have := all_range.1 (all_range.1 h t1 (D.isTrans_lt h1)) t2 (D.isTrans_lt h2)
  simp [h1, h2, hne, he, r1, r2] at this

def eagerB (D : Design) (v : Val) (S : Sched) (run : Nat → Bool) : Bool :=
  (List.range D.n).all fun t => !D.isTrans t ||
    (run t == (v.ready t && runnableB D v run t &&
      (List.range D.n).all fun t' =>
        !(D.isTrans t' && decide (S.ord t' < S.ord t) && S.cgr t t') || !run t'))

theorem eagerB_sound (hb : Bounded D) {v : Val} {S : Sched} {run : Nat → Bool}
    (h : eagerB D v S run = true) : Eager D v S run := by
  intro t ht
  have := all_range.1 h t (D.isTrans_lt ht)
  simp only [ht, Bool.not_true, Bool.false_or, beq_iff_eq] at this
  rw [this]
  simp only [Bool.and_eq_true, all_range, runnableB_iff hb]
  constructor
  · rintro ⟨⟨h1, h2⟩, h3⟩
    refine ⟨h1, h2, fun t' ht' ho hc => ?_⟩
    have := h3 t' (D.isTrans_lt ht')
    simpa [ht', ho, hc] using this
  · rintro ⟨h1, h2, h3⟩
    refine ⟨⟨h1, h2⟩, fun t' _ => ?_⟩
    by_cases hc : (D.isTrans t' && decide (S.ord t' < S.ord t) && S.cgr t t') = true
    · simp only [Bool.and_eq_true, decide_eq_true_eq] at hc
      simp [h3 t' hc.1.1 hc.1.2 hc.2]
    · simp only [Bool.not_eq_true] at hc; simp [hc]

def roundRobinB (D : Design) (v : Val) (comp : Nat → Nat) (run : Nat → Bool) : Bool :=
  grantsB D v run &&
  (List.range D.n).all fun t1 => (List.range D.n).all fun t2 =>
    !(D.isTrans t1 && D.isTrans t2 && !decide (t1 = t2) && decide (comp t1 = comp t2) && run t1 && run t2)

theorem roundRobinB_sound (hb : Bounded D) {v : Val} {comp : Nat → Nat} {run : Nat → Bool}
    (h : roundRobinB D v comp run = true) : RoundRobin D v comp run := by
  simp only [roundRobinB, Bool.and_eq_true] at h
  refine ⟨grantsB_sound hb h.1, ?_⟩
  intro t1 t2 h1 h2 hne hc ⟨r1, r2⟩
  have := all_range.1 (all_range.1 h.2 t1 (D.isTrans_lt h1)) t2 (D.isTrans_lt h2)
  simp [h1, h2, hne, hc, r1, r2] at this

def methodRunB (D : Design) (v : Val) (run : Nat → Bool) : Bool :=
  (List.range D.n).all fun m => D.isTrans m ||
    (run m == (List.range D.n).any fun t => D.isTrans t && run t && (info D t m).any (chainEn v))

theorem methodRunB_sound (hb : Bounded D) {v : Val} {run : Nat → Bool} (h : methodRunB D v run = true) :
    MethodRunEq D v run := by
  intro m hlt hmt
  have := all_range.1 h m hlt
  simp only [hmt, Bool.false_or, beq_iff_eq] at this
  rw [this]
  simp only [Bool.and_eq_true, List.any_eq_true]
  constructor
  · rintro ⟨t, _, ⟨h1, h2⟩, ch, hin, he⟩
    obtain ⟨hi, ht⟩ := (mem_info_iff hb).1 hin
    exact ⟨t, ch, h1, h2, hi, ht, he⟩
  · rintro ⟨t, ch, h1, h2, hi, ht, he⟩
    exact ⟨t, List.mem_range.2 (D.isTrans_lt h1), ⟨h1, h2⟩, ch, (mem_info_iff hb).2 ⟨hi, ht⟩, he⟩

/-- executable form of `Cycle` for the eager scheduler -/
def cycleEagerB (D : Design) (v : Val) (S : Sched) (run : Nat → Bool) : Bool :=
  decide (ExclSem D v) && decide (ExclReady D v) && methodRunB D v run && eagerB D v S run

theorem cycleEagerB_sound {v : Val} {S : Sched} {run : Nat → Bool} (hA : Accepted D S)
    (h : cycleEagerB D v S run = true) : Cycle D v S run ∧ Eager D v S run := by
  simp only [cycleEagerB, Bool.and_eq_true, decide_eq_true_eq] at h
  obtain ⟨⟨⟨h1, h2⟩, h3⟩, h4⟩ := h
  have he := eagerB_sound hA.bounded h4
  exact ⟨Cycle.ofEager hA h1 h2 (methodRunB_sound hA.bounded h3) he, he⟩

/-- executable form of `Cycle` for the round-robin scheduler -/
def cycleRRB (D : Design) (v : Val) (S : Sched) (comp : Nat → Nat) (run : Nat → Bool) : Bool :=
  decide (ExclSem D v) && decide (ExclReady D v) && methodRunB D v run && decide (CompOk D S comp) &&
    roundRobinB D v comp run

theorem cycleRRB_sound {v : Val} {S : Sched} {comp : Nat → Nat} {run : Nat → Bool} (hA : Accepted D S)
    (h : cycleRRB D v S comp run = true) : Cycle D v S run := by
  simp only [cycleRRB, Bool.and_eq_true, decide_eq_true_eq] at h
  obtain ⟨⟨⟨⟨h1, h2⟩, h3⟩, h4⟩, h5⟩ := h
  exact Cycle.ofRoundRobin h4 h1 h2 (methodRunB_sound hA.bounded h3) (roundRobinB_sound hA.bounded h5)

end TxV.Core
