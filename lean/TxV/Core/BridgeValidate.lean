import TxV.Core.Bridge
/-!
# Bridge, part 2: the executable `validate_root_call_tree` establishes `Bounded` and `ValidRoot`

`CoreModel.recRoot` (Model/Manager.lean) is the transcription of `rec_root` (manager.py:82–97): a
depth-first traversal that threads the accumulated `call_sights` through and raises on recursion or
on a second, non-exclusive call of an exclusive method.  Proved here, for every design, root and
fuel: if it returns normally then
* no call chain from the root is as long as the fuel (`recRoot_bounded`), hence
  `Bounded (toAbs D)` when every root was validated with `fuelOf D` (`validateAll_bounded`);
* the returned sights are exactly the pre-order enumeration of all call chains from the root, and any
  two of them that end in the same exclusive method have exclusive call paths (`recRoot_spec`), hence
  `ValidRoot (toAbs D) root` (`validateRoot_validRoot`).
-/
namespace TxV.Core.Bridge
open TxV
open TxV.CoreModel (Sight recRoot Reject)

/-! ## generic facts about `foldlM` in `Except` -/

theorem foldlM_ok_cons {ε σ α : Type} (f : σ → α → Except ε σ) (a : α) (l : List α) (init out : σ)
    (h : (a :: l).foldlM f init = .ok out) : ∃ s, f init a = .ok s ∧ l.foldlM f s = .ok out := by
  rw [List.foldlM_cons] at h
  cases hf : f init a with
  | error e => rw [hf] at h; cases h
  | ok s => rw [hf] at h; exact ⟨s, rfl, h⟩

theorem foldlM_ok_mem {ε σ α : Type} (f : σ → α → Except ε σ) :
    ∀ (l : List α) (init out : σ), l.foldlM f init = .ok out → ∀ c ∈ l, ∃ s s', f s c = .ok s'
  | [], _, _, _, c, hc => by simp at hc
  | a :: l, init, out, h, c, hc => by
    obtain ⟨s, h1, h2⟩ := foldlM_ok_cons f a l init out h
    simp only [List.mem_cons] at hc
    rcases hc with rfl | hc
    · exact ⟨init, s, h1⟩
    · exact foldlM_ok_mem f l s out h2 c hc

/-! ## the abstract design seen from the executable one -/

theorem toAbs_body (D : CoreModel.Design) (b : Nat) :
    (toAbs D).body b = match D.bodies[b]? with | some x => cvtBody x | none => Body.empty := by
  simp only [Design.body, toAbs, List.getD, List.getElem?_map]
  cases D.bodies[b]? <;> rfl

theorem toAbs_calls (D : CoreModel.Design) (b : Nat) : ((toAbs D).body b).calls = (D.calls b).map cvtCall := by
  rw [toAbs_body]; unfold CoreModel.Design.calls CoreModel.Design.body?
  cases D.bodies[b]? <;> simp [cvtBody, Body.empty]

theorem toAbs_nonexcl (D : CoreModel.Design) (b : Nat) : (toAbs D).nonexcl b = D.nonexclusive b := by
  unfold Design.nonexcl; rw [toAbs_body]; unfold CoreModel.Design.nonexclusive CoreModel.Design.body?
  cases D.bodies[b]? <;> simp [cvtBody, Body.empty]

theorem toAbs_n (D : CoreModel.Design) : (toAbs D).n = D.bodies.length := by simp [Design.n, toAbs]

/-! ## boundedness -/

/-- the body of one iteration of the `for` loop of `rec_root` -/
def stepRoot (D : CoreModel.Design) (fuel : Nat) (ancestors : List Nat) (callPath : List CoreModel.CtrlPath)
    (sights : List Sight) (c : CoreModel.Call) : Except Reject (List Sight) :=
  if ancestors.contains c.callee then .error .cycle
  else if !D.nonexclusive c.callee &&
          sights.any (fun s => s.method == c.callee && !CoreModel.callPathsExclusive s.callPath (callPath ++ [c.path]))
    then .error .doubleCall
  else recRoot D fuel c.callee (c.callee :: ancestors) (callPath ++ [c.path])
        (sights ++ [⟨c.callee, c.callee :: ancestors, callPath ++ [c.path]⟩])

theorem recRoot_succ (D : CoreModel.Design) (fuel src : Nat) (anc : List Nat) (cp : List CoreModel.CtrlPath)
    (s : List Sight) :
    recRoot D (fuel+1) src anc cp s = (D.calls src).foldlM (stepRoot D fuel anc cp) s := rfl

theorem stepRoot_ok {D : CoreModel.Design} {fuel : Nat} {anc : List Nat} {cp : List CoreModel.CtrlPath}
    {s out : List Sight} {c : CoreModel.Call} (h : stepRoot D fuel anc cp s c = .ok out) :
    anc.contains c.callee = false ∧
    (D.nonexclusive c.callee = false → ∀ x ∈ s, x.method = c.callee →
      CoreModel.callPathsExclusive x.callPath (cp ++ [c.path]) = true) ∧
    recRoot D fuel c.callee (c.callee :: anc) (cp ++ [c.path])
      (s ++ [⟨c.callee, c.callee :: anc, cp ++ [c.path]⟩]) = .ok out := by
  unfold stepRoot at h
  by_cases h1 : anc.contains c.callee = true
  · rw [if_pos h1] at h; cases h
  · rw [if_neg h1] at h
    split at h
    · cases h
    · rename_i h2
      refine ⟨by simpa using h1, ?_, h⟩
      intro hne x hx hm
      simp only [hne, Bool.not_false, Bool.true_and, List.any_eq_true, Bool.and_eq_true, beq_iff_eq,
        Bool.not_eq_true', not_exists, not_and] at h2
      have := h2 x hx hm
      simpa using this

/-- a successful `rec_root` with fuel `f` means no call chain from the source has length ≥ `f` -/
theorem recRoot_bounded (D : CoreModel.Design) : ∀ (fuel src : Nat) (anc : List Nat) (cp : List CoreModel.CtrlPath)
    (s out : List Sight), recRoot D fuel src anc cp s = .ok out →
    ∀ ch, IsChain (toAbs D) src ch → ch.length < fuel
  | 0, _, _, _, _, _, h, _, _ => by simp [recRoot] at h
  | fuel+1, src, anc, cp, s, out, h, ch, hch => by
    rw [recRoot_succ] at h
    have key : ∀ c' ∈ ((toAbs D).body src).calls, ∃ (c : CoreModel.Call) (a' : List Nat)
        (p' : List CoreModel.CtrlPath) (s' o' : List Sight),
        c' = cvtCall c ∧ recRoot D fuel c.callee a' p' s' = .ok o' := by
      intro c' hc'
      rw [toAbs_calls] at hc'
      obtain ⟨c, hc, rfl⟩ := List.mem_map.1 hc'
      obtain ⟨s1, s2, hs⟩ := foldlM_ok_mem _ _ _ _ h c hc
      exact ⟨c, _, _, _, _, rfl, (stepRoot_ok hs).2.2⟩
    cases hch with
    | single hm =>
      obtain ⟨c, a', p', s', o', _, hr⟩ := key _ hm
      cases fuel with
      | zero => simp [recRoot] at hr
      | succ f => simp
    | cons hm hrest =>
      obtain ⟨c, a', p', s', o', rfl, hr⟩ := key _ hm
      have := recRoot_bounded D fuel c.callee a' p' s' o' hr _ hrest
      simp only [List.length_cons]; omega

/-! ## the enumeration and the pairwise exclusivity of the sights -/

def sightOf (ch : List CoreModel.Call) : Sight :=
  ⟨((ch.map (·.callee)).reverse).headD 0, (ch.map (·.callee)).reverse, ch.map (·.path)⟩

theorem sightOf_snoc (pre : List CoreModel.Call) (c : CoreModel.Call) :
    sightOf (pre ++ [c]) = ⟨c.callee, c.callee :: (pre.map (·.callee)).reverse, pre.map (·.path) ++ [c.path]⟩ := by
  simp [sightOf]

/-- pre-order enumeration of the call chains below `src`, each prefixed by `pre` -/
def enumM (D : CoreModel.Design) : Nat → Nat → List CoreModel.Call → List (List CoreModel.Call)
  | 0, _, _ => []
  | fuel+1, src, pre => (D.calls src).flatMap fun c => (pre ++ [c]) :: enumM D fuel c.callee (pre ++ [c])

/-- what `rec_root` checks between an earlier and a later sight -/
def RelX (D : CoreModel.Design) (ch0 ch : List CoreModel.Call) : Prop :=
  (sightOf ch0).method = (sightOf ch).method → D.nonexclusive (sightOf ch).method = false →
    CoreModel.callPathsExclusive (ch0.map (·.path)) (ch.map (·.path)) = true

theorem pairwise_snoc {α} {R : α → α → Prop} {l : List α} {x : α} (h : l.Pairwise R) (hx : ∀ a ∈ l, R a x) :
    (l ++ [x]).Pairwise R := by
  rw [List.pairwise_append]
  exact ⟨h, List.pairwise_singleton _ _, fun a ha b hb => by simp at hb; subst hb; exact hx a ha⟩

theorem recRoot_spec (D : CoreModel.Design) : ∀ (fuel src : Nat) (pre : List CoreModel.Call)
    (E0 : List (List CoreModel.Call)) (out : List Sight),
    recRoot D fuel src (pre.map (·.callee)).reverse (pre.map (·.path)) (E0.map sightOf) = .ok out →
    out = (E0 ++ enumM D fuel src pre).map sightOf ∧
      (E0.Pairwise (RelX D) → (E0 ++ enumM D fuel src pre).Pairwise (RelX D))
  | 0, _, _, _, _, h => by simp [recRoot] at h
  | fuel+1, src, pre, E0, out, h => by
    rw [recRoot_succ] at h
    -- generalise over the remaining calls of the loop
    have loop : ∀ (cs : List CoreModel.Call) (E : List (List CoreModel.Call)) (out : List Sight),
        cs.foldlM (stepRoot D fuel (pre.map (·.callee)).reverse (pre.map (·.path))) (E.map sightOf) = .ok out →
        out = (E ++ cs.flatMap fun c => (pre ++ [c]) :: enumM D fuel c.callee (pre ++ [c])).map sightOf ∧
          (E.Pairwise (RelX D) →
            (E ++ cs.flatMap fun c => (pre ++ [c]) :: enumM D fuel c.callee (pre ++ [c])).Pairwise (RelX D)) := by
      intro cs
      induction cs with
      | nil =>
        intro E out h
        simp only [List.foldlM_nil, pure, Except.pure, Except.ok.injEq] at h
        subst h; simp
      | cons c cs ih =>
        intro E out h
        obtain ⟨s1, hstep, hrest⟩ := foldlM_ok_cons _ c cs _ out h
        obtain ⟨_, hchk, hrec⟩ := stepRoot_ok hstep
        have e1 : E.map sightOf ++ [⟨c.callee, c.callee :: (pre.map (·.callee)).reverse, pre.map (·.path) ++ [c.path]⟩]
            = (E ++ [pre ++ [c]]).map sightOf := by
          rw [List.map_append, List.map_singleton, sightOf_snoc]
        rw [e1] at hrec
        have e2 : c.callee :: (pre.map (·.callee)).reverse = ((pre ++ [c]).map (·.callee)).reverse := by simp
        have e3 : pre.map (·.path) ++ [c.path] = (pre ++ [c]).map (·.path) := by simp
        rw [e2, e3] at hrec
        obtain ⟨ho, hp⟩ := recRoot_spec D fuel c.callee (pre ++ [c]) (E ++ [pre ++ [c]]) s1 hrec
        rw [ho] at hrest
        obtain ⟨ho2, hp2⟩ := ih _ out hrest
        refine ⟨by rw [ho2]; simp [List.append_assoc], ?_⟩
        intro hE
        have hE1 : (E ++ [pre ++ [c]]).Pairwise (RelX D) := by
          apply pairwise_snoc hE
          intro a ha hm hne
          have hm' : (sightOf a).method = c.callee := by rw [hm, sightOf_snoc]
          have hne' : D.nonexclusive c.callee = false := by rw [sightOf_snoc] at hne; exact hne
          have := hchk hne' (sightOf a) (List.mem_map.2 ⟨a, ha, rfl⟩) hm'
          rw [e3] at this
          exact this
        have := hp2 (hp hE1)
        simpa [List.append_assoc] using this
    have := loop (D.calls src) E0 out h
    simpa [enumM] using this

/-- the abstract enumeration is the image of the executable one -/
theorem chains_toAbs (D : CoreModel.Design) : ∀ (fuel src : Nat) (pre : List CoreModel.Call),
    (enumM D fuel src pre).map (fun ch => ch.map cvtCall) =
      (chains (toAbs D) fuel src).map (fun ch => pre.map cvtCall ++ ch)
  | 0, _, _ => by simp [enumM, chains]
  | fuel+1, src, pre => by
    simp only [enumM, chains, toAbs_calls, List.map_flatMap, List.flatMap_map]
    congr 1
    funext c
    simp only [List.map_cons, List.map_append, List.map_map]
    rw [chains_toAbs D fuel c.callee (pre ++ [c])]
    simp [cvtCall, Function.comp_def, List.append_assoc]

theorem sightOf_method_eq_target {ch : List CoreModel.Call} {m : Nat}
    (h : target (ch.map cvtCall) = some m) : (sightOf ch).method = m := by
  unfold target at h
  rw [List.getLast?_map] at h
  cases hl : ch.getLast? with
  | none => simp [hl] at h
  | some c =>
    simp only [hl, Option.map_some, Option.some.injEq] at h
    have : ch = ch.dropLast ++ [c] := by
      have hne : ch ≠ [] := by intro h0; simp [h0] at hl
      rw [List.getLast?_eq_some_getLast hne] at hl
      simp only [Option.some.injEq] at hl
      rw [← hl]; exact (List.dropLast_concat_getLast hne).symm
    rw [this, sightOf_snoc]; exact h

/-- the executable validation of one root establishes the declarative `ValidRoot` -/
theorem validateRoot_validRoot {D : CoreModel.Design} {root : Nat} (hb : Bounded (toAbs D))
    (hfuel : D.bodies.length ≤ fuel) {out : List Sight} (h : recRoot D fuel root [] [] [] = .ok out) :
    ValidRoot (toAbs D) root := by
  obtain ⟨_, hp⟩ := recRoot_spec D fuel root [] [] out (by simpa using h)
  have hpw : (enumM D fuel root []).Pairwise (RelX D) := by simpa using hp List.Pairwise.nil
  intro ch1 ch2 m i1 i2 hne g1 g2 hm
  have hmem : ∀ ch, IsChain (toAbs D) root ch → ∃ ch', ch' ∈ enumM D fuel root [] ∧ ch'.map cvtCall = ch := by
    intro ch hi
    have h1 : ch ∈ chains (toAbs D) fuel root :=
      chains_complete (toAbs D) hi fuel (Nat.le_trans (hb root ch hi) (by rw [toAbs_n]; exact hfuel))
    have h2 := chains_toAbs D fuel root []
    simp only [List.map_nil, List.nil_append, List.map_id'] at h2
    rw [← h2] at h1
    obtain ⟨ch', hm', rfl⟩ := List.mem_map.1 h1
    exact ⟨ch', hm', rfl⟩
  obtain ⟨c1, m1, rfl⟩ := hmem ch1 i1
  obtain ⟨c2, m2, rfl⟩ := hmem ch2 i2
  have hne' : c1 ≠ c2 := fun h => hne (by rw [h])
  have hs1 := sightOf_method_eq_target g1
  have hs2 := sightOf_method_eq_target g2
  have hnx : D.nonexclusive m = false := by rw [← toAbs_nonexcl]; exact hm
  -- the two chains sit at different positions of the enumeration
  have hor : RelX D c1 c2 ∨ RelX D c2 c1 := by
    obtain ⟨i, hi, rfl⟩ := List.mem_iff_getElem.1 m1
    obtain ⟨j, hj, rfl⟩ := List.mem_iff_getElem.1 m2
    rcases Nat.lt_trichotomy i j with hlt | heq | hgt
    · exact Or.inl (List.pairwise_iff_getElem.1 hpw i j hi hj hlt)
    · subst heq; exact absurd rfl hne'
    · exact Or.inr (List.pairwise_iff_getElem.1 hpw j i hj hi hgt)
  rcases hor with hr | hr
  · have := hr (by rw [hs1, hs2]) (by rw [hs2]; exact hnx)
    rw [cpe_agree] at this; exact this
  · have := hr (by rw [hs1, hs2]) (by rw [hs1]; exact hnx)
    rw [cpe_agree, cpe_comm] at this; exact this

/-! ## all roots -/

theorem validateAll_roots {D : CoreModel.Design} (h : CoreModel.validateAll D = .ok ()) :
    ∀ r ∈ D.methodsAndTransactions, ∃ out, recRoot D (CoreModel.fuelOf D) r [] [] [] = .ok out := by
  intro r hr
  unfold CoreModel.validateAll at h
  obtain ⟨s, s', hs⟩ := foldlM_ok_mem _ _ _ _ h r hr
  unfold CoreModel.validateRoot at hs
  cases hrr : recRoot D (CoreModel.fuelOf D) r [] [] [] with
  | error e => rw [hrr] at hs; cases hs
  | ok out => exact ⟨out, rfl⟩

/-- **MethodMap.__init__ accepts ⇒ the hypotheses `Bounded` and `ValidRoot` of the core theorems**, for
every design in which every body is listed as a method or a transaction (part of `Design.wf`) -/
theorem validateAll_sound {D : CoreModel.Design} (hall : ∀ b, b < D.bodies.length → b ∈ D.methodsAndTransactions)
    (h : CoreModel.validateAll D = .ok ()) :
    Bounded (toAbs D) ∧ ∀ r, ValidRoot (toAbs D) r := by
  have hb : Bounded (toAbs D) := by
    intro r ch hi
    have hr : r < D.bodies.length := by rw [← toAbs_n]; exact hi.root_lt
    obtain ⟨out, ho⟩ := validateAll_roots h r (hall r hr)
    have := recRoot_bounded D _ r [] [] [] out ho ch hi
    rw [toAbs_n]; unfold CoreModel.fuelOf at this; omega
  refine ⟨hb, fun r => ?_⟩
  by_cases hr : r < D.bodies.length
  · obtain ⟨out, ho⟩ := validateAll_roots h r (hall r hr)
    exact validateRoot_validRoot hb (by unfold CoreModel.fuelOf; omega) ho
  · intro ch1 _ _ i1
    exact absurd (by rw [← toAbs_n]; exact i1.root_lt) hr

end TxV.Core.Bridge
