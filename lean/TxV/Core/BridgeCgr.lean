import TxV.Core.BridgeValidate
/-!
# Bridge, part 3: absence of a conflict edge in the executable `_conflict_graph` ⇒ `NoImplicitConflict`

For the executable model (`CoreModel.methodMap`, `implicitEdges`, `relationEdges`): if two
different transactions have no edge in the final graph, then `calls_nonexclusive` held for every
method both reach, i.e. `NoImplicitConflict (toAbs D) t1 t2` — the hypothesis `Accepted.cgrImplicit`
of C01.  Also: the final graph is symmetric.
-/
namespace TxV.Core.Bridge
open TxV
open TxV.CoreModel (CallInfo Graphs MethodMap)

/-! ## folds that only add edges -/

theorem foldl_inv {α β : Type} (P : β → Prop) (f : β → α → β) (hmono : ∀ g x, P g → P (f g x)) :
    ∀ (l : List α) (init : β), P init → P (l.foldl f init)
  | [], _, h => h
  | a :: l, init, h => foldl_inv P f hmono l (f init a) (hmono init a h)

theorem foldl_hit {α β : Type} (P : β → Prop) (f : β → α → β) (hmono : ∀ g x, P g → P (f g x))
    {x0 : α} (hx : ∀ g, P (f g x0)) : ∀ (l : List α) (init : β), x0 ∈ l → P (l.foldl f init)
  | [], _, h => by simp at h
  | a :: l, init, h => by
    simp only [List.mem_cons] at h
    rcases h with rfl | h
    · exact foldl_inv P f hmono l _ (hx init)
    · exact foldl_hit P f hmono hx l _ h

theorem foldlM_inv {ε α β : Type} (P : β → Prop) (f : β → α → Except ε β)
    (hmono : ∀ g x g', f g x = .ok g' → P g → P g') :
    ∀ (l : List α) (init out : β), l.foldlM f init = .ok out → P init → P out
  | [], init, out, h, hp => by
    simp only [List.foldlM_nil, pure, Except.pure, Except.ok.injEq] at h; subst h; exact hp
  | a :: l, init, out, h, hp => by
    obtain ⟨s, h1, h2⟩ := foldlM_ok_cons f a l init out h
    exact foldlM_inv P f hmono l s out h2 (hmono init a s h1 hp)

theorem addEdge_cgr (g : Graphs) (b e : Nat) (p : CoreModel.Priority) (c : Bool) :
    (g.addEdge b e p c).cgr = if c then g.cgr ++ [(b, e), (e, b)] else g.cgr := by
  unfold Graphs.addEdge
  cases c <;> cases p <;> rfl

theorem addEdge_adj_mono (g : Graphs) (b e : Nat) (p : CoreModel.Priority) (c : Bool) (x y : Nat)
    (h : g.adj x y = true) : (g.addEdge b e p c).adj x y = true := by
  unfold Graphs.adj at *
  rw [addEdge_cgr]
  cases c
  · simpa using h
  · simp only [if_true, List.contains_eq_mem, List.mem_append, decide_eq_true_eq] at h ⊢
    exact Or.inl (by simpa using h)

theorem addEdge_adj_new (g : Graphs) (b e : Nat) (p : CoreModel.Priority) :
    (g.addEdge b e p true).adj b e = true := by
  unfold Graphs.adj
  rw [addEdge_cgr]; simp

/-- symmetry of the edge list is preserved by `add_edge` -/
def SymG (g : Graphs) : Prop := ∀ x y, g.adj x y = true → g.adj y x = true

theorem addEdge_sym (g : Graphs) (b e : Nat) (p : CoreModel.Priority) (c : Bool) (h : SymG g) :
    SymG (g.addEdge b e p c) := by
  intro x y hxy
  unfold Graphs.adj at *
  rw [addEdge_cgr] at hxy ⊢
  cases c
  · exact h x y hxy
  · simp only [if_true, List.contains_eq_mem, List.mem_append, List.mem_cons, Prod.mk.injEq,
      List.not_mem_nil, or_false, decide_eq_true_eq] at hxy ⊢
    rcases hxy with hxy | ⟨rfl, rfl⟩ | ⟨rfl, rfl⟩
    · left
      have := h x y (by simpa [Graphs.adj] using hxy)
      simpa [Graphs.adj] using this
    · right; right; exact ⟨rfl, rfl⟩
    · right; left; exact ⟨rfl, rfl⟩

/-! ## `implicitEdges` and `relationEdges` -/

theorem implicitEdges_hit (D : CoreModel.Design) (mm : MethodMap) {m : Nat} {ts : List Nat} {t1 t2 : Nat}
    (hm : (m, ts) ∈ mm.tbm) (h1 : t1 ∈ ts) (h2 : t2 ∈ ts) (hne : t1 ≠ t2)
    (hc : CoreModel.callsNonexclusive D mm t1 t2 m = false) :
    (CoreModel.implicitEdges D mm).adj t1 t2 = true := by
  unfold CoreModel.implicitEdges
  let P : Graphs → Prop := fun g => g.adj t1 t2 = true
  have step3 : ∀ (m' a b : Nat) (g : Graphs), P g →
      P (if a != b && !CoreModel.callsNonexclusive D mm a b m' then g.addEdge a b .undefined true else g) := by
    intro m' a b g hg
    split
    · exact addEdge_adj_mono g a b _ _ t1 t2 hg
    · exact hg
  have step2 : ∀ (m' : Nat) (ts' : List Nat) (a : Nat) (g : Graphs), P g →
      P (ts'.foldl (fun g b =>
        if a != b && !CoreModel.callsNonexclusive D mm a b m' then g.addEdge a b .undefined true else g) g) :=
    fun m' ts' a g hg => foldl_inv P _ (fun g b => step3 m' a b g) ts' g hg
  have step1 : ∀ (x : Nat × List Nat) (g : Graphs), P g →
      P (x.2.foldl (fun g a => x.2.foldl (fun g b =>
        if a != b && !CoreModel.callsNonexclusive D mm a b x.1 then g.addEdge a b .undefined true else g) g) g) :=
    fun x g hg => foldl_inv P _ (fun g a => step2 x.1 x.2 a g) x.2 g hg
  apply foldl_hit P (fun g (x : Nat × List Nat) => x.2.foldl (fun g a => x.2.foldl (fun g b =>
        if a != b && !CoreModel.callsNonexclusive D mm a b x.1 then g.addEdge a b .undefined true else g) g) g)
    (fun g x => step1 x g) (x0 := (m, ts)) ?_ _ _ hm
  intro g
  apply foldl_hit P _ (fun g a => step2 m ts a g) (x0 := t1) ?_ _ _ h1
  intro g
  apply foldl_hit P _ (fun g b => step3 m t1 b g) (x0 := t2) ?_ _ _ h2
  intro g
  have : (t1 != t2 && !CoreModel.callsNonexclusive D mm t1 t2 m) = true := by simp [hne, hc]
  simp only [this, if_true]
  exact addEdge_adj_new g t1 t2 _

theorem implicitEdges_sym (D : CoreModel.Design) (mm : MethodMap) : SymG (CoreModel.implicitEdges D mm) := by
  unfold CoreModel.implicitEdges
  apply foldl_inv SymG
  · intro g x hg
    apply foldl_inv SymG _ _ _ _ hg
    intro g a hg
    apply foldl_inv SymG _ _ _ _ hg
    intro g b hg
    split
    · exact addEdge_sym g a b _ _ hg
    · exact hg
  · intro x y h; simp [Graphs.adj] at h

theorem relationEdges_inv (D : CoreModel.Design) (mm : MethodMap) (P : Graphs → Prop)
    (hadd : ∀ g b e p c, P g → P (g.addEdge b e p c)) {g0 g : Graphs}
    (h : CoreModel.relationEdges D mm g0 = .ok g) (h0 : P g0) : P g := by
  unfold CoreModel.relationEdges at h
  refine foldlM_inv P _ ?_ _ _ _ h h0
  intro g x g' hstep hg
  obtain ⟨start, r⟩ := x
  dsimp only at hstep
  by_cases hc : (!r.conflict && decide (D.defOrder r.dst < D.defOrder start) && !r.silence) = true
  · rw [if_pos hc] at hstep; cases hstep
  · rw [if_neg hc] at hstep
    refine foldlM_inv P _ ?_ _ _ _ hstep hg
    intro g ts g' hstep hg
    refine foldlM_inv P _ ?_ _ _ _ hstep hg
    intro g te g' hstep hg
    by_cases h1 : (r.conflict && ts == te) = true
    · rw [if_pos h1] at hstep
      by_cases h2 : (!CoreModel.callsExclusiveWithin mm ts start r.dst) = true
      · rw [if_pos h2] at hstep; cases hstep
      · rw [if_neg h2] at hstep; cases hstep; exact hg
    · rw [if_neg h1] at hstep; cases hstep; exact hadd _ _ _ _ _ hg

/-! ## the method map in terms of the chain enumeration -/

def infoOf (ch : List CoreModel.Call) : Nat × CallInfo :=
  match ch.getLast? with
  | some c => (c.callee, ⟨(ch.map (·.callee)).reverse, ch.map (·.path), ch.map (·.site), c.site⟩)
  | none => (0, default)

theorem infoOf_snoc (pre : List CoreModel.Call) (c : CoreModel.Call) :
    infoOf (pre ++ [c]) = (c.callee, ⟨c.callee :: (pre.map (·.callee)).reverse, pre.map (·.path) ++ [c.path],
      pre.map (·.site) ++ [c.site], c.site⟩) := by
  simp [infoOf]

theorem chainsM_eq (D : CoreModel.Design) : ∀ (fuel src : Nat) (pre : List CoreModel.Call),
    CoreModel.chains D fuel src (pre.map (·.callee)).reverse (pre.map (·.path)) (pre.map (·.site)) =
      (enumM D fuel src pre).map infoOf
  | 0, _, _ => by simp [CoreModel.chains, enumM]
  | fuel+1, src, pre => by
    simp only [CoreModel.chains, enumM, List.map_flatMap]
    congr 1
    funext c
    have e2 : c.callee :: (pre.map (·.callee)).reverse = ((pre ++ [c]).map (·.callee)).reverse := by simp
    have e3 : pre.map (·.path) ++ [c.path] = (pre ++ [c]).map (·.path) := by simp
    have e4 : pre.map (·.site) ++ [c.site] = (pre ++ [c]).map (·.site) := by simp
    simp only [List.map_cons, infoOf_snoc]
    rw [e2, e3, e4, chainsM_eq D fuel c.callee (pre ++ [c])]

theorem infoOf_fst {ch : List CoreModel.Call} {m : Nat} (h : target (ch.map cvtCall) = some m) :
    (infoOf ch).1 = m ∧ (infoOf ch).2.ancestors = (ch.map (·.callee)).reverse ∧
      (infoOf ch).2.callPath = ch.map (·.path) := by
  unfold target at h
  rw [List.getLast?_map] at h
  cases hl : ch.getLast? with
  | none => simp [hl] at h
  | some c =>
    simp only [hl, Option.map_some, Option.some.injEq] at h
    simp only [infoOf, hl]
    exact ⟨h, trivial, trivial⟩

theorem find?_map_key {α : Type} (f : Nat → α) : ∀ (l : List Nat) (t : Nat), t ∈ l →
    (l.map fun x => (x, f x)).find? (fun p => p.1 == t) = some (t, f t)
  | [], _, h => by simp at h
  | a :: l, t, h => by
    simp only [List.map_cons, List.find?_cons]
    by_cases hat : a = t
    · subst hat; simp
    · have : (a == t) = false := by simpa using hat
      simp only [this]
      simp only [List.mem_cons] at h
      rcases h with rfl | h
      · exact absurd rfl hat
      · exact find?_map_key f l t h

theorem mem_dedup : ∀ (l : List Nat) (x : Nat), x ∈ CoreModel.dedup l ↔ x ∈ l
  | [], _ => by simp [CoreModel.dedup]
  | a :: l, x => by
    simp only [CoreModel.dedup, List.mem_cons, List.mem_filter, mem_dedup l x, bne_iff_ne, ne_eq]
    constructor
    · rintro (h | ⟨h, _⟩)
      · exact Or.inl h
      · exact Or.inr h
    · rintro (h | h)
      · exact Or.inl h
      · by_cases hx : x = a
        · exact Or.inl hx
        · exact Or.inr ⟨h, hx⟩

section
variable (D : CoreModel.Design)

theorem infoFor_eq {t : Nat} (ht : t ∈ D.transactions) (m : Nat) :
    (CoreModel.methodMap D).infoFor t m =
      (((enumM D (CoreModel.fuelOf D) t []).map infoOf).filter (·.1 == m)).map (·.2) := by
  unfold MethodMap.infoFor CoreModel.methodMap
  simp only
  rw [find?_map_key (fun t => CoreModel.chains D (CoreModel.fuelOf D) t [] [] []) D.transactions t ht]
  have := chainsM_eq D (CoreModel.fuelOf D) t []
  simp only [List.map_nil, List.reverse_nil] at this
  rw [this]

theorem mem_tbm {m : Nat} (hm : m ∈ D.methods) :
    ∃ ts, (m, ts) ∈ (CoreModel.methodMap D).tbm ∧
      ∀ t, t ∈ D.transactions → (∃ ch ∈ enumM D (CoreModel.fuelOf D) t [], (infoOf ch).1 = m) → t ∈ ts := by
  refine ⟨_, List.mem_map.2 ⟨m, hm, rfl⟩, ?_⟩
  intro t ht ⟨ch, hch, hfst⟩
  simp only [List.mem_map, List.mem_filter]
  refine ⟨(t, CoreModel.dedup ((CoreModel.chains D (CoreModel.fuelOf D) t [] [] []).map (·.1))), ⟨?_, ?_⟩, rfl⟩
  · exact ⟨(t, CoreModel.chains D (CoreModel.fuelOf D) t [] [] []), ⟨t, ht, rfl⟩, rfl⟩
  · simp only [List.contains_eq_mem, decide_eq_true_eq, mem_dedup]
    have := chainsM_eq D (CoreModel.fuelOf D) t []
    simp only [List.map_nil, List.reverse_nil] at this
    rw [this]
    simp only [List.map_map, List.mem_map, Function.comp]
    exact ⟨ch, hch, hfst⟩

end

theorem lcp_agree : ∀ (a b : List Nat), CoreModel.lcp a b = lcp a b
  | [], _ => by cases ‹List Nat› <;> rfl
  | _ :: _, [] => rfl
  | a :: as, b :: bs => by
    simp only [CoreModel.lcp, lcp]
    by_cases h : a = b
    · simp [h, lcp_agree as bs]
    · simp [h]

/-- **no edge ⇒ no implicit conflict**, for the executable model -/
theorem noEdge_noImplicit {D : CoreModel.Design} {E : CoreModel.Elab} {g0 : Graphs}
    (hb : Bounded (toAbs D))
    (hE : E.mm = CoreModel.methodMap D)
    (hg0 : g0 = CoreModel.implicitEdges D E.mm) (hg : CoreModel.relationEdges D E.mm g0 = .ok E.g)
    (hcallee : ∀ b c, c ∈ D.calls b → c.callee ∈ D.methods)
    {t1 t2 : Nat} (h1 : t1 ∈ D.transactions) (h2 : t2 ∈ D.transactions) (hne : t1 ≠ t2)
    (hno : E.g.adj t1 t2 = false) : NoImplicitConflict (toAbs D) t1 t2 := by
  intro ch1 ch2 m i1 i2 g1 g2
  have hfuel : D.bodies.length ≤ CoreModel.fuelOf D := by unfold CoreModel.fuelOf; omega
  have hmem : ∀ t ch, IsChain (toAbs D) t ch →
      ∃ ch', ch' ∈ enumM D (CoreModel.fuelOf D) t [] ∧ ch'.map cvtCall = ch := by
    intro t ch hi
    have h1 : ch ∈ chains (toAbs D) (CoreModel.fuelOf D) t :=
      chains_complete (toAbs D) hi _ (Nat.le_trans (hb t ch hi) (by rw [toAbs_n]; exact hfuel))
    have h2 := chains_toAbs D (CoreModel.fuelOf D) t []
    simp only [List.map_nil, List.nil_append, List.map_id'] at h2
    rw [← h2] at h1
    obtain ⟨ch', hm', rfl⟩ := List.mem_map.1 h1
    exact ⟨ch', hm', rfl⟩
  obtain ⟨c1, m1, rfl⟩ := hmem t1 ch1 i1
  obtain ⟨c2, m2, rfl⟩ := hmem t2 ch2 i2
  obtain ⟨f1, a1, p1⟩ := infoOf_fst g1
  obtain ⟨f2, a2, p2⟩ := infoOf_fst g2
  -- `m` is a method of the design
  have hmm : m ∈ D.methods := by
    obtain ⟨c, hl, hcm, hmemc⟩ := i1.target_callee g1
    simp only [Design.allCalls, toAbs, List.mem_flatMap, List.mem_map] at hmemc
    obtain ⟨_, ⟨b, hb', rfl⟩, hc⟩ := hmemc
    simp only [cvtBody, List.mem_map] at hc
    obtain ⟨c', hc', rfl⟩ := hc
    obtain ⟨i, hi, rfl⟩ := List.mem_iff_getElem.1 hb'
    have : c' ∈ D.calls i := by
      simp [CoreModel.Design.calls, CoreModel.Design.body?, List.getElem?_eq_getElem hi, hc']
    rw [← hcm]; exact hcallee i c' this
  obtain ⟨ts, hts, hin⟩ := mem_tbm D hmm
  rw [← hE] at hts
  have ht1 : t1 ∈ ts := hin t1 h1 ⟨c1, m1, f1⟩
  have ht2 : t2 ∈ ts := hin t2 h2 ⟨c2, m2, f2⟩
  -- no edge: `calls_nonexclusive` held
  have hcn : CoreModel.callsNonexclusive D E.mm t1 t2 m = true := by
    cases hc : CoreModel.callsNonexclusive D E.mm t1 t2 m with
    | true => rfl
    | false =>
      have e0 := implicitEdges_hit D E.mm hts ht1 ht2 hne hc
      have := relationEdges_inv D E.mm (fun g => g.adj t1 t2 = true)
        (fun g b e p c h => addEdge_adj_mono g b e p c t1 t2 h) hg (by rw [hg0]; exact e0)
      rw [hno] at this; cases this
  unfold CoreModel.callsNonexclusive at hcn
  rw [hE, infoFor_eq D h1, infoFor_eq D h2] at hcn
  simp only [List.all_eq_true, List.mem_map, List.mem_filter, beq_iff_eq] at hcn
  have := hcn (infoOf c1).2 ⟨infoOf c1, ⟨⟨c1, m1, rfl⟩, f1⟩, rfl⟩ (infoOf c2).2 ⟨infoOf c2, ⟨⟨c2, m2, rfl⟩, f2⟩, rfl⟩
  rw [a1, a2, p1, p2, lcp_agree, cpe_agree] at this
  unfold lcaNonexcl anc callees
  simp only [List.map_map]
  have ec : ∀ (l : List CoreModel.Call), List.map ((fun x => x.callee) ∘ cvtCall) l = l.map (·.callee) := by
    intro l; apply List.map_congr_left; intro c _; rfl
  rw [ec, ec]
  cases hl : (lcp (c1.map (·.callee)).reverse (c2.map (·.callee)).reverse).getLast? with
  | none =>
    exfalso
    -- both ancestor lists start with `m`
    have s1 : ∃ r1, (c1.map (·.callee)).reverse = m :: r1 := by
      have := f1; unfold infoOf at this
      cases hl1 : c1.getLast? with
      | none => simp [hl1] at this; cases c1 with
        | nil => cases i1.ne_nil rfl
        | cons x xs => simp at hl1
      | some c =>
        simp [hl1] at this
        have hne1 : c1 ≠ [] := by intro h0; simp [h0] at hl1
        have : c1 = c1.dropLast ++ [c] := by
          rw [List.getLast?_eq_some_getLast hne1] at hl1
          simp only [Option.some.injEq] at hl1
          rw [← hl1]; exact (List.dropLast_concat_getLast hne1).symm
        rw [this]; simp [‹c.callee = m›]
    have s2 : ∃ r2, (c2.map (·.callee)).reverse = m :: r2 := by
      have := f2; unfold infoOf at this
      cases hl2 : c2.getLast? with
      | none => simp [hl2] at this; cases c2 with
        | nil => cases i2.ne_nil rfl
        | cons x xs => simp at hl2
      | some c =>
        simp [hl2] at this
        have hne2 : c2 ≠ [] := by intro h0; simp [h0] at hl2
        have : c2 = c2.dropLast ++ [c] := by
          rw [List.getLast?_eq_some_getLast hne2] at hl2
          simp only [Option.some.injEq] at hl2
          rw [← hl2]; exact (List.dropLast_concat_getLast hne2).symm
        rw [this]; simp [‹c.callee = m›]
    obtain ⟨r1, e1⟩ := s1
    obtain ⟨r2, e2⟩ := s2
    rw [e1, e2] at hl
    simp [lcp] at hl
  | some n =>
    rw [hl] at this
    simp only [Bool.or_eq_true] at this
    rcases this with h | h
    · left; simp only; rw [toAbs_nonexcl]; exact h
    · right; exact h

end TxV.Core.Bridge
