import TxV.Core.Ctrl
/-!
# Core theory: the flat design the manager sees, call chains, the C01 argument

Declarative counterparts of manager.py: `IsChain` (the call chains `MethodMap.rec`
enumerates), `cpe` (`call_paths_exclusive`, manager.py:31), `ValidRoot` (what
`validate_root_call_tree`, manager.py:79, establishes), `NoImplicitConflict` (what the absence
of an implicit `cgr` edge means, `calls_nonexclusive`, manager.py:239), `ExclSem` (what
`exclusive_sound` gives for the call-site enables), and the flat C01 theorem `c01_flat`.
-/
namespace TxV.Core

/-- transaction_base.py `Priority` -/
inductive Prio where
  | undef | left | right
deriving DecidableEq, Repr

/-- one entry of `Body.method_calls[callee]`: `(ctrl_path, arg, enable_sig)`; `site` identifies the
occurrence (and so its `enable_sig`/`arg_rec` signals) -/
structure Call where
  callee : Nat
  path : CtrlPath
  site : Nat
deriving DecidableEq, Repr

/-- transaction_base.py `RelationBase` (`silence_warning` only affects a diagnostic) -/
structure Rel where
  dst : Nat
  prio : Prio
  conflict : Bool
  readyDep : Bool
deriving DecidableEq, Repr

structure Body where
  isTrans : Bool
  defPath : CtrlPath
  nonexcl : Bool
  singleCaller : Bool
  hasValidate : Bool
  calls : List Call
  rels : List Rel
deriving Repr

/-- body.py:42 default `ctrl_path = CtrlPath(-1, ())`; an id outside the design denotes an
uncalled, call-free, exclusive method -/
def Body.empty : Body := ⟨false, ⟨-1, []⟩, false, false, false, [], []⟩

structure Design where
  bodies : List Body
deriving Repr

def Design.n (D : Design) : Nat := D.bodies.length
def Design.body (D : Design) (b : Nat) : Body := D.bodies.getD b Body.empty
def Design.nonexcl (D : Design) (b : Nat) : Bool := (D.body b).nonexcl
def Design.isTrans (D : Design) (b : Nat) : Bool := (D.body b).isTrans
def Design.allCalls (D : Design) : List Call := D.bodies.flatMap (·.calls)
/-- every call occurrence together with its caller -/
def Design.allSites (D : Design) : List (Nat × Call) :=
  (List.range D.n).flatMap fun b => (D.body b).calls.map fun c => (b, c)

theorem Design.body_of_ge (D : Design) {b : Nat} (h : D.n ≤ b) : D.body b = Body.empty := by
  simp [Design.body, Design.n] at *
  simp [List.getElem?_eq_none h]

theorem Design.mem_allCalls {D : Design} {b : Nat} {c : Call} (h : c ∈ (D.body b).calls) :
    c ∈ D.allCalls := by
  by_cases hb : b < D.n
  · simp only [Design.allCalls, List.mem_flatMap]
    refine ⟨D.body b, ?_, h⟩
    simp only [Design.body, Design.n] at *
    simp [List.getD, List.getElem?_eq_getElem hb]
  · rw [D.body_of_ge (by omega)] at h; simp [Body.empty] at h

theorem Design.mem_allSites {D : Design} {b : Nat} {c : Call} :
    (b, c) ∈ D.allSites ↔ c ∈ (D.body b).calls := by
  constructor
  · intro h
    simp only [Design.allSites, List.mem_flatMap, List.mem_range, List.mem_map, Prod.mk.injEq] at h
    obtain ⟨b', _, c', hc', rfl, rfl⟩ := h; exact hc'
  · intro h
    by_cases hb : b < D.n
    · simp only [Design.allSites, List.mem_flatMap, List.mem_range, List.mem_map, Prod.mk.injEq]
      exact ⟨b, hb, c, h, rfl, rfl⟩
    · rw [D.body_of_ge (by omega)] at h; simp [Body.empty] at h

theorem Design.lt_of_call {D : Design} {b : Nat} {c : Call} (h : c ∈ (D.body b).calls) : b < D.n := by
  by_cases hb : b < D.n
  · exact hb
  · rw [D.body_of_ge (by omega)] at h; simp [Body.empty] at h

/-- well-formedness of the extracted design: callees are methods of the design
(manager.py:84 `MBody(method_obj._body)`) -/
def Design.WF (D : Design) : Prop :=
  ∀ c ∈ D.allCalls, c.callee < D.n ∧ D.isTrans c.callee = false

instance (D : Design) : Decidable D.WF := by unfold Design.WF; infer_instance

/-- call-site ids are unique (each call creates a fresh `enable_sig`, method.py:316) -/
def Design.SitesNodup (D : Design) : Prop := (D.allSites.map (·.2.site)).Nodup

instance (D : Design) : Decidable D.SitesNodup := by unfold Design.SitesNodup; infer_instance

/-! ## call chains -/

/-- all call chains (non-empty) starting in body `r`, depth-limited by `fuel` (`MethodMap.rec`,
manager.py:101, in the same pre-order) -/
def chains (D : Design) : Nat → Nat → List (List Call)
  | 0, _ => []
  | fuel+1, r => (D.body r).calls.flatMap fun c => [c] :: (chains D fuel c.callee).map (c :: ·)

def target (ch : List Call) : Option Nat := ch.getLast?.map (·.callee)

/-- manager.py:31 `call_paths_exclusive` on chains: the first position where the ctrl paths differ
must be exclusive; a chain whose path tuple is a prefix of the other's is not exclusive with it -/
def cpe : List Call → List Call → Bool
  | a :: as, b :: bs => if a.path = b.path then cpe as bs else a.path.exclusiveWith b.path
  | _, _ => false

/-- valuation of one cycle -/
structure Val where
  /-- `Body.ready` (assigned in `av_comb` at the definition) -/
  ready : Nat → Bool
  /-- `enable_sig` of a call site (assigned 1 in `av_comb` under the conditions around the call) -/
  en : Nat → Bool
  /-- `arg_rec` of a call site -/
  arg : Nat → Nat
  /-- `validate_arguments` predicate of a method applied to an argument value -/
  pred : Nat → Nat → Bool

/-- `CallInfo.enable` = conjunction of the enables along the chain (manager.py:113) -/
def chainEn (v : Val) (ch : List Call) : Bool := ch.all (fun c => v.en c.site)

/-- semantic exclusivity of call-site ctrl paths, supplied by `exclusive_sound` -/
def ExclSem (D : Design) (v : Val) : Prop :=
  ∀ a ∈ D.allCalls, ∀ b ∈ D.allCalls, a.path.exclusiveWith b.path = true →
    ¬ (v.en a.site = true ∧ v.en b.site = true)

instance (D : Design) (v : Val) : Decidable (ExclSem D v) := by unfold ExclSem; infer_instance

/-- semantic exclusivity of body-definition ctrl paths (`ready` is assigned at the definition) -/
def ExclReady (D : Design) (v : Val) : Prop :=
  ∀ a, a < D.n → ∀ b, b < D.n → (D.body a).defPath.exclusiveWith (D.body b).defPath = true →
    ¬ (v.ready a = true ∧ v.ready b = true)

instance (D : Design) (v : Val) : Decidable (ExclReady D v) := by
  unfold ExclReady; exact Nat.decidableBallLT _ _

theorem cpe_sound (D : Design) (v : Val) (h : ExclSem D v) :
    ∀ (c1 c2 : List Call), (∀ c ∈ c1, c ∈ D.allCalls) → (∀ c ∈ c2, c ∈ D.allCalls) →
      cpe c1 c2 = true → ¬ (chainEn v c1 = true ∧ chainEn v c2 = true)
  | [], _, _, _, h' => by simp [cpe] at h'
  | _ :: _, [], _, _, h' => by simp [cpe] at h'
  | a :: as, b :: bs, m1, m2, h' => by
    simp only [cpe] at h'
    intro ⟨e1, e2⟩
    simp only [chainEn, List.all_cons, Bool.and_eq_true] at e1 e2
    by_cases hp : a.path = b.path
    · simp [hp] at h'
      exact cpe_sound D v h as bs (fun c hc => m1 c (List.mem_cons_of_mem _ hc))
        (fun c hc => m2 c (List.mem_cons_of_mem _ hc)) h' ⟨e1.2, e2.2⟩
    · simp [hp] at h'
      exact h a (m1 a (List.mem_cons_self ..)) b (m2 b (List.mem_cons_self ..)) h' ⟨e1.1, e2.1⟩

theorem cpe_irrefl : ∀ (c : List Call), cpe c c = false
  | [] => rfl
  | a :: as => by simp [cpe, cpe_irrefl as]

theorem cpe_comm : ∀ (c1 c2 : List Call), cpe c1 c2 = cpe c2 c1
  | [], [] => rfl
  | [], _ :: _ => rfl
  | _ :: _, [] => rfl
  | a :: as, b :: bs => by
    simp only [cpe]
    by_cases hp : a.path = b.path
    · simp [hp, cpe_comm as bs]
    · have hp' : ¬ b.path = a.path := fun h => hp h.symm
      simp [hp, hp', CtrlPath.exclusiveWith_comm]

/-- declarative call chains: `IsChain D r ch` — `ch` is a non-empty sequence of calls, the first
made in body `r`, each next one in the callee of the previous -/
inductive IsChain (D : Design) : Nat → List Call → Prop where
  | single {r c} : c ∈ (D.body r).calls → IsChain D r [c]
  | cons {r c ch} : c ∈ (D.body r).calls → IsChain D c.callee ch → IsChain D r (c :: ch)

theorem IsChain.ne_nil {D r ch} (h : IsChain D r ch) : ch ≠ [] := by
  cases h <;> simp

theorem IsChain.calls_mem {D r ch} (h : IsChain D r ch) : ∀ c ∈ ch, c ∈ D.allCalls := by
  induction h with
  | single hm => intro c hc; simp at hc; subst hc; exact D.mem_allCalls hm
  | cons hm _ ih =>
    intro c hc; simp only [List.mem_cons] at hc
    rcases hc with rfl | hc
    · exact D.mem_allCalls hm
    · exact ih c hc

theorem target_cons_cons (c d : Call) (ch : List Call) : target (c :: d :: ch) = target (d :: ch) := by
  simp [target, List.getLast?_cons_cons]

theorem target_append_singleton (ch : List Call) (c : Call) : target (ch ++ [c]) = some c.callee := by
  simp [target]

theorem IsChain.ext {D r ch b c} (h : IsChain D r ch) (ht : target ch = some b)
    (hc : c ∈ (D.body b).calls) : IsChain D r (ch ++ [c]) := by
  induction h with
  | single hm =>
    simp [target] at ht; subst ht
    exact .cons hm (.single hc)
  | @cons r c' ch' hm hch ih =>
    have hne := hch.ne_nil
    obtain ⟨d, ds, rfl⟩ := List.exists_cons_of_ne_nil hne
    rw [target_cons_cons] at ht
    exact .cons hm (ih ht)

/-- the part of a chain after a non-empty prefix is a chain rooted at the prefix' target -/
theorem IsChain.suffix {D} : ∀ {r} (A B : List Call) {n}, IsChain D r (A ++ B) → A ≠ [] → B ≠ [] →
    target A = some n → IsChain D n B
  | _, [], _, _, _, hA, _, _ => absurd rfl hA
  | r, [a], B, n, h, _, hB, ht => by
    simp [target] at ht; subst ht
    cases h with
    | single _ => simp at hB
    | cons _ hch => exact hch
  | r, a :: a' :: A, B, n, h, _, hB, ht => by
    rw [target_cons_cons] at ht
    cases h with
    | cons _ hch => exact IsChain.suffix (a' :: A) B hch (by simp) hB ht

/-- a non-empty prefix of a chain is a chain -/
theorem IsChain.prefix {D} : ∀ {r} (A B : List Call), IsChain D r (A ++ B) → A ≠ [] → IsChain D r A
  | _, [], _, _, hA => absurd rfl hA
  | r, [a], B, h, _ => by
    cases h with
    | single hm => exact .single hm
    | cons hm _ => exact .single hm
  | r, a :: a' :: A, B, h, _ => by
    cases h with
    | cons hm hch => exact .cons hm (IsChain.prefix (a' :: A) B hch (by simp))

theorem chains_sound (D : Design) : ∀ (fuel r : Nat) (ch : List Call), ch ∈ chains D fuel r → IsChain D r ch
  | 0, _, _, h => by simp [chains] at h
  | fuel+1, r, ch, h => by
    simp only [chains, List.mem_flatMap, List.mem_cons, List.mem_map] at h
    obtain ⟨c, hc, h | ⟨ch', hch', rfl⟩⟩ := h
    · subst h; exact .single hc
    · exact .cons hc (chains_sound D fuel c.callee ch' hch')

theorem chains_complete (D : Design) {r ch} (h : IsChain D r ch) :
    ∀ fuel, ch.length ≤ fuel → ch ∈ chains D fuel r := by
  induction h with
  | @single r c hm =>
    intro fuel hf
    cases fuel with
    | zero => simp at hf
    | succ fuel =>
      simp only [chains, List.mem_flatMap, List.mem_cons, List.mem_map]
      exact ⟨c, hm, Or.inl rfl⟩
  | @cons r c ch hm _ ih =>
    intro fuel hf
    cases fuel with
    | zero => simp at hf
    | succ fuel =>
      simp only [chains, List.mem_flatMap, List.mem_cons, List.mem_map]
      exact ⟨c, hm, Or.inr ⟨ch, ih fuel (by simpa using hf), rfl⟩⟩

/-- no call chain is longer than the number of bodies (what the recursion check of
`validate_root_call_tree`, manager.py:89, guarantees for an accepted design) -/
def Bounded (D : Design) : Prop := ∀ r ch, IsChain D r ch → ch.length ≤ D.n

/-- executable check of `Bounded`: enumerating with one more unit of fuel finds no longer chain -/
def boundedB (D : Design) : Bool :=
  (List.range D.n).all fun r => (chains D (D.n + 1) r).all fun ch => ch.length ≤ D.n

theorem IsChain.root_lt {D r ch} (h : IsChain D r ch) : r < D.n := by
  have : ∃ c, c ∈ (D.body r).calls := by cases h <;> exact ⟨_, ‹_›⟩
  obtain ⟨c, hc⟩ := this
  by_cases hr : r < D.n
  · exact hr
  · rw [D.body_of_ge (by omega)] at hc; simp [Body.empty] at hc

theorem boundedB_sound {D : Design} (h : boundedB D = true) : Bounded D := by
  intro r ch hch
  apply Classical.byContradiction
  intro hlt
  have hlen : D.n + 1 ≤ ch.length := by omega
  have hsplit : ch = ch.take (D.n + 1) ++ ch.drop (D.n + 1) := (List.take_append_drop _ _).symm
  have hlen' : (ch.take (D.n + 1)).length = D.n + 1 := by
    rw [List.length_take]; omega
  have hne : ch.take (D.n + 1) ≠ [] := by
    intro h0; rw [h0] at hlen'; simp at hlen'
  have hp : IsChain D r (ch.take (D.n + 1)) := by
    rw [hsplit] at hch; exact IsChain.prefix _ _ hch hne
  have hm := chains_complete D hp (D.n + 1) (by omega)
  simp only [boundedB, List.all_eq_true, List.mem_range, decide_eq_true_eq] at h
  have := h r hch.root_lt _ hm
  omega

theorem mem_chains_iff {D : Design} (hb : Bounded D) {r : Nat} {ch : List Call} :
    ch ∈ chains D D.n r ↔ IsChain D r ch :=
  ⟨chains_sound D _ _ _, fun h => chains_complete D h _ (hb r ch h)⟩

/-! ## declarative validity predicates -/

def lcp : List Nat → List Nat → List Nat
  | a :: as, b :: bs => if a = b then a :: lcp as bs else []
  | _, _ => []

def callees (ch : List Call) : List Nat := ch.map (·.callee)
/-- `CallInfo.ancestors` (innermost first, manager.py:111) -/
def anc (ch : List Call) : List Nat := (callees ch).reverse

/-- `common_ancestors[-1].nonexclusive` of manager.py:241 -/
def lcaNonexcl (D : Design) (c1 c2 : List Call) : Bool :=
  match (lcp (anc c1) (anc c2)).getLast? with
  | some n => D.nonexcl n
  | none => false

/-- declarative version of `validate_root_call_tree` (double-call part, manager.py:92–94): any two
distinct chains from `r` to one exclusive method have exclusive call paths -/
def ValidRoot (D : Design) (r : Nat) : Prop :=
  ∀ ch1 ch2 m, IsChain D r ch1 → IsChain D r ch2 → ch1 ≠ ch2 → target ch1 = some m → target ch2 = some m →
    D.nonexcl m = false → cpe ch1 ch2 = true

/-- no implicit conflict edge between two transactions: `calls_nonexclusive` (manager.py:239) holds
for every method both reach -/
def NoImplicitConflict (D : Design) (t1 t2 : Nat) : Prop :=
  ∀ ch1 ch2 m, IsChain D t1 ch1 → IsChain D t2 ch2 → target ch1 = some m → target ch2 = some m →
    lcaNonexcl D ch1 ch2 = true ∨ cpe ch1 ch2 = true

/-- the run signals of method bodies (manager.py:550–555): a method runs iff some running
transaction has an enabled call chain to it -/
def MethodRunEq (D : Design) (v : Val) (run : Nat → Bool) : Prop :=
  ∀ m, m < D.n → D.isTrans m = false →
    (run m = true ↔ ∃ t ch, D.isTrans t = true ∧ run t = true ∧ IsChain D t ch ∧ target ch = some m ∧
      chainEn v ch = true)

/-- a call site is *active*: its caller runs and its enable is true — the entries of the `runs`
vector of `_method_calls` (manager.py:342) -/
def ActiveSite (D : Design) (v : Val) (run : Nat → Bool) (b : Nat) (c : Call) : Prop :=
  c ∈ (D.body b).calls ∧ run b = true ∧ v.en c.site = true

theorem chainEn_append (v : Val) (a b : List Call) : chainEn v (a ++ b) = (chainEn v a && chainEn v b) := by
  simp [chainEn]

/-- an active call site yields an enabled chain from a running transaction ending in that call -/
theorem active_chain {D v run b c} (hrun : MethodRunEq D v run) (h : ActiveSite D v run b c) :
    ∃ t ch, D.isTrans t = true ∧ run t = true ∧ IsChain D t ch ∧ chainEn v ch = true ∧ ch.getLast? = some c := by
  obtain ⟨hc, hr, he⟩ := h
  by_cases ht : D.isTrans b = true
  · exact ⟨b, [c], ht, hr, .single hc, by simp [chainEn, he], rfl⟩
  · have ht' : D.isTrans b = false := by simpa using ht
    obtain ⟨t, ch, h1, h2, h3, h4, h5⟩ := (hrun b (D.lt_of_call hc) ht').1 hr
    refine ⟨t, ch ++ [c], h1, h2, h3.ext h4 hc, ?_, by simp⟩
    rw [chainEn_append, h5]; simp [chainEn, he]

theorem lca_split : ∀ (l1 l2 : List Call) (n : Nat), (lcp (callees l1) (callees l2)).getLast? = some n →
    ∃ X1 z1 Y1 X2 z2 Y2, l1 = X1 ++ z1 :: Y1 ∧ l2 = X2 ++ z2 :: Y2 ∧ z1.callee = n ∧ z2.callee = n ∧
      callees X1 = callees X2
  | [], _, _, h => by simp [callees, lcp] at h
  | _ :: _, [], _, h => by simp [callees, lcp] at h
  | a :: as, b :: bs, n, h => by
    by_cases hab : a.callee = b.callee
    · simp only [callees, List.map_cons, lcp, hab, if_true] at h
      by_cases hnil : lcp (callees as) (callees bs) = []
      · simp only [callees] at hnil
        simp [hnil] at h
        exact ⟨[], a, as, [], b, bs, by simp, by simp, by omega, h, rfl⟩
      · simp only [callees] at hnil
        rw [List.getLast?_cons_of_ne_nil hnil] at h
        obtain ⟨X1, z1, Y1, X2, z2, Y2, e1, e2, hz1, hz2, hX⟩ := lca_split as bs n h
        exact ⟨a :: X1, z1, Y1, b :: X2, z2, Y2, by simp [e1], by simp [e2], hz1, hz2, by simp [callees, hab] at *; exact hX⟩
    · simp [callees, lcp, hab] at h

theorem callees_reverse (ch : List Call) : callees ch.reverse = (callees ch).reverse := by
  simp [callees]

theorem lca_case (D : Design) (v : Val) (hExcl : ExclSem D v) (hValid : ∀ r, ValidRoot D r)
    {t1 t2 : Nat} {ch1 ch2 : List Call} {m : Nat} {c1 c2 : Call}
    (I1 : IsChain D t1 ch1) (I2 : IsChain D t2 ch2)
    (l1 : ch1.getLast? = some c1) (l2 : ch2.getLast? = some c2)
    (hc1 : c1.callee = m) (hc2 : c2.callee = m) (hm : D.nonexcl m = false)
    (e1 : chainEn v ch1 = true) (e2 : chainEn v ch2 = true)
    (hl : lcaNonexcl D ch1 ch2 = true) : c1 = c2 := by
  unfold lcaNonexcl anc at hl
  rw [← callees_reverse, ← callees_reverse] at hl
  split at hl
  next n hn =>
    have hnm : n ≠ m := by intro h; subst h; rw [hm] at hl; cases hl
    obtain ⟨X1, z1, Y1, X2, z2, Y2, r1, r2, hz1, hz2, hX⟩ := lca_split _ _ n hn
    have h1 : ch1.reverse.head? = some c1 := by rw [List.head?_reverse]; exact l1
    have h2 : ch2.reverse.head? = some c2 := by rw [List.head?_reverse]; exact l2
    have hX1 : X1.head? = some c1 := by
      cases X1 with
      | nil => simp [r1] at h1; subst h1; exact absurd (hz1.symm.trans hc1) (by simpa using hnm)
      | cons x xs => simpa [r1] using h1
    have hX2 : X2.head? = some c2 := by
      cases X2 with
      | nil => simp [r2] at h2; subst h2; exact absurd (hz2.symm.trans hc2) (by simpa using hnm)
      | cons x xs => simpa [r2] using h2
    have hX1ne : X1 ≠ [] := by intro h; simp [h] at hX1
    have hX2ne : X2 ≠ [] := by intro h; simp [h] at hX2
    have d1 : ch1 = (Y1.reverse ++ [z1]) ++ X1.reverse := by
      have := congrArg List.reverse r1; simpa using this
    have d2 : ch2 = (Y2.reverse ++ [z2]) ++ X2.reverse := by
      have := congrArg List.reverse r2; simpa using this
    have J1 : IsChain D n X1.reverse := by
      rw [d1] at I1
      exact IsChain.suffix _ _ I1 (by simp) (by simpa using hX1ne) (by rw [target_append_singleton, hz1])
    have J2 : IsChain D n X2.reverse := by
      rw [d2] at I2
      exact IsChain.suffix _ _ I2 (by simp) (by simpa using hX2ne) (by rw [target_append_singleton, hz2])
    have g1 : X1.reverse.getLast? = some c1 := by rw [List.getLast?_reverse]; exact hX1
    have g2 : X2.reverse.getLast? = some c2 := by rw [List.getLast?_reverse]; exact hX2
    have f1 : chainEn v X1.reverse = true := by
      rw [d1, chainEn_append] at e1; simp only [Bool.and_eq_true] at e1; exact e1.2
    have f2 : chainEn v X2.reverse = true := by
      rw [d2, chainEn_append] at e2; simp only [Bool.and_eq_true] at e2; exact e2.2
    by_cases heq : X1.reverse = X2.reverse
    · rw [heq] at g1; rw [g1] at g2; exact Option.some.inj g2
    · have := hValid n X1.reverse X2.reverse m J1 J2 heq (by simp [target, g1, hc1]) (by simp [target, g2, hc2]) hm
      exact absurd ⟨f1, f2⟩ (cpe_sound D v hExcl _ _ J1.calls_mem J2.calls_mem this)
  next => cases hl

/-- C01 at the flat level: any two active call occurrences of an exclusive method coincide. -/
theorem c01_flat (D : Design) (v : Val) (run : Nat → Bool)
    (hExcl : ExclSem D v) (hValid : ∀ r, ValidRoot D r) (hrun : MethodRunEq D v run)
    (hMutex : ∀ t1 t2, D.isTrans t1 = true → D.isTrans t2 = true → t1 ≠ t2 →
      run t1 = true → run t2 = true → NoImplicitConflict D t1 t2)
    {m b1 b2 : Nat} {c1 c2 : Call} (hm : D.nonexcl m = false)
    (h1 : ActiveSite D v run b1 c1) (hc1 : c1.callee = m)
    (h2 : ActiveSite D v run b2 c2) (hc2 : c2.callee = m) : c1 = c2 := by
  obtain ⟨t1, ch1, T1, R1, I1, E1, L1⟩ := active_chain hrun h1
  obtain ⟨t2, ch2, T2, R2, I2, E2, L2⟩ := active_chain hrun h2
  have tg1 : target ch1 = some m := by simp [target, L1, hc1]
  have tg2 : target ch2 = some m := by simp [target, L2, hc2]
  by_cases heq : ch1 = ch2
  · rw [heq] at L1; rw [L1] at L2; exact Option.some.inj L2
  · by_cases ht : t1 = t2
    · subst ht
      have := hValid t1 ch1 ch2 m I1 I2 heq tg1 tg2 hm
      exact absurd ⟨E1, E2⟩ (cpe_sound D v hExcl _ _ I1.calls_mem I2.calls_mem this)
    · rcases hMutex t1 t2 T1 T2 ht R1 R2 ch1 ch2 m I1 I2 tg1 tg2 with hl | hc
      · exact lca_case D v hExcl hValid I1 I2 L1 L2 hc1 hc2 hm E1 E2 hl
      · exact absurd ⟨E1, E2⟩ (cpe_sound D v hExcl _ _ I1.calls_mem I2.calls_mem hc)

end TxV.Core
