import TxV.Core.Ctrl
/-!
# Core theory: the stateful `CtrlPathBuilder` (tmodule.py:145–185) produces the positional paths

`BState.step` transcribes `CtrlPathBuilder.enter` (the code before `yield` and the `finally` part
after it) for the three `EnterType`s; `evBlk` linearises a control tree into the sequence of
enter/exit events `TModule`'s context managers perform around it (`If` = PUSH, `Elif`/`Else` = ADD,
`Switch`/`FSM` = PUSH, `Case`/`Default`/`State` = ENTRY, `AvoidedIf` = PUSH) with one `site` event per
call site / body definition (`m.ctrl_path` is read there).  `builder_positional`: running the
stateful builder over the trace of a tree records, for every site, exactly the positional path
`sitesBlk` assigns — the numbering `exclusive_sound`/`exclusive_complete` are about.

Side condition `wfBlk`: an `If`-chain (and `AvoidedIf`) has at least its first alternative — a
structure without alternatives does not exist in a program (for `Switch`/`FSM` zero cases are fine).
A builder error (`assert self.previous is not None`, `self.ctrl_path[-1]` on an empty path) is
modelled by `none`; the theorem shows it does not occur on traces of trees.
-/
namespace TxV.Core

/-- tmodule.py:52 `EnterType` -/
inductive EnterType where
  | push | add | entry
deriving DecidableEq, Repr

inductive Ev where
  | enter (t : EnterType)
  | exit (t : EnterType)
  | site (s : Nat)
deriving Repr

/-- `CtrlPathBuilder.ctrl_path`, `.previous` -/
structure BState where
  path : List Edge
  previous : Option Edge
deriving Repr

/-- one event; the second component is what a site records (`build_ctrl_path`, tmodule.py:183) -/
def BState.step (st : BState) : Ev → Option (BState × List (Nat × List Edge))
  | .enter .add =>                                   -- tmodule.py:167–169
    match st.previous with
    | none => none
    | some p => some (⟨st.path ++ [⟨p.alt + 1, p.par⟩], none⟩, [])
  | .enter .entry =>                                 -- tmodule.py:170–171
    match st.path.getLast? with
    | none => none
    | some e => some (⟨st.path.dropLast ++ [⟨e.alt + 1, e.par⟩], none⟩, [])
  | .enter .push =>                                  -- tmodule.py:172–176
    match st.previous with
    | some p => some (⟨st.path ++ [⟨0, p.par + 1⟩], none⟩, [])
    | none => some (⟨st.path ++ [⟨0, 0⟩], none⟩, [])
  | .exit .entry => some (st, [])                    -- tmodule.py:180: nothing for ENTRY
  | .exit _ =>                                       -- tmodule.py:180–181 `self.previous = self.ctrl_path.pop()`
    match st.path.getLast? with
    | none => none
    | some e => some (⟨st.path.dropLast, some e⟩, [])
  | .site s => some (st, [(s, st.path)])

def runB : List Ev → BState → Option (BState × List (Nat × List Edge))
  | [], st => some (st, [])
  | e :: es, st =>
    match st.step e with
    | none => none
    | some (st', o) =>
      match runB es st' with
      | none => none
      | some (st'', o') => some (st'', o ++ o')

/-- `Runs l s s' o`: the trace `l` runs without builder error from `s` to `s'` recording `o` -/
def Runs (l : List Ev) (s s' : BState) (o : List (Nat × List Edge)) : Prop := runB l s = some (s', o)

theorem Runs.nil (s : BState) : Runs [] s s [] := rfl

theorem Runs.cons {e : Ev} {l : List Ev} {s s1 s2 : BState} {o1 o2 : List (Nat × List Edge)}
    (h1 : s.step e = some (s1, o1)) (h2 : Runs l s1 s2 o2) : Runs (e :: l) s s2 (o1 ++ o2) := by
  unfold Runs at *; simp [runB, h1, h2]

theorem Runs.append {l1 l2 : List Ev} {s s1 s2 : BState} {o1 o2 : List (Nat × List Edge)}
    (h1 : Runs l1 s s1 o1) (h2 : Runs l2 s1 s2 o2) : Runs (l1 ++ l2) s s2 (o1 ++ o2) := by
  induction l1 generalizing s o1 with
  | nil =>
    unfold Runs at h1; simp only [runB, Option.some.injEq, Prod.mk.injEq] at h1
    obtain ⟨rfl, rfl⟩ := h1
    simpa using h2
  | cons e l ih =>
    unfold Runs at h1
    simp only [runB] at h1
    cases hs : s.step e with
    | none => simp [hs] at h1
    | some p =>
      obtain ⟨s', o'⟩ := p
      simp only [hs] at h1
      cases hr : runB l s' with
      | none => simp [hr] at h1
      | some q =>
        obtain ⟨s'', o''⟩ := q
        simp only [hr, Option.some.injEq, Prod.mk.injEq] at h1
        obtain ⟨rfl, rfl⟩ := h1
        have := Runs.cons hs (ih (s := s') (o1 := o'') hr)
        simpa [List.append_assoc] using this

theorem Runs.single {e : Ev} {s s1 : BState} {o1 : List (Nat × List Edge)} (h : s.step e = some (s1, o1)) :
    Runs [e] s s1 o1 := by
  have := Runs.cons h (Runs.nil s1); simpa using this

/-! ## the trace of a tree -/

mutual
def evBlk : Blk → List Ev
  | .nil => []
  | .site s r => .site s :: evBlk r
  | .struct k alts r => (if altOffset k = 0 then evFirst alts
                         else [.enter .push] ++ evEntry alts ++ [.exit .push]) ++ evBlk r
/-- `If`/`AvoidedIf` alternative followed by its `Elif`/`Else` alternatives -/
def evFirst : Alts → List Ev
  | .nil => []
  | .cons b ar => [.enter .push] ++ evBlk b ++ [.exit .push] ++ evAdd ar
def evAdd : Alts → List Ev
  | .nil => []
  | .cons b ar => [.enter .add] ++ evBlk b ++ [.exit .add] ++ evAdd ar
/-- `Case`/`Default`/`State` alternatives -/
def evEntry : Alts → List Ev
  | .nil => []
  | .cons b ar => [.enter .entry] ++ evBlk b ++ [.exit .entry] ++ evEntry ar
end

def Alts.isNil : Alts → Bool
  | .nil => true
  | .cons _ _ => false

def Alts.len : Alts → Nat
  | .nil => 0
  | .cons _ r => r.len + 1

mutual
def wfBlk : Blk → Bool
  | .nil => true
  | .site _ r => wfBlk r
  | .struct k alts r => (altOffset k == 1 || !alts.isNil) && wfAlts alts && wfBlk r
def wfAlts : Alts → Bool
  | .nil => true
  | .cons b r => wfBlk b && wfAlts r
end

/-- `par` of the next structure of a block, given `previous` -/
def parOf : Option Edge → Nat
  | none => 0
  | some e => e.par + 1

def outOf (l : List SiteInfo) : List (Nat × List Edge) := l.map fun e => (e.id, e.path)

theorem outOf_append (a b : List SiteInfo) : outOf (a ++ b) = outOf a ++ outOf b := by simp [outOf]

theorem altOffset_cases (k : Kind) : altOffset k = 0 ∨ altOffset k = 1 := by
  cases k <;> simp [altOffset]

/-! ## the builder records the positional paths -/

mutual
theorem builder_blk (v : CVal) (av : Bool) : ∀ (b : Blk), wfBlk b = true →
    ∀ (pre : List Edge) (prev : Option Edge) (act : Bool),
      ∃ q, Runs (evBlk b) ⟨pre, prev⟩ ⟨pre, q⟩ (outOf (sitesBlk v av pre act (parOf prev) b))
  | .nil, _, pre, prev, act => ⟨prev, by simp [evBlk, sitesBlk, outOf]; exact Runs.nil _⟩
  | .site s r, hw, pre, prev, act => by
    simp only [wfBlk] at hw
    obtain ⟨q, hq⟩ := builder_blk v av r hw pre prev act
    refine ⟨q, ?_⟩
    simp only [evBlk, sitesBlk, outOf, List.map_cons]
    have h1 : (⟨pre, prev⟩ : BState).step (.site s) = some (⟨pre, prev⟩, [(s, pre)]) := rfl
    exact Runs.cons h1 hq
  | .struct k alts r, hw, pre, prev, act => by
    simp only [wfBlk, Bool.and_eq_true, Bool.or_eq_true, beq_iff_eq, Bool.not_eq_true'] at hw
    obtain ⟨⟨hk, hwa⟩, hwr⟩ := hw
    simp only [evBlk, sitesBlk, outOf_append]
    -- the structure leaves `previous = some ⟨_, par⟩`
    have hstruct : ∃ x, Runs (if altOffset k = 0 then evFirst alts
          else [.enter .push] ++ evEntry alts ++ [.exit .push]) ⟨pre, prev⟩ ⟨pre, some ⟨x, parOf prev⟩⟩
          (outOf (sitesAlts v av pre act (parOf prev) k 0 alts)) := by
      rcases altOffset_cases k with h0 | h1
      · simp only [h0, if_true]
        cases alts with
        | nil => simp [h0, Alts.isNil] at hk
        | cons b ar =>
          simp only [wfAlts, Bool.and_eq_true] at hwa
          simp only [evFirst, sitesAlts, outOf_append, h0, Nat.add_zero]
          obtain ⟨q, hq⟩ := builder_blk v av b hwa.1 (pre ++ [⟨0, parOf prev⟩]) none (act && altTaken v av k 0)
          obtain ⟨x, hx⟩ := builder_add v av k h0 ar hwa.2 pre (parOf prev) 0 act
          refine ⟨x, ?_⟩
          have e1 : (⟨pre, prev⟩ : BState).step (.enter .push) = some (⟨pre ++ [⟨0, parOf prev⟩], none⟩, []) := by
            cases prev <;> simp [BState.step, parOf]
          have e2 : (⟨pre ++ [⟨0, parOf prev⟩], q⟩ : BState).step (.exit .push) =
              some (⟨pre, some ⟨0, parOf prev⟩⟩, []) := by
            simp [BState.step]
          have := ((Runs.single e1).append hq).append ((Runs.single e2).append hx)
          simpa [parOf, List.append_assoc] using this
      · have hne : ¬ altOffset k = 0 := by omega
        simp only [hne, if_false]
        obtain ⟨q, hq⟩ := builder_entry v av k h1 alts hwa pre (parOf prev) 0 none act
        refine ⟨0 + alts.len, ?_⟩
        have e1 : (⟨pre, prev⟩ : BState).step (.enter .push) = some (⟨pre ++ [⟨0, parOf prev⟩], none⟩, []) := by
          cases prev <;> simp [BState.step, parOf]
        have e2 : (⟨pre ++ [⟨0 + alts.len, parOf prev⟩], q⟩ : BState).step (.exit .push) =
            some (⟨pre, some ⟨0 + alts.len, parOf prev⟩⟩, []) := by
          simp [BState.step]
        have := ((Runs.single e1).append hq).append (Runs.single e2)
        simpa using this
    obtain ⟨x, hx⟩ := hstruct
    obtain ⟨q, hq⟩ := builder_blk v av r hwr pre (some ⟨x, parOf prev⟩) act
    exact ⟨q, hx.append (by simpa [parOf] using hq)⟩
theorem builder_add (v : CVal) (av : Bool) (k : Kind) (hk : altOffset k = 0) : ∀ (al : Alts), wfAlts al = true →
    ∀ (pre : List Edge) (par a : Nat) (act : Bool),
      ∃ x, Runs (evAdd al) ⟨pre, some ⟨a, par⟩⟩ ⟨pre, some ⟨x, par⟩⟩ (outOf (sitesAlts v av pre act par k (a+1) al))
  | .nil, _, pre, par, a, act => ⟨a, by simp [evAdd, sitesAlts, outOf]; exact Runs.nil _⟩
  | .cons b ar, hw, pre, par, a, act => by
    simp only [wfAlts, Bool.and_eq_true] at hw
    simp only [evAdd, sitesAlts, outOf_append, hk, Nat.add_zero]
    obtain ⟨q, hq⟩ := builder_blk v av b hw.1 (pre ++ [⟨a + 1, par⟩]) none (act && altTaken v av k (a + 1))
    obtain ⟨x, hx⟩ := builder_add v av k hk ar hw.2 pre par (a + 1) act
    refine ⟨x, ?_⟩
    have e1 : (⟨pre, some ⟨a, par⟩⟩ : BState).step (.enter .add) = some (⟨pre ++ [⟨a + 1, par⟩], none⟩, []) := by
      simp [BState.step]
    have e2 : (⟨pre ++ [⟨a + 1, par⟩], q⟩ : BState).step (.exit .add) = some (⟨pre, some ⟨a + 1, par⟩⟩, []) := by
      simp [BState.step]
    have := ((Runs.single e1).append hq).append ((Runs.single e2).append hx)
    simpa [parOf, List.append_assoc] using this
theorem builder_entry (v : CVal) (av : Bool) (k : Kind) (hk : altOffset k = 1) : ∀ (al : Alts), wfAlts al = true →
    ∀ (pre : List Edge) (par a : Nat) (q0 : Option Edge) (act : Bool),
      ∃ q, Runs (evEntry al) ⟨pre ++ [⟨a, par⟩], q0⟩ ⟨pre ++ [⟨a + al.len, par⟩], q⟩
        (outOf (sitesAlts v av pre act par k a al))
  | .nil, _, pre, par, a, q0, act => ⟨q0, by simp [evEntry, sitesAlts, outOf, Alts.len]; exact Runs.nil _⟩
  | .cons b ar, hw, pre, par, a, q0, act => by
    simp only [wfAlts, Bool.and_eq_true] at hw
    simp only [evEntry, sitesAlts, outOf_append, hk]
    obtain ⟨q, hq⟩ := builder_blk v av b hw.1 (pre ++ [⟨a + 1, par⟩]) none (act && altTaken v av k a)
    obtain ⟨q', hq'⟩ := builder_entry v av k hk ar hw.2 pre par (a + 1) q act
    refine ⟨q', ?_⟩
    have e1 : (⟨pre ++ [⟨a, par⟩], q0⟩ : BState).step (.enter .entry) = some (⟨pre ++ [⟨a + 1, par⟩], none⟩, []) := by
      simp [BState.step]
    have e2 : (⟨pre ++ [⟨a + 1, par⟩], q⟩ : BState).step (.exit .entry) = some (⟨pre ++ [⟨a + 1, par⟩], q⟩, []) := rfl
    have := ((Runs.single e1).append hq).append ((Runs.single e2).append hq')
    have el : a + 1 + ar.len = a + (ar.len + 1) := by omega
    simpa [parOf, List.append_assoc, Alts.len, el] using this
end

/-- **builder_positional**: over the event trace of any well-formed module tree, the stateful
`CtrlPathBuilder`, started like `TModule.__init__` starts it (empty path, `previous = None`), raises no
error, returns to the empty path, and records for every site exactly the positional control path
of `sitesBlk` (any valuation / view: the paths do not depend on them) -/
theorem builder_positional (v : CVal) (av : Bool) (b : Blk) (hw : wfBlk b = true) :
    ∃ q, runB (evBlk b) ⟨[], none⟩ =
      some (⟨[], q⟩, (sitesBlk v av [] true 0 b).map fun e => (e.id, e.path)) :=
  builder_blk v av b hw [] none true

end TxV.Core
