import TxV.Core.BridgeSources
/-!
# Bridge, part 8: the executable run/runnable equations are the declarative ones

For every design the executable manager model accepts and *every* assignment `run` of the
transaction run bits: `runAll E v run` (transactions from `run`, methods from `runM`,
manager.py:550–555) satisfies `MethodRunEq`, and the executable `runnable` (manager.py:529–548) is the
declarative `Runnable` of the theory.
-/
namespace TxV.Core.Bridge
open TxV
open TxV.CoreModel (Graphs MethodMap Elab)

/-- the facts about an accepted design used by all translations -/
structure Ctx (D : CoreModel.Design) (E : Elab) : Prop where
  mm : E.mm = CoreModel.methodMap D
  bounded : Bounded (toAbs D)
  wfA : (toAbs D).WF
  all : ∀ b, b < D.bodies.length → b ∈ D.methodsAndTransactions
  lt : ∀ b, b ∈ D.methodsAndTransactions → b < D.bodies.length
  tr : ∀ t, t ∈ D.transactions → D.isTrans t = true
  me : ∀ m, m ∈ D.methods → D.isTrans m = false
  memT : ∀ t, (toAbs D).isTrans t = true → t ∈ D.transactions
  memM : ∀ m, m < D.bodies.length → (toAbs D).isTrans m = false → m ∈ D.methods
  disj : ∀ t, t ∈ D.transactions → t ∉ D.methods
  meth : ∀ t m, Reaches (toAbs D) t m → m ∈ D.methods
  ndT : D.transactions.Nodup

theorem ctx_of_elaborate {D : CoreModel.Design} {E : Elab} (h : CoreModel.elaborate D = .ok E) : Ctx D E := by
  obtain ⟨hwfA, _, hb, _, _, _⟩ := elaborate_sound h []
  obtain ⟨hwf, _, hmm, _⟩ := elaborate_ok h
  obtain ⟨hall, htr, hme, _, _⟩ := wf_facts hwf
  have hlt : ∀ b, b ∈ D.methodsAndTransactions → b < D.bodies.length := by
    intro b hb'
    have hwf' := hwf
    simp only [CoreModel.Design.wf, Bool.and_eq_true, List.all_eq_true, decide_eq_true_eq] at hwf'
    simp only [CoreModel.Design.methodsAndTransactions, List.mem_append] at hb'
    rcases hb' with hb' | hb'
    · exact (hwf'.1.1.1.1.1.1.2 b hb').1
    · exact (hwf'.1.1.1.1.1.1.1 b hb').1
  have hnd : D.transactions.Nodup := by
    have hwf' := hwf
    simp only [CoreModel.Design.wf, Bool.and_eq_true, decide_eq_true_eq] at hwf'
    exact hwf'.1.1.1.1.1.2
  have hmemT : ∀ t, (toAbs D).isTrans t = true → t ∈ D.transactions := by
    intro t ht
    have hl : t < D.bodies.length := by rw [← toAbs_n]; exact (toAbs D).isTrans_lt ht
    have := hall t hl
    simp only [CoreModel.Design.methodsAndTransactions, List.mem_append] at this
    rcases this with hm | ht'
    · rw [toAbs_isTrans, hme t hm] at ht; cases ht
    · exact ht'
  have hmemM : ∀ m, m < D.bodies.length → (toAbs D).isTrans m = false → m ∈ D.methods := by
    intro m hl hnt
    have := hall m hl
    simp only [CoreModel.Design.methodsAndTransactions, List.mem_append] at this
    rcases this with hm | ht'
    · exact hm
    · rw [toAbs_isTrans, htr m ht'] at hnt; cases hnt
  refine ⟨hmm, hb, hwfA, hall, hlt, htr, hme, hmemT, hmemM, ?_, ?_, hnd⟩
  · intro t ht hm
    have := htr t ht; rw [hme t hm] at this; cases this
  · intro t m hr
    obtain ⟨hl, hnt⟩ := Reaches.lt hwfA hr
    rw [toAbs_n] at hl
    exact hmemM m hl hnt

section
variable {D : CoreModel.Design} {E : Elab} (C : Ctx D E)
include C

theorem Ctx.enum_of_isChain {t : Nat} {ch : List Call} (hi : IsChain (toAbs D) t ch) :
    ∃ ch', ch' ∈ enumM D (CoreModel.fuelOf D) t [] ∧ ch'.map cvtCall = ch := by
  have hfuel : D.bodies.length ≤ CoreModel.fuelOf D := by unfold CoreModel.fuelOf; omega
  have h1 : ch ∈ chains (toAbs D) (CoreModel.fuelOf D) t :=
    chains_complete (toAbs D) hi _ (Nat.le_trans (C.bounded t ch hi) (by rw [toAbs_n]; exact hfuel))
  have h2 := chains_toAbs D (CoreModel.fuelOf D) t []
  simp only [List.map_nil, List.nil_append, List.map_id'] at h2
  rw [← h2] at h1
  obtain ⟨ch', hm', rfl⟩ := List.mem_map.1 h1
  exact ⟨ch', hm', rfl⟩

theorem Ctx.isMethod_iff (b : Nat) : E.mm.isMethod b = true ↔ b ∈ D.methods := by
  rw [C.mm]
  unfold MethodMap.isMethod CoreModel.methodMap
  simp only [List.any_eq_true, List.mem_map, beq_iff_eq]
  constructor
  · rintro ⟨x, ⟨m, hm, rfl⟩, rfl⟩; exact hm
  · intro hm; exact ⟨_, ⟨b, hm, rfl⟩, rfl⟩

theorem Ctx.runAll_trans (v : CoreModel.Val) (run : Nat → Bool) {t : Nat} (ht : t ∈ D.transactions) :
    runAll E v run t = run t := by
  unfold runAll CoreModel.runAny
  have : E.mm.isMethod t = false := by
    cases h : E.mm.isMethod t with
    | false => rfl
    | true => exact absurd ((C.isMethod_iff t).1 h) (C.disj t ht)
  simp [this]

theorem Ctx.runAll_meth (v : CoreModel.Val) (run : Nat → Bool) {m : Nat} (hm : m ∈ D.methods) :
    runAll E v run m = CoreModel.runM E v run m := by
  unfold runAll CoreModel.runAny
  simp [(C.isMethod_iff m).2 hm]

end

theorem chainEn_agree (D : CoreModel.Design) (v : CoreModel.Val) {ch : List CoreModel.Call} {m : Nat}
    (h : target (ch.map cvtCall) = some m) :
    CoreModel.chainEn v (infoOf ch).2 = chainEn (toVal D v) (ch.map cvtCall) ∧
      v.arg (infoOf ch).2.argSite = argOf (toVal D v) (ch.map cvtCall) := by
  unfold target at h
  rw [List.getLast?_map] at h
  cases hl : ch.getLast? with
  | none => simp [hl] at h
  | some c =>
    simp only [infoOf, hl, CoreModel.chainEn, chainEn, argOf, List.getLast?_map, Option.map_some, toVal, cvtCall,
      List.all_map]
    exact ⟨rfl, trivial⟩

section
variable {D : CoreModel.Design} {E : Elab} (C : Ctx D E)
include C

/-- membership in `info_by_call[(t, m)]` -/
theorem Ctx.mem_infoFor {t m : Nat} (ht : t ∈ D.transactions) {ci : CoreModel.CallInfo} :
    ci ∈ E.mm.infoFor t m ↔ ∃ ch ∈ enumM D (CoreModel.fuelOf D) t [], (infoOf ch).1 = m ∧ ci = (infoOf ch).2 := by
  rw [C.mm, infoFor_eq D ht]
  simp only [List.mem_map, List.mem_filter, beq_iff_eq]
  constructor
  · rintro ⟨x, ⟨⟨ch, hch, rfl⟩, hf⟩, rfl⟩; exact ⟨ch, hch, hf, rfl⟩
  · rintro ⟨ch, hch, hf, rfl⟩; exact ⟨infoOf ch, ⟨⟨ch, hch, rfl⟩, hf⟩, rfl⟩

/-- manager.py:550–555 is the declarative method-run equation, for every assignment of the transaction bits -/
theorem Ctx.methodRunEq (v : CoreModel.Val) (run : Nat → Bool) :
    MethodRunEq (toAbs D) (toVal D v) (runAll E v run) := by
  intro m hlt hmt
  rw [toAbs_n] at hlt
  have hm := C.memM m hlt hmt
  rw [C.runAll_meth v run hm]
  unfold CoreModel.runM
  simp only [List.any_eq_true, Bool.and_eq_true]
  constructor
  · rintro ⟨t, ht, hr, ci, hci, he⟩
    rw [C.mm] at ht
    have htf := transFor_sound D C.tr (by
      simp only [CoreModel.Design.methodsAndTransactions, List.mem_append]; exact Or.inl hm) ht
    have htt := C.memT t htf.1
    obtain ⟨ch, hch, hf, rfl⟩ := (C.mem_infoFor htt).1 hci
    have hg := infoOf_target D hch
    rw [hf] at hg
    refine ⟨t, ch.map cvtCall, htf.1, ?_, enum_isChain D hch, hg, ?_⟩
    · rw [C.runAll_trans v run htt]; exact hr
    · rw [← (chainEn_agree D v hg).1]; exact he
  · rintro ⟨t, ch, ht, hr, hi, hg, he⟩
    have htt := C.memT t ht
    obtain ⟨ch', hch', rfl⟩ := C.enum_of_isChain hi
    refine ⟨t, ?_, ?_, (infoOf ch').2, (C.mem_infoFor htt).2 ⟨ch', hch', (infoOf_fst hg).1, rfl⟩, ?_⟩
    · rw [C.mm]
      exact transFor_mem D C.memT C.disj C.meth C.bounded ⟨ht, Or.inr ⟨_, hi, hg⟩⟩
    · rw [C.runAll_trans v run htt] at hr; exact hr
    · rw [(chainEn_agree D v hg).1]; exact he

end
end TxV.Core.Bridge
