import TxV.Core.BridgeEagerFold
/-!
# C01–C08 stated directly about the run bits the executable model computes (eager scheduler)

`run = runAll E v (evalEager D E v order)`: the transaction bits computed by
`CoreModel.evalEager` (schedulers.py:38–43 evaluated along the implementation's `porder`) and the
method bits computed by `runM` (manager.py:550–555).  Hypotheses of every theorem below:

* `hE  : CoreModel.elaborate D = .ok E`                                  (the model accepts the design)
* `hO  : CoreModel.validOrder E.g.before D.transactions order = true`    (executable check of the supplied order)
* `hL  : ReadyDepLeft (toAbs D)`   (decidable, static: every ready-dependent relation has priority LEFT and no
                                    conflict — the only kind `schedule_before`/nesting create)
* `hX  : CoreModel.exclHolds D v = true`  (decidable, per valuation: call sites with exclusive control paths are
                                    not enabled together, bodies with exclusive definition paths are not ready
                                    together — the fact `exclusive_sound` provides from the control trees);
                                    only where the property needs it.

No scheduler equation, no method-run equation and no fact about the conflict graph is assumed any more:
they are proved (`evalEager_eager`, `elaborate_static`, `elaborate_cgrSources`).
-/
namespace TxV.Core.Bridge
open TxV
open TxV.CoreModel (Elab)

/-- the run bit of every body as the executable model computes it under the eager scheduler -/
def evalRun (D : CoreModel.Design) (E : Elab) (order : List Nat) (v : CoreModel.Val) : Nat → Bool :=
  runAll E v (CoreModel.evalEager D E v order)

theorem exclHolds_sound {D : CoreModel.Design} {E : Elab} (C : Ctx D E) {v : CoreModel.Val}
    (h : CoreModel.exclHolds D v = true) : ExclSem (toAbs D) (toVal D v) ∧ ExclReady (toAbs D) (toVal D v) := by
  simp only [CoreModel.exclHolds, CoreModel.exclHoldsOn, CoreModel.exclSitePairs, CoreModel.exclBodyPairs,
    Bool.and_eq_true, List.all_eq_true, List.mem_flatMap, List.mem_map, List.mem_filter, List.mem_range,
    Bool.not_eq_true'] at h
  obtain ⟨h1, h2⟩ := h
  constructor
  · intro a ha b hb hx
    have conv : ∀ c ∈ (toAbs D).allCalls, ∃ p ∈ D.allSites, c = cvtCall p.2 := by
      intro c hc
      simp only [Design.allCalls, toAbs, List.mem_flatMap, List.mem_map] at hc
      obtain ⟨_, ⟨bd, hbd, rfl⟩, hc⟩ := hc
      simp only [cvtBody, List.mem_map] at hc
      obtain ⟨c', hc', rfl⟩ := hc
      obtain ⟨i, hi, rfl⟩ := List.mem_iff_getElem.1 hbd
      refine ⟨(i, c'), ?_, rfl⟩
      simp only [CoreModel.Design.allSites, List.mem_flatMap, List.mem_map, Prod.mk.injEq]
      exact ⟨i, C.all i hi, c', by simp [CoreModel.Design.calls, CoreModel.Design.body?, List.getElem?_eq_getElem hi, hc'],
        rfl, rfl⟩
    obtain ⟨p, hp, rfl⟩ := conv a ha
    obtain ⟨q, hq, rfl⟩ := conv b hb
    have hx' : p.2.path.exclusiveWith q.2.path = true := by rw [exclusiveWith_agree]; exact hx
    have := h1 (p.2.site, q.2.site) ⟨p.2, ⟨p, hp, rfl⟩, q.2, ⟨⟨q, hq, rfl⟩, hx'⟩, rfl⟩
    simp only [toVal, cvtCall]
    intro ⟨e1, e2⟩
    simp [e1, e2] at this
  · intro a ha b hb hx
    rw [toAbs_n] at ha hb
    rw [toAbs_defPath, toAbs_defPath, ← exclusiveWith_agree] at hx
    have := h2 (a, b) ⟨a, ha, b, ⟨hb, hx⟩, rfl⟩
    simp only [toVal]
    intro ⟨e1, e2⟩
    simp [e1, e2] at this

section
variable {D : CoreModel.Design} {E : Elab} {order : List Nat}
  (hE : CoreModel.elaborate D = .ok E)
  (hO : CoreModel.validOrder E.g.before D.transactions order = true)
  (hL : ReadyDepLeft (toAbs D))
include hE hO hL

-- OBLIGATION evalEager_consistent : for every design the executable manager model accepts, every order passing the executable order check, under the static decidable side condition ReadyDepLeft, and EVERY valuation: the run bits computed by the executable evalEager/runM satisfy the declarative eager scheduler equations (Eager) and method-run equations (MethodRunEq)
theorem evalEager_consistent (v : CoreModel.Val) :
    Eager (toAbs D) (toVal D v) (toSched E order) (evalRun D E order v) ∧
    MethodRunEq (toAbs D) (toVal D v) (evalRun D E order v) :=
  evalEager_eager hE hO hL v

theorem cycle_of_evalEager {v : CoreModel.Val} (hX : CoreModel.exclHolds D v = true) :
    Cycle (toAbs D) (toVal D v) (toSched E order) (evalRun D E order v) :=
  have hx := exclHolds_sound (ctx_of_elaborate hE) hX
  have he := evalEager_eager hE hO hL v
  Cycle.ofEager (elaborate_static hE hO).1 hx.1 hx.2 he.2 he.1

-- OBLIGATION c01_of_evalEager : C01 sentence 1 about the executable model's run bits (eager): under exclHolds, every exclusive method has at most one active call site (caller's computed run bit ∧ enable)
theorem c01_of_evalEager {v : CoreModel.Val} (hX : CoreModel.exclHolds D v = true) {m : Nat}
    (hne : (toAbs D).nonexcl m = false) :
    (activeSites (toAbs D) (toVal D v) (evalRun D E order v) m).length ≤ 1 :=
  at_most_one_active (elaborate_static hE hO).1 (cycle_of_evalEager hE hO hL hX) (elaborate_static hE hO).2.2 hne

-- OBLIGATION c01_no_joint_run_of_evalEager : C01 sentence 2 about the executable model's run bits: two different transactions whose computed run bits are both 1 satisfy calls_nonexclusive for every method both reach
theorem c01_no_joint_run_of_evalEager {v : CoreModel.Val} (hX : CoreModel.exclHolds D v = true) {t1 t2 : Nat}
    (h1 : (toAbs D).isTrans t1 = true) (h2 : (toAbs D).isTrans t2 = true) (hne : t1 ≠ t2)
    (r1 : evalRun D E order v t1 = true) (r2 : evalRun D E order v t2 = true) :
    NoImplicitConflict (toAbs D) t1 t2 :=
  no_joint_run (elaborate_static hE hO).1 (cycle_of_evalEager hE hO hL hX) h1 h2 hne r1 r2

-- OBLIGATION c02_of_evalEager : C02 about the executable model's run bits: under exclHolds, the two ends of an add_conflict relation never both have run bit 1
theorem c02_of_evalEager {v : CoreModel.Val} (hX : CoreModel.exclHolds D v = true) {a b : Nat}
    (hrel : ConflictRel (toAbs D) a b) :
    ¬ (evalRun D E order v a = true ∧ evalRun D E order v b = true) :=
  conflict_never_both (elaborate_static hE hO).1 (cycle_of_evalEager hE hO hL hX) hrel

-- OBLIGATION c03_of_evalEager : C03 about the executable model's run bits (no valuation hypothesis): a transaction whose computed run bit is 1 is ready, every method of its static call tree is ready, every validation term holds, every ready-dependency source runs
theorem c03_of_evalEager (v : CoreModel.Val) {t : Nat} (ht : (toAbs D).isTrans t = true)
    (hr : evalRun D E order v t = true) :
    (toVal D v).ready t = true ∧
    (∀ m, Reaches (toAbs D) t m → (toVal D v).ready m = true) ∧
    (∀ m, Reaches (toAbs D) t m → ((toAbs D).body m).hasValidate = true →
      validTerm (toAbs D) (toVal D v) t m = true) ∧
    (∀ b, (b = t ∨ Reaches (toAbs D) t b) → ∀ d, ReadyDep (toAbs D) d b → evalRun D E order v d = true) :=
  run_requires (evalEager_eager hE hO hL v).1.grants ht hr

-- OBLIGATION c04_of_evalEager : C04 about the executable model's run bits (no valuation hypothesis): a method's computed run bit is 1 iff its list of active call sites is non-empty; a body ready-dependent on p (nested in p) has run bit 1 only if p has
theorem c04_of_evalEager (v : CoreModel.Val) :
    (∀ m, m < (toAbs D).n → (toAbs D).isTrans m = false →
      (evalRun D E order v m = true ↔ activeSites (toAbs D) (toVal D v) (evalRun D E order v) m ≠ [])) ∧
    (∀ p b, b < (toAbs D).n → ReadyDep (toAbs D) p b → evalRun D E order v b = true →
      evalRun D E order v p = true) :=
  have he := evalEager_eager hE hO hL v
  ⟨fun _ hlt hmt => run_iff_active (elaborate_static hE hO).1.wf he.2 hlt hmt,
   fun _ _ hlt hd hr => readyDep_runs he.2 he.1.grants hlt hd hr⟩

-- OBLIGATION c05_of_evalEager : C05 sentence 1 about the executable model's run bits: under exclHolds, an exclusive method whose computed run bit is 1 has exactly one active call site and the default combiner delivers that site's argument
theorem c05_of_evalEager {v : CoreModel.Val} (hX : CoreModel.exclHolds D v = true) {m : Nat}
    (hlt : m < (toAbs D).n) (hmt : (toAbs D).isTrans m = false) (hne : (toAbs D).nonexcl m = false)
    (hr : evalRun D E order v m = true) :
    ∃ s, activeSites (toAbs D) (toVal D v) (evalRun D E order v) m = [s] ∧
      dataIn defaultCombiner (toAbs D) (toVal D v) (evalRun D E order v) m = (toVal D v).arg s.2.site :=
  exclusive_input (elaborate_static hE hO).1 (cycle_of_evalEager hE hO hL hX) (elaborate_static hE hO).2.2
    hlt hmt hne hr

-- OBLIGATION c07_of_evalEager : C07 about the executable model's run bits (no valuation hypothesis): a transaction that is ready and runnable but whose computed run bit is 0 has a conflict-graph neighbour with run bit 1 that precedes it, sharing an exclusive method on non-exclusive call paths or related by a lifted add_conflict
theorem c07_of_evalEager (v : CoreModel.Val) {t : Nat} (ht : (toAbs D).isTrans t = true)
    (hready : (toVal D v).ready t = true)
    (hrunnable : Runnable (toAbs D) (toVal D v) (evalRun D E order v) t)
    (hnr : evalRun D E order v t = false) :
    ∃ t', (toAbs D).isTrans t' = true ∧ t' ≠ t ∧ evalRun D E order v t' = true ∧
      (toSched E order).ord t' < (toSched E order).ord t ∧ (toSched E order).cgr t t' = true ∧
      (SharedExclusive (toAbs D) t t' ∨ LiftedConflict (toAbs D) t t') :=
  blocked_by_conflict (evalEager_eager hE hO hL v).1 (elaborate_cgrSources hE order) ht hready hrunnable hnr

-- OBLIGATION c08_left_of_evalEager : C08 (LEFT) about the executable model's run bits: under exclHolds, if ta (of a) and tb (of b) are both fully enabled and tb's computed run bit is 1, ta's is 0 and another transaction conflicting with ta runs
theorem c08_left_of_evalEager {v : CoreModel.Val} (hX : CoreModel.exclHolds D v = true)
    {a b ta tb : Nat} (hrel : ConflictRelPrio (toAbs D) a b .left) (hta : TransFor (toAbs D) ta a)
    (htb : TransFor (toAbs D) tb b) (hne : ta ≠ tb)
    (ea : FullyEnabled (toAbs D) (toVal D v) (evalRun D E order v) ta)
    (eb : FullyEnabled (toAbs D) (toVal D v) (evalRun D E order v) tb)
    (hrun : evalRun D E order v tb = true) :
    evalRun D E order v ta = false ∧ ∃ t'', t'' ≠ tb ∧ (toAbs D).isTrans t'' = true ∧
      (toSched E order).cgr ta t'' = true ∧ evalRun D E order v t'' = true :=
  priority_left (elaborate_static hE hO).1 (evalEager_eager hE hO hL v).1
    (exclHolds_sound (ctx_of_elaborate hE) hX).2 (elaborate_static hE hO).2.1 hrel hta htb hne ea eb hrun

-- OBLIGATION c08_right_of_evalEager : C08 (RIGHT), symmetric
theorem c08_right_of_evalEager {v : CoreModel.Val} (hX : CoreModel.exclHolds D v = true)
    {a b ta tb : Nat} (hrel : ConflictRelPrio (toAbs D) a b .right) (hta : TransFor (toAbs D) ta a)
    (htb : TransFor (toAbs D) tb b) (hne : ta ≠ tb)
    (ea : FullyEnabled (toAbs D) (toVal D v) (evalRun D E order v) ta)
    (eb : FullyEnabled (toAbs D) (toVal D v) (evalRun D E order v) tb)
    (hrun : evalRun D E order v ta = true) :
    evalRun D E order v tb = false ∧ ∃ t'', t'' ≠ ta ∧ (toAbs D).isTrans t'' = true ∧
      (toSched E order).cgr tb t'' = true ∧ evalRun D E order v t'' = true :=
  priority_right (elaborate_static hE hO).1 (evalEager_eager hE hO hL v).1
    (exclHolds_sound (ctx_of_elaborate hE) hX).2 (elaborate_static hE hO).2.1 hrel hta htb hne ea eb hrun

end

/-! ## non-vacuity -/

namespace EvalEx
open TxV.CoreModel

def pp (l : List (Nat × Nat)) : CoreModel.CtrlPath := ⟨0, l.map fun e => ⟨e.1, e.2⟩⟩

/-- the example design of `Core/Example.lean` in the executable model's format, plus a transaction
`K` nested in `T0` (ready-dependent on it): `T0`,`T1` share exclusive `M`; `T1.add_conflict(T2, LEFT)` -/
def D : CoreModel.Design := {
  bodies := [
    { isTrans := true, defPath := pp [], defOrder := 0, calls := [⟨4, pp [(0,0)], 0⟩],
      rels := [⟨3, .left, false, true, false⟩] },
    { isTrans := true, defPath := pp [], defOrder := 1, calls := [⟨4, pp [(0,1)], 1⟩, ⟨5, pp [(0,1)], 2⟩],
      rels := [⟨2, .left, true, false, false⟩] },
    { isTrans := true, defPath := pp [], defOrder := 2,
      calls := [⟨5, pp [(0,2),(0,0)], 3⟩, ⟨5, pp [(0,2),(1,0)], 4⟩] },
    { isTrans := true, defPath := pp [(0,0)], defOrder := 3 },
    { isTrans := false, defPath := pp [], defOrder := 4, validate := some (.ltC 100), inW := 8 },
    { isTrans := false, defPath := pp [], defOrder := 5, inW := 8 }],
  transactions := [0,1,2,3], methods := [4,5] }

def v : CoreModel.Val := ⟨fun _ => true, fun s => s != 4, fun s => 10 + s, fun _ => 0⟩
def order : List Nat := [0,1,2,3]

/-- the hypotheses hE, hO, hL, hX hold for this design and valuation, and the computed run bits are
`T0, T2, K, M4, M5` (the lower-priority `T2` runs because `T1` is blocked by `T0`) -/
example :
    (match elaborate D with
     | .ok E => validOrder E.g.before D.transactions order && decide (ReadyDepLeft (toAbs D)) &&
         exclHolds D v && ((List.range 6).map (evalRun D E order v) == [true, false, true, true, true, true])
     | .error _ => false) = true := by decide +kernel

end EvalEx
end TxV.Core.Bridge

#print axioms TxV.Core.Bridge.evalEager_consistent
#print axioms TxV.Core.Bridge.c01_of_evalEager
#print axioms TxV.Core.Bridge.c01_no_joint_run_of_evalEager
#print axioms TxV.Core.Bridge.c02_of_evalEager
#print axioms TxV.Core.Bridge.c03_of_evalEager
#print axioms TxV.Core.Bridge.c04_of_evalEager
#print axioms TxV.Core.Bridge.c05_of_evalEager
#print axioms TxV.Core.Bridge.c07_of_evalEager
#print axioms TxV.Core.Bridge.c08_left_of_evalEager
#print axioms TxV.Core.Bridge.c08_right_of_evalEager
