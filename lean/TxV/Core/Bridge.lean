import TxV.Model.Sched
import TxV.Core.Accept
/-!
# Bridge: the executable core model (`TxV.CoreModel`, Model/*.lean) ↔ the declarative theory (`TxV.Core`)

`toAbs` forgets what the theory does not need (definition order, widths, combiner, output function,
`silence`), `toVal` turns the generated `Pred` into the abstract `pred`, `toSched` packages the
model's conflict graph and an order list.  `staticOk`/`cycleOk` are what `Driver/Core.lean` can
print per design / per valuation: they evaluate the hypotheses of the Props theorems on the real
extracted design, and `staticOk_sound`/`cycleOk_sound` turn a `true` into those hypotheses.

Proved here about the executable model itself (∀ inputs): the two `exclusive_with`
transcriptions agree (`exclusiveWith_agree`), `callPathsExclusive` agrees with `cpe` on chains
(`cpe_agree`), the two multiplexer transcriptions agree (`oneHotMux_agree`).
Proved in the follow-up files (`BridgeValidate`, `BridgeCgr`, `BridgeMain`, `BridgeExplicit`,
`BridgeOrder`): `CoreModel.elaborate D = ok E` together with the executable order check establishes
`Accepted`, `ValidOrder` and `SitesNodup` for `toAbs D` / `toSched E order` (`elaborate_static`).
`CgrSources` for the model's graph is proved in `BridgeSources` (`elaborate_cgrSources`).
NOT proved: the per-cycle facts (`cycleOk`: ExclSem, ExclReady, the method-run and scheduler
equations for the run assignment) — they are evaluated by the driver on every valuation.
-/
namespace TxV.Core.Bridge
open TxV

def cvtEdge (e : CoreModel.PathEdge) : Edge := ⟨e.alt, e.par⟩
def cvtPath (p : CoreModel.CtrlPath) : CtrlPath := ⟨p.module, p.path.map cvtEdge⟩
def cvtPrio : CoreModel.Priority → Prio
  | .undefined => .undef
  | .left => .left
  | .right => .right
def cvtCall (c : CoreModel.Call) : Call := ⟨c.callee, cvtPath c.path, c.site⟩
def cvtRel (r : CoreModel.Rel) : Rel := ⟨r.dst, cvtPrio r.prio, r.conflict, r.readyDep⟩
def cvtBody (b : CoreModel.Body) : Body :=
  ⟨b.isTrans, cvtPath b.defPath, b.nonexclusive, b.singleCaller, b.validate.isSome,
    b.calls.map cvtCall, b.rels.map cvtRel⟩

def toAbs (D : CoreModel.Design) : Design := ⟨D.bodies.map cvtBody⟩

def toVal (D : CoreModel.Design) (v : CoreModel.Val) : Val :=
  ⟨v.ready, v.en, v.arg, fun m x => match D.validate m with | some p => p.eval x | none => true⟩

/-- position in the implementation's `porder` list (transactions not listed get `order.length`) -/
def ordOf (order : List Nat) : Nat → Nat := fun t => order.idxOf t

def toSched (E : CoreModel.Elab) (order : List Nat) : Sched := ⟨ordOf order, fun a b => E.g.adj a b⟩

/-- run signal of every body under the model's evaluation: transactions from `run`, methods from `runM` -/
def runAll (E : CoreModel.Elab) (v : CoreModel.Val) (run : Nat → Bool) : Nat → Bool :=
  fun b => CoreModel.runAny E v run b

/-- static driver check: the validator of the theory accepts the extracted design with the
implementation's order, and the model's conflict graph is the theory's `cgrOf` -/
def staticOk (D : CoreModel.Design) (E : CoreModel.Elab) (order : List Nat) : Bool :=
  accept (toAbs D) (ordOf order) && decide (toAbs D).SitesNodup &&
  (List.range (toAbs D).n).all fun a => (List.range (toAbs D).n).all fun b =>
    E.g.adj a b == cgrOf (toAbs D) a b

/-- per-valuation driver check, eager scheduler: the run assignment satisfies the cycle facts -/
def cycleOk (D : CoreModel.Design) (E : CoreModel.Elab) (order : List Nat) (v : CoreModel.Val)
    (run : Nat → Bool) : Bool :=
  cycleEagerB (toAbs D) (toVal D v) (toSched E order) (runAll E v run)

/-- per-valuation driver check, round-robin scheduler (`comp` = index of the connected component) -/
def cycleOkRR (D : CoreModel.Design) (E : CoreModel.Elab) (order : List Nat) (comp : Nat → Nat)
    (v : CoreModel.Val) (run : Nat → Bool) : Bool :=
  cycleRRB (toAbs D) (toVal D v) (toSched E order) comp (runAll E v run)

/-! ## soundness of the driver checks -/

theorem Accepted.congr {D : Design} {S S' : Sched} (ho : S.ord = S'.ord)
    (hc : ∀ a, a < D.n → ∀ b, b < D.n → S.cgr a b = S'.cgr a b) (h : Accepted D S) : Accepted D S' := by
  refine ⟨h.wf, h.bounded, h.validRoot, ?_, ?_, ?_, ?_⟩
  · intro a la b lb; rw [← hc a la b lb, ← hc b lb a la]; exact h.cgrSymm a la b lb
  · intro a la b lb ta tb he; rw [← ho] at he; exact h.ordInj a la b lb ta tb he
  · intro t1 t2 h1 h2 hne he
    rw [← hc t1 (D.isTrans_lt h1) t2 (D.isTrans_lt h2)] at he
    exact h.cgrImplicit t1 t2 h1 h2 hne he
  · intro a b hrel ta tb hta htb
    have := h.cgrExplicit a b hrel ta tb hta htb
    rw [hc ta (D.isTrans_lt hta.1) tb (D.isTrans_lt htb.1)] at this
    exact this

theorem CgrSources.congr {D : Design} {S S' : Sched}
    (hc : ∀ a, a < D.n → ∀ b, b < D.n → S.cgr a b = S'.cgr a b) (h : CgrSources D S) : CgrSources D S' := by
  intro t1 l1 t2 l2 he
  rw [← hc t1 l1 t2 l2] at he
  exact h t1 l1 t2 l2 he

theorem staticOk_sound {D : CoreModel.Design} {E : CoreModel.Elab} {order : List Nat}
    (h : staticOk D E order = true) :
    Accepted (toAbs D) (toSched E order) ∧ CgrSources (toAbs D) (toSched E order) ∧
      ValidOrder (toAbs D) (toSched E order) ∧ (toAbs D).SitesNodup := by
  simp only [staticOk, Bool.and_eq_true, decide_eq_true_eq] at h
  obtain ⟨⟨h1, h2⟩, h3⟩ := h
  obtain ⟨a1, a2, a3⟩ := accept_sound h1
  have hc : ∀ a, a < (toAbs D).n → ∀ b, b < (toAbs D).n →
      (⟨ordOf order, cgrOf (toAbs D)⟩ : Sched).cgr a b = (toSched E order).cgr a b := by
    intro a la b lb
    have := all_range.1 (all_range.1 h3 a la) b lb
    simp only [beq_iff_eq] at this
    exact this.symm
  exact ⟨Accepted.congr (S := ⟨ordOf order, cgrOf (toAbs D)⟩) rfl hc a1,
    CgrSources.congr (S := ⟨ordOf order, cgrOf (toAbs D)⟩) hc a2, a3, h2⟩

theorem cycleOk_sound {D : CoreModel.Design} {E : CoreModel.Elab} {order : List Nat} {v : CoreModel.Val}
    {run : Nat → Bool} (hs : staticOk D E order = true) (h : cycleOk D E order v run = true) :
    Cycle (toAbs D) (toVal D v) (toSched E order) (runAll E v run) ∧
      Eager (toAbs D) (toVal D v) (toSched E order) (runAll E v run) :=
  cycleEagerB_sound (staticOk_sound hs).1 h

theorem cycleOkRR_sound {D : CoreModel.Design} {E : CoreModel.Elab} {order : List Nat} {comp : Nat → Nat}
    {v : CoreModel.Val} {run : Nat → Bool} (hs : staticOk D E order = true)
    (h : cycleOkRR D E order comp v run = true) :
    Cycle (toAbs D) (toVal D v) (toSched E order) (runAll E v run) :=
  cycleRRB_sound (staticOk_sound hs).1 h

/-! ## agreement of the transcriptions (∀ inputs) -/

theorem cvtEdge_inj {a b : CoreModel.PathEdge} : cvtEdge a = cvtEdge b ↔ a = b := by
  cases a; cases b; simp [cvtEdge]

/-- the loop of `CoreModel.exclLoop` in terms of `exclEdges`: `none` or a count that is not the full
length of both paths exactly when … -/
theorem exclLoop_spec : ∀ (p q : List CoreModel.PathEdge) (n : Nat),
    (match CoreModel.exclLoop p q n with
     | none => false
     | some k => (k != n + p.length) && (k != n + q.length)) = exclEdges (p.map cvtEdge) (q.map cvtEdge)
  | [], q, n => by
    cases q <;> simp [CoreModel.exclLoop, exclEdges]
  | a :: as, [], n => by simp [CoreModel.exclLoop, exclEdges]
  | a :: as, b :: bs, n => by
    simp only [CoreModel.exclLoop, List.map_cons, exclEdges, cvtEdge_inj]
    by_cases hab : a = b
    · simp only [hab, if_true]
      have := exclLoop_spec as bs (n + 1)
      simp only [List.length_cons]
      rw [← this]
      have e1 : n + 1 + as.length = n + (as.length + 1) := by omega
      have e2 : n + 1 + bs.length = n + (bs.length + 1) := by omega
      rw [e1, e2]
    · simp only [hab, if_false]
      by_cases hp : a.par = b.par
      · simp [hp, cvtEdge]
      · simp [hp, cvtEdge]

theorem exclusiveWith_agree (p q : CoreModel.CtrlPath) :
    p.exclusiveWith q = (cvtPath p).exclusiveWith (cvtPath q) := by
  unfold CoreModel.CtrlPath.exclusiveWith CtrlPath.exclusiveWith
  have := exclLoop_spec p.path q.path 0
  simp only [Nat.zero_add] at this
  simp only [cvtPath]
  rw [← this]
  cases CoreModel.exclLoop p.path q.path 0 with
  | none => simp
  | some k =>
    by_cases hm : p.module = q.module <;> simp [hm]

theorem cvtPath_inj {a b : CoreModel.CtrlPath} : cvtPath a = cvtPath b ↔ a = b := by
  constructor
  · intro h
    cases a with | mk ma pa => cases b with | mk mb pb =>
    simp only [cvtPath, CtrlPath.mk.injEq] at h
    obtain ⟨h1, h2⟩ := h
    have : pa = pb := by
      induction pa generalizing pb with
      | nil => cases pb <;> simp_all
      | cons x xs ih =>
        cases pb with
        | nil => simp at h2
        | cons y ys =>
          simp only [List.map_cons, List.cons.injEq, cvtEdge_inj] at h2
          rw [h2.1, ih ys h2.2]
    rw [h1, this]
  · intro h; rw [h]

/-- `call_paths_exclusive` of the executable model on the path tuples of two chains is `cpe` -/
theorem cpe_agree : ∀ (c1 c2 : List CoreModel.Call),
    CoreModel.callPathsExclusive (c1.map (·.path)) (c2.map (·.path)) = cpe (c1.map cvtCall) (c2.map cvtCall)
  | [], _ => by cases ‹List CoreModel.Call› <;> simp [CoreModel.callPathsExclusive, cpe]
  | _ :: _, [] => by simp [CoreModel.callPathsExclusive, cpe]
  | a :: as, b :: bs => by
    simp only [List.map_cons, CoreModel.callPathsExclusive, cpe, cvtCall, cvtPath_inj]
    by_cases h : a.path = b.path
    · simp only [h, if_true]; exact cpe_agree as bs
    · simp only [h, if_false]; exact exclusiveWith_agree a.path b.path

theorem foldl_or_eq (l : List (Bool × Nat)) (acc : Nat) :
    l.foldl (fun acc (p : Bool × Nat) => acc ||| (if p.1 then p.2 else 0)) acc = acc ||| orList (l.map maskSel) := by
  induction l generalizing acc with
  | nil => simp [orList]
  | cons p ps ih =>
    simp only [List.foldl_cons, List.map_cons, orList, ih, maskSel, Nat.or_assoc]

theorem oneHotMux_agree (l : List (Bool × Nat)) : CoreModel.oneHotMux l = oneHotMux l := by
  match l with
  | [] => simp [CoreModel.oneHotMux, oneHotMux, orList]
  | [(s, a)] => simp [CoreModel.oneHotMux, oneHotMux]
  | p :: q :: r =>
    simp only [CoreModel.oneHotMux, oneHotMux]
    have := foldl_or_eq (p :: q :: r) 0
    simpa using this

end TxV.Core.Bridge
