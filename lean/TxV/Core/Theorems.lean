import TxV.Core.Sched
/-!
# Core theory: what an accepted design guarantees in every cycle

`Accepted D S` bundles the declarative facts `MethodMap.__init__` and `_conflict_graph`
establish when they do not raise; `Cycle D v S run` bundles the facts about one cycle (the
semantic exclusivity of control paths from `exclusive_sound`, the method-run equations, and
what either scheduler guarantees).  The theorems C01–C05 are consequences of these two.
-/
namespace TxV.Core

/-- `t ∈ transactions_for(b)` (manager.py:143): a transaction is its own, a method belongs to the
transactions that reach it -/
def TransFor (D : Design) (t b : Nat) : Prop := D.isTrans t = true ∧ (t = b ∨ Reaches D t b)

/-- manager.py:247 `calls_exclusive_within` -/
def ExclusiveWithin (D : Design) (t a b : Nat) : Prop :=
  a ≠ t ∧ b ≠ t ∧ ∀ ch1 ch2, IsChain D t ch1 → target ch1 = some a → IsChain D t ch2 → target ch2 = some b →
    cpe ch1 ch2 = true

/-- manager.py:196 `_transactions_exclusive` -/
def TransExclusive (D : Design) (t1 t2 : Nat) : Prop :=
  ∃ b1 b2, (b1 = t1 ∨ Reaches D t1 b1) ∧ (b2 = t2 ∨ Reaches D t2 b2) ∧
    (D.body b1).defPath.exclusiveWith (D.body b2).defPath = true

/-- `a.add_conflict(b, _)`: a relation with `conflict = True` from `a` to `b`, both in the design
(manager.py:183–189 prunes relations whose end is not) -/
def ConflictRel (D : Design) (a b : Nat) : Prop :=
  a < D.n ∧ b < D.n ∧ ∃ r ∈ (D.body a).rels, r.conflict = true ∧ r.dst = b

/-- the facts the manager has established when `MethodMap(...)` and `_conflict_graph(...)` return -/
structure Accepted (D : Design) (S : Sched) : Prop where
  wf : D.WF
  bounded : Bounded D
  /-- manager.py:129–130, double-call part -/
  validRoot : ∀ r, ValidRoot D r
  cgrSymm : CgrSymm D S
  ordInj : OrdInj D S
  /-- manager.py:273–277: two transactions without an edge satisfy `calls_nonexclusive` for every method -/
  cgrImplicit : ∀ t1 t2, D.isTrans t1 = true → D.isTrans t2 = true → t1 ≠ t2 → S.cgr t1 t2 = false →
    NoImplicitConflict D t1 t2
  /-- manager.py:291–305: a conflict relation is lifted to every pair of calling transactions, unless
  they are one transaction (then the two ends must be exclusive within it, else the design is
  rejected) or exclusive by definition -/
  cgrExplicit : ∀ a b, ConflictRel D a b → ∀ ta tb, TransFor D ta a → TransFor D tb b →
    (ta = tb → ExclusiveWithin D ta a b) ∧ (ta ≠ tb → S.cgr ta tb = true ∨ TransExclusive D ta tb)

/-- the facts about one cycle, under either scheduler -/
structure Cycle (D : Design) (v : Val) (S : Sched) (run : Nat → Bool) : Prop where
  exclSem : ExclSem D v
  exclReady : ExclReady D v
  methodRun : MethodRunEq D v run
  grants : Grants D v run
  mutex : Mutex D S run

theorem Cycle.ofEager {D v S run} (hA : Accepted D S) (hs : ExclSem D v) (hr : ExclReady D v)
    (hm : MethodRunEq D v run) (he : Eager D v S run) : Cycle D v S run :=
  ⟨hs, hr, hm, he.grants, he.mutex hA.cgrSymm hA.ordInj⟩

theorem Cycle.ofRoundRobin {D v S run} {comp : Nat → Nat} (hc : CompOk D S comp) (hs : ExclSem D v)
    (hr : ExclReady D v) (hm : MethodRunEq D v run) (he : RoundRobin D v comp run) : Cycle D v S run :=
  ⟨hs, hr, hm, he.1, he.mutex hc⟩

variable {D : Design} {v : Val} {S : Sched} {run : Nat → Bool}

/-! ## auxiliary facts -/

theorem exclusiveWith_nil_left (m : Int) (q : CtrlPath) : (⟨m, []⟩ : CtrlPath).exclusiveWith q = false := by
  simp [CtrlPath.exclusiveWith, exclEdges_nil_left]

theorem exclusiveWith_nil_right (m : Int) (q : CtrlPath) : q.exclusiveWith ⟨m, []⟩ = false := by
  rw [CtrlPath.exclusiveWith_comm]; exact exclusiveWith_nil_left m q

/-- `ExclReady` needs no range restriction: a body outside the design has the empty default path -/
theorem ExclReady.all (h : ExclReady D v) (a b : Nat)
    (hx : (D.body a).defPath.exclusiveWith (D.body b).defPath = true) :
    ¬ (v.ready a = true ∧ v.ready b = true) := by
  by_cases ha : a < D.n
  · by_cases hb : b < D.n
    · exact h a ha b hb hx
    · rw [D.body_of_ge (Nat.le_of_not_lt hb)] at hx
      simp [Body.empty, exclusiveWith_nil_right] at hx
  · rw [D.body_of_ge (Nat.le_of_not_lt ha)] at hx
    simp [Body.empty, exclusiveWith_nil_left] at hx

theorem IsChain.head_mem {D r ch} (h : IsChain D r ch) : ∃ c rest, ch = c :: rest ∧ c ∈ (D.body r).calls := by
  cases h with
  | single hm => exact ⟨_, [], rfl, hm⟩
  | cons hm _ => exact ⟨_, _, rfl, hm⟩

/-- the last call of a chain is made in the root (chain of length one) or in the target of the
chain without it -/
theorem IsChain.last_call {D} : ∀ {r ch c}, IsChain D r ch → ch.getLast? = some c →
    (ch = [c] ∧ c ∈ (D.body r).calls) ∨
    (∃ init b, ch = init ++ [c] ∧ IsChain D r init ∧ target init = some b ∧ c ∈ (D.body b).calls)
  | r, [], c, h, _ => absurd rfl h.ne_nil
  | r, [a], c, h, hl => by
    simp at hl; subst hl
    obtain ⟨c', rest, he, hm⟩ := h.head_mem
    simp at he; obtain ⟨rfl, _⟩ := he
    exact Or.inl ⟨rfl, hm⟩
  | r, a :: a' :: ch, c, h, hl => by
    right
    rw [List.getLast?_cons_cons] at hl
    cases h with
    | cons hm hch =>
      rcases IsChain.last_call hch hl with ⟨he, hc⟩ | ⟨init, b, he, hi, ht, hc⟩
      · refine ⟨[a], a.callee, by simp [he], .single hm, by simp [target], hc⟩
      · refine ⟨a :: init, b, by simp [he], .cons hm hi, ?_, hc⟩
        obtain ⟨d, ds, rfl⟩ := List.exists_cons_of_ne_nil hi.ne_nil
        rw [target_cons_cons]; exact ht

theorem IsChain.target_callee {D r ch m} (h : IsChain D r ch) (ht : target ch = some m) :
    ∃ c, ch.getLast? = some c ∧ c.callee = m ∧ c ∈ D.allCalls := by
  unfold target at ht
  cases hl : ch.getLast? with
  | none => simp [hl] at ht
  | some c =>
    simp [hl] at ht
    exact ⟨c, rfl, ht, h.calls_mem c (List.mem_of_getLast? hl)⟩

theorem Reaches.lt (hwf : D.WF) {t m : Nat} (h : Reaches D t m) : m < D.n ∧ D.isTrans m = false := by
  obtain ⟨ch, hc, ht⟩ := h
  obtain ⟨c, _, hcm, hmem⟩ := hc.target_callee ht
  rw [← hcm]; exact hwf c hmem

/-- a running body is run on behalf of a running transaction of `transactions_for` -/
theorem run_witness (hm : MethodRunEq D v run) {b : Nat} (hlt : b < D.n) (hr : run b = true) :
    ∃ t, TransFor D t b ∧ run t = true ∧
      (t = b ∨ ∃ ch, IsChain D t ch ∧ target ch = some b ∧ chainEn v ch = true) := by
  by_cases hb : D.isTrans b = true
  · exact ⟨b, ⟨hb, Or.inl rfl⟩, hr, Or.inl rfl⟩
  · have hb' : D.isTrans b = false := by simpa using hb
    obtain ⟨t, ch, h1, h2, h3, h4, h5⟩ := (hm b hlt hb').1 hr
    exact ⟨t, ⟨h1, Or.inr ⟨ch, h3, h4⟩⟩, h2, Or.inr ⟨ch, h3, h4, h5⟩⟩

/-! ## C01 -/

def Design.sitesOf (D : Design) (m : Nat) : List (Nat × Call) :=
  D.allSites.filter (fun p => p.2.callee == m)

/-- the active entries of the `runs` vector of `_method_calls` for method `m` -/
def activeSites (D : Design) (v : Val) (run : Nat → Bool) (m : Nat) : List (Nat × Call) :=
  (D.sitesOf m).filter (fun p => run p.1 && v.en p.2.site)

theorem mem_activeSites {m : Nat} {p : Nat × Call} :
    p ∈ activeSites D v run m ↔ ActiveSite D v run p.1 p.2 ∧ p.2.callee = m := by
  simp only [activeSites, Design.sitesOf, List.mem_filter, beq_iff_eq, Bool.and_eq_true, ActiveSite]
  rw [show p = (p.1, p.2) from rfl, Design.mem_allSites]
  constructor
  · rintro ⟨⟨h1, h2⟩, h3, h4⟩; exact ⟨⟨h1, h3, h4⟩, h2⟩
  · rintro ⟨⟨h1, h3, h4⟩, h2⟩; exact ⟨⟨h1, h2⟩, h3, h4⟩

theorem length_le_one_of_nodup_const {α β} (f : α → β) :
    ∀ (l : List α), (l.map f).Nodup → (∀ x ∈ l, ∀ y ∈ l, f x = f y) → l.length ≤ 1
  | [], _, _ => by simp
  | [_], _, _ => by simp
  | a :: b :: r, hnd, hc => by
    have := hc a (by simp) b (by simp)
    simp [this] at hnd

theorem hMutex_of (hA : Accepted D S) (hC : Cycle D v S run) :
    ∀ t1 t2, D.isTrans t1 = true → D.isTrans t2 = true → t1 ≠ t2 →
      run t1 = true → run t2 = true → NoImplicitConflict D t1 t2 := by
  intro t1 t2 h1 h2 hne r1 r2
  cases he : S.cgr t1 t2 with
  | false => exact hA.cgrImplicit t1 t2 h1 h2 hne he
  | true => exact absurd ⟨r1, r2⟩ (hC.mutex t1 t2 h1 h2 hne he)

/-- any two active call sites of an exclusive method are the same call occurrence -/
theorem active_unique (hA : Accepted D S) (hC : Cycle D v S run) {m b1 b2 : Nat} {c1 c2 : Call}
    (hm : D.nonexcl m = false)
    (h1 : ActiveSite D v run b1 c1) (hc1 : c1.callee = m)
    (h2 : ActiveSite D v run b2 c2) (hc2 : c2.callee = m) : c1 = c2 :=
  c01_flat D v run hC.exclSem hA.validRoot hC.methodRun (hMutex_of hA hC) hm h1 hc1 h2 hc2

/-- the list form of `c01_flat`, from its bare hypotheses -/
theorem at_most_one_active_core (hExcl : ExclSem D v) (hValid : ∀ r, ValidRoot D r)
    (hrun : MethodRunEq D v run)
    (hMutex : ∀ t1 t2, D.isTrans t1 = true → D.isTrans t2 = true → t1 ≠ t2 →
      run t1 = true → run t2 = true → NoImplicitConflict D t1 t2)
    (hn : D.SitesNodup) {m : Nat} (hm : D.nonexcl m = false) : (activeSites D v run m).length ≤ 1 := by
  apply length_le_one_of_nodup_const (fun p : Nat × Call => p.2.site)
  · have hsub : List.Sublist (activeSites D v run m) D.allSites :=
      (List.filter_sublist).trans List.filter_sublist
    exact (hsub.map _).nodup hn
  · intro x hx y hy
    obtain ⟨ax, cx⟩ := mem_activeSites.1 hx
    obtain ⟨ay, cy⟩ := mem_activeSites.1 hy
    rw [c01_flat D v run hExcl hValid hrun hMutex hm ax cx ay cy]

theorem at_most_one_active (hA : Accepted D S) (hC : Cycle D v S run) (hn : D.SitesNodup)
    {m : Nat} (hm : D.nonexcl m = false) : (activeSites D v run m).length ≤ 1 :=
  at_most_one_active_core hC.exclSem hA.validRoot hC.methodRun (hMutex_of hA hC) hn hm

/-- second sentence of C01: two transactions that run together satisfy `calls_nonexclusive` for
every method both reach -/
theorem no_joint_run (hA : Accepted D S) (hC : Cycle D v S run) {t1 t2 : Nat}
    (h1 : D.isTrans t1 = true) (h2 : D.isTrans t2 = true) (hne : t1 ≠ t2)
    (r1 : run t1 = true) (r2 : run t2 = true) : NoImplicitConflict D t1 t2 :=
  hMutex_of hA hC t1 t2 h1 h2 hne r1 r2

/-! ## C02 -/

theorem conflict_never_both (hA : Accepted D S) (hC : Cycle D v S run) {a b : Nat}
    (hrel : ConflictRel D a b) : ¬ (run a = true ∧ run b = true) := by
  intro ⟨ra, rb⟩
  obtain ⟨ta, hta, rta, wa⟩ := run_witness hC.methodRun hrel.1 ra
  obtain ⟨tb, htb, rtb, wb⟩ := run_witness hC.methodRun hrel.2.1 rb
  have hx := hA.cgrExplicit a b hrel ta tb hta htb
  by_cases heq : ta = tb
  · subst heq
    obtain ⟨ha, hb, hex⟩ := hx.1 rfl
    rcases wa with rfl | ⟨ch1, i1, g1, e1⟩
    · exact ha rfl
    rcases wb with rfl | ⟨ch2, i2, g2, e2⟩
    · exact hb rfl
    exact cpe_sound D v hC.exclSem _ _ i1.calls_mem i2.calls_mem (hex ch1 ch2 i1 g1 i2 g2) ⟨e1, e2⟩
  · rcases hx.2 heq with he | ⟨b1, b2, hb1, hb2, hex⟩
    · exact hC.mutex ta tb hta.1 htb.1 heq he ⟨rta, rtb⟩
    · have g1 := ((hC.grants ta hta.1 rta).2.1 b1 hb1).1
      have g2 := ((hC.grants tb htb.1 rtb).2.1 b2 hb2).1
      exact hC.exclReady.all b1 b2 hex ⟨g1, g2⟩

end TxV.Core
