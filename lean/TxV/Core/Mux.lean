/-!
# Core theory: one-hot multiplexer and `provide` resolution (C05)

`oneHotMux` transcribes `one_hot_mux(inputs, default=None, priority=False)`
(transactron/utils/amaranth_ext/functions.py:331–384) as used by `OneHotMux.create` without a
default (elaboratables.py:688): a single input is passed through whatever its select bit
(functions.py:381), otherwise the output is the bitwise OR of the selected inputs.
-/
namespace TxV.Core

def orList : List Nat → Nat
  | [] => 0
  | a :: as => a ||| orList as

def maskSel (p : Bool × Nat) : Nat := if p.1 then p.2 else 0

def oneHotMux : List (Bool × Nat) → Nat
  | [p] => p.2
  | l => orList (l.map maskSel)

theorem orList_zero : ∀ (l : List Nat), (∀ x ∈ l, x = 0) → orList l = 0
  | [], _ => rfl
  | a :: as, h => by
    have ha := h a (List.mem_cons_self ..)
    have := orList_zero as (fun x hx => h x (List.mem_cons_of_mem _ hx))
    simp [orList, ha, this]

/-- OR of a list all of whose non-zero entries equal `a`, with at least one such entry -/
theorem orList_same (a : Nat) : ∀ (l : List Nat), (∀ x ∈ l, x = 0 ∨ x = a) → a ∈ l → orList l = a
  | [], _, h => by simp at h
  | x :: xs, hall, hm => by
    have hx := hall x (List.mem_cons_self ..)
    have hxs : ∀ y ∈ xs, y = 0 ∨ y = a := fun y hy => hall y (List.mem_cons_of_mem _ hy)
    by_cases hin : a ∈ xs
    · have ih := orList_same a xs hxs hin
      rcases hx with rfl | rfl <;> simp [orList, ih]
    · have hx' : x = a := by
        simp only [List.mem_cons] at hm
        rcases hm with rfl | hm
        · rfl
        · exact absurd hm hin
      have hz : orList xs = 0 := by
        apply orList_zero
        intro y hy
        rcases hxs y hy with h | h
        · exact h
        · subst h; exact absurd hy hin
      simp [orList, hx', hz]

/-- **one-hot selection**, for every list length: if some selected entry carries `a` and every
selected entry carries `a`, the multiplexer outputs `a`. -/
theorem oneHotMux_select (l : List (Bool × Nat)) (a : Nat)
    (hsome : ∃ p ∈ l, p.1 = true ∧ p.2 = a) (hall : ∀ p ∈ l, p.1 = true → p.2 = a) :
    oneHotMux l = a := by
  have key : orList (l.map maskSel) = a := by
    apply orList_same
    · intro x hx
      simp only [List.mem_map] at hx
      obtain ⟨p, hp, rfl⟩ := hx
      by_cases hs : p.1 = true
      · right; simp [maskSel, hs, hall p hp hs]
      · left; simp [maskSel, hs]
    · obtain ⟨p, hp, hs, ha⟩ := hsome
      simp only [List.mem_map]
      exact ⟨p, hp, by simp [maskSel, hs, ha]⟩
  cases l with
  | nil => obtain ⟨p, hp, _⟩ := hsome; simp at hp
  | cons p r =>
    cases r with
    | nil =>
      obtain ⟨q, hq, _, ha⟩ := hsome
      simp at hq; subst hq; simpa [oneHotMux] using ha
    | cons q r => simpa [oneHotMux] using key

/-- when exactly one entry is selected (all others are not), the output is that entry's value -/
theorem oneHotMux_single (l1 l2 : List (Bool × Nat)) (a : Nat)
    (h1 : ∀ p ∈ l1, p.1 = false) (h2 : ∀ p ∈ l2, p.1 = false) :
    oneHotMux (l1 ++ (true, a) :: l2) = a := by
  apply oneHotMux_select
  · exact ⟨(true, a), by simp, rfl, rfl⟩
  · intro p hp hs
    simp only [List.mem_append, List.mem_cons] at hp
    rcases hp with hp | rfl | hp
    · rw [h1 p hp] at hs; cases hs
    · rfl
    · rw [h2 p hp] at hs; cases hs

/-! ## `provide` chains (method.py:134 `Method._body`)

A method object either owns a body or forwards to another method object. `_body` follows the
pointers; `_set_impl` refuses to define a method twice (method.py:143), and a method can only be
provided to an already constructed object, so the pointer structure is a forest. The model takes
the forwarding table and a fuel bound; `resolve` is what every caller uses to find the body whose
`data_out` it reads (method.py:327) and to which its call is attributed (manager.py:84). -/

inductive Impl where
  | body (b : Nat)
  | fwd (m : Nat)
  | undefined
deriving DecidableEq, Repr

def resolve (tbl : Nat → Impl) : Nat → Nat → Option Nat
  | 0, _ => none
  | fuel+1, m =>
    match tbl m with
    | .body b => some b
    | .fwd m' => resolve tbl fuel m'
    | .undefined => none

/-- more fuel does not change a successful resolution -/
theorem resolve_mono (tbl : Nat → Impl) : ∀ (f : Nat) (m b : Nat), resolve tbl f m = some b →
    ∀ g, f ≤ g → resolve tbl g m = some b
  | 0, _, _, h, _, _ => by simp [resolve] at h
  | f+1, m, b, h, g, hg => by
    cases g with
    | zero => omega
    | succ g =>
      simp only [resolve] at h ⊢
      cases ht : tbl m with
      | body b' => simpa [ht] using h
      | fwd m' =>
        simp only [ht] at h ⊢
        exact resolve_mono tbl f m' b h g (by omega)
      | undefined => simp [ht] at h

/-- a method and the method it forwards to resolve to the same body: every alias along a
`provide` chain reads the same `data_out` and contributes calls to the same body -/
theorem resolve_fwd (tbl : Nat → Impl) (f m m' b : Nat) (hm : tbl m = .fwd m')
    (h : resolve tbl f m' = some b) : resolve tbl (f+1) m = some b := by
  simp [resolve, hm, h]

/-- resolution is idempotent: the table obtained after `_body` has cached the result
(method.py:138 `self._body_ptr = self._body_ptr._body`) resolves every method to the same body -/
theorem resolve_idempotent (tbl : Nat → Impl) (f m b : Nat) (h : resolve tbl f m = some b) :
    resolve (fun x => if x = m then .body b else tbl x) f m = some b := by
  cases f with
  | zero => simp [resolve] at h
  | succ f => simp [resolve]

/-- caching one resolved pointer does not change the resolution of any other method -/
theorem resolve_cache (tbl : Nat → Impl) (m b : Nat) (hm : ∃ f, resolve tbl f m = some b) :
    ∀ (f x c : Nat), resolve tbl f x = some c →
      resolve (fun y => if y = m then .body b else tbl y) f x = some c
  | 0, _, _, h => by simp [resolve] at h
  | f+1, x, c, h => by
    by_cases hx : x = m
    · subst hx
      obtain ⟨g, hg⟩ := hm
      have e1 := resolve_mono tbl g x b hg (max g (f+1)) (Nat.le_max_left ..)
      have e2 := resolve_mono tbl (f+1) x c h (max g (f+1)) (Nat.le_max_right ..)
      rw [e1] at e2
      simp [resolve]; exact Option.some.inj e2
    · simp only [resolve, hx, if_false] at h ⊢
      cases ht : tbl x with
      | body b' => simpa [ht] using h
      | fwd m' =>
        simp only [ht] at h ⊢
        exact resolve_cache tbl m b hm f m' c h
      | undefined => simp [ht] at h

end TxV.Core
