import TxV.Core.Example
/-!
# Second example: nonexclusive common ancestor, call chains of depth 2, a nested transaction

`T0` and `T1` both call nonexclusive `N`, which calls exclusive `M`; transaction `K` is nested in
`N` (ready-dependent on it).  No conflict edges: `M` is reached only through the common
nonexclusive ancestor.  In the example cycle everything runs; `M` has a single active call site.
-/
namespace TxV.Core.Ex2
open TxV.Core.Ex (p)

def D : Design := ⟨[
  ⟨true,  p [], false, false, false, [⟨2, p [(0,0)], 0⟩], []⟩,
  ⟨true,  p [], false, false, false, [⟨2, p [(0,1)], 1⟩], []⟩,
  ⟨false, p [], true,  false, false, [⟨3, p [(0,2)], 2⟩], [⟨4, .left, false, true⟩]⟩,
  ⟨false, p [], false, false, false, [], []⟩,
  ⟨true,  p [(0,2)], false, false, false, [], []⟩]⟩

def ord : Nat → Nat := fun t => t
def S : Sched := ⟨ord, cgrOf D⟩
def v : Val := ⟨fun _ => true, fun _ => true, fun s => 20 + s, fun _ _ => true⟩
def run : Nat → Bool := fun b => b < 5
/-- a cycle in which `N` is not ready: nothing that depends on it runs -/
def v' : Val := ⟨fun b => b != 2, fun _ => true, fun s => 20 + s, fun _ _ => true⟩
def run' : Nat → Bool := fun _ => false

theorem accepted : accept D ord = true := by decide
theorem noEdges : ((List.range 5).all fun a => (List.range 5).all fun b => !cgrOf D a b) = true := by decide
theorem cycleEager : cycleEagerB D v S run = true := by decide
theorem cycleEager' : cycleEagerB D v' S run' = true := by decide
theorem cycleRR : cycleRRB D v S (fun t => t) run = true := by decide
theorem eager : eagerB D v S run = true := by decide
theorem noImplicit01 : noImplicitB D 0 1 = true := by decide

end TxV.Core.Ex2
