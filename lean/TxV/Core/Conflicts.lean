import TxV.Core.Theorems
/-!
# Core theory: where conflict edges come from (C07), priorities (C08)
-/
namespace TxV.Core

variable {D : Design} {v : Val} {S : Sched} {run : Nat → Bool}

/-- the two transactions have call chains to one method for which `calls_nonexclusive`
(manager.py:239–245) fails: the outermost common ancestor is exclusive and the call paths are not
exclusive -/
def ImplicitConflict (D : Design) (t1 t2 : Nat) : Prop :=
  ∃ ch1 ch2 m, IsChain D t1 ch1 ∧ IsChain D t2 ch2 ∧ target ch1 = some m ∧ target ch2 = some m ∧
    lcaNonexcl D ch1 ch2 = false ∧ cpe ch1 ch2 = false

/-- both reach one *exclusive* method on call paths that are not exclusive -/
def SharedExclusive (D : Design) (t1 t2 : Nat) : Prop :=
  ∃ ch1 ch2 n, IsChain D t1 ch1 ∧ IsChain D t2 ch2 ∧ target ch1 = some n ∧ target ch2 = some n ∧
    D.nonexcl n = false ∧ cpe ch1 ch2 = false

/-- an `add_conflict` relation (either direction) between a body of `t1`'s tree and a body of
`t2`'s tree, the transactions not being exclusive by definition -/
def LiftedConflict (D : Design) (t1 t2 : Nat) : Prop :=
  ∃ a b, (ConflictRel D a b ∨ ConflictRel D b a) ∧ TransFor D t1 a ∧ TransFor D t2 b ∧
    ¬ TransExclusive D t1 t2

/-- `cgr` has no edges but those `_conflict_graph` adds (manager.py:273–277, :291–305) -/
def CgrSources (D : Design) (S : Sched) : Prop :=
  ∀ t1, t1 < D.n → ∀ t2, t2 < D.n → S.cgr t1 t2 = true →
    D.isTrans t1 = true ∧ D.isTrans t2 = true ∧ t1 ≠ t2 ∧ (ImplicitConflict D t1 t2 ∨ LiftedConflict D t1 t2)

theorem not_implicit_of_no (h : NoImplicitConflict D t1 t2) : ¬ ImplicitConflict D t1 t2 := by
  rintro ⟨ch1, ch2, m, i1, i2, g1, g2, hl, hc⟩
  rcases h ch1 ch2 m i1 i2 g1 g2 with h | h
  · rw [hl] at h; cases h
  · rw [hc] at h; cases h

/-! ### an implicit conflict is a shared exclusive method on non-exclusive call paths -/

theorem cpe_false_prefix : ∀ (a1 b1 a2 b2 : List Call), cpe (a1 ++ b1) (a2 ++ b2) = false → cpe a1 a2 = false
  | [], _, _, _, _ => by cases ‹List Call› <;> rfl
  | _ :: _, _, [], _, _ => rfl
  | x :: a1, b1, y :: a2, b2, h => by
    simp only [List.cons_append, cpe] at h ⊢
    by_cases hp : x.path = y.path
    · simp only [hp, if_true] at h ⊢; exact cpe_false_prefix a1 b1 a2 b2 h
    · simpa [hp] using h

theorem implicit_shared (h : ImplicitConflict D t1 t2) : SharedExclusive D t1 t2 := by
  obtain ⟨ch1, ch2, m, i1, i2, g1, g2, hl, hc⟩ := h
  -- the common ancestor list is non-empty: both chains end in `m`
  unfold lcaNonexcl anc at hl
  rw [← callees_reverse, ← callees_reverse] at hl
  obtain ⟨c1, l1, hc1, _⟩ := i1.target_callee g1
  obtain ⟨c2, l2, hc2, _⟩ := i2.target_callee g2
  have h1 : ch1.reverse.head? = some c1 := by rw [List.head?_reverse]; exact l1
  have h2 : ch2.reverse.head? = some c2 := by rw [List.head?_reverse]; exact l2
  cases hgl : (lcp (callees ch1.reverse) (callees ch2.reverse)).getLast? with
  | none =>
    exfalso
    obtain ⟨x, xs, hx⟩ : ∃ x xs, ch1.reverse = x :: xs := by
      cases hr : ch1.reverse with
      | nil => simp [hr] at h1
      | cons x xs => exact ⟨x, xs, rfl⟩
    obtain ⟨y, ys, hy⟩ : ∃ y ys, ch2.reverse = y :: ys := by
      cases hr : ch2.reverse with
      | nil => simp [hr] at h2
      | cons y ys => exact ⟨y, ys, rfl⟩
    rw [hx, hy] at hgl
    simp [hx] at h1; simp [hy] at h2
    simp [callees, lcp, h1, h2, hc1, hc2] at hgl
  | some n =>
    rw [hgl] at hl
    simp only at hl
    obtain ⟨X1, z1, Y1, X2, z2, Y2, r1, r2, hz1, hz2, _⟩ := lca_split _ _ n hgl
    have d1 : ch1 = (Y1.reverse ++ [z1]) ++ X1.reverse := by
      have := congrArg List.reverse r1; simpa using this
    have d2 : ch2 = (Y2.reverse ++ [z2]) ++ X2.reverse := by
      have := congrArg List.reverse r2; simpa using this
    refine ⟨Y1.reverse ++ [z1], Y2.reverse ++ [z2], n, ?_, ?_, ?_, ?_, hl, ?_⟩
    · rw [d1] at i1; exact IsChain.prefix _ _ i1 (by simp)
    · rw [d2] at i2; exact IsChain.prefix _ _ i2 (by simp)
    · rw [target_append_singleton, hz1]
    · rw [target_append_singleton, hz2]
    · rw [d1, d2] at hc; exact cpe_false_prefix _ _ _ _ hc

/-! ## C07 -/

/-- a fully enabled transaction that does not run has a running conflicting transaction, and the
conflict is either a shared exclusive method on non-exclusive call paths or a lifted `add_conflict` -/
theorem blocked_by_conflict (he : Eager D v S run) (hsrc : CgrSources D S) {t : Nat}
    (ht : D.isTrans t = true) (hready : v.ready t = true) (hrunnable : Runnable D v run t)
    (hnr : run t = false) :
    ∃ t', D.isTrans t' = true ∧ t' ≠ t ∧ run t' = true ∧ S.ord t' < S.ord t ∧ S.cgr t t' = true ∧
      (SharedExclusive D t t' ∨ LiftedConflict D t t') := by
  obtain ⟨t', h1, h2, h3, h4⟩ := eager_no_waste he ht hready hrunnable hnr
  obtain ⟨_, _, hne, hsrc'⟩ := hsrc t (D.isTrans_lt ht) t' (D.isTrans_lt h1) h3
  refine ⟨t', h1, fun h => hne h.symm, h4, h2, h3, ?_⟩
  rcases hsrc' with h | h
  · exact Or.inl (implicit_shared h)
  · exact Or.inr h

/-- nothing but running conflict-graph neighbours keeps a fully enabled transaction from running -/
theorem runs_if_unblocked (he : Eager D v S run) {t : Nat} (ht : D.isTrans t = true)
    (hready : v.ready t = true) (hrunnable : Runnable D v run t)
    (hfree : ∀ t', S.cgr t t' = true → run t' = false) : run t = true :=
  (he t ht).2 ⟨hready, hrunnable, fun t' _ _ h => hfree t' h⟩

/-- no edge without a source: if `calls_nonexclusive` holds for every commonly reached method and no
`add_conflict` relates the two call trees, there is no conflict edge — whatever `schedule_before`
relations (relations with `conflict = False`) exist between them -/
theorem no_edge_without_source (hsrc : CgrSources D S) {t1 t2 : Nat} (l1 : t1 < D.n) (l2 : t2 < D.n)
    (hni : NoImplicitConflict D t1 t2)
    (hnc : ∀ a b, (ConflictRel D a b ∨ ConflictRel D b a) → ¬ (TransFor D t1 a ∧ TransFor D t2 b)) :
    S.cgr t1 t2 = false := by
  cases h : S.cgr t1 t2 with
  | false => rfl
  | true =>
    obtain ⟨_, _, _, h | ⟨a, b, hr, ha, hb, _⟩⟩ := hsrc t1 l1 t2 l2 h
    · exact absurd h (not_implicit_of_no hni)
    · exact absurd ⟨ha, hb⟩ (hnc a b hr)

/-- calls placed in different alternatives of one control structure (exclusive call paths for every
pair of chains to a common method) produce no implicit conflict -/
theorem exclusive_alternatives_no_implicit {t1 t2 : Nat}
    (h : ∀ ch1 ch2 m, IsChain D t1 ch1 → IsChain D t2 ch2 → target ch1 = some m → target ch2 = some m →
      cpe ch1 ch2 = true) : NoImplicitConflict D t1 t2 :=
  fun ch1 ch2 m i1 i2 g1 g2 => Or.inr (h ch1 ch2 m i1 i2 g1 g2)

/-- a nonexclusive outermost common ancestor produces no implicit conflict -/
theorem nonexclusive_ancestor_no_implicit {t1 t2 : Nat}
    (h : ∀ ch1 ch2 m, IsChain D t1 ch1 → IsChain D t2 ch2 → target ch1 = some m → target ch2 = some m →
      lcaNonexcl D ch1 ch2 = true) : NoImplicitConflict D t1 t2 :=
  fun ch1 ch2 m i1 i2 g1 g2 => Or.inl (h ch1 ch2 m i1 i2 g1 g2)

/-! ## C08 -/

/-- `x` must precede `y`: an edge of the reversed priority graph `pgr` (manager.py:263–267,
`add_edge` is called for every lifted relation, conflicting or not, except the skipped
same-transaction conflicts of manager.py:293–301) -/
def PgrEdge (D : Design) (x y : Nat) : Prop :=
  ∃ a b r, a < D.n ∧ b < D.n ∧ r ∈ (D.body a).rels ∧ r.dst = b ∧
    ∃ ta tb, TransFor D ta a ∧ TransFor D tb b ∧ ¬ (r.conflict = true ∧ ta = tb) ∧
      ((r.prio = .left ∧ x = ta ∧ y = tb) ∨ (r.prio = .right ∧ x = tb ∧ y = ta))

/-- `porder` is a topological order of the priority constraints (manager.py:309–314) -/
def ValidOrder (D : Design) (S : Sched) : Prop := ∀ x y, PgrEdge D x y → S.ord x < S.ord y

inductive PgrPath (D : Design) : Nat → Nat → Prop where
  | single {x y} : PgrEdge D x y → PgrPath D x y
  | cons {x y z} : PgrEdge D x y → PgrPath D y z → PgrPath D x z

theorem ValidOrder.path (h : ValidOrder D S) {x y : Nat} (p : PgrPath D x y) : S.ord x < S.ord y := by
  induction p with
  | single e => exact h _ _ e
  | cons e _ ih => exact Nat.lt_trans (h _ _ e) ih

/-- a valid order exists only if the priority constraints are acyclic (in particular no self-loop) -/
theorem validOrder_acyclic (h : ValidOrder D S) (x : Nat) : ¬ PgrPath D x x :=
  fun p => Nat.lt_irrefl _ (h.path p)

/-- `add_conflict(a, b, Priority.LEFT)`: a relation from `a` to `b` with `conflict` and `prio = left` -/
def ConflictRelPrio (D : Design) (a b : Nat) (p : Prio) : Prop :=
  a < D.n ∧ b < D.n ∧ ∃ r ∈ (D.body a).rels, r.conflict = true ∧ r.dst = b ∧ r.prio = p

theorem ConflictRelPrio.rel {a b p} (h : ConflictRelPrio D a b p) : ConflictRel D a b := by
  obtain ⟨h1, h2, r, hr, hc, hd, _⟩ := h; exact ⟨h1, h2, r, hr, hc, hd⟩

/-- a transaction is *fully enabled*: `ready & runnable` -/
def FullyEnabled (D : Design) (v : Val) (run : Nat → Bool) (t : Nat) : Prop :=
  v.ready t = true ∧ Runnable D v run t

/-- two fully enabled transactions are not exclusive by definition -/
theorem not_transExclusive_of_enabled (hr : ExclReady D v) {t1 t2 : Nat}
    (h1 : FullyEnabled D v run t1) (h2 : FullyEnabled D v run t2) : ¬ TransExclusive D t1 t2 := by
  rintro ⟨b1, b2, hb1, hb2, hex⟩
  exact hr.all b1 b2 hex ⟨(h1.2.1 b1 hb1).1, (h2.2.1 b2 hb2).1⟩

/-- general form: the side that must come first (`hi`) wins -/
theorem priority_respected (hA : Accepted D S) (he : Eager D v S run) (hr : ExclReady D v)
    {a b hi lo : Nat} (hrel : ConflictRel D a b)
    (hab : (TransFor D hi a ∧ TransFor D lo b) ∨ (TransFor D lo a ∧ TransFor D hi b))
    (hne : hi ≠ lo) (hord : S.ord hi < S.ord lo)
    (ehi : FullyEnabled D v run hi) (elo : FullyEnabled D v run lo) (hrun : run lo = true) :
    run hi = false ∧ ∃ t'', t'' ≠ lo ∧ D.isTrans t'' = true ∧ S.cgr hi t'' = true ∧ run t'' = true := by
  have hnx : ¬ TransExclusive D hi lo := not_transExclusive_of_enabled hr ehi elo
  have hnx' : ¬ TransExclusive D lo hi := by
    rintro ⟨b1, b2, h1, h2, hex⟩
    exact hnx ⟨b2, b1, h2, h1, by rw [CtrlPath.exclusiveWith_comm]; exact hex⟩
  have hT : D.isTrans hi = true ∧ D.isTrans lo = true := by
    rcases hab with ⟨x, y⟩ | ⟨x, y⟩
    · exact ⟨x.1, y.1⟩
    · exact ⟨y.1, x.1⟩
  have hedge : S.cgr hi lo = true := by
    rcases hab with ⟨x, y⟩ | ⟨x, y⟩
    · rcases (hA.cgrExplicit a b hrel hi lo x y).2 hne with h | h
      · exact h
      · exact absurd h hnx
    · rcases (hA.cgrExplicit a b hrel lo hi x y).2 (fun h => hne h.symm) with h | h
      · rw [hA.cgrSymm hi (D.isTrans_lt hT.1) lo (D.isTrans_lt hT.2)]; exact h
      · exact absurd h hnx'
  obtain ⟨h1, t'', h2, h3, _, h5, h6⟩ :=
    eager_priority he hA.cgrSymm hT.1 hT.2 hord hedge ehi.1 ehi.2 hrun
  exact ⟨h1, t'', h2, h3, h5, h6⟩

/-- `a.add_conflict(b, Priority.LEFT)`: when a transaction `ta` of `a` and a different transaction
`tb` of `b` are both fully enabled, `tb` runs only if `ta` does not run and some other transaction
conflicting with `ta` runs -/
theorem priority_left (hA : Accepted D S) (he : Eager D v S run) (hr : ExclReady D v) (ho : ValidOrder D S)
    {a b ta tb : Nat} (hrel : ConflictRelPrio D a b .left) (hta : TransFor D ta a) (htb : TransFor D tb b)
    (hne : ta ≠ tb) (ea : FullyEnabled D v run ta) (eb : FullyEnabled D v run tb) (hrun : run tb = true) :
    run ta = false ∧ ∃ t'', t'' ≠ tb ∧ D.isTrans t'' = true ∧ S.cgr ta t'' = true ∧ run t'' = true := by
  obtain ⟨h1, h2, r, hrm, hc, hd, hp⟩ := hrel
  have hord : S.ord ta < S.ord tb :=
    ho ta tb ⟨a, b, r, h1, h2, hrm, hd, ta, tb, hta, htb, fun h => hne h.2, Or.inl ⟨hp, rfl, rfl⟩⟩
  exact priority_respected hA he hr ⟨h1, h2, r, hrm, hc, hd⟩ (Or.inl ⟨hta, htb⟩) hne hord ea eb hrun

/-- `a.add_conflict(b, Priority.RIGHT)`: symmetric, `b`'s side wins -/
theorem priority_right (hA : Accepted D S) (he : Eager D v S run) (hr : ExclReady D v) (ho : ValidOrder D S)
    {a b ta tb : Nat} (hrel : ConflictRelPrio D a b .right) (hta : TransFor D ta a) (htb : TransFor D tb b)
    (hne : ta ≠ tb) (ea : FullyEnabled D v run ta) (eb : FullyEnabled D v run tb) (hrun : run ta = true) :
    run tb = false ∧ ∃ t'', t'' ≠ ta ∧ D.isTrans t'' = true ∧ S.cgr tb t'' = true ∧ run t'' = true := by
  obtain ⟨h1, h2, r, hrm, hc, hd, hp⟩ := hrel
  have hord : S.ord tb < S.ord ta :=
    ho tb ta ⟨a, b, r, h1, h2, hrm, hd, ta, tb, hta, htb, fun h => hne h.2, Or.inr ⟨hp, rfl, rfl⟩⟩
  exact priority_respected hA he hr ⟨h1, h2, r, hrm, hc, hd⟩ (Or.inr ⟨hta, htb⟩)
    (fun h => hne h.symm) hord eb ea hrun

end TxV.Core
