import TxV.Core.BridgeRun
/-!
# Bridge, part 9: the executable `runnable` (manager.py:529–548) is the declarative `Runnable`
-/
namespace TxV.Core.Bridge
open TxV
open TxV.CoreModel (Graphs MethodMap Elab)

theorem flatMap_congr_mem {α β : Type} {f g : α → List β} : ∀ (l : List α), (∀ x ∈ l, f x = g x) →
    l.flatMap f = l.flatMap g
  | [], _ => rfl
  | a :: l, h => by
    simp only [List.flatMap_cons]
    rw [h a (List.mem_cons_self ..), flatMap_congr_mem l (fun x hx => h x (List.mem_cons_of_mem _ hx))]

/-- once the fuel exceeds the longest chain, more fuel enumerates the same list -/
theorem chains_stable (A : Design) : ∀ (f r : Nat), (∀ ch, IsChain A r ch → ch.length ≤ f) →
    chains A f r = chains A (f+1) r
  | 0, r, h => by
    have : (A.body r).calls = [] := by
      cases hc : (A.body r).calls with
      | nil => rfl
      | cons c cs =>
        have := h [c] (.single (by rw [hc]; exact List.mem_cons_self ..))
        simp at this
    simp [chains, this]
  | f+1, r, h => by
    show chains A (f+1) r = chains A (f+1+1) r
    rw [chains, chains]
    apply flatMap_congr_mem
    intro c hc
    have := chains_stable A f c.callee (fun ch hi => by
      have := h (c :: ch) (.cons hc hi)
      simpa using this)
    rw [this]

theorem map_filter_map_congr {α β γ δ : Type} (h1 : α → β) (h2 : α → γ) (p1 : β → Bool) (p2 : γ → Bool)
    (f : β → δ) (g : γ → δ) : ∀ (l : List α), (∀ x ∈ l, p1 (h1 x) = p2 (h2 x)) →
    (∀ x ∈ l, p1 (h1 x) = true → f (h1 x) = g (h2 x)) →
    ((l.map h1).filter p1).map f = ((l.map h2).filter p2).map g
  | [], _, _ => rfl
  | a :: l, hp, hf => by
    have ih := map_filter_map_congr h1 h2 p1 p2 f g l (fun x hx => hp x (List.mem_cons_of_mem _ hx))
      (fun x hx => hf x (List.mem_cons_of_mem _ hx))
    have hpa := hp a (List.mem_cons_self ..)
    simp only [List.map_cons, List.filter_cons]
    cases hc : p1 (h1 a) with
    | false => rw [← hpa, hc]; simpa using ih
    | true =>
      rw [← hpa, hc]
      simp only [if_true, List.map_cons, ih, hf a (List.mem_cons_self ..) hc]

theorem toAbs_hasValidate (D : CoreModel.Design) (m : Nat) :
    ((toAbs D).body m).hasValidate = (D.validate m).isSome := by
  rw [toAbs_body]; unfold CoreModel.Design.validate CoreModel.Design.body?
  cases D.bodies[m]? <;> simp [cvtBody, Body.empty]

section
variable {D : CoreModel.Design} {E : Elab} (C : Ctx D E)
include C

/-- the `(enable, argument)` pairs of `info_by_call[(t, m)]`, in order, on both sides -/
theorem Ctx.pairs_eq (v : CoreModel.Val) {t : Nat} (ht : t ∈ D.transactions) (m : Nat) :
    (E.mm.infoFor t m).map (fun c => (CoreModel.chainEn v c, v.arg c.argSite)) =
      (info (toAbs D) t m).map (fun ch => (chainEn (toVal D v) ch, argOf (toVal D v) ch)) := by
  rw [C.mm, infoFor_eq D ht]
  unfold info
  have hst : chains (toAbs D) (toAbs D).n t = chains (toAbs D) (CoreModel.fuelOf D) t := by
    have := chains_stable (toAbs D) (toAbs D).n t (C.bounded t)
    rw [this, toAbs_n]; rfl
  have h2 := chains_toAbs D (CoreModel.fuelOf D) t []
  simp only [List.map_nil, List.nil_append, List.map_id'] at h2
  rw [hst, ← h2, List.map_map]
  have := map_filter_map_congr infoOf (fun ch => ch.map cvtCall) (fun x => x.1 == m)
    (fun ch => target ch == some m)
    (fun x => (CoreModel.chainEn v x.2, v.arg x.2.argSite))
    (fun ch => (chainEn (toVal D v) ch, argOf (toVal D v) ch))
    (enumM D (CoreModel.fuelOf D) t []) ?_ ?_
  · simpa [Function.comp_def] using this
  · intro ch hch
    have hg := infoOf_target D hch
    simp only [hg]
    by_cases hm : (infoOf ch).1 = m <;> simp [hm]
  · intro ch hch hm
    simp only [beq_iff_eq] at hm
    have hg := infoOf_target D hch
    rw [hm] at hg
    obtain ⟨e1, e2⟩ := chainEn_agree D v hg
    rw [e1, e2]

/-- the validation term of the executable model is the declarative one -/
theorem Ctx.validateTerm_eq (v : CoreModel.Val) {t : Nat} (ht : t ∈ D.transactions) (m : Nat) :
    CoreModel.validateTerm D E v t m =
      (!((toAbs D).body m).hasValidate || validTerm (toAbs D) (toVal D v) t m) := by
  rw [toAbs_hasValidate]
  unfold CoreModel.validateTerm
  cases hv : D.validate m with
  | none => simp
  | some p =>
    have hp := C.pairs_eq v ht m
    have hpred : ∀ x, (toVal D v).pred m x = p.eval x := by intro x; simp [toVal, hv]
    simp only [Option.isSome_some, Bool.not_true, Bool.false_or]
    unfold validTerm
    rw [toAbs_nonexcl]
    cases hne : D.nonexclusive m with
    | true =>
      simp only [if_true]
      have e1 : ((E.mm.infoFor t m).all fun c => !CoreModel.chainEn v c || p.eval (v.arg c.argSite)) =
          (((E.mm.infoFor t m).map (fun c => (CoreModel.chainEn v c, v.arg c.argSite))).all
            fun q => !q.1 || p.eval q.2) := by rw [List.all_map]; rfl
      have e2 : ((info (toAbs D) t m).all fun ch => !chainEn (toVal D v) ch || (toVal D v).pred m (argOf (toVal D v) ch)) =
          (((info (toAbs D) t m).map (fun ch => (chainEn (toVal D v) ch, argOf (toVal D v) ch))).all
            fun q => !q.1 || p.eval q.2) := by
        rw [List.all_map]; simp only [Function.comp_def, hpred]
      rw [e1, e2, hp]
    | false =>
      simp only [Bool.false_eq_true, if_false]
      have e1 : ((E.mm.infoFor t m).any (CoreModel.chainEn v)) =
          (((E.mm.infoFor t m).map (fun c => (CoreModel.chainEn v c, v.arg c.argSite))).any fun q => q.1) := by
        rw [List.any_map]; rfl
      have e2 : ((info (toAbs D) t m).any (chainEn (toVal D v))) =
          (((info (toAbs D) t m).map (fun ch => (chainEn (toVal D v) ch, argOf (toVal D v) ch))).any fun q => q.1) := by
        rw [List.any_map]; rfl
      rw [e1, e2, hp, oneHotMux_agree, hpred]

theorem Ctx.mem_methodsOf {t m : Nat} (ht : t ∈ D.transactions) :
    m ∈ E.mm.methodsOf t ↔ Reaches (toAbs D) t m := by
  rw [C.mm]
  exact ⟨methodsOf_reaches D ht, reaches_methodsOf D C.bounded ht⟩

theorem Ctx.mem_readyDeps {d b : Nat} : d ∈ CoreModel.readyDeps D b ↔ ReadyDep (toAbs D) d b := by
  unfold CoreModel.readyDeps ReadyDep
  rw [toAbs_n, toAbs_rels]
  simp only [List.mem_filter, List.any_eq_true, Bool.and_eq_true, beq_iff_eq, List.mem_map]
  constructor
  · rintro ⟨hd, r, hr, h1, h2⟩
    exact ⟨C.lt d hd, cvtRel r, ⟨r, hr, rfl⟩, h1, h2⟩
  · rintro ⟨hd, _, ⟨r, hr, rfl⟩, h1, h2⟩
    exact ⟨C.all d hd, r, hr, h1, h2⟩

/-- manager.py:539–548 is the declarative `Runnable`, for every assignment of the transaction bits -/
theorem Ctx.runnable_iff (v : CoreModel.Val) (run : Nat → Bool) {t : Nat} (ht : t ∈ D.transactions) :
    CoreModel.runnable D E v run t = true ↔ Runnable (toAbs D) (toVal D v) (runAll E v run) t := by
  unfold CoreModel.runnable Runnable MethodMap.readyFor
  simp only [Bool.and_eq_true, List.all_eq_true, List.mem_cons]
  constructor
  · rintro ⟨h1, h2⟩
    constructor
    · intro b hb
      have hb' : b = t ∨ b ∈ E.mm.methodsOf t := hb.elim Or.inl (fun h => Or.inr ((C.mem_methodsOf ht).2 h))
      obtain ⟨r1, r2⟩ := h1 b hb'
      exact ⟨r1, fun d hd => r2 d (C.mem_readyDeps.2 hd)⟩
    · intro m hm hv
      have := h2 m ((C.mem_methodsOf ht).2 hm)
      rw [C.validateTerm_eq v ht m, hv] at this
      simpa using this
  · rintro ⟨h1, h2⟩
    constructor
    · intro b hb
      have hb' : b = t ∨ Reaches (toAbs D) t b := hb.elim Or.inl (fun h => Or.inr ((C.mem_methodsOf ht).1 h))
      obtain ⟨r1, r2⟩ := h1 b hb'
      exact ⟨r1, fun d hd => r2 d (C.mem_readyDeps.1 hd)⟩
    · intro m hm
      rw [C.validateTerm_eq v ht m]
      cases hv : ((toAbs D).body m).hasValidate with
      | false => rfl
      | true => simpa using h2 m ((C.mem_methodsOf ht).1 hm) hv

end
end TxV.Core.Bridge
