import TxV.Core.BridgeRunnable
/-!
# Bridge, part 10: `evalEager` solves the eager scheduler equations

`evalEager D E v order` (Model/Sched.lean) processes `order` front to back and grants a transaction
when it is ready, runnable *with respect to the grants made so far*, and no granted neighbour exists.
`evalEager_eager`: for an accepted design, a valid order and `ReadyDepLeft` (every ready-dependent
relation is a `schedule_before`: priority LEFT, no conflict — transaction_base.py:72–92 creates no
other), the computed assignment satisfies the declarative `Eager` equations, because everything
`runnable t` reads was decided before `t`.
-/
namespace TxV.Core.Bridge
open TxV
open TxV.CoreModel (Graphs MethodMap Elab)

/-- every ready-dependent relation was created by `schedule_before(…, ready_dependent=True)`
(transaction_base.py:72: `priority=LEFT, conflict=False`); nesting (body.py:94) uses the same call -/
def ReadyDepLeft (A : Design) : Prop :=
  ∀ d, d < A.n → ∀ r ∈ (A.body d).rels, r.readyDep = true → r.prio = .left ∧ r.conflict = false

instance (A : Design) : Decidable (ReadyDepLeft A) := by
  unfold ReadyDepLeft; exact Nat.decidableBallLT _ _

/-- executable form for the driver (static, once per design) -/
def readyDepLeftOk (D : CoreModel.Design) : Bool := decide (ReadyDepLeft (toAbs D))

/-! ## lists -/

theorem subset_of_nodup_subset_length : ∀ (l1 l2 : List Nat), l1.Nodup → (∀ x ∈ l1, x ∈ l2) →
    l2.length ≤ l1.length → ∀ y ∈ l2, y ∈ l1
  | [], l2, _, _, hl, y, hy => by
    cases l2 with
    | nil => simp at hy
    | cons a l => simp at hl
  | a :: l1, l2, hn, hs, hl, y, hy => by
    have ha : a ∈ l2 := hs a (List.mem_cons_self ..)
    rw [List.nodup_cons] at hn
    have hl' : (l2.erase a).length ≤ l1.length := by
      rw [List.length_erase_of_mem ha]; simp only [List.length_cons] at hl; omega
    have hs' : ∀ x ∈ l1, x ∈ l2.erase a := by
      intro x hx
      have hne : x ≠ a := fun h => hn.1 (h ▸ hx)
      exact (List.mem_erase_of_ne hne).2 (hs x (List.mem_cons_of_mem _ hx))
    have ih := subset_of_nodup_subset_length l1 (l2.erase a) hn.2 hs' hl'
    by_cases hya : y = a
    · rw [hya]; exact List.mem_cons_self ..
    · exact List.mem_cons_of_mem _ (ih y ((List.mem_erase_of_ne hya).2 hy))

theorem validOrder_perm {before : List (Nat × Nat)} {transactions order : List Nat}
    (hnd : transactions.Nodup) (h : CoreModel.validOrder before transactions order = true) :
    order.Nodup ∧ ∀ x, x ∈ order ↔ x ∈ transactions := by
  have h' := h
  simp only [CoreModel.validOrder, Bool.and_eq_true, List.all_eq_true, List.contains_eq_mem,
    decide_eq_true_eq, beq_iff_eq] at h'
  obtain ⟨⟨⟨h1, h2⟩, h3⟩, _⟩ := h'
  refine ⟨h1, fun x => ⟨?_, h3 x⟩⟩
  exact subset_of_nodup_subset_length transactions order hnd h3 (by omega) x

theorem idxOf_pre {pre suf : List Nat} {t x : Nat} (ht : t ∉ pre) :
    List.idxOf x (pre ++ t :: suf) < List.idxOf t (pre ++ t :: suf) ↔ x ∈ pre := by
  rw [List.idxOf_append, List.idxOf_append]
  simp only [ht, if_false, List.idxOf_cons_self, Nat.zero_add]
  by_cases hx : x ∈ pre
  · simp [hx, List.idxOf_lt_length_of_mem hx]
  · simp [hx]

/-! ## the fold -/

section
variable (D : CoreModel.Design) (E : Elab) (v : CoreModel.Val)

theorem eagerStep_mem {ran : List Nat} {t x : Nat} :
    x ∈ CoreModel.eagerStep D E v ran t ↔ x ∈ ran ∨
      (x = t ∧ (v.ready t && CoreModel.runnable D E v (fun y => ran.contains y) t &&
        !(ran.any fun t' => E.g.adj t t')) = true) := by
  unfold CoreModel.eagerStep
  simp only
  split
  · rename_i hc
    simp only [List.mem_cons]
    constructor
    · rintro (h | h)
      · exact Or.inr ⟨h, hc⟩
      · exact Or.inl h
    · rintro (h | ⟨h, _⟩)
      · exact Or.inr h
      · exact Or.inl h
  · rename_i hc
    constructor
    · exact Or.inl
    · rintro (h | ⟨_, h⟩)
      · exact h
      · exact absurd h hc

theorem fold_mono : ∀ (l : List Nat) (ran : List Nat) (x : Nat), x ∈ ran →
    x ∈ l.foldl (CoreModel.eagerStep D E v) ran
  | [], _, _, h => h
  | _ :: l, _, x, h => fold_mono l _ x ((eagerStep_mem D E v).2 (Or.inl h))

theorem fold_sub : ∀ (l : List Nat) (ran : List Nat) (x : Nat),
    x ∈ l.foldl (CoreModel.eagerStep D E v) ran → x ∈ ran ∨ x ∈ l
  | [], _, _, h => Or.inl h
  | a :: l, ran, x, h => by
    rcases fold_sub l _ x h with h | h
    · rcases (eagerStep_mem D E v).1 h with h | ⟨h, _⟩
      · exact Or.inl h
      · exact Or.inr (h ▸ List.mem_cons_self ..)
    · exact Or.inr (List.mem_cons_of_mem _ h)

/-- the grant decision for the transaction at position `pre.length` of a duplicate-free order -/
theorem evalEager_at {pre suf : List Nat} {t : Nat} (hnd : (pre ++ t :: suf).Nodup) :
    let R := pre.foldl (CoreModel.eagerStep D E v) []
    let F := CoreModel.evalEagerList D E v (pre ++ t :: suf)
    (∀ x, x ∈ R → x ∈ pre) ∧ (∀ x, x ∈ pre → (x ∈ F ↔ x ∈ R)) ∧
    (t ∈ F ↔ (v.ready t && CoreModel.runnable D E v (fun y => R.contains y) t &&
        !(R.any fun t' => E.g.adj t t')) = true) := by
  intro R F
  have hF : F = suf.foldl (CoreModel.eagerStep D E v) (CoreModel.eagerStep D E v R t) := by
    simp only [F, R, CoreModel.evalEagerList, List.foldl_append, List.foldl_cons]
  rw [List.nodup_append] at hnd
  obtain ⟨_, hn2, hn3⟩ := hnd
  rw [List.nodup_cons] at hn2
  have hRpre : ∀ x, x ∈ R → x ∈ pre := by
    intro x hx
    rcases fold_sub D E v pre [] x hx with h | h
    · simp at h
    · exact h
  have htpre : t ∉ pre := fun h => hn3 t h t (List.mem_cons_self ..) rfl
  refine ⟨hRpre, ?_, ?_⟩
  · intro x hx
    rw [hF]
    constructor
    · intro h
      rcases fold_sub D E v suf _ x h with h | h
      · rcases (eagerStep_mem D E v).1 h with h | ⟨h, _⟩
        · exact h
        · exact absurd (h ▸ hx) htpre
      · exact absurd rfl (hn3 x hx x (List.mem_cons_of_mem _ h))
    · intro h
      exact fold_mono D E v suf _ x ((eagerStep_mem D E v).2 (Or.inl h))
  · rw [hF]
    constructor
    · intro h
      rcases fold_sub D E v suf _ t h with h | h
      · rcases (eagerStep_mem D E v).1 h with h | ⟨_, h⟩
        · exact absurd (hRpre t h) htpre
        · exact h
      · exact absurd h hn2.1
    · intro h
      exact fold_mono D E v suf _ t ((eagerStep_mem D E v).2 (Or.inr ⟨rfl, h⟩))

end

/-! ## what `runnable t` reads -/

/-- `t'` is a transaction whose run bit `runnable t` may read: it belongs to a ready-dependency
source of `t` or of a method `t` reaches -/
def DepTrans (A : Design) (t' t : Nat) : Prop :=
  ∃ b d, (b = t ∨ Reaches A t b) ∧ ReadyDep A d b ∧ TransFor A t' d

theorem depTrans_before {A : Design} {S : Sched} (hwf : A.WF) (hl : ReadyDepLeft A) (ho : ValidOrder A S)
    {t' t : Nat} (ht : A.isTrans t = true) (h : DepTrans A t' t) : S.ord t' < S.ord t := by
  obtain ⟨b, d, hb, ⟨hd, r, hr, hrd, hdst⟩, htd⟩ := h
  obtain ⟨hp, hc⟩ := hl d hd r hr hrd
  have hbn : b < A.n := by
    rcases hb with rfl | hb
    · exact A.isTrans_lt ht
    · exact (Reaches.lt hwf hb).1
  have htb : TransFor A t b := ⟨ht, hb.elim (fun h => Or.inl h.symm) Or.inr⟩
  have hnc : ¬ (r.conflict = true ∧ t' = t) := by
    intro h; rw [hc] at h; cases h.1
  exact ho t' t ⟨d, b, r, hd, hbn, hr, hdst, t', t, htd, htb, hnc, Or.inl ⟨hp, rfl, rfl⟩⟩

section
variable {D : CoreModel.Design} {E : Elab} (C : Ctx D E)
include C

/-- `runnable t` depends on the assignment only through the transactions of `DepTrans · t` -/
theorem Ctx.runnable_congr (v : CoreModel.Val) {run1 run2 : Nat → Bool} {t : Nat} (ht : t ∈ D.transactions)
    (h : ∀ t', DepTrans (toAbs D) t' t → run1 t' = run2 t') :
    CoreModel.runnable D E v run1 t = CoreModel.runnable D E v run2 t := by
  have key : ∀ (ra rb : Nat → Bool), (∀ t', DepTrans (toAbs D) t' t → ra t' = rb t') →
      Runnable (toAbs D) (toVal D v) (runAll E v ra) t → Runnable (toAbs D) (toVal D v) (runAll E v rb) t := by
    intro ra rb hab ⟨h1, h2⟩
    refine ⟨fun b hb => ⟨(h1 b hb).1, fun d hd => ?_⟩, h2⟩
    have hrd := (h1 b hb).2 d hd
    by_cases hdt : (toAbs D).isTrans d = true
    · have hdT := C.memT d hdt
      rw [C.runAll_trans v ra hdT] at hrd
      rw [C.runAll_trans v rb hdT, ← hab d ⟨b, d, hb, hd, hdt, Or.inl rfl⟩]
      exact hrd
    · have hdt' : (toAbs D).isTrans d = false := by simpa using hdt
      obtain ⟨t', ch, h1', h2', h3', h4', h5'⟩ := (C.methodRunEq v ra d hd.1 hdt').1 hrd
      refine (C.methodRunEq v rb d hd.1 hdt').2 ⟨t', ch, h1', ?_, h3', h4', h5'⟩
      have ht' := C.memT t' h1'
      rw [C.runAll_trans v ra ht'] at h2'
      rw [C.runAll_trans v rb ht', ← hab t' ⟨b, d, hb, hd, h1', Or.inr ⟨ch, h3', h4'⟩⟩]
      exact h2'
  have hiff : CoreModel.runnable D E v run1 t = true ↔ CoreModel.runnable D E v run2 t = true := by
    rw [C.runnable_iff v run1 ht, C.runnable_iff v run2 ht]
    exact ⟨key run1 run2 h, key run2 run1 (fun t' ht' => (h t' ht').symm)⟩
  cases h1 : CoreModel.runnable D E v run1 t <;> cases h2 : CoreModel.runnable D E v run2 t <;> simp_all

end

/-- **`evalEager` is a consistent assignment**: for an accepted design, an order passing the
executable check and `ReadyDepLeft`, the run bits computed by the executable model satisfy the
eager scheduler equations and the method-run equations of the theory -/
theorem evalEager_eager {D : CoreModel.Design} {E : Elab} (h : CoreModel.elaborate D = .ok E)
    {order : List Nat} (ho : CoreModel.validOrder E.g.before D.transactions order = true)
    (hl : ReadyDepLeft (toAbs D)) (v : CoreModel.Val) :
    Eager (toAbs D) (toVal D v) (toSched E order) (runAll E v (CoreModel.evalEager D E v order)) ∧
    MethodRunEq (toAbs D) (toVal D v) (runAll E v (CoreModel.evalEager D E v order)) := by
  have C := ctx_of_elaborate h
  obtain ⟨hA, hVO, _⟩ := elaborate_static h ho
  obtain ⟨hnd, hperm⟩ := validOrder_perm C.ndT ho
  refine ⟨?_, C.methodRunEq v _⟩
  intro t ht
  have htT := C.memT t ht
  have hto : t ∈ order := (hperm t).2 htT
  obtain ⟨pre, suf, hsplit⟩ := List.append_of_mem hto
  rw [C.runAll_trans v _ htT]
  have hnd' := hnd
  rw [hsplit] at hnd'
  obtain ⟨hR, hFR, hcond⟩ := evalEager_at D E v hnd'
  have htpre : t ∉ pre := by
    rw [List.nodup_append] at hnd'
    exact fun h => hnd'.2.2 t h t (List.mem_cons_self ..) rfl
  -- the final assignment
  have hrun : ∀ x, CoreModel.evalEager D E v order x = (CoreModel.evalEagerList D E v (pre ++ t :: suf)).contains x := by
    intro x; unfold CoreModel.evalEager; rw [hsplit]
  have hord : ∀ x, (toSched E order).ord x < (toSched E order).ord t ↔ x ∈ pre := by
    intro x; simp only [toSched, ordOf]; rw [hsplit]; exact idxOf_pre htpre
  -- `runnable` with the grants so far = `runnable` with the final grants
  have hrc : CoreModel.runnable D E v (fun y => (pre.foldl (CoreModel.eagerStep D E v) []).contains y) t =
      CoreModel.runnable D E v (CoreModel.evalEager D E v order) t := by
    apply C.runnable_congr v htT
    intro t' hdep
    have hlt := depTrans_before hA.wf hl hVO ht hdep
    have hp : t' ∈ pre := (hord t').1 hlt
    rw [hrun]
    have := hFR t' hp
    cases h1 : (pre.foldl (CoreModel.eagerStep D E v) []).contains t' <;>
      cases h2 : (CoreModel.evalEagerList D E v (pre ++ t :: suf)).contains t' <;>
      simp_all
  rw [hrun]
  simp only [List.contains_eq_mem, decide_eq_true_eq]
  rw [hcond, hrc]
  simp only [Bool.and_eq_true, Bool.not_eq_true', List.any_eq_false]
  rw [C.runnable_iff v _ htT]
  constructor
  · rintro ⟨⟨h1, h2⟩, h3⟩
    refine ⟨h1, h2, ?_⟩
    intro t' ht' hlt hadj
    have hp := (hord t').1 hlt
    rw [C.runAll_trans v _ (C.memT t' ht'), hrun]
    cases hc : (CoreModel.evalEagerList D E v (pre ++ t :: suf)).contains t' with
    | false => rfl
    | true =>
      have hin : t' ∈ pre.foldl (CoreModel.eagerStep D E v) [] := (hFR t' hp).1 (by simpa using hc)
      have := h3 t' hin
      simp only [toSched] at hadj
      rw [hadj] at this; exact absurd this (by simp)
  · rintro ⟨h1, h2, h3⟩
    refine ⟨⟨h1, h2⟩, ?_⟩
    intro t' hin
    have hp := hR t' hin
    have ht'o : t' ∈ order := by rw [hsplit]; exact List.mem_append_left _ hp
    have ht'T := (hperm t').1 ht'o
    have ht't : (toAbs D).isTrans t' = true := by rw [toAbs_isTrans]; exact C.tr t' ht'T
    cases hadj : E.g.adj t t' with
    | false => simp
    | true =>
      have := h3 t' ht't ((hord t').2 hp) hadj
      rw [C.runAll_trans v _ ht'T, hrun] at this
      have hF : t' ∈ CoreModel.evalEagerList D E v (pre ++ t :: suf) := (hFR t' hp).2 hin
      simp [hF] at this

end TxV.Core.Bridge
