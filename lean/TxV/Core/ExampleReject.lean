import TxV.Core.Accept
/-!
# One-defect designs rejected by the validator (non-vacuity of the C11 rejection theorems)
-/
namespace TxV.Core.Rej

def p0 : CtrlPath := ⟨0, []⟩
def e (l : List (Nat × Nat)) : CtrlPath := ⟨0, l.map fun x => ⟨x.1, x.2⟩⟩

/-- `T` calls exclusive `M` twice on the same path -/
def doubleCall : Design := ⟨[
  ⟨true, p0, false, false, false, [⟨1, e [(0,0)], 0⟩, ⟨1, e [(0,0)], 1⟩], []⟩,
  ⟨false, p0, false, false, false, [], []⟩]⟩
theorem doubleCall_rejected : accept doubleCall (fun t => t) = false := by decide

/-- `M1 → M2 → M1` -/
def selfCall : Design := ⟨[
  ⟨true, p0, false, false, false, [⟨1, e [(0,0)], 0⟩], []⟩,
  ⟨false, p0, false, false, false, [⟨2, e [(0,1)], 1⟩], []⟩,
  ⟨false, p0, false, false, false, [⟨1, e [(0,2)], 2⟩], []⟩]⟩
theorem selfCall_rejected : accept selfCall (fun t => t) = false := by decide

/-- `T0.add_conflict(T1, LEFT)`, `T1.add_conflict(T0, LEFT)` -/
def prioCycle : Design := ⟨[
  ⟨true, p0, false, false, false, [], [⟨1, .left, true, false⟩]⟩,
  ⟨true, p0, false, false, false, [], [⟨0, .left, true, false⟩]⟩]⟩
theorem prioCycle_rejected :
    accept prioCycle (fun t => t) = false ∧ accept prioCycle (fun t => 1 - t) = false := by decide

/-- `single_caller` method called from two transactions -/
def singleCaller : Design := ⟨[
  ⟨true, p0, false, false, false, [⟨2, e [(0,0)], 0⟩], []⟩,
  ⟨true, p0, false, false, false, [⟨2, e [(0,1)], 1⟩], []⟩,
  ⟨false, p0, true, true, false, [], []⟩]⟩
theorem singleCaller_rejected : accept singleCaller (fun t => t) = false := by decide

/-- `T0.schedule_before(T1, ready_dependent=True)` and `T0.add_conflict(T1)` -/
def readyDepConflict : Design := ⟨[
  ⟨true, p0, false, false, false, [], [⟨1, .left, false, true⟩, ⟨1, .undef, true, false⟩]⟩,
  ⟨true, p0, false, false, false, [], []⟩]⟩
theorem readyDepConflict_rejected : accept readyDepConflict (fun t => t) = false := by decide

/-- `T` calls `M1` and `M2` unconditionally, `M1.add_conflict(M2)` (finding F1 of the design round,
now rejected by `_conflict_graph`) -/
def sameTransConflict : Design := ⟨[
  ⟨true, p0, false, false, false, [⟨1, e [(0,0)], 0⟩, ⟨2, e [(0,0)], 1⟩], []⟩,
  ⟨false, p0, false, false, false, [], [⟨2, .undef, true, false⟩]⟩,
  ⟨false, p0, false, false, false, [], []⟩]⟩
theorem sameTransConflict_rejected : accept sameTransConflict (fun t => t) = false := by decide

/-- the same with the two calls in the alternatives of an `If/Else`: accepted -/
def sameTransExclusive : Design := ⟨[
  ⟨true, p0, false, false, false, [⟨1, e [(0,0),(0,0)], 0⟩, ⟨2, e [(0,0),(1,0)], 1⟩], []⟩,
  ⟨false, p0, false, false, false, [], [⟨2, .undef, true, false⟩]⟩,
  ⟨false, p0, false, false, false, [], []⟩]⟩
theorem sameTransExclusive_accepted : accept sameTransExclusive (fun t => t) = true := by decide

end TxV.Core.Rej
