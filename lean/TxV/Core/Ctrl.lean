/-!
# Core theory: control trees, control paths, exclusivity (tmodule.py)

Declarative model used by the core theorems (C01, C07, C11).  A module body as `TModule`
records it is a block: a sequence of *sites* (call sites, body definitions) and control
*structures*; a structure has a kind (`If/Elif/Else` chain, `Switch`, `FSM`, `AvoidedIf`)
and a list of alternative blocks.  `sitesBlk` assigns to every site its positional control
path (tmodule.py:162 `CtrlPathBuilder.enter`: the k-th structure of a block gets `par = k`;
alternative `a` gets `alt = a + altOffset`) and its activity under a condition valuation
(Amaranth semantics: all enclosing alternatives are taken, an alternative of an If-chain
is taken iff its condition holds and no earlier one does).

Main results: `exclusive_sound` (exclusive paths are never simultaneously active),
`exclusive_complete` (sites in different alternatives of one structure get exclusive
paths), `exclusiveWith_module` (paths of different modules are never exclusive).
-/
namespace TxV.Core

/-- tmodule.py:63 `PathEdge` -/
structure Edge where
  alt : Nat
  par : Nat
deriving DecidableEq, Repr

/-- tmodule.py:80 `CtrlPath` -/
structure CtrlPath where
  module : Int
  path : List Edge
deriving DecidableEq, Repr

/-- tmodule.py:118 `CtrlPath.exclusive_with`, on the edge lists: walk the common prefix; at the
first difference the paths are exclusive iff the `par` components agree; a path is never
exclusive with its own prefix. -/
def exclEdges : List Edge → List Edge → Bool
  | a :: as, b :: bs => if a = b then exclEdges as bs else (a.par == b.par)
  | _, _ => false

/-- tmodule.py:118–142 -/
def CtrlPath.exclusiveWith (p q : CtrlPath) : Bool :=
  p.module == q.module && exclEdges p.path q.path

/-- semantic kind of a control structure -/
inductive Kind where
  /-- `If/Elif…/Else`: alternative `a < conds.length` is guarded by condition `conds[a]`; `a = conds.length` is `Else` -/
  | ifc (conds : List Nat)
  /-- `Switch(sel)`: alternative `a` is taken iff the first matching case is `a` (`v.sel sel = a`) -/
  | sw (sel : Nat)
  /-- `FSM`: alternative `a` (the a-th `State`) is taken iff the state register selects it -/
  | fsm (st : Nat)
  /-- `AvoidedIf(run)`: single alternative, taken iff `run`; ignored by `av_comb` -/
  | avoid (run : Nat)
deriving Repr

mutual
inductive Blk where
  | nil
  | site (s : Nat) (rest : Blk)
  | struct (k : Kind) (alts : Alts) (rest : Blk)
inductive Alts where
  | nil
  | cons (b : Blk) (rest : Alts)
end

/-- valuation of the condition inputs of one cycle -/
structure CVal where
  cond : Nat → Bool
  sel : Nat → Nat
  state : Nat → Nat
  run : Nat → Bool

/-- `PUSH` creates edge `alt = 0`; `ADD` (Elif/Else) increments from the previous edge, so If-chains
number their alternatives from 0; `ENTRY` (Case/Default/State) increments the pushed edge, so
Switch/FSM alternatives are numbered from 1 (tmodule.py:162–182). -/
def altOffset : Kind → Nat
  | .ifc _ => 0
  | .sw _ => 1
  | .fsm _ => 1
  | .avoid _ => 0

/-- is alternative number `a` (0-based position) of a structure of kind `k` taken?
`av = true` is the `av_comb` view (AvoidedIf ignored). -/
def altTaken (v : CVal) (av : Bool) : Kind → Nat → Bool
  | .ifc conds, a =>
      (List.range a).all (fun j => !(v.cond (conds.getD j 0))) &&
      (if a < conds.length then v.cond (conds.getD a 0) else a == conds.length)
  | .sw sel, a => v.sel sel == a
  | .fsm st, a => v.state st == a
  | .avoid run, a => a == 0 && (av || v.run run)

structure SiteInfo where
  id : Nat
  path : List Edge
  act : Bool
deriving Repr, DecidableEq

mutual
def sitesBlk (v : CVal) (av : Bool) (pre : List Edge) (act : Bool) (par : Nat) : Blk → List SiteInfo
  | .nil => []
  | .site s rest => ⟨s, pre, act⟩ :: sitesBlk v av pre act par rest
  | .struct k alts rest => sitesAlts v av pre act par k 0 alts ++ sitesBlk v av pre act (par+1) rest
def sitesAlts (v : CVal) (av : Bool) (pre : List Edge) (act : Bool) (par : Nat) (k : Kind) (a : Nat) : Alts → List SiteInfo
  | .nil => []
  | .cons b rest => sitesBlk v av (pre ++ [⟨a + altOffset k, par⟩]) (act && altTaken v av k a) 0 b
                    ++ sitesAlts v av pre act par k (a+1) rest
end

/-! ## basic facts about `exclEdges` -/

theorem altTaken_excl (v : CVal) (av : Bool) (k : Kind) (a a' : Nat) (h : a < a')
    (h1 : altTaken v av k a = true) (h2 : altTaken v av k a' = true) : False := by
  cases k with
  | ifc conds =>
    simp only [altTaken, Bool.and_eq_true, List.all_eq_true, List.mem_range] at h1 h2
    have hc := h2.1 a h
    by_cases hl : a < conds.length
    · simp [hl] at h1 hc; rw [h1.2] at hc; cases hc
    · simp [hl] at h1
      have : a' ≤ conds.length := by
        by_cases hl' : a' < conds.length
        · omega
        · have := h2.2; simp [hl'] at this; omega
      omega
  | sw sel => simp [altTaken] at h1 h2; omega
  | fsm st => simp [altTaken] at h1 h2; omega
  | avoid run => simp [altTaken] at h1 h2; omega

theorem exclEdges_append (pre x y : List Edge) :
    exclEdges (pre ++ x) (pre ++ y) = exclEdges x y := by
  induction pre with
  | nil => rfl
  | cons e pre ih => simp [exclEdges, ih]

theorem exclEdges_nil_left (y : List Edge) : exclEdges [] y = false := by
  cases y <;> rfl
theorem exclEdges_nil_right (x : List Edge) : exclEdges x [] = false := by
  cases x <;> rfl

theorem exclEdges_comm (x y : List Edge) : exclEdges x y = exclEdges y x := by
  induction x generalizing y with
  | nil => simp [exclEdges_nil_left, exclEdges_nil_right]
  | cons a as ih =>
    cases y with
    | nil => rfl
    | cons b bs =>
      simp only [exclEdges]
      by_cases h : a = b
      · subst h; simp [ih]
      · have h' : ¬ b = a := fun h' => h h'.symm
        simp only [h, h', if_false]; exact Bool.beq_comm

theorem exclEdges_self (x : List Edge) : exclEdges x x = false := by
  induction x with
  | nil => rfl
  | cons a as ih => simp [exclEdges, ih]

/-- a path is never exclusive with one of its extensions -/
theorem exclEdges_prefix (x y : List Edge) : exclEdges x (x ++ y) = false := by
  have := exclEdges_append x [] y
  simpa [exclEdges_nil_left] using this

/-- two paths that diverge right after a common prefix on edges with the same `par` and
different `alt` are exclusive -/
theorem exclEdges_diverge (pre : List Edge) (par a b : Nat) (t1 t2 : List Edge) (h : a ≠ b) :
    exclEdges (pre ++ ⟨a, par⟩ :: t1) (pre ++ ⟨b, par⟩ :: t2) = true := by
  rw [exclEdges_append]
  simp [exclEdges, h]

theorem CtrlPath.exclusiveWith_comm (p q : CtrlPath) : p.exclusiveWith q = q.exclusiveWith p := by
  unfold CtrlPath.exclusiveWith
  rw [exclEdges_comm, Bool.beq_comm]

theorem CtrlPath.exclusiveWith_self (p : CtrlPath) : p.exclusiveWith p = false := by
  simp [CtrlPath.exclusiveWith, exclEdges_self]

/-- paths in different modules are never exclusive (tmodule.py:139) -/
theorem exclusiveWith_module (p q : CtrlPath) (h : p.module ≠ q.module) : p.exclusiveWith q = false := by
  simp [CtrlPath.exclusiveWith, h]

/-! ## shape of the recorded paths -/

/-- shape of entries: path = pre ++ tail, tail is [] or starts with an edge of par ≥ `par`; act implies outer act -/
def Shape (pre : List Edge) (act : Bool) (par : Nat) (e : SiteInfo) : Prop :=
  (e.act = true → act = true) ∧ ∃ tl, e.path = pre ++ tl ∧ ∀ ed rest, tl = ed :: rest → par ≤ ed.par

def ShapeA (v : CVal) (av : Bool) (pre : List Edge) (act : Bool) (par : Nat) (k : Kind) (a : Nat) (e : SiteInfo) : Prop :=
  ∃ a' tl, a ≤ a' ∧ e.path = pre ++ ⟨a' + altOffset k, par⟩ :: tl ∧ (e.act = true → act = true ∧ altTaken v av k a' = true)

mutual
theorem shape_blk (v : CVal) (av : Bool) (pre : List Edge) (act : Bool) (par : Nat) :
    ∀ (b : Blk) (e : SiteInfo), e ∈ sitesBlk v av pre act par b → Shape pre act par e
  | .nil, e, h => by simp [sitesBlk] at h
  | .site s rest, e, h => by
    simp only [sitesBlk, List.mem_cons] at h
    rcases h with h | h
    · subst h; exact ⟨fun h => h, [], by simp, by intro ed rest h; cases h⟩
    · exact shape_blk v av pre act par rest e h
  | .struct k alts rest, e, h => by
    simp only [sitesBlk, List.mem_append] at h
    rcases h with h | h
    · obtain ⟨a', tl, _, hp, ha⟩ := shape_alts v av pre act par k 0 alts e h
      refine ⟨fun h => (ha h).1, _ :: tl, hp, ?_⟩
      intro ed rest heq; cases heq; simp
    · obtain ⟨ha, tl, hp, hpar⟩ := shape_blk v av pre act (par+1) rest e h
      exact ⟨ha, tl, hp, fun ed rest heq => by have := hpar ed rest heq; omega⟩
theorem shape_alts (v : CVal) (av : Bool) (pre : List Edge) (act : Bool) (par : Nat) (k : Kind) (a : Nat) :
    ∀ (al : Alts) (e : SiteInfo), e ∈ sitesAlts v av pre act par k a al → ShapeA v av pre act par k a e
  | .nil, e, h => by simp [sitesAlts] at h
  | .cons b rest, e, h => by
    simp only [sitesAlts, List.mem_append] at h
    rcases h with h | h
    · obtain ⟨ha, tl, hp, _⟩ := shape_blk v av (pre ++ [⟨a + altOffset k, par⟩]) (act && altTaken v av k a) 0 b e h
      refine ⟨a, tl, Nat.le_refl _, by simp [hp], ?_⟩
      intro he; have := ha he; simpa [Bool.and_eq_true] using this
    · obtain ⟨a', tl, hle, hp, ha⟩ := shape_alts v av pre act par k (a+1) rest e h
      exact ⟨a', tl, by omega, hp, ha⟩
end

/-! ## soundness -/

def Sound (l : List SiteInfo) : Prop :=
  ∀ e1 ∈ l, ∀ e2 ∈ l, exclEdges e1.path e2.path = true → ¬ (e1.act = true ∧ e2.act = true)

/-- an entry shaped for block-level `par+1…` / or plain, versus an alt entry at `par`: never exclusive -/
theorem excl_alt_vs_rest (pre : List Edge) (par a : Nat) (tl tl' : List Edge)
    (h : ∀ ed rest, tl' = ed :: rest → par + 1 ≤ ed.par) :
    exclEdges (pre ++ ⟨a, par⟩ :: tl) (pre ++ tl') = false := by
  rw [exclEdges_append]
  cases tl' with
  | nil => rfl
  | cons ed rest =>
    have := h ed rest rfl
    simp only [exclEdges]
    have hne : ¬ (⟨a, par⟩ : Edge) = ed := by intro h'; subst h'; simp at this; omega
    simp only [hne, if_false]
    simp; omega

mutual
theorem sound_blk (v : CVal) (av : Bool) (pre : List Edge) (act : Bool) (par : Nat) :
    ∀ (b : Blk), Sound (sitesBlk v av pre act par b)
  | .nil => by intro e1 h1; simp [sitesBlk] at h1
  | .site s rest => by
    intro e1 h1 e2 h2 hex
    simp only [sitesBlk, List.mem_cons] at h1 h2
    rcases h1 with h1 | h1
    · subst h1
      rcases h2 with h2 | h2
      · subst h2; simp [exclEdges_self] at hex
      · obtain ⟨_, tl, hp, _⟩ := shape_blk v av pre act par rest e2 h2
        simp [hp, exclEdges_prefix] at hex
    · rcases h2 with h2 | h2
      · subst h2
        obtain ⟨_, tl, hp, _⟩ := shape_blk v av pre act par rest e1 h1
        rw [exclEdges_comm] at hex
        simp [hp, exclEdges_prefix] at hex
      · exact sound_blk v av pre act par rest e1 h1 e2 h2 hex
  | .struct k alts rest => by
    intro e1 h1 e2 h2 hex
    simp only [sitesBlk, List.mem_append] at h1 h2
    rcases h1 with h1 | h1 <;> rcases h2 with h2 | h2
    · exact sound_alts v av pre act par k 0 alts e1 h1 e2 h2 hex
    · obtain ⟨a', tl, _, hp, _⟩ := shape_alts v av pre act par k 0 alts e1 h1
      obtain ⟨_, tl', hp', hpar⟩ := shape_blk v av pre act (par+1) rest e2 h2
      rw [hp, hp', excl_alt_vs_rest pre par _ tl tl' hpar] at hex; cases hex
    · obtain ⟨a', tl, _, hp, _⟩ := shape_alts v av pre act par k 0 alts e2 h2
      obtain ⟨_, tl', hp', hpar⟩ := shape_blk v av pre act (par+1) rest e1 h1
      rw [exclEdges_comm, hp, hp', excl_alt_vs_rest pre par _ tl tl' hpar] at hex; cases hex
    · exact sound_blk v av pre act (par+1) rest e1 h1 e2 h2 hex
theorem sound_alts (v : CVal) (av : Bool) (pre : List Edge) (act : Bool) (par : Nat) (k : Kind) (a : Nat) :
    ∀ (al : Alts), Sound (sitesAlts v av pre act par k a al)
  | .nil => by intro e1 h1; simp [sitesAlts] at h1
  | .cons b rest => by
    intro e1 h1 e2 h2 hex
    simp only [sitesAlts, List.mem_append] at h1 h2
    rcases h1 with h1 | h1 <;> rcases h2 with h2 | h2
    · exact sound_blk v av _ _ 0 b e1 h1 e2 h2 hex
    · obtain ⟨ha1, _, _, _⟩ := shape_blk v av (pre ++ [⟨a + altOffset k, par⟩]) (act && altTaken v av k a) 0 b e1 h1
      obtain ⟨a', _, hle, _, ha2⟩ := shape_alts v av pre act par k (a+1) rest e2 h2
      intro ⟨hA1, hA2⟩
      have t1 := ha1 hA1; simp [Bool.and_eq_true] at t1
      exact altTaken_excl v av k a a' (by omega) t1.2 (ha2 hA2).2
    · obtain ⟨ha1, _, _, _⟩ := shape_blk v av (pre ++ [⟨a + altOffset k, par⟩]) (act && altTaken v av k a) 0 b e2 h2
      obtain ⟨a', _, hle, _, ha2⟩ := shape_alts v av pre act par k (a+1) rest e1 h1
      intro ⟨hA1, hA2⟩
      have t1 := ha1 hA2; simp [Bool.and_eq_true] at t1
      exact altTaken_excl v av k a a' (by omega) t1.2 (ha2 hA1).2
    · exact sound_alts v av pre act par k (a+1) rest e1 h1 e2 h2 hex
end

/-- exclusivity analysis is sound inside one module: exclusive ctrl paths are never simultaneously
active (both in the `comb` view, `av = false`, and in the `av_comb` view, `av = true`). -/
theorem exclusive_sound_blk (v : CVal) (av : Bool) (b : Blk) : Sound (sitesBlk v av [] true 0 b) :=
  sound_blk v av [] true 0 b

/-! ## programs: several modules -/

structure MSite where
  id : Nat
  path : CtrlPath
  act : Bool
deriving Repr, DecidableEq

def sitesModule (v : CVal) (av : Bool) (m : Int × Blk) : List MSite :=
  (sitesBlk v av [] true 0 m.2).map (fun e => ⟨e.id, ⟨m.1, e.path⟩, e.act⟩)

/-- all sites of a program (a list of modules with their `TModule.uid`) -/
def sitesProg (v : CVal) (av : Bool) (mods : List (Int × Blk)) : List MSite :=
  mods.flatMap (sitesModule v av)

/-- **exclusive_sound**: for every program whose module ids are distinct, every valuation, in
both views: two sites whose control paths are `exclusive_with` each other are never both active. -/
theorem exclusive_sound (v : CVal) (av : Bool) (mods : List (Int × Blk))
    (hnd : (mods.map (·.1)).Nodup) :
    ∀ e1 ∈ sitesProg v av mods, ∀ e2 ∈ sitesProg v av mods,
      e1.path.exclusiveWith e2.path = true → ¬ (e1.act = true ∧ e2.act = true) := by
  intro e1 h1 e2 h2 hex
  simp only [sitesProg, List.mem_flatMap, sitesModule, List.mem_map] at h1 h2
  obtain ⟨m1, hm1, s1, hs1, rfl⟩ := h1
  obtain ⟨m2, hm2, s2, hs2, rfl⟩ := h2
  simp only [CtrlPath.exclusiveWith, Bool.and_eq_true, beq_iff_eq] at hex
  have hm : m1 = m2 := by
    have hp := List.pairwise_map.1 hnd
    rcases List.mem_iff_getElem.1 hm1 with ⟨i, hi, rfl⟩
    rcases List.mem_iff_getElem.1 hm2 with ⟨j, hj, rfl⟩
    by_cases hij : i = j
    · subst hij; rfl
    · exfalso
      rcases Nat.lt_or_gt_of_ne hij with hlt | hlt
      · exact (List.pairwise_iff_getElem.1 hp i j hi hj hlt) hex.1
      · exact (List.pairwise_iff_getElem.1 hp j i hj hi hlt) hex.1.symm
  subst hm
  exact exclusive_sound_blk v av m1.2 s1 hs1 s2 hs2 hex.2

/-! ## completeness: different alternatives of one structure ⇒ exclusive paths -/

def Alts.get? : Alts → Nat → Option Blk
  | .nil, _ => none
  | .cons b _, 0 => some b
  | .cons _ rest, i+1 => rest.get? i

/-- an occurrence of a control structure inside a tree, with the context `sitesBlk` evaluates it in -/
structure Occ where
  pre : List Edge
  act : Bool
  par : Nat
  k : Kind
  alts : Alts

mutual
def occsBlk (v : CVal) (av : Bool) (pre : List Edge) (act : Bool) (par : Nat) : Blk → List Occ
  | .nil => []
  | .site _ rest => occsBlk v av pre act par rest
  | .struct k alts rest =>
      ⟨pre, act, par, k, alts⟩ :: (occsAlts v av pre act par k 0 alts ++ occsBlk v av pre act (par+1) rest)
def occsAlts (v : CVal) (av : Bool) (pre : List Edge) (act : Bool) (par : Nat) (k : Kind) (a : Nat) : Alts → List Occ
  | .nil => []
  | .cons b rest => occsBlk v av (pre ++ [⟨a + altOffset k, par⟩]) (act && altTaken v av k a) 0 b
                    ++ occsAlts v av pre act par k (a+1) rest
end

/-- the sites of the `i`-th alternative of an occurrence -/
def Occ.sitesAlt (v : CVal) (av : Bool) (o : Occ) (i : Nat) (b : Blk) : List SiteInfo :=
  sitesBlk v av (o.pre ++ [⟨i + altOffset o.k, o.par⟩]) (o.act && altTaken v av o.k i) 0 b

theorem sitesAlts_of_get (v : CVal) (av : Bool) (pre : List Edge) (act : Bool) (par : Nat) (k : Kind) :
    ∀ (al : Alts) (a i : Nat) (b : Blk) (e : SiteInfo), al.get? i = some b →
      e ∈ sitesBlk v av (pre ++ [⟨a + i + altOffset k, par⟩]) (act && altTaken v av k (a + i)) 0 b →
      e ∈ sitesAlts v av pre act par k a al
  | .nil, _, _, _, _, h, _ => by simp [Alts.get?] at h
  | .cons b' rest, a, 0, b, e, h, he => by
    simp only [Alts.get?, Option.some.injEq] at h; subst h
    simp only [sitesAlts, List.mem_append]; left; simpa using he
  | .cons b' rest, a, i+1, b, e, h, he => by
    simp only [Alts.get?] at h
    simp only [sitesAlts, List.mem_append]; right
    apply sitesAlts_of_get v av pre act par k rest (a+1) i b e h
    have : a + 1 + i = a + (i + 1) := by omega
    rw [this]; exact he

mutual
theorem occ_sub_blk (v : CVal) (av : Bool) (pre : List Edge) (act : Bool) (par : Nat) :
    ∀ (b : Blk) (o : Occ), o ∈ occsBlk v av pre act par b →
      ∀ e, e ∈ sitesAlts v av o.pre o.act o.par o.k 0 o.alts → e ∈ sitesBlk v av pre act par b
  | .nil, o, h => by simp [occsBlk] at h
  | .site s rest, o, h => by
    intro e he
    simp only [occsBlk] at h
    simp only [sitesBlk, List.mem_cons]; right
    exact occ_sub_blk v av pre act par rest o h e he
  | .struct k alts rest, o, h => by
    intro e he
    simp only [occsBlk, List.mem_cons, List.mem_append] at h
    simp only [sitesBlk, List.mem_append]
    rcases h with h | h | h
    · subst h; left; exact he
    · left; exact occ_sub_alts v av pre act par k 0 alts o h e he
    · right; exact occ_sub_blk v av pre act (par+1) rest o h e he
theorem occ_sub_alts (v : CVal) (av : Bool) (pre : List Edge) (act : Bool) (par : Nat) (k : Kind) (a : Nat) :
    ∀ (al : Alts) (o : Occ), o ∈ occsAlts v av pre act par k a al →
      ∀ e, e ∈ sitesAlts v av o.pre o.act o.par o.k 0 o.alts → e ∈ sitesAlts v av pre act par k a al
  | .nil, o, h => by simp [occsAlts] at h
  | .cons b rest, o, h => by
    intro e he
    simp only [occsAlts, List.mem_append] at h
    simp only [sitesAlts, List.mem_append]
    rcases h with h | h
    · left; exact occ_sub_blk v av _ _ 0 b o h e he
    · right; exact occ_sub_alts v av pre act par k (a+1) rest o h e he
end

/-- **exclusive_complete**: for every structure occurrence `o` anywhere in a module tree `b`, two
sites lying in different alternatives `i ≠ j` of `o` (at any depth below them) are sites of the
tree and their recorded control paths are exclusive. -/
theorem exclusive_complete (v : CVal) (av : Bool) (b : Blk) (o : Occ)
    (ho : o ∈ occsBlk v av [] true 0 b) {i j : Nat} {b1 b2 : Blk} (hij : i ≠ j)
    (hi : o.alts.get? i = some b1) (hj : o.alts.get? j = some b2)
    {e1 e2 : SiteInfo} (h1 : e1 ∈ o.sitesAlt v av i b1) (h2 : e2 ∈ o.sitesAlt v av j b2) :
    e1 ∈ sitesBlk v av [] true 0 b ∧ e2 ∈ sitesBlk v av [] true 0 b ∧
      exclEdges e1.path e2.path = true := by
  unfold Occ.sitesAlt at h1 h2
  have m1 : e1 ∈ sitesAlts v av o.pre o.act o.par o.k 0 o.alts :=
    sitesAlts_of_get v av o.pre o.act o.par o.k o.alts 0 i b1 e1 hi (by simpa using h1)
  have m2 : e2 ∈ sitesAlts v av o.pre o.act o.par o.k 0 o.alts :=
    sitesAlts_of_get v av o.pre o.act o.par o.k o.alts 0 j b2 e2 hj (by simpa using h2)
  refine ⟨occ_sub_blk v av [] true 0 b o ho e1 m1, occ_sub_blk v av [] true 0 b o ho e2 m2, ?_⟩
  obtain ⟨_, tl1, hp1, _⟩ := shape_blk v av _ _ 0 b1 e1 h1
  obtain ⟨_, tl2, hp2, _⟩ := shape_blk v av _ _ 0 b2 e2 h2
  rw [hp1, hp2, List.append_assoc, List.append_assoc]
  exact exclEdges_diverge o.pre o.par _ _ tl1 tl2 (by omega)

end TxV.Core
