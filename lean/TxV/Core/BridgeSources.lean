import TxV.Core.BridgeOrder
/-!
# Bridge, part 7: the executable conflict graph has no edges but the sourced ones (C07)

`elaborate_cgrSources`: for every design the executable manager model accepts, every edge of the
final graph joins two different transactions that have an implicit conflict (`calls_nonexclusive`
failed for a commonly reached method) or a lifted `add_conflict` — `CgrSources (toAbs D) (toSched E order)`.
-/
namespace TxV.Core.Bridge
open TxV
open TxV.CoreModel (Graphs MethodMap Elab)

theorem foldl_inv_mem {α β : Type} (P : β → Prop) (f : β → α → β) :
    ∀ (l : List α) (init : β), (∀ g x, x ∈ l → P g → P (f g x)) → P init → P (l.foldl f init)
  | [], _, _, h => h
  | a :: l, init, hm, h =>
    foldl_inv_mem P f l (f init a) (fun g x hx => hm g x (List.mem_cons_of_mem _ hx))
      (hm init a (List.mem_cons_self ..) h)

theorem foldlM_inv_mem {ε α β : Type} (P : β → Prop) (f : β → α → Except ε β) :
    ∀ (l : List α) (init out : β), (∀ g x g', x ∈ l → f g x = .ok g' → P g → P g') →
      l.foldlM f init = .ok out → P init → P out
  | [], init, out, _, h, hp => by
    simp only [List.foldlM_nil, pure, Except.pure, Except.ok.injEq] at h; subst h; exact hp
  | a :: l, init, out, hm, h, hp => by
    obtain ⟨s, h1, h2⟩ := foldlM_ok_cons f a l init out h
    exact foldlM_inv_mem P f l s out (fun g x g' hx => hm g x g' (List.mem_cons_of_mem _ hx)) h2
      (hm init a s (List.mem_cons_self ..) h1 hp)

/-- all edges of `g` satisfy `Q` -/
def AllEdges (Q : Nat → Nat → Prop) (g : Graphs) : Prop := ∀ x y, g.adj x y = true → Q x y

theorem addEdge_allEdges {Q : Nat → Nat → Prop} (g : Graphs) (b e : Nat) (p : CoreModel.Priority) (c : Bool)
    (hg : AllEdges Q g) (hq : c = true → Q b e ∧ Q e b) : AllEdges Q (g.addEdge b e p c) := by
  intro x y hxy
  unfold Graphs.adj at hxy
  rw [addEdge_cgr] at hxy
  cases c
  · exact hg x y hxy
  · simp only [if_true, List.contains_eq_mem, List.mem_append, List.mem_cons, Prod.mk.injEq,
      List.not_mem_nil, or_false, decide_eq_true_eq] at hxy
    rcases hxy with hxy | ⟨rfl, rfl⟩ | ⟨rfl, rfl⟩
    · exact hg x y (by simpa [Graphs.adj] using hxy)
    · exact (hq rfl).1
    · exact (hq rfl).2

theorem LiftedConflict.symm {D : Design} {t1 t2 : Nat} (h : LiftedConflict D t1 t2) : LiftedConflict D t2 t1 := by
  obtain ⟨a, b, hr, ha, hb, hx⟩ := h
  exact ⟨b, a, hr.symm, hb, ha, fun h => hx h.symm⟩

section
variable (D : CoreModel.Design)

/-- the property every edge must have -/
def SrcQ (x y : Nat) : Prop :=
  (toAbs D).isTrans x = true ∧ (toAbs D).isTrans y = true ∧ x ≠ y ∧
    (ImplicitConflict (toAbs D) x y ∨ LiftedConflict (toAbs D) x y)

theorem SrcQ.symm {x y : Nat} (h : SrcQ D x y) : SrcQ D y x :=
  ⟨h.2.1, h.1, fun e => h.2.2.1 e.symm, h.2.2.2.elim (fun i => Or.inl (ImplicitConflict.symm i)) (fun l => Or.inr (LiftedConflict.symm l))⟩

theorem mem_tbm_ts {m : Nat} {ts : List Nat} (h : (m, ts) ∈ (CoreModel.methodMap D).tbm) {t : Nat} (ht : t ∈ ts) :
    t ∈ D.transactions ∧ m ∈ (CoreModel.methodMap D).methodsOf t := by
  unfold CoreModel.methodMap at h
  simp only [List.mem_map, Prod.mk.injEq] at h
  obtain ⟨m', _, rfl, rfl⟩ := h
  simp only [List.mem_map, List.mem_filter, List.contains_eq_mem, decide_eq_true_eq] at ht
  obtain ⟨⟨t', ms⟩, ⟨⟨⟨t'', l⟩, ⟨t3, ht3, he⟩, he2⟩, hc⟩, rfl⟩ := ht
  simp only [Prod.mk.injEq] at he he2
  obtain ⟨rfl, rfl⟩ := he
  obtain ⟨rfl, rfl⟩ := he2
  refine ⟨ht3, ?_⟩
  unfold MethodMap.methodsOf CoreModel.methodMap
  simp only
  have e : (List.map (fun x => (x.1, CoreModel.dedup (List.map (fun x => x.1) x.2)))
      (List.map (fun t => (t, CoreModel.chains D (CoreModel.fuelOf D) t [] [] [])) D.transactions)) =
      D.transactions.map fun t => (t, CoreModel.dedup ((CoreModel.chains D (CoreModel.fuelOf D) t [] [] []).map (·.1))) := by
    simp [List.map_map, Function.comp_def]
  rw [e, find?_map_key _ D.transactions _ ht3]
  exact hc

/-- a failing `calls_nonexclusive` exhibits an implicit conflict of the abstract design -/
theorem callsNonexclusive_false {t1 t2 m : Nat} (h1 : t1 ∈ D.transactions) (h2 : t2 ∈ D.transactions)
    (h : CoreModel.callsNonexclusive D (CoreModel.methodMap D) t1 t2 m = false) :
    ImplicitConflict (toAbs D) t1 t2 := by
  unfold CoreModel.callsNonexclusive at h
  rw [infoFor_eq D h1, infoFor_eq D h2] at h
  have h' : ¬ (∀ c1 ∈ (((enumM D (CoreModel.fuelOf D) t1 []).map infoOf).filter (·.1 == m)).map (·.2),
      ∀ c2 ∈ (((enumM D (CoreModel.fuelOf D) t2 []).map infoOf).filter (·.1 == m)).map (·.2),
        (match (CoreModel.lcp c1.ancestors c2.ancestors).getLast? with
          | none => true
          | some last => D.nonexclusive last || CoreModel.callPathsExclusive c1.callPath c2.callPath) = true) := by
    intro hall
    have : (List.all _ _) = true := List.all_eq_true.2 fun c1 hc1 => List.all_eq_true.2 fun c2 hc2 => hall c1 hc1 c2 hc2
    have := this.symm.trans h; cases this
  apply Classical.byContradiction
  intro hno
  apply h'
  intro c1 hc1 c2 hc2
  simp only [List.mem_map, List.mem_filter, beq_iff_eq] at hc1 hc2
  obtain ⟨_, ⟨⟨ch1, m1, rfl⟩, f1⟩, rfl⟩ := hc1
  obtain ⟨_, ⟨⟨ch2, m2, rfl⟩, f2⟩, rfl⟩ := hc2
  have g1 := infoOf_target D m1
  have g2 := infoOf_target D m2
  rw [f1] at g1; rw [f2] at g2
  obtain ⟨_, a1, p1⟩ := infoOf_fst g1
  obtain ⟨_, a2, p2⟩ := infoOf_fst g2
  rw [a1, a2, p1, p2, lcp_agree, cpe_agree]
  cases hl : (lcp (ch1.map (·.callee)).reverse (ch2.map (·.callee)).reverse).getLast? with
  | none => rfl
  | some last =>
    simp only
    cases hn : D.nonexclusive last with
    | true => rfl
    | false =>
      cases hc : cpe (ch1.map cvtCall) (ch2.map cvtCall) with
      | true => rfl
      | false =>
        exfalso; apply hno
        refine ⟨ch1.map cvtCall, ch2.map cvtCall, m, enum_isChain D m1, enum_isChain D m2, g1, g2, ?_, hc⟩
        unfold lcaNonexcl anc callees
        simp only [List.map_map]
        have ec : ∀ (l : List CoreModel.Call), List.map ((fun x => x.callee) ∘ cvtCall) l = l.map (·.callee) := by
          intro l; apply List.map_congr_left; intro c _; rfl
        rw [ec, ec, hl]
        simp only; rw [toAbs_nonexcl]; exact hn

theorem implicitEdges_sources (htr : ∀ t, t ∈ D.transactions → D.isTrans t = true) :
    AllEdges (SrcQ D) (CoreModel.implicitEdges D (CoreModel.methodMap D)) := by
  unfold CoreModel.implicitEdges
  apply foldl_inv_mem (AllEdges (SrcQ D))
  · intro g x hx hg
    obtain ⟨m, ts⟩ := x
    apply foldl_inv_mem (AllEdges (SrcQ D)) _ _ _ _ hg
    intro g t1 ht1 hg
    apply foldl_inv_mem (AllEdges (SrcQ D)) _ _ _ _ hg
    intro g t2 ht2 hg
    split
    · rename_i hc
      simp only [Bool.and_eq_true, bne_iff_ne, ne_eq, Bool.not_eq_true'] at hc
      obtain ⟨h1, _⟩ := mem_tbm_ts D hx ht1
      obtain ⟨h2, _⟩ := mem_tbm_ts D hx ht2
      have q : SrcQ D t1 t2 :=
        ⟨by rw [toAbs_isTrans]; exact htr t1 h1, by rw [toAbs_isTrans]; exact htr t2 h2, hc.1,
          Or.inl (callsNonexclusive_false D h1 h2 hc.2)⟩
      exact addEdge_allEdges g t1 t2 _ _ hg (fun _ => ⟨q, q.symm⟩)
    · exact hg
  · intro x y h; simp [Graphs.adj] at h

/-- from the executable `transactions_for` to the abstract `TransFor` -/
theorem transFor_sound (htr : ∀ t, t ∈ D.transactions → D.isTrans t = true)
    {t b : Nat} (hb : b ∈ D.methodsAndTransactions) (h : t ∈ (CoreModel.methodMap D).transFor b) :
    TransFor (toAbs D) t b := by
  by_cases hm : b ∈ D.methods
  · have hfind : (CoreModel.methodMap D).tbm.find? (fun p => p.1 == b) =
        some (b, (((CoreModel.methodMap D).mbt.filter fun x => x.2.contains b).map (·.1))) := by
      unfold CoreModel.methodMap; simp only
      exact find?_map_key _ D.methods b hm
    have hmem : (b, (((CoreModel.methodMap D).mbt.filter fun x => x.2.contains b).map (·.1))) ∈
        (CoreModel.methodMap D).tbm := List.mem_of_find?_eq_some hfind
    unfold MethodMap.transFor at h
    rw [hfind] at h
    obtain ⟨ht, hmo⟩ := mem_tbm_ts D hmem h
    exact ⟨by rw [toAbs_isTrans]; exact htr t ht, Or.inr (methodsOf_reaches D ht hmo)⟩
  · have hfind : (CoreModel.methodMap D).tbm.find? (fun p => p.1 == b) = none := by
      unfold CoreModel.methodMap; simp only
      exact find?_map_key_none _ D.methods b hm
    unfold MethodMap.transFor at h
    rw [hfind] at h
    simp only [List.mem_singleton] at h
    subst h
    have : t ∈ D.transactions := by
      simp only [CoreModel.Design.methodsAndTransactions, List.mem_append] at hb
      rcases hb with hb | hb
      · exact absurd hb hm
      · exact hb
    exact ⟨by rw [toAbs_isTrans]; exact htr t this, Or.inl rfl⟩

theorem reaches_methodsOf (hb : Bounded (toAbs D)) {t m : Nat} (ht : t ∈ D.transactions)
    (h : Reaches (toAbs D) t m) : m ∈ (CoreModel.methodMap D).methodsOf t := by
  obtain ⟨ch, hi, hg⟩ := h
  have hfuel : D.bodies.length ≤ CoreModel.fuelOf D := by unfold CoreModel.fuelOf; omega
  have h1 : ch ∈ chains (toAbs D) (CoreModel.fuelOf D) t :=
    chains_complete (toAbs D) hi _ (Nat.le_trans (hb t ch hi) (by rw [toAbs_n]; exact hfuel))
  have h2 := chains_toAbs D (CoreModel.fuelOf D) t []
  simp only [List.map_nil, List.nil_append, List.map_id'] at h2
  rw [← h2] at h1
  obtain ⟨ch', hm', rfl⟩ := List.mem_map.1 h1
  unfold MethodMap.methodsOf CoreModel.methodMap
  simp only
  have e : (List.map (fun x => (x.1, CoreModel.dedup (List.map (fun x => x.1) x.2)))
      (List.map (fun t => (t, CoreModel.chains D (CoreModel.fuelOf D) t [] [] [])) D.transactions)) =
      D.transactions.map fun t => (t, CoreModel.dedup ((CoreModel.chains D (CoreModel.fuelOf D) t [] [] []).map (·.1))) := by
    simp [List.map_map, Function.comp_def]
  rw [e, find?_map_key _ D.transactions t ht]
  simp only [mem_dedup]
  have := chainsM_eq D (CoreModel.fuelOf D) t []
  simp only [List.map_nil, List.reverse_nil] at this
  rw [this]
  simp only [List.map_map, List.mem_map, Function.comp]
  exact ⟨ch', hm', (infoOf_fst hg).1⟩

theorem transactionsExclusive_complete (hb : Bounded (toAbs D)) {t1 t2 : Nat} (h1 : t1 ∈ D.transactions)
    (h2 : t2 ∈ D.transactions) (h : TransExclusive (toAbs D) t1 t2) :
    CoreModel.transactionsExclusive D (CoreModel.methodMap D) t1 t2 = true := by
  obtain ⟨a, b, ha, hb', hx⟩ := h
  unfold CoreModel.transactionsExclusive MethodMap.readyFor
  simp only [List.any_eq_true, List.mem_cons]
  refine ⟨a, ?_, b, ?_, ?_⟩
  · rcases ha with rfl | ha
    · exact Or.inl rfl
    · exact Or.inr (reaches_methodsOf D hb h1 ha)
  · rcases hb' with rfl | hb'
    · exact Or.inl rfl
    · exact Or.inr (reaches_methodsOf D hb h2 hb')
  · rw [toAbs_defPath, toAbs_defPath, ← exclusiveWith_agree] at hx; exact hx

end

theorem elaborate_cgrSources {D : CoreModel.Design} {E : Elab} (h : CoreModel.elaborate D = .ok E)
    (order : List Nat) : CgrSources (toAbs D) (toSched E order) := by
  obtain ⟨_, _, hb, _, _, _⟩ := elaborate_sound h order
  obtain ⟨hwf, _, hmm, hrel⟩ := elaborate_ok h
  obtain ⟨hall, htr, hme, _, _⟩ := wf_facts hwf
  have hlt : ∀ b, b ∈ D.methodsAndTransactions → b < D.bodies.length := by
    intro b hb'
    have hwf' := hwf
    simp only [CoreModel.Design.wf, Bool.and_eq_true, List.all_eq_true, decide_eq_true_eq] at hwf'
    simp only [CoreModel.Design.methodsAndTransactions, List.mem_append] at hb'
    rcases hb' with hb' | hb'
    · exact (hwf'.1.1.1.1.1.1.2 b hb').1
    · exact (hwf'.1.1.1.1.1.1.1 b hb').1
  have key : AllEdges (SrcQ D) E.g := by
    rw [hmm] at hrel
    rw [relationEdges_step_eq] at hrel
    refine foldlM_inv_mem (AllEdges (SrcQ D)) _ _ _ _ ?_ hrel (implicitEdges_sources D htr)
    intro g x g' hx hstep hg
    obtain ⟨start, r⟩ := x
    have hxr : start ∈ D.methodsAndTransactions ∧ r ∈ D.rels start ∧ r.dst ∈ D.methodsAndTransactions := by
      unfold CoreModel.relations at hx
      simp only [List.mem_flatMap, List.mem_map, List.mem_filter, List.contains_eq_mem, decide_eq_true_eq,
        Prod.mk.injEq] at hx
      obtain ⟨e, he, r', ⟨hr', hd'⟩, rfl, rfl⟩ := hx
      exact ⟨he, hr', hd'⟩
    split at hstep
    · cases hstep
    · refine foldlM_inv_mem (AllEdges (SrcQ D)) _ _ _ _ ?_ hstep hg
      intro g ts g' hts hstep hg
      refine foldlM_inv_mem (AllEdges (SrcQ D)) _ _ _ _ ?_ hstep hg
      intro g te g' hte hstep hg
      unfold relStep at hstep
      split at hstep
      · split at hstep
        · cases hstep
        · cases hstep; exact hg
      · rename_i hnc
        cases hstep
        apply addEdge_allEdges g ts te _ _ hg
        intro hc
        simp only [Bool.and_eq_true, Bool.not_eq_true'] at hc
        obtain ⟨hconf, hnx⟩ := hc
        have hne : ts ≠ te := by
          intro heq; apply hnc; simp [hconf, heq]
        have t1 := transFor_sound D htr hxr.1 hts
        have t2 := transFor_sound D htr hxr.2.2 hte
        have hT1 : ts ∈ D.transactions := by
          have := t1.1; rw [toAbs_isTrans] at this
          have hl := hall ts (by rw [← toAbs_n]; exact (toAbs D).isTrans_lt t1.1)
          simp only [CoreModel.Design.methodsAndTransactions, List.mem_append] at hl
          rcases hl with hl | hl
          · rw [hme ts hl] at this; cases this
          · exact hl
        have hT2 : te ∈ D.transactions := by
          have := t2.1; rw [toAbs_isTrans] at this
          have hl := hall te (by rw [← toAbs_n]; exact (toAbs D).isTrans_lt t2.1)
          simp only [CoreModel.Design.methodsAndTransactions, List.mem_append] at hl
          rcases hl with hl | hl
          · rw [hme te hl] at this; cases this
          · exact hl
        have hrelA : ConflictRel (toAbs D) start r.dst := by
          refine ⟨by rw [toAbs_n]; exact hlt _ hxr.1, by rw [toAbs_n]; exact hlt _ hxr.2.2, cvtRel r, ?_, hconf, rfl⟩
          rw [toAbs_rels]; exact List.mem_map.2 ⟨r, hxr.2.1, rfl⟩
        have hnx' : ¬ TransExclusive (toAbs D) ts te := by
          intro hte'
          rw [transactionsExclusive_complete D hb hT1 hT2 hte'] at hnx; cases hnx
        have q : SrcQ D ts te := ⟨t1.1, t2.1, hne, Or.inr ⟨start, r.dst, Or.inl hrelA, t1, t2, hnx'⟩⟩
        exact ⟨q, q.symm⟩
  intro t1 _ t2 _ he
  exact key t1 t2 he

end TxV.Core.Bridge
