import TxV.Core.Check
/-!
# Core theory: the acceptance conditions of the manager as one validator (C11)

`cgrOf D` is the conflict graph as `_conflict_graph` defines it (implicit edges + lifted
`add_conflict` relations), computed from the design alone.  `accept D ord` is the conjunction of
the checks `MethodMap.__init__`, `_conflict_graph` and `elaborate` perform, with the priority
order supplied as a certificate (the implementation's `porder`).  `accept_sound` derives every
declarative hypothesis used by C01–C08; `c11`-style theorems live in `Props/C11.lean`.
-/
namespace TxV.Core

variable {D : Design}

/-! ## the conflict graph computed from the design -/

/-- manager.py:273–277 and :291–305: an edge joins two different transactions with an implicit
conflict or a lifted `add_conflict` (in either direction) -/
def cgrOf (D : Design) (t1 t2 : Nat) : Bool :=
  D.isTrans t1 && D.isTrans t2 && !decide (t1 = t2) &&
    (implicitB D t1 t2 || implicitB D t2 t1 || liftedB D t1 t2 || liftedB D t2 t1)

theorem cgrOf_symm (D : Design) (a b : Nat) : cgrOf D a b = cgrOf D b a := by
  unfold cgrOf
  by_cases h : a = b
  · subst h; rfl
  · have h' : ¬ b = a := fun x => h x.symm
    simp only [h, h', decide_false, Bool.not_false, Bool.and_true]
    cases D.isTrans a <;> cases D.isTrans b <;> simp <;>
      cases implicitB D a b <;> cases implicitB D b a <;> cases liftedB D a b <;> cases liftedB D b a <;> rfl

theorem implicitB_complete (hb : Bounded D) {t1 t2 : Nat} (h : ImplicitConflict D t1 t2) :
    implicitB D t1 t2 = true := by
  obtain ⟨ch1, ch2, m, i1, i2, g1, g2, hl, hc⟩ := h
  simp only [implicitB, List.any_eq_true, Bool.and_eq_true, beq_iff_eq, Bool.not_eq_true']
  exact ⟨ch1, (mem_chainsOf hb).2 i1, ch2, (mem_chainsOf hb).2 i2, ⟨by rw [g1, g2], hl⟩, hc⟩

theorem ImplicitConflict.symm {t1 t2 : Nat} (h : ImplicitConflict D t1 t2) : ImplicitConflict D t2 t1 := by
  obtain ⟨ch1, ch2, m, i1, i2, g1, g2, hl, hc⟩ := h
  refine ⟨ch2, ch1, m, i2, i1, g2, g1, ?_, by rw [cpe_comm]; exact hc⟩
  unfold lcaNonexcl at hl ⊢
  have : lcp (anc ch2) (anc ch1) = lcp (anc ch1) (anc ch2) := by
    generalize anc ch1 = x; generalize anc ch2 = y
    induction y generalizing x with
    | nil => cases x <;> rfl
    | cons b bs ih =>
      cases x with
      | nil => rfl
      | cons a as =>
        simp only [lcp]
        by_cases hab : a = b
        · subst hab; simp [ih]
        · have : ¬ b = a := fun h => hab h.symm
          simp [hab, this]
  rw [this]; exact hl

theorem noImplicit_of_not (hb : Bounded D) {t1 t2 : Nat} (h : implicitB D t1 t2 = false) :
    NoImplicitConflict D t1 t2 := by
  intro ch1 ch2 m i1 i2 g1 g2
  cases hl : lcaNonexcl D ch1 ch2 with
  | true => exact Or.inl rfl
  | false =>
    cases hc : cpe ch1 ch2 with
    | true => exact Or.inr rfl
    | false =>
      have := implicitB_complete hb ⟨ch1, ch2, m, i1, i2, g1, g2, hl, hc⟩
      rw [h] at this; cases this

theorem liftedB_complete (hb : Bounded D) {t1 t2 : Nat} (h : LiftedConflict D t1 t2) : liftedB D t1 t2 = true := by
  obtain ⟨a, b, hr, h1, h2, hx⟩ := h
  have la : a < D.n := by rcases hr with h | h; exact h.1; exact h.2.1
  have lb : b < D.n := by rcases hr with h | h; exact h.2.1; exact h.1
  simp only [liftedB, Bool.and_eq_true, any_range, Bool.or_eq_true, conflictRelB_iff, transForB_iff hb,
    Bool.not_eq_true']
  refine ⟨⟨a, la, b, lb, ⟨hr, h1⟩, h2⟩, ?_⟩
  cases hte : transExclusiveB D t1 t2 with
  | false => rfl
  | true => exact absurd ((transExclusiveB_iff hb).1 hte) hx

theorem TransExclusive.symm {t1 t2 : Nat} (h : TransExclusive D t1 t2) : TransExclusive D t2 t1 := by
  obtain ⟨b1, b2, h1, h2, hx⟩ := h
  exact ⟨b2, b1, h2, h1, by rw [CtrlPath.exclusiveWith_comm]; exact hx⟩

theorem cgrOf_sources (hb : Bounded D) (ord : Nat → Nat) : CgrSources D ⟨ord, cgrOf D⟩ := by
  intro t1 _ t2 _ he
  simp only [cgrOf, Bool.and_eq_true, Bool.not_eq_true', decide_eq_false_iff_not, Bool.or_eq_true] at he
  obtain ⟨⟨⟨h1, h2⟩, h3⟩, h4⟩ := he
  refine ⟨h1, h2, h3, ?_⟩
  rcases h4 with ((h4 | h4) | h4) | h4
  · exact Or.inl (implicitB_sound hb h4)
  · exact Or.inl (implicitB_sound hb h4).symm
  · exact Or.inr (liftedB_sound hb h4)
  · obtain ⟨a, b, hr, ha, hb', hx⟩ := liftedB_sound hb h4
    exact Or.inr ⟨b, a, hr.symm, hb', ha, fun h => hx h.symm⟩

/-! ## the individual checks -/

/-- "a method calls itself" (directly or through other methods), manager.py:89 -/
def NoSelfCall (D : Design) : Prop := ∀ m ch, IsChain D m ch → target ch ≠ some m

def noSelfCallB (D : Design) : Bool :=
  (List.range D.n).all fun m => (D.chainsOf m).all fun ch => !(target ch == some m)

theorem noSelfCallB_iff (hb : Bounded D) : noSelfCallB D = true ↔ NoSelfCall D := by
  simp only [noSelfCallB, List.all_eq_true, List.mem_range, Bool.not_eq_true', beq_eq_false_iff_ne, NoSelfCall]
  constructor
  · intro h m ch hi; exact h m hi.root_lt ch ((mem_chainsOf hb).2 hi)
  · intro h m _ ch hm; exact h m ch ((mem_chainsOf hb).1 hm)

/-! Recursion makes chains arbitrarily long, so `Bounded` alone excludes it. -/

theorem IsChain.append {D : Design} : ∀ {b : Nat} {ch2 : List Call}, IsChain D b ch2 →
    ∀ {r : Nat} {ch1 : List Call}, IsChain D r ch1 → target ch1 = some b → IsChain D r (ch1 ++ ch2)
  | _, _, .single hm, _, _, h1, ht => h1.ext ht hm
  | _, _, .cons (c := c) (ch := ch) hm hch, r, ch1, h1, ht => by
    have := IsChain.append hch (h1.ext ht hm) (target_append_singleton ch1 c)
    simpa using this

theorem target_append_of_ne_nil (a : List Call) {b : List Call} (hb : b ≠ []) : target (a ++ b) = target b := by
  unfold target
  obtain ⟨x, xs, rfl⟩ := List.exists_cons_of_ne_nil hb
  rw [List.getLast?_append]
  cases h : (x :: xs).getLast? with
  | none => simp at h
  | some y => simp

/-- `k+1` copies of a chain -/
def repChain : Nat → List Call → List Call
  | 0, ch => ch
  | k+1, ch => ch ++ repChain k ch

theorem repChain_spec {m : Nat} {ch : List Call} (hi : IsChain D m ch) (ht : target ch = some m) :
    ∀ k, IsChain D m (repChain k ch) ∧ target (repChain k ch) = some m ∧ k < (repChain k ch).length
  | 0 => ⟨hi, ht, by
      obtain ⟨c, rest, rfl, _⟩ := hi.head_mem
      simp [repChain]⟩
  | k+1 => by
    obtain ⟨h1, h2, h3⟩ := repChain_spec hi ht k
    refine ⟨IsChain.append h1 hi ht, ?_, ?_⟩
    · simp only [repChain]; rw [target_append_of_ne_nil _ h1.ne_nil]; exact h2
    · obtain ⟨c, rest, rfl, _⟩ := hi.head_mem
      simp only [repChain, List.length_append, List.length_cons] at h3 ⊢
      omega

theorem noSelfCall_of_bounded (hb : Bounded D) : NoSelfCall D := by
  intro m ch hi ht
  obtain ⟨h1, _, h3⟩ := repChain_spec hi ht D.n
  have := hb m _ h1
  omega

/-- "a transaction tree calls an exclusive method twice on paths that are not mutually exclusive":
the negation, for every root (`validate_root_call_tree` is run on every method and transaction) -/
def NoDoubleCall (D : Design) : Prop := ∀ r, ValidRoot D r

theorem validRootsB_iff (hb : Bounded D) : validRootsB D = true ↔ NoDoubleCall D := by
  constructor
  · exact validRootsB_sound hb
  · intro h; exact all_range.2 fun r _ => validRootB_complete hb (h r)

theorem boundedB_complete (h : Bounded D) : boundedB D = true := by
  simp only [boundedB, List.all_eq_true, decide_eq_true_eq]
  intro r _ ch hm
  exact h r ch (chains_sound D _ _ _ hm)

/-- manager.py:293–300: a transaction reaching both ends of a conflict relation must reach them on
mutually exclusive call paths -/
def SameTransOk (D : Design) : Prop :=
  ∀ a b, ConflictRel D a b → ∀ t, TransFor D t a → TransFor D t b → ExclusiveWithin D t a b

def sameTransOkB (D : Design) : Bool :=
  (List.range D.n).all fun a => (D.body a).rels.all fun r =>
    !(r.conflict && decide (r.dst < D.n)) ||
    (List.range D.n).all fun t => !(transForB D t a && transForB D t r.dst) || exclusiveWithinB D t a r.dst

theorem sameTransOkB_sound (hb : Bounded D) (h : sameTransOkB D = true) : SameTransOk D := by
  intro a b ⟨la, lb, r, hr, hc, hd⟩ t hta htb
  have h1 := all_range.1 h a la
  simp only [List.all_eq_true] at h1
  have h2 := h1 r hr
  simp only [hc, hd, lb, decide_true, Bool.and_self, Bool.not_true, Bool.false_or] at h2
  have h3 := all_range.1 h2 t (D.isTrans_lt hta.1)
  simp only [(transForB_iff hb).2 hta, (transForB_iff hb).2 htb, Bool.and_self, Bool.not_true,
    Bool.false_or] at h3
  exact exclusiveWithinB_sound hb h3

/-- manager.py:560–562: a called `single_caller` method has at most one call site -/
def SingleCallerOk (D : Design) : Prop :=
  ∀ m, m < D.n → (D.body m).singleCaller = true → (∃ t, D.isTrans t = true ∧ Reaches D t m) →
    (D.sitesOf m).length ≤ 1

def singleCallerB (D : Design) : Bool :=
  (List.range D.n).all fun m =>
    !((D.body m).singleCaller && (List.range D.n).any fun t => D.isTrans t && reachesB D t m) ||
      decide ((D.sitesOf m).length ≤ 1)

theorem singleCallerB_sound (hb : Bounded D) (h : singleCallerB D = true) : SingleCallerOk D := by
  intro m lm hs ⟨t, ht, hr⟩
  have := all_range.1 h m lm
  have hany : ((List.range D.n).any fun t => D.isTrans t && reachesB D t m) = true :=
    any_range.2 ⟨t, D.isTrans_lt ht, by simp [ht, (reachesB_iff hb).2 hr]⟩
  simpa [hs, hany] using this

/-- manager.py:503–514: no transaction is ready-dependent on a transaction it conflicts with -/
def NoReadyDepConflict (D : Design) (cgr : Nat → Nat → Bool) : Prop :=
  ∀ t, D.isTrans t = true → ∀ d, ReadyDep D d t → cgr t d = false

def noReadyDepConflictB (D : Design) (cgr : Nat → Nat → Bool) : Bool :=
  (List.range D.n).all fun t => !D.isTrans t || (readyDepsOf D t).all fun d => !cgr t d

theorem noReadyDepConflictB_sound {cgr : Nat → Nat → Bool} (h : noReadyDepConflictB D cgr = true) :
    NoReadyDepConflict D cgr := by
  intro t ht d hd
  have := all_range.1 h t (D.isTrans_lt ht)
  simp only [ht, Bool.not_true, Bool.false_or, List.all_eq_true, Bool.not_eq_true'] at this
  exact this d (mem_readyDepsOf.2 hd)

/-! ## the validator -/

/-- all acceptance checks of `TransactionManager.elaborate` for a design without
`simultaneous`/`condition()`, the priority order being supplied (the implementation's `porder`) -/
def accept (D : Design) (ord : Nat → Nat) : Bool :=
  decide D.WF && boundedB D && noSelfCallB D && validRootsB D && sameTransOkB D &&
    validOrderB D ⟨ord, cgrOf D⟩ && decide (OrdInj D ⟨ord, cgrOf D⟩) && singleCallerB D &&
    noReadyDepConflictB D (cgrOf D)

structure AcceptFacts (D : Design) (ord : Nat → Nat) : Prop where
  wf : D.WF
  bounded : Bounded D
  noSelfCall : NoSelfCall D
  noDoubleCall : NoDoubleCall D
  sameTransOk : SameTransOk D
  validOrder : ValidOrder D ⟨ord, cgrOf D⟩
  ordInj : OrdInj D ⟨ord, cgrOf D⟩
  singleCallerOk : SingleCallerOk D
  noReadyDepConflict : NoReadyDepConflict D (cgrOf D)

theorem accept_facts {ord : Nat → Nat} (h : accept D ord = true) : AcceptFacts D ord := by
  simp only [accept, Bool.and_eq_true, decide_eq_true_eq] at h
  obtain ⟨⟨⟨⟨⟨⟨⟨⟨h1, h2⟩, h3⟩, h4⟩, h5⟩, h6⟩, h7⟩, h8⟩, h9⟩ := h
  have hb := boundedB_sound h2
  exact ⟨h1, hb, (noSelfCallB_iff hb).1 h3, validRootsB_sound hb h4, sameTransOkB_sound hb h5,
    validOrderB_sound hb h6, h7, singleCallerB_sound hb h8, noReadyDepConflictB_sound h9⟩

/-- an accepted design, with the conflict graph `cgrOf D`, satisfies every static hypothesis of C01–C08 -/
theorem AcceptFacts.accepted {ord : Nat → Nat} (h : AcceptFacts D ord) : Accepted D ⟨ord, cgrOf D⟩ := by
  refine ⟨h.wf, h.bounded, h.noDoubleCall, fun a _ b _ => cgrOf_symm D a b, h.ordInj, ?_, ?_⟩
  · intro t1 t2 h1 h2 hne he
    apply noImplicit_of_not h.bounded
    simp only [cgrOf, h1, h2, hne, decide_false, Bool.not_false, Bool.and_self, Bool.true_and,
      Bool.or_eq_false_iff] at he
    exact he.1.1.1
  · intro a b hrel ta tb hta htb
    refine ⟨fun heq => h.sameTransOk a b hrel ta hta (heq ▸ htb), fun hne => ?_⟩
    by_cases hx : TransExclusive D ta tb
    · exact Or.inr hx
    · left
      have := liftedB_complete h.bounded ⟨a, b, Or.inl hrel, hta, htb, hx⟩
      simp [cgrOf, hta.1, htb.1, hne, this]

theorem accept_sound {ord : Nat → Nat} (h : accept D ord = true) :
    Accepted D ⟨ord, cgrOf D⟩ ∧ CgrSources D ⟨ord, cgrOf D⟩ ∧ ValidOrder D ⟨ord, cgrOf D⟩ :=
  have f := accept_facts h
  ⟨f.accepted, cgrOf_sources f.bounded ord, f.validOrder⟩

end TxV.Core
