import TxV.Core.Accept
/-!
# Core theory: positive families for C11 — designs the validator accepts, for every size
-/
namespace TxV.Core

variable {D : Design}

/-- a design without relations and `single_caller` flags is accepted as soon as its call structure is -/
theorem accept_of_norels (ord : Nat → Nat) (hwf : D.WF) (hb : Bounded D) (hs : NoSelfCall D)
    (hd : NoDoubleCall D) (hr : ∀ b, (D.body b).rels = []) (hsc : ∀ b, (D.body b).singleCaller = false)
    (hinj : OrdInj D ⟨ord, cgrOf D⟩) : accept D ord = true := by
  have h1 : sameTransOkB D = true := all_range.2 fun a _ => by rw [hr a]; rfl
  have h2 : validOrderB D ⟨ord, cgrOf D⟩ = true := all_range.2 fun a _ => by rw [hr a]; rfl
  have h3 : singleCallerB D = true := all_range.2 fun m _ => by simp [hsc m]
  have h4 : noReadyDepConflictB D (cgrOf D) = true := by
    apply all_range.2; intro t _
    have : readyDepsOf D t = [] := by
      simp [readyDepsOf, readyDepB, hr]
    simp [this]
  simp [accept, hwf, boundedB_complete hb, (noSelfCallB_iff hb).2 hs, (validRootsB_iff hb).2 hd, h1, h2, h3, h4,
    hinj]

/-- if every called method is nonexclusive, no double-call error can arise, however often and on
whatever paths the methods are called -/
theorem noDoubleCall_of_nonexclusive (h : ∀ c ∈ D.allCalls, D.nonexcl c.callee = true) : NoDoubleCall D := by
  intro r ch1 ch2 m i1 _ _ g1 _ hm
  obtain ⟨c, _, hcm, hmem⟩ := i1.target_callee g1
  rw [← hcm, h c hmem] at hm; cases hm

/-! ## family 1: one exclusive method called in each of `k` alternatives of one structure -/

/-- the call placed in alternative `i`: inside the transaction's `AvoidedIf` (edge `(0,0)`), in
alternative `i` of the first structure of the body (`alt = i + off`; `off = 0` for an
`If/Elif/Else` chain, `off = 1` for `Switch/Case` and `FSM/State`) -/
def altCall (off i : Nat) : Call := ⟨1, ⟨0, [⟨0, 0⟩, ⟨i + off, 0⟩]⟩, i⟩

/-- transaction `T` (body 0) calls exclusive method `M` (body 1) once in each of `k` alternatives -/
def famAlt (off k : Nat) : Design := ⟨[
  ⟨true,  ⟨0, []⟩, false, false, false, (List.range k).map (altCall off), []⟩,
  ⟨false, ⟨0, []⟩, false, false, false, [], []⟩]⟩

theorem famAlt_body0 (off k : Nat) : ((famAlt off k).body 0).calls = (List.range k).map (altCall off) := rfl
theorem famAlt_body_succ (off k b : Nat) : ((famAlt off k).body (b+1)).calls = [] := by
  cases b with
  | zero => rfl
  | succ b => simp [Design.body, famAlt, Body.empty]

theorem famAlt_chain {off k r : Nat} {ch : List Call} (h : IsChain (famAlt off k) r ch) :
    r = 0 ∧ ∃ i, i < k ∧ ch = [altCall off i] := by
  have key : ∀ {r c}, c ∈ ((famAlt off k).body r).calls → r = 0 ∧ ∃ i, i < k ∧ c = altCall off i := by
    intro r c hc
    cases r with
    | zero =>
      rw [famAlt_body0] at hc
      obtain ⟨i, hi, rfl⟩ := List.mem_map.1 hc
      exact ⟨rfl, i, List.mem_range.1 hi, rfl⟩
    | succ r => rw [famAlt_body_succ] at hc; simp at hc
  cases h with
  | single hm =>
    obtain ⟨h0, i, hi, rfl⟩ := key hm
    exact ⟨h0, i, hi, rfl⟩
  | cons hm hch =>
    obtain ⟨_, i, _, rfl⟩ := key hm
    obtain ⟨c', _, _, hc'⟩ := hch.head_mem
    have : (altCall off i).callee = 0 + 1 := rfl
    rw [this, famAlt_body_succ] at hc'; simp at hc'

theorem famAlt_accept (off k : Nat) : accept (famAlt off k) (fun t => t) = true := by
  apply accept_of_norels
  · intro c hc
    have : c ∈ ((famAlt off k).body 0).calls := by
      simpa [Design.allCalls, famAlt, Design.body] using hc
    rw [famAlt_body0] at this
    obtain ⟨i, _, rfl⟩ := List.mem_map.1 this
    exact ⟨(by show 1 < 2; decide), rfl⟩
  · intro r ch h
    obtain ⟨_, i, _, rfl⟩ := famAlt_chain h
    simp [Design.n, famAlt]
  · intro m ch h
    obtain ⟨rfl, i, _, rfl⟩ := famAlt_chain h
    simp [target, altCall]
  · intro r ch1 ch2 m i1 i2 hne _ _ _
    obtain ⟨_, i, _, rfl⟩ := famAlt_chain i1
    obtain ⟨_, j, _, rfl⟩ := famAlt_chain i2
    have hij : i ≠ j := fun h => hne (by rw [h])
    simp [cpe, altCall, CtrlPath.exclusiveWith, exclEdges, hij]
  · intro b
    match b with
    | 0 => rfl
    | 1 => rfl
    | b+2 => simp [Design.body, famAlt, Body.empty]
  · intro b
    match b with
    | 0 => rfl
    | 1 => rfl
    | b+2 => simp [Design.body, famAlt, Body.empty]
  · intro a ha b hb ta tb _
    have hn : (famAlt off k).n = 2 := rfl
    rw [hn] at ha hb
    match a, b, ha, hb, ta, tb with
    | 0, 0, _, _, _, _ => rfl
    | 1, _, _, _, ta, _ => simp [Design.isTrans, Design.body, famAlt] at ta
    | 0, 1, _, _, _, tb => simp [Design.isTrans, Design.body, famAlt] at tb

/-- the paths of `famAlt` are the positional paths of the control tree "body (`AvoidedIf`) containing
one structure of kind `kd` with `k` alternatives, alternative `i` containing call site `i`" -/
def altsFrom : Nat → Nat → Alts
  | _, 0 => .nil
  | i, k+1 => .cons (.site i .nil) (altsFrom (i+1) k)

theorem sitesAlts_altsFrom (cv : CVal) (av : Bool) (pre : List Edge) (act : Bool) (par : Nat) (kd : Kind) :
    ∀ (k a : Nat), (sitesAlts cv av pre act par kd a (altsFrom a k)).map (fun e => (e.id, e.path)) =
      (List.range' a k).map fun i => (i, pre ++ [⟨i + altOffset kd, par⟩])
  | 0, a => by simp [altsFrom, sitesAlts]
  | k+1, a => by
    simp only [altsFrom, sitesAlts, sitesBlk, List.map_cons,
      List.range'_succ, List.singleton_append]
    rw [sitesAlts_altsFrom cv av pre act par kd k (a+1)]

theorem famAlt_paths (cv : CVal) (av : Bool) (kd : Kind) (k : Nat) :
    (sitesBlk cv av [] true 0 (.struct (.avoid 0) (.cons (.struct kd (altsFrom 0 k) .nil) .nil) .nil)).map
        (fun e => (e.id, (⟨0, e.path⟩ : CtrlPath))) =
      (List.range k).map fun i => ((altCall (altOffset kd) i).site, (altCall (altOffset kd) i).path) := by
  have h := sitesAlts_altsFrom cv av [⟨0, 0⟩] (true && altTaken cv av (.avoid 0) 0) 0 kd k 0
  have e1 : ∀ (l : List SiteInfo), l.map (fun e => (e.id, (⟨0, e.path⟩ : CtrlPath))) =
      (l.map (fun e => (e.id, e.path))).map (fun p => (p.1, (⟨0, p.2⟩ : CtrlPath))) := by
    intro l; simp
  have e0 : altOffset (.avoid 0) = 0 := rfl
  simp only [sitesBlk, sitesAlts, e0, List.append_nil, List.nil_append, Nat.add_zero]
  rw [e1, h]
  simp [List.range_eq_range', altCall]

/-! ## family 2: a nonexclusive method called `k` times on one (non-exclusive) path -/

def sameCall (i : Nat) : Call := ⟨1, ⟨0, [⟨0, 0⟩]⟩, i⟩

/-- transaction `T` (body 0) calls nonexclusive method `N` (body 1, no callees) `k` times, all calls
unconditionally in the body -/
def famNonexcl (k : Nat) : Design := ⟨[
  ⟨true,  ⟨0, []⟩, false, false, false, (List.range k).map sameCall, []⟩,
  ⟨false, ⟨0, []⟩, true,  false, false, [], []⟩]⟩

theorem famNonexcl_body_succ (k b : Nat) : ((famNonexcl k).body (b+1)).calls = [] := by
  cases b with
  | zero => rfl
  | succ b => simp [Design.body, famNonexcl, Body.empty]

theorem famNonexcl_call {k r : Nat} {c : Call} (hc : c ∈ ((famNonexcl k).body r).calls) :
    r = 0 ∧ ∃ i, i < k ∧ c = sameCall i := by
  cases r with
  | zero =>
    have : ((famNonexcl k).body 0).calls = (List.range k).map sameCall := rfl
    rw [this] at hc
    obtain ⟨i, hi, rfl⟩ := List.mem_map.1 hc
    exact ⟨rfl, i, List.mem_range.1 hi, rfl⟩
  | succ r => rw [famNonexcl_body_succ] at hc; simp at hc

theorem famNonexcl_chain {k r : Nat} {ch : List Call} (h : IsChain (famNonexcl k) r ch) :
    r = 0 ∧ ∃ i, i < k ∧ ch = [sameCall i] := by
  cases h with
  | single hm =>
    obtain ⟨h0, i, hi, rfl⟩ := famNonexcl_call hm
    exact ⟨h0, i, hi, rfl⟩
  | cons hm hch =>
    obtain ⟨_, i, _, rfl⟩ := famNonexcl_call hm
    obtain ⟨c', _, _, hc'⟩ := hch.head_mem
    have : (sameCall i).callee = 0 + 1 := rfl
    rw [this, famNonexcl_body_succ] at hc'; simp at hc'

theorem famNonexcl_accept (k : Nat) : accept (famNonexcl k) (fun t => t) = true := by
  have hcalls : ∀ c ∈ (famNonexcl k).allCalls, ∃ i, c = sameCall i := by
    intro c hc
    have : c ∈ ((famNonexcl k).body 0).calls := by
      simpa [Design.allCalls, famNonexcl, Design.body] using hc
    obtain ⟨_, i, _, h⟩ := famNonexcl_call this
    exact ⟨i, h⟩
  apply accept_of_norels
  · intro c hc
    obtain ⟨i, rfl⟩ := hcalls c hc
    exact ⟨(by show 1 < 2; decide), rfl⟩
  · intro r ch h
    obtain ⟨_, i, _, rfl⟩ := famNonexcl_chain h
    simp [Design.n, famNonexcl]
  · intro m ch h
    obtain ⟨rfl, i, _, rfl⟩ := famNonexcl_chain h
    simp [target, sameCall]
  · apply noDoubleCall_of_nonexclusive
    intro c hc
    obtain ⟨i, rfl⟩ := hcalls c hc
    rfl
  · intro b
    match b with
    | 0 => rfl
    | 1 => rfl
    | b+2 => simp [Design.body, famNonexcl, Body.empty]
  · intro b
    match b with
    | 0 => rfl
    | 1 => rfl
    | b+2 => simp [Design.body, famNonexcl, Body.empty]
  · intro a ha b hb ta tb _
    have hn : (famNonexcl k).n = 2 := rfl
    rw [hn] at ha hb
    match a, b, ha, hb, ta, tb with
    | 0, 0, _, _, _, _ => rfl
    | 1, _, _, _, ta, _ => simp [Design.isTrans, Design.body, famNonexcl] at ta
    | 0, 1, _, _, _, tb => simp [Design.isTrans, Design.body, famNonexcl] at tb

end TxV.Core
