import TxV.Core.BridgeSources
import TxV.Core.Routing
import TxV.Core.Conflicts
/-!
# C01 stated over the executable manager model

Same layout as a Props file (it can be passed to `ctx.proof_stage(extra_modules=…)`): the static
hypotheses of `c01_at_most_one_active` are *proved* here from `CoreModel.elaborate D = ok E`
(`elaborate_sound`); what remains as hypotheses are facts about one cycle and about the
implementation-supplied order.
-/
namespace TxV.Core.Bridge
open TxV

-- OBLIGATION c01_of_elaborate : C01 sentence 1 for every design the executable manager model accepts, any scheduler: under the per-cycle hypotheses ExclSem (from exclusive_sound), MethodRunEq (manager.py:550-555) and Mutex (no two cgr-neighbours granted; driver-checked per valuation) an exclusive method has at most one active call site; the static hypotheses (Bounded, ValidRoot, unique sites, no edge ⇒ calls_nonexclusive) are PROVED from elaborate = ok
theorem c01_of_elaborate {D : CoreModel.Design} {E : CoreModel.Elab} (h : CoreModel.elaborate D = .ok E)
    (order : List Nat) {v : Val} {run : Nat → Bool}
    (hs : ExclSem (toAbs D) v) (hm : MethodRunEq (toAbs D) v run) (hx : Mutex (toAbs D) (toSched E order) run)
    {m : Nat} (hne : (toAbs D).nonexcl m = false) : (activeSites (toAbs D) v run m).length ≤ 1 := by
  obtain ⟨_, hn, _, hvr, _, himp⟩ := elaborate_sound h order
  apply at_most_one_active_core hs hvr hm ?_ hn hne
  intro t1 t2 h1 h2 hne' r1 r2
  cases he : (toSched E order).cgr t1 t2 with
  | false => exact himp t1 t2 h1 h2 hne' he
  | true => exact absurd ⟨r1, r2⟩ (hx t1 t2 h1 h2 hne' he)

-- OBLIGATION c01_of_elaborate_eager : the same under eager_deterministic_cc_scheduler: Mutex is derived from the scheduler equations, the proved symmetry of the model's conflict graph and injectivity of the supplied order (driver-checked: validity of the implementation's porder)
theorem c01_of_elaborate_eager {D : CoreModel.Design} {E : CoreModel.Elab} (h : CoreModel.elaborate D = .ok E)
    (order : List Nat) (hinj : OrdInj (toAbs D) (toSched E order)) {v : Val} {run : Nat → Bool}
    (hs : ExclSem (toAbs D) v) (hm : MethodRunEq (toAbs D) v run)
    (he : Eager (toAbs D) v (toSched E order) run)
    {m : Nat} (hne : (toAbs D).nonexcl m = false) : (activeSites (toAbs D) v run m).length ≤ 1 :=
  c01_of_elaborate h order hs hm (he.mutex (elaborate_sound h order).2.2.2.2.1 hinj) hne

-- OBLIGATION c01_of_elaborate_rr : the same under trivial_roundrobin_cc_scheduler: Mutex is derived from "at most one grant per component" and "every cgr edge inside one component" (driver-checked on the implementation's ccs)
theorem c01_of_elaborate_rr {D : CoreModel.Design} {E : CoreModel.Elab} (h : CoreModel.elaborate D = .ok E)
    (order : List Nat) {comp : Nat → Nat} (hc : CompOk (toAbs D) (toSched E order) comp)
    {v : Val} {run : Nat → Bool} (hs : ExclSem (toAbs D) v) (hm : MethodRunEq (toAbs D) v run)
    (he : RoundRobin (toAbs D) v comp run)
    {m : Nat} (hne : (toAbs D).nonexcl m = false) : (activeSites (toAbs D) v run m).length ≤ 1 :=
  c01_of_elaborate h order hs hm (he.mutex hc) hne

-- OBLIGATION c11_elaborate_sound : C11 soundness for the executable manager model: elaborate = ok ⇒ no double call from any root (ValidRoot), call chains bounded hence no method calls itself
theorem c11_elaborate_sound {D : CoreModel.Design} {E : CoreModel.Elab} (h : CoreModel.elaborate D = .ok E) :
    NoDoubleCall (toAbs D) ∧ NoSelfCall (toAbs D) ∧ Bounded (toAbs D) := by
  obtain ⟨_, _, hb, hvr, _, _⟩ := elaborate_sound h []
  exact ⟨hvr, noSelfCall_of_bounded hb, hb⟩

-- OBLIGATION core_static_of_elaborate : every static hypothesis of C01–C05 and C08 (Accepted, ValidOrder, SitesNodup) is PROVED for every design the executable manager model accepts, from elaborate = ok and the executable order check `validOrder E.g.before D.transactions order` (which the driver evaluates on the implementation's porder)
theorem core_static_of_elaborate {D : CoreModel.Design} {E : CoreModel.Elab} (h : CoreModel.elaborate D = .ok E)
    {order : List Nat} (ho : CoreModel.validOrder E.g.before D.transactions order = true) :
    Accepted (toAbs D) (toSched E order) ∧ ValidOrder (toAbs D) (toSched E order) ∧ (toAbs D).SitesNodup :=
  elaborate_static h ho

-- OBLIGATION c02_of_elaborate : C02 for every design the executable manager model accepts (with a valid order), any scheduler: the two ends of an add_conflict relation never both run, under the per-cycle hypothesis Cycle (driver-checked per valuation)
theorem c02_of_elaborate {D : CoreModel.Design} {E : CoreModel.Elab} (h : CoreModel.elaborate D = .ok E)
    {order : List Nat} (ho : CoreModel.validOrder E.g.before D.transactions order = true)
    {v : Val} {run : Nat → Bool} (hC : Cycle (toAbs D) v (toSched E order) run) {a b : Nat}
    (hrel : ConflictRel (toAbs D) a b) : ¬ (run a = true ∧ run b = true) :=
  conflict_never_both (elaborate_static h ho).1 hC hrel

-- OBLIGATION c05_of_elaborate : C05 sentence 1 for every design the executable manager model accepts (with a valid order): a running exclusive method has exactly one active call site and receives its argument, under the per-cycle hypothesis Cycle
theorem c05_of_elaborate {D : CoreModel.Design} {E : CoreModel.Elab} (h : CoreModel.elaborate D = .ok E)
    {order : List Nat} (ho : CoreModel.validOrder E.g.before D.transactions order = true)
    {v : Val} {run : Nat → Bool} (hC : Cycle (toAbs D) v (toSched E order) run) {m : Nat}
    (hlt : m < (toAbs D).n) (hmt : (toAbs D).isTrans m = false) (hne : (toAbs D).nonexcl m = false)
    (hr : run m = true) :
    ∃ s, activeSites (toAbs D) v run m = [s] ∧ dataIn defaultCombiner (toAbs D) v run m = v.arg s.2.site :=
  exclusive_input (elaborate_static h ho).1 hC (elaborate_static h ho).2.2 hlt hmt hne hr

-- OBLIGATION c08_left_of_elaborate : C08 (LEFT) for every design the executable manager model accepts (with a valid order), under the per-cycle hypotheses Eager and ExclReady
theorem c08_left_of_elaborate {D : CoreModel.Design} {E : CoreModel.Elab} (h : CoreModel.elaborate D = .ok E)
    {order : List Nat} (ho : CoreModel.validOrder E.g.before D.transactions order = true)
    {v : Val} {run : Nat → Bool} (he : Eager (toAbs D) v (toSched E order) run) (hr : ExclReady (toAbs D) v)
    {a b ta tb : Nat} (hrel : ConflictRelPrio (toAbs D) a b .left) (hta : TransFor (toAbs D) ta a)
    (htb : TransFor (toAbs D) tb b) (hne : ta ≠ tb) (ea : FullyEnabled (toAbs D) v run ta)
    (eb : FullyEnabled (toAbs D) v run tb) (hrun : run tb = true) :
    run ta = false ∧ ∃ t'', t'' ≠ tb ∧ (toAbs D).isTrans t'' = true ∧ (toSched E order).cgr ta t'' = true ∧
      run t'' = true :=
  priority_left (elaborate_static h ho).1 he hr (elaborate_static h ho).2.1 hrel hta htb hne ea eb hrun

-- OBLIGATION c07_of_elaborate : C07 for every design the executable manager model accepts: under the per-cycle hypothesis Eager (driver-checked) a ready ∧ runnable transaction that does not run has a running conflict-graph neighbour sharing an exclusive method on non-exclusive call paths or related by a lifted add_conflict; "edges come from nowhere else" (CgrSources) is PROVED for the model's graph (elaborate_cgrSources)
theorem c07_of_elaborate {D : CoreModel.Design} {E : CoreModel.Elab} (h : CoreModel.elaborate D = .ok E)
    (order : List Nat) {v : Val} {run : Nat → Bool} (he : Eager (toAbs D) v (toSched E order) run) {t : Nat}
    (ht : (toAbs D).isTrans t = true) (hready : v.ready t = true) (hrunnable : Runnable (toAbs D) v run t)
    (hnr : run t = false) :
    ∃ t', (toAbs D).isTrans t' = true ∧ t' ≠ t ∧ run t' = true ∧
      (toSched E order).ord t' < (toSched E order).ord t ∧ (toSched E order).cgr t t' = true ∧
      (SharedExclusive (toAbs D) t t' ∨ LiftedConflict (toAbs D) t t') :=
  blocked_by_conflict he (elaborate_cgrSources h order) ht hready hrunnable hnr

end TxV.Core.Bridge

#print axioms TxV.Core.Bridge.c07_of_elaborate
#print axioms TxV.Core.Bridge.core_static_of_elaborate
#print axioms TxV.Core.Bridge.c02_of_elaborate
#print axioms TxV.Core.Bridge.c05_of_elaborate
#print axioms TxV.Core.Bridge.c08_left_of_elaborate
#print axioms TxV.Core.Bridge.c01_of_elaborate
#print axioms TxV.Core.Bridge.c01_of_elaborate_eager
#print axioms TxV.Core.Bridge.c01_of_elaborate_rr
#print axioms TxV.Core.Bridge.c11_elaborate_sound
