import TxV.Core.Conflicts
/-!
# Core theory: an acyclic finite relation has a topological order (`topo_exists`, C08/C11)

`exists_topo`: for any relation `R` on `Nat` without cycles and any duplicate-free list of nodes there is
a rank function that is injective on the nodes and increases along every `R`-edge between nodes.
Proof: a non-empty node set of an acyclic relation has a source (otherwise following predecessors
`|nodes|+1` times revisits a node — pigeonhole — which closes a cycle); give the source rank 0 and
recurse on the rest.
-/
namespace TxV.Core

inductive TPath (R : Nat → Nat → Prop) : Nat → Nat → Prop where
  | single {x y} : R x y → TPath R x y
  | cons {x y z} : R x y → TPath R y z → TPath R x z

theorem TPath.snoc {R : Nat → Nat → Prop} {x y z : Nat} (p : TPath R x y) (e : R y z) : TPath R x z := by
  induction p with
  | single e' => exact .cons e' (.single e)
  | cons e' _ ih => exact .cons e' (ih e)

/-! ## pigeonhole -/

theorem nodup_length_le : ∀ (l1 l2 : List Nat), l1.Nodup → (∀ x ∈ l1, x ∈ l2) → l1.length ≤ l2.length
  | [], _, _, _ => Nat.zero_le _
  | a :: l1, l2, hn, hs => by
    have ha : a ∈ l2 := hs a (List.mem_cons_self ..)
    rw [List.nodup_cons] at hn
    have hs' : ∀ x ∈ l1, x ∈ l2.erase a := by
      intro x hx
      have hne : x ≠ a := fun h => hn.1 (h ▸ hx)
      exact (List.mem_erase_of_ne hne).2 (hs x (List.mem_cons_of_mem _ hx))
    have ih := nodup_length_le l1 (l2.erase a) hn.2 hs'
    rw [List.length_erase_of_mem ha] at ih
    have : 0 < l2.length := List.length_pos_of_mem ha
    simp only [List.length_cons]; omega

theorem pigeonhole (l : List Nat) (f : Nat → Nat) (h : ∀ i, f i ∈ l) : ∃ i j, i < j ∧ f i = f j := by
  apply Classical.byContradiction
  intro hno
  have hnd : ((List.range (l.length + 1)).map f).Nodup := by
    rw [List.Nodup, List.pairwise_iff_getElem]
    intro i j hi hj hij heq
    simp only [List.getElem_map, List.getElem_range] at heq
    exact hno ⟨i, j, hij, heq⟩
  have := nodup_length_le _ l hnd (by
    intro x hx
    obtain ⟨i, _, rfl⟩ := List.mem_map.1 hx
    exact h i)
  simp at this
  omega

/-! ## sources and the order -/

theorem exists_source (R : Nat → Nat → Prop) (hac : ∀ x, ¬ TPath R x x) (nodes : List Nat) (hne : nodes ≠ []) :
    ∃ s ∈ nodes, ∀ a ∈ nodes, ¬ R a s := by
  apply Classical.byContradiction
  intro hno
  have hpred : ∀ s, s ∈ nodes → ∃ a, a ∈ nodes ∧ R a s := by
    intro s hs
    apply Classical.byContradiction
    intro h
    exact hno ⟨s, hs, fun a ha hr => h ⟨a, ha, hr⟩⟩
  obtain ⟨x0, hx0⟩ := List.exists_mem_of_ne_nil nodes hne
  -- a predecessor function on the nodes
  let p : Nat → Nat := fun s => if hs : s ∈ nodes then Classical.choose (hpred s hs) else s
  have hp : ∀ s, s ∈ nodes → p s ∈ nodes ∧ R (p s) s := by
    intro s hs
    have := Classical.choose_spec (hpred s hs)
    simp only [p, hs, dif_pos]
    exact this
  let f : Nat → Nat := fun k => Nat.rec x0 (fun _ y => p y) k
  have hf0 : f 0 = x0 := rfl
  have hfs : ∀ k, f (k+1) = p (f k) := fun _ => rfl
  have hmem : ∀ k, f k ∈ nodes := by
    intro k
    induction k with
    | zero => exact hx0
    | succ k ih => rw [hfs]; exact (hp _ ih).1
  have hpath : ∀ d i, TPath R (f (i + d + 1)) (f i) := by
    intro d
    induction d with
    | zero =>
      intro i
      show TPath R (p (f i)) (f i)
      exact .single (hp _ (hmem i)).2
    | succ d ih =>
      intro i
      show TPath R (p (f (i + d + 1))) (f i)
      exact .cons (hp (f (i + d + 1)) (hmem (i + d + 1))).2 (ih i)
  obtain ⟨i, j, hij, he⟩ := pigeonhole nodes f hmem
  have := hpath (j - i - 1) i
  have e : i + (j - i - 1) + 1 = j := by omega
  rw [e, ← he] at this
  exact hac _ this

theorem exists_topo (R : Nat → Nat → Prop) (hac : ∀ x, ¬ TPath R x x) :
    ∀ (k : Nat) (nodes : List Nat), nodes.length = k → nodes.Nodup →
      ∃ ord : Nat → Nat, (∀ a ∈ nodes, ∀ b ∈ nodes, R a b → ord a < ord b) ∧
        (∀ a ∈ nodes, ∀ b ∈ nodes, ord a = ord b → a = b)
  | 0, nodes, hl, _ => by
    have : nodes = [] := List.eq_nil_of_length_eq_zero hl
    subst this
    exact ⟨fun _ => 0, by simp, by simp⟩
  | k+1, nodes, hl, hnd => by
    have hne : nodes ≠ [] := by intro h; rw [h] at hl; simp at hl
    obtain ⟨s, hs, hsrc⟩ := exists_source R hac nodes hne
    have hl' : (nodes.erase s).length = k := by rw [List.length_erase_of_mem hs, hl]; rfl
    obtain ⟨ord', h1, h2⟩ := exists_topo R hac k (nodes.erase s) hl' (hnd.erase s)
    have hmem : ∀ x, x ∈ nodes → x ≠ s → x ∈ nodes.erase s := fun x hx hne => (List.mem_erase_of_ne hne).2 hx
    refine ⟨fun x => if x = s then 0 else ord' x + 1, ?_, ?_⟩
    · intro a ha b hb hr
      have hbs : b ≠ s := fun h => hsrc a ha (h ▸ hr)
      by_cases has : a = s
      · simp [has, hbs]
      · simp only [has, hbs, if_false]
        have := h1 a (hmem a ha has) b (hmem b hb hbs) hr
        omega
    · intro a ha b hb he
      by_cases has : a = s <;> by_cases hbs : b = s
      · rw [has, hbs]
      · simp [has, hbs] at he
      · simp [has, hbs] at he
      · simp only [has, hbs, if_false] at he
        exact h2 a (hmem a ha has) b (hmem b hb hbs) (by omega)

/-! ## the priority graph -/

theorem pgrPath_of_tpath {D : Design} {x y : Nat} (p : TPath (PgrEdge D) x y) : PgrPath D x y := by
  induction p with
  | single e => exact .single e
  | cons e _ ih => exact .cons e ih

theorem tpath_of_pgrPath {D : Design} {x y : Nat} (p : PgrPath D x y) : TPath (PgrEdge D) x y := by
  induction p with
  | single e => exact .single e
  | cons e _ ih => exact .cons e ih

theorem PgrEdge.lt {D : Design} {x y : Nat} (h : PgrEdge D x y) : x < D.n ∧ y < D.n := by
  obtain ⟨a, b, r, _, _, _, _, ta, tb, hta, htb, _, h | h⟩ := h
  · obtain ⟨_, rfl, rfl⟩ := h; exact ⟨D.isTrans_lt hta.1, D.isTrans_lt htb.1⟩
  · obtain ⟨_, rfl, rfl⟩ := h; exact ⟨D.isTrans_lt htb.1, D.isTrans_lt hta.1⟩

/-- **topo_exists**: the priority constraints are acyclic iff a valid priority order exists (which can
moreover be chosen injective) -/
theorem topo_exists (D : Design) (cgr : Nat → Nat → Bool) :
    (∀ x, ¬ PgrPath D x x) ↔ ∃ ord : Nat → Nat, ValidOrder D ⟨ord, cgr⟩ ∧ OrdInj D ⟨ord, cgr⟩ := by
  constructor
  · intro hac
    obtain ⟨ord, h1, h2⟩ := exists_topo (PgrEdge D) (fun x p => hac x (pgrPath_of_tpath p)) D.n
      (List.range D.n) (by simp) List.nodup_range
    refine ⟨ord, ?_, ?_⟩
    · intro x y he
      obtain ⟨lx, ly⟩ := he.lt
      exact h1 x (List.mem_range.2 lx) y (List.mem_range.2 ly) he
    · intro a la b lb _ _ he
      exact h2 a (List.mem_range.2 la) b (List.mem_range.2 lb) he
  · rintro ⟨ord, hv, _⟩ x
    exact validOrder_acyclic hv x

end TxV.Core
