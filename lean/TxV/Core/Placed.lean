import TxV.Proofs.TModule
import TxV.Core.BridgeEval
import TxV.Core.Builder
import TxV.Core.Glue
import TxV.Core.Example
/-!
# Core theory ↔ the TModule lowering model of C06: enables and readys are "leaf in effect"

`toT` translates a control tree of the core theory (`Blk`: sites inside If/Elif/Else, Switch, FSM,
AvoidedIf structures) into program text against the TModule API (`TxV.TModule.TBlk`) in which every
site `s` — a call site (`enable_sig.eq(1)`, method.py:316) or a body definition (`ready.eq(…)`,
method.py:243, transaction.py:131) — is the `av_comb` leaf `assign .av s` at the same place.
`lower_sites`: in the avoiding module the lowering produces (C06's `lowerAv`, with Amaranth's
first-match semantics `effs`), the leaves are, in order, exactly the sites of `sitesBlk cv true …`,
and a leaf is in effect iff `sitesBlk` marks the site active.  Hence (`exclSem_of_lowering`) for the
valuation *induced* by a program — enable of a site := its leaf is in effect, ready of a body := its
leaf is in effect ∧ the value of its `ready=` expression — `ExclSem`/`ExclReady` hold with no
hypothesis about the valuation, and C01 follows for the executable model's run bits (`c01_of_program`).

Relation of the two tree types (explicit side conditions):
* `If/Elif/Else`: alternative `a` of `Kind.ifc conds` becomes `If/Elif(conds[a])` for `a < |conds|`, `Else` for
  `a = |conds|`; alternatives beyond the `Else` (never taken in either model) become a `Case()` that never matches.
* `Switch`: the theory abstracts a Switch by the index of the first matching case (`cv.sel sel = a`); the
  TModule program uses the canonical patterns `Case(a)` for the `a`-th alternative, on which first-match and
  `sel = a` coincide.
* `FSM`: states are named `0, 1, 2, …` in order (encoding = position); `fsm.ongoing` = `cv.state st = a`.
* `AvoidedIf`: `TBlk.avoided` has one body; `wfP` demands that an `avoid` structure has at most one alternative.
-/
namespace TxV.Core
open TxV.TModule (TBlk TAlts TStates TGuard Leaf Dom ABlk AAlts effs effsAlts lowerAv lowerAvAlts lowerAvStates)

/-- the same cycle valuation in C06's record -/
def toTV (cv : CVal) : TModule.Val := ⟨cv.cond, cv.sel, cv.run, cv.state⟩

def ifGuard (conds : List Nat) (a : Nat) : TGuard :=
  if a < conds.length then .cond (conds.getD a 0) else if a = conds.length then .els else .pats []

mutual
def toT : Blk → TBlk
  | .nil => .nil
  | .site s r => .leaf (.assign .av s) (toT r)
  | .struct (.ifc conds) alts r => .ifc (toIf conds 0 alts) (toT r)
  | .struct (.sw sel) alts r => .sw sel (toSw 0 alts) (toT r)
  | .struct (.fsm st) alts r => .fsm st 0 (toSt 0 alts) (toT r)
  | .struct (.avoid run) alts r => .avoided run (toAv alts) (toT r)
def toIf (conds : List Nat) : Nat → Alts → TAlts
  | _, .nil => .nil
  | a, .cons b r => .cons (ifGuard conds a) (toT b) (toIf conds (a+1) r)
def toSw : Nat → Alts → TAlts
  | _, .nil => .nil
  | a, .cons b r => .cons (.pats [a]) (toT b) (toSw (a+1) r)
def toSt : Nat → Alts → TStates
  | _, .nil => .nil
  | a, .cons b r => .cons a (toT b) (toSt (a+1) r)
/-- the body of an `AvoidedIf` is its (only) alternative -/
def toAv : Alts → TBlk
  | .nil => .nil
  | .cons b _ => toT b
end

def avoidOk : Kind → Alts → Bool
  | .avoid _, .cons _ (.cons _ _) => false
  | _, _ => true

mutual
/-- side condition: an `AvoidedIf` has at most one alternative -/
def wfP : Blk → Bool
  | .nil => true
  | .site _ r => wfP r
  | .struct k alts r => avoidOk k alts && wfPA alts && wfP r
def wfPA : Alts → Bool
  | .nil => true
  | .cons b r => wfP b && wfPA r
end

def outAct (l : List SiteInfo) : List (Leaf × Bool) := l.map fun e => (.assign .av e.id, e.act)

theorem outAct_append (a b : List SiteInfo) : outAct (a ++ b) = outAct a ++ outAct b := by simp [outAct]

/-! ## first-match bookkeeping -/

def ifHolds (cv : CVal) (conds : List Nat) (j : Nat) : Bool := ((ifGuard conds j).toGuard none).holds (toTV cv)

def freeIf (cv : CVal) (conds : List Nat) (a : Nat) : Bool := (List.range a).all fun j => !ifHolds cv conds j

theorem freeIf_succ (cv : CVal) (conds : List Nat) (a : Nat) :
    freeIf cv conds (a+1) = (freeIf cv conds a && !ifHolds cv conds a) := by
  simp [freeIf, List.range_succ, List.all_append]

theorem ifHolds_lt (cv : CVal) (conds : List Nat) {j : Nat} (h : j < conds.length) :
    ifHolds cv conds j = cv.cond (conds.getD j 0) := by
  simp [ifHolds, ifGuard, h, TGuard.toGuard, TModule.Guard.holds, TModule.Cond.holds, toTV]

theorem freeIf_le (cv : CVal) (conds : List Nat) {a : Nat} (h : a ≤ conds.length) :
    freeIf cv conds a = (List.range a).all (fun j => !(cv.cond (conds.getD j 0))) := by
  unfold freeIf
  rw [Bool.eq_iff_iff]
  simp only [List.all_eq_true, List.mem_range]
  constructor
  · intro hh j hj; rw [← ifHolds_lt cv conds (by omega : j < conds.length)]; exact hh j hj
  · intro hh j hj; rw [ifHolds_lt cv conds (by omega : j < conds.length)]; exact hh j hj

theorem if_taken (cv : CVal) (conds : List Nat) (a : Nat) :
    (freeIf cv conds a && ifHolds cv conds a) = altTaken cv true (.ifc conds) a := by
  rcases Nat.lt_trichotomy a conds.length with h | h | h
  · rw [freeIf_le cv conds (Nat.le_of_lt h), ifHolds_lt cv conds h]
    simp [altTaken, h]
  · subst h
    rw [freeIf_le cv conds (Nat.le_refl _)]
    have : ifHolds cv conds conds.length = true := by
      simp [ifHolds, ifGuard, TGuard.toGuard, TModule.Guard.holds]
    simp [altTaken, this]
  · have h1 : ifHolds cv conds a = false := by
      have h' : ¬ a < conds.length := by omega
      have h'' : ¬ a = conds.length := by omega
      simp [ifHolds, ifGuard, h', h'', TGuard.toGuard, TModule.Guard.holds]
    have h2 : ¬ a < conds.length := by omega
    have h3 : (a == conds.length) = false := by simp; omega
    simp [altTaken, h1, h2, h3]

def freeSw (cv : CVal) (sel a : Nat) : Bool := (List.range a).all fun j => !(cv.sel sel == j)

theorem freeSw_succ (cv : CVal) (sel a : Nat) : freeSw cv sel (a+1) = (freeSw cv sel a && !(cv.sel sel == a)) := by
  simp [freeSw, List.range_succ, List.all_append]

theorem sw_taken (cv : CVal) (sel a : Nat) : (freeSw cv sel a && (cv.sel sel == a)) = (cv.sel sel == a) := by
  by_cases h : cv.sel sel = a
  · have : freeSw cv sel a = true := by
      simp only [freeSw, List.all_eq_true, List.mem_range, Bool.not_eq_true', beq_eq_false_iff_ne]
      intro j hj; omega
    simp [this]
  · simp [h]

/-! ## the lowering marks exactly the active sites -/

mutual
theorem lower_blk (cv : CVal) : ∀ (b : Blk), wfP b = true → ∀ (pre : List Edge) (act : Bool) (par : Nat),
    effs (toTV cv) act (lowerAv (toT b)) = outAct (sitesBlk cv true pre act par b)
  | .nil, _, _, _, _ => by simp [toT, lowerAv, effs, sitesBlk, outAct]
  | .site s r, hw, pre, act, par => by
    simp only [wfP] at hw
    simp [toT, lowerAv, TModule.Leaf.dom, effs, sitesBlk, outAct, lower_blk cv r hw pre act par]
  | .struct (.ifc conds) alts r, hw, pre, act, par => by
    simp only [wfP, Bool.and_eq_true] at hw
    have h1 := lower_if cv conds alts hw.1.2 pre act par 0
    have h2 := lower_blk cv r hw.2 pre act (par+1)
    simp only [freeIf, List.range_zero, List.all_nil] at h1
    simp [toT, lowerAv, effs, sitesBlk, outAct_append, h1, h2]
  | .struct (.sw sel) alts r, hw, pre, act, par => by
    simp only [wfP, Bool.and_eq_true] at hw
    have h1 := lower_sw cv sel alts hw.1.2 pre act par 0
    have h2 := lower_blk cv r hw.2 pre act (par+1)
    simp only [freeSw, List.range_zero, List.all_nil] at h1
    simp [toT, lowerAv, effs, sitesBlk, outAct_append, h1, h2]
  | .struct (.fsm st) alts r, hw, pre, act, par => by
    simp only [wfP, Bool.and_eq_true] at hw
    have h1 := lower_st cv st alts hw.1.2 pre act par 0
    have h2 := lower_blk cv r hw.2 pre act (par+1)
    simp [toT, lowerAv, TModule.effs_append, sitesBlk, outAct_append, h1, h2]
  | .struct (.avoid run) alts r, hw, pre, act, par => by
    simp only [wfP, Bool.and_eq_true] at hw
    have h2 := lower_blk cv r hw.2 pre act (par+1)
    simp only [toT, lowerAv, TModule.effs_append, sitesBlk, outAct_append, h2]
    congr 1
    match alts, hw with
    | .nil, _ => simp [toAv, lowerAv, effs, sitesAlts, outAct]
    | .cons b .nil, hw =>
      simp only [wfPA, Bool.and_eq_true] at hw
      have := lower_blk cv b hw.1.2.1 (pre ++ [⟨0 + altOffset (.avoid run), par⟩]) act 0
      simp [toAv, sitesAlts, altTaken, this, outAct]
    | .cons _ (.cons _ _), hw => simp [avoidOk] at hw
theorem lower_if (cv : CVal) (conds : List Nat) : ∀ (al : Alts), wfPA al = true →
    ∀ (pre : List Edge) (act : Bool) (par a : Nat),
      effsAlts (toTV cv) act (freeIf cv conds a) (lowerAvAlts none (toIf conds a al)) =
        outAct (sitesAlts cv true pre act par (.ifc conds) a al)
  | .nil, _, _, _, _, _ => by simp [toIf, lowerAvAlts, effsAlts, sitesAlts, outAct]
  | .cons b r, hw, pre, act, par, a => by
    simp only [wfPA, Bool.and_eq_true] at hw
    have h1 := lower_blk cv b hw.1 (pre ++ [⟨a + altOffset (.ifc conds), par⟩])
      (act && altTaken cv true (.ifc conds) a) 0
    have h2 := lower_if cv conds r hw.2 pre act par (a+1)
    rw [freeIf_succ] at h2
    have e : (act && freeIf cv conds a && ((ifGuard conds a).toGuard none).holds (toTV cv)) =
        (act && altTaken cv true (.ifc conds) a) := by
      rw [Bool.and_assoc]; congr 1; exact if_taken cv conds a
    simp only [toIf, lowerAvAlts, effsAlts, sitesAlts, outAct_append, e, h1]
    congr 1
theorem lower_sw (cv : CVal) (sel : Nat) : ∀ (al : Alts), wfPA al = true →
    ∀ (pre : List Edge) (act : Bool) (par a : Nat),
      effsAlts (toTV cv) act (freeSw cv sel a) (lowerAvAlts (some sel) (toSw a al)) =
        outAct (sitesAlts cv true pre act par (.sw sel) a al)
  | .nil, _, _, _, _, _ => by simp [toSw, lowerAvAlts, effsAlts, sitesAlts, outAct]
  | .cons b r, hw, pre, act, par, a => by
    simp only [wfPA, Bool.and_eq_true] at hw
    have h1 := lower_blk cv b hw.1 (pre ++ [⟨a + altOffset (.sw sel), par⟩])
      (act && altTaken cv true (.sw sel) a) 0
    have h2 := lower_sw cv sel r hw.2 pre act par (a+1)
    rw [freeSw_succ] at h2
    have hg : ((TGuard.pats [a]).toGuard (some sel)).holds (toTV cv) = (cv.sel sel == a) := by
      simp [TGuard.toGuard, TModule.Guard.holds, toTV]
      constructor <;> intro h <;> exact h.symm
    have e : (act && freeSw cv sel a && (cv.sel sel == a)) = (act && altTaken cv true (.sw sel) a) := by
      rw [Bool.and_assoc, sw_taken]; rfl
    simp only [toSw, lowerAvAlts, effsAlts, sitesAlts, outAct_append, hg, e, h1]
    congr 1
theorem lower_st (cv : CVal) (st : Nat) : ∀ (al : Alts), wfPA al = true →
    ∀ (pre : List Edge) (act : Bool) (par a : Nat),
      effs (toTV cv) act (lowerAvStates st (toSt a al)) = outAct (sitesAlts cv true pre act par (.fsm st) a al)
  | .nil, _, _, _, _, _ => by simp [toSt, lowerAvStates, effs, sitesAlts, outAct]
  | .cons b r, hw, pre, act, par, a => by
    simp only [wfPA, Bool.and_eq_true] at hw
    have h1 := lower_blk cv b hw.1 (pre ++ [⟨a + altOffset (.fsm st), par⟩])
      (act && altTaken cv true (.fsm st) a) 0
    have h2 := lower_st cv st r hw.2 pre act par (a+1)
    have e : (act && true && (TModule.Guard.cond (.ongoing st a)).holds (toTV cv)) =
        (act && altTaken cv true (.fsm st) a) := by
      simp [TModule.Guard.holds, TModule.Cond.holds, toTV, altTaken]
    simp only [toSt, lowerAvStates, effs, effsAlts, sitesAlts, outAct_append, e, h1, h2, List.append_nil]
end

/-- **lower_sites**: the avoiding module of the lowered program contains, in program order, one `av_comb`
leaf per site, and the leaf is in effect exactly when `sitesBlk` (av view) marks the site active -/
theorem lower_sites (cv : CVal) (b : Blk) (hw : wfP b = true) :
    effs (toTV cv) true (TModule.lower (toT b)).avoiding =
      (sitesBlk cv true [] true 0 b).map fun e => (.assign .av e.id, e.act) :=
  lower_blk cv b hw [] true 0

/-! ## the recorded paths do not depend on the valuation -/

mutual
theorem paths_blk (cv cv' : CVal) (av av' : Bool) : ∀ (b : Blk) (pre : List Edge) (act act' : Bool) (par : Nat),
    outOf (sitesBlk cv av pre act par b) = outOf (sitesBlk cv' av' pre act' par b)
  | .nil, _, _, _, _ => rfl
  | .site s r, pre, act, act', par => by
    simp only [sitesBlk, outOf, List.map_cons]
    have := paths_blk cv cv' av av' r pre act act' par
    simp only [outOf] at this
    rw [this]
  | .struct k alts r, pre, act, act', par => by
    simp only [sitesBlk, outOf_append]
    rw [paths_alts cv cv' av av' k alts pre act act' par 0, paths_blk cv cv' av av' r pre act act' (par+1)]
theorem paths_alts (cv cv' : CVal) (av av' : Bool) (k : Kind) : ∀ (al : Alts) (pre : List Edge) (act act' : Bool)
    (par a : Nat), outOf (sitesAlts cv av pre act par k a al) = outOf (sitesAlts cv' av' pre act' par k a al)
  | .nil, _, _, _, _, _ => rfl
  | .cons b r, pre, act, act', par, a => by
    simp only [sitesAlts, outOf_append]
    rw [paths_blk cv cv' av av' b _ _ (act' && altTaken cv' av' k a) 0, paths_alts cv cv' av av' k r pre act act' par (a+1)]
end

/-! ## programs -/

def cv0 : CVal := ⟨fun _ => false, fun _ => 0, fun _ => 0, fun _ => false⟩

/-- the sites of a program with their recorded control paths (static) -/
def progSites (mods : List (Int × Blk)) : List (Nat × CtrlPath) :=
  (sitesProg cv0 true mods).map fun e => (e.id, e.path)

theorem progSites_eq (cv : CVal) (mods : List (Int × Blk)) :
    (sitesProg cv true mods).map (fun e => (e.id, e.path)) = progSites mods := by
  unfold progSites sitesProg
  simp only [List.map_flatMap]
  apply Bridge.flatMap_congr_mem
  intro m _
  unfold sitesModule
  simp only [List.map_map]
  have := paths_blk cv cv0 true true m.2 [] true true 0
  simp only [outOf] at this
  have e : ∀ (l : List SiteInfo), List.map ((fun e : MSite => (e.id, e.path)) ∘ fun e => ⟨e.id, ⟨m.1, e.path⟩, e.act⟩) l =
      (l.map fun e => (e.id, e.path)).map fun p => (p.1, (⟨m.1, p.2⟩ : CtrlPath)) := by
    intro l; simp [Function.comp_def]
  rw [e, e, this]

/-- the leaf of site `s` is in effect in the avoiding module of some module of the program -/
def leafInEffect (cv : CVal) (mods : List (Int × Blk)) (s : Nat) : Bool :=
  mods.any fun m => TModule.active (effs (toTV cv) true (TModule.lower (toT m.2)).avoiding) (.assign .av s)

theorem leafInEffect_iff {cv : CVal} {mods : List (Int × Blk)} (hw : ∀ m ∈ mods, wfP m.2 = true) {s : Nat} :
    leafInEffect cv mods s = true ↔ ∃ e ∈ sitesProg cv true mods, e.id = s ∧ e.act = true := by
  unfold leafInEffect sitesProg
  simp only [List.any_eq_true, List.mem_flatMap]
  constructor
  · rintro ⟨m, hm, ha⟩
    rw [TModule.active_iff, lower_sites cv m.2 (hw m hm)] at ha
    obtain ⟨e, he, heq⟩ := List.mem_map.1 ha
    simp only [Prod.mk.injEq, TModule.Leaf.assign.injEq, true_and] at heq
    exact ⟨⟨e.id, ⟨m.1, e.path⟩, e.act⟩, ⟨m, hm, List.mem_map.2 ⟨e, he, rfl⟩⟩, heq.1, heq.2⟩
  · rintro ⟨e, ⟨m, hm, he⟩, hid, hact⟩
    refine ⟨m, hm, ?_⟩
    rw [TModule.active_iff, lower_sites cv m.2 (hw m hm)]
    obtain ⟨e', he', rfl⟩ := List.mem_map.1 he
    exact List.mem_map.2 ⟨e', he', by simp at hid hact; simp [hid, hact]⟩

/-- the flat design was extracted from the program: module ids are distinct, `AvoidedIf`s have one body, site
ids are unique, and every call / body definition of the design is a site of the program with the recorded
control path (what `CtrlPathBuilder` produces: `builder_positional`).  Static and decidable; nothing about a valuation. -/
def ExtractedFrom (D : Design) (mods : List (Int × Blk)) (defSite : Nat → Nat) : Prop :=
  (mods.map (·.1)).Nodup ∧ (∀ m ∈ mods, wfP m.2 = true) ∧ ((progSites mods).map (·.1)).Nodup ∧
  (∀ c ∈ D.allCalls, (c.site, c.path) ∈ progSites mods) ∧
  (∀ b, b < D.n → (defSite b, (D.body b).defPath) ∈ progSites mods)

instance (D : Design) (mods : List (Int × Blk)) (defSite : Nat → Nat) : Decidable (ExtractedFrom D mods defSite) := by
  unfold ExtractedFrom
  have : Decidable (∀ b, b < D.n → (defSite b, (D.body b).defPath) ∈ progSites mods) := Nat.decidableBallLT _ _
  infer_instance

theorem eq_of_nodup_map {α β : Type} (f : α → β) : ∀ (l : List α), (l.map f).Nodup → ∀ a ∈ l, ∀ b ∈ l, f a = f b → a = b
  | [], _, a, ha, _, _, _ => by simp at ha
  | x :: l, hn, a, ha, b, hb, he => by
    simp only [List.map_cons, List.nodup_cons, List.mem_map, not_exists, not_and] at hn
    simp only [List.mem_cons] at ha hb
    rcases ha with rfl | ha <;> rcases hb with rfl | hb
    · rfl
    · exact absurd he.symm (hn.1 b hb)
    · exact absurd he (hn.1 a ha)
    · exact eq_of_nodup_map f l hn.2 a ha b hb he

section
variable {D : Design} {mods : List (Int × Blk)} {defSite : Nat → Nat}

/-- a site of the program that is in effect, and is recorded in the design with path `p`, is an active entry
of `sitesProg` with that path -/
theorem placed_of_effect (hx : ExtractedFrom D mods defSite) (cv : CVal) {s : Nat} {p : CtrlPath}
    (hin : (s, p) ∈ progSites mods) :
    ∃ e ∈ sitesProg cv true mods, e.path = p ∧ (leafInEffect cv mods s = true → e.act = true) := by
  obtain ⟨_, hw, hnd, _, _⟩ := hx
  rw [← progSites_eq cv mods] at hin hnd
  obtain ⟨e, he, heq⟩ := List.mem_map.1 hin
  simp only [Prod.mk.injEq] at heq
  refine ⟨e, he, heq.2, ?_⟩
  intro hl
  obtain ⟨e', he', hid, hact⟩ := (leafInEffect_iff hw).1 hl
  rw [List.map_map] at hnd
  have := eq_of_nodup_map _ _ hnd e he e' he' (by simp [heq.1, hid])
  rw [this]; exact hact

theorem callsPlaced_of_lowering (hx : ExtractedFrom D mods defSite) (cv : CVal) (v : Val)
    (hen : ∀ s, v.en s = true → leafInEffect cv mods s = true) : CallsPlaced D v cv mods := by
  intro c hc
  obtain ⟨e, he, hp, ha⟩ := placed_of_effect hx cv (hx.2.2.2.1 c hc)
  exact ⟨e, he, hp, fun h => ha (hen _ h)⟩

theorem bodiesPlaced_of_lowering (hx : ExtractedFrom D mods defSite) (cv : CVal) (v : Val)
    (hrd : ∀ b, v.ready b = true → leafInEffect cv mods (defSite b) = true) : BodiesPlaced D v cv mods := by
  intro b hb
  obtain ⟨e, he, hp, ha⟩ := placed_of_effect hx cv (hx.2.2.2.2 b hb)
  exact ⟨e, he, hp, fun h => ha (hrd _ h)⟩

/-- the valuation induced by a program and a condition valuation: the enable of a site is "its `av_comb` leaf
is in effect" (an `enable_call` argument is itself an `If` around the call, method.py:311), the ready of a body
is "its leaf is in effect ∧ the value of the `ready=` expression" -/
def progVal (mods : List (Int × Blk)) (defSite : Nat → Nat) (cv : CVal) (rdy : Nat → Bool) (arg : Nat → Nat)
    (pred : Nat → Nat → Bool) : Val :=
  ⟨fun b => leafInEffect cv mods (defSite b) && rdy b, fun s => leafInEffect cv mods s, arg, pred⟩

end

/-! ## Props-layout section -/

-- OBLIGATION placed_lower_sites : for every control tree whose AvoidedIf structures have at most one alternative (wfP) and every condition valuation: in the avoiding module produced by C06's lowering of the translated program (toT: every site an av_comb leaf at the same place; Amaranth first-match semantics effs) the leaves are, in program order, exactly the sites of sitesBlk (av view), and a leaf is in effect iff sitesBlk marks its site active
theorem placed_lower_sites (cv : CVal) (b : Blk) (hw : wfP b = true) :
    effs (toTV cv) true (TModule.lower (toT b)).avoiding =
      (sitesBlk cv true [] true 0 b).map fun e => (.assign .av e.id, e.act) :=
  lower_sites cv b hw

-- OBLIGATION placed_site_conditions : via C06's c06_av (av_mem): the activity sitesBlk assigns to a site equals "all enclosing ORDINARY (non-AvoidedIf) conditions of the corresponding av_comb placement hold", for every wfP tree and valuation
theorem placed_site_conditions (cv : CVal) (b : Blk) (hw : wfP b = true) {e : SiteInfo}
    (he : e ∈ sitesBlk cv true [] true 0 b) :
    ∃ p ∈ TModule.places (toT b), p.leaf = .assign .av e.id ∧
      e.act = (p.encl.filter TModule.Encl.ordinary).all (fun c => c.holds (toTV cv)) := by
  have hm : ((Leaf.assign .av e.id), e.act) ∈ effs (toTV cv) true (lowerAv (toT b)) := by
    have := lower_sites cv b hw
    simp only [TModule.lower] at this
    rw [this]; exact List.mem_map.2 ⟨e, he, rfl⟩
  obtain ⟨p, hp, h1, _, h3⟩ := (TModule.av_mem (toTV cv) (toT b) _ _).1 hm
  exact ⟨p, hp, h1, h3⟩

-- OBLIGATION placed_regardless_of_run : the in-effect status of every site leaf does not depend on any run signal (C06 c06_av_regardless applied to the translated program): enables and readys are functions of the condition inputs only
theorem placed_regardless_of_run (cv : CVal) (run' : Nat → Bool) (mods : List (Int × Blk)) (s : Nat) :
    leafInEffect { cv with run := run' } mods s = leafInEffect cv mods s := by
  unfold leafInEffect
  congr 1; funext m
  have := TModule.av_norun_blk (toTV cv) run' (toT m.2) true
  simp only [TModule.lower]
  exact congrArg (fun es => TModule.active es (.assign .av s)) this

-- OBLIGATION exclSem_of_lowering : for every design extracted from a program (ExtractedFrom: static, decidable — distinct module ids, wfP, unique site ids, every call / body definition is a program site with its recorded path) and EVERY condition valuation: the valuation whose enables are "site leaf in effect" and whose readys are "definition leaf in effect ∧ ready expression" satisfies ExclSem and ExclReady — no placement hypothesis, no hypothesis on the valuation
theorem exclSem_of_lowering {D : Design} {mods : List (Int × Blk)} {defSite : Nat → Nat}
    (hx : ExtractedFrom D mods defSite) (cv : CVal) (rdy : Nat → Bool) (arg : Nat → Nat) (pred : Nat → Nat → Bool) :
    ExclSem D (progVal mods defSite cv rdy arg pred) ∧ ExclReady D (progVal mods defSite cv rdy arg pred) :=
  ⟨exclSem_of_tree cv mods hx.1 (callsPlaced_of_lowering hx cv _ (fun _ h => h)),
   exclReady_of_tree cv mods hx.1 (bodiesPlaced_of_lowering hx cv _ (fun b h => by
     simp only [progVal, Bool.and_eq_true] at h; exact h.1))⟩

namespace Bridge
open TxV.CoreModel (Elab)

/-- the executable model's valuation induced by a program: `en`/`ready` as in `progVal` -/
def progCVal (mods : List (Int × Blk)) (defSite : Nat → Nat) (cv : CVal) (rdy : Nat → Bool) (arg loc : Nat → Nat) :
    CoreModel.Val :=
  ⟨fun b => leafInEffect cv mods (defSite b) && rdy b, fun s => leafInEffect cv mods s, arg, loc⟩

-- OBLIGATION c01_of_program : C01 sentence 1 for the executable model's computed run bits (eager scheduler) with NO per-cycle hypothesis: for every design the executable manager model accepts (elaborate = ok), order passing the executable check, ReadyDepLeft, extracted from a program (ExtractedFrom), every condition valuation, ready-expression values and arguments: under the induced valuation every exclusive method has at most one active call site
theorem c01_of_program {D : CoreModel.Design} {E : Elab} {order : List Nat}
    (hE : CoreModel.elaborate D = .ok E)
    (hO : CoreModel.validOrder E.g.before D.transactions order = true) (hL : ReadyDepLeft (toAbs D))
    {mods : List (Int × Blk)} {defSite : Nat → Nat} (hx : ExtractedFrom (toAbs D) mods defSite)
    (cv : CVal) (rdy : Nat → Bool) (arg loc : Nat → Nat) {m : Nat} (hne : (toAbs D).nonexcl m = false) :
    let v := progCVal mods defSite cv rdy arg loc
    (activeSites (toAbs D) (toVal D v) (evalRun D E order v) m).length ≤ 1 := by
  intro v
  obtain ⟨hA, _, hn⟩ := elaborate_static hE hO
  have he := evalEager_eager hE hO hL v
  have hs : ExclSem (toAbs D) (toVal D v) :=
    exclSem_of_tree cv mods hx.1 (callsPlaced_of_lowering hx cv _ (fun _ h => h))
  have hr : ExclReady (toAbs D) (toVal D v) :=
    exclReady_of_tree cv mods hx.1 (bodiesPlaced_of_lowering hx cv _ (fun b h => by
      simp only [toVal, v, progCVal, Bool.and_eq_true] at h; exact h.1))
  exact at_most_one_active hA (Cycle.ofEager hA hs hr he.2 he.1) hn hne

-- OBLIGATION c02_of_program : C02 likewise with no per-cycle hypothesis: under the valuation induced by the program the two ends of an add_conflict relation never both have computed run bit 1
theorem c02_of_program {D : CoreModel.Design} {E : Elab} {order : List Nat}
    (hE : CoreModel.elaborate D = .ok E)
    (hO : CoreModel.validOrder E.g.before D.transactions order = true) (hL : ReadyDepLeft (toAbs D))
    {mods : List (Int × Blk)} {defSite : Nat → Nat} (hx : ExtractedFrom (toAbs D) mods defSite)
    (cv : CVal) (rdy : Nat → Bool) (arg loc : Nat → Nat) {a b : Nat} (hrel : ConflictRel (toAbs D) a b) :
    let v := progCVal mods defSite cv rdy arg loc
    ¬ (evalRun D E order v a = true ∧ evalRun D E order v b = true) := by
  intro v
  obtain ⟨hA, _, _⟩ := elaborate_static hE hO
  have he := evalEager_eager hE hO hL v
  have hs : ExclSem (toAbs D) (toVal D v) :=
    exclSem_of_tree cv mods hx.1 (callsPlaced_of_lowering hx cv _ (fun _ h => h))
  have hr : ExclReady (toAbs D) (toVal D v) :=
    exclReady_of_tree cv mods hx.1 (bodiesPlaced_of_lowering hx cv _ (fun b h => by
      simp only [toVal, v, progCVal, Bool.and_eq_true] at h; exact h.1))
  exact conflict_never_both hA (Cycle.ofEager hA hs hr he.2 he.1) hrel

/-! ### non-vacuity -/

/-- the module the design `EvalEx.D` of `BridgeEval` was written as: definitions at top level (site 100),
three transaction bodies, `K` defined inside `T0`'s body (site 101), `T2` calling `M5` in `If(c7)/Else` -/
def exTree : Blk :=
  .site 100 <|
  .struct (.avoid 0) (.cons (.site 0 (.site 101 .nil)) .nil) <|
  .struct (.avoid 1) (.cons (.site 1 (.site 2 .nil)) .nil) <|
  .struct (.avoid 2) (.cons
    (.struct (.ifc [7]) (.cons (.site 3 .nil) (.cons (.site 4 .nil) .nil)) .nil) .nil) .nil

def exDefSite : Nat → Nat := fun b => if b = 3 then 101 else 100
def exCv : CVal := ⟨fun _ => true, fun _ => 0, fun _ => 0, fun _ => false⟩

/-- the executable example design is extracted from `exTree`, and the valuation `EvalEx.v` used there is the
one the program induces when `c7` holds (site 4, in the `Else` branch, is the only disabled call) -/
example : ExtractedFrom (toAbs EvalEx.D) [(0, exTree)] exDefSite ∧
    (List.range 5).all (fun s => EvalEx.v.en s == leafInEffect exCv [(0, exTree)] s) = true ∧
    (List.range 6).all (fun b => EvalEx.v.ready b == leafInEffect exCv [(0, exTree)] (exDefSite b)) = true := by
  decide

/-- the abstract example design of `Core/Example.lean` is extracted from its tree -/
example : ExtractedFrom Ex.D [(0, Ex.tree)] (fun _ => 100) := by decide

end Bridge
end TxV.Core

#print axioms TxV.Core.placed_lower_sites
#print axioms TxV.Core.placed_site_conditions
#print axioms TxV.Core.placed_regardless_of_run
#print axioms TxV.Core.exclSem_of_lowering
#print axioms TxV.Core.Bridge.c01_of_program
#print axioms TxV.Core.Bridge.c02_of_program
