import TxV.Core.Theorems
/-!
# Core theory: from control trees to the flat-design hypotheses `ExclSem` / `ExclReady`

`enable_sig` of a call (method.py:316) and `ready` of a body (method.py:243, transaction.py:131)
are assigned in `av_comb` at the place whose control path is recorded, so they can only be 1 when
that place is active in the `av_comb` view.  With that reading `exclusive_sound` yields the two
semantic hypotheses of the flat theorems.
-/
namespace TxV.Core

/-- every call of the design sits at a site of the program `mods` with the recorded path, and its
enable implies the site's activity (`av_comb` view) -/
def CallsPlaced (D : Design) (v : Val) (cv : CVal) (mods : List (Int × Blk)) : Prop :=
  ∀ c ∈ D.allCalls, ∃ e ∈ sitesProg cv true mods, e.path = c.path ∧ (v.en c.site = true → e.act = true)

/-- every body definition sits at a site of the program with the recorded `defPath`, and `ready`
implies the site's activity -/
def BodiesPlaced (D : Design) (v : Val) (cv : CVal) (mods : List (Int × Blk)) : Prop :=
  ∀ b, b < D.n → ∃ e ∈ sitesProg cv true mods, e.path = (D.body b).defPath ∧ (v.ready b = true → e.act = true)

instance (D : Design) (v : Val) (cv : CVal) (mods : List (Int × Blk)) : Decidable (CallsPlaced D v cv mods) := by
  unfold CallsPlaced; infer_instance

instance (D : Design) (v : Val) (cv : CVal) (mods : List (Int × Blk)) : Decidable (BodiesPlaced D v cv mods) := by
  unfold BodiesPlaced; exact Nat.decidableBallLT _ _

theorem exclSem_of_tree {D : Design} {v : Val} (cv : CVal) (mods : List (Int × Blk))
    (hnd : (mods.map (·.1)).Nodup) (hp : CallsPlaced D v cv mods) : ExclSem D v := by
  intro a ha b hb hx ⟨ea, eb⟩
  obtain ⟨e1, m1, p1, a1⟩ := hp a ha
  obtain ⟨e2, m2, p2, a2⟩ := hp b hb
  exact exclusive_sound cv true mods hnd e1 m1 e2 m2 (by rw [p1, p2]; exact hx) ⟨a1 ea, a2 eb⟩

theorem exclReady_of_tree {D : Design} {v : Val} (cv : CVal) (mods : List (Int × Blk))
    (hnd : (mods.map (·.1)).Nodup) (hp : BodiesPlaced D v cv mods) : ExclReady D v := by
  intro a ha b hb hx ⟨ea, eb⟩
  obtain ⟨e1, m1, p1, a1⟩ := hp a ha
  obtain ⟨e2, m2, p2, a2⟩ := hp b hb
  exact exclusive_sound cv true mods hnd e1 m1 e2 m2 (by rw [p1, p2]; exact hx) ⟨a1 ea, a2 eb⟩

end TxV.Core
