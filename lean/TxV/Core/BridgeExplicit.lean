import TxV.Core.BridgeMain
/-!
# Bridge, part 5: the lifting of `add_conflict` relations in the executable `_conflict_graph`

`relationEdges_explicit`: if the executable `relationEdges` returns normally, then for every conflict
relation `a → b` and all `ta ∈ transactions_for(a)`, `tb ∈ transactions_for(b)`:
`ta = tb` ⇒ `calls_exclusive_within` held, `ta ≠ tb` ⇒ they are exclusive by definition or the final
graph has the edge.  Together with `elaborate_sound` this gives `elaborate_accepted`: every field of
`Accepted (toAbs D) (toSched E order)` except `ordInj` is proved from `elaborate D = ok E`.
-/
namespace TxV.Core.Bridge
open TxV
open TxV.CoreModel (Graphs MethodMap Elab)

theorem foldlM_hit {ε α β : Type} (P : β → Prop) (f : β → α → Except ε β)
    (hmono : ∀ g x g', f g x = .ok g' → P g → P g') {x0 : α} (hx : ∀ g g', f g x0 = .ok g' → P g') :
    ∀ (l : List α) (init out : β), x0 ∈ l → l.foldlM f init = .ok out → P out
  | [], _, _, h, _ => by simp at h
  | a :: l, init, out, h, hf => by
    obtain ⟨s, h1, h2⟩ := foldlM_ok_cons f a l init out hf
    simp only [List.mem_cons] at h
    rcases h with rfl | h
    · exact foldlM_inv P f hmono l s out h2 (hx init s h1)
    · exact foldlM_hit P f hmono hx l s out h h2

/-- the innermost step of the relation loop (manager.py:293–305) -/
def relStep (D : CoreModel.Design) (mm : MethodMap) (start : Nat) (r : CoreModel.Rel) (ts : Nat)
    (g : Graphs) (te : Nat) : Except CoreModel.Reject Graphs :=
  if r.conflict && ts == te then
    if !CoreModel.callsExclusiveWithin mm ts start r.dst then .error .sameTransConflict
    else .ok g
  else
    .ok (g.addEdge ts te r.prio (r.conflict && !CoreModel.transactionsExclusive D mm ts te))

theorem relStep_mono (D : CoreModel.Design) (mm : MethodMap) (start : Nat) (r : CoreModel.Rel) (ts : Nat)
    (x y : Nat) (g : Graphs) (te : Nat) (g' : Graphs) (h : relStep D mm start r ts g te = .ok g')
    (hg : g.adj x y = true) : g'.adj x y = true := by
  unfold relStep at h
  split at h
  · split at h
    · cases h
    · cases h; exact hg
  · cases h; exact addEdge_adj_mono _ _ _ _ _ x y hg

/-- what one successful innermost step establishes for its own pair -/
def PairOk (D : CoreModel.Design) (mm : MethodMap) (start : Nat) (r : CoreModel.Rel) (ts te : Nat)
    (g : Graphs) : Prop :=
  (ts = te → CoreModel.callsExclusiveWithin mm ts start r.dst = true) ∧
  (ts ≠ te → CoreModel.transactionsExclusive D mm ts te = true ∨ g.adj ts te = true)

theorem relStep_hit (D : CoreModel.Design) (mm : MethodMap) (start : Nat) (r : CoreModel.Rel)
    (hc : r.conflict = true) (ts te : Nat) (g g' : Graphs) (h : relStep D mm start r ts g te = .ok g') :
    PairOk D mm start r ts te g' := by
  unfold relStep at h
  by_cases heq : ts = te
  · subst heq
    simp only [hc, beq_self_eq_true, Bool.and_self, if_true] at h
    split at h
    · cases h
    · rename_i h2
      exact ⟨fun _ => by simpa using h2, fun hne => absurd rfl hne⟩
  · have : (ts == te) = false := by simpa using heq
    simp only [hc, this, Bool.and_false, Bool.false_eq_true, if_false, Bool.true_and] at h
    cases h
    refine ⟨fun h => absurd h heq, fun _ => ?_⟩
    cases hx : CoreModel.transactionsExclusive D mm ts te with
    | true => exact Or.inl rfl
    | false => right; simp only [Bool.not_false]; exact addEdge_adj_new g ts te _

theorem PairOk.mono {D : CoreModel.Design} {mm : MethodMap} {start : Nat} {r : CoreModel.Rel} {ts te : Nat}
    {g g' : Graphs} (hm : g.adj ts te = true → g'.adj ts te = true) (h : PairOk D mm start r ts te g) :
    PairOk D mm start r ts te g' :=
  ⟨h.1, fun hne => (h.2 hne).elim Or.inl (fun x => Or.inr (hm x))⟩

theorem relationEdges_step_eq (D : CoreModel.Design) (mm : MethodMap) (g0 : Graphs) :
    CoreModel.relationEdges D mm g0 =
      (CoreModel.relations D).foldlM (fun g (x : Nat × CoreModel.Rel) =>
        if !x.2.conflict && decide (D.defOrder x.2.dst < D.defOrder x.1) && !x.2.silence then
          .error .schedBeforeDefinedAfter
        else (mm.transFor x.1).foldlM (fun g ts => (mm.transFor x.2.dst).foldlM (relStep D mm x.1 x.2 ts) g) g) g0 := by
  unfold CoreModel.relationEdges relStep
  rfl

theorem relationEdges_explicit (D : CoreModel.Design) (mm : MethodMap) {g0 g : Graphs}
    (h : CoreModel.relationEdges D mm g0 = .ok g) {start : Nat} {r : CoreModel.Rel}
    (hrel : (start, r) ∈ CoreModel.relations D) (hc : r.conflict = true) {ts te : Nat}
    (hts : ts ∈ mm.transFor start) (hte : te ∈ mm.transFor r.dst) : PairOk D mm start r ts te g := by
  rw [relationEdges_step_eq] at h
  -- monotonicity of every level for the property "PairOk … g"
  have mono3 : ∀ (s : Nat) (r' : CoreModel.Rel) (ts' : Nat) (g : Graphs) (te' : Nat) (g' : Graphs),
      relStep D mm s r' ts' g te' = .ok g' → PairOk D mm start r ts te g → PairOk D mm start r ts te g' :=
    fun s r' ts' g te' g' hs hp => hp.mono (relStep_mono D mm s r' ts' ts te g te' g' hs)
  have mono2 : ∀ (s : Nat) (r' : CoreModel.Rel) (g : Graphs) (ts' : Nat) (g' : Graphs),
      (mm.transFor r'.dst).foldlM (relStep D mm s r' ts') g = .ok g' →
      PairOk D mm start r ts te g → PairOk D mm start r ts te g' :=
    fun s r' g ts' g' hs hp => foldlM_inv _ _ (mono3 s r' ts') _ _ _ hs hp
  refine foldlM_hit (PairOk D mm start r ts te) _ ?_ (x0 := (start, r)) ?_ _ _ _ hrel h
  · intro g x g' hstep hp
    split at hstep
    · cases hstep
    · exact foldlM_inv _ _ (mono2 x.1 x.2) _ _ _ hstep hp
  · intro g g' hstep
    split at hstep
    · cases hstep
    · refine foldlM_hit (PairOk D mm start r ts te) _ (mono2 start r) (x0 := ts) ?_ _ _ _ hts hstep
      intro g g' hstep
      refine foldlM_hit (PairOk D mm start r ts te) _ (mono3 start r ts) (x0 := te) ?_ _ _ _ hte hstep
      intro g g' hstep
      exact relStep_hit D mm start r hc ts te g g' hstep

/-! ## translating the executable notions -/

theorem find?_map_key_none {α : Type} (f : Nat → α) : ∀ (l : List Nat) (t : Nat), t ∉ l →
    (l.map fun x => (x, f x)).find? (fun p => p.1 == t) = none
  | [], _, _ => rfl
  | a :: l, t, h => by
    simp only [List.mem_cons, not_or] at h
    simp only [List.map_cons, List.find?_cons]
    have : (a == t) = false := by simpa using fun h' => h.1 h'.symm
    simp only [this]
    exact find?_map_key_none f l t h.2

section
variable (D : CoreModel.Design)

theorem enum_isChain {fuel t : Nat} {ch : List CoreModel.Call} (h : ch ∈ enumM D fuel t []) :
    IsChain (toAbs D) t (ch.map cvtCall) := by
  have h2 := chains_toAbs D fuel t []
  simp only [List.map_nil, List.nil_append, List.map_id'] at h2
  apply chains_sound (toAbs D) fuel
  rw [← h2]; exact List.mem_map.2 ⟨ch, h, rfl⟩

theorem infoOf_target {fuel t : Nat} {ch : List CoreModel.Call} (h : ch ∈ enumM D fuel t []) :
    target (ch.map cvtCall) = some (infoOf ch).1 := by
  have hi := enum_isChain D h
  obtain ⟨m, hm⟩ : ∃ m, target (ch.map cvtCall) = some m := by
    obtain ⟨c, rest, he, _⟩ := hi.head_mem
    cases hl : (ch.map cvtCall).getLast? with
    | none => rw [he] at hl; simp at hl
    | some x => exact ⟨x.callee, by simp [target, hl]⟩
  rw [hm, (infoOf_fst hm).1]

/-- membership in the executable `transactions_for` from the abstract `TransFor` -/
theorem transFor_mem (hwfT : ∀ t, (toAbs D).isTrans t = true → t ∈ D.transactions)
    (hdisj : ∀ t, t ∈ D.transactions → t ∉ D.methods)
    (hmeth : ∀ t m, Reaches (toAbs D) t m → m ∈ D.methods) (hb : Bounded (toAbs D))
    {t b : Nat} (h : TransFor (toAbs D) t b) : t ∈ (CoreModel.methodMap D).transFor b := by
  obtain ⟨ht, h | h⟩ := h
  · subst h
    unfold MethodMap.transFor CoreModel.methodMap
    simp only
    rw [find?_map_key_none _ D.methods t (hdisj t (hwfT t ht))]
    simp
  · have hm := hmeth t b h
    unfold MethodMap.transFor CoreModel.methodMap
    simp only
    rw [find?_map_key _ D.methods b hm]
    simp only
    obtain ⟨ch, hi, hg⟩ := h
    have hfuel : D.bodies.length ≤ CoreModel.fuelOf D := by unfold CoreModel.fuelOf; omega
    have h1 : ch ∈ chains (toAbs D) (CoreModel.fuelOf D) t :=
      chains_complete (toAbs D) hi _ (Nat.le_trans (hb t ch hi) (by rw [toAbs_n]; exact hfuel))
    have h2 := chains_toAbs D (CoreModel.fuelOf D) t []
    simp only [List.map_nil, List.nil_append, List.map_id'] at h2
    rw [← h2] at h1
    obtain ⟨ch', hm', rfl⟩ := List.mem_map.1 h1
    simp only [List.mem_map, List.mem_filter]
    refine ⟨(t, CoreModel.dedup ((CoreModel.chains D (CoreModel.fuelOf D) t [] [] []).map (·.1))), ⟨?_, ?_⟩, rfl⟩
    · exact ⟨(t, CoreModel.chains D (CoreModel.fuelOf D) t [] [] []), ⟨t, hwfT t ht, rfl⟩, rfl⟩
    · simp only [List.contains_eq_mem, decide_eq_true_eq, mem_dedup]
      have := chainsM_eq D (CoreModel.fuelOf D) t []
      simp only [List.map_nil, List.reverse_nil] at this
      rw [this]
      simp only [List.map_map, List.mem_map, Function.comp]
      exact ⟨ch', hm', (infoOf_fst hg).1⟩

theorem methodsOf_reaches {t m : Nat} (ht : t ∈ D.transactions)
    (h : m ∈ (CoreModel.methodMap D).methodsOf t) : Reaches (toAbs D) t m := by
  unfold MethodMap.methodsOf CoreModel.methodMap at h
  simp only at h
  have e : (List.map (fun x => (x.1, CoreModel.dedup (List.map (fun x => x.1) x.2)))
      (List.map (fun t => (t, CoreModel.chains D (CoreModel.fuelOf D) t [] [] [])) D.transactions)) =
      D.transactions.map fun t => (t, CoreModel.dedup ((CoreModel.chains D (CoreModel.fuelOf D) t [] [] []).map (·.1))) := by
    simp [List.map_map, Function.comp_def]
  rw [e, find?_map_key _ D.transactions t ht] at h
  simp only [mem_dedup] at h
  have := chainsM_eq D (CoreModel.fuelOf D) t []
  simp only [List.map_nil, List.reverse_nil] at this
  rw [this] at h
  simp only [List.map_map, List.mem_map, Function.comp] at h
  obtain ⟨ch, hch, rfl⟩ := h
  exact ⟨ch.map cvtCall, enum_isChain D hch, infoOf_target D hch⟩

theorem toAbs_defPath (b : Nat) : ((toAbs D).body b).defPath = cvtPath (D.defPath b) := by
  rw [toAbs_body]; unfold CoreModel.Design.defPath CoreModel.Design.body?
  cases D.bodies[b]? <;> simp [cvtBody, Body.empty, cvtPath]

theorem transactionsExclusive_sound {t1 t2 : Nat} (h1 : t1 ∈ D.transactions) (h2 : t2 ∈ D.transactions)
    (h : CoreModel.transactionsExclusive D (CoreModel.methodMap D) t1 t2 = true) :
    TransExclusive (toAbs D) t1 t2 := by
  unfold CoreModel.transactionsExclusive MethodMap.readyFor at h
  simp only [List.any_eq_true, List.mem_cons] at h
  obtain ⟨a, ha, b, hb', hx⟩ := h
  refine ⟨a, b, ?_, ?_, ?_⟩
  · rcases ha with rfl | ha
    · exact Or.inl rfl
    · exact Or.inr (methodsOf_reaches D h1 ha)
  · rcases hb' with rfl | hb'
    · exact Or.inl rfl
    · exact Or.inr (methodsOf_reaches D h2 hb')
  · rw [toAbs_defPath, toAbs_defPath, ← exclusiveWith_agree]; exact hx

theorem callsExclusiveWithin_sound (hb : Bounded (toAbs D)) {t a b : Nat} (ht : t ∈ D.transactions)
    (h : CoreModel.callsExclusiveWithin (CoreModel.methodMap D) t a b = true) :
    ExclusiveWithin (toAbs D) t a b := by
  unfold CoreModel.callsExclusiveWithin at h
  split at h
  · cases h
  · rename_i hne
    simp only [Bool.or_eq_true, beq_iff_eq, not_or] at hne
    refine ⟨hne.1, hne.2, ?_⟩
    intro ch1 ch2 i1 g1 i2 g2
    rw [infoFor_eq D ht, infoFor_eq D ht] at h
    simp only [List.all_eq_true, List.mem_map, List.mem_filter, beq_iff_eq] at h
    have hfuel : D.bodies.length ≤ CoreModel.fuelOf D := by unfold CoreModel.fuelOf; omega
    have hmem : ∀ ch, IsChain (toAbs D) t ch →
        ∃ ch', ch' ∈ enumM D (CoreModel.fuelOf D) t [] ∧ ch'.map cvtCall = ch := by
      intro ch hi
      have h1 : ch ∈ chains (toAbs D) (CoreModel.fuelOf D) t :=
        chains_complete (toAbs D) hi _ (Nat.le_trans (hb t ch hi) (by rw [toAbs_n]; exact hfuel))
      have h2 := chains_toAbs D (CoreModel.fuelOf D) t []
      simp only [List.map_nil, List.nil_append, List.map_id'] at h2
      rw [← h2] at h1
      obtain ⟨ch', hm', rfl⟩ := List.mem_map.1 h1
      exact ⟨ch', hm', rfl⟩
    obtain ⟨c1, m1, rfl⟩ := hmem ch1 i1
    obtain ⟨c2, m2, rfl⟩ := hmem ch2 i2
    obtain ⟨f1, _, p1⟩ := infoOf_fst g1
    obtain ⟨f2, _, p2⟩ := infoOf_fst g2
    have := h (infoOf c1).2 ⟨infoOf c1, ⟨⟨c1, m1, rfl⟩, f1⟩, rfl⟩ (infoOf c2).2 ⟨infoOf c2, ⟨⟨c2, m2, rfl⟩, f2⟩, rfl⟩
    rw [p1, p2, cpe_agree] at this
    exact this

end

theorem toAbs_rels (D : CoreModel.Design) (b : Nat) : ((toAbs D).body b).rels = (D.rels b).map cvtRel := by
  rw [toAbs_body]; unfold CoreModel.Design.rels CoreModel.Design.body?
  cases D.bodies[b]? <;> simp [cvtBody, Body.empty]

/-- **every field of `Accepted` except `ordInj` is established by the executable manager model** -/
theorem elaborate_accepted {D : CoreModel.Design} {E : Elab} (h : CoreModel.elaborate D = .ok E)
    (order : List Nat) (hinj : OrdInj (toAbs D) (toSched E order)) :
    Accepted (toAbs D) (toSched E order) := by
  obtain ⟨hwfA, _, hb, hvr, hsym, himp⟩ := elaborate_sound h order
  obtain ⟨hwf, _, hmm, hrel⟩ := elaborate_ok h
  obtain ⟨hall, htr, hme, hcal, _⟩ := wf_facts hwf
  have hmemT : ∀ t, (toAbs D).isTrans t = true → t ∈ D.transactions := by
    intro t ht
    have hlt : t < D.bodies.length := by rw [← toAbs_n]; exact (toAbs D).isTrans_lt ht
    have := hall t hlt
    simp only [CoreModel.Design.methodsAndTransactions, List.mem_append] at this
    rcases this with hm | ht'
    · rw [toAbs_isTrans, hme t hm] at ht; cases ht
    · exact ht'
  have hdisj : ∀ t, t ∈ D.transactions → t ∉ D.methods := by
    intro t ht hm
    have := htr t ht; rw [hme t hm] at this; cases this
  have hmeth : ∀ t m, Reaches (toAbs D) t m → m ∈ D.methods := by
    intro t m hr
    obtain ⟨hlt, hnt⟩ := Reaches.lt hwfA hr
    rw [toAbs_n] at hlt; rw [toAbs_isTrans] at hnt
    have := hall m hlt
    simp only [CoreModel.Design.methodsAndTransactions, List.mem_append] at this
    rcases this with hm | ht'
    · exact hm
    · rw [htr m ht'] at hnt; cases hnt
  refine ⟨hwfA, hb, hvr, hsym, hinj, himp, ?_⟩
  intro a b ⟨la, lb, r', hr', hc', hd'⟩ ta tb hta htb
  rw [toAbs_rels] at hr'
  obtain ⟨r, hr, rfl⟩ := List.mem_map.1 hr'
  have hc : r.conflict = true := hc'
  have hd : r.dst = b := hd'
  rw [toAbs_n] at la lb
  have hrelm : (a, r) ∈ CoreModel.relations D := by
    unfold CoreModel.relations
    simp only [List.mem_flatMap, List.mem_map, List.mem_filter, List.contains_eq_mem, decide_eq_true_eq]
    exact ⟨a, hall a la, r, ⟨hr, by rw [hd]; exact hall b lb⟩, rfl⟩
  have ht1 := transFor_mem D hmemT hdisj hmeth hb hta
  have ht2 := transFor_mem D hmemT hdisj hmeth hb htb
  rw [← hmm] at ht1 ht2
  rw [← hd] at ht2
  have hp := relationEdges_explicit D E.mm hrel hrelm hc ht1 ht2
  constructor
  · intro heq
    have := hp.1 heq
    rw [hmm, hd] at this
    exact callsExclusiveWithin_sound D hb (hmemT ta hta.1) this
  · intro hne
    rcases hp.2 hne with hx | hx
    · right
      rw [hmm] at hx
      exact transactionsExclusive_sound D (hmemT ta hta.1) (hmemT tb htb.1) hx
    · left; exact hx

end TxV.Core.Bridge
