import TxV.Core.Theorems
/-!
# Core theory: C03 (runs only when fully enabled), C04 (methods run iff called), C05 (routing)
-/
namespace TxV.Core

variable {D : Design} {v : Val} {S : Sched} {run : Nat → Bool}

/-! ## C03 -/

theorem mem_info_iff (hb : Bounded D) {t m : Nat} {ch : List Call} :
    ch ∈ info D t m ↔ IsChain D t ch ∧ target ch = some m := by
  simp [info, List.mem_filter, mem_chains_iff hb]

/-- a granted transaction is ready, every method of its static call tree is ready, every validation
term holds, and every ready-dependency source of it or of a called method runs -/
theorem run_requires (hg : Grants D v run) {t : Nat} (ht : D.isTrans t = true) (hr : run t = true) :
    v.ready t = true ∧
    (∀ m, Reaches D t m → v.ready m = true) ∧
    (∀ m, Reaches D t m → (D.body m).hasValidate = true → validTerm D v t m = true) ∧
    (∀ b, (b = t ∨ Reaches D t b) → ∀ d, ReadyDep D d b → run d = true) := by
  obtain ⟨h1, h2, h3⟩ := hg t ht hr
  exact ⟨h1, fun m hm => (h2 m (Or.inr hm)).1, h3, fun b hb => (h2 b hb).2⟩

/-- the static call tree does not depend on the valuation: a disabled call (false condition around
it, or `enable_call = 0`) still requires its callee to be ready -/
theorem disabled_call_locks (hg : Grants D v run) {t : Nat} (ht : D.isTrans t = true) (hr : run t = true)
    {c : Call} (hc : c ∈ (D.body t).calls) (_hdis : v.en c.site = false) : v.ready c.callee = true :=
  (run_requires hg ht hr).2.1 c.callee ⟨[c], .single hc, by simp [target]⟩

/-- validation term of a nonexclusive method: the predicate holds for the argument of every enabled call chain -/
theorem validTerm_nonexclusive (hb : Bounded D) {t m : Nat} (hne : D.nonexcl m = true)
    (hv : validTerm D v t m = true) {ch : List Call} (hc : IsChain D t ch) (ht : target ch = some m)
    (he : chainEn v ch = true) : v.pred m (argOf v ch) = true := by
  simp only [validTerm, hne, if_true, List.all_eq_true] at hv
  have := hv ch ((mem_info_iff hb).2 ⟨hc, ht⟩)
  simpa [he] using this

/-- validation term of an exclusive method: the predicate holds for the argument of *the* enabled
call chain of the transaction (the one-hot multiplexer of manager.py:536 selects it) -/
theorem validTerm_exclusive (hb : Bounded D) (hvr : ValidRoot D t) (hs : ExclSem D v) {m : Nat}
    (hne : D.nonexcl m = false) (hv : validTerm D v t m = true) {ch : List Call}
    (hc : IsChain D t ch) (ht : target ch = some m) (he : chainEn v ch = true) :
    v.pred m (argOf v ch) = true := by
  have hin : ch ∈ info D t m := (mem_info_iff hb).2 ⟨hc, ht⟩
  have hany : (info D t m).any (chainEn v) = true := List.any_eq_true.2 ⟨ch, hin, he⟩
  simp only [validTerm, hne, hany, Bool.false_eq_true, if_false, Bool.not_true, Bool.false_or] at hv
  have hmux : oneHotMux ((info D t m).map fun ch => (chainEn v ch, argOf v ch)) = argOf v ch := by
    apply oneHotMux_select
    · exact ⟨(chainEn v ch, argOf v ch), List.mem_map.2 ⟨ch, hin, rfl⟩, he, rfl⟩
    · intro p hp hsel
      obtain ⟨ch', hin', rfl⟩ := List.mem_map.1 hp
      obtain ⟨hc', ht'⟩ := (mem_info_iff hb).1 hin'
      by_cases heq : ch' = ch
      · rw [heq]
      · exact absurd ⟨hsel, he⟩
          (cpe_sound D v hs _ _ hc'.calls_mem hc.calls_mem (hvr ch' ch m hc' hc heq ht' ht hne))
  rw [hmux] at hv; exact hv

/-! ## C04 -/

theorem run_iff_active (hwf : D.WF) (hm : MethodRunEq D v run) {m : Nat} (hlt : m < D.n)
    (hmt : D.isTrans m = false) :
    run m = true ↔ activeSites D v run m ≠ [] := by
  constructor
  · intro hr
    obtain ⟨t, ch, h1, h2, h3, h4, h5⟩ := (hm m hlt hmt).1 hr
    obtain ⟨c, hl, hcm, _⟩ := h3.target_callee h4
    suffices ∃ b, ActiveSite D v run b c by
      obtain ⟨b, hb⟩ := this
      have : (b, c) ∈ activeSites D v run m := mem_activeSites.2 ⟨hb, hcm⟩
      intro h0; rw [h0] at this; simp at this
    rcases h3.last_call hl with ⟨he, hc⟩ | ⟨init, b, he, hi, hti, hc⟩
    · refine ⟨t, hc, h2, ?_⟩
      rw [he] at h5; simpa [chainEn] using h5
    · rw [he, chainEn_append] at h5
      simp only [Bool.and_eq_true] at h5
      have hbm : D.isTrans b = false := (Reaches.lt hwf ⟨init, hi, hti⟩).2
      refine ⟨b, hc, (hm b (D.lt_of_call hc) hbm).2 ⟨t, init, h1, h2, hi, hti, h5.1⟩, ?_⟩
      simpa [chainEn] using h5.2
  · intro hne
    obtain ⟨p, hp⟩ := List.exists_mem_of_ne_nil _ hne
    obtain ⟨ha, hcm⟩ := mem_activeSites.1 hp
    obtain ⟨t, ch, T, R, I, E, L⟩ := active_chain hm ha
    exact (hm m hlt hmt).2 ⟨t, ch, T, R, I, by simp [target, L, hcm], E⟩

/-- a method no call site targets never runs -/
theorem uncalled_never_runs (hm : MethodRunEq D v run) {m : Nat} (hlt : m < D.n) (hmt : D.isTrans m = false)
    (hun : ∀ c ∈ D.allCalls, c.callee ≠ m) : run m = false := by
  cases hr : run m with
  | false => rfl
  | true =>
    obtain ⟨t, ch, _, _, h3, h4, _⟩ := (hm m hlt hmt).1 hr
    obtain ⟨c, _, hcm, hmem⟩ := h3.target_callee h4
    exact absurd hcm (hun c hmem)

/-- a method no transaction reaches (`transactions_for(m) = []`) never runs -/
theorem unreached_never_runs (hm : MethodRunEq D v run) {m : Nat} (hlt : m < D.n) (hmt : D.isTrans m = false)
    (hun : ∀ t, ¬ TransFor D t m) : run m = false := by
  cases hr : run m with
  | false => rfl
  | true =>
    obtain ⟨t, ch, h1, _, h3, h4, _⟩ := (hm m hlt hmt).1 hr
    exact absurd ⟨h1, Or.inr ⟨ch, h3, h4⟩⟩ (hun t)

/-- a body that is ready-dependent on `p` (nested in `p`, body.py:94, or
`p.schedule_before(b, ready_dependent=True)`) runs only in cycles where `p` runs -/
theorem readyDep_runs (hm : MethodRunEq D v run) (hg : Grants D v run) {p b : Nat}
    (hlt : b < D.n) (hd : ReadyDep D p b) (hr : run b = true) : run p = true := by
  obtain ⟨t, htf, rt, _⟩ := run_witness hm hlt hr
  have hb : b = t ∨ Reaches D t b := by
    rcases htf.2 with h | h
    · exact Or.inl h.symm
    · exact Or.inr h
  exact (run_requires hg htf.1 rt).2.2.2 b hb p hd

/-- the relation `Body.context` adds to the enclosing body (body.py:94
`parent.schedule_before(self, ready_dependent=True)`; transaction_base.py:72 `schedule_before` =
`Relation(end, priority=LEFT, conflict=False, ready_dependent=…)`) -/
def nestRel (child : Nat) : Rel := ⟨child, .left, false, true⟩

/-- a body nested in `p` is ready-dependent on `p` -/
theorem nesting_readyDep {p b : Nat} (hp : p < D.n) (h : nestRel b ∈ (D.body p).rels) : ReadyDep D p b :=
  ⟨hp, nestRel b, h, rfl, rfl⟩

/-! ## C05 -/

/-- `args[m]` of `_method_calls` (manager.py:341) -/
def argsOf (D : Design) (v : Val) (m : Nat) : List Nat := (D.sitesOf m).map fun p => v.arg p.2.site
/-- `runs[m]` of `_method_calls` (manager.py:342): `source.run & enable` per call site -/
def runsOf (D : Design) (v : Val) (run : Nat → Bool) (m : Nat) : List Bool :=
  (D.sitesOf m).map fun p => run p.1 && v.en p.2.site
/-- body.py:120 `_default_combiner`: `OneHotMux.create(m, [(runs[i], args[i]) …])` -/
def defaultCombiner (args : List Nat) (runs : List Bool) : Nat := oneHotMux (runs.zip args)
/-- manager.py:564: `data_in = combiner(m, args, runs)` -/
def dataIn (comb : List Nat → List Bool → Nat) (D : Design) (v : Val) (run : Nat → Bool) (m : Nat) : Nat :=
  comb (argsOf D v m) (runsOf D v run m)

theorem zip_runs_args (m : Nat) :
    (runsOf D v run m).zip (argsOf D v m) = (D.sitesOf m).map fun p => (run p.1 && v.en p.2.site, v.arg p.2.site) := by
  simp [runsOf, argsOf, List.zip_map']

/-- with exactly one active call site the default combiner delivers that site's argument
(any number of call sites) -/
theorem dataIn_single {m : Nat} {s : Nat × Call} (h : activeSites D v run m = [s]) :
    dataIn defaultCombiner D v run m = v.arg s.2.site := by
  unfold dataIn defaultCombiner
  rw [zip_runs_args]
  have hs : s ∈ activeSites D v run m := by rw [h]; simp
  apply oneHotMux_select
  · refine ⟨_, List.mem_map.2 ⟨s, (List.mem_filter.1 hs).1, rfl⟩, ?_, rfl⟩
    exact (List.mem_filter.1 hs).2
  · intro p hp hsel
    obtain ⟨x, hx, rfl⟩ := List.mem_map.1 hp
    have : x ∈ activeSites D v run m := List.mem_filter.2 ⟨hx, hsel⟩
    rw [h] at this; simp at this; rw [this]

/-- whenever an exclusive method runs there is exactly one active call site and the method's input
is that site's argument -/
theorem exclusive_input (hA : Accepted D S) (hC : Cycle D v S run) (hn : D.SitesNodup) {m : Nat}
    (hlt : m < D.n) (hmt : D.isTrans m = false) (hne : D.nonexcl m = false) (hr : run m = true) :
    ∃ s, activeSites D v run m = [s] ∧ dataIn defaultCombiner D v run m = v.arg s.2.site := by
  have h1 := at_most_one_active hA hC hn hne
  have h2 := (run_iff_active hA.wf hC.methodRun hlt hmt).1 hr
  match hl : activeSites D v run m, h1, h2 with
  | [], _, h2 => exact absurd rfl h2
  | [s], _, _ => exact ⟨s, rfl, dataIn_single hl⟩
  | _ :: _ :: _, h1, _ => simp at h1

/-- a (custom) combiner receives one argument and one activity bit per call site, in the same
order, and bit `i` is set exactly when call site `i` is active -/
theorem combiner_inputs (m : Nat) :
    (argsOf D v m).length = (D.sitesOf m).length ∧ (runsOf D v run m).length = (D.sitesOf m).length ∧
    ∀ i (h : i < (D.sitesOf m).length),
      (argsOf D v m)[i]? = some (v.arg ((D.sitesOf m)[i]).2.site) ∧
      ((runsOf D v run m)[i]? = some true ↔
        ActiveSite D v run ((D.sitesOf m)[i]).1 ((D.sitesOf m)[i]).2) := by
  refine ⟨by simp [argsOf], by simp [runsOf], ?_⟩
  intro i h
  have hmem : (D.sitesOf m)[i] ∈ D.sitesOf m := List.getElem_mem h
  have hc : ((D.sitesOf m)[i]).2 ∈ (D.body ((D.sitesOf m)[i]).1).calls :=
    Design.mem_allSites.1 (List.mem_filter.1 hmem).1
  constructor
  · simp [argsOf, h]
  · simp only [runsOf, List.getElem?_map, List.getElem?_eq_getElem h, Option.map_some, Option.some.injEq,
      Bool.and_eq_true, ActiveSite]
    exact ⟨fun ⟨a, b⟩ => ⟨hc, a, b⟩, fun ⟨_, a, b⟩ => ⟨a, b⟩⟩

end TxV.Core
