/-! Prototype: eager scheduler equations ⇒ mutual exclusion, C07, C08. -/
namespace ProtoS

structure Sys where
  T : Nat                      -- number of transactions
  ord : Nat → Nat              -- porder (injective on [0,T))
  cgr : Nat → Nat → Bool       -- conflict graph (symmetric)
  enabled : Nat → Bool         -- ready ∧ runnable of the cycle

/-- `run` solves the equations emitted by `eager_deterministic_cc_scheduler` -/
def Consistent (S : Sys) (run : Nat → Bool) : Prop :=
  ∀ t, t < S.T → (run t = true ↔
    (S.enabled t = true ∧ ∀ t', t' < S.T → S.ord t' < S.ord t → S.cgr t t' = true → run t' = false))

variable {S : Sys} {run : Nat → Bool}

theorem eager_mutex (hc : Consistent S run) (hsym : ∀ a b, S.cgr a b = S.cgr b a)
    (hinj : ∀ a b, a < S.T → b < S.T → S.ord a = S.ord b → a = b)
    {t t' : Nat} (ht : t < S.T) (ht' : t' < S.T) (hne : t ≠ t') (he : S.cgr t t' = true) :
    ¬ (run t = true ∧ run t' = true) := by
  intro ⟨r1, r2⟩
  rcases Nat.lt_trichotomy (S.ord t) (S.ord t') with h | h | h
  · have := ((hc t' ht').1 r2).2 t ht h (by rw [hsym]; exact he)
    rw [r1] at this; cases this
  · exact hne (hinj t t' ht ht' h)
  · have := ((hc t ht).1 r1).2 t' ht' h he
    rw [r2] at this; cases this

/-- C07: an enabled transaction that does not run is blocked by a running conflicting one (earlier in the order) -/
theorem eager_no_waste (hc : Consistent S run) {t : Nat} (ht : t < S.T)
    (hen : S.enabled t = true) (hnr : run t = false) :
    ∃ t', t' < S.T ∧ S.ord t' < S.ord t ∧ S.cgr t t' = true ∧ run t' = true := by
  apply Classical.byContradiction
  intro hno
  have : run t = true := (hc t ht).2 ⟨hen, fun t' h1 h2 h3 => by
    cases hr : run t' with
    | false => rfl
    | true => exact absurd ⟨t', h1, h2, h3, hr⟩ hno⟩
  rw [hnr] at this; cases this

/-- C08: with a conflict edge and `a` before `b` in the order, `b` runs only if `a` is blocked by a third running transaction -/
theorem eager_priority (hc : Consistent S run) (hsym : ∀ a b, S.cgr a b = S.cgr b a)
    {a b : Nat} (ha : a < S.T) (hb : b < S.T) (hord : S.ord a < S.ord b) (he : S.cgr a b = true)
    (hena : S.enabled a = true) (hrb : run b = true) :
    run a = false ∧ ∃ t'', t'' ≠ b ∧ t'' < S.T ∧ S.cgr a t'' = true ∧ run t'' = true := by
  have hra : run a = false := ((hc b hb).1 hrb).2 a ha hord (by rw [hsym]; exact he)
  obtain ⟨t', h1, h2, h3, h4⟩ := eager_no_waste hc ha hena hra
  refine ⟨hra, t', ?_, h1, h3, h4⟩
  intro h; subst h; omega

#print axioms eager_mutex
#print axioms eager_priority
end ProtoS
