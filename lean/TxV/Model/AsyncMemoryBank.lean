import TxV.Model.BankMem
/-!
Model of `transactron.lib.storage.AsyncMemoryBank` (storage.py:313-406).

One `step` = one clock cycle.  `read[i]` and `write[j]` are always ready and have no
conflicts, so every attempted call executes.  The read ports are combinational
(`mem.read_port(domain="comb")`, storage.py:389): a read returns the row as it is in the
current cycle, i.e. before the writes of this cycle are applied at the edge
(storage.py:391-403).
-/
namespace TxV.AsyncMemoryBank
open TxV.BankMem

structure Cfg where
  depth : Nat
  g : Nat   -- bits per chunk (granularity; the whole width when granularity is None)
  n : Nat   -- chunks per word
deriving Repr, DecidableEq

structure State where
  mem : Mem
deriving Repr, DecidableEq

/-- attempted calls of one cycle: per read port an address, per write port a write -/
structure In where
  reads : List (Option Nat)
  writes : List (Option Wr)
deriving Repr, DecidableEq

/-- per read port the returned data (`none` = not executed), per write port the done bit -/
structure Out where
  reads : List (Option Nat)
  writes : List Bool
deriving Repr, DecidableEq

def init (c : Cfg) : State := { mem := List.replicate c.depth 0 }

def step (c : Cfg) (s : State) (i : In) : State × Out :=
  ({ mem := wrAll (mergeW c.g c.n) s.mem i.writes },
   { reads := i.reads.map (fun r => r.map (rd s.mem)), writes := i.writes.map Option.isSome })

/-- run a history, collecting the outputs of every cycle -/
def run (c : Cfg) (s : State) : List In → State × List Out
  | [] => (s, [])
  | i :: is =>
    let (s', o) := step c s i
    let (s'', os) := run c s' is
    (s'', o :: os)

end TxV.AsyncMemoryBank
