import TxV.Model.Design
/-!
# Transcription of `transactron/core/manager.py` (static analysis part)

`elaborate : Design → Except Reject Elab` follows `TransactionManager.elaborate`
(manager.py:478-573) for designs without `simultaneous`/`condition()`:

1. `MethodMap(...)` — `validate_root_call_tree` on every method and transaction
   (→ `Reject.cycle`, `Reject.doubleCall`), then the call enumeration `rec`
   (`methods_by_transaction`, `transactions_by_method`, `info_by_call`);
2. `_conflict_graph` — implicit edges (`calls_nonexclusive`), relation edges with the
   `_transactions_exclusive` exemption, the same-transaction conflict rejection, the
   `schedule_before` definition-order error, the priority graph and its acyclicity
   (`networkx` raises `NetworkXUnfeasible` → `Reject.unsatPriority`);
3. ready-dependency-versus-conflict check (manager.py:503-514);
4. `single_caller` check (manager.py:560-562).

The order of the checks is the order in which the real code raises.  The linear order
`porder` itself is *not* computed here: any order valid for `before` is acceptable
(`validOrder`), and the driver validates the order the implementation produced.
-/
namespace TxV.CoreModel

inductive Reject where
  | malformed                 -- extraction sanity (`Design.wf`) failed; never a verdict about the library
  | fuel                      -- recursion fuel exhausted (unreachable after the cycle check)
  | cycle                     -- "Method … calls itself through the following call path"
  | doubleCall                -- "Method … called twice from …"
  | schedBeforeDefinedAfter   -- "… scheduled before … but defined afterwards"
  | sameTransConflict         -- "… conflicts with … but both are run by transaction …"
  | unsatPriority             -- networkx.NetworkXUnfeasible from the topological sort
  | readyDepConflict          -- "… is ready dependent on transaction …, but they are in conflict"
  | singleCaller              -- "Single-caller method … called more than once"
deriving DecidableEq, Repr, Inhabited

def Reject.name : Reject → String
  | .malformed => "malformed" | .fuel => "fuel" | .cycle => "cycle" | .doubleCall => "doubleCall"
  | .schedBeforeDefinedAfter => "schedBeforeDefinedAfter" | .sameTransConflict => "sameTransConflict"
  | .unsatPriority => "unsatPriority" | .readyDepConflict => "readyDepConflict"
  | .singleCaller => "singleCaller"

/-! ## `validate_root_call_tree` (manager.py:79-99) -/

/-- one entry of `call_sights[method]` -/
structure Sight where
  method : BodyId
  ancestors : List BodyId
  callPath : List CtrlPath
deriving Repr, Inhabited

/-- `rec_root(source, ancestors, call_path)`; the accumulated `call_sights` are threaded through.
    Recursion on fuel: `ancestors` never contains a repetition (cycle check), so the depth is
    bounded by the number of methods. -/
def recRoot (D : Design) : Nat → BodyId → List BodyId → List CtrlPath → List Sight → Except Reject (List Sight)
  | 0, _, _, _, _ => .error .fuel
  | fuel + 1, source, ancestors, callPath, sights =>
    (D.calls source).foldlM (init := sights) fun sights c =>
      let method := c.callee
      let newAncestors := method :: ancestors
      let newCallPath := callPath ++ [c.path]
      if ancestors.contains method then .error .cycle                       -- manager.py:89-90
      else if !D.nonexclusive method &&
              sights.any (fun s => s.method == method && !callPathsExclusive s.callPath newCallPath)
        then .error .doubleCall                                             -- manager.py:92-94
      else recRoot D fuel method newAncestors newCallPath (sights ++ [⟨method, newAncestors, newCallPath⟩])

def fuelOf (D : Design) : Nat := D.bodies.length + 1

def validateRoot (D : Design) (root : BodyId) : Except Reject Unit :=
  (recRoot D (fuelOf D) root [] [] []).map fun _ => ()

/-- manager.py:129-130 `for obj in chain(methods, transactions): validate_root_call_tree(obj._body)` -/
def validateAll (D : Design) : Except Reject Unit :=
  D.methodsAndTransactions.foldlM (init := ()) fun _ r => validateRoot D r

/-! ## `MethodMap.rec` (manager.py:101-127) -/

/-- manager.py:39-44 `CallInfo`; `enable` is the conjunction of the `enable_sig`s of `sites`,
    `arg` is the `arg_rec` of `argSite` (the last site of the chain) -/
structure CallInfo where
  ancestors : List BodyId
  callPath : List CtrlPath
  sites : List SiteId
  argSite : SiteId
deriving Repr, Inhabited

/-- all `(method, CallInfo)` appended to `info_by_call[(transaction, method)]` while running
    `rec(transaction, source, ancestors, call_path, call_enable)`, in append order (pre-order) -/
def chains (D : Design) : Nat → BodyId → List BodyId → List CtrlPath → List SiteId → List (BodyId × CallInfo)
  | 0, _, _, _, _ => []
  | fuel + 1, source, ancestors, callPath, sites =>
    (D.calls source).flatMap fun c =>
      let ci : CallInfo := ⟨c.callee :: ancestors, callPath ++ [c.path], sites ++ [c.site], c.site⟩
      (c.callee, ci) :: chains D fuel c.callee ci.ancestors ci.callPath ci.sites

/-- keep the first occurrence of every element (order of first visit) -/
def dedup : List Nat → List Nat
  | [] => []
  | a :: as => a :: (dedup as).filter (· != a)

structure MethodMap where
  /-- per transaction (manager order): everything appended to `info_by_call[(t, ·)]` -/
  info : List (BodyId × List (BodyId × CallInfo))
  /-- `methods_by_transaction`, in order of first visit -/
  mbt : List (BodyId × List BodyId)
  /-- `transactions_by_method`, keys in `methods` order, values in transaction order -/
  tbm : List (BodyId × List BodyId)
deriving Repr, Inhabited

def methodMap (D : Design) : MethodMap :=
  let info := D.transactions.map fun t => (t, chains D (fuelOf D) t [] [] [])
  let mbt := info.map fun (t, l) => (t, dedup (l.map (·.1)))
  let tbm := D.methods.map fun m => (m, (mbt.filter fun (_, ms) => ms.contains m).map (·.1))
  ⟨info, mbt, tbm⟩

namespace MethodMap
variable (mm : MethodMap)

def methodsOf (t : BodyId) : List BodyId :=
  match mm.mbt.find? (·.1 == t) with | some (_, ms) => ms | none => []

/-- `info_by_call[(t, m)]` -/
def infoFor (t m : BodyId) : List CallInfo :=
  match mm.info.find? (·.1 == t) with
  | some (_, l) => (l.filter (·.1 == m)).map (·.2)
  | none => []

/-- `transactions_for(elem)` (manager.py:143-148) -/
def transFor (b : BodyId) : List BodyId :=
  match mm.tbm.find? (·.1 == b) with | some (_, ts) => ts | none => [b]

def isMethod (b : BodyId) : Bool := mm.tbm.any (·.1 == b)

/-- `called_methods` (manager.py:162-164) -/
def calledMethods : List BodyId := (mm.tbm.filter fun (_, ts) => !ts.isEmpty).map (·.1)

/-- `ready_for_transaction` (manager.py:166-168) -/
def readyFor (t : BodyId) : List BodyId := t :: mm.methodsOf t

end MethodMap

/-! ## `_relations`, `_transactions_exclusive`, `_conflict_graph` -/

/-- manager.py:182-189; `(start, relation)` pairs -/
def relations (D : Design) : List (BodyId × Rel) :=
  D.methodsAndTransactions.flatMap fun e =>
    ((D.rels e).filter fun r => D.methodsAndTransactions.contains r.dst).map fun r => (e, r)

/-- manager.py:195-206 -/
def transactionsExclusive (D : Design) (mm : MethodMap) (t1 t2 : BodyId) : Bool :=
  (mm.readyFor t1).any fun a => (mm.readyFor t2).any fun b => (D.defPath a).exclusiveWith (D.defPath b)

/-- manager.py:239-245 -/
def callsNonexclusive (D : Design) (mm : MethodMap) (t1 t2 m : BodyId) : Bool :=
  (mm.infoFor t1 m).all fun c1 => (mm.infoFor t2 m).all fun c2 =>
    match (lcp c1.ancestors c2.ancestors).getLast? with
    | none => true        -- the `if (common_ancestors := …)` filter
    | some last => D.nonexclusive last || callPathsExclusive c1.callPath c2.callPath

/-- manager.py:247-254 -/
def callsExclusiveWithin (mm : MethodMap) (t b1 b2 : BodyId) : Bool :=
  if b1 == t || b2 == t then false
  else (mm.infoFor t b1).all fun c1 => (mm.infoFor t b2).all fun c2 =>
    callPathsExclusive c1.callPath c2.callPath

/-- conflict edges (stored in both directions) and priority constraints
    (`(a, b)` = `a` must come before `b` in `porder`) -/
structure Graphs where
  cgr : List (BodyId × BodyId) := []
  before : List (BodyId × BodyId) := []
deriving Repr, Inhabited

/-- manager.py:259-267 `add_edge`.  `pgr[end].add(begin)` for LEFT and the later
    `DiGraph(pgr).reverse()` mean: LEFT ⇒ `begin` before `end`; RIGHT ⇒ `end` before `begin`. -/
def Graphs.addEdge (g : Graphs) (b e : BodyId) (p : Priority) (conflict : Bool) : Graphs :=
  let g := if conflict then { g with cgr := g.cgr ++ [(b, e), (e, b)] } else g
  match p with
  | .left => { g with before := g.before ++ [(b, e)] }
  | .right => { g with before := g.before ++ [(e, b)] }
  | .undefined => g

def Graphs.adj (g : Graphs) (a b : BodyId) : Bool := g.cgr.contains (a, b)

/-- manager.py:273-277 implicit conflicts -/
def implicitEdges (D : Design) (mm : MethodMap) : Graphs :=
  mm.tbm.foldl (init := {}) fun g (m, ts) =>
    ts.foldl (init := g) fun g t1 =>
      ts.foldl (init := g) fun g t2 =>
        if t1 != t2 && !callsNonexclusive D mm t1 t2 m then g.addEdge t1 t2 .undefined true else g

/-- manager.py:281-305 the loop over relations -/
def relationEdges (D : Design) (mm : MethodMap) (g0 : Graphs) : Except Reject Graphs :=
  (relations D).foldlM (init := g0) fun g (start, r) =>
    if !r.conflict && decide (D.defOrder r.dst < D.defOrder start) && !r.silence then
      .error .schedBeforeDefinedAfter
    else
      (mm.transFor start).foldlM (init := g) fun g ts =>
        (mm.transFor r.dst).foldlM (init := g) fun g te =>
          if r.conflict && ts == te then
            if !callsExclusiveWithin mm ts start r.dst then .error .sameTransConflict
            else .ok g
          else
            let conflict := r.conflict && !transactionsExclusive D mm ts te
            .ok (g.addEdge ts te r.prio conflict)

/-- Kahn's algorithm: does a linear order of `nodes` exist in which every `(a,b) ∈ before`
    has `a` first?  (`networkx.lexicographical_topological_sort` raises iff not.) -/
def acyclicLoop (before : List (BodyId × BodyId)) : Nat → List BodyId → Bool
  | 0, rest => rest.isEmpty
  | fuel + 1, rest =>
    if rest.isEmpty then true
    else
      let free := rest.filter fun n => !(before.any fun (a, b) => b == n && rest.contains a)
      if free.isEmpty then false
      else acyclicLoop before fuel (rest.filter fun n => !free.contains n)

def acyclic (before : List (BodyId × BodyId)) (nodes : List BodyId) : Bool :=
  acyclicLoop before nodes.length nodes

def indexOf? (l : List Nat) (x : Nat) : Option Nat :=
  let i := l.idxOf x
  if i < l.length then some i else none

/-- decidable validity of an implementation-supplied `porder`: a permutation of the
    transactions in which every priority constraint points forward -/
def validOrder (before : List (BodyId × BodyId)) (transactions order : List BodyId) : Bool :=
  order.Nodup && order.length == transactions.length && transactions.all order.contains &&
  before.all fun (a, b) =>
    match indexOf? order a, indexOf? order b with
    | some i, some j => decide (i < j)
    | _, _ => false

/-- manager.py:318-329 `_ready_dependencies`: sources `body` with a ready-dependent relation ending in `b` -/
def readyDeps (D : Design) (b : BodyId) : List BodyId :=
  D.methodsAndTransactions.filter fun src => (D.rels src).any fun r => r.readyDep && r.dst == b

/-- number of entries of `method_args[method]` (manager.py:338-342) -/
def callSiteCount (D : Design) (m : BodyId) : Nat :=
  (D.allSites.filter fun (_, c) => c.callee == m).length

structure Elab where
  mm : MethodMap
  g : Graphs
deriving Repr, Inhabited

def elaborate (D : Design) : Except Reject Elab := do
  if !D.wf then throw .malformed
  validateAll D                                             -- MethodMap.__init__ (first in `_simultaneous`)
  let mm := methodMap D
  let g ← relationEdges D mm (implicitEdges D mm)            -- _conflict_graph
  if !acyclic g.before D.transactions then throw .unsatPriority
  -- manager.py:503-514
  if D.transactions.any (fun t => (readyDeps D t).any fun dep => g.adj t dep) then throw .readyDepConflict
  -- manager.py:560-562
  if mm.calledMethods.any (fun m => D.singleCaller m && decide (callSiteCount D m > 1)) then throw .singleCaller
  return ⟨mm, g⟩

/-- canonical list of conflict edges: unordered pairs `(a,b)` with `a < b`, sorted, no duplicates
    (self edges cannot occur: manager.py:276 and :293) -/
def Graphs.edgeList (g : Graphs) (n : Nat) : List (BodyId × BodyId) :=
  (List.range n).flatMap fun a => ((List.range n).filter fun b => decide (a < b) && g.adj a b).map fun b => (a, b)

/-- connected components of `cgr` over the transactions (`_graph_ccs`), each sorted, listed by smallest member -/
def reachLoop (g : Graphs) (nodes : List BodyId) : Nat → List BodyId → List BodyId
  | 0, seen => seen
  | fuel + 1, seen =>
    let more := nodes.filter fun n => !seen.contains n && seen.any fun s => g.adj s n
    if more.isEmpty then seen else reachLoop g nodes fuel (seen ++ more)

def Graphs.ccs (g : Graphs) (n : Nat) (transactions : List BodyId) : List (List BodyId) :=
  let ts := (List.range n).filter transactions.contains
  (ts.filterMap fun t =>
    let cc := reachLoop g ts ts.length [t]
    let cc := ts.filter cc.contains
    if cc.head? == some t then some cc else none)

end TxV.CoreModel
