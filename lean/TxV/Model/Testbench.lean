import TxV.Model.Util
/-!
Cycle-level model of the testbench helpers
(transactron/testing/testbenchio.py `CallTrigger`, `TestbenchIO.call`, `call_try`;
 transactron/testing/method_mock.py `MethodMock`).

What is modelled
* `Caller` — one testbench process executing a program of `call d` / `call_try d` / `tick`
  through `CallTrigger.__await__` (testbenchio.py:97-129): `call_init` (en := 1, data_in := d),
  sample `(outputs, done)` at the clock edge, `disable`; `call` repeats this until `done`
  (`until_done`, testbenchio.py:79-89), `call_try` does it once.
* `Mock` — the three pieces of state of a `MethodMock` (`_effects`, `_freeze`, the value driven on
  `adapter.data_in`) plus the test's own state, abstracted as the list `log` of effect payloads
  applied so far; `comb` is the body of `output_process` for one change event
  (method_mock.py:61-69), `clk` its reaction to the clock edge (62-63), `applyEffects` and
  `reenable` the two halves of one iteration of `effect_process` (89-106).
* `MState.cycle` — one clock cycle of a mock as a time-ordered list of settled changes of the
  caller-side wires, the re-enable event somewhere among them, the clock edge, further changes that
  happen after the edge but before the effects are applied (registers of the design change, other
  testbenches run first), and the application of the effects.
* `Sys` — `Caller` + a small design (`wrapper(a)`, ready iff `rdy`, returns
  `target(a + cyc).o + val`) + the mock of `target`; this is the circuit the harness builds.

What is NOT modelled (simulator runtime): the delta-cycle scheduling of pysim — that
`sim.changed(...)` wakes `output_process` for every settled change, that processes settle before
testbenches run, that `delay(0)` orders the re-enable after the other testbenches of the same
instant.  The model takes the resulting order of events as its input.
-/
namespace TxV.Testbench

/-! ### the caller side -/

inductive Cmd where
  | call (d : Nat)      -- `await tb.call(sim, d)`
  | try_ (d : Nat)      -- `await tb.call_try(sim, d)`
  | tick                -- `await sim.tick()`
deriving Repr, DecidableEq

/-- what the testbench process gets back -/
inductive Evt where
  | called (v : Nat)             -- `call` returned `v`
  | tried (v : Option Nat)       -- `call_try` returned `v` (`None` = `none`)
deriving Repr, DecidableEq

structure Caller where
  prog : List Cmd
deriving Repr, DecidableEq

/-- `call_init` at the start of a cycle (testbenchio.py:101-103, 184-190): the data the process puts on the
    adapter, `none` when it does not touch it (a plain tick, or the process has finished) -/
def Caller.drive (c : Caller) : Option Nat :=
  match c.prog with
  | .call d :: _ => some d
  | .try_ d :: _ => some d
  | _ => none

/-- the sampled `(done, outputs)` arrive (testbenchio.py:113-129): next state and returned value -/
def Caller.edge (c : Caller) (done : Bool) (out : Nat) : Caller × Option Evt :=
  match c.prog with
  | .call d :: rest =>
    if done then ({ prog := rest }, some (.called out))     -- until_done: result is not None
    else ({ prog := .call d :: rest }, none)                 -- loop: `await self` again
  | .try_ _ :: rest => ({ prog := rest }, some (.tried (if done then some out else none)))
  | .tick :: rest => ({ prog := rest }, none)
  | [] => (c, none)

/-- per-cycle view of the called method from the caller: would it run if enabled, and with which result -/
structure Env where
  grant : Bool
  out : Nat
deriving Repr, DecidableEq

structure CallerOut where
  en : Bool             -- adapter.en during the cycle
  done : Bool           -- adapter.done sampled at the edge = the method ran for this adapter
  evt : Option Evt
deriving Repr, DecidableEq

def Caller.step (c : Caller) (e : Env) : Caller × CallerOut :=
  let en := c.drive.isSome
  let done := en && e.grant                                  -- AdapterTrans: run only if en (adapters.py:103)
  let (c', evt) := c.edge done e.out
  (c', { en := en, done := done, evt := evt })

def Caller.run (c : Caller) : List Env → List CallerOut
  | [] => []
  | e :: es => (c.step e).2 :: Caller.run (c.step e).1 es

/-! ### the mock side -/

/-- the mocked function as the test writes it: from the effects applied so far and the argument it
    computes the returned value and registers effects (`MethodMock.effect`), here their payloads -/
structure MockFn where
  ret : List Nat → Nat → Nat
  effs : List Nat → Nat → List Nat

/-- method_mock.py:68-69 — `sim.set(self.adapter.data_in, ret)`: the function may return `None`
    (its result type is `Optional[...]`), and `Layout.const(None)` is the all-zero value -/
def noneAsZero : Option Nat → Nat
  | some v => v
  | none => 0

/-- a mocked Python function `g` (value or `None`, registered effects) as the `MockFn` the adapter sees -/
def MockFn.ofPy (ret : List Nat → Nat → Option Nat) (effs : List Nat → Nat → List Nat) : MockFn :=
  { ret := fun log a => noneAsZero (ret log a), effs := effs }

structure Mock where
  log : List Nat        -- payloads of all effects applied so far, in order
  effects : List Nat    -- `_effects`
  freeze : Bool         -- `_freeze`
  en : Bool             -- `adapter.en`
  dataIn : Nat          -- `adapter.data_in`, the value returned to the caller
deriving Repr, DecidableEq

def Mock.init : Mock := { log := [], effects := [], freeze := false, en := false, dataIn := 0 }

/-- method_mock.py:64-69 — `output_process` woken by a change, `(done, arg)` are the new values -/
def Mock.comb (f : MockFn) (m : Mock) (done : Bool) (arg : Nat) : Mock :=
  if done && !m.freeze then { m with effects := f.effs m.log arg, dataIn := f.ret m.log arg } else m

/-- method_mock.py:62-63 — `output_process` woken by the clock edge -/
def Mock.clk (m : Mock) : Mock := { m with freeze := true }

/-- method_mock.py:92-98 — `effect_process` after the tick; `done` is the value sampled at the edge -/
def Mock.applyEffects (m : Mock) (done : Bool) : Mock :=
  { m with en := false, log := if done then m.log ++ m.effects else m.log }

/-- method_mock.py:104-106 — after `delay`: `b` is what `enable()` returned -/
def Mock.reenable (m : Mock) (b : Bool) : Mock := { m with effects := [], freeze := false, en := b }

/-- the mock together with the caller-side wires of the mocked method: `req` = the calling body would
    run if the method were ready, `arg` = the argument it passes -/
structure MState where
  mock : Mock
  req : Bool
  arg : Nat
deriving Repr, DecidableEq

def MState.init : MState := { mock := Mock.init, req := false, arg := 0 }

/-- a settled change of the wires; `adapter.done = req ∧ en` (adapters.py:214-217) -/
def MState.set (f : MockFn) (s : MState) (w : Bool × Nat) : MState :=
  { mock := s.mock.comb f (w.1 && s.mock.en) w.2, req := w.1, arg := w.2 }

/-- re-enable; `en` rising changes `done`, which wakes `output_process` -/
def MState.enable (f : MockFn) (s : MState) (b : Bool) : MState :=
  { s with mock := (s.mock.reenable b).comb f (s.req && b) s.arg }

structure MCycle where
  pre : List (Bool × Nat)     -- wire changes before the re-enable
  men : Bool                  -- `enable()`
  post : List (Bool × Nat)    -- wire changes after it, up to the clock edge
  after : List (Bool × Nat)   -- wire changes after the edge, before `effect_process` runs
  x : Nat := 0                -- Python-side state (not a signal) the mocked function reads, as it stands when the
                              -- mock re-enables; HYPOTHESIS of the model: other testbenches update it only between
                              -- the clock edge and the end of the mock's `delay` (that is what `delay` is for)
deriving Repr, DecidableEq

structure MOut where
  done : Bool                 -- `adapter.done` sampled at the edge: the mocked method ran
  ret : Nat                   -- `adapter.data_in` at the edge: what the caller received
  applied : List Nat          -- payloads of the effects applied after this edge
deriving Repr, DecidableEq

def MState.cycle (f : MockFn) (s : MState) (c : MCycle) : MState × MOut :=
  let s1 := c.pre.foldl (MState.set f) s
  let s2 := s1.enable f c.men
  let s3 := c.post.foldl (MState.set f) s2
  let done := s3.req && s3.mock.en
  let ret := s3.mock.dataIn
  let s4 : MState := { s3 with mock := s3.mock.clk }
  let s5 := c.after.foldl (MState.set f) s4
  let applied := if done then s5.mock.effects else []
  ({ s5 with mock := s5.mock.applyEffects done }, { done := done, ret := ret, applied := applied })

/-- a history of cycles; `F x` is the mocked function when the Python-side state is `x` -/
def MState.run (F : Nat → MockFn) (s : MState) : List MCycle → MState × List MOut
  | [] => (s, [])
  | c :: cs =>
    let (s', o) := s.cycle (F c.x) c
    let (s'', os) := MState.run F s' cs
    (s'', o :: os)

/-! ### caller + design + mock -/

/-- one phase of a cycle as the harness drives it: the new value of `rdy`, and (raw mode) new values of
    the wrapper adapter's `en` / `data_in` poked directly -/
structure Phase where
  rdy : Bool
  raw : Option (Bool × Nat)
deriving Repr, DecidableEq

structure CycIn where
  phases : List Phase
  e : Nat               -- the mock re-enables after phase number `e` (0-based)
  men : Bool
  val : Nat
  x : Nat := 0          -- Python-side state read by the mocked function, in force when the mock re-enables
deriving Repr, DecidableEq

structure Sys where
  w : Nat
  caller : Caller
  ms : MState
  k : Nat               -- the design's free-running cycle counter
  aen : Bool            -- wrapper adapter `en`
  adata : Nat           -- wrapper adapter `data_in`
  rdy : Bool
deriving Repr, DecidableEq

def Sys.init (w : Nat) (prog : List Cmd) : Sys :=
  { w := w, caller := { prog := prog }, ms := MState.init, k := 0, aen := false, adata := 0, rdy := false }

structure SysOut where
  en : Bool             -- wrapper adapter `en` at the edge
  done : Bool           -- wrapper adapter `done` at the edge (= wrapper.run = target.run)
  ret : Option Nat      -- wrapper adapter `data_out` at the edge, if done
  applied : List Nat    -- effects of the mock applied after this edge
  evt : Option Evt      -- what the testbench process got back in this cycle
  out : Nat             -- wrapper adapter `data_out` at the edge, done or not
deriving Repr, DecidableEq

/-- the wires of the mocked method as the design computes them: the wrapper transaction requests the
    call iff its adapter is enabled and `rdy`; the argument is `data_in + cyc` -/
def wiresOf (w : Nat) (k : Nat) (aen : Bool) (adata : Nat) (rdy : Bool) : Bool × Nat :=
  (aen && rdy, (adata + k) % 2 ^ w)

/-- apply the phases in order, collecting the wire values after each -/
def phaseWires (w k : Nat) : Bool → Nat → Bool → List Phase → List (Bool × Nat) × (Bool × Nat × Bool)
  | aen, adata, rdy, [] => ([], (aen, adata, rdy))
  | aen, adata, _, p :: ps =>
    let (aen', adata') := match p.raw with
      | some (e, d) => (e, d % 2 ^ w)
      | none => (aen, adata)
    let (ws, fin) := phaseWires w k aen' adata' p.rdy ps
    (wiresOf w k aen' adata' p.rdy :: ws, fin)

def Sys.step (f : MockFn) (s : Sys) (i : CycIn) : Sys × SysOut :=
  -- call_init of the testbench process, at the start of the cycle
  let (aen0, adata0) := match s.caller.drive with
    | some d => (true, d % 2 ^ s.w)
    | none => (s.aen, s.adata)
  let (ws, (aen1, adata1, rdy1)) := phaseWires s.w s.k aen0 adata0 s.rdy i.phases
  -- after the edge: the counter increments (the argument changes while `done` is still up), then the
  -- testbench process disables its adapter; both before the effects are applied
  let aen2 := if s.caller.drive.isSome then false else aen1
  let after := [wiresOf s.w (s.k + 1) aen1 adata1 rdy1, wiresOf s.w (s.k + 1) aen2 adata1 rdy1]
  let (ms', o) := s.ms.cycle f { pre := ws.take (i.e + 1), men := i.men, post := ws.drop (i.e + 1), after := after, x := i.x }
  let out := (o.ret + i.val) % 2 ^ s.w
  let (caller', co) := s.caller.step { grant := o.done, out := out }
  ({ s with caller := caller', ms := ms', k := s.k + 1, aen := aen2, adata := adata1, rdy := rdy1 },
   { en := aen1, done := o.done, ret := if o.done then some out else none, applied := o.applied,
     evt := co.evt, out := out })

def Sys.run (F : Nat → MockFn) (s : Sys) : List CycIn → List SysOut
  | [] => []
  | i :: is => (s.step (F i.x) i).2 :: Sys.run F (s.step (F i.x) i).1 is

/-! ### `CallTrigger` with several calls (testbenchio.py:15-133)

`CallTrigger(sim).call(m0, d0).call(m1, d1).sample(m2).sample(sig)` awaited once, through
`until_done()` or through `until_all_done()`.  One await (`__await__`, 97-129): `call_init` for every
`call` entry, one tick sampling `(outputs, done)` of every listed method and the plain values,
`disable` for every `call` entry; the result of a method entry is its outputs if `done` else
`None`, the result of a plain value is the value.  `until_done` / `until_all_done` (79-95) repeat
the whole await — re-issuing every call — until any / all results are not `None`. -/

inductive Entry where
  | call (m : Nat) (d : Nat)     -- `.call(tb_m, d)`
  | samp (m : Nat)               -- `.sample(tb_m)`: sampled, not called by this trigger
  | value                        -- `.sample(signal)`
deriving Repr, DecidableEq

inductive Mode where
  | once | anyDone | allDone     -- `await t` | `await t.until_done()` | `await t.until_all_done()`
deriving Repr, DecidableEq

inductive TCmd where
  | trig (es : List Entry) (mode : Mode)
  | tick
deriving Repr, DecidableEq

structure TCaller where
  prog : List TCmd
deriving Repr, DecidableEq

/-- one cycle of the methods as seen from the testbench: `ext m` = another agent enables adapter `m`
    with this data, `grant m` = method `m` runs if its adapter is enabled, `out m a` = its result for
    argument `a`, `value` = the sampled plain signal -/
structure TEnv where
  ext : Nat → Option Nat
  grant : Nat → Bool
  out : Nat → Nat → Nat
  value : Nat

/-- the data this trigger puts on adapter `m` (`call_init`), if it calls `m` -/
def callData : List Entry → Nat → Option Nat
  | [], _ => none
  | .call m' d :: es, m => if m' = m then some d else callData es m
  | _ :: es, m => callData es m

/-- adapter `m`'s `data_in` while enabled: the trigger's `call_init` comes after the other agent's poke -/
def dataOf (es : List Entry) (e : TEnv) (m : Nat) : Option Nat :=
  match callData es m with
  | some d => some d
  | none => e.ext m

/-- adapter `m`'s `done` at the edge -/
def doneOf (es : List Entry) (e : TEnv) (m : Nat) : Bool := (dataOf es e m).isSome && e.grant m

/-- testbenchio.py:120-129 — the result of one entry -/
def resOf (es : List Entry) (e : TEnv) : Entry → Option Nat
  | .call m d => if doneOf es e m then some (e.out m d) else none
  | .samp m => if doneOf es e m then (dataOf es e m).map (e.out m) else none
  | .value => some e.value

def results (es : List Entry) (e : TEnv) : List (Option Nat) := es.map (resOf es e)

/-- does the awaiting coroutine return after this cycle? (testbenchio.py:87-95) -/
def fires : Mode → List (Option Nat) → Bool
  | .once, _ => true
  | .anyDone, rs => rs.any (·.isSome)
  | .allDone, rs => rs.all (·.isSome)

structure TOut where
  en : Nat → Bool                       -- adapter.en of method m during the cycle
  done : Nat → Bool                     -- adapter.done of method m at the edge = the method ran for it
  evt : Option (List (Option Nat))      -- the tuple handed back to the process in this cycle

/-- entries in force during a cycle: those of the trigger being awaited, none otherwise -/
def TCaller.entries (c : TCaller) : List Entry :=
  match c.prog with
  | .trig es _ :: _ => es
  | _ => []

def TCaller.step (c : TCaller) (e : TEnv) : TCaller × TOut :=
  let es := c.entries
  let o (evt : Option (List (Option Nat))) : TOut :=
    { en := fun m => (dataOf es e m).isSome, done := doneOf es e, evt := evt }
  match c.prog with
  | .trig es' mode :: rest =>
    if fires mode (results es' e) then ({ prog := rest }, o (some (results es' e)))
    else (c, o none)
  | .tick :: rest => ({ prog := rest }, o none)
  | [] => (c, o none)

def TCaller.run (c : TCaller) : List TEnv → List TOut
  | [] => []
  | e :: es => (c.step e).2 :: TCaller.run (c.step e).1 es

end TxV.Testbench
