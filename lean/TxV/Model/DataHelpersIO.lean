import TxV.Model.DataHelpers
/-! Line-protocol glue for the C41 driver (parsing / printing); compiled with the library so that
`lean --run Driver/C41.lean` has nothing to elaborate.  No theorem is about this file. -/
namespace TxV.DataHelpers.IO
open TxV TxV.Proto TxV.DataHelpers

/-!
protocol (one helper call per line)
  `cfg`                         → `ok`
  `i2s x=-3 w=4`                → `r=13`
  `s2i x=13 w=4`                → `r=-3` | `raise TypeError`
  `rts x=-3 w=4`                → `u=13 s=-3`      (u = int_to_signed(x,w), s = signed_to_int(u,w))
  `rtu x=13 w=4`                → `s=-3 u=13`      (s = signed_to_int(x,w), u = int_to_signed(s,w))
  `al n=13 p=2`                 → `up=16 down=12`
  `mh a=<rpn> b=<rpn>`          → `ra=<canon> rb=<canon> eq=1 req=1`
        rpn: comma-separated stack program: `i<int>` `s<text>` push; `t<n>` `l<n>` `S<n>` `F<n>` pop n
        elements (tuple, list, set, frozenset); `d<n>` pops n key/value pairs
        eq = Python `a == b`, req = `make_hashable(a) == make_hashable(b)`
  `tr lay=<outer> v=<nat>`      → `lay=<outer> ok=<keys> ik=<keys> v=<nat> cells=<transpose(v)[i][o] for i for o> back=<layout transposed twice>` | `raise ValueError`
        outer: `S|name:inner|…` `A|n|inner` `O|w`;  inner: `S;name:w.tag;…` `A;n;w.tag` `O;w`
-/

def int? (t : List String) (key : String) : Option Int := (kv? t key).bind String.toInt?

/-! ### Python values -/

def mkPyList : List PyVal → PyList
  | [] => .nil
  | h :: t => .cons h (mkPyList t)

def mkPyPairs : List PyVal → PyPairs
  | k :: v :: t => .cons k v (mkPyPairs t)
  | _ => .nil

/-- pop `n` values (they were pushed left to right, so the stack holds them reversed) -/
def popN (st : List PyVal) (n : Nat) : Option (List PyVal × List PyVal) :=
  if n ≤ st.length then some ((st.take n).reverse, st.drop n) else none

def rpnStep (st : Option (List PyVal)) (tok : String) : Option (List PyVal) :=
  match st with
  | none => none
  | some st =>
    let c := tok.take 1 |>.toString
    let rest := tok.drop 1 |>.toString
    if c == "i" then rest.toInt?.map fun n => PyVal.int n :: st
    else if c == "s" then some (PyVal.str rest :: st)
    else match rest.toNat? with
      | none => none
      | some n =>
        if c == "d" then (popN st (2 * n)).map fun (xs, st') => PyVal.dict (mkPyPairs xs) :: st'
        else (popN st n).bind fun (xs, st') =>
          if c == "t" then some (PyVal.tuple (mkPyList xs) :: st')
          else if c == "l" then some (PyVal.list (mkPyList xs) :: st')
          else if c == "S" then some (PyVal.set (mkPyList xs) :: st')
          else if c == "F" then some (PyVal.fset (mkPyList xs) :: st')
          else none

def parsePy (s : String) : Option PyVal :=
  match (s.splitOn ",").foldl rpnStep (some []) with
  | some [v] => some v
  | _ => none

def sortStrs (l : List String) : List String := l.mergeSort fun a b => !(b < a)

mutual
def showPy : PyVal → String
  | .int n => s!"i{n}"
  | .str s => s!"s{s}"
  | .tuple l => "t(" ++ ",".intercalate (showPyList l) ++ ")"
  | .list l => "l(" ++ ",".intercalate (showPyList l) ++ ")"
  | .dict l => "d(" ++ ",".intercalate (sortStrs (showPyPairs l)) ++ ")"
  | .set l => "S(" ++ ",".intercalate (sortStrs (showPyList l)) ++ ")"
  | .fset l => "F(" ++ ",".intercalate (sortStrs (showPyList l)) ++ ")"
def showPyList : PyList → List String
  | .nil => []
  | .cons h t => showPy h :: showPyList t
def showPyPairs : PyPairs → List String
  | .nil => []
  | .cons k v t => (showPy k ++ ":" ++ showPy v) :: showPyPairs t
end

/-! ### layouts -/

def parseLeaf (s : String) : Option Leaf :=
  match s.splitOn "." with
  | [w, t] => match w.toNat?, t.toNat? with
    | some w, some t => some ⟨w, t⟩
    | _, _ => none
  | _ => none

def splitName (s : String) : Option (String × String) :=
  match s.splitOn ":" with
  | n :: r :: rest => some (n, ":".intercalate (r :: rest))
  | _ => none

def parseInner (s : String) : Option Inner :=
  match s.splitOn ";" with
  | "S" :: fs => (fs.mapM fun f => (splitName f).bind fun (n, x) => (parseLeaf x).map fun l => (n, l)).map Lay.struct
  | ["A", n, e] => match n.toNat?, parseLeaf e with
    | some n, some e => some (.array e n)
    | _, _ => none
  | ["O", w] => w.toNat?.map Lay.other
  | _ => none

def parseOuter (s : String) : Option Outer :=
  match s.splitOn "|" with
  | "S" :: fs => (fs.mapM fun f => (splitName f).bind fun (n, x) => (parseInner x).map fun l => (n, l)).map Lay.struct
  | ["A", n, e] => match n.toNat?, parseInner e with
    | some n, some e => some (.array e n)
    | _, _ => none
  | ["O", w] => w.toNat?.map Lay.other
  | _ => none

def showLeaf (l : Leaf) : String := s!"{l.w}.{l.tag}"

def showInner : Inner → String
  | .struct fs => ";".intercalate ("S" :: fs.map fun (n, l) => s!"{n}:{showLeaf l}")
  | .array e n => s!"A;{n};{showLeaf e}"
  | .other w => s!"O;{w}"

def showOuter : Outer → String
  | .struct fs => "|".intercalate ("S" :: fs.map fun (n, l) => s!"{n}:{showInner l}")
  | .array e n => s!"A|{n}|{showInner e}"
  | .other w => s!"O|{w}"

def showKey : Key → String
  | .name s => s
  | .idx i => s!"#{i}"

def showKeys (l : List Key) : String := ",".intercalate (l.map showKey)

def natToBits (n len : Nat) : List Bool := (List.range len).map fun i => n.testBit i

def bitsToNat (b : List Bool) : Nat := b.foldr (fun x acc => 2 * acc + x.toNat) 0

def showInt (x : Int) : String := toString x

def stepLine (s : Unit) (line : String) : Unit × String :=
  let t := tokens line
  let out :=
    match t.head? with
    | some "cfg" => "ok"
    | some "i2s" =>
      match int? t "x", nat? t "w" with
      | some x, some w => s!"r={showInt (intToSigned x w)}"
      | _, _ => "bad-op"
    | some "s2i" =>
      match int? t "x", nat? t "w" with
      | some x, some w =>
        match signedToInt x w with
        | some r => s!"r={showInt r}"
        | none => "raise TypeError"
      | _, _ => "bad-op"
    | some "rts" =>
      match int? t "x", nat? t "w" with
      | some x, some w =>
        let u := intToSigned x w
        match signedToInt u w with
        | some r => s!"u={showInt u} s={showInt r}"
        | none => "raise TypeError"
      | _, _ => "bad-op"
    | some "rtu" =>
      match int? t "x", nat? t "w" with
      | some x, some w =>
        match signedToInt x w with
        | some r => s!"s={showInt r} u={showInt (intToSigned r w)}"
        | none => "raise TypeError"
      | _, _ => "bad-op"
    | some "al" =>
      match int? t "n", nat? t "p" with
      | some n, some p => s!"up={showInt (alignUp n p)} down={showInt (alignDown n p)}"
      | _, _ => "bad-op"
    | some "mh" =>
      match (kv? t "a").bind parsePy, (kv? t "b").bind parsePy with
      | some a, some b =>
        s!"ra={showPy (makeHashable a)} rb={showPy (makeHashable b)} eq={showBool (pyEq a b)} req={showBool (pyEq (makeHashable a) (makeHashable b))}"
      | _, _ => "bad-op"
    | some "tr" =>
      match (kv? t "lay").bind parseOuter, nat? t "v" with
      | some l, some v =>
        match transposeLayout l with
        | .error .internal => "internal"
        | .error _ => "raise ValueError"
        | .ok (r, ok, ik) =>
          match transposeVal l ok ik (natToBits v (outerSize l)) with
          | some bits =>
            let cells := ik.flatMap fun i => ok.map fun o =>
              match getPath r bits i o with
              | some (_, b) => toString (bitsToNat b)
              | none => "?"
            let back := match transposeLayout r with
              | .ok (r2, _, _) => showOuter r2
              | .error _ => "error"
            s!"lay={showOuter r} ok={showKeys ok} ik={showKeys ik} v={bitsToNat bits} cells={",".intercalate cells} back={back}"
          | none => "internal"
      | _, _ => "bad-op"
    | _ => "bad-op"
  (s, out)

end TxV.DataHelpers.IO
