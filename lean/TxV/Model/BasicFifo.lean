import TxV.Model.QueueUtil
/-!
Model of `transactron.lib.fifo.BasicFifo` (fifo.py:19-147) on top of
`CircularAllocator(depth, 1, 1)` (allocators.py:286-332), and of
`transactron.lib.connectors.FIFO` (connectors.py:24-84).

One `step` = one clock cycle.  The environment attempts calls (`AdapterTrans` with `en = 1`);
the model says which execute, what they return, and the registers after the edge.

* `alloc`/`free`/`clear` of the allocator have no conflicts with each other; `write` calls
  `alloc(count=1)`, `read` calls `free(count=1)`; `peek` only looks at `free.ready`;
  `clear` calls `allocator.clear` (nonexclusive).  So `write`, `read`, `peek`, `clear` are
  pairwise conflict-free and each executes iff attempted and ready.
* readiness is a function of the register `allocated` *before* the edge
  (allocators.py:310 `allocated != entries`, :325 `allocated != 0`).
* the memory read port is synchronous and transparent for the write port (fifo.py:117-118);
  its address is `start_idx`, overridden by `new_start_idx` when `read` runs (fifo.py:120,135).
* `clear`'s `sync` assignments come last in the allocator and win (allocators.py:328-332).
-/
namespace TxV.BasicFifo
open TxV.QueueUtil

structure State where
  start : Nat        -- allocator.start_idx = read_idx
  stop : Nat         -- allocator.end_idx   = write_idx
  alloc : Nat        -- allocator.allocated = level
  mem : List Nat     -- fifo.py:103 `self.data`
  rd : Nat           -- read-port data register = `head`
deriving Repr, DecidableEq

/-- attempted calls of one cycle -/
structure In where
  w : Option Nat     -- write attempted with this (flattened) argument
  r : Bool
  p : Bool
  c : Bool
deriving Repr, DecidableEq

/-- what is observed in one cycle (sampled before the edge) -/
structure Out where
  wr : Option Nat    -- write executed (with the value it stores)
  rd : Option Nat    -- read executed, returned value
  pk : Option Nat    -- peek executed, returned value
  clr : Bool         -- clear executed
  rrdy : Bool        -- read.ready (= peek.ready)
  wrdy : Bool        -- write.ready
deriving Repr, DecidableEq

def init (d : Nat) : State := ⟨0, 0, 0, List.replicate d 0, 0⟩

def step (d : Nat) (s : State) (i : In) : State × Out :=
  let wrdy := s.alloc != d                    -- allocators.py:310
  let rrdy := s.alloc != 0                    -- allocators.py:325, fifo.py:139
  let wr : Option Nat := if wrdy then i.w else none
  let rrun := i.r && rrdy
  let prun := i.p && rrdy
  let nstart := modAdd1 s.start d             -- allocators.py:328 new_start_idx
  let nstop := modAdd1 s.stop d               -- allocators.py:313 new_end_idx
  let raddr := if rrun then nstart else s.start   -- fifo.py:120, 135
  let mem' := match wr with                   -- fifo.py:125-127, write port address = end_idx
    | some v => s.mem.set s.stop v
    | none => s.mem
  -- transparent synchronous read port: sees this cycle's write
  let rd' := mem'.getD raddr 0
  -- allocators.py:305 (sum at full precision, truncated to the width of `allocated`)
  let alloc' := (s.alloc + wr.isSome.toNat - rrun.toNat) % 2 ^ bitsFor d
  let s' : State :=
    if i.c then ⟨0, 0, 0, mem', rd'⟩          -- allocators.py:328-332 (later assignments win)
    else ⟨if rrun then nstart else s.start, if wr.isSome then nstop else s.stop, alloc', mem', rd'⟩
  (s', ⟨wr, if rrun then some s.rd else none, if prun then some s.rd else none, i.c, rrdy, wrdy⟩)

def run (d : Nat) (s : State) : List In → State × List Out
  | [] => (s, [])
  | i :: is =>
    let (s', o) := step d s i
    let (s'', os) := run d s' is
    (s'', o :: os)

/-! ### the abstract bounded queue

It is the specification `BasicFifo` is proved to refine, and at the same time the (trusted)
model of `amaranth.lib.fifo.SyncFIFO` behind `transactron.lib.connectors.FIFO`:
`w_rdy = (level ≠ depth)`, `r_rdy = (level ≠ 0)`, `r_data` = oldest element, a transfer
happens on a port when its `en` and `rdy` are both high (connectors.py:72-82). -/

def specStep (d : Nat) (q : List Nat) (i : In) : List Nat × Out :=
  let wrdy := q.length != d
  let rrdy := q.length != 0
  let wr : Option Nat := if wrdy then i.w else none
  let rrun := i.r && rrdy
  let prun := i.p && rrdy
  let q1 := if rrun then q.tail else q
  let q2 := q1 ++ wr.toList
  (if i.c then [] else q2,
   ⟨wr, if rrun then q.head? else none, if prun then q.head? else none, i.c, rrdy, wrdy⟩)

def specRun (d : Nat) (q : List Nat) : List In → List Nat × List Out
  | [] => (q, [])
  | i :: is =>
    let (q', o) := specStep d q i
    let (q'', os) := specRun d q' is
    (q'', o :: os)

/-- `connectors.FIFO`: only `write` and `read` exist -/
def fifoIn (w : Option Nat) (r : Bool) : In := ⟨w, r, false, false⟩

/-- history event of a cycle -/
def ev (o : Out) : Ev := ⟨o.wr, o.rd, o.clr⟩

end TxV.BasicFifo
