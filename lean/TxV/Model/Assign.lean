import TxV.Model.Util
/-!
Model of `transactron.utils.assign.assign` (utils/assign.py:31-223).

Objects (`Obj`) are what `assign` can be given and what it meets while descending:

* `val`    – a plain Amaranth value with a shape: a `Signal`, a `Slice` of a view (unsigned member) or the
             `as_signed()` operator over such a slice (signed member; *not* an "explicit shape" for
             `has_explicit_shape`, assign.py:204-205);
* `int`    – a Python constant: an integer (`en = none`; given by the user, or a plain member of a `data.Const`)
             or a member of an enum class `en = some id`; `py` = `isinstance(x, int)` (false for `enum.Enum`
             members, true for ints and `IntEnum` members); its value is the `w`-bit pattern `v`, negative when
             `signed` and the top bit is set;
* `enumv`  – an `EnumView` (a `Signal` or view member shaped by an `enum.Enum` class): ValueCastable, its shape
             is the class;
* `const`  – a `data.Const` over a Struct/Array/Union layout, as the tree of its members (ints, enum members,
             nested consts); `flds` is the layout as `Layout.__eq__` sees it;
* `view`   – a `data.View` over a Struct/Array/Union layout, given as the tree of its members, every node
             carrying the bits it occupies (`store` = which signal, `off`, `size`);
* `dict`, `list` – Python containers of objects;
* `proxy`  – `Array([Signal(layout) …])[index]`: an `ArrayProxy` over same-layout elements; `tmpl` is the
             element as an object (its `store` fields are ignored), `stores` the signals of the elements,
             `idx` the run-time value of the index.

`ofLayout` builds the member tree of `Signal(layout)` with Amaranth's offsets (Struct: running sum, Array:
`i · size`, Union: all 0).  The result of `assignObj` is, per generated `lhs.eq(rhs)` statement, the path
of keys that leads to its left and right operand and the bit flow it causes.
-/
namespace TxV.Assign

inductive Key
  | name (s : String)
  | idx (i : Nat)
deriving Repr, DecidableEq

abbrev Path := List Key

/-! ## layouts -/

mutual
inductive Layout
  | leaf (w : Nat) (signed : Bool)
  | enum (w : Nat) (id : Nat) (intEnum : Bool)   -- an `amaranth.lib.enum.Enum` / `IntEnum` class `id` with `shape=w`
  | struct (fs : LFields)
  | array (e : Layout) (n : Nat)
  | union (fs : LFields)
inductive LFields
  | nil
  | cons (name : String) (l : Layout) (t : LFields)
end

mutual
def Layout.size : Layout → Nat
  | .leaf w _ => w
  | .enum w _ _ => w
  | .struct fs => fs.sum
  | .array e n => n * e.size
  | .union fs => fs.max
def LFields.sum : LFields → Nat
  | .nil => 0
  | .cons _ l t => l.size + t.sum
def LFields.max : LFields → Nat
  | .nil => 0
  | .cons _ l t => Nat.max l.size t.max
end

/-! ## objects -/

inductive VKind | struct | array | union
deriving Repr, DecidableEq

mutual
inductive Obj
  | val (store off w : Nat) (signed explicit : Bool)
  | int (v w : Nat) (signed : Bool) (en : Option Nat) (py : Bool)
  | enumv (store off w id : Nat)
  | view (kind : VKind) (store off size : Nat) (ms : Members)
  | const (kind : VKind) (size value : Nat) (flds : List (Key × Nat × Bool × Nat)) (ms : Members)
  | dict (ms : Members)
  | list (ms : Members)
  | proxy (idx : Nat) (stores : List Nat) (tmpl : Obj)
inductive Members
  | nil
  | cons (k : Key) (o : Obj) (t : Members)
end

def Members.keys : Members → List Key
  | .nil => []
  | .cons k _ t => k :: t.keys

def Members.lookup (key : Key) : Members → Option Obj
  | .nil => none
  | .cons k o t => if k = key then some o else t.lookup key

def Members.length : Members → Nat
  | .nil => 0
  | .cons _ _ t => t.length + 1

/-- the member tree of a view over `l` placed at bit `off` of signal `store`; `root` = the object is the
    signal itself (a leaf layout then gives a `Signal`, which has an explicit shape) -/
def fieldObj (store off : Nat) (root : Bool) (w : Nat) (signed : Bool) : Obj :=
  .val store off w signed (root || !signed)

/-- members `i, i+1, …` of an array with `n` remaining elements of size `esz`; `mk off` = the element at `off` -/
def arrayMembers (mk : Nat → Obj) (esz : Nat) : Nat → Nat → Nat → Members
  | 0, _, _ => .nil
  | n + 1, i, off => .cons (.idx i) (mk off) (arrayMembers mk esz n (i + 1) (off + esz))

mutual
def ofLayout : Layout → (store off : Nat) → (root : Bool) → Obj
  | .leaf w s, store, off, root => fieldObj store off root w s
  | .enum w id ie, store, off, root =>
    -- a member shaped by an IntEnum is a plain unsigned slice, `Signal(IntEnum)` a plain signal
    if ie then fieldObj store off root w false else .enumv store off w id
  | .struct fs, store, off, _ => .view .struct store off fs.sum (ofStruct fs store off)
  | .array e n, store, off, _ =>
    .view .array store off (n * e.size) (arrayMembers (fun o => ofLayout e store o false) e.size n 0 off)
  | .union fs, store, off, _ => .view .union store off fs.max (ofUnion fs store off)
def ofStruct : LFields → (store off : Nat) → Members
  | .nil, _, _ => .nil
  | .cons nm l t, store, off => .cons (.name nm) (ofLayout l store off false) (ofStruct t store (off + l.size))
def ofUnion : LFields → (store off : Nat) → Members
  | .nil, _, _ => .nil
  | .cons nm l t, store, off => .cons (.name nm) (ofLayout l store off false) (ofUnion t store off)
end

/-- `Shape.cast(shape)` of a member layout: width and signedness -/
def Layout.flat : Layout → Nat × Bool
  | .leaf w s => (w, s)
  | l => (l.size, false)

/-- the fields of a struct (`union = false`: running offsets) or union (all at 0), as `Layout.__eq__` sees them -/
def LFields.flds (union : Bool) : LFields → Nat → List (Key × Nat × Bool × Nat)
  | .nil, _ => []
  | .cons nm l t, off => (.name nm, l.flat.1, l.flat.2, off) :: t.flds union (if union then off else off + l.size)

/-- members `i, i+1, …` of an array constant: `mk v` = the element whose bits start at bit 0 of `v` -/
def arrayConsts (mk : Nat → Obj) (esz : Nat) : Nat → Nat → Nat → Members
  | 0, _, _ => .nil
  | n + 1, i, v => .cons (.idx i) (mk v) (arrayConsts mk esz n (i + 1) (v >>> esz))

mutual
/-- `layout.const(…)` whose bits are `v` (bits above the size are ignored): what `Const.__getitem__` returns for
    a member - a Python int for plain shapes, the enum member for Enum shapes, a `Const` for layouts -/
def ofConst : Layout → (v : Nat) → Obj
  | .leaf w s, v => .int (v % 2 ^ w) w s none true
  | .enum w id ie, v => .int (v % 2 ^ w) w false (some id) ie
  | .struct fs, v => .const .struct fs.sum (v % 2 ^ fs.sum) (fs.flds false 0) (constStruct fs v)
  | .array e n, v =>
    .const .array (n * e.size) (v % 2 ^ (n * e.size))
      ((List.range n).map fun i => (.idx i, e.flat.1, e.flat.2, i * e.size))
      (arrayConsts (fun x => ofConst e x) e.size n 0 v)
  | .union fs, v => .const .union fs.max (v % 2 ^ fs.max) (fs.flds true 0) (constUnion fs v)
def constStruct : LFields → (v : Nat) → Members
  | .nil, _ => .nil
  | .cons nm l t, v => .cons (.name nm) (ofConst l v) (constStruct t (v >>> l.size))
def constUnion : LFields → (v : Nat) → Members
  | .nil, _ => .nil
  | .cons nm l t, v => .cons (.name nm) (ofConst l v) (constUnion t v)
end

/-! ## nested `ArrayProxy`s: `arr[i][j][k]` over `Array`s of `Array`s of … of views -/

mutual
/-- the tree of elements of a (possibly nested) `ArrayProxy`: `proxy.elems` are views (`leaf`, the signal of the
    view) or again proxies (`node`) -/
inductive PTree
  | leaf (store : Nat)
  | node (cs : PTrees)
inductive PTrees
  | nil
  | cons (t : PTree) (ts : PTrees)
end

mutual
/-- `flatten_elems` (assign.py:32-37): all views below the proxy, recursively through nested proxies -/
def PTree.leaves : PTree → List Nat
  | .leaf s => [s]
  | .node cs => cs.leaves
def PTrees.leaves : PTrees → List Nat
  | .nil => []
  | .cons t ts => t.leaves ++ ts.leaves
end

mutual
/-- the element chosen at run time by the index values, outermost index first -/
def PTree.select : PTree → List Nat → Option Nat
  | .leaf s, [] => some s
  | .leaf _, _ :: _ => none
  | .node _, [] => none
  | .node cs, i :: is => cs.select i is
def PTrees.select : PTrees → Nat → List Nat → Option Nat
  | .nil, _, _ => none
  | .cons t _, 0, is => t.select is
  | .cons _ ts, i + 1, is => ts.select i is
end

/-- `arr[i]…[k]` as an object: the field set of a homogeneous proxy is that of its element layout (the
    intersection over all `leaves`), the statement generated for it drives the selected leaf -/
def nestedProxy (t : PTree) (idxs : List Nat) (tmpl : Obj) : Option Obj :=
  (t.select idxs).map fun s => .proxy (t.leaves.idxOf s) t.leaves tmpl

/-! ## field selections -/

inductive Mode | common | lhs | rhs | all
deriving Repr, DecidableEq

mutual
inductive Sel
  | mode (m : Mode)                -- an `AssignType`
  | iter (ks : List Key)           -- an iterable of field names
  | map (ms : SelMap)              -- a mapping from field names to selections
inductive SelMap
  | nil
  | cons (k : Key) (s : Sel) (t : SelMap)
end

def SelMap.keys : SelMap → List Key
  | .nil => []
  | .cons k _ t => k :: t.keys

def SelMap.lookup (key : Key) : SelMap → Option Sel
  | .nil => none
  | .cons k s t => if k = key then some s else t.lookup key

def Sel.isMode : Sel → Bool
  | .mode _ => true
  | _ => false

/-- assign.py:154-163 (as a list; only membership and emptiness are used) -/
def selNames (sel : Sel) (lf rf : List Key) : List Key :=
  match sel with
  | .mode .common => lf.filter (· ∈ rf)
  | .mode .lhs => lf
  | .mode .rhs => rf
  | .mode .all => lf ++ rf
  | .iter ks => ks
  | .map ms => ms.keys

/-- `rec_call`: the selection handed to a member (assign.py:123-127); `none` = `fields[name]` raises KeyError -/
def subSel (sel : Sel) (k : Key) : Option Sel :=
  match sel with
  | .mode m => some (.mode m)
  | .iter _ => some (.mode .all)
  | .map ms => ms.lookup k

/-! ## results -/

inductive Err | valueError | keyError | typeError
deriving Repr, DecidableEq

/-- `ArrayProxy` context: run-time index and the signals of the elements -/
structure PCtx where
  idx : Nat
  stores : List Nat
deriving Repr, DecidableEq

inductive Src
  | bits (c : Option PCtx) (store off w : Nat) (signed : Bool)
  | const (v w : Nat) (signed : Bool)     -- the `w`-bit pattern `v`, extended by its sign when `signed`
deriving Repr, DecidableEq

/-- `lhs_val.eq(rhs_val)`: `dw` bits at `doff` of the destination signal take the source, truncated or
    extended (by its sign) to `dw` bits -/
structure Flow where
  dc : Option PCtx
  dstore : Nat
  doff : Nat
  dw : Nat
  src : Src
deriving Repr, DecidableEq

structure Pair where
  lpath : Path
  rpath : Path
  checked : Bool        -- was the shape comparison performed (assign.py:207-218)
  flow : Flow
deriving Repr, DecidableEq

/-! ## the pieces of `assign` -/

/-- strip `Array(...)[index]`: from here on the object is read under the proxy context -/
def strip (c : Option PCtx) : Obj → Option PCtx × Obj
  | .proxy i s t => (some ⟨i, s⟩, t)
  | o => (c, o)

/-- `assign_arg_fields` (assign.py:31-62); under a proxy context this is `arrayproxy_fields`: the member
    names of Struct and Union layouts, `range(length)` for an Array layout (repaired by b9861c1; before,
    `shape().members` raised AttributeError there) -/
def argFields (c : Option PCtx) : Obj → Except Err (Option (List Key))
  | .view k _ _ _ ms =>
    match c, k with
    | none, .struct => pure (some ms.keys)
    | none, .array => pure (some ms.keys)
    | none, .union => pure none
    | some _, .struct => pure (some ms.keys)
    | some _, .union => pure (some ms.keys)
    | some _, .array => pure (some ms.keys)
  | .const k _ _ _ ms =>                 -- a `data.Const`: Struct and Array layouts have fields, a Union has none
    match k with
    | .union => pure none
    | _ => pure (some ms.keys)
  | .dict ms => pure (some ms.keys)
  | .list ms => pure (some ms.keys)
  | _ => pure none

def isUnion (c : Option PCtx) : Obj → Bool           -- assign.py:59-60
  | .view .union _ _ _ _ => c.isNone
  | _ => false

def isMapping : Obj → Bool
  | .dict _ => true
  | _ => false

def isValueLike : Obj → Bool
  | .dict _ => false
  | .list _ => false
  | _ => true

def isInt : Obj → Bool
  | .int _ _ _ _ py => py                 -- an `enum.Enum` member is not an `int`, an `IntEnum` member is
  | _ => false

/-- `isinstance(x, ValueCastable)`: a `data.View`, and (Amaranth 0.5) every `ArrayProxy` -/
def isVC (c : Option PCtx) : Obj → Bool
  | .view _ _ _ _ _ => true
  | .enumv _ _ _ _ => true
  | .const _ _ _ _ _ => true
  | _ => c.isSome

/-- `has_explicit_shape` (assign.py:204-205) -/
def explicit (c : Option PCtx) : Obj → Bool
  | .val _ _ _ _ e => c.isSome || e
  | .view _ _ _ _ _ => true
  | .enumv _ _ _ _ => true
  | .const _ _ _ _ _ => true
  | .int _ _ _ _ _ => false
  | _ => c.isSome

def Obj.members : Obj → Members
  | .view _ _ _ _ ms => ms
  | .const _ _ _ _ ms => ms
  | .dict ms => ms
  | .list ms => ms
  | _ => .nil

/-- `Shape.cast(field.shape)` and offset of a member, as `Field.__eq__` compares them -/
def memberShape : Obj → Nat × Bool × Nat
  | .val _ off w s _ => (w, s, off)
  | .view _ _ off size _ => (size, false, off)
  | .enumv _ off w _ => (w, false, off)
  | _ => (0, false, 0)

def Members.fieldList (base : Nat) : Members → List (Key × Nat × Bool × Nat)
  | .nil => []
  | .cons k o t =>
    let (w, s, off) := memberShape o
    (k, w, s, off - base) :: t.fieldList base

inductive ShapeD
  | flat (w : Nat) (signed : Bool)
  | layout (size : Nat) (fields : List (Key × Nat × Bool × Nat))
  | enum (w id : Nat)             -- an enum class is identified by its number and its width
deriving Repr, DecidableEq

def bitsFor (v : Nat) : Nat := if v = 0 then 1 else Nat.log2 v + 1

/-- `shape_of` (amaranth_ext/functions.py:144-153) -/
def shapeOf (c : Option PCtx) : Obj → ShapeD
  | .val _ _ w s _ => .flat w s
  | .int v w sg en _ =>
    match en with
    | some id => .enum w id                                   -- `type(value)` (the "hack for enums")
    | none =>                                                -- `Const(value).shape()`: the minimal shape of the value
      if sg && v.testBit (w - 1) && 0 < w then .flat (bitsFor (2 ^ w - v - 1) + (if 2 ^ w - v - 1 = 0 then 0 else 1)) true
      else .flat (bitsFor v) false
  | .enumv _ _ w id => if c.isSome then .flat w false else .enum w id
  | .const _ size _ flds _ => .layout size flds
  | .view _ _ off size ms => if c.isSome then .flat size false else .layout size (ms.fieldList off)
  | _ => .flat 0 false

/-- `!=` of shapes: a `Shape` never equals a layout; layouts compare size and the dict of their fields -/
def shapeEq : ShapeD → ShapeD → Bool
  | .flat w s, .flat w' s' => w == w' && s == s'
  | .layout z f, .layout z' f' => z == z' && f.length == f'.length && f.all (· ∈ f')
  | .enum w i, .enum w' i' => w == w' && i == i'
  | _, _ => false

/-- the loops at assign.py:203-210: descend through single-member structures -/
def unwrap (c : Option PCtx) : Obj → Except Err (Obj × Path)
  | .view k st off sz ms =>
    match argFields c (.view k st off sz ms) with
    | .error e => .error e
    | .ok none => pure (.view k st off sz ms, [])
    | .ok (some _) =>
      match ms with
      | .cons key m .nil =>
        match unwrap c m with
        | .error e => .error e
        | .ok (o, p) => pure (o, key :: p)
      | _ => pure (.view k st off sz ms, [])
  | .const k sz v fl ms =>
    match argFields c (.const k sz v fl ms) with
    | .error e => .error e
    | .ok none => pure (.const k sz v fl ms, [])
    | .ok (some _) =>
      match ms with
      | .cons key m .nil =>
        match unwrap c m with
        | .error e => .error e
        | .ok (o, p) => pure (o, key :: p)
      | _ => pure (.const k sz v fl ms, [])
  | o => pure (o, [])

def srcOf (c : Option PCtx) : Obj → Src
  | .val st off w s _ => .bits c st off w s
  | .view _ st off size _ => .bits c st off size false
  | .int v w sg _ _ => .const v w sg
  | .enumv st off w _ => .bits c st off w false
  | .const _ size value _ _ => .const value size false
  | _ => .const 0 0 false

def flowOf (lc : Option PCtx) (l : Obj) (rc : Option PCtx) (r : Obj) : Flow :=
  match l with
  | .val st off w _ _ => ⟨lc, st, off, w, srcOf rc r⟩
  | .view _ st off size _ => ⟨lc, st, off, size, srcOf rc r⟩
  | .enumv st off w _ => ⟨lc, st, off, w, srcOf rc r⟩
  | _ => ⟨lc, 0, 0, 0, srcOf rc r⟩

/-- strictness after the unwrapping loops (assign.py:204-213): unchanged without a step, otherwise what the last
    step sets, `isinstance(x, ValueLike) and not isinstance(field, int)` with `x` value-like -/
def strictAfter (s : Bool) (p : Path) (o : Obj) : Bool := if p.isEmpty then s else !isInt o

/-- the `else` branch (assign.py:190-223) for already stripped operands -/
def assignLeaf (lc : Option PCtx) (lhs : Obj) (rc : Option PCtx) (rhs : Obj) (sel : Sel) (ls rs : Bool)
    (lp rp : Path) : Except Err (List Pair) :=
  if !sel.isMode then throw .valueError
  else if !isValueLike lhs || !isValueLike rhs then throw .typeError
  else
    match unwrap lc lhs, unwrap rc rhs with
    | .error e, _ => .error e
    | _, .error e => .error e
    | .ok (l, ul), .ok (r, ur) =>
      -- every step of the loops sets `x_strict = isinstance(x, ValueLike) and not isinstance(field, int)` as `rec_call`
      -- does (744698a, d1cbe8d); `x` is value-like here, and the last step decides
      let ls := strictAfter ls ul l
      let rs := strictAfter rs ur r
      let check := isVC lc l || isVC rc r || ((ls || explicit lc l) && (rs || explicit rc r))
      if check && !shapeEq (shapeOf lc l) (shapeOf rc r) then throw .valueError
      else pure [⟨lp ++ ul, rp ++ ur, check, flowOf lc l rc r⟩]

/-- what happens at a node before descending: which member names are visited (`some names`), or the leaf
    branch (`none`) -/
inductive Plan
  | descend (names : List Key)
  | leaf

/-- assign.py:137-189 without the recursive calls -/
def plan (lc : Option PCtx) (lhs : Obj) (rc : Option PCtx) (rhs : Obj) (sel : Sel) : Except Err Plan :=
  match argFields lc lhs, argFields rc rhs with
  | .error e, _ => .error e
  | _, .error e => .error e
  | .ok (some lf), .ok (some rf) =>
    let names := selNames sel lf rf
    if names.isEmpty && !(lf.isEmpty && rf.isEmpty) then throw .valueError
    else if names.any (fun n => !(lf.contains n)) then throw .keyError
    else if names.any (fun n => !(rf.contains n)) then throw .keyError
    else pure (.descend names)
  | .ok lf, .ok rf =>
    if (isUnion lc lhs && isMapping rhs) || (isMapping lhs && isUnion rc rhs) then
      let (mapping, union) := if isMapping lhs then (lhs, rhs) else (rhs, lhs)
      match mapping.members with
      | .cons name _ .nil =>
        if union.members.keys.contains name then pure (.descend [name]) else throw .valueError
      | _ => throw .valueError
    else
      let _ := (lf, rf)
      pure .leaf

mutual
/-- `assign(lhs, rhs, fields=sel, lhs_strict=ls, rhs_strict=rs)`; `lp`, `rp` are the key paths walked so far -/
def assignObj (lhs : Obj) (lc : Option PCtx) (rc : Option PCtx) (rhs : Obj) (sel : Sel) (ls rs : Bool)
    (lp rp : Path) : Except Err (List Pair) :=
  match lhs with
  | .proxy i s t => assignObj t (some ⟨i, s⟩) rc rhs sel ls rs lp rp
  | .view k st off sz ms =>
    match plan lc (.view k st off sz ms) (strip rc rhs).1 (strip rc rhs).2 sel with
    | .error e => .error e
    | .ok .leaf => assignLeaf lc (.view k st off sz ms) (strip rc rhs).1 (strip rc rhs).2 sel ls rs lp rp
    | .ok (.descend names) => assignMembers ms lc true (strip rc rhs).1 (strip rc rhs).2 sel names lp rp
  | .dict ms =>
    match plan lc (.dict ms) (strip rc rhs).1 (strip rc rhs).2 sel with
    | .error e => .error e
    | .ok .leaf => assignLeaf lc (.dict ms) (strip rc rhs).1 (strip rc rhs).2 sel ls rs lp rp
    | .ok (.descend names) => assignMembers ms lc false (strip rc rhs).1 (strip rc rhs).2 sel names lp rp
  | .list ms =>
    match plan lc (.list ms) (strip rc rhs).1 (strip rc rhs).2 sel with
    | .error e => .error e
    | .ok .leaf => assignLeaf lc (.list ms) (strip rc rhs).1 (strip rc rhs).2 sel ls rs lp rp
    | .ok (.descend names) => assignMembers ms lc false (strip rc rhs).1 (strip rc rhs).2 sel names lp rp
  | .val st off w sg e =>
    match plan lc (.val st off w sg e) (strip rc rhs).1 (strip rc rhs).2 sel with
    | .error e => .error e
    | .ok .leaf => assignLeaf lc (.val st off w sg e) (strip rc rhs).1 (strip rc rhs).2 sel ls rs lp rp
    | .ok (.descend _) => throw .keyError        -- unreachable: a value has no members
  | .int v w sg en py =>
    match plan lc (.int v w sg en py) (strip rc rhs).1 (strip rc rhs).2 sel with
    | .error e => .error e
    | .ok .leaf => assignLeaf lc (.int v w sg en py) (strip rc rhs).1 (strip rc rhs).2 sel ls rs lp rp
    | .ok (.descend _) => throw .keyError
  | .enumv st off w id =>
    match plan lc (.enumv st off w id) (strip rc rhs).1 (strip rc rhs).2 sel with
    | .error e => .error e
    | .ok .leaf => assignLeaf lc (.enumv st off w id) (strip rc rhs).1 (strip rc rhs).2 sel ls rs lp rp
    | .ok (.descend _) => throw .keyError
  | .const k sz v fl ms =>
    match plan lc (.const k sz v fl ms) (strip rc rhs).1 (strip rc rhs).2 sel with
    | .error e => .error e
    | .ok .leaf => assignLeaf lc (.const k sz v fl ms) (strip rc rhs).1 (strip rc rhs).2 sel ls rs lp rp
    | .ok (.descend names) => assignMembers ms lc true (strip rc rhs).1 (strip rc rhs).2 sel names lp rp
/-- the loop `for name in names: yield from rec_call(name)` (assign.py:168-174, :189), walked in the order
    of the members of `lhs`; `lvl` = `isinstance(lhs, ValueLike)` -/
def assignMembers (ms : Members) (lc : Option PCtx) (lvl : Bool) (rc : Option PCtx) (rhs : Obj) (sel : Sel)
    (names : List Key) (lp rp : Path) : Except Err (List Pair) :=
  match ms with
  | .nil => pure []
  | .cons k o t =>
    if names.contains k then
      match rhs.members.lookup k, subSel sel k with
      | some r, some s' =>
        match assignObj o lc rc r s' (lvl && !isInt o) (isValueLike rhs && !isInt r) (lp ++ [k]) (rp ++ [k]) with
        | .error e => .error e
        | .ok here =>
          match assignMembers t lc lvl rc rhs sel names lp rp with
          | .error e => .error e
          | .ok rest => pure (here ++ rest)
      | _, _ => throw .keyError
    else assignMembers t lc lvl rc rhs sel names lp rp
end

/-- the call a user makes: `assign(lhs, rhs, fields=sel)` -/
def assign (lhs rhs : Obj) (sel : Sel) : Except Err (List Pair) :=
  assignObj lhs none none rhs sel false false [] []

end TxV.Assign
