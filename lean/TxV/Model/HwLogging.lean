import TxV.Model.Util
/-!
Model of hardware logging: `transactron/utils/logging.py` (record registration, `LogRecordInfo.format`)
and `transactron/testing/logging.py:73-117` (the simulation logging process).

Python's `format(value, spec)` is a parameter (`Render`): the model is about which records are
reported in which cycle, in which order, which field goes to which format chunk, the decoding of
packed strings for `s` chunks, concatenation, and the stop at an ERROR-level record.
-/
namespace TxV.HwLogging

/-- `logging.ERROR` -/
def errorLevel : Nat := 40

/-- `LogChunkInfo`: a raw string or a format specifier -/
inductive Chunk
  | lit (s : String)
  | fmt (spec : String)
deriving Repr, DecidableEq

/-- a registered `LogRecord`, as far as the logging process looks at it -/
structure Rec where
  level : Nat
  nameOk : Bool     -- `re.search(namespace_regexp, logger_name)` (Python's `re`, an input)
  top : Bool        -- registered with a `top_*` function: the module context is ignored (`logging.py:154-193`)
  neg : Bool        -- an assertion: trigger is `~value.any()` (`logging.py:241`, `logging.py:356`)
  logger : String
  spec : List Chunk
deriving Repr, DecidableEq

/-- the inputs of one record in one cycle: enclosing conditions, value of the trigger (or asserted)
    expression, sampled field values -/
structure RecIn where
  conds : List Bool
  trig : Nat
  vals : List Int
deriving Repr, DecidableEq

/-- `trigger_signal.eq(Value.cast(trigger).any())` under the module context (`logging.py:270-272`),
    or `Value.cast(trigger).any()` alone for `top_log` (`logging.py:171`) -/
def fires (r : Rec) (x : RecIn) : Bool :=
  (r.top || x.conds.all id) && (if r.neg then x.trig == 0 else x.trig != 0)

/-- `get_log_records(level, namespace_regexp)` (`logging.py:392-410`) -/
def selected (minLevel : Nat) (r : Rec) : Bool := decide (minLevel ≤ r.level) && r.nameOk

/-! ### `LogRecordInfo.format` (`logging.py:61-88`) -/

/-- the loop `while val: byte = val & 0xFF; val >>= 8; if byte: msg.append(byte)` (with fuel) -/
def decodeS : Nat → Nat → List Nat
  | 0, _ => []
  | f + 1, v =>
    if v = 0 then [] else
    let b := v % 256
    if b = 0 then decodeS f (v / 256) else b :: decodeS f (v / 256)

/-- bytes of the string packed in `v` -/
def sBytes (v : Nat) : List Nat := decodeS v v

/-- what is handed to Python's `format`: an int, or the string with these UTF-8 bytes -/
inductive FVal
  | int (v : Int)
  | str (bytes : List Nat)
deriving Repr, DecidableEq

/-- Python's `format(value, spec)` (trusted, not modelled) -/
abbrev Render := String → FVal → String

def endsWithS (spec : String) : Bool := spec.toList.getLast? == some 's'
def dropLast (spec : String) : String := String.ofList spec.toList.dropLast

/-- one format chunk applied to its field (`logging.py:70-84`); a negative value with an `s`
    specifier never leaves the `while val:` loop (`none`) -/
def fieldText (render : Render) (spec : String) (v : Int) : Option String :=
  if endsWithS spec then
    if 0 ≤ v then some (render (dropLast spec) (.str (sBytes v.toNat))) else none
  else some (render spec (.int v))

/-- the loop over `format_spec` with `fields_iter` (`StopIteration` when the values run out) -/
def formatChunks (render : Render) : List Chunk → List Int → Option (List String)
  | [], _ => some []
  | .lit s :: cs, vs => (formatChunks render cs vs).map (s :: ·)
  | .fmt _ :: _, [] => none
  | .fmt sp :: cs, v :: vs =>
    match fieldText render sp v, formatChunks render cs vs with
    | some a, some l => some (a :: l)
    | _, _ => none

/-- `"".join(chunks)` -/
def formatMsg (render : Render) (spec : List Chunk) (vals : List Int) : Option String :=
  (formatChunks render spec vals).map String.join

/-! ### the logging process (`testing/logging.py:73-117`) -/

/-- a reported message: index of the record (registration order), level, logger, text -/
structure Msg where
  idx : Nat
  level : Nat
  logger : String
  text : Option String
deriving Repr, DecidableEq

def indexFrom : Nat → List Rec → List RecIn → List (Nat × Rec × RecIn)
  | _, [], _ => []
  | _, _ :: _, [] => []
  | i, r :: rs, x :: xs => (i, r, x) :: indexFrom (i + 1) rs xs

/-- the records the process iterates over, with their inputs of this cycle -/
def cycleRecs (minLevel : Nat) (recs : List Rec) (ins : List RecIn) : List (Nat × Rec × RecIn) :=
  (indexFrom 0 recs ins).filter fun t => selected minLevel t.2.1

def mkMsg (render : Render) (t : Nat × Rec × RecIn) : Msg :=
  ⟨t.1, t.2.1.level, t.2.1.logger, formatMsg render t.2.1.spec t.2.2.vals⟩

/-- `handle_logs`: records in order; a non-triggered one is skipped; a triggered one is formatted and
    logged; `on_error()` (which raises) after a record of level ≥ ERROR -/
def handleLogs (render : Render) : List (Nat × Rec × RecIn) → List Msg × Bool
  | [] => ([], false)
  | t :: rest =>
    if fires t.2.1 t.2.2 then
      if errorLevel ≤ t.2.1.level then ([mkMsg render t], true)
      else
        let (ms, e) := handleLogs render rest
        (mkMsg render t :: ms, e)
    else handleLogs render rest

/-- one sampled tick: `if not combined_trigger_val: continue`, else `handle_logs` -/
def logCycle (render : Render) (minLevel : Nat) (recs : List Rec) (ins : List RecIn) : List Msg × Bool :=
  let sel := cycleRecs minLevel recs ins
  if sel.any (fun t => fires t.2.1 t.2.2) then handleLogs render sel else ([], false)

/-- the process over a whole simulation: per cycle the reported messages; the simulation ends (with
    a failure) in the first cycle in which `on_error` is called: `(messages per cycle, failing cycle)` -/
def run (render : Render) (minLevel : Nat) (recs : List Rec) : Nat → List (List RecIn) → List (List Msg) × Option Nat
  | _, [] => ([], none)
  | c, ins :: rest =>
    let (ms, e) := logCycle render minLevel recs ins
    if e then ([ms], some c)
    else
      let (mss, f) := run render minLevel recs (c + 1) rest
      (ms :: mss, f)

/-- little-endian packing of bytes (what `int.from_bytes(b, "little")` / `Cat` of characters gives) -/
def packLE : List Nat → Nat
  | [] => 0
  | b :: bs => b + 256 * packLE bs

end TxV.HwLogging
