import TxV.Model.MultiportMem
/-!
Multiport memories — part 2: model of `MultiportXORMemory` (memory.py:176-303).

For every write port `k` there are `nw-1` *feedback* memories `memory_k_i` (memory.py:220-238)
and one `MultiReadMemory` `read_block_k` with `nr` read ports (memory.py:252-262), i.e. `nr`
more physical memories.  All of them are written with the same value `write_xor_k` at the
address/enable that port `k` presented one cycle earlier (memory.py:235-238, 250, 260-262):
the first pipeline stage registers the port (`write_regs_*`, memory.py:218) and reads, from
the feedback memories of all *other* ports, their rows at the port's address
(memory.py:230-233); the second stage writes
`write_xor_k = write_regs_data_k ⊕ ⨁_{m ≠ k} (feedback row of m)` (memory.py:219, 231, 243).
A read XORs the rows of all `read_block_k` (memory.py:288-294), with a two-stage bypass
(memory.py:264-285) and, for transparent ports, a bypass of the pending write (memory.py:287-292).

Registers that the source creates several times with the same driver and the same reset
value are modelled once: the `en`/`addr` registers of the physical write ports of
`memory_k_*` and of `read_block_k` (memory.py:235-238, 262) are `pwEn k`/`pwAddr k`;
`read_addr_bypass` exists once per (write port, read port) (memory.py:274-279) and is
`rdAddrBy r`.  The memories themselves are *not* merged (their initial contents are
assigned separately, memory.py:221, 252).
-/
namespace TxV.MultiportMem

/-- one clock edge of a physical one-write/one-read memory without granularity: write port `(wen, wa, wd)`, read port `(ren, ra)`,
    `tr` = the read port is transparent for the write port -/
def Bank.step (tr : Bool) (b : Bank) (wen : Bool) (wa wd : Nat) (ren : Bool) (ra : Nat) : Bank :=
  { mem := if wen then b.mem.set wa wd else b.mem,
    rdata := if ren then (if tr && wen && wa == ra then wd else rd b.mem ra) else b.rdata }

namespace Xor

structure State where
  regAddr : List Nat        -- write_regs_addr[k]            memory.py:212
  regData : List Nat        -- write_regs_data[k]            memory.py:213
  pwEn : List Bool          -- physical_write_port.en / r_write_port.en of port k   memory.py:236, 262
  pwAddr : List Nat         -- physical_write_port.addr / r_write_port.addr         memory.py:237, 262
  fb : List (List Bank)     -- memory_k_i, i < nw-1         memory.py:222-228
  rb : List (List Bank)     -- the memories of read_block_k, one per read port      memory.py:253-259
  byAddr : List Nat         -- write_addr_bypass (of port k) memory.py:264
  byData : List Nat         -- write_data_bypass             memory.py:265
  byEn : List Bool          -- write_en_bypass               memory.py:266
  rdAddrBy : List Nat       -- read_addr_bypass (of read port r)  memory.py:274
  rdEnBy : List Bool        -- read_en_bypass[r]             memory.py:214
  syncData : List Nat       -- sync_data (of read port r)    memory.py:299
deriving Repr, DecidableEq, Inhabited

def fbBank (s : State) (k i : Nat) : Bank := nthD ⟨[], 0⟩ (nthD [] s.fb k) i
def rbBank (s : State) (k r : Nat) : Bank := nthD ⟨[], 0⟩ (nthD [] s.rb k) r

/-- `idx = i + 1 if i >= index else i` (memory.py:230): the write port whose address feedback
    memory `i` of port `k` is read at -/
def fbPort (k i : Nat) : Nat := if i ≥ k then i + 1 else i

/-- inverse of `fbPort k`: which feedback memory of port `m` is read at the address of port `k ≠ m` -/
def fbSlot (m k : Nat) : Nat := if k > m then k - 1 else k

/-- initial contents of the memories of port `k`: `init if index == 0 else []` (memory.py:221, 252) -/
def bankInit (c : Cfg) (k : Nat) : List Nat := initMem c.depth (if k = 0 then c.init else [])

def init (c : Cfg) : State :=
  { regAddr := tab c.nw (fun _ => 0), regData := tab c.nw (fun _ => 0),
    pwEn := tab c.nw (fun _ => false), pwAddr := tab c.nw (fun _ => 0),
    fb := tab c.nw (fun k => tab (c.nw - 1) (fun _ => { mem := bankInit c k, rdata := 0 })),
    rb := tab c.nw (fun k => tab c.nr (fun _ => { mem := bankInit c k, rdata := 0 })),
    byAddr := tab c.nw (fun _ => 0), byData := tab c.nw (fun _ => 0), byEn := tab c.nw (fun _ => false),
    rdAddrBy := tab c.nr (fun _ => 0), rdEnBy := tab c.nr (fun _ => false),
    syncData := tab c.nr (fun _ => 0) }

/-- `write_xor` of port `k` (memory.py:219, 231, 243): the registered data XOR the feedback
    rows read from the memories of all other ports `m` (slot `fbSlot m k` is the one with
    `fbPort m i = k`) -/
def writeXor (c : Cfg) (s : State) (k : Nat) : Nat :=
  nthD 0 s.regData k ^^^ xorExcept (fun m => (fbBank s m (fbSlot m k)).rdata) k c.nw

/-- `double_stage_bypass` (memory.py:281-285) of read port `r` for the block of write port `k` -/
def dsb (s : State) (r k : Nat) : Nat :=
  if nthD 0 s.rdAddrBy r == nthD 0 s.byAddr k && nthD false s.rdEnBy r && nthD false s.byEn k
  then nthD 0 s.byData k else (rbBank s k r).rdata

/-- the contribution of block `k` to `read_xors[r]` (memory.py:287-294) -/
def term (c : Cfg) (s : State) (r k : Nat) : Nat :=
  if c.tr r k && (nthD 0 s.rdAddrBy r == nthD 0 s.regAddr k && nthD false s.pwEn k)
  then writeXor c s k else dsb s r k

/-- `port.data` of read port `r` (memory.py:301) -/
def outR (c : Cfg) (s : State) (r : Nat) : Nat :=
  if nthD false s.rdEnBy r then xorAll (term c s r) c.nw else nthD 0 s.syncData r

def out (c : Cfg) (s : State) : List Nat := tab c.nr (outR c s)

def step (c : Cfg) (s : State) (i : In) : State :=
  { regAddr := tab c.nw i.wAddr, regData := tab c.nw i.wData,
    pwEn := tab c.nw i.wEn, pwAddr := tab c.nw i.wAddr,
    fb := tab c.nw (fun k => tab (c.nw - 1) (fun j =>
      (fbBank s k j).step true (nthD false s.pwEn k) (nthD 0 s.pwAddr k) (writeXor c s k)
        true (i.wAddr (fbPort k j)))),
    rb := tab c.nw (fun k => tab c.nr (fun r =>
      (rbBank s k r).step false (nthD false s.pwEn k) (nthD 0 s.pwAddr k) (writeXor c s k)
        (i.rEn r) (i.rAddr r))),
    byAddr := tab c.nw (fun k => nthD 0 s.regAddr k),
    byData := tab c.nw (writeXor c s),
    byEn := tab c.nw (fun k => nthD false s.pwEn k),
    rdAddrBy := tab c.nr i.rAddr, rdEnBy := tab c.nr i.rEn,
    syncData := tab c.nr (outR c s) }

def run (c : Cfg) (s : State) : List In → List (List Nat)
  | [] => []
  | i :: is => out c s :: run c (step c s i) is

end Xor
end TxV.MultiportMem
