import TxV.Model.Util
/-!
Model of the event log (`transactron/evlog/*.py`, `transactron/testing/evlog.py`).

Everything here is a pure function over the per-cycle samples of the emission sites:

* `capture`        – the simulation process of `testing/evlog.py:14-36`
* `decode`         – `EventDecoder.decode` + `Event.from_raw` (`log.py:66-74`, `event.py:93-108`)
* `save`/`load`    – `EventLog.save` / `EventLog.load` (`log.py:112-130`), JSON text abstracted by a `Codec`
* `readerAll`      – `list(EventLogReader(file))` (`log.py:161-187`)
* `samplePacked`/`samplePerSite` – `GeneratedEvLogSampler.sample` (`sampler.py:50-62`)
* `consumerRun`    – `EventConsumer.run`/`dispatch` (`consumer.py:54-73`)

A raw record is `(cycle, site index, dynamic field values in schema order)` (`log.py:21`).
-/
namespace TxV.EvLog

/-! ### schema -/

/-- a JSON-serialisable raw value: dynamic fields are always ints, statics may be strings -/
inductive Raw
  | int (v : Int)
  | str (s : String)
deriving Repr, DecidableEq

/-- the annotation of an event field, as far as `_convert_field` (`event.py:38-44`) looks at it:
    an `enum.Enum` subclass (the list of member values: ints for an `IntEnum`, but any JSON value, e.g.
    strings, for a plain `Enum` used in a `Static` field), `bool`, or anything else (raw value kept) -/
inductive Kind
  | int
  | bool
  | enum (members : List Raw)
  | other
deriving Repr, DecidableEq

/-- `EventFieldSchema` (width, signed) plus the annotation of the event class field -/
structure FieldSpec where
  width : Nat
  signed : Bool
  kind : Kind
deriving Repr, DecidableEq

structure StaticSpec where
  kind : Kind
  raw : Raw
deriving Repr, DecidableEq

/-- `EventSiteSchema` (names of fields are positional here: `EventDecoder.decode` zips the schema
    fields with the values and `from_raw` looks them up again in the same order) -/
structure Site where
  event : String
  fields : List FieldSpec
  statics : List StaticSpec
deriving Repr, DecidableEq

abbrev Schema := List Site

structure RawEvent where
  cycle : Nat
  site : Nat
  vals : List Int
deriving Repr, DecidableEq

/-! ### capture (`testing/evlog.py:14-36`, `emit.py:106-130`) -/

/-- what pysim reports for a `w`-bit signal holding the bit pattern `bits` -/
def interp (w : Nat) (signed : Bool) (bits : Nat) : Int :=
  let b := bits % 2 ^ w
  if signed && decide (0 < w) && decide (2 ^ (w - 1) ≤ b) then (b : Int) - (2 ^ w : Nat) else (b : Int)

/-- the inputs of one emission site in one cycle: the enclosing conditions (`m.If` branches taken,
    transaction/method body running; empty for `top_emit`), the value of `when`, the bit patterns
    of the dynamic fields -/
structure SiteIn where
  conds : List Bool
  whenv : Nat
  bits : List Nat
deriving Repr, DecidableEq

/-- `trigger.eq(Value.cast(when).any())` inside the module context (`emit.py:128-129`): a comb
    assignment under `m.If`s is active iff all of them hold, the default is 0 -/
def SiteIn.active (si : SiteIn) : Bool := si.conds.all id && si.whenv != 0

/-- sampled field values, in schema order -/
def sampled (st : Site) (si : SiteIn) : List Int :=
  List.zipWith (fun f b => interp f.width f.signed b) st.fields si.bits

/-- the loop `for site, rec in enumerate(records)` of one sampled tick (`testing/evlog.py:28-34`) -/
def captureFrom (c : Nat) : Nat → List (Site × SiteIn) → List RawEvent
  | _, [] => []
  | i, (st, si) :: rest =>
    if si.active then ⟨c, i, sampled st si⟩ :: captureFrom c (i + 1) rest
    else captureFrom c (i + 1) rest

def captureCycle (sch : Schema) (c : Nat) (ins : List SiteIn) : List RawEvent :=
  captureFrom c 0 (sch.zip ins)

/-- the whole process: one sampled tick per element of the trace, cycle numbers from `c0`
    (`TicksKey` counts ticks from 0) -/
def capture (sch : Schema) : Nat → List (List SiteIn) → List RawEvent
  | _, [] => []
  | c, ins :: rest => captureCycle sch c ins ++ capture sch (c + 1) rest

/-! ### GeneratedEvLogSampler (`sampler.py:50-62`) -/

/-- what the readers of one site return in a cycle -/
structure SiteSig where
  trig : Nat
  vals : List Int
deriving Repr, DecidableEq

def samplePerSiteFrom (c : Nat) : Nat → List SiteSig → List RawEvent
  | _, [] => []
  | i, s :: rest =>
    if s.trig != 0 then ⟨c, i, s.vals⟩ :: samplePerSiteFrom c (i + 1) rest
    else samplePerSiteFrom c (i + 1) rest

/-- `triggers_location is None` branch (`sampler.py:60-62`) -/
def samplePerSite (c : Nat) (sigs : List SiteSig) : List RawEvent := samplePerSiteFrom c 0 sigs

def samplePackedFrom (c : Nat) (packed : Nat) : Nat → List SiteSig → List RawEvent
  | _, [] => []
  | i, s :: rest =>
    if (packed >>> i) % 2 == 1 then ⟨c, i, s.vals⟩ :: samplePackedFrom c packed (i + 1) rest
    else samplePackedFrom c packed (i + 1) rest

/-- packed branch (`sampler.py:52-58`): `if not packed: return`, then `packed >> site & 1` -/
def samplePacked (c : Nat) (packed : Nat) (sigs : List SiteSig) : List RawEvent :=
  if packed == 0 then [] else samplePackedFrom c packed 0 sigs

def sample (c : Nat) (packed : Option Nat) (sigs : List SiteSig) : List RawEvent :=
  match packed with
  | some p => samplePacked c p sigs
  | none => samplePerSite c sigs

/-- the signals of a generated design (`gen.py:272-282`): per site the trigger and the fields,
    and the packed vector `Cat(trigger for …)` -/
def sigOf (st : Site) (si : SiteIn) : SiteSig := ⟨if si.active then 1 else 0, sampled st si⟩

def sigsOf (sch : Schema) (ins : List SiteIn) : List SiteSig := List.zipWith sigOf sch ins

/-- `Cat(b0, b1, …)` as a number -/
def packBits : List Bool → Nat
  | [] => 0
  | b :: rest => b.toNat + 2 * packBits rest

def packedOf (sigs : List SiteSig) : Nat := packBits (sigs.map (fun s => s.trig != 0))

/-- a `GeneratedEvLogSampler` called once per cycle on the signals of the generated design,
    with (`usePacked`) or without the packed trigger vector -/
def sampleRun (usePacked : Bool) (sch : Schema) : Nat → List (List SiteIn) → List RawEvent
  | _, [] => []
  | c, ins :: rest =>
    sample c (if usePacked then some (packedOf (sigsOf sch ins)) else none) (sigsOf sch ins)
      ++ sampleRun usePacked sch (c + 1) rest

/-! ### decoding (`log.py:66-74`, `event.py:38-44`, `event.py:93-108`) -/

inductive Val
  | int (v : Int)
  | str (s : String)
  | bool (b : Bool)
  | enum (v : Raw)
deriving Repr, DecidableEq

/-- `_convert_field`: `Enum(raw)` raises `ValueError` for a non-member (→ `none`) -/
def convert : Kind → Raw → Option Val
  | .enum ms, r => if ms.contains r then some (.enum r) else none
  | .bool, .int v => some (.bool (v != 0))
  | .bool, .str s => some (.bool (s != ""))
  | _, .int v => some (.int v)
  | _, .str s => some (.str s)

structure Decoded where
  cycle : Nat
  site : Nat
  dyn : List Val
  stat : List Val
deriving Repr, DecidableEq

def convertAll : List (Kind × Raw) → Option (List Val)
  | [] => some []
  | (k, r) :: rest =>
    match convert k r, convertAll rest with
    | some v, some vs => some (v :: vs)
    | _, _ => none

/-- `EventDecoder.decode`: site lookup, length check (`ValueError`), `from_raw` -/
def decode (sch : Schema) (e : RawEvent) : Option Decoded :=
  match sch[e.site]? with
  | none => none
  | some st =>
    if e.vals.length != st.fields.length then none else
    match convertAll (List.zipWith (fun f v => (f.kind, Raw.int v)) st.fields e.vals),
          convertAll (st.statics.map fun s => (s.kind, s.raw)) with
    | some d, some s => some ⟨e.cycle, e.site, d, s⟩
    | _, _ => none

def decodeAll (sch : Schema) : List RawEvent → Option (List Decoded)
  | [] => some []
  | e :: rest =>
    match decode sch e, decodeAll sch rest with
    | some d, some ds => some (d :: ds)
    | _, _ => none

/-! ### JSON lines (`log.py:77-187`)

The text of a line is abstract (`Text`); a `Codec` is Python's `json.dumps`/`json.loads` on the
values that occur (`[cycle, site, [v, …]]`), `dataclasses_json` for the header, and
`line.strip() == ""` for blank lines. -/

inductive J
  | num (n : Int)
  | arr (l : List J)

structure Codec (Text : Type) where
  enc : J → Text
  dec : Text → Option J
  encSchema : Schema → Text
  decSchema : Text → Option Schema
  blank : Text → Bool

/-- the assumption about Python's runtime: decoding an encoded value gives it back (hence the
    encoding is injective), and an encoded value is not a blank line -/
structure Codec.Faithful {Text : Type} (c : Codec Text) : Prop where
  dec_enc : ∀ v, c.dec (c.enc v) = some v
  decSchema_enc : ∀ s, c.decSchema (c.encSchema s) = some s
  not_blank : ∀ v, c.blank (c.enc v) = false

def toJ (e : RawEvent) : J := .arr [.num e.cycle, .num e.site, .arr (e.vals.map .num)]

def numsOf : List J → Option (List Int)
  | [] => some []
  | .num n :: rest => (numsOf rest).map (n :: ·)
  | .arr _ :: _ => none

/-- `cycle, site, values = json.loads(line)`; the model only accepts what `save` can produce
    (non-negative cycle and site, a list of ints) -/
def ofJ : J → Option RawEvent
  | .arr [.num c, .num s, .arr vs] =>
    if 0 ≤ c ∧ 0 ≤ s then (numsOf vs).map fun l => ⟨c.toNat, s.toNat, l⟩ else none
  | _ => none

structure Log where
  schema : Schema
  raw : List RawEvent
deriving Repr, DecidableEq

/-- `EventLog.save`: header line, then one line per record; a file is its list of lines -/
def save {Text : Type} (c : Codec Text) (log : Log) : List Text :=
  c.encSchema log.schema :: log.raw.map (fun e => c.enc (toJ e))

def parseLine {Text : Type} (c : Codec Text) (t : Text) : Option RawEvent := (c.dec t).bind ofJ

/-- the loop of `EventLog.load` over the lines after the header -/
def parseLines {Text : Type} (c : Codec Text) : List Text → Option (List RawEvent)
  | [] => some []
  | t :: rest =>
    if c.blank t then parseLines c rest else
    match parseLine c t, parseLines c rest with
    | some e, some es => some (e :: es)
    | _, _ => none

/-- `EventLog.load` (an empty file has no header: `json.loads("")` raises) -/
def load {Text : Type} (c : Codec Text) : List Text → Option Log
  | [] => none
  | h :: rest =>
    match c.decSchema h, parseLines c rest with
    | some sch, some raw => some ⟨sch, raw⟩
    | _, _ => none

def Log.decoded (log : Log) : Option (List Decoded) := decodeAll log.schema log.raw

/-- the loop of `EventLogReader.__iter__`: parse a line, decode it, next line -/
def readLines {Text : Type} (c : Codec Text) (sch : Schema) : List Text → Option (List Decoded)
  | [] => some []
  | t :: rest =>
    if c.blank t then readLines c sch rest else
    match (parseLine c t).bind (decode sch), readLines c sch rest with
    | some d, some ds => some (d :: ds)
    | _, _ => none

/-- `list(EventLogReader(file))` -/
def readerAll {Text : Type} (c : Codec Text) : List Text → Option (List Decoded)
  | [] => none
  | h :: rest =>
    match c.decSchema h with
    | some sch => readLines c sch rest
    | none => none

/-! ### EventConsumer (`consumer.py:54-73`) -/

/-- insert `x` in front of the first element whose cycle is not smaller (used right-to-left, so
    records of the same cycle keep their order): the stable sort `sorted(records, key=cycle)` -/
def insertByCycle (x : Decoded) : List Decoded → List Decoded
  | [] => [x]
  | y :: ys => if x.cycle ≤ y.cycle then x :: y :: ys else y :: insertByCycle x ys

def sortByCycle : List Decoded → List Decoded
  | [] => []
  | x :: xs => insertByCycle x (sortByCycle xs)

/-- `_handlers` is built by dict updates in definition order, base classes first: the last entry for
    an event name wins -/
def lookupLast (hs : List (String × String)) (ev : String) : Option String :=
  hs.foldl (fun acc h => if h.1 == ev then some h.2 else acc) none

def eventOf (sch : Schema) (d : Decoded) : String :=
  match sch[d.site]? with
  | some st => st.event
  | none => ""

/-- `dispatch`: name of the method that gets the record -/
def dispatchName (hs : List (String × String)) (sch : Schema) (d : Decoded) : String :=
  (lookupLast hs (eventOf sch d)).getD "on_unhandled"

/-- `EventConsumer.run`: the sequence of (handler, record) calls -/
def consumerRun (hs : List (String × String)) (sch : Schema) (recs : List Decoded) : List (String × Decoded) :=
  (sortByCycle recs).map fun d => (dispatchName hs sch d, d)

end TxV.EvLog
