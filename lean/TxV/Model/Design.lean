import TxV.Model.Ctrl
/-!
# The flat design the `TransactionManager` sees

One `Design` = what `TransactionManager.elaborate` reads from the `Body` objects after the
user's circuit has been elaborated (extracted by `harness/txv/core/extract.py` from the real
objects; no control trees, no Amaranth values):

* bodies (transaction or method) with `def_order`, the `ctrl_path` of the definition, flags;
* `method_calls` of every body, flattened in the iteration order of
  `for method, calls in body.method_calls.items(): for call in calls` (manager.py:83-85,
  108-110, 339-340), with `Method._body` (`provide` chains) already resolved;
* `relations` of every body (body.py:94 nesting, and the `add_conflict`/`schedule_before`
  relations moved from the `Transaction`/`Method` objects by manager.py:482-484);
* the two lists the manager iterates over: `transactions` (`TransactionsKey` order) and
  `methods` (`DefinedMethodsKey` order).

Identifiers: `BodyId` = index into `bodies` (canonical: rank of `def_order`);
`SiteId` = globally unique number of a call site (one `(ctrl_path, arg_rec, enable_sig)`
tuple of some `method_calls` list).

`simul`/`indep` (simultaneous_list / independent_list) are carried for the later
C12/C13 extension; the current manager model requires them to be empty.
-/
namespace TxV.CoreModel

abbrev BodyId := Nat
abbrev SiteId := Nat

/-- transaction_base.py:15-21 -/
inductive Priority where
  | undefined | left | right
deriving DecidableEq, Repr, Inhabited

/-- one entry of some `body.method_calls[method]` list -/
structure Call where
  /-- `MBody(method._body)`: the defining body, `provide` aliases resolved -/
  callee : BodyId
  /-- `m.ctrl_path` at the call (method.py:325) -/
  path : CtrlPath
  site : SiteId
deriving DecidableEq, Repr, Inhabited

/-- transaction_base.py:24-31 `RelationBase`; the start is the body that owns the list -/
structure Rel where
  dst : BodyId
  prio : Priority
  conflict : Bool
  readyDep : Bool
  silence : Bool
deriving DecidableEq, Repr, Inhabited

/-- `validate_arguments` predicates drawn by the design generator (over the `iw`-bit argument) -/
inductive Pred where
  | eqC (c : Nat)      -- arg == c
  | neC (c : Nat)      -- arg != c
  | ltC (c : Nat)      -- arg <  c
  | bit (k : Nat)      -- arg[k]
deriving DecidableEq, Repr, Inhabited

def Pred.eval : Pred → Nat → Bool
  | .eqC c, a => a == c
  | .neC c, a => a != c
  | .ltC c, a => decide (a < c)
  | .bit k, a => a.testBit k

/-- argument combiners (body.py:120-124 default; the others are the generator's custom combiners) -/
inductive Combiner where
  | mux      -- Body._default_combiner = OneHotMux.create (single input: passed through unconditionally)
  | orAll    -- OR of the arguments of active calls
  | sum      -- sum of the arguments of active calls
  | xor      -- XOR of the arguments of active calls
  | count    -- number of active calls
deriving DecidableEq, Repr, Inhabited

/-- how the generated method computes `data_out` from `data_in` and a per-method local input -/
inductive OutFn where
  | const (c : Nat)
  | loc            -- local input
  | xorLoc         -- data_in ^ local
  | addLoc         -- data_in + local
deriving DecidableEq, Repr, Inhabited

structure Body where
  isTrans : Bool
  /-- `Body.ctrl_path` (body.py:91), the path at the definition -/
  defPath : CtrlPath
  /-- `Body.def_order` -/
  defOrder : Nat
  nonexclusive : Bool := false
  singleCaller : Bool := false
  /-- `validate_arguments` (`none` = not given) -/
  validate : Option Pred := none
  combiner : Combiner := .mux
  /-- width of `data_in` / `data_out` as flat values -/
  inW : Nat := 0
  outW : Nat := 0
  outFn : OutFn := .const 0
  calls : List Call := []
  rels : List Rel := []
  simul : List BodyId := []
  indep : List BodyId := []
deriving Repr, Inhabited

structure Design where
  bodies : List Body
  /-- `TransactionManager.transactions` (order of `Transaction(...)` creation) -/
  transactions : List BodyId
  /-- `TransactionManager.methods` (order in which method bodies were closed) -/
  methods : List BodyId
deriving Repr, Inhabited

namespace Design
variable (D : Design)

def body? (b : BodyId) : Option Body := D.bodies[b]?

/-- calls of body `b` in manager iteration order (no calls for an id outside the design;
    `wf` below rules such ids out before anything else is computed) -/
def calls (b : BodyId) : List Call := match D.body? b with | some x => x.calls | none => []
def rels (b : BodyId) : List Rel := match D.body? b with | some x => x.rels | none => []
def nonexclusive (b : BodyId) : Bool := match D.body? b with | some x => x.nonexclusive | none => false
def singleCaller (b : BodyId) : Bool := match D.body? b with | some x => x.singleCaller | none => false
def validate (b : BodyId) : Option Pred := match D.body? b with | some x => x.validate | none => none
def defPath (b : BodyId) : CtrlPath := match D.body? b with | some x => x.defPath | none => ⟨-1, []⟩
def defOrder (b : BodyId) : Nat := match D.body? b with | some x => x.defOrder | none => 0
def isTrans (b : BodyId) : Bool := match D.body? b with | some x => x.isTrans | none => false
def inW (b : BodyId) : Nat := match D.body? b with | some x => x.inW | none => 0
def outW (b : BodyId) : Nat := match D.body? b with | some x => x.outW | none => 0

/-- `method_map.methods_and_transactions`: `chain(self.methods, self.transactions)` (manager.py:158-160) -/
def methodsAndTransactions : List BodyId := D.methods ++ D.transactions

/-- every call site of the design, in `_method_calls` order (manager.py:338-342) with its caller -/
def allSites : List (BodyId × Call) :=
  D.methodsAndTransactions.flatMap fun src => (D.calls src).map fun c => (src, c)

/-- well-formedness of the extracted description (a harness/extraction sanity condition, not a
    property of the library): ids in range, the two lists partition the bodies according to
    `isTrans`, no duplicates, site ids unique, C12/C13 lists empty. -/
def wf : Bool :=
  let n := D.bodies.length
  D.transactions.all (fun t => decide (t < n) && D.isTrans t) &&
  D.methods.all (fun m => decide (m < n) && !D.isTrans m) &&
  D.transactions.Nodup && D.methods.Nodup &&
  (List.range n).all (fun b => D.methodsAndTransactions.contains b) &&
  (List.range n).all (fun b =>
    (D.calls b).all (fun c => decide (c.callee < n) && !D.isTrans c.callee) &&
    (D.rels b).all (fun r => decide (r.dst < n))) &&
  ((List.range n).flatMap fun b => (D.calls b).map (·.site)).Nodup &&
  D.bodies.all (fun b => b.simul.isEmpty && b.indep.isEmpty)

end Design
end TxV.CoreModel
