import TxV.Model.Util
/-!
Model of `transactron.lib.allocators.CircularAllocator` (allocators.py:178-334) together with
`mod_add` (utils/amaranth_ext/functions.py:58-68).

One `step` = one clock cycle.  The environment attempts `alloc(count)`, `free(count)` and
`clear` (one `AdapterTrans` per method, `en = 1`); the model says which attempted calls
execute, what they return and what the registers `start_idx`, `end_idx`, `allocated` hold
after the edge.  The three methods have no conflicts; `clear` is nonexclusive and always
ready; its `sync` assignments come last in `elaborate`, so they win.

Everything is a `Nat`; every place where Amaranth truncates (assignment to a narrower
signal, packing into the result layout) is an explicit `trunc`.
-/
namespace TxV.CircAllocator

/-- `amaranth.utils.bits_for(x)` for `x ≥ 0` = width of `Signal(range(x+1))` -/
def bitsFor (x : Nat) : Nat := if x = 0 then 0 else Nat.log2 x + 1

/-- functions.py:66 : `not (mod & (mod - 1))` -/
def isPow2 (mod : Nat) : Bool := mod &&& (mod - 1) == 0

/-- functions.py:58-68.  `SwitchValue(sig+incr, [(mod+i, i % mod) for i in range(max_incr)] + [(None, sig+incr)])`:
    the first (only) matching case `mod + i` yields `i % mod`, otherwise `sig + incr` is passed through. -/
def modAdd (sig mod incr maxIncr : Nat) : Nat :=
  if isPow2 mod then (sig + incr) &&& (mod - 1)
  else if mod ≤ sig + incr ∧ sig + incr < mod + maxIncr then (sig + incr - mod) % mod
  else sig + incr

structure Cfg where
  n : Nat            -- entries
  ma : Nat           -- max_alloc
  mf : Nat           -- max_free
  validate : Bool    -- with_validate_arguments
deriving Repr, DecidableEq

structure State where
  start : Nat
  end_ : Nat
  allocated : Nat
deriving Repr, DecidableEq

/-- attempted calls of one cycle (`none` = adapter not enabled) -/
structure In where
  alloc : Option Nat
  free : Option Nat
  clear : Bool
deriving Repr, DecidableEq

/-- result of an executed `alloc`/`free`: `idents` (all `max_*` of them) and `new_end_idx`/`new_start_idx` -/
structure Res where
  idents : List Nat
  next : Nat
deriving Repr, DecidableEq

structure Out where
  alloc : Option Res
  free : Option Res
  clear : Bool
deriving Repr, DecidableEq

def init : State := { start := 0, end_ := 0, allocated := 0 }

/-- width of `start_idx`/`end_idx` (`Signal(range(entries))`) -/
def idw (c : Cfg) : Nat := bitsFor (c.n - 1)
/-- width of `allocated` (`Signal(range(entries + 1))`) -/
def cntw (c : Cfg) : Nat := bitsFor c.n

def allocReady (c : Cfg) (s : State) : Bool := s.allocated != c.n   -- allocators.py:302
def freeReady (_c : Cfg) (s : State) : Bool := s.allocated != 0     -- allocators.py:317

/-- allocators.py:299-300 (only installed when `with_validate_arguments and max_alloc > 1`) -/
def allocValid (c : Cfg) (s : State) (cnt : Nat) : Bool :=
  if c.validate && decide (1 < c.ma) then decide (s.allocated + cnt ≤ c.n) else true
/-- allocators.py:314-315 -/
def freeValid (c : Cfg) (s : State) (cnt : Nat) : Bool :=
  if c.validate && decide (1 < c.mf) then decide (cnt ≤ s.allocated) else true

/-- does an attempted `alloc(cnt)` execute -/
def allocRuns (c : Cfg) (s : State) : Option Nat → Option Nat
  | some cnt => if allocReady c s && allocValid c s cnt then some cnt else none
  | none => none
def freeRuns (c : Cfg) (s : State) : Option Nat → Option Nat
  | some cnt => if freeReady c s && freeValid c s cnt then some cnt else none
  | none => none

/-- allocators.py:304-311 / 319-326: result of a call with pointer `p`, count `cnt`, bound `mx` -/
def result (c : Cfg) (p cnt mx : Nat) : Res :=
  { idents := (List.range mx).map fun i => trunc (idw c) (modAdd p c.n i i)
    next := trunc (idw c) (modAdd p c.n cnt mx) }

def step (c : Cfg) (s : State) (i : In) : State × Out :=
  let a := allocRuns c s i.alloc
  let f := freeRuns c s i.free
  let ra := a.map fun cnt => result c s.end_ cnt c.ma
  let rf := f.map fun cnt => result c s.start cnt c.mf
  let ac := a.getD 0     -- `alloc_count` (comb, reset value 0 when alloc does not run)
  let fc := f.getD 0
  -- allocators.py:296 ; signed arithmetic at full precision, truncated on assignment
  let cnt' := (s.allocated + ac + 2 ^ (cntw c + bitsFor c.mf) - fc) % 2 ^ (cntw c)
  let end' := match ra with | some r => r.next | none => s.end_
  let start' := match rf with | some r => r.next | none => s.start
  let s' : State :=
    if i.clear then init                                   -- allocators.py:328-332
    else { start := start', end_ := end', allocated := cnt' }
  (s', { alloc := ra, free := rf, clear := i.clear })

def run (c : Cfg) (s : State) : List In → State × List Out
  | [] => (s, [])
  | i :: is =>
    let (s', o) := step c s i
    let (s'', os) := run c s' is
    (s'', o :: os)

end TxV.CircAllocator
