import TxV.Model.ReqRes
/-! Line-protocol front end of the C19 driver (parsing, printing, one step per line); kept in the
library so that `lean --run Driver/C19.lean` loads it compiled instead of re-elaborating it. -/
open TxV TxV.Proto TxV.ReqRes
namespace TxV.ReqResProto

/-!
Line protocol for C19 (one output line per input line).

```
cfg comp=zipper wa=3 wr=4
  cyc wa=1 wr=9 rd=1 pk=1            → wa=1 wr=1 rd=- pk=-          (rd=a/r when executed)
cfg comp=serializer ports=3 depth=2 w=4 order=0,1,2
  cyc in=1,-,3 out=101 req=1 resp=1 rdata=9 clr=0
                                     → in=0 rq=1 out=- data=- rs=0 clr=0
```
Two callers per method (exclusive methods grant at most one): zipper `cfg … twin=<3 bits>` (per
write_args/write_results/read: the second caller has priority), ops carry `wa2= wr2= rd2=`, the answer
gets ` who=<wa><wr><rd>` (0 none, 1/2 = executing caller); serializer `cfg … order=<2n slots>
oorder=<2n slots>`, `in=`/`out=` have 2n entries (slot k calls port k % n) and the answer names slots.
`order` = scheduling order of the request ports read from the real manager; it must be a
permutation of the ports (`bad-cfg` otherwise).
-/

inductive Cfg
  | none
  | zipper (twin : Option (Bool × Bool × Bool)) (s : ZState)
  | serializer (ports depth : Nat) (order : List Nat) (twin : Option (List Nat)) (s : SState)

def isPerm (l : List Nat) (n : Nat) : Bool :=
  l.length == n && (List.range n).all (fun k => l.contains k)

def bits? (s : String) : Option (List Bool) :=
  s.toList.mapM fun c => if c == '1' then some true else if c == '0' then some false else none

def optList? (s : String) : Option (List (Option Nat)) :=
  (s.splitOn ",").mapM fun x => if x == "-" then some none else x.toNat?.map some

def natList? (s : String) : Option (List Nat) :=
  if s == "-" || s == "" then some [] else (s.splitOn ",").mapM String.toNat?

def callOf (t : List String) (key : String) : Option (Option Nat) :=
  match kv? t key with
  | some "-" => some none
  | some v => v.toNat?.map some
  | none => none

def bit? (t : List String) (key : String) : Option Bool :=
  match kv? t key with
  | some "0" => some false
  | some "1" => some true
  | _ => none

def parseCfg (t : List String) : Option Cfg := do
  let comp ← kv? t "comp"
  match comp with
  | "zipper" =>
    match kv? t "twin" with
    | none => pure (Cfg.zipper none zInit)
    | some v => match bits? v with
      | some [x, y, z] => pure (Cfg.zipper (some (x, y, z)) zInit)
      | _ => none
  | "serializer" =>
    let ports ← nat? t "ports"
    let depth ← nat? t "depth"
    let o ← (kv? t "order").bind natList?
    match kv? t "oorder" with
    | none => if !isPerm o ports then none else pure (Cfg.serializer ports depth o none sInit)
    | some v =>
      -- two callers per port: `order` / `oorder` are priority orders of the 2*ports slots
      let oo ← natList? v
      if ports = 0 || !isPerm o (2 * ports) || !isPerm oo (2 * ports) then none
      else pure (Cfg.serializer ports depth o (some oo) sInit)
  | _ => none

def showPair : Option (Nat × Nat) → String
  | some (a, r) => s!"{a}/{r}"
  | none => "-"

def stepCyc (c : Cfg) (t : List String) : Option (Cfg × String) :=
  match c with
  | .none => none
  | .zipper (some pr) s => do
    let wa ← callOf t "wa"
    let wr ← callOf t "wr"
    let rd ← bit? t "rd"
    let pk ← bit? t "pk"
    let wa2 ← callOf t "wa2"
    let wr2 ← callOf t "wr2"
    let rd2 ← bit? t "rd2"
    let (s', o, who) := zStepTwin pr s { wa := wa, wr := wr, rd := rd, pk := pk } { wa := wa2, wr := wr2, rd := rd2, pk := false }
    pure (Cfg.zipper (some pr) s',
      s!"wa={showBool o.wa.isSome} wr={showBool o.wr.isSome} rd={showPair o.rd} pk={showOpt o.pk} who={who.wa}{who.wr}{who.rd}")
  | .zipper none s => do
    let wa ← callOf t "wa"
    let wr ← callOf t "wr"
    let rd ← bit? t "rd"
    let pk ← bit? t "pk"
    let (s', o) := zStep s { wa := wa, wr := wr, rd := rd, pk := pk }
    pure (Cfg.zipper none s',
      s!"wa={showBool o.wa.isSome} wr={showBool o.wr.isSome} rd={showPair o.rd} pk={showOpt o.pk}")
  | .serializer ports depth order (some oorder) s => do
    let ins ← (kv? t "in").bind optList?
    let outs ← (kv? t "out").bind bits?
    let req ← bit? t "req"
    let resp ← bit? t "resp"
    let rdata ← nat? t "rdata"
    let clr ← bit? t "clr"
    if ins.length != 2 * ports || outs.length != 2 * ports then none else
    let (s', o, si, so) := sStepTwin ports depth order oorder s
      { ins := ins, outs := outs, reqRdy := req, respRdy := resp, respData := rdata, clr := clr }
    pure (Cfg.serializer ports depth order (some oorder) s',
      s!"in={showOpt si} rq={showOpt o.reqCall} out={showOpt so} data={showOpt (o.outDone.map (·.2))} rs={showBool o.respCall.isSome} clr={showBool o.clr}")
  | .serializer ports depth order none s => do
    let ins ← (kv? t "in").bind optList?
    let outs ← (kv? t "out").bind bits?
    let req ← bit? t "req"
    let resp ← bit? t "resp"
    let rdata ← nat? t "rdata"
    let clr ← bit? t "clr"
    if ins.length != ports || outs.length != ports then none else
    let (s', o) := sStep depth order s
      { ins := ins, outs := outs, reqRdy := req, respRdy := resp, respData := rdata, clr := clr }
    pure (Cfg.serializer ports depth order none s',
      s!"in={showOpt (o.inDone.map (·.1))} rq={showOpt o.reqCall} out={showOpt (o.outDone.map (·.1))} data={showOpt (o.outDone.map (·.2))} rs={showBool o.respCall.isSome} clr={showBool o.clr}")

def stepLine (c : Cfg) (line : String) : Cfg × String :=
  let t := tokens line
  match t.head? with
  | some "cfg" =>
    match parseCfg t with
    | some c' => (c', "ok")
    | none => (Cfg.none, "bad-cfg")
  | some "cyc" =>
    match stepCyc c t with
    | some r => r
    | none => (c, "bad-op")
  | _ => (c, "bad-op")


end TxV.ReqResProto
