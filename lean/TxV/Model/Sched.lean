import TxV.Model.Manager
/-!
# The scheduling equations emitted by `TransactionManager.elaborate` and
# `eager_deterministic_cc_scheduler`, over one cycle valuation

A valuation `Val` gives, for one clock cycle, the values of the signals the manager reads:
`ready` of every body, `enable_sig` and `arg_rec` of every call site, and the per-method
local input the generated method bodies use for `data_out`.

* `runnable`  — manager.py:529-548
* `runM`      — manager.py:550-555 (method run = OR over calling transactions of run ∧ chain enable)
* `evalEager` — schedulers.py:38-43, evaluated along a priority order `order` (an input,
  validated by `validOrder`); per connected component this is exactly
  `ccl.sort(key=porder)` followed by the `for k, transaction in enumerate(ccl)` loop, because
  `gr[transaction]` only contains members of the same component.
* `dataIn`    — manager.py:332-344 `_method_calls` and :560-564 (combiner)
-/
namespace TxV.CoreModel

structure Val where
  ready : BodyId → Bool
  en : SiteId → Bool
  arg : SiteId → Nat
  loc : BodyId → Nat

/-- utils `OneHotMux.create` without default (functions.py:331-385): a single input is passed
    through regardless of its select bit; otherwise the OR of the selected inputs -/
def oneHotMux : List (Bool × Nat) → Nat
  | [(_, a)] => a
  | l => l.foldl (fun acc (s, a) => acc ||| (if s then a else 0)) 0

section
variable (D : Design) (E : Elab) (v : Val)

/-- `CallInfo.enable` = conjunction of the `enable_sig`s along the chain (manager.py:113) -/
def chainEn (ci : CallInfo) : Bool := ci.sites.all v.en

/-- manager.py:550-555 -/
def runM (run : BodyId → Bool) (m : BodyId) : Bool :=
  (E.mm.transFor m).any fun t => run t && (E.mm.infoFor t m).any (chainEn v)

/-- `body.run` of any body: a transaction's `run`, or a method's `granted.any()` -/
def runAny (run : BodyId → Bool) (b : BodyId) : Bool :=
  if E.mm.isMethod b then runM E v run b else run b

/-- manager.py:531-537 `validate_args_for_method` for transaction `t` and method `m` -/
def validateTerm (t m : BodyId) : Bool :=
  match D.validate m with
  | none => true
  | some p =>
    let calls := E.mm.infoFor t m
    if D.nonexclusive m then
      calls.all fun c => !chainEn v c || p.eval (v.arg c.argSite)
    else
      !(calls.any (chainEn v)) || p.eval (oneHotMux (calls.map fun c => (chainEn v c, v.arg c.argSite)))

/-- manager.py:539-548 -/
def runnable (run : BodyId → Bool) (t : BodyId) : Bool :=
  ((E.mm.readyFor t).all fun b => v.ready b && (readyDeps D b).all (runAny E v run)) &&
  (E.mm.methodsOf t).all (validateTerm D E v t)

/-- schedulers.py:38-43: one step of the loop; `ran` = transactions already granted -/
def eagerStep (ran : List BodyId) (t : BodyId) : List BodyId :=
  let run := fun x => ran.contains x
  if v.ready t && runnable D E v run t && !(ran.any fun t' => E.g.adj t t') then t :: ran else ran

/-- the set of granted transactions after processing `order` front to back -/
def evalEagerList (order : List BodyId) : List BodyId := order.foldl (eagerStep D E v) []

def evalEager (order : List BodyId) : BodyId → Bool := fun t => (evalEagerList D E v order).contains t

/-- the scheduler equations as a decidable predicate on a complete assignment `run`
    (what the theorems quantify over): every transaction's `run` equals
    `ready ∧ runnable ∧ no earlier conflicting transaction runs` -/
def consistentEager (order : List BodyId) (run : BodyId → Bool) : Bool :=
  order.all fun t =>
    run t == (v.ready t && runnable D E v run t &&
      !((order.takeWhile (· != t)).any fun t' => E.g.adj t t' && run t'))

/-- is call site `c` of body `src` active: the caller runs and the site's enable holds
    (`source.run & enable`, manager.py:342).  `rb` = `run` signal of every *body*
    (transactions and methods); the intended instance is `rb = runAny E v run`. -/
def siteActive (rb : BodyId → Bool) (src : BodyId) (c : Call) : Bool := rb src && v.en c.site

/-- `(run, arg)` vectors of method `m` in `_method_calls` order (manager.py:338-342) -/
def methodCalls (rb : BodyId → Bool) (m : BodyId) : List (Bool × Nat) :=
  (D.allSites.filter fun (_, c) => c.callee == m).map fun (src, c) => (siteActive v rb src c, v.arg c.site)

def Combiner.apply : Combiner → List (Bool × Nat) → Nat
  | .mux, l => oneHotMux l
  | .orAll, l => l.foldl (fun acc (s, a) => acc ||| (if s then a else 0)) 0
  | .sum, l => l.foldl (fun acc (s, a) => acc + (if s then a else 0)) 0
  | .xor, l => l.foldl (fun acc (s, a) => acc ^^^ (if s then a else 0)) 0
  | .count, l => (l.filter (·.1)).length

/-- manager.py:560-564: `data_in` of a *called* method (an uncalled method's `data_in` is never driven: 0) -/
def dataIn (rb : BodyId → Bool) (m : BodyId) : Nat :=
  if E.mm.calledMethods.contains m then
    match D.body? m with
    | some b => (b.combiner.apply (methodCalls D v rb m)) % 2 ^ b.inW
    | none => 0
  else 0

def OutFn.apply : OutFn → Nat → Nat → Nat
  | .const c, _, _ => c
  | .loc, _, l => l
  | .xorLoc, d, l => d ^^^ l
  | .addLoc, d, l => d + l

/-- `data_out` of the generated method body -/
def dataOut (rb : BodyId → Bool) (m : BodyId) : Nat :=
  match D.body? m with
  | some b => (b.outFn.apply (dataIn D E v rb m) (v.loc m)) % 2 ^ b.outW
  | none => 0

/-- pairs of call sites with exclusive control paths / pairs of bodies with exclusive definition paths
    (static; computed once per design) -/
def exclSitePairs : List (SiteId × SiteId) :=
  let sites := D.allSites.map (·.2)
  sites.flatMap fun a => (sites.filter fun b => a.path.exclusiveWith b.path).map fun b => (a.site, b.site)

def exclBodyPairs : List (BodyId × BodyId) :=
  let bs := List.range D.bodies.length
  bs.flatMap fun a => (bs.filter fun b => (D.defPath a).exclusiveWith (D.defPath b)).map fun b => (a, b)

def exclHoldsOn (sp : List (SiteId × SiteId)) (bp : List (BodyId × BodyId)) : Bool :=
  (sp.all fun (a, b) => !(v.en a && v.en b)) && (bp.all fun (a, b) => !(v.ready a && v.ready b))

/-- side condition `hExcl` of the theorems, as a decidable check on the valuation:
    call sites with exclusive control paths are never enabled together, bodies with
    exclusive definition paths are never ready together -/
def exclHolds : Bool := exclHoldsOn v (exclSitePairs D) (exclBodyPairs D)

end
end TxV.CoreModel
