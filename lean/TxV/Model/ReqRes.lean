import TxV.Model.Util
/-!
Models of `transactron.lib.reqres` (reqres.py:16-188): `ArgumentsToResultsZipper` and `Serializer`.

Both are thin compositions of library connectors.  The connectors are modelled by their
specifications (DESIGN §7 C19: "composition of C14/C17 specs"):

* `BasicFifo(depth)` = bounded queue; `write` ready iff `length < depth`, `read`/`peek` ready iff
  non-empty, both judged on the state at the start of the cycle; a simultaneous read and write
  removes the head and appends; `clear` empties the queue and wins over a write (fifo.py:104-147).
* `Forwarder` = one-slot buffer; `write` ready iff the slot is empty; `read` ready iff the slot is
  full or `write` runs in the same cycle (then returning the written value); `write` is scheduled
  before `read` (connectors.py:126-158).

One `step` = one clock cycle; the environment attempts calls (`Option arg` / `Bool`), the model
says which execute and what they return.
-/
namespace TxV.ReqRes

/-! ## ArgumentsToResultsZipper (reqres.py:77-102) -/

structure ZState where
  args : List Nat      -- contents of the depth-2 argument FIFO, oldest first
  res : Option Nat     -- the Forwarder's overflow register (when `reg_valid`)
deriving Repr, DecidableEq

structure ZIn where
  wa : Option Nat      -- write_args attempted with this value
  wr : Option Nat      -- write_results attempted with this value
  rd : Bool            -- read attempted
  pk : Bool            -- peek_arg attempted
deriving Repr, DecidableEq

structure ZOut where
  wa : Option Nat            -- write_args executed (with this value)
  wr : Option Nat            -- write_results executed (with this value)
  rd : Option (Nat × Nat)    -- read executed, returning (args, results)
  pk : Option Nat            -- peek_arg executed, returning this
deriving Repr, DecidableEq

def zInit : ZState := { args := [], res := none }

/-- depth of the argument FIFO (reqres.py:80) -/
def zDepth : Nat := 2

def zStep (s : ZState) (i : ZIn) : ZState × ZOut :=
  -- write_args = fifo.write : ready iff not full (reqres.py:86-88)
  let waV : Option Nat := if s.args.length < zDepth then i.wa else none
  -- write_results = forwarder.write : ready iff the slot is empty (reqres.py:90-92)
  let wrV : Option Nat := if s.res.isNone then i.wr else none
  -- forwarder.read is ready iff slot full or write runs; value = register, else the written value
  let fwd : Option Nat := match s.res with
    | some v => some v
    | none => wrV
  -- read = fifo.read + forwarder.read (reqres.py:94-98): both must be ready
  let rd : Option (Nat × Nat) :=
    if i.rd then
      match s.args.head?, fwd with
      | some a, some r => some (a, r)
      | _, _ => none
    else none
  -- peek_arg = fifo.peek (reqres.py:100)
  let pk : Option Nat := if i.pk then s.args.head? else none
  let args' := (if rd.isSome then s.args.tail else s.args) ++ waV.toList
  let res' := if rd.isSome then none else fwd
  ({ args := args', res := res' }, { wa := waV, wr := wrV, rd := rd, pk := pk })

def zRun (s : ZState) : List ZIn → ZState × List ZOut
  | [] => (s, [])
  | i :: is =>
    let (s', o) := zStep s i
    let (s'', os) := zRun s' is
    (s'', o :: os)

/-! ## Serializer (reqres.py:168-188) -/

structure SState where
  q : List Nat         -- pending request ids (`pending_requests`), oldest first
deriving Repr, DecidableEq

structure SIn where
  ins : List (Option Nat)   -- per port: serialize_in[p] attempted with this argument
  outs : List Bool          -- per port: serialize_out[p] attempted
  reqRdy : Bool             -- server: serialized_req_method.ready
  respRdy : Bool            -- server: serialized_resp_method.ready
  respData : Nat            -- server: what serialized_resp_method returns
  clr : Bool                -- clear attempted
deriving Repr, DecidableEq

structure SOut where
  inDone : Option (Nat × Nat)    -- (port, argument) of the executed serialize_in
  reqCall : Option Nat           -- argument the server's request method is called with
  outDone : Option (Nat × Nat)   -- (port, returned data) of the executed serialize_out
  respCall : Option Nat          -- the server's response method is called and returns this
  clr : Bool
deriving Repr, DecidableEq

def sInit : SState := { q := [] }

/-- first port, in scheduling order, that attempts a request (the request ports all call
    `pending_requests.write` and the server's request method, so they exclude each other and the
    eager scheduler grants the first requested one) -/
def pickIn (ins : List (Option Nat)) : List Nat → Option (Nat × Nat)
  | [] => none
  | p :: rest =>
    match ins[p]? with
    | some (some a) => some (p, a)
    | _ => pickIn ins rest

def sStep (depth : Nat) (order : List Nat) (s : SState) (i : SIn) : SState × SOut :=
  -- serialize_in[p] (reqres.py:176-179): needs pending_requests.write and the request method ready
  let inDone : Option (Nat × Nat) :=
    if s.q.length < depth && i.reqRdy then pickIn i.ins order else none
  -- serialize_out[p] (reqres.py:181-184): ready iff head.id == p; needs pending_requests.read
  -- (non-empty) and the response method ready
  let outDone : Option (Nat × Nat) :=
    match s.q.head? with
    | some p => if i.respRdy && i.outs[p]? == some true then some (p, i.respData) else none
    | none => none
  let q1 := if outDone.isSome then s.q.tail else s.q
  let q2 := q1 ++ (inDone.map (·.1)).toList
  -- clear = pending_requests.clear (reqres.py:186): wins over the write
  let q' := if i.clr then [] else q2
  ({ q := q' },
   { inDone := inDone, reqCall := inDone.map (·.2), outDone := outDone,
     respCall := outDone.map (·.2), clr := i.clr })

def sRun (depth : Nat) (order : List Nat) (s : SState) : List SIn → SState × List SOut
  | [] => (s, [])
  | i :: is =>
    let (s', o) := sStep depth order s i
    let (s'', os) := sRun depth order s' is
    (s'', o :: os)

/-! ## two callers per method
Every method of the two components is exclusive: when two transactions request the same method in
one cycle the eager scheduler grants at most one of them - the one that comes first in the
priority order - and only if the method can run.  The models below put this arbitration in front
of `zStep` / `sStep`: the component sees the union of the callers' requests. -/

/-- two callers of one exclusive method: merged request and the caller (1 or 2) it comes from;
    `bFirst` = the second caller precedes the first in the priority order -/
def arb2 {α} (bFirst : Bool) (a b : Option α) : Option α × Nat :=
  if bFirst then (match b with | some x => (some x, 2) | none => (a, 1))
  else (match a with | some x => (some x, 1) | none => (b, 2))

def boolOpt (b : Bool) : Option Unit := if b then some () else none

/-- which caller (0 = none, 1, 2) executed write_args / write_results / read -/
structure ZWho where
  wa : Nat
  wr : Nat
  rd : Nat
deriving Repr, DecidableEq

/-- zipper with two callers on write_args, write_results and read (`pr` = second caller first, per
    method); peek_arg is nonexclusive and keeps one caller -/
def zStepTwin (pr : Bool × Bool × Bool) (s : ZState) (a b : ZIn) : ZState × ZOut × ZWho :=
  let wa := arb2 pr.1 a.wa b.wa
  let wr := arb2 pr.2.1 a.wr b.wr
  let rd := arb2 pr.2.2 (boolOpt a.rd) (boolOpt b.rd)
  let r := zStep s { wa := wa.1, wr := wr.1, rd := rd.1.isSome, pk := a.pk }
  (r.1, r.2, { wa := if r.2.wa.isSome then wa.2 else 0, wr := if r.2.wr.isSome then wr.2 else 0,
               rd := if r.2.rd.isSome then rd.2 else 0 })

/-- first slot of `oorder` that belongs to `port` (slot `k` calls port `k % n`) and attempts -/
def firstSlot (outs : List Bool) (port n : Nat) : List Nat → Option Nat
  | [] => none
  | k :: rest => if k % n == port && outs[k]? == some true then some k else firstSlot outs port n rest

/-- Serializer whose every `serialize_in[p]` / `serialize_out[p]` has several callers: `ins` / `outs`
    are indexed by *slot*, slot `k` calls port `k % n`; `order` / `oorder` = priority order of the
    request / response slots.  Returns also the granted request slot and response slot. -/
def sStepTwin (n depth : Nat) (order oorder : List Nat) (s : SState) (i : SIn) :
    SState × SOut × Option Nat × Option Nat :=
  let w := pickIn i.ins order
  let insP : List (Option Nat) := (List.range n).map fun p =>
    match w with
    | some (sl, a) => if sl % n = p then some a else none
    | none => none
  let outsP : List Bool := (List.range n).map fun p => (firstSlot i.outs p n oorder).isSome
  let r := sStep depth (List.range n) s { i with ins := insP, outs := outsP }
  (r.1, r.2, if r.2.inDone.isSome then w.map (·.1) else none,
    r.2.outDone.bind fun pd => firstSlot i.outs pd.1 n oorder)

end TxV.ReqRes
