import TxV.Model.Transformers
/-! Line-protocol front end of the C18 driver (parsing, printing, one step per line); kept in the
library so that `lean --run Driver/C18.lean` loads it compiled instead of re-elaborating it. -/
open TxV TxV.Proto TxV.Transformers
namespace TxV.TransformersProto

/-!
Line protocol for C18 (one output line per input line).

```
cfg comp=map w=4 ifun=add:3 ofun=rot:1                  cyc call=1 trdy=1 tret=3      → m=9 t=4
cfg comp=filter w=4 cond=bit:0 def=9 uc=0               cyc call=1 trdy=1 tret=5      → m=5 t=1
cfg comp=product w=4 n=3 comb=add                       cyc call=2 trdy=111 tret=1,2,4 → m=7 t=2,2,2
cfg comp=tryproduct w=4 n=3 comb=both                   cyc call=2 trdy=101 tret=1,2,4 → m=45 t=2,-,2
cfg comp=nonex w=4 k=3                                  cyc calls=3,-,5 trdy=1 tret=7 → c=7,-,7 t=7
cfg comp=connect wi=3 wo=4                              cyc r1=1 r2=1 d1=13 d2=5      → m1=5 m2=13
cfg comp=crossbar n1=2 n2=2 wi=3 wo=4 order=0,1,2,3     cyc r1=11 r2=11 d1=13,14 d2=5,6 → run=1001 m1=5,6 m2=13,14
cfg comp=collector n=3 w=4 order=0,1,2                  cyc trdy=011 tret=1,2,3 rd=0  → t=010 rd=-
```
With competing callers of the targets (filter/product/tryproduct/collector): the cfg carries
`cf=<bits>` (per target: the competitor precedes the transformer's transaction in the real
priority order), every op `catt=<v|->,…` (attempted competitor calls); the answer gets
` c=<bits>` (competitor executed) and `t=` is what the target received from whoever called it
(collector: `t=` = targets called by the collector).
`val=ne:k` (optional; not with `cf`, not for the collector): every target method has
`validate_arguments = (arg != k)`.
`order` lists pair indices `i*n2+j` (crossbar) / target indices (collector) in the scheduling
order read from the real manager; it must be a permutation of all of them (`bad-cfg` otherwise).
-/

def splitCode (s : String) : String × Nat :=
  match s.splitOn ":" with
  | [n, k] => (n, k.toNat?.getD 0)
  | [n] => (n, 0)
  | _ => ("?", 0)

/-- unary function family on `w`-bit data -/
def unFun (w : Nat) (code : String) : Option (Nat → Nat) :=
  let (n, k) := splitCode code
  match n with
  | "id" => some fun x => x % 2 ^ w
  | "add" => some fun x => (x + k) % 2 ^ w
  | "xor" => some fun x => (x ^^^ k) % 2 ^ w
  | "mul" => some fun x => (x * k) % 2 ^ w
  | "rot" => some fun x =>
      let h := if w = 0 then 0 else k % w
      ((x >>> h) ||| ((x % 2 ^ h) <<< (w - h))) % 2 ^ w
  | _ => none

/-- condition family: the *value* returned by the condition function -/
def condFun (code : String) : Option (Nat → Nat) :=
  let (n, k) := splitCode code
  match n with
  | "bit" => some fun x => (x >>> k) % 2
  | "lt" => some fun x => if x < k then 1 else 0
  | "eq" => some fun x => if x = k then 1 else 0
  | "and" => some fun x => x &&& k
  | "true" => some fun _ => 1
  | "false" => some fun _ => 0
  | _ => none

def combFun (w : Nat) (code : String) : Option (List Nat → Nat) :=
  match code with
  | "first" => some fun l => l.headD 0
  | "last" => some fun l => l.getLastD 0
  | "add" => some fun l => l.foldl (· + ·) 0 % 2 ^ w
  | "xor" => some fun l => l.foldl (· ^^^ ·) 0
  | _ => none

def succBits : List (Bool × Nat) → Nat
  | [] => 0
  | (s, _) :: r => s.toNat + 2 * succBits r

def tcombFun (w n : Nat) (code : String) : Option (List (Bool × Nat) → Nat) :=
  let msum := fun (l : List (Bool × Nat)) => (l.foldl (fun a (p : Bool × Nat) => if p.1 then a + p.2 else a) 0) % 2 ^ w
  match code with
  | "none" => some fun _ => 0
  | "bits" => some succBits
  | "msum" => some msum
  | "rsum" => some fun l => (l.foldl (fun a p => a + p.2) 0) % 2 ^ w
  | "both" => some fun l => succBits l ||| (msum l <<< n)
  | _ => none

/-- `validate_arguments` family of the targets: `val=ne:k` = argument must differ from k; absent = none -/
def valFun (t : List String) : Option (Nat → Bool) :=
  match kv? t "val" with
  | none => some fun _ => true
  | some code =>
    let (n, k) := splitCode code
    if n == "ne" then some fun x => x != k else none

inductive Cfg
  | none
  | map (valid : Nat → Bool) (ifun ofun : Nat → Nat)
  | filter (valid : Nat → Bool) (uc : Bool) (cond : Nat → Nat) (dflt : Nat) (cf : Option (List Bool))
  | product (valid : Nat → Bool) (n : Nat) (comb : List Nat → Nat) (cf : Option (List Bool))
  | tryproduct (valid : Nat → Bool) (n : Nat) (comb : List (Bool × Nat) → Nat) (cf : Option (List Bool))
  | nonex (valid : Nat → Bool) (k : Nat)
  | connect (valid : Nat → Bool)
  | crossbar (valid : Nat → Bool) (n1 n2 : Nat) (order : List (Nat × Nat))
  | collector (n : Nat) (order : List Nat) (cf : Option (List Bool)) (s : CState)

def isPerm (l : List Nat) (n : Nat) : Bool :=
  l.length == n && (List.range n).all (fun k => l.contains k)

def bits? (s : String) : Option (List Bool) :=
  s.toList.mapM fun c => if c == '1' then some true else if c == '0' then some false else none

def bitsOf (t : List String) (key : String) : Option (List Bool) := (kv? t key).bind bits?

def optList? (s : String) : Option (List (Option Nat)) :=
  (s.splitOn ",").mapM fun x => if x == "-" then some none else x.toNat?.map some

def natList? (s : String) : Option (List Nat) :=
  if s == "-" || s == "" then some [] else (s.splitOn ",").mapM String.toNat?

def natsOf (t : List String) (key : String) : Option (List Nat) := (kv? t key).bind natList?

/-- `call=-` ↦ some none; `call=5` ↦ some (some 5); missing/garbled ↦ none -/
def callOf (t : List String) (key : String) : Option (Option Nat) :=
  match kv? t key with
  | some "-" => some none
  | some v => v.toNat?.map some
  | none => none

def showOptList (l : List (Option Nat)) : String := ",".intercalate (l.map showOpt)
def showBits (l : List Bool) : String := String.join (l.map showBool)

/-- optional `cf=<bits>`: per target, does its competing caller precede the transformer's transaction?
    `some none` = no competitors; `none` = garbled or wrong length -/
def cfOf (t : List String) (n : Nat) : Option (Option (List Bool)) :=
  match kv? t "cf" with
  | none => some none
  | some v => match bits? v with
    | some b => if b.length == n then some (some b) else none
    | none => none

/-- competitors of a cycle: with `cf`, the op line must carry `catt=<v|->,…` of the right length -/
def compsOf (t : List String) (n : Nat) (cf : Option (List Bool)) : Option (List CompIn) :=
  match cf with
  | none => some ((List.replicate n false).map fun f => { first := f, att := none })
  | some fs => do
    let a ← (kv? t "catt").bind optList?
    if a.length != n then none else pure ((fs.zip a).map fun x => { first := x.1, att := x.2 })

def compSuffix (cf : Option (List Bool)) (cd : List Bool) : String :=
  match cf with
  | none => ""
  | some _ => s!" c={showBits cd}"

def parseCfg (t : List String) : Option Cfg := do
  let comp ← kv? t "comp"
  let valid ← valFun t
  -- validators and competing callers are not combined (nor validators on the input-less collector targets)
  if (kv? t "val").isSome && ((kv? t "cf").isSome || comp == "collector") then none
  match comp with
  | "map" =>
    let w ← nat? t "w"
    let f ← (kv? t "ifun").bind (unFun w)
    let g ← (kv? t "ofun").bind (unFun w)
    pure (Cfg.map valid f g)
  | "filter" =>
    let c ← (kv? t "cond").bind condFun
    let d ← nat? t "def"
    let uc ← nat? t "uc"
    let cf ← cfOf t 1
    pure (Cfg.filter valid (uc == 1) c d cf)
  | "product" =>
    let w ← nat? t "w"
    let n ← nat? t "n"
    let c ← (kv? t "comb").bind (combFun w)
    let cf ← cfOf t n
    if n = 0 then none else pure (Cfg.product valid n c cf)
  | "tryproduct" =>
    let w ← nat? t "w"
    let n ← nat? t "n"
    let c ← (kv? t "comb").bind (tcombFun w n)
    let cf ← cfOf t n
    pure (Cfg.tryproduct valid n c cf)
  | "nonex" =>
    let k ← nat? t "k"
    -- with >= 2 callers the argument offered to a validating target depends on which callers run
    -- (combinational dependency in the real circuit, proposed finding F-b6-2): modelled for one caller only
    if (kv? t "val").isSome && k != 1 then none
    pure (Cfg.nonex valid k)
  | "connect" => pure (Cfg.connect valid)
  | "crossbar" =>
    let n1 ← nat? t "n1"
    let n2 ← nat? t "n2"
    let o ← natsOf t "order"
    if n2 = 0 || !isPerm o (n1 * n2) then none
    else pure (Cfg.crossbar valid n1 n2 (o.map fun x => (x / n2, x % n2)))
  | "collector" =>
    let n ← nat? t "n"
    let o ← natsOf t "order"
    let cf ← cfOf t n
    if !isPerm o n then none else pure (Cfg.collector n o cf cInit)
  | _ => none

def uIn? (t : List String) : Option UIn := do
  let c ← callOf t "call"
  let r ← nat? t "trdy"
  let v ← nat? t "tret"
  if r > 1 then none else pure { call := c, trdy := r == 1, tret := v }

def tgts? (t : List String) (n : Nat) (kr kd : String) : Option (List (Bool × Nat)) := do
  let r ← bitsOf t kr
  let v ← natsOf t kd
  if r.length == n && v.length == n then pure (r.zip v) else none

def stepCyc (c : Cfg) (t : List String) : Option (Cfg × String) :=
  match c with
  | .none => none
  | .map valid f g => do
    let i ← uIn? t
    let o := mapVStep valid f g i
    pure (c, s!"m={showOpt o.res} t={showOpt o.tcall}")
  | .filter valid uc cond d cf => do
    let i ← uIn? t
    let cs ← compsOf t 1 cf
    let cp ← cs.head?
    if cf.isNone then
      let o := filterVStep valid uc cond d i
      pure (c, s!"m={showOpt o.res} t={showOpt o.tcall}")
    else
    let o := filterCompStep uc cond d i cp
    pure (c, s!"m={showOpt o.res} t={showOpt o.seen}{compSuffix cf [o.comp]}")
  | .product valid n comb cf => do
    let call ← callOf t "call"
    let tg ← tgts? t n "trdy" "tret"
    let cs ← compsOf t n cf
    let o := withComps (productStep comb) (validTgts valid { call := call, tgts := tg }) cs
    pure (c, s!"m={showOpt o.res} t={showOptList o.seen}{compSuffix cf o.comp}")
  | .tryproduct valid n comb cf => do
    let call ← callOf t "call"
    let tg ← tgts? t n "trdy" "tret"
    let cs ← compsOf t n cf
    let o := withComps (tryProductStep comb) (validTgts valid { call := call, tgts := tg }) cs
    pure (c, s!"m={showOpt o.res} t={showOptList o.seen}{compSuffix cf o.comp}")
  | .nonex valid k => do
    let calls ← (kv? t "calls").bind optList?
    let r ← nat? t "trdy"
    let v ← nat? t "tret"
    if calls.length != k || r > 1 then none else
    let o := nonexVStep valid { calls := calls, trdy := r == 1, tret := v }
    pure (c, s!"c={showOptList o.res} t={showOpt o.tcall}")
  | .connect valid => do
    let r1 ← nat? t "r1"
    let r2 ← nat? t "r2"
    let d1 ← nat? t "d1"
    let d2 ← nat? t "d2"
    if r1 > 1 || r2 > 1 then none else
    let o := connectV valid valid { r1 := r1 == 1, r2 := r2 == 1, d1 := d1, d2 := d2 }
    pure (c, s!"m1={showOpt o.m1} m2={showOpt o.m2}")
  | .crossbar valid n1 n2 order => do
    let t1 ← tgts? t n1 "r1" "d1"
    let t2 ← tgts? t n2 "r2" "d2"
    let i : XIn := { t1 := t1, t2 := t2 }
    let run := running valid valid order i
    let runBits := (List.range (n1 * n2)).map fun x => run.contains (x / n2, x % n2)
    let a1 := (List.range n1).map (xArg1 valid valid order i)
    let a2 := (List.range n2).map (xArg2 valid valid order i)
    pure (c, s!"run={showBits runBits} m1={showOptList a1} m2={showOptList a2}")
  | .collector n order cf s => do
    let tg ← tgts? t n "trdy" "tret"
    let rd ← nat? t "rd"
    let cs ← compsOf t n cf
    if rd > 1 then none else
    let (s', o, cd) := collectorCompStep order s { tgts := tg, rd := rd == 1 } cs
    let called := (List.range n).map fun k => (o.called.map (·.1)) == some k
    pure (Cfg.collector n order cf s', s!"t={showBits called} rd={showOpt o.rd}{compSuffix cf cd}")

def stepLine (c : Cfg) (line : String) : Cfg × String :=
  let t := tokens line
  match t.head? with
  | some "cfg" =>
    match parseCfg t with
    | some c' => (c', "ok")
    | none => (Cfg.none, "bad-cfg")
  | some "cyc" =>
    match stepCyc c t with
    | some r => r
    | none => (c, "bad-op")
  | _ => (c, "bad-op")


end TxV.TransformersProto
