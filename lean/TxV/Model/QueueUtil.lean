import TxV.Model.Util
/-!
Small executable helpers shared by the buffer models of C14 (BasicFifo, FIFO), C16 (Stack)
and C17 (Forwarder, Pipe).  Core Lean only.
-/
namespace TxV.QueueUtil

/-- Amaranth `bits_for(n)` for `n ≥ 0`: width of `Signal(range(n+1))` -/
def bitsFor (n : Nat) : Nat := if n = 0 then 0 else Nat.log2 n + 1

/-- `mod_add(sig, mod, 1, 1)` (transactron/utils/amaranth_ext/functions.py:58-68):
    power-of-two moduli use a mask, the others a one-entry `SwitchValue` table
    `{mod ↦ 0, default ↦ sig + 1}`. -/
def modAdd1 (x d : Nat) : Nat :=
  if d &&& (d - 1) = 0 then (x + 1) &&& (d - 1)
  else if x + 1 = d then 0 else x + 1

/-- what one cycle of a buffer contributes to its history: the value stored by an executed
    `write`, the value returned by an executed `read`, whether `clear` executed -/
structure Ev where
  wr : Option Nat
  rd : Option Nat
  clr : Bool
deriving Repr, DecidableEq

/-- run a step function over a history of inputs, collecting the per-cycle observations -/
def runWith {σ ι ο} (step : σ → ι → σ × ο) (s : σ) : List ι → σ × List ο
  | [] => (s, [])
  | i :: is =>
    let (s', o) := step s i
    let (s'', os) := runWith step s' is
    (s'', o :: os)


/-! ### several callers of one method

The real circuit may call `read`/`write`/`peek` from several transactions.  Calls of an
exclusive method conflict: the (eager) scheduler lets exactly one of the requesting callers run,
the first in a static priority order `order` (read off the real `TransactionManager` by the
harness).  A nonexclusive method (`peek`) serves every caller. -/

/-- the caller that is granted: first in `order` among the attempting ones -/
def winner (order : List Nat) (att : List Bool) : Option Nat :=
  order.find? (fun k => att.getD k false)

/-- attempts of one cycle, per caller -/
structure MIn where
  ws : List (Option Nat)
  rs : List Bool
  ps : List Bool
  c : Bool
deriving Repr, DecidableEq

/-- the single-port attempt the component sees, and who was granted -/
structure Eff where
  w : Option Nat
  r : Bool
  p : Bool
  c : Bool
  gw : Option Nat
  gr : Option Nat
deriving Repr, DecidableEq

def eff (ow or : List Nat) (i : MIn) : Eff :=
  let gw := winner ow (i.ws.map Option.isSome)
  let gr := winner or i.rs
  { w := gw.bind (fun k => i.ws.getD k none), r := gr.isSome, p := i.ps.any id, c := i.c, gw := gw, gr := gr }

/-- outcome of an exclusive method per caller: only the granted caller sees it -/
def onlyTo {α} (n : Nat) (g : Option Nat) (res : Option α) : List (Option α) :=
  (List.range n).map (fun k => if g = some k then res else none)

/-- outcome of a nonexclusive method per caller: every attempting caller sees it -/
def toAll {α} (att : List Bool) (res : Option α) : List (Option α) :=
  att.map (fun a => if a then res else none)

namespace MProto
open TxV.Proto

def optList (s : String) : Option (List (Option Nat)) :=
  (s.splitOn ",").mapM (fun t => if t == "-" then some none else t.toNat?.map some)

def boolList (s : String) : Option (List Bool) :=
  (s.splitOn ",").mapM (fun t => if t == "1" then some true else if t == "0" then some false else none)

def showOpts (l : List (Option Nat)) : String := ",".intercalate (l.map showOpt)
def showBools (l : List Bool) : String := ",".intercalate (l.map showBool)

/-- `mcyc w=5,- r=1,1 p=0,1 c=0` (peek/clear optional) -/
def parseMIn (t : List String) (withPC : Bool) : Option MIn := do
  let ws ← (kv? t "w").bind optList
  let rs ← (kv? t "r").bind boolList
  if withPC then
    let ps ← (kv? t "p").bind boolList
    let c ← nat? t "c"
    if ws.length == rs.length && rs.length == ps.length then some ⟨ws, rs, ps, c == 1⟩ else none
  else
    if ws.length == rs.length then some ⟨ws, rs, rs.map (fun _ => false), false⟩ else none

/-- `w=1,0 r=-,42 p=-,42 c=0` from the single-port outcome -/
def showM (i : MIn) (e : Eff) (wr rd pk : Option Nat) (clr : Bool) (withPC : Bool) : String :=
  let n := i.ws.length
  let w := (onlyTo n e.gw wr).map Option.isSome
  let r := onlyTo n e.gr rd
  if withPC then s!"w={showBools w} r={showOpts r} p={showOpts (toAll i.ps pk)} c={showBool clr}"
  else s!"w={showBools w} r={showOpts r}"

end MProto

end TxV.QueueUtil
