import TxV.Model.Util
/-!
Small executable helpers shared by the buffer models of C14 (BasicFifo, FIFO), C16 (Stack)
and C17 (Forwarder, Pipe).  Core Lean only.
-/
namespace TxV.QueueUtil

/-- Amaranth `bits_for(n)` for `n ≥ 0`: width of `Signal(range(n+1))` -/
def bitsFor (n : Nat) : Nat := if n = 0 then 0 else Nat.log2 n + 1

/-- `mod_add(sig, mod, 1, 1)` (transactron/utils/amaranth_ext/functions.py:58-68):
    power-of-two moduli use a mask, the others a one-entry `SwitchValue` table
    `{mod ↦ 0, default ↦ sig + 1}`. -/
def modAdd1 (x d : Nat) : Nat :=
  if d &&& (d - 1) = 0 then (x + 1) &&& (d - 1)
  else if x + 1 = d then 0 else x + 1

/-- what one cycle of a buffer contributes to its history: the value stored by an executed
    `write`, the value returned by an executed `read`, whether `clear` executed -/
structure Ev where
  wr : Option Nat
  rd : Option Nat
  clr : Bool
deriving Repr, DecidableEq

/-- run a step function over a history of inputs, collecting the per-cycle observations -/
def runWith {σ ι ο} (step : σ → ι → σ × ο) (s : σ) : List ι → σ × List ο
  | [] => (s, [])
  | i :: is =>
    let (s', o) := step s i
    let (s'', os) := runWith step s' is
    (s'', o :: os)

end TxV.QueueUtil
