import TxV.Model.Util
/-!
Model of `transactron.lib.stream` (stream.py): `StreamSource` (stream.py:118-131),
`StreamSink` (stream.py:61-73) and `StreamModuleWrapper` (stream.py:175-189).

One `step` = one clock cycle.  `ready`/`valid`/`payload` of the stream interfaces are plain
wires driven by the environment; `write`/`read`/`peek` are methods, the environment attempts
calls.  Payloads are `Nat` (the harness keeps them below `2^width`).
-/
namespace TxV.Stream

/-! ### StreamSource -/
namespace Source

/-- the registers `o.valid`, `o.payload` (reset 0) -/
structure State where
  valid : Bool
  payload : Nat
deriving Repr, DecidableEq

structure In where
  write : Option Nat   -- a caller attempts `write d`
  ready : Bool         -- the consumer's `o.ready` in this cycle
deriving Repr, DecidableEq

structure Out where
  valid : Bool            -- `o.valid` in this cycle
  payload : Nat           -- `o.payload` in this cycle
  ready : Bool            -- echo of the consumer's `o.ready`
  wready : Bool           -- `write.ready`
  written : Option Nat    -- `some d` iff `write d` executed in this cycle
deriving Repr, DecidableEq

def init : State := { valid := false, payload := 0 }

def step (s : State) (i : In) : State × Out :=
  let wready := !s.valid || i.ready                      -- stream.py:122
  let written := if wready then i.write else none       -- the method runs iff attempted and ready
  let s' : State :=
    match written with
    | some d => { valid := true, payload := d }          -- stream.py:124-125
    | none => if i.ready then { s with valid := false }  -- stream.py:127-129 (`ready & ~write.run`)
              else s
  (s', { valid := s.valid, payload := s.payload, ready := i.ready, wready := wready, written := written })

def run (s : State) : List In → State × List Out
  | [] => (s, [])
  | i :: is =>
    let (s', o) := step s i
    let (s'', os) := run s' is
    (s'', o :: os)

end Source

/-! ### StreamSink (stateless) -/
namespace Sink

structure In where
  valid : Bool     -- the producer's `i.valid`
  payload : Nat    -- the producer's `i.payload`
  read : Bool      -- a caller attempts `read`
  peek : Bool      -- a caller attempts `peek`
deriving Repr, DecidableEq

structure Out where
  ready : Bool          -- `i.ready` driven towards the producer
  read : Option Nat     -- `some d` iff `read` executed, returning `d`
  peek : Option Nat     -- `some d` iff `peek` executed, returning `d`
deriving Repr, DecidableEq

def step (i : In) : Out :=
  let rd := i.read && i.valid                        -- stream.py:68  ready=self.i.valid
  { ready := rd                                      -- stream.py:70  only the body of `read` drives `i.ready`
    read := if rd then some i.payload else none      -- stream.py:71
    peek := if i.peek && i.valid then some i.payload else none }   -- stream.py:64-66

end Sink

/-! ### two callers of one exclusive method
`write` and `read` are exclusive methods: when two transactions attempt a call in the same cycle
the TransactionManager grants at most one of them (fixed priority between the two
transactions; `prio1` = the second caller wins).  `peek` is nonexclusive: every caller runs. -/

/-- which of two attempting callers is granted (`false` = caller 0, `true` = caller 1) -/
def grant (prio1 : Bool) (a0 a1 : Bool) : Option Bool :=
  if a0 && a1 then some prio1 else if a0 then some false else if a1 then some true else none

/-- the argument of the granted caller -/
def pickArg {α : Type} (prio1 : Bool) (a0 a1 : Option α) : Option α :=
  match grant prio1 a0.isSome a1.isSome with
  | some false => a0
  | some true => a1
  | none => none

/-- result `r` of the method delivered to caller `j` only if `j` is the granted caller -/
def deliver {α : Type} (g : Option Bool) (j : Bool) (r : Option α) : Option α :=
  if g = some j then r else none

namespace Sink

structure In2 where
  valid : Bool
  payload : Nat
  r0 : Bool
  r1 : Bool
  k0 : Bool
  k1 : Bool
deriving Repr, DecidableEq

structure Out2 where
  ready : Bool
  r0 : Option Nat
  r1 : Option Nat
  k0 : Option Nat
  k1 : Option Nat
deriving Repr, DecidableEq

/-- StreamSink with two callers of `read` and two callers of `peek` -/
def step2 (prio1 : Bool) (i : In2) : Out2 :=
  let g := grant prio1 i.r0 i.r1
  let o := step { valid := i.valid, payload := i.payload, read := g.isSome, peek := i.k0 || i.k1 }
  { ready := o.ready, r0 := deliver g false o.read, r1 := deliver g true o.read
    k0 := if i.k0 then o.peek else none, k1 := if i.k1 then o.peek else none }

end Sink

/-! ### StreamModuleWrapper around an arbitrary module with stream ports `i`, `o` -/

/-- what happens on the two stream ports of the wrapped module in one cycle -/
structure PortEv where
  iv : Bool      -- module.i.valid   (driven by the wrapper's StreamSource)
  ip : Nat       -- module.i.payload
  ir : Bool      -- module.i.ready   (driven by the module)
  ov : Bool      -- module.o.valid   (driven by the module)
  op : Nat       -- module.o.payload
  ordy : Bool    -- module.o.ready   (driven by the wrapper's StreamSink)
deriving Repr, DecidableEq

/-- an arbitrary synchronous module with an input and an output stream port.
    `o.valid`/`o.payload` may depend combinationally on `i.valid`/`i.payload`; `i.ready` may
    additionally depend on `o.ready` (the sink computes `o.ready` from `o.valid`). -/
structure Mod (σ : Type) where
  init : σ
  out : σ → Bool → Nat → Bool × Nat          -- state, i.valid, i.payload ↦ (o.valid, o.payload)
  irdy : σ → Bool → Nat → Bool → Bool        -- state, i.valid, i.payload, o.ready ↦ i.ready
  next : σ → Bool → Nat → Bool → σ           -- state, i.valid, i.payload, o.ready ↦ next state

/-- one cycle of the module in isolation, given what its environment drives -/
def Mod.ev {σ} (M : Mod σ) (m : σ) (iv : Bool) (ip : Nat) (ordy : Bool) : PortEv :=
  { iv := iv, ip := ip, ir := M.irdy m iv ip ordy,
    ov := (M.out m iv ip).1, op := (M.out m iv ip).2, ordy := ordy }

/-- the module alone against an environment `(i.valid, i.payload, o.ready)` per cycle -/
def Mod.trace {σ} (M : Mod σ) (m : σ) : List (Bool × Nat × Bool) → List PortEv
  | [] => []
  | (iv, ip, ordy) :: es => M.ev m iv ip ordy :: M.trace (M.next m iv ip ordy) es

namespace Wrapper

structure State (σ : Type) where
  src : Source.State
  m : σ

structure In where
  write : Option Nat
  read : Bool
deriving Repr, DecidableEq

structure Out where
  wready : Bool
  written : Option Nat
  read : Option Nat
  port : PortEv
deriving Repr, DecidableEq

def init {σ} (M : Mod σ) : State σ := { src := Source.init, m := M.init }

/-- stream.py:178-187: `source.o → module.i`, `module.o → sink.i`, `write = source.write`,
    `read = sink.read` (peek is not exposed and never called) -/
def step {σ} (M : Mod σ) (s : State σ) (i : In) : State σ × Out :=
  let iv := s.src.valid
  let ip := s.src.payload
  let o := M.out s.m iv ip
  let sk := Sink.step { valid := o.1, payload := o.2, read := i.read, peek := false }
  let ir := M.irdy s.m iv ip sk.ready
  let (src', so) := Source.step s.src { write := i.write, ready := ir }
  ({ src := src', m := M.next s.m iv ip sk.ready },
   { wready := so.wready, written := so.written, read := sk.read,
     port := M.ev s.m iv ip sk.ready })

def run {σ} (M : Mod σ) (s : State σ) : List In → State σ × List Out
  | [] => (s, [])
  | i :: is =>
    let (s', o) := step M s i
    let (s'', os) := run M s' is
    (s'', o :: os)

end Wrapper

/-! ### concrete stream modules used by the correspondence check
(Lean counterparts of the small Amaranth modules defined in `harness/txv/props/c29.py`) -/

/-- combinational pass-through adding `k` (mod `2^w`) -/
def passMod (w k : Nat) : Mod Unit :=
  { init := ()
    out := fun _ iv ip => (iv, (ip + k) % 2 ^ w)
    irdy := fun _ _ _ ordy => ordy
    next := fun _ _ _ _ => () }

/-- one register stage: accepts when empty or being emptied -/
def regMod (w k : Nat) : Mod (Bool × Nat) :=
  { init := (false, 0)
    out := fun s _ _ => s
    irdy := fun s _ _ ordy => !s.1 || ordy
    next := fun s iv ip ordy =>
      if iv && (!s.1 || ordy) then (true, (ip + k) % 2 ^ w)
      else if ordy then (false, s.2) else s }

/-- half-throughput buffer: a phase bit toggles every cycle; accepts only when empty and the
    phase bit is set; state = (phase, full, data) -/
def stutterMod : Mod (Bool × Bool × Nat) :=
  { init := (false, false, 0)
    out := fun s _ _ => (s.2.1, s.2.2)
    irdy := fun s _ _ _ => !s.2.1 && s.1
    next := fun s iv ip ordy =>
      if iv && (!s.2.1 && s.1) then (!s.1, true, ip)
      else if ordy then (!s.1, false, s.2.2) else (!s.1, s.2.1, s.2.2) }

/-- emits every accepted item twice; state = (remaining copies 0..2, data) -/
def dupMod : Mod (Nat × Nat) :=
  { init := (0, 0)
    out := fun s _ _ => (s.1 != 0, s.2)
    irdy := fun s _ _ _ => s.1 == 0
    next := fun s iv ip ordy =>
      if s.1 == 0 then (if iv then (2, ip) else s)
      else if ordy then (s.1 - 1, s.2) else s }

end TxV.Stream
