import Lean.Data.Json
import TxV.Model.Util
import TxV.Model.CoreProto
import TxV.Model.Simultaneous
/-!
Line-protocol front end of the C12/C13 model (shared by `Driver/C12.lean` and `Driver/C13.lean`).

* cfg line (JSON object):
  `{"pre":DESIGN,"post":DESIGN|null,"groups":[[ids]]|null,"rdy":[SRC],"uses":[USE],"en":[SRC],
    "args":[[k,w]],"pairs":[[a,b]],"conn":[{"w":id,"r":id}],"nin":n,"dins":[w],"nus":n}`
  `DESIGN` as in `Driver/Core.lean` plus per body `"sim":[ids]`, `"ind":[ids]` (pre-merge) and
  `"porder"` (post-merge, the order the real manager produced); `SRC = ["one"] | ["in",k] | ["not",SRC] | ["and",SRC,SRC]`;
  `USE = {"p":parent,"br":[branch ids],"conds":[k | -1],"nb":0|1,"prio":0|1}`.
  The PRE-merge design, the uses, `rdy`, `en`, `args` are the model's input; `post`/`groups` are what the
  real `_simultaneous` produced and are only compared with the model's output (`merge=`).
  answer: `reject kind=<SReject>` or
  `ok tr=<post-merge transactions> me=<methods> groups=<a,b|c,d> merge=<0|1> cond=<condOk for every use>
      cgr=<a-b,…> vo=<validOrder of porder> hyp=<Bridge.staticOk> shape12=<…> nbr=<…> shape13=<…>`
* valuation line `v i=<bit per input> d=<value per data input>` (`w …`: same without the expensive `hx`, `cons`, `hyp`)
  answer: `rdy=<ready per body> en=<enable per site> rn=<runnable per transaction> run=<run per body>
      arg=<arg per site> din=<data_in per method> res=<call result per user site>
      fix=<derived enables reached a fixed point> hx=<exclHolds> cons=<consistentEager> hyp=<Bridge.cycleOk|->
      link=<LinkEn> der=<DerEn> dflt=<DefaultReady for every use>`
-/
open TxV TxV.Proto TxV.CoreModel Lean
namespace TxV.SimulProto
open TxV.CoreProto (jNat jFlag jArr parseNats bitsOf showBits showNats)

/-- the decidable hypotheses of the theorems, supplied by the driver from the theory side -/
structure Checks (α : Type) where
  /-- whatever the checks want to precompute per design (the abstract design of the theory) -/
  prep : Design → Elab → List Nat → α
  staticOk : Design → Elab → List Nat → Bool
  cycleOk : Design → Elab → List Nat → Val → (Nat → Bool) → Bool
  shape12 : α → Simul.Use → List Nat → List (Nat × List Nat) → Bool
  nbr : α → Simul.Use → Bool
  shape13 : α → Nat → Nat → List Nat → List (Nat × List Nat) → Bool
  linkEn : α → Val → (Nat → Bool) → List Nat → Bool
  derEn : Val → (Nat → Bool) → List (Nat × List Nat) → Bool
  dflt : Val → Simul.Use → Bool

structure St (α : Type) where
  env : Simul.Env
  pre : α
  L : List Nat
  ts : List BodyId
  ms : List BodyId
  sp : List (SiteId × SiteId)
  bp : List (BodyId × BodyId)
  conn : List (Nat × Nat)
  nin : Nat
  ndin : Nat
  nSites : Nat
  /-- caller and callee of every user site (`none`: the site belongs to a dropped body) -/
  userCallee : List (Option (BodyId × BodyId))

def parseBodyS (j : Json) : Except String Body := do
  let b ← CoreProto.parseBody j
  let sim ← match j.getObjVal? "sim" with | .ok a => parseNats (← a.getArr?) | .error _ => pure []
  let ind ← match j.getObjVal? "ind" with | .ok a => parseNats (← a.getArr?) | .error _ => pure []
  return { b with simul := sim, indep := ind }

def parseDesignS (j : Json) : Except String Design := do
  let bodies ← (← jArr j "bodies").toList.mapM parseBodyS
  return ⟨bodies, ← parseNats (← jArr j "trans"), ← parseNats (← jArr j "meths")⟩

partial def parseSrc (j : Json) : Except String Simul.Src := do
  match (← j.getArr?).toList with
  | [k] => if (← k.getStr?) == "one" then return .one else throw "src"
  | [k, n] =>
    match ← k.getStr? with
    | "in" => return .inp (← n.getNat?)
    | "not" => return .not (← parseSrc n)
    | _ => throw "src"
  | [k, a, b] => if (← k.getStr?) == "and" then return .and (← parseSrc a) (← parseSrc b) else throw "src"
  | _ => throw "src"

def parseUse (j : Json) : Except String Simul.Use := do
  let conds ← (← jArr j "conds").toList.mapM fun c => do
    let i ← c.getInt?
    return if i < 0 then none else some i.toNat
  return { parent := ← jNat j "p", branches := ← parseNats (← jArr j "br"), conds := conds,
           nonblocking := ← jFlag j "nb", priority := ← jFlag j "prio" }

structure Cfg where
  pre : Design
  post : Option (Design × List Nat)
  groups : List (List Nat)
  rdy : List Simul.Src
  uses : List Simul.Use
  en : List Simul.Src
  args : List (Option (Nat × Nat))
  pairs : List (Nat × Nat)
  conn : List (Nat × Nat)
  nin : Nat
  ndin : Nat
  nus : Nat
  full : Bool

def parseCfg (line : String) : Except String Cfg := do
  let j ← Json.parse line
  let pre ← parseDesignS (← j.getObjVal? "pre")
  let pj ← j.getObjVal? "post"
  let post ← if pj.isNull then pure none else do
    let d ← parseDesignS pj
    let po ← parseNats (← jArr pj "porder")
    pure (some (d, po))
  let gj ← j.getObjVal? "groups"
  let groups ← if gj.isNull then pure [] else (← gj.getArr?).toList.mapM fun g => do parseNats (← g.getArr?)
  let rdy ← (← jArr j "rdy").toList.mapM parseSrc
  let uses ← (← jArr j "uses").toList.mapM parseUse
  let en ← (← jArr j "en").toList.mapM parseSrc
  let args ← (← jArr j "args").toList.mapM fun a => do
    match (← a.getArr?).toList with
    | [k, w] =>
      let k ← k.getInt?
      let w ← w.getNat?
      return if k < 0 then none else some (k.toNat, w)
    | _ => throw "args"
  let pairs ← (← jArr j "pairs").toList.mapM fun a => do
    match ← parseNats (← a.getArr?) with
    | [x, y] => return (x, y)
    | _ => throw "pairs"
  let conn ← (← jArr j "conn").toList.mapM fun c => do return (← jNat c "w", ← jNat c "r")
  return { pre, post, groups, rdy, uses, en, args, pairs, conn, nin := ← jNat j "nin",
           ndin := (← jArr j "dins").size, nus := ← jNat j "nus",
           full := match j.getObjVal? "full" with | .ok (Json.num n) => n.mantissa != 0 | _ => false }

/-! canonical comparison of the model's post-merge design with the extracted one -/

def insertCall (c : Call) : List Call → List Call
  | [] => [c]
  | h :: t => if c.site ≤ h.site then c :: h :: t else h :: insertCall c t

def sortCalls (l : List Call) : List Call := l.foldr insertCall []

def bodyEq (a b : Body) : Bool :=
  a.isTrans == b.isTrans && decide (a.defPath = b.defPath) && a.defOrder == b.defOrder &&
  a.nonexclusive == b.nonexclusive && a.singleCaller == b.singleCaller && decide (a.validate = b.validate) &&
  decide (a.combiner = b.combiner) && a.inW == b.inW && a.outW == b.outW && decide (a.outFn = b.outFn) &&
  decide (sortCalls a.calls = sortCalls b.calls) && decide (a.rels = b.rels) && a.simul == b.simul && a.indep == b.indep

def designEq (a b : Design) : Bool :=
  a.bodies.length == b.bodies.length && (a.bodies.zip b.bodies).all (fun (x, y) => bodyEq x y) &&
  a.transactions == b.transactions && a.methods == b.methods

def showGroups (g : List (List Nat)) : String :=
  if g.isEmpty then "-" else "|".intercalate (g.map showList)

def start {α : Type} (ck : Checks α) (cfg : Cfg) : Option (St α) × String :=
  match Simul.simultaneous cfg.pre cfg.nus with
  | .error k => (none, s!"reject kind={k.name}")
  | .ok out =>
    match elaborate out.D with
    | .error k => (none, s!"reject kind={k.name}")
    | .ok E =>
      let D := out.D
      let n := D.bodies.length
      let order := match cfg.post with | some (_, po) => po | none => []
      let merge := match cfg.post with
        | some (pd, _) => designEq D pd && out.groups == cfg.groups
        | none => false
      let cond := cfg.uses.all (Simul.condOk cfg.pre)
      let edges := E.g.edgeList n
      let cgr := if edges.isEmpty then "-" else ",".intercalate (edges.map fun (a, b) => s!"{a}-{b}")
      let vo := validOrder E.g.before D.transactions order
      let hyp := if cfg.full then showBool (ck.staticOk D E order) else "-"
      let pa := ck.prep D E order
      let L := Simul.linkSites D out.enDeps cfg.nus
      let s12 := cfg.uses.all fun u => ck.shape12 pa u L out.enDeps
      let nbr := cfg.uses.all fun u => !u.priority || ck.nbr pa u
      let s13 := cfg.pairs.all fun (a, b) => ck.shape13 pa a b L out.enDeps
      let env : Simul.Env := { pre := cfg.pre, out := out, E := E, order := order, uses := cfg.uses, rdy := cfg.rdy,
                               en := cfg.en, args := cfg.args, nus := cfg.nus }
      let ids := List.range n
      let nSites := cfg.nus + out.enDeps.length
      let userCallee := (List.range cfg.nus).map fun s => (D.allSites.find? (·.2.site == s)).map fun p => (p.1, p.2.callee)
      let st : St α :=
        ⟨env, pa, L, ids.filter D.transactions.contains, ids.filter D.methods.contains, exclSitePairs D, exclBodyPairs D,
          cfg.conn, cfg.nin, cfg.ndin, nSites, userCallee⟩
      (some st, s!"ok tr={showList D.transactions} me={showList D.methods} groups={showGroups out.groups} merge={showBool merge} cond={showBool cond} cgr={cgr} vo={showBool vo} hyp={hyp} shape12={showBool s12} nbr={showBool nbr} shape13={showBool s13}")

def evalLine {α : Type} (ck : Checks α) (st : St α) (t : List String) (full : Bool) : String :=
  let env := st.env
  let D := env.out.D
  let E := env.E
  let ib := bitsOf ((kv? t "i").getD "-")
  let dv := natListOf t "d"
  if ib.length != st.nin || dv.length != st.ndin then "bad-op"
  else
    let inp : Nat → Bool := fun k => ib.getD k false
    let dval : Nat → Nat := fun k => dv.getD k 0
    let r := env.evalCycle inp dval
    let v := r.v
    let rb : BodyId → Bool := fun b => r.rb.getD b false
    let n := D.bodies.length
    let ids := List.range n
    let rdy := ids.map v.ready
    let sites := List.range st.nSites
    let en := sites.map v.en
    let arg := sites.map v.arg
    let rn := st.ts.map (runnable D E v r.run)
    -- data is printed only where the property speaks about it: `data_in` of a running method, the
    -- result received by a running caller
    let din := st.ms.map fun m => if rb m then dataIn D E v rb m else 0
    let res := st.userCallee.map fun oc =>
      match oc with
      | none => 0
      | some (src, m) =>
        if !rb src then 0 else
        match st.conn.find? (fun (w, rd) => w == m || rd == m) with
        | some (w, rd) => if m == rd then Simul.connectReadOut D E v rb w else Simul.connectWriteOut D E v rb rd
        | none => 0
    let hyp := if full then showBool (ck.cycleOk D E env.order v r.run) else "-"
    let hx := if full then showBool (exclHoldsOn v st.sp st.bp) else "-"
    let cons := if full then showBool (consistentEager D E v env.order r.run) else "-"
    let link := ck.linkEn st.pre v rb st.L
    let der := ck.derEn v rb env.out.enDeps
    let dflt := env.uses.all (ck.dflt v)
    s!"rdy={showBits rdy} en={showBits en} rn={showBits rn} run={showBits r.rb} arg={showNats arg} din={showNats din} res={showNats res} fix={showBool r.fixed} hx={hx} cons={cons} hyp={hyp} link={showBool link} der={showBool der} dflt={showBool dflt}"

def stepLine {α : Type} (ck : Checks α) (st : Option (St α)) (line : String) : Option (St α) × String :=
  let line := line.trimAscii.toString
  if line.startsWith "{" then
    match parseCfg line with
    | .error e => (none, s!"bad-op json {e}")
    | .ok cfg => start ck cfg
  else
    let t := tokens line
    match t.head?, st with
    | some "v", some st => (some st, evalLine ck st t true)
    | some "w", some st => (some st, evalLine ck st t false)
    | _, _ => (st, "bad-op")

end TxV.SimulProto
