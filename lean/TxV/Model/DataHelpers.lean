import TxV.Model.Util
/-!
Models of the data helpers of C41:

* `transactron/utils/data_repr.py`: `int_to_signed` (:124-139), `signed_to_int` (:142-157),
  `align_to_power_of_two` (:41-59), `align_down_to_power_of_two` (:62-79), `make_hashable` (:26-38);
* `transactron/utils/amaranth_ext/data.py`: `transpose_layout_with_keys` (:71-128), `transpose` (:139-170).

Python integers are unbounded two's-complement numbers; `pyAnd`, `pyOr`, `pyNot` are Python's `&`, `|`,
`~` on `Int` (the usual sign-case definition through bitwise operations on naturals).
-/
namespace TxV.DataHelpers

/-! ## Python's bitwise operators on unbounded integers -/

/-- `m & ~n` on naturals -/
def ldiff (m n : Nat) : Nat := Nat.bitwise (fun a b => a && !b) m n

/-- Python `x & y` -/
def pyAnd : Int → Int → Int
  | .ofNat m, .ofNat n => ((m &&& n : Nat) : Int)
  | .ofNat m, .negSucc n => ((ldiff m n : Nat) : Int)
  | .negSucc m, .ofNat n => ((ldiff n m : Nat) : Int)
  | .negSucc m, .negSucc n => .negSucc (m ||| n)

/-- Python `x | y` -/
def pyOr : Int → Int → Int
  | .ofNat m, .ofNat n => ((m ||| n : Nat) : Int)
  | .ofNat m, .negSucc n => .negSucc (ldiff n m)
  | .negSucc m, .ofNat n => .negSucc (ldiff m n)
  | .negSucc m, .negSucc n => .negSucc (m &&& n)

/-- Python `~x` -/
def pyNot (x : Int) : Int := -x - 1

/-! ## numeric helpers -/

/-- data_repr.py:139  `x & (2**xlen - 1)` -/
def intToSigned (x : Int) (xlen : Nat) : Int := pyAnd x (2 ^ xlen - 1)

/-- data_repr.py:157  `x | -(x & (2 ** (xlen - 1)))`; for `xlen = 0` Python computes `2 ** -1 = 0.5` and
    `int & float` raises `TypeError` (`none`) -/
def signedToInt (x : Int) (xlen : Nat) : Option Int :=
  if xlen = 0 then none else some (pyOr x (-(pyAnd x (2 ^ (xlen - 1)))))

/-- data_repr.py:56-59 -/
def alignUp (num : Int) (power : Nat) : Int :=
  let mask : Int := 2 ^ power - 1
  if pyAnd num mask = 0 then num else pyAnd num (pyNot mask) + 2 ^ power

/-- data_repr.py:77-79 -/
def alignDown (num : Int) (power : Nat) : Int :=
  let mask : Int := 2 ^ power - 1
  pyAnd num (pyNot mask)

/-! ## make_hashable over a JSON-like value type -/

mutual
/-- Python values: scalars, tuples, lists, dicts (insertion-ordered pairs), sets and frozensets
    (in iteration order) -/
inductive PyVal
  | int (n : Int)
  | str (s : String)
  | tuple (l : PyList)
  | list (l : PyList)
  | dict (l : PyPairs)
  | set (l : PyList)
  | fset (l : PyList)
inductive PyList
  | nil
  | cons (h : PyVal) (t : PyList)
inductive PyPairs
  | nil
  | cons (k : PyVal) (v : PyVal) (t : PyPairs)
end

def PyList.length : PyList → Nat
  | .nil => 0
  | .cons _ t => t.length + 1

def PyPairs.length : PyPairs → Nat
  | .nil => 0
  | .cons _ _ t => t.length + 1

def PyList.any (f : PyVal → Bool) : PyList → Bool
  | .nil => false
  | .cons h t => f h || t.any f

def PyPairs.any (f : PyVal → PyVal → Bool) : PyPairs → Bool
  | .nil => false
  | .cons k v t => f k v || t.any f

mutual
/-- Python `a == b` on these values: sequences element-wise (a list never equals a tuple), sets and
    frozensets by `len(a) == len(b) and all(x in b for x in a)` (a set may equal a frozenset), dicts by
    `len(a) == len(b) and all(k in b and a[k] == b[k] for k in a)` -/
def pyEq : PyVal → PyVal → Bool
  | .int a, .int b => a == b
  | .str a, .str b => a == b
  | .tuple l1, .tuple l2 => eqList l1 l2
  | .list l1, .list l2 => eqList l1 l2
  | .dict l1, .dict l2 => l1.length == l2.length && subDict l1 l2
  | .set l1, .set l2 => l1.length == l2.length && subList l1 l2
  | .set l1, .fset l2 => l1.length == l2.length && subList l1 l2
  | .fset l1, .set l2 => l1.length == l2.length && subList l1 l2
  | .fset l1, .fset l2 => l1.length == l2.length && subList l1 l2
  | _, _ => false
def eqList : PyList → PyList → Bool
  | .nil, .nil => true
  | .cons a t, .cons b u => pyEq a b && eqList t u
  | _, _ => false
def subList : PyList → PyList → Bool
  | .nil, _ => true
  | .cons x t, l2 => l2.any (fun y => pyEq x y) && subList t l2
def subDict : PyPairs → PyPairs → Bool
  | .nil, _ => true
  | .cons k v t, l2 => l2.any (fun k' v' => pyEq k k' && pyEq v v') && subDict t l2
end

mutual
/-- does `hash(val)` succeed -/
def hashable : PyVal → Bool
  | .int _ => true
  | .str _ => true
  | .tuple l => hashableList l
  | .fset _ => true
  | .list _ => false
  | .dict _ => false
  | .set _ => false
def hashableList : PyList → Bool
  | .nil => true
  | .cons h t => hashable h && hashableList t
end

mutual
/-- data_repr.py:26-38 (with the `Set` branch of commit 443ec9f) -/
def makeHashable : PyVal → PyVal
  | .int n => .int n                                   -- hash(val) succeeds: returned as is
  | .str s => .str s
  | .fset l => .fset l
  | .tuple l => if hashableList l then .tuple l else .tuple (mhList l)   -- Iterable branch
  | .dict l => .fset (mhPairs l)                        -- Mapping branch
  | .set l => .fset l                                   -- Set branch
  | .list l => .tuple (mhList l)                        -- Iterable branch
def mhList : PyList → PyList
  | .nil => .nil
  | .cons h t => .cons (makeHashable h) (mhList t)
/-- `((k, make_hashable(v)) for k, v in val.items())` -/
def mhPairs : PyPairs → PyList
  | .nil => .nil
  | .cons k v t => .cons (.tuple (.cons k (.cons (makeHashable v) .nil))) (mhPairs t)
end

/-! ## two-level layouts and `transpose` -/

/-- a third-level shape: only its bit width matters here; `tag` tells shapes of equal width apart -/
structure Leaf where
  w : Nat
  tag : Nat
deriving Repr, DecidableEq

inductive Key
  | name (s : String)
  | idx (i : Nat)
deriving Repr, DecidableEq

/-- one level of an Amaranth layout with member shapes `σ` -/
inductive Lay (σ : Type)
  | struct (fs : List (String × σ))      -- StructLayout (members in definition order)
  | array (e : σ) (n : Nat)              -- ArrayLayout
  | other (w : Nat)                      -- anything else (a plain shape, UnionLayout, FlexibleLayout)
deriving Repr, DecidableEq

/-- `iter(layout)`: keys with member shapes, in order -/
def Lay.fields {σ} : Lay σ → List (Key × σ)
  | .struct fs => fs.map fun p => (.name p.1, p.2)
  | .array e n => (List.range n).map fun i => (.idx i, e)
  | .other _ => []

/-- `layout_keys` (data.py:25-41) -/
def Lay.keys {σ} (l : Lay σ) : List Key := l.fields.map (·.1)

/-- `layout[key].shape` -/
def Lay.lookup {σ} (l : Lay σ) (k : Key) : Option σ := l.fields.lookup k

def Lay.isAS {σ} : Lay σ → Bool
  | .other _ => false
  | _ => true

/-- size in bits: members are packed without gaps (Struct: sum of the member sizes, Array: n · element size) -/
def Lay.size {σ} (sz : σ → Nat) : Lay σ → Nat
  | .other w => w
  | l => (l.fields.map fun p => sz p.2).sum

abbrev Inner := Lay Leaf
abbrev Outer := Lay Inner

def innerSize (l : Inner) : Nat := l.size Leaf.w
def outerSize (l : Outer) : Nat := l.size innerSize

/-- all results of a comprehension, unless one of its members raised -/
def allSome {α} : List (Option α) → Option (List α)
  | [] => some []
  | none :: _ => none
  | some a :: t => (allSome t).map (a :: ·)

/-- one member of `{k: cont(k) for k in nkeys}` (the keys were cast to `list[str]`) -/
def structEntry {σ} (cont : Key → Option σ) (k : Key) : Option (String × σ) :=
  match k with
  | Key.name s => (cont k).map fun x => (s, x)
  | Key.idx _ => none

/-- `mk_layout` (data.py:119-124): string keys give a StructLayout, integer keys an ArrayLayout of
    `cont(0)`.  `cont` is partial because `layout[key]` may raise. -/
def mkLayout {σ} (keys : List Key) (cont : Key → Option σ) : Option (Lay σ) :=
  match keys with
  | [] => none
  | Key.name _ :: _ =>
    (allSome (keys.map (structEntry cont))).map Lay.struct
  | Key.idx _ :: _ => (cont (Key.idx 0)).map fun e => Lay.array e keys.length

inductive TErr
  | notArrayOrStruct | noFields | fieldsNotLayouts | fieldsNoFields | differentKeys   -- the five ValueErrors
  | internal                                                                          -- a lookup failed (never: `c41_transpose_total`)
deriving Repr, DecidableEq

/-- `transpose_layout_with_keys` (data.py:103-128) -/
def transposeLayout (l : Outer) : Except TErr (Outer × List Key × List Key) :=
  if !l.isAS then .error .notArrayOrStruct
  else
    let oKeys := l.keys
    if oKeys.isEmpty then .error .noFields
    else if !(l.fields.all fun p => p.2.isAS) then .error .fieldsNotLayouts
    else
      match l.fields.head? with
      | none => .error .internal
      | some first =>
        let iKeys := first.2.keys
        if iKeys.isEmpty then .error .fieldsNoFields
        else if !(l.fields.all fun p => p.2.keys == iKeys) then .error .differentKeys
        else
          match mkLayout iKeys (fun i => mkLayout oKeys (fun o => (l.lookup o).bind (·.lookup i))) with
          | some r => .ok (r, oKeys, iKeys)
          | none => .error .internal

/-- bits `[off, off+len)` of a value (LSB first) -/
def slice (v : List Bool) (off len : Nat) : List Bool := (v.drop off).take len

/-- offset and shape of member `k`: offsets are the running sum of the sizes of the earlier members -/
def fieldAt {σ} (sz : σ → Nat) : List (Key × σ) → Key → Option (Nat × σ)
  | [], _ => none
  | (k', s) :: rest, k =>
    if k' = k then some (0, s)
    else (fieldAt sz rest k).map fun p => (sz s + p.1, p.2)

/-- `view[k]`: the member's shape and its bits -/
def getField {σ} (sz : σ → Nat) (l : Lay σ) (v : List Bool) (k : Key) : Option (σ × List Bool) :=
  (fieldAt sz l.fields k).map fun p => (p.2, slice v p.1 (sz p.2))

/-- `view[o][i]` -/
def getPath (l : Outer) (v : List Bool) (o i : Key) : Option (Leaf × List Bool) :=
  (getField innerSize l v o).bind fun p => getField Leaf.w p.1 p.2 i

/-- `Cat(Value.cast(view[o_key][i_key]) for i_key in i_keys for o_key in o_keys)` (data.py:169) -/
def transposeVal (l : Outer) (oKeys iKeys : List Key) (v : List Bool) : Option (List Bool) :=
  (allSome (iKeys.map fun i =>
    (allSome (oKeys.map fun o => (getPath l v o i).map (·.2))).map List.flatten)).map List.flatten

/-- `transpose(view)`: the transposed layout and the bits of the new view -/
def transpose (l : Outer) (v : List Bool) : Except TErr (Outer × List Bool) :=
  match transposeLayout l with
  | .error e => .error e
  | .ok (r, oKeys, iKeys) =>
    match transposeVal l oKeys iKeys v with
    | some bits => .ok (r, bits)
    | none => .error .internal

end TxV.DataHelpers
