import TxV.Model.Metrics
/-!
Models of the latency measurers of `transactron/lib/metrics.py` (metrics enabled):

* `WideFIFOLatencyMeasurer`  metrics.py:521-629
* `FIFOLatencyMeasurer`      metrics.py:662-725  (= the wide one with all counts 1)
* `TaggedLatencyMeasurer`    metrics.py:754-847

One `step` = one clock cycle.  Both machines are written once, generically in how time is
kept (`wrap`, applied to the incremented time stamp) and how a duration is computed (`dur
now stored`):

* the *implementation model* keeps the `epoch_width`-bit free-running `epoch` register
  (`wrap = (· % 2^ew)`) and computes `(epoch - stored).as_unsigned()[:-1]` (`durHW`);
* the *specification* keeps the true cycle number (`wrap = id`) and computes `now - stored`.

The start-epoch storage of the FIFO measurers (one `WideFifo` per way, C15) is modelled by its
abstract queue: a list of stored stamps, oldest first, with `WideFifo`'s acceptance rules
(fifo.py:303-345); the slot memory of the tagged measurer (an `AsyncMemoryBank`, C22) by a
list indexed by slot (asynchronous read = contents before the edge).  The histogram is the
C31 model, fed with one optional sample per histogram way.
-/
namespace TxV.Latency
open TxV.Metrics

/-- `amaranth.utils.bits_for` of a non-negative number -/
def bitsFor (n : Nat) : Nat := if n = 0 then 1 else Nat.log2 n + 1

/-- metrics.py:626 / 844 : `(epoch - stored)` is an `(ew+1)`-bit unsigned difference whose
    most significant bit is discarded -/
def durHW (ew : Nat) (now stored : Nat) : Nat := ((now + 2 ^ (ew + 1) - stored) % 2 ^ (ew + 1)) % 2 ^ ew

/-- the true duration -/
def durTrue (now stored : Nat) : Nat := now - stored

/-! ### (Wide)FIFOLatencyMeasurer -/

structure Cfg where
  slotsReq : Nat   -- slots_number as passed to the constructor
  msta : Nat       -- max_start_count  (write width of the fifo)
  msto : Nat       -- max_stop_count   (read width of the fifo)
  maxLat : Nat     -- max_latency
deriving Repr

/-- metrics.py:576-578 : rounded up to a multiple of `max(max_start_count, max_stop_count)` -/
def Cfg.slots (c : Cfg) : Nat :=
  let mc := Nat.max c.msta c.msto
  (c.slotsReq + (mc - 1)) / mc * mc

def Cfg.ew (c : Cfg) : Nat := bitsFor c.maxLat                     -- metrics.py:599
/-- metrics.py:584-591 : histogram parameters (registers_width defaults to 32) -/
def Cfg.hcfg (c : Cfg) : HCfg := { n := bitsFor c.maxLat + 1, sw := bitsFor c.maxLat, rw := 32 }

/-- what one way does in one cycle -/
structure WayOut where
  startDone : Bool
  stopDone : Bool
  popped : List Nat     -- stamps of the events finished by this cycle's stop, oldest first
  q : List Nat          -- the queue after the edge
deriving Repr, DecidableEq

/-- One way: `start = some n` attempts `start(count=n)`, `stop = some n` attempts `stop(count=n)`.
    * `write` (fifo.py:324): ready iff `remaining != 0`, argument validation `count <= remaining`;
      appends `count` copies of the current stamp (metrics.py:616).
    * `read` (fifo.py:345): ready iff `level != 0`; removes `min(count, read_available)` entries,
      `read_available = min(level, read_width)` (fifo.py:299, 347).
    Both see the level before the edge. -/
def wayStep (slots msto stamp : Nat) (q : List Nat) (start stop : Option Nat) : WayOut :=
  let level := q.length
  let remaining := slots - level
  let accStart := start.filter fun n => remaining != 0 && decide (n ≤ remaining)
  let accStop := stop.filter fun _ => level != 0
  let rc := accStop.elim 0 fun n => Nat.min n (Nat.min level msto)
  { startDone := accStart.isSome
    stopDone := accStop.isSome
    popped := q.take rc
    q := q.drop rc ++ accStart.elim [] fun n => List.replicate n stamp }

/-- metrics.py:621-627 : histogram way `k * max_stop_count + i` is called with the duration of the
    `i`-th returned entry when `i < ret.count` -/
def wayAdds (msto : Nat) (dur : Nat → Nat) (o : WayOut) : List (Option Nat) :=
  (o.popped.map fun t => some (dur t)) ++ List.replicate (msto - o.popped.length) none

structure Core where
  now : Nat                 -- epoch register / true time
  qs : List (List Nat)      -- one queue per way
deriving Repr, DecidableEq

abbrev WayIn := Option Nat × Option Nat     -- (start count, stop count)

def coreOuts (slots msto : Nat) (s : Core) (ins : List WayIn) : List WayOut :=
  List.zipWith (fun q i => wayStep slots msto s.now q i.1 i.2) s.qs ins

def coreAdds (msto : Nat) (dur : Nat → Nat → Nat) (s : Core) (outs : List WayOut) : List (Option Nat) :=
  (outs.map (wayAdds msto (dur s.now))).flatten

def coreNext (wrap : Nat → Nat) (s : Core) (outs : List WayOut) : Core :=
  { now := wrap (s.now + 1), qs := outs.map (·.q) }                  -- metrics.py:612

/-- the per-cycle histogram inputs produced by a history -/
def coreRunAdds (slots msto : Nat) (wrap : Nat → Nat) (dur : Nat → Nat → Nat) :
    Core → List (List WayIn) → List (List (Option Nat))
  | _, [] => []
  | s, ins :: h =>
    let outs := coreOuts slots msto s ins
    coreAdds msto dur s outs :: coreRunAdds slots msto wrap dur (coreNext wrap s outs) h

def coreRun (slots msto : Nat) (wrap : Nat → Nat) : Core → List (List WayIn) → Core
  | s, [] => s
  | s, ins :: h => coreRun slots msto wrap (coreNext wrap s (coreOuts slots msto s ins)) h

def coreInit (ways : Nat) : Core := { now := 0, qs := List.replicate ways [] }

/-- the implementation model: `epoch` register, queues of epochs, histogram -/
structure State where
  core : Core
  hist : Hist
deriving Repr, DecidableEq

def wrapHW (ew : Nat) (x : Nat) : Nat := x % 2 ^ ew

def init (c : Cfg) (ways : Nat) : State := { core := coreInit ways, hist := c.hcfg.init }

def step (c : Cfg) (s : State) (ins : List WayIn) : State :=
  let outs := coreOuts c.slots c.msto s.core ins
  { core := coreNext (wrapHW c.ew) s.core outs
    hist := c.hcfg.step s.hist (coreAdds c.msto (durHW c.ew) s.core outs) }

def run (c : Cfg) (s : State) (h : List (List WayIn)) : State := h.foldl (step c) s

/-! ### TaggedLatencyMeasurer -/

structure TCfg where
  slots : Nat
  maxLat : Nat
deriving Repr

def TCfg.ew (c : TCfg) : Nat := bitsFor c.maxLat
def TCfg.hcfg (c : TCfg) : HCfg := { n := bitsFor c.maxLat + 1, sw := bitsFor c.maxLat, rw := 32 }

structure TCore where
  now : Nat
  mem : List Nat       -- slot memory, one stamp per slot (reset: 0)
deriving Repr, DecidableEq

abbrev TWayIn := Option Nat × Option Nat    -- (start slot, stop slot); both always execute

/-- metrics.py:841-845 : asynchronous read of the slot, duration to histogram way `k` -/
def tAdds (dur : Nat → Nat → Nat) (s : TCore) (ins : List TWayIn) : List (Option Nat) :=
  ins.map fun i => i.2.bind fun slot => s.mem[slot]?.map (dur s.now)

/-- metrics.py:835 : write port `k` stores the current stamp at `slot`
    (ports in way order; distinct slots in one cycle is an environment hypothesis) -/
def tWrite (s : TCore) (ins : List TWayIn) : List Nat :=
  ins.foldl (fun m i => i.1.elim m fun slot => m.set slot s.now) s.mem

def tNext (wrap : Nat → Nat) (s : TCore) (ins : List TWayIn) : TCore :=
  { now := wrap (s.now + 1), mem := tWrite s ins }

def tRunAdds (wrap : Nat → Nat) (dur : Nat → Nat → Nat) : TCore → List (List TWayIn) → List (List (Option Nat))
  | _, [] => []
  | s, ins :: h => tAdds dur s ins :: tRunAdds wrap dur (tNext wrap s ins) h

def tRun (wrap : Nat → Nat) : TCore → List (List TWayIn) → TCore
  | s, [] => s
  | s, ins :: h => tRun wrap (tNext wrap s ins) h

def tCoreInit (slots : Nat) : TCore := { now := 0, mem := List.replicate slots 0 }

structure TState where
  core : TCore
  hist : Hist
deriving Repr, DecidableEq

def tInit (c : TCfg) : TState := { core := tCoreInit c.slots, hist := c.hcfg.init }

def tStep (c : TCfg) (s : TState) (ins : List TWayIn) : TState :=
  { core := tNext (wrapHW c.ew) s.core ins
    hist := c.hcfg.step s.hist (tAdds (durHW c.ew) s.core ins) }

def tRunState (c : TCfg) (s : TState) (h : List (List TWayIn)) : TState := h.foldl (tStep c) s

end TxV.Latency
