import TxV.Model.Util
/-!
Model of `transactron.lib.fifo.WideFifo` (transactron/lib/fifo.py:149-356) and of the
helpers it uses (`mod_incr`, functions.py:47-55; `rotate_left`, `rotate_vec_left`,
`rotate_vec_right`, shifter.py:25-75, 164-185, 199-247, 384-433).

One `step` = one clock cycle.  The environment attempts calls (one `AdapterTrans` with
`en = 1` per method); the model says which of them execute, what `read`/`peek` return and
what the registers hold after the edge.  The four methods have no conflicts with each other
(`peek` and `clear` are nonexclusive), so every subset of them can execute in one cycle;
all readiness conditions, `read_available` and the validation of `write` are functions of
the *pre-edge* `level`, and the later `m.d.sync` assignments of `clear` win over those of
`read`/`write` (fifo.py:350-354).

The storage is transcribed as it is built: `col_count` memories of `row_count` rows, each
with a write port and a synchronous read port that is transparent for that write port;
the data registers of the read ports (`rd`) are part of the state.

`Spec` (at the end of the file) is the abstract bounded queue with batched operations the
component is proved to refine (`TxV/Props/C15.lean`); it is reused by C32.
Core Lean only.
-/
namespace TxV.WideFifo

/-! ### configuration -/

/-- constructor arguments `WideFifo(shape, depth, read_width, write_width, write_max_count=…)`;
    the data shape does not matter for the control logic (data are `Nat`s that fit) -/
structure Cfg where
  depth : Nat
  rw : Nat
  ww : Nat
  useMax : Bool
deriving Repr, DecidableEq

/-- `col_count = max(read_width, write_width)` (fifo.py:223) -/
def Cfg.cols (c : Cfg) : Nat := max c.rw c.ww
/-- `row_count = depth // col_count` (fifo.py:254-256) -/
def Cfg.rows (c : Cfg) : Nat := c.depth / c.cols
/-- `col_count * row_count` — the number of cells, what `remaining` is computed from (fifo.py:294) -/
def Cfg.cap (c : Cfg) : Nat := c.cols * c.rows

/-- the constructor accepts the configuration (fifo.py:226-227) -/
def Cfg.valid (c : Cfg) : Bool := c.depth % c.cols == 0

/-- width of `Signal(range(n + 1))`, i.e. Amaranth's `bits_for(n)` -/
def bitsFor (n : Nat) : Nat := if n = 0 then 0 else Nat.log2 n + 1

/-! ### helpers from `transactron.utils.amaranth_ext` -/

/-- `mod_incr(sig, mod)` (functions.py:47-55): a mask for powers of two, a `Mux` otherwise -/
def modIncr (sig mod : Nat) : Nat :=
  if mod &&& (mod - 1) = 0 then (sig + 1) &&& (mod - 1)
  else if sig = mod - 1 then 0 else sig + 1

/-- `generic_shift_right(v, v, off)` = `Cat(v, v).bit_select(off, len(v))` (shifter.py:50, 161)
    and, entry-wise, `generic_shift_vec_right(d, d, off)` = `rotate_vec_right(d, off)`
    (shifter.py:236-247, 404): entry `i` of the result is entry `off + i` of `d ++ d`;
    `bit_select` beyond the end of the operand reads zeros (`z`). -/
def rotRight {α} (z : α) (l : List α) (off : Nat) : List α :=
  (List.range l.length).map fun i => (l ++ l).getD (off + i) z

/-- `generic_shift_left(v, v, off)` / `generic_shift_vec_left(d, d, off)` (shifter.py:75, 288):
    reverse, rotate right, reverse -/
def rotLeft {α} (z : α) (l : List α) (off : Nat) : List α :=
  (rotRight z l.reverse off).reverse

/-! ### state, inputs, outputs -/

/-- `idx_layout` (fifo.py:241-243) -/
structure Idx where
  row : Nat
  col : Nat
deriving Repr, DecidableEq

structure State where
  ridx : Idx                 -- `read_idx`
  widx : Idx                 -- `write_idx`
  level : Nat                -- `level`
  mem : List (List Nat)      -- `_storage[col][row]`
  rd : List Nat              -- data registers of the synchronous read ports, one per column
deriving Repr, DecidableEq

/-- argument of `write` (`write_layout`, fifo.py:237-240); `maxCount` is ignored unless `useMax` -/
structure WArg where
  count : Nat
  maxCount : Nat
  data : List Nat            -- `write_width` entries
deriving Repr, DecidableEq

/-- attempted calls of a cycle -/
structure In where
  read : Option Nat          -- `read(count)`
  peek : Bool
  write : Option WArg
  clear : Bool
deriving Repr, DecidableEq

/-- result of `read`/`peek` (`read_layout`): `data` always has `read_width` entries, of which
    the first `count` are meaningful -/
structure RRes where
  count : Nat
  data : List Nat
deriving Repr, DecidableEq

/-- executed calls of a cycle and their results -/
structure Out where
  read : Option RRes
  peek : Option RRes
  write : Bool
  clear : Bool
deriving Repr, DecidableEq

def init (c : Cfg) : State :=
  { ridx := ⟨0, 0⟩, widx := ⟨0, 0⟩, level := 0,
    mem := List.replicate c.cols (List.replicate c.rows 0),
    rd := List.replicate c.cols 0 }

/-! ### combinational signals (fifo.py:284-320) -/

/-- width of `level` and `remaining`: `Signal(range(col_count * row_count + 1))` -/
def lvlBits (c : Cfg) : Nat := bitsFor c.cap

/-- `remaining = col_count * row_count - level`, truncated on assignment to the unsigned
    signal (fifo.py:294); `level` is a register of `lvlBits` bits, so `level < 2 ^ lvlBits`;
    equals `cap - level` whenever `level ≤ cap` -/
def remaining (c : Cfg) (s : State) : Nat :=
  (c.cap + 2 ^ lvlBits c - s.level) % 2 ^ lvlBits c

/-- `read_available = Mux(level > read_width, read_width, level)` (fifo.py:296) -/
def readAvail (c : Cfg) (s : State) : Nat := if s.level > c.rw then c.rw else s.level

/-- address of read/write port `i` for the pointer `idx`:
    `Mux(i >= idx.col, idx.row, mod_incr(idx.row, row_count))` (fifo.py:299-303) -/
def portAddr (c : Cfg) (idx : Idx) (i : Nat) : Nat :=
  if i ≥ idx.col then idx.row else modIncr idx.row c.rows

/-- `head = rotate_vec_right(read_data, read_idx.col)[:read_width]` (fifo.py:305-306) -/
def head (c : Cfg) (s : State) : List Nat := (rotRight 0 s.rd s.ridx.col).take c.rw

/-- `incr_row_col(idx, mod_incr(idx.row, row_count), count)` (fifo.py:312-320); the column
    `idx.col + count - col_count` is truncated to the width of `Signal(range(col_count))` -/
def incrRowCol (c : Cfg) (idx : Idx) (count : Nat) : Idx :=
  if idx.col + count ≥ c.cols then
    { row := modIncr idx.row c.rows, col := (idx.col + count - c.cols) % 2 ^ bitsFor (c.cols - 1) }
  else
    { row := idx.row, col := idx.col + count }

/-! ### the methods -/

def readReady (_c : Cfg) (s : State) : Bool := s.level != 0                       -- fifo.py:342
def peekReady (_c : Cfg) (s : State) : Bool := s.level != 0                       -- fifo.py:348
def writeReady (c : Cfg) (s : State) : Bool := remaining c s != 0                 -- fifo.py:327

/-- `validate_write` (fifo.py:322-325) -/
def writeValid (c : Cfg) (s : State) (a : WArg) : Bool :=
  (if c.useMax then a.maxCount else a.count) ≤ remaining c s

def readRuns (c : Cfg) (s : State) (i : In) : Bool := i.read.isSome && readReady c s
def peekRuns (c : Cfg) (s : State) (i : In) : Bool := i.peek && peekReady c s
def writeRuns (c : Cfg) (s : State) (i : In) : Bool :=
  match i.write with
  | some a => writeReady c s && writeValid c s a
  | none => false

/-- `read_count` (fifo.py:344; 0 when `read` does not execute) -/
def readCount (c : Cfg) (s : State) (i : In) : Nat :=
  match i.read with
  | some n => if readReady c s then (if n > readAvail c s then readAvail c s else n) else 0
  | none => 0

/-- `write_count` (fifo.py:338; 0 when `write` does not execute) -/
def writeCount (c : Cfg) (s : State) (i : In) : Nat :=
  match i.write with
  | some a => if writeRuns c s i then a.count else 0
  | none => 0

/-- `next_read_idx` (fifo.py:341-346) -/
def nextRidx (c : Cfg) (s : State) (i : In) : Idx :=
  if readRuns c s i then incrRowCol c s.ridx (readCount c s i) else s.ridx

/-- `ens = Cat(i < count for i in range(col_count))` rotated left by `write_idx.col`
    (fifo.py:334-336): write enable of port `k` -/
def wEn (c : Cfg) (s : State) (a : WArg) : List Bool :=
  rotLeft false ((List.range c.cols).map fun j => decide (j < a.count)) s.widx.col

/-- `shifted_data = rotate_vec_left(data ++ zeros, write_idx.col)` (fifo.py:332-333): data of port `k` -/
def wData (c : Cfg) (s : State) (a : WArg) : List Nat :=
  rotLeft 0 (a.data ++ List.replicate (c.cols - c.ww) 0) s.widx.col

/-- column `k` of the storage after the edge -/
def colAfter (c : Cfg) (s : State) (i : In) (k : Nat) : List Nat :=
  let old := s.mem.getD k []
  match i.write with
  | some a =>
    if writeRuns c s i && (wEn c s a).getD k false
    then old.set (portAddr c s.widx k) ((wData c s a).getD k 0)
    else old
  | none => old

/-- data register of read port `k` after the edge: the row addressed through `next_read_idx`,
    or the data being written when the write port of the same column writes that row
    (`transparent_for`, fifo.py:263-265, 299-300) -/
def rdAfter (c : Cfg) (s : State) (i : In) (k : Nat) : Nat :=
  let ra := portAddr c (nextRidx c s i) k
  let old := (s.mem.getD k []).getD ra 0
  match i.write with
  | some a =>
    if writeRuns c s i && (wEn c s a).getD k false && portAddr c s.widx k == ra
    then (wData c s a).getD k 0
    else old
  | none => old

/-- one clock cycle -/
def step (c : Cfg) (s : State) (i : In) : State × Out :=
  let rrun := readRuns c s i
  let rc := readCount c s i
  let wc := writeCount c s i
  let mem' := (List.range c.cols).map (colAfter c s i)
  let rd' := (List.range c.cols).map (rdAfter c s i)
  -- fifo.py:293  `level.eq(level - read_count + write_count)`, truncated on assignment
  let level' := (s.level - rc + wc) % 2 ^ lvlBits c
  let widx' := if writeRuns c s i then incrRowCol c s.widx wc else s.widx      -- fifo.py:339
  let s' : State :=
    if i.clear then { ridx := ⟨0, 0⟩, widx := ⟨0, 0⟩, level := 0, mem := mem', rd := rd' }   -- fifo.py:350-354
    else { ridx := nextRidx c s i, widx := widx', level := level', mem := mem', rd := rd' }
  (s', { read := if rrun then some ⟨rc, head c s⟩ else none,                   -- fifo.py:346
         peek := if peekRuns c s i then some ⟨readAvail c s, head c s⟩ else none,   -- fifo.py:349
         write := writeRuns c s i,
         clear := i.clear })

/-- run a history, collecting the outputs of each cycle -/
def run (c : Cfg) (s : State) : List In → State × List Out
  | [] => (s, [])
  | i :: is =>
    let (s', o) := step c s i
    let (s'', os) := run c s' is
    (s'', o :: os)

/-! ### the abstract specification: a bounded queue with batched operations

State: the list of stored elements, oldest first.  All decisions are taken on the queue
as it is at the beginning of the cycle; `read` removes, then `write` appends, then `clear`
empties. -/
namespace Spec

/-- what the executed calls of a cycle return -/
structure Out where
  read : Option (List Nat)     -- the removed elements (their number is the returned `count`)
  peek : Option (List Nat)
  write : Bool
  clear : Bool
deriving Repr, DecidableEq

/-- free slots -/
def remaining (c : Cfg) (q : List Nat) : Nat := c.depth - q.length

/-- `write` executes: space remains and the call fits (`max_count` when configured, else `count`) -/
def writeRuns (c : Cfg) (q : List Nat) (i : In) : Bool :=
  match i.write with
  | some a => remaining c q != 0 && decide ((if c.useMax then a.maxCount else a.count) ≤ remaining c q)
  | none => false

/-- number of elements the `read` of this cycle removes: `min(count, level, read_width)`
    (0 if `read` is not called; on the empty queue, where `read` does not execute, it is 0 anyway) -/
def readN (c : Cfg) (q : List Nat) (i : In) : Nat :=
  match i.read with
  | some n => min n (min q.length c.rw)
  | none => 0

/-- the elements the `write` of this cycle appends: the first `count` data words, if it executes -/
def written (c : Cfg) (q : List Nat) (i : In) : List Nat :=
  match i.write with
  | some a => if writeRuns c q i then a.data.take a.count else []
  | none => []

def step (c : Cfg) (q : List Nat) (i : In) : List Nat × Out :=
  let n := readN c q i
  (if i.clear then [] else q.drop n ++ written c q i,
   { read := if i.read.isSome && !q.isEmpty then some (q.take n) else none,
     peek := if i.peek && !q.isEmpty then some (q.take c.rw) else none,
     write := writeRuns c q i,
     clear := i.clear })

def run (c : Cfg) (q : List Nat) : List In → List Nat × List Out
  | [] => (q, [])
  | i :: is =>
    let (q', o) := step c q i
    let (q'', os) := run c q' is
    (q'', o :: os)

end Spec

end TxV.WideFifo
