import Lean.Data.Json
import TxV.Model.Util
import TxV.Model.Sched
/-!
Line-protocol front end of the core model (JSON design parser, canonical printing).
Kept in the library (compiled to .olean once) so that `lean --run Driver/Core.lean` only has to
elaborate a three-line file.  The `hyp` checks are parameters: the driver instantiates them
with `TxV.Core.Bridge.staticOk` / `readyDepLeftOk` / `cycleOk` (the decidable hypotheses of the Props theorems).
-/
open TxV TxV.Proto TxV.CoreModel Lean
namespace TxV.CoreProto


structure St where
  D : Design
  E : Elab
  order : List BodyId
  nSites : Nat
  -- static tables computed once per design
  ts : List BodyId
  ms : List BodyId
  sites : List (BodyId × Call)
  sp : List (SiteId × SiteId)
  bp : List (BodyId × BodyId)

def bitsOf (s : String) : List Bool := if s == "-" then [] else s.toList.map (· == '1')
def showBits (l : List Bool) : String := if l.isEmpty then "-" else String.ofList (l.map fun b => if b then '1' else '0')

def jNat (j : Json) (k : String) : Except String Nat := do (← j.getObjVal? k).getNat?
def jFlag (j : Json) (k : String) : Except String Bool := do return (← jNat j k) != 0
def jArr (j : Json) (k : String) : Except String (Array Json) := do (← j.getObjVal? k).getArr?

def parseEdges (a : Array Json) : Except String (List PathEdge) :=
  a.toList.mapM fun e => do
    let p ← e.getArr?
    match p.toList with
    | [x, y] => return ⟨← x.getNat?, ← y.getNat?⟩
    | _ => throw "edge"

def parsePath (j : Json) (km kp : String) : Except String CtrlPath := do
  return ⟨← (← j.getObjVal? km).getInt?, ← parseEdges (← jArr j kp)⟩

def parsePrio : String → Except String Priority
  | "U" => pure .undefined | "L" => pure .left | "R" => pure .right | _ => throw "prio"

def parseComb : String → Except String Combiner
  | "mux" => pure .mux | "or" => pure .orAll | "sum" => pure .sum | "xor" => pure .xor | "count" => pure .count
  | _ => throw "combiner"

def parsePred (j : Json) : Except String (Option Pred) := do
  if j.isNull then return none
  match (← j.getArr?).toList with
  | [k, c] =>
    let c ← c.getNat?
    match ← k.getStr? with
    | "eq" => return some (.eqC c) | "ne" => return some (.neC c)
    | "lt" => return some (.ltC c) | "bit" => return some (.bit c)
    | _ => throw "pred"
  | _ => throw "pred"

def parseOut (j : Json) : Except String OutFn := do
  match (← j.getArr?).toList with
  | [k] => match ← k.getStr? with
    | "loc" => return .loc | "xorLoc" => return .xorLoc | "addLoc" => return .addLoc | _ => throw "out"
  | [k, c] => if (← k.getStr?) == "const" then return .const (← c.getNat?) else throw "out"
  | _ => throw "out"

def parseBody (j : Json) : Except String Body := do
  let calls ← (← jArr j "calls").toList.mapM fun c => do
    return ({ callee := ← jNat c "c", path := ← parsePath c "m" "p", site := ← jNat c "s" } : Call)
  let rels ← (← jArr j "rels").toList.mapM fun r => do
    return ({ dst := ← jNat r "d", prio := ← parsePrio (← (← r.getObjVal? "p").getStr?),
              conflict := ← jFlag r "c", readyDep := ← jFlag r "rd", silence := ← jFlag r "sl" } : Rel)
  let dp ← j.getObjVal? "dp"
  return { isTrans := ← jFlag j "t", defPath := ← parsePath dp "m" "p", defOrder := ← jNat j "do",
           nonexclusive := ← jFlag j "nx", singleCaller := ← jFlag j "sc",
           validate := ← parsePred (← j.getObjVal? "val"),
           combiner := ← parseComb (← (← j.getObjVal? "comb").getStr?),
           inW := ← jNat j "iw", outW := ← jNat j "ow", outFn := ← parseOut (← j.getObjVal? "out"),
           calls := calls, rels := rels }

def parseNats (a : Array Json) : Except String (List Nat) := a.toList.mapM (·.getNat?)

def parseDesign (line : String) : Except String (Design × Option (List Nat)) := do
  let j ← Json.parse line
  let bodies ← (← jArr j "bodies").toList.mapM parseBody
  let D : Design := ⟨bodies, ← parseNats (← jArr j "trans"), ← parseNats (← jArr j "meths")⟩
  let po ← j.getObjVal? "porder"
  let order ← if po.isNull then pure none else do pure (some (← parseNats (← po.getArr?)))
  return (D, order)

def showAssoc (l : List (Nat × List Nat)) : String :=
  if l.isEmpty then "-" else ";".intercalate (l.map fun (k, vs) => s!"{k}:{showList vs}")

/-- canonical printing: keys ascending, member lists ascending (their order in the manager's
    lists is immaterial for the generated logic, so a reordering there is not a divergence) -/
def sortedByKey (n : Nat) (l : List (Nat × List Nat)) : List (Nat × List Nat) :=
  (List.range n).filterMap fun k => (l.find? (·.1 == k)).map fun (k, vs) => (k, (List.range n).filter vs.contains)

def summary (hypS : Design → Elab → List Nat → Bool) (hypR : Design → Bool) (D : Design) (E : Elab) (order : Option (List Nat)) : String :=
  let n := D.bodies.length
  let edges := E.g.edgeList n
  let cgr := if edges.isEmpty then "-" else ",".intercalate (edges.map fun (a, b) => s!"{a}-{b}")
  let ccs := E.g.ccs n D.transactions
  let ccsS := if ccs.isEmpty then "-" else "|".intercalate (ccs.map showList)
  let vo := match order with | some o => validOrder E.g.before D.transactions o | none => false
  -- `hyp`: the static hypotheses of the Props theorems hold for this design (TxV.Core.Bridge.staticOk)
  let hyp := match order with | some o => hypS D E o | none => false
  s!"ok mbt={showAssoc (sortedByKey n E.mm.mbt)} tbm={showAssoc (sortedByKey n E.mm.tbm)} cgr={cgr} ccs={ccsS} vo={showBool vo} hyp={showBool hyp} rdl={showBool (hypR D)}"

def showNats (l : List Nat) : String := showList l

def evalLine (hypC : Design → Elab → List Nat → Val → (Nat → Bool) → Bool) (st : St) (t : List String) : String :=
  let D := st.D
  let E := st.E
  let n := D.bodies.length
  let r := bitsOf ((kv? t "r").getD "-")
  let e := bitsOf ((kv? t "e").getD "-")
  let a := natListOf t "a"
  let l := natListOf t "l"
  if r.length != n || e.length != st.nSites || a.length != st.nSites || l.length != n then "bad-op"
  else
    let v : Val := { ready := fun b => r.getD b false, en := fun s => e.getD s false,
                     arg := fun s => a.getD s 0, loc := fun b => l.getD b 0 }
    let ran := evalEagerList D E v st.order
    let run : BodyId → Bool := fun t => ran.contains t
    let ids := List.range n
    let runs := ids.map (runAny E v run)
    let rb : BodyId → Bool := fun b => runs.getD b false
    let rn := st.ts.map (runnable D E v run)
    let act := st.sites.map fun (src, c) => siteActive v rb src c
    let din := st.ms.map (dataIn D E v rb)
    let dout := st.ms.map (dataOut D E v rb)
    let doutOf : BodyId → Nat := fun m => match st.ms.idxOf m with | i => dout.getD i 0
    let res := st.sites.map fun (_, c) => doutOf c.callee
    s!"rn={showBits rn} run={showBits runs} act={showBits act} din={showNats din} dout={showNats dout} res={showNats res} hx={showBool (exclHoldsOn v st.sp st.bp)} cons={showBool (consistentEager D E v st.order run)} hyp={showBool (hypC D E st.order v run)}"

def stepLine (hypS : Design → Elab → List Nat → Bool) (hypR : Design → Bool)
    (hypC : Design → Elab → List Nat → Val → (Nat → Bool) → Bool)
    (st : Option St) (line : String) : Option St × String :=
  let line := line.trimAscii.toString
  if line.startsWith "{" then
    match parseDesign line with
    | .error e => (none, s!"bad-op json {e}")
    | .ok (D, order) =>
      match elaborate D with
      | .error k => (none, s!"reject kind={k.name}")
      | .ok E =>
        let nSites := D.allSites.length
        -- site ids must be dense 0..nSites-1 for the positional valuation format
        if !(D.allSites.all fun (_, c) => decide (c.site < nSites)) then (none, "bad-op sites")
        else
          let ids := List.range D.bodies.length
          let st : St := { D, E, order := order.getD [], nSites,
                           ts := ids.filter D.transactions.contains, ms := ids.filter D.methods.contains,
                           sites := (List.range nSites).filterMap fun s => D.allSites.find? (·.2.site == s),
                           sp := exclSitePairs D, bp := exclBodyPairs D }
          (some st, summary hypS hypR D E order)
  else
    let t := tokens line
    match t.head?, st with
    | some "v", some st => (some st, evalLine hypC st t)
    | _, _ => (st, "bad-op")


end TxV.CoreProto
