import TxV.Model.BankMem
/-!
Model of `transactron.lib.storage.MemoryBank` (storage.py:17-208) with the default
`memory_type` (`amaranth.lib.memory.Memory`, modelled in `TxV/Model/BankMem.lean`).

One `step` = one clock cycle.  Per read port `i` the registers are (storage.py:115-122)
`read_output_valid`, `read_output_addr`, `overflow_valid`, `overflow_addr`,
`overflow_data`, and the data register of the memory's synchronous read port
(`read_port[i].data`).  `read_req[i]` is ready iff `~overflow_valid` (storage.py:189),
`read_resp[i]` iff `read_output_valid | overflow_valid` (storage.py:160), `write[j]` always;
there are no conflicts, so every attempted and ready call executes, and all of them see the
registers before the edge.

Amaranth read-port semantics used (trusted base, DESIGN §4): when `en` the data register
takes the addressed row — with this cycle's same-address writes forwarded (`rdT`; for an
address below `depth` that is the row *after* the writes) if the port is transparent for the
write ports (`transparent or read_on_resp`, storage.py:109), the row before them otherwise;
without `en` it holds.  `en` is 1 in every cycle in `read_on_resp` mode (the
init value of `en`, storage.py:180-187) and `read_req.run` otherwise (storage.py:193).
-/
namespace TxV.MemoryBank
open TxV.BankMem

structure Cfg where
  depth : Nat
  gran : Bool        -- `granularity is not None`
  g : Nat            -- bits per chunk (used when `gran`)
  n : Nat            -- chunks per word (used when `gran`)
  transparent : Bool
  readOnResp : Bool
deriving Repr, DecidableEq

/-- registers of one read port -/
structure Port where
  rov : Bool   -- read_output_valid
  roa : Nat    -- read_output_addr
  rd : Nat     -- read_port.data (register of the memory's synchronous read port)
  ov : Bool    -- overflow_valid
  oa : Nat     -- overflow_addr
  od : Nat     -- overflow_data
deriving Repr, DecidableEq

structure State where
  mem : Mem
  ports : List Port
deriving Repr, DecidableEq

/-- attempted calls of one cycle -/
structure In where
  reqs : List (Option Nat)     -- per read port: address of an attempted read_req
  resps : List Bool            -- per read port: read_resp attempted
  writes : List (Option Wr)    -- per write port: attempted write
deriving Repr, DecidableEq

/-- observations of one read port -/
structure PortOut where
  req : Bool            -- read_req executed
  resp : Option Nat     -- data returned by an executed read_resp
  reqRdy : Bool
  respRdy : Bool
deriving Repr, DecidableEq

structure Out where
  ports : List PortOut
  writes : List Bool
deriving Repr, DecidableEq

def initPort : Port := ⟨false, 0, 0, false, 0, 0⟩

def init (c : Cfg) (readPorts : Nat) : State :=
  { mem := List.replicate c.depth 0, ports := List.replicate readPorts initPort }

/-- the row after write `w` over `old` (storage.py:203-206 and Amaranth's write port) -/
def rowAfter (c : Cfg) (old : Nat) (w : Wr) : Nat :=
  if c.gran then mergeW c.g c.n old w else w.data

/-- memory after the writes of this cycle -/
def memNext (c : Cfg) (mem : Mem) (ws : List (Option Wr)) : Mem := wrAll (rowAfter c) mem ws

/-- `write_port[j].en & (write_port[j].addr == a)` as a select bit of the OneHotMux
    (storage.py:126-131; `OneHotMux.create` reduces it with `.any()`): the one-bit compare is
    zero-extended, so of a multi-bit enable only bit 0 takes part -/
def selBit (c : Cfg) (a : Nat) (w : Wr) : Bool :=
  (if c.gran then w.mask.testBit 0 else true) && w.addr == a

/-- `write_port[j].data` as the tracking multiplexer sees it: a signal of the word width (with
    granularity the width `g*n` is known to the model; without, data is taken as given) -/
def busData (c : Cfg) (w : Wr) : Nat :=
  if c.gran then w.data % 2 ^ (c.g * c.n) else w.data

/-- data inputs of the OneHotMux whose select bit is set -/
def selData (c : Cfg) : List (Option Wr) → Nat → List Nat
  | [], _ => []
  | some w :: ws, a => if selBit c a w then busData c w :: selData c ws a else selData c ws a
  | none :: ws, a => selData c ws a

/-- `OneHotMux.create(m, [(match_j, write_port[j].data)], default)` (storage.py:132-145;
    `one_hot_mux`: the OR of the selected inputs, the default when no select bit is set) -/
def track (c : Cfg) (ws : List (Option Wr)) (a : Nat) (dflt : Nat) : Nat :=
  match selData c ws a with
  | [] => dflt
  | ds => ds.foldl (· ||| ·) 0

/-- one read port, one cycle.  `mem` = memory before this cycle's writes `ws`;
    `a` = attempted read_req address, `b` = read_resp attempted -/
def portStep (c : Cfg) (mem : Mem) (ws : List (Option Wr)) (p : Port) (a : Option Nat) (b : Bool) :
    Port × PortOut :=
  let reqRdy := !p.ov                                  -- storage.py:189
  let respRdy := p.rov || p.ov                         -- storage.py:160
  let reqRun := a.isSome && reqRdy
  let respRun := b && respRdy
  -- storage.py:125-149
  let ron := if c.readOnResp then track c ws p.roa p.rd else p.rd
  let on := if c.readOnResp then track c ws p.oa p.od else p.od
  -- storage.py:167-178
  let ret := if c.readOnResp && c.transparent then (if p.ov then on else ron)
             else (if p.ov then p.od else p.rd)
  -- storage.py:155-158
  let capture := p.rov && !p.ov && reqRun && !respRun
  -- the memory read port (storage.py:183-197)
  let en := c.readOnResp || reqRun
  let addr := match a with
    | some x => if reqRun then x else p.roa
    | none => p.roa
  let rd' := if en then (if c.transparent || c.readOnResp then rdT (rowAfter c) mem ws addr else rd mem addr) else p.rd
  ({ rov := if reqRun then true else if respRun && !p.ov then false else p.rov,   -- :165, :191 (later wins)
     roa := match a with
       | some x => if reqRun then x else p.roa                                    -- :192
       | none => p.roa,
     rd := rd',
     ov := if capture then true else if respRun && p.ov then false else p.ov,     -- :156, :163
     oa := if capture then p.roa else p.oa,                                        -- :157
     od := if capture then ron else if c.readOnResp then on else p.od },           -- :146, :158 (later wins)
   { req := reqRun, resp := if respRun then some ret else none, reqRdy := reqRdy, respRdy := respRdy })

def reqAt (i : In) (k : Nat) : Option Nat :=
  match i.reqs[k]? with
  | some (some a) => some a
  | _ => none

def respAt (i : In) (k : Nat) : Bool :=
  match i.resps[k]? with
  | some true => true
  | _ => false

def step (c : Cfg) (s : State) (i : In) : State × Out :=
  ({ mem := memNext c s.mem i.writes,
     ports := s.ports.mapIdx fun k p => (portStep c s.mem i.writes p (reqAt i k) (respAt i k)).1 },
   { ports := s.ports.mapIdx fun k p => (portStep c s.mem i.writes p (reqAt i k) (respAt i k)).2,
     writes := i.writes.map Option.isSome })

def run (c : Cfg) (s : State) : List In → State × List Out
  | [] => (s, [])
  | i :: is =>
    let (s', o) := step c s i
    let (s'', os) := run c s' is
    (s'', o :: os)

end TxV.MemoryBank
