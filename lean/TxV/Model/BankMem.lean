import TxV.Model.Util
/-!
Ideal memory with the semantics of `amaranth.lib.memory.Memory` write ports, shared by the
models of `MemoryBank` (C21) and `AsyncMemoryBank` (C22)  (transactron/lib/storage.py).

A word has `n` chunks of `g` bits (`granularity = g`, `shape = g*n` bits; `granularity =
None` is the geometry `n = 1`, `g = width` with the one-bit enable always 1).  A write
port carries `addr`, `data` and the per-chunk enable `mask` (`write_port.en`).

Modelled Amaranth semantics (trusted base, DESIGN §4; every clause is exercised by the
correspondence runs):
* rows are initialised to 0 (`init=[]`),
* a write replaces exactly the chunks whose enable bit is set,
* a write to an address `≥ depth` is dropped, a read from such an address returns 0
  (the address signal is `range(depth)`, so for a depth that is not a power of two such
  addresses are representable),
* a transparent synchronous read port forwards same-address writes by address comparison
  alone (`rdT`), which for addresses below `depth` is the row after the writes,
* several write ports are applied in port order (only relevant outside the property's
  hypothesis "no two write ports address the same row").
-/
namespace TxV.BankMem

/-- per-chunk enable `mask` (bit `k` = chunk `k`) expanded to a bit mask of `n` chunks of `g` bits -/
def expandMask (g : Nat) : Nat → Nat → Nat
  | 0, _ => 0
  | n + 1, mask => expandMask g n mask ||| (if mask.testBit n then (2 ^ g - 1) <<< (g * n) else 0)

/-- masked write of `data` over `old`: bits under the expanded mask come from `data` -/
def merge (g n : Nat) (old data mask : Nat) : Nat :=
  old ^^^ ((old ^^^ data) &&& expandMask g n mask)

/-- one write-port call -/
structure Wr where
  addr : Nat
  data : Nat
  mask : Nat
deriving Repr, DecidableEq

abbrev Mem := List Nat

/-- read a row; out-of-range addresses read 0 (Amaranth simulator semantics) -/
def rd (m : Mem) (a : Nat) : Nat :=
  match m[a]? with
  | some v => v
  | none => 0

/-- the row after a write `w` over `old`, with granularity: chunks of `g` bits, `n` of them -/
def mergeW (g n : Nat) (old : Nat) (w : Wr) : Nat := merge g n old w.data w.mask

/-- one write port; `f old w` is the new row; out-of-range writes are dropped -/
def wr1 (f : Nat → Wr → Nat) (m : Mem) (w : Wr) : Mem :=
  match m[w.addr]? with
  | some old => m.set w.addr (f old w)
  | none => m

def wrOpt (f : Nat → Wr → Nat) (m : Mem) : Option Wr → Mem
  | some w => wr1 f m w
  | none => m

/-- all write ports of one cycle, in port order -/
def wrAll (f : Nat → Wr → Nat) (m : Mem) (ws : List (Option Wr)) : Mem :=
  ws.foldl (wrOpt f) m

/-- what a synchronous read port that is transparent for the write ports latches: the row as it
    is, with every same-address write of this cycle laid over it in port order (Amaranth compares
    the addresses only, so for an address `≥ depth` the dropped write is still forwarded) -/
def rdT (f : Nat → Wr → Nat) (m : Mem) (ws : List (Option Wr)) (a : Nat) : Nat :=
  ws.foldl (fun v o =>
    match o with
    | some w => if w.addr = a then f v w else v
    | none => v) (rd m a)

/-- addresses used by the write calls of one cycle -/
def wrAddrs (ws : List (Option Wr)) : List Nat :=
  ws.filterMap (fun w => w.map (·.addr))

/-- the property's hypothesis for one cycle: no two write ports address the same row -/
def distinctRows (ws : List (Option Wr)) : Bool :=
  decide (wrAddrs ws).Nodup

/-! ### line protocol helpers: `3,-,1` for optional numbers, `1:171:3,-` for writes -/

def optList (s : String) : Option (List (Option Nat)) :=
  if s == "" then some [] else
  (s.splitOn ",").mapM fun t => if t == "-" then some none else t.toNat?.map some

def wrList (s : String) : Option (List (Option Wr)) :=
  if s == "" then some [] else
  (s.splitOn ",").mapM fun t =>
    if t == "-" then some none else
    match (t.splitOn ":").mapM String.toNat? with
    | some [a, d, k] => some (some ⟨a, d, k⟩)
    | _ => none

def showOptList (l : List (Option Nat)) : String :=
  ",".intercalate (l.map Proto.showOpt)

def showBits (l : List Bool) : String :=
  ",".intercalate (l.map Proto.showBool)

end TxV.BankMem
