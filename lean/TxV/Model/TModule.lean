import TxV.Model.Util
/-!
Model of `transactron.core.tmodule.TModule` (tmodule.py:188-311): how statements written
through the `TModule` API end up in the three Amaranth modules `main_module`,
`avoiding_module`, `top_module`, and what Amaranth then does with them.

* `TBlk` is the program text written against the TModule API: assignments `m.d.<dom> += …`,
  `m.next = …`, `If/Elif/Else`, `Switch/Case/Default`, `FSM/State`, `AvoidedIf`
  (transaction and method bodies are `AvoidedIf(body.run)`, transaction.py:133, method.py:246).
* `ABlk` is an Amaranth statement list.  Every Amaranth control construct is a first-match
  chain of guarded blocks: `If/Elif/Else` is emitted as `Switch(Cat(tests))` with patterns
  `--1`, `-1-`, … (hdl/_dsl.py `_pop_ctrl`), `Switch` is first-match, `FSM` is a `Switch` on
  the state register with one `Case` per `State`.
* `lowerMain`, `lowerAv`, `lowerTop` transcribe which module a statement lands in and under
  which recorded conditions.
* `effs v act blk` is the Amaranth semantics: for every leaf of the block, in program order,
  whether it takes effect under the valuation `v` (all enclosing guards hold and no earlier
  alternative of the same chain matched).

Modelled, not verified: Amaranth itself (first-match `Switch`, `fsm.ongoing(name)` being the
unconditional comparison `state == encoding[name]`, hdl/_dsl.py:235-240, 619-621).
-/
namespace TxV.TModule

/-- the four kinds of domains of `m.d.<name>` (tmodule.py:33-39): everything that is not
    `av_comb`/`top_comb` goes to `main_module.d[name]`; `comb` and `sync` stand for those. -/
inductive Dom where
  | comb | sync | av | top
deriving DecidableEq, Repr

/-- ordinary domain = lands in the main module (tmodule.py:38-39) -/
def Dom.ordinary : Dom → Bool
  | .comb => true
  | .sync => true
  | .av => false
  | .top => false

/-- a leaf statement: `m.d.<d> += w.eq(…)` with witness id `w`, or `m.next = st` of FSM `f` -/
inductive Leaf where
  | assign (d : Dom) (w : Nat)
  | next (f st : Nat)
deriving DecidableEq, Repr

/-- the domain a leaf is added to; `m.next` goes to `main_module.next` (tmodule.py:292-294),
    i.e. the FSM's (ordinary) clocked domain (hdl/_dsl.py:524-527) -/
def Leaf.dom : Leaf → Dom
  | .assign d _ => d
  | .next _ _ => .sync

/-- one cycle's valuation: condition inputs, switch selectors, run signals, FSM state registers -/
structure Val where
  cond : Nat → Bool
  sel : Nat → Nat
  run : Nat → Bool
  state : Nat → Nat

/-! ### Amaranth side -/

/-- condition expressions that occur in the generated modules -/
inductive Cond where
  | inp (i : Nat)            -- a user condition
  | run (b : Nat)            -- the `cond` of an `AvoidedIf` (a body's `run`)
  | ongoing (f st : Nat)     -- `fsm.ongoing(name)`
deriving DecidableEq, Repr

def Cond.holds (v : Val) : Cond → Bool
  | .inp i => v.cond i
  | .run b => v.run b
  | .ongoing f st => v.state f == st

/-- guard of one alternative of a chain -/
inductive Guard where
  | cond (c : Cond)                 -- `If(c)` / `Elif(c)`
  | els                             -- `Else()` / `Default()`
  | pats (sel : Nat) (ps : List Nat) -- `Case(*ps)` of `Switch(sel)`; `Case()` never matches
  | state (f st : Nat)              -- `State(st)` of FSM `f` (a `Case` of the state `Switch`)
deriving DecidableEq, Repr

def Guard.holds (v : Val) : Guard → Bool
  | .cond c => c.holds v
  | .els => true
  | .pats sel ps => ps.contains (v.sel sel)
  | .state f st => v.state f == st

mutual
/-- Amaranth statement list -/
inductive ABlk where
  | nil
  | leaf (l : Leaf) (rest : ABlk)
  | chain (alts : AAlts) (rest : ABlk)
/-- alternatives of one chain, in program order -/
inductive AAlts where
  | nil
  | cons (g : Guard) (b : ABlk) (rest : AAlts)
end

/-- statement-list concatenation -/
def ABlk.append : ABlk → ABlk → ABlk
  | .nil, b => b
  | .leaf l r, b => .leaf l (r.append b)
  | .chain a r, b => .chain a (r.append b)

mutual
/-- Amaranth semantics: every leaf of the block, in program order, with its activity.
    `act` = all enclosing alternatives are taken. -/
def effs (v : Val) (act : Bool) : ABlk → List (Leaf × Bool)
  | .nil => []
  | .leaf l rest => (l, act) :: effs v act rest
  | .chain alts rest => effsAlts v act true alts ++ effs v act rest
/-- `free` = no earlier alternative of this chain matched (first-match) -/
def effsAlts (v : Val) (act : Bool) (free : Bool) : AAlts → List (Leaf × Bool)
  | .nil => []
  | .cons g b rest => effs v (act && free && g.holds v) b ++ effsAlts v act (free && !g.holds v) rest
end

/-! ### TModule side -/

/-- guard of an alternative as written by the user -/
inductive TGuard where
  | cond (i : Nat)        -- `m.If(c_i)` / `m.Elif(c_i)`
  | els                   -- `m.Else()` / `m.Default()`
  | pats (ps : List Nat)  -- `m.Case(*ps)`
deriving DecidableEq, Repr

/-- the Amaranth guard recorded for it; `sel` is the enclosing `Switch` test, if any -/
def TGuard.toGuard (sel : Option Nat) : TGuard → Guard
  | .cond i => .cond (.inp i)
  | .els => .els
  | .pats ps => match sel with
    | some s => .pats s ps
    | none => .pats 0 []

mutual
/-- program text against the TModule API -/
inductive TBlk where
  | nil
  | leaf (l : Leaf) (rest : TBlk)
  | ifc (alts : TAlts) (rest : TBlk)                          -- If / Elif* / Else?
  | sw (sel : Nat) (alts : TAlts) (rest : TBlk)               -- Switch(sel): Case* / Default
  | fsm (f init : Nat) (states : TStates) (rest : TBlk)       -- FSM(init): State*
  | avoided (run : Nat) (body : TBlk) (rest : TBlk)           -- AvoidedIf(run)
inductive TAlts where
  | nil
  | cons (g : TGuard) (b : TBlk) (rest : TAlts)
inductive TStates where
  | nil
  | cons (st : Nat) (b : TBlk) (rest : TStates)
end

/-- a transaction or method body with run signal `b`: `with m.AvoidedIf(impl.run): yield`
    (transaction.py:131-134, method.py:243-247) -/
abbrev TBlk.body (b : Nat) (blk rest : TBlk) : TBlk := .avoided b blk rest

def TStates.names : TStates → List Nat
  | .nil => []
  | .cons st _ rest => st :: rest.names

mutual
/-- well-formedness: the states of one FSM have distinct names.  Amaranth rejects anything
    else (`NameError: FSM state … is already defined`, hdl/_dsl.py:491-492). -/
def TBlk.wf : TBlk → Bool
  | .nil => true
  | .leaf _ rest => rest.wf
  | .ifc alts rest => alts.wf && rest.wf
  | .sw _ alts rest => alts.wf && rest.wf
  | .fsm _ _ sts rest => decide sts.names.Nodup && sts.wf && rest.wf
  | .avoided _ b rest => b.wf && rest.wf
def TAlts.wf : TAlts → Bool
  | .nil => true
  | .cons _ b rest => b.wf && rest.wf
def TStates.wf : TStates → Bool
  | .nil => true
  | .cons _ b rest => b.wf && rest.wf
end

mutual
/-- what ends up in `main_module`: ordinary-domain assignments and `m.next`
    (tmodule.py:38-39, 292-294), under `If` for `AvoidedIf` (225) and for every ordinary
    construct (231, 238, 245, 252, 259, 266, 274, 283). -/
def lowerMain : TBlk → ABlk
  | .nil => .nil
  | .leaf l rest => if l.dom.ordinary then .leaf l (lowerMain rest) else lowerMain rest
  | .ifc alts rest => .chain (lowerMainAlts none alts) (lowerMain rest)
  | .sw sel alts rest => .chain (lowerMainAlts (some sel) alts) (lowerMain rest)
  | .fsm f _ sts rest => .chain (lowerMainStates f sts) (lowerMain rest)
  | .avoided r b rest => .chain (.cons (.cond (.run r)) (lowerMain b) .nil) (lowerMain rest)
def lowerMainAlts (sel : Option Nat) : TAlts → AAlts
  | .nil => .nil
  | .cons g b rest => .cons (g.toGuard sel) (lowerMain b) (lowerMainAlts sel rest)
def lowerMainStates (f : Nat) : TStates → AAlts
  | .nil => .nil
  | .cons st b rest => .cons (.state f st) (lowerMain b) (lowerMainStates f rest)
end

mutual
/-- what ends up in `avoiding_module`: `av_comb` assignments (tmodule.py:34-35); `If`,
    `Elif`, `Else`, `Switch`, `Case`, `Default` are mirrored (232, 239, 246, 253, 260, 267);
    `AvoidedIf` and `FSM` open nothing there (224-227, 271-278), so their contents are
    spliced into the current statement list; every `State(name)` opens a separate
    `If(fsm.ongoing(name))` (284). -/
def lowerAv : TBlk → ABlk
  | .nil => .nil
  | .leaf l rest => if l.dom = .av then .leaf l (lowerAv rest) else lowerAv rest
  | .ifc alts rest => .chain (lowerAvAlts none alts) (lowerAv rest)
  | .sw sel alts rest => .chain (lowerAvAlts (some sel) alts) (lowerAv rest)
  | .fsm f _ sts rest => (lowerAvStates f sts).append (lowerAv rest)
  | .avoided _ b rest => (lowerAv b).append (lowerAv rest)
def lowerAvAlts (sel : Option Nat) : TAlts → AAlts
  | .nil => .nil
  | .cons g b rest => .cons (g.toGuard sel) (lowerAv b) (lowerAvAlts sel rest)
def lowerAvStates (f : Nat) : TStates → ABlk
  | .nil => .nil
  | .cons st b rest => .chain (.cons (.cond (.ongoing f st)) (lowerAv b) .nil) (lowerAvStates f rest)
end

mutual
/-- what ends up in `top_module`: `top_comb` assignments, at the top level whatever the
    context (tmodule.py:36-37; no construct opens anything in `top_module`). -/
def lowerTop : TBlk → ABlk
  | .nil => .nil
  | .leaf l rest => if l.dom = .top then .leaf l (lowerTop rest) else lowerTop rest
  | .ifc alts rest => (lowerTopAlts alts).append (lowerTop rest)
  | .sw _ alts rest => (lowerTopAlts alts).append (lowerTop rest)
  | .fsm _ _ sts rest => (lowerTopStates sts).append (lowerTop rest)
  | .avoided _ b rest => (lowerTop b).append (lowerTop rest)
def lowerTopAlts : TAlts → ABlk
  | .nil => .nil
  | .cons _ b rest => (lowerTop b).append (lowerTopAlts rest)
def lowerTopStates : TStates → ABlk
  | .nil => .nil
  | .cons _ b rest => (lowerTop b).append (lowerTopStates rest)
end

/-- the three modules of one `TModule` -/
structure Lowered where
  main : ABlk
  avoiding : ABlk
  top : ABlk

def lower (t : TBlk) : Lowered := ⟨lowerMain t, lowerAv t, lowerTop t⟩

/-! ### The specification side: placements and their enclosing conditions -/

/-- one enclosing construct of a placement -/
inductive Encl where
  /-- an alternative of an ordinary chain: its own guard and the guards of the earlier
      alternatives of the same chain -/
  | alt (earlier : List Guard) (g : Guard)
  /-- an `AvoidedIf(run)` / transaction or method body with that run signal -/
  | body (run : Nat)
deriving DecidableEq, Repr

/-- "the enclosing condition holds": the guard holds and no earlier alternative of the same
    chain does; for a body: it runs -/
def Encl.holds (v : Val) : Encl → Bool
  | .alt earlier g => earlier.all (fun e => !e.holds v) && g.holds v
  | .body r => v.run r

/-- ordinary (non-avoided) enclosing condition -/
def Encl.ordinary : Encl → Bool
  | .alt _ _ => true
  | .body _ => false

/-- a leaf together with its enclosing constructs, outermost first -/
structure Placement where
  leaf : Leaf
  encl : List Encl
deriving DecidableEq, Repr

def Placement.push (e : Encl) (p : Placement) : Placement := { p with encl := e :: p.encl }

mutual
/-- all placements of a program, in program order -/
def places : TBlk → List Placement
  | .nil => []
  | .leaf l rest => ⟨l, []⟩ :: places rest
  | .ifc alts rest => placesAlts none [] alts ++ places rest
  | .sw sel alts rest => placesAlts (some sel) [] alts ++ places rest
  | .fsm f _ sts rest => placesStates f sts ++ places rest
  | .avoided r b rest => (places b).map (Placement.push (.body r)) ++ places rest
def placesAlts (sel : Option Nat) (earlier : List Guard) : TAlts → List Placement
  | .nil => []
  | .cons g b rest =>
    (places b).map (Placement.push (.alt earlier (g.toGuard sel)))
      ++ placesAlts sel (earlier ++ [g.toGuard sel]) rest
/-- the enclosing condition of a `State(st)` block is "FSM `f` is in state `st`" -/
def placesStates (f : Nat) : TStates → List Placement
  | .nil => []
  | .cons st b rest => (places b).map (Placement.push (.alt [] (.state f st))) ++ placesStates f rest
end

/-! ### Cycle model (registers) for the line-protocol driver -/

/-- is some occurrence of leaf `l` in effect? (all witness assignments are `w.eq(1)` resp.
    `r.eq(~r)`, so several active assignments to one witness act like one) -/
def active (es : List (Leaf × Bool)) (l : Leaf) : Bool := es.any (fun e => e.1 == l && e.2)

/-- target of the last active `m.next` of FSM `f` (later assignment wins) -/
def lastNext (f : Nat) : List (Leaf × Bool) → Option Nat → Option Nat
  | [], acc => acc
  | (.next f' st, true) :: rest, acc => lastNext f rest (if f' = f then some st else acc)
  | _ :: rest, acc => lastNext f rest acc

/-- registers: sync witnesses (toggle registers) and FSM state registers, as association lists
    over the identifiers occurring in the program -/
structure State where
  reg : List (Nat × Bool)
  fsm : List (Nat × Nat)
deriving Repr, DecidableEq

def State.regOf (s : State) (w : Nat) : Bool := (s.reg.lookup w).getD false
/-- state of FSM `f`; FSMs not in the list do not occur in the program (see `init`) -/
def State.stateOf (s : State) (f : Nat) : Nat := (s.fsm.lookup f).getD 0

/-- inputs of a cycle -/
structure Inp where
  cond : Nat → Bool
  sel : Nat → Nat
  run : Nat → Bool

def mkVal (s : State) (i : Inp) : Val := ⟨i.cond, i.sel, i.run, s.stateOf⟩

mutual
def fsmInits : TBlk → List (Nat × Nat)
  | .nil => []
  | .leaf _ rest => fsmInits rest
  | .ifc alts rest => fsmInitsAlts alts ++ fsmInits rest
  | .sw _ alts rest => fsmInitsAlts alts ++ fsmInits rest
  | .fsm f i sts rest => (f, i) :: (fsmInitsStates sts ++ fsmInits rest)
  | .avoided _ b rest => fsmInits b ++ fsmInits rest
def fsmInitsAlts : TAlts → List (Nat × Nat)
  | .nil => []
  | .cons _ b rest => fsmInits b ++ fsmInitsAlts rest
def fsmInitsStates : TStates → List (Nat × Nat)
  | .nil => []
  | .cons _ b rest => fsmInits b ++ fsmInitsStates rest
end

/-- the witness assignments of a program, in program order -/
def witnesses (t : TBlk) : List Leaf :=
  (places t).filterMap fun p => match p.leaf with
    | .assign d w => some (.assign d w)
    | .next _ _ => none

def syncIds (t : TBlk) : List Nat :=
  (witnesses t).filterMap fun l => match l with
    | .assign .sync w => some w
    | _ => none

/-- reset state: toggle registers 0, every FSM in its init state -/
def init (t : TBlk) : State := ⟨(syncIds t).map (·, false), fsmInits t⟩

/-- value of a witness sampled at the clock edge (pre-edge) -/
def witnessVal (s : State) (em ea et : List (Leaf × Bool)) : Leaf → Bool
  | .assign .comb w => active em (.assign .comb w)
  | .assign .sync w => s.regOf w
  | .assign .av w => active ea (.assign .av w)
  | .assign .top w => active et (.assign .top w)
  | .next _ _ => false

/-- one clock cycle: sampled witness values and the registers after the edge -/
def step (t : TBlk) (s : State) (i : Inp) : State × List Bool :=
  let v := mkVal s i
  let em := effs v true (lowerMain t)
  let ea := effs v true (lowerAv t)
  let et := effs v true (lowerTop t)
  let out := (witnesses t).map (witnessVal s em ea et)
  let reg' := s.reg.map fun (w, b) => (w, b != active em (.assign .sync w))
  let fsm' := s.fsm.map fun (f, st) => (f, (lastNext f em none).getD st)
  (⟨reg', fsm'⟩, out)

end TxV.TModule
