import TxV.Model.Util
/-!
Models of the hardware metrics of `transactron/lib/metrics.py` (metrics enabled):

* `HwCounter`       metrics.py:212-252
* `TaggedCounter`   metrics.py:267-373
* `HwExpHistogram`  metrics.py:390-504

One `step` = one clock cycle.  None of the metric methods has a ready signal or a
conflict, so every attempted call executes (`run = en` of its adapter); the inputs of a
cycle are therefore directly the executed calls, one entry per *way* (the `Methods`
vector): `none` = way not called, `some arg` = called with `arg`.  Registers are
`w`-bit: an Amaranth assignment truncates the full-precision right-hand side, which is
`% 2 ^ w` here.

`popcount` (functions.py:71) is a full-precision adder tree over the bits truncated to
`bits_for(len)` bits, `sum_value`/`min_value`/`max_value` (functions.py:212-236) are
balanced trees of an associative operator; they are modelled by their left folds (that a
balanced tree of an associative operator equals the fold is C36's `treeReduce_eq`).
-/
namespace TxV.Metrics

/-- `popcount(Cat(bits))`: the number of set bits (never overflows `bits_for(len)` bits) -/
def popcount (s : List Bool) : Nat := (s.map Bool.toNat).sum

/-! ### HwCounter -/

structure Counter where
  w : Nat          -- width_bits
  count : Nat
deriving Repr, DecidableEq

def Counter.init (w : Nat) : Counter := { w := w, count := 0 }

/-- `incr` : one bit per way (`method.run`).  metrics.py:250 -/
def Counter.step (s : Counter) (incr : List Bool) : Counter :=
  { s with count := (s.count + popcount incr) % 2 ^ s.w }

def Counter.run (s : Counter) (h : List (List Bool)) : Counter := h.foldl Counter.step s

/-! ### TaggedCounter -/

/-- `amaranth.utils.ceil_log2` : `0 ↦ 0`, `n ↦ (n-1).bit_length()` -/
def ceilLog2 (n : Nat) : Nat := if n ≤ 1 then 0 else Nat.log2 (n - 1) + 1

structure TCfg where
  tags : List Int   -- tag values in declaration order (range / Enum members / list)
  tagW : Nat        -- width of the tag signal (`Shape.cast(tag_shape).width`)
  w : Nat           -- registers_width
deriving Repr

/-- metrics.py:326-334 : every value is non-negative and `2 ** ceil_log2(value) == value` -/
def TCfg.oneHot (c : TCfg) : Bool :=
  c.tags.all fun v => decide (0 ≤ v) && decide (2 ^ ceilLog2 v.toNat = v.toNat)

/-- does a call with tag `x` set `runs[t][k]`?  metrics.py:361-368.
    One-hot path: `OneHotSwitchDynamic` is a `Switch` on the tag with one `Case(1 << i)` per
    bit `i` of the tag signal, and in case `i` the bit of `runs[1 << i]` is set when `1 << i`
    is a tag.  Otherwise the tag is compared with every tag value. -/
def TCfg.hit (c : TCfg) (t x : Int) : Bool :=
  if c.oneHot then (List.range c.tagW).any fun i => x == (2 : Int) ^ i && t == (2 : Int) ^ i
  else x == t

/-- `runs[t]` as a bit vector over the ways -/
def TCfg.runs (c : TCfg) (t : Int) (ins : List (Option Int)) : List Bool :=
  ins.map (Option.any (c.hit t))     -- set only inside the body of a running method

def TCfg.init (c : TCfg) : List Nat := c.tags.map fun _ => 0

/-- the counters, aligned with `c.tags`.  metrics.py:370-371 -/
def TCfg.step (c : TCfg) (s : List Nat) (ins : List (Option Int)) : List Nat :=
  List.zipWith (fun t r => (r + popcount (c.runs t ins)) % 2 ^ c.w) c.tags s

def TCfg.run (c : TCfg) (s : List Nat) (h : List (List (Option Int))) : List Nat := h.foldl c.step s

/-! ### HwExpHistogram -/

structure HCfg where
  n : Nat    -- bucket_count
  sw : Nat   -- sample_width
  rw : Nat   -- registers_width
deriving Repr, DecidableEq

structure Hist where
  count : Nat
  sum : Nat
  min : Nat
  max : Nat
  buckets : List Nat
deriving Repr, DecidableEq

/-- metrics.py:433-441 : `min` resets to all ones, everything else to 0 -/
def HCfg.init (c : HCfg) : Hist :=
  { count := 0, sum := 0, min := 2 ^ c.sw - 1, max := 0, buckets := List.replicate c.n 0 }

/-- metrics.py:469-472 : `for i in range(sample_width): with m.If(sample[i]): bucket_idx = i`
    (the last assignment wins; 0 when no bit is set) -/
def hibit (sw x : Nat) : Nat := (List.range sw).foldl (fun acc i => if x.testBit i then i else acc) 0

/-- metrics.py:474-485 : `should_incr` of bucket `i` for sample `x`
    (a single bucket has the range `[0, +inf)` and counts every sample) -/
def HCfg.shouldIncr (c : HCfg) (i x : Nat) : Bool :=
  if c.n = 1 then true
  else if i = 0 then x == 0
  else if i = c.n - 1 then decide (hibit c.sw x ≥ i - 1) && x != 0
  else hibit c.sw x == i - 1 && x != 0

/-- `bucket_incrs[i]` as a bit vector over the ways (set only inside the running method body) -/
def HCfg.incrs (c : HCfg) (i : Nat) (ins : List (Option Nat)) : List Bool :=
  ins.map (Option.any (c.shouldIncr i))

/-- `Mux(method.run, method.data_in.sample, default)` per way.  metrics.py:486-490 -/
def orDefault (d : Nat) (ins : List (Option Nat)) : List Nat := ins.map fun o => o.getD d

/-- metrics.py:492-502 -/
def HCfg.step (c : HCfg) (s : Hist) (ins : List (Option Nat)) : Hist :=
  { count := (s.count + popcount (ins.map Option.isSome)) % 2 ^ c.rw
    sum := ((orDefault 0 ins).foldl (· + ·) s.sum) % 2 ^ c.rw
    min := (orDefault (2 ^ c.sw - 1) ins).foldl Nat.min s.min
    max := (orDefault 0 ins).foldl Nat.max s.max
    buckets := List.zipWith (fun i b => (b + popcount (c.incrs i ins)) % 2 ^ c.rw) (List.range c.n) s.buckets }

def HCfg.run (c : HCfg) (s : Hist) (h : List (List (Option Nat))) : Hist := h.foldl c.step s

/-- the samples added by a history, in (cycle, way) order -/
def samples {α} (h : List (List (Option α))) : List α := h.flatten.filterMap id

end TxV.Metrics
