import TxV.Model.QueueUtil
/-!
Model of `transactron.lib.connectors.FIFO(layout, depth, fifo_type=SyncFIFOBuffered)`
(connectors.py:24-84 over `amaranth.lib.fifo.SyncFIFOBuffered`).

The wrapper's two bodies are as for the default `SyncFIFO`: `write` is ready iff `w_rdy` and
raises `w_en`, `read` is ready iff `r_rdy`, raises `r_en` and returns `r_data`.  What differs
is the wrapped FIFO, which is *not* an ideal queue with level-based readiness
(amaranth/lib/fifo.py, `SyncFIFOBuffered.elaborate`):

* depth 0: nothing is ever ready;
* depth 1: one register; `w_rdy = (level = 0)`, `r_rdy = (level = 1)`;
* depth ≥ 2: an inner memory FIFO of depth `depth - 1` (modelled, like `SyncFIFO`, as an ideal
  queue: `produce`/`consume`/`inner_level` are abstracted to a list) feeding an output register
  `(r_rdy, r_data)`.  `w_rdy = (inner_level ≠ depth - 1)`;
  `do_inner_read = (inner_level ≠ 0) ∧ (¬r_rdy ∨ r_en)` moves the oldest inner element into
  the output register; `r_rdy` becomes 1 on an inner read, else 0 when `r_en`.

Consequently readiness lags the abstract level by up to one cycle (a write into an empty FIFO
makes `read` ready one cycle later than with `SyncFIFO`; `write` is not ready while the inner
memory is full and the output register is being refilled).
-/
namespace TxV.BufferedFifo
open TxV.QueueUtil

structure State where
  inner : List Nat   -- inner memory FIFO, oldest first (depth ≥ 2 only)
  rv : Bool          -- r_rdy register (depth 1: `level = 1`)
  rd : Nat           -- r_data (read-port register; depth 1: the single register)
deriving Repr, DecidableEq

structure In where
  w : Option Nat
  r : Bool
deriving Repr, DecidableEq

structure Out where
  wr : Option Nat    -- write executed (value)
  rd : Option Nat    -- read executed, returned value
  rrdy : Bool        -- read.ready  = fifo.r_rdy
  wrdy : Bool        -- write.ready = fifo.w_rdy
deriving Repr, DecidableEq

def init : State := ⟨[], false, 0⟩

def step (d : Nat) (s : State) (i : In) : State × Out :=
  if d = 0 then (s, ⟨none, none, false, false⟩)
  else if d = 1 then
    let wrdy := !s.rv
    let rrdy := s.rv
    let wr : Option Nat := if wrdy then i.w else none
    let rrun := i.r && rrdy
    let rd' := match wr with
      | some v => v
      | none => s.rd
    -- `If(do_write): level := 1` then `If(do_read): level := 0` (later statement wins)
    let rv' := if rrun then false else if wr.isSome then true else s.rv
    (⟨s.inner, rv', rd'⟩, ⟨wr, if rrun then some s.rd else none, rrdy, wrdy⟩)
  else
    let wrdy := s.inner.length != d - 1          -- w_rdy = inner_level != inner_depth
    let rrdy := s.rv
    let wr : Option Nat := if wrdy then i.w else none
    let rrun := i.r && rrdy                        -- = r_en (the method body runs)
    let innerRead := s.inner.length != 0 && (!s.rv || rrun)
    let inner1 := if innerRead then s.inner.tail else s.inner
    let rd' := if innerRead then (match s.inner with | x :: _ => x | [] => s.rd) else s.rd
    let rv' := if innerRead then true else if rrun then false else s.rv
    (⟨inner1 ++ wr.toList, rv', rd'⟩, ⟨wr, if rrun then some s.rd else none, rrdy, wrdy⟩)

def run (d : Nat) (s : State) (is : List In) : State × List Out := runWith (step d) s is

/-- stored elements, oldest first: the output register, then the inner memory -/
def abs (s : State) : List Nat := (if s.rv then [s.rd] else []) ++ s.inner

def ev (o : Out) : Ev := ⟨o.wr, o.rd, false⟩

end TxV.BufferedFifo
