import TxV.Model.Assign
/-!
Line-protocol glue for the C40 driver (parsing / printing); compiled with the library so that
`lean --run Driver/C40.lean` has nothing to elaborate.  No theorem is about this file.

protocol
  `cfg`                               → `ok`
  `as l=<rpn> r=<rpn> f=<rpn>`        → `ok n=<statements> L<store>=<bit sources> …` | `raise`
      one `L<store>=` token per signal on the left-hand side (ascending); bit sources, LSB first,
      comma-separated: `r<store>.<bit>` a bit of a right-hand signal, `0`/`1` a constant, `-` not assigned

  rpn (comma-separated stack program)
      layouts   `b<w>` unsigned leaf, `g<w>` signed leaf, `e<w>.<id>` Enum class id of width w, `n<w>` IntEnum of width w, `K<name>` / `N<i>` a key, `s<n>` struct of n
                (key, layout) pairs, `u<n>` union, `a<n>` array of length n (pops its element layout)
      objects   `V<store>` Signal(layout) (pops a layout), `P<idx>.<s1>/<s2>/…` Array of Signal(layout)
                indexed by a signal whose value is idx, `P<i>_<j>_<k>.<n1>x<n2>x<n3>.<s1>/…` nested Arrays
                `arr[i][j][k]` (signals in row-major order), `i<v>` int, `C<bits>` layout.const with these bits (pops a layout), `E<v>.<w>.<id>` a member of Enum id, `D<n>` dict of n (key, object) pairs,
                `L<n>` list of n objects
      selection `mC` `mL` `mR` `mA` AssignType, `I<n>` iterable of n keys, `M<n>` mapping of n (key, selection) pairs
-/
namespace TxV.Assign.IO
open TxV TxV.Proto TxV.Assign

inductive Item
  | key (k : Key)
  | lay (l : Layout)
  | obj (o : Obj)
  | sel (s : Sel)

def mkLFields : List Item → Option LFields
  | [] => some .nil
  | .key (.name n) :: .lay l :: t => (mkLFields t).map (LFields.cons n l)
  | _ => none

def mkMembers : List Item → Option Members
  | [] => some .nil
  | .key k :: .obj o :: t => (mkMembers t).map (Members.cons k o)
  | _ => none

def mkListMembers : Nat → List Item → Option Members
  | _, [] => some .nil
  | i, .obj o :: t => (mkListMembers (i + 1) t).map (Members.cons (.idx i) o)
  | _, _ => none

def mkKeys : List Item → Option (List Key)
  | [] => some []
  | .key k :: t => (mkKeys t).map (k :: ·)
  | _ => none

def mkSelMap : List Item → Option SelMap
  | [] => some .nil
  | .key k :: .sel s :: t => (mkSelMap t).map (SelMap.cons k s)
  | _ => none

def popN (st : List Item) (n : Nat) : Option (List Item × List Item) :=
  if n ≤ st.length then some ((st.take n).reverse, st.drop n) else none

def mkPTrees (l : List PTree) : PTrees :=
  l.foldr PTrees.cons .nil

/-- split into consecutive chunks of `n` -/
def chunks {α} (n : Nat) (l : List α) : List (List α) :=
  if n = 0 then [] else (List.range (l.length / n)).map fun i => (l.drop (i * n)).take n

/-- the element tree with dimensions `dims` (outermost first) over the signals listed in row-major order -/
def buildTree (dims : List Nat) (ts : List PTree) : Option PTree :=
  if dims.any (· == 0) || ts.length ≠ dims.foldl (· * ·) 1 then none
  else
    match dims.reverse.foldl (fun ts d => (chunks d ts).map fun c => PTree.node (mkPTrees c)) ts with
    | [t] => some t
    | _ => none

def rpnStep (st : Option (List Item)) (tok : String) : Option (List Item) :=
  match st with
  | none => none
  | some st =>
    let c := (tok.take 1).toString
    let rest := (tok.drop 1).toString
    if c == "K" then some (.key (.name rest) :: st)
    else if c == "N" then rest.toNat?.map fun i => Item.key (.idx i) :: st
    else if c == "b" then rest.toNat?.map fun w => Item.lay (.leaf w false) :: st
    else if c == "g" then rest.toNat?.map fun w => Item.lay (.leaf w true) :: st
    else if c == "i" then rest.toNat?.map fun v => Item.obj (.int v (bitsFor v) false none true) :: st
    else if c == "n" then rest.toNat?.map fun w => Item.lay (.enum w (1000 + w) true) :: st   -- the IntEnum class of width w
    else if c == "e" then
      match (rest.splitOn ".").mapM String.toNat? with
      | some [w, id] => some (Item.lay (.enum w id false) :: st)
      | _ => none
    else if c == "C" then
      match rest.toNat?, st with
      | some v, .lay l :: st' => some (.obj (ofConst l v) :: st')
      | _, _ => none
    else if c == "E" then                                                              -- a member of an Enum class given directly
      match (rest.splitOn ".").mapM String.toNat? with
      | some [v, w, id] => some (Item.obj (.int (v % 2 ^ w) w false (some id) false) :: st)
      | _ => none
    else if c == "m" then
      (if rest == "C" then some Mode.common else if rest == "L" then some Mode.lhs
        else if rest == "R" then some Mode.rhs else if rest == "A" then some Mode.all else none).map
        fun m => Item.sel (.mode m) :: st
    else if c == "V" then
      match rest.toNat?, st with
      | some s, .lay l :: st' => some (.obj (ofLayout l s 0 true) :: st')
      | _, _ => none
    else if c == "P" then
      match rest.splitOn ".", st with
      | [i, ss], .lay l :: st' =>
        match i.toNat?, (ss.splitOn "/").mapM String.toNat? with
        | some i, some stores =>
          (nestedProxy (.node (mkPTrees (stores.map PTree.leaf))) [i] (ofLayout l 0 0 true)).map fun o => Item.obj o :: st'
        | _, _ => none
      | [is, ds, ss], .lay l :: st' =>
        match (is.splitOn "_").mapM String.toNat?, (ds.splitOn "x").mapM String.toNat?, (ss.splitOn "/").mapM String.toNat? with
        | some idxs, some dims, some stores =>
          (buildTree dims (stores.map PTree.leaf)).bind fun t =>
            (nestedProxy t idxs (ofLayout l 0 0 true)).map fun o => Item.obj o :: st'
        | _, _, _ => none
      | _, _ => none
    else
      match rest.toNat? with
      | none => none
      | some n =>
        if c == "s" then (popN st (2 * n)).bind fun (xs, st') => (mkLFields xs).map fun f => Item.lay (.struct f) :: st'
        else if c == "u" then (popN st (2 * n)).bind fun (xs, st') => (mkLFields xs).map fun f => Item.lay (.union f) :: st'
        else if c == "a" then
          match st with
          | .lay l :: st' => some (.lay (.array l n) :: st')
          | _ => none
        else if c == "D" then (popN st (2 * n)).bind fun (xs, st') => (mkMembers xs).map fun m => Item.obj (.dict m) :: st'
        else if c == "L" then (popN st n).bind fun (xs, st') => (mkListMembers 0 xs).map fun m => Item.obj (.list m) :: st'
        else if c == "I" then (popN st n).bind fun (xs, st') => (mkKeys xs).map fun k => Item.sel (.iter k) :: st'
        else if c == "M" then (popN st (2 * n)).bind fun (xs, st') => (mkSelMap xs).map fun m => Item.sel (.map m) :: st'
        else none

def parseRpn (s : String) : Option Item :=
  match (s.splitOn ",").foldl rpnStep (some []) with
  | some [x] => some x
  | _ => none

def parseObj (s : String) : Option Obj :=
  match parseRpn s with
  | some (.obj o) => some o
  | _ => none

def parseSel (s : String) : Option Sel :=
  match parseRpn s with
  | some (.sel x) => some x
  | _ => none

/-! ### the signals of an operand -/

mutual
/-- (signal, number of bits) for every node of the object; under a proxy every element signal -/
def extents (c : Option (List Nat)) : Obj → List (Nat × Nat)
  | .val st off w _ _ => (match c with | some ss => ss | none => [st]).map fun s => (s, off + w)
  | .int _ _ _ _ _ => []
  | .enumv st off w _ => (match c with | some ss => ss | none => [st]).map fun s => (s, off + w)
  | .const _ _ _ _ _ => []
  | .view _ st off size ms => ((match c with | some ss => ss | none => [st]).map fun s => (s, off + size)) ++ extentsM c ms
  | .dict ms => extentsM c ms
  | .list ms => extentsM c ms
  | .proxy _ ss t => extents (some ss) t
def extentsM (c : Option (List Nat)) : Members → List (Nat × Nat)
  | .nil => []
  | .cons _ o t => extents c o ++ extentsM c t
end

/-- signals in ascending order with their widths -/
def signals (o : Obj) : List (Nat × Nat) :=
  let ex := extents none o
  let ids := (ex.map (·.1)).eraseDups.mergeSort (· ≤ ·)
  ids.map fun s => (s, (ex.filter (·.1 == s)).foldl (fun m p => Nat.max m p.2) 0)

def resolve (c : Option PCtx) (store : Nat) : Option Nat :=
  match c with
  | none => some store
  | some p => p.stores[p.idx]?

/-- source of bit `j` of the destination of a flow -/
def srcBit (s : Src) (j : Nat) : String :=
  match s with
  | .const v w sg =>
    if j < w then (if v.testBit j then "1" else "0")
    else if sg && 0 < w && v.testBit (w - 1) then "1" else "0"
  | .bits c st off w sg =>
    match resolve c st with
    | none => "?"
    | some r =>
      if j < w then s!"r{r}.{off + j}"
      else if sg && 0 < w then s!"r{r}.{off + w - 1}"
      else "0"

def applyFlow (m : List ((Nat × Nat) × String)) (f : Flow) : List ((Nat × Nat) × String) :=
  match resolve f.dc f.dstore with
  | none => ((0, 0), "?") :: m
  | some d => ((List.range f.dw).map fun j => ((d, f.doff + j), srcBit f.src j)) ++ m

def showResult (lhs : Obj) (ps : List Pair) : String :=
  let m := ps.foldl (fun m p => applyFlow m p.flow) []
  let bad := m.any fun e => e.2 == "?"
  let sigs := signals lhs
  let toks := sigs.map fun (s, w) =>
    let bits := (List.range w).map fun j =>
      match m.find? (fun e => e.1 == (s, j)) with
      | some e => e.2
      | none => "-"
    s!"L{s}=" ++ ",".intercalate bits
  if bad then "internal" else " ".intercalate (s!"ok n={ps.length}" :: toks)

def stepLine (s : Unit) (line : String) : Unit × String :=
  let t := tokens line
  let out :=
    match t.head? with
    | some "cfg" => "ok"
    | some "as" =>
      match (kv? t "l").bind parseObj, (kv? t "r").bind parseObj, (kv? t "f").bind parseSel with
      | some l, some r, some f =>
        match assign l r f with
        | .ok ps => showResult l ps
        | .error _ => "raise"
      | _, _, _ => "bad-op"
    | _ => "bad-op"
  (s, out)

end TxV.Assign.IO
