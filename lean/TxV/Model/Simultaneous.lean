import TxV.Model.Sched
/-!
# `condition()`, `_simultaneous`, `Connect` — executable model (C12, C13)

Transcription of
* transactron/lib/simultaneous.py:57-98 (`condition`): what one use adds to the flat design
  (`condOk`) and how the readiness of its branches is derived from the condition inputs
  (`branchReadyExpr`: `ready.eq(cond if cond is not None else ~Cat(*conds).any())`, line 78);
* transactron/core/manager.py:346-376 (`_conditionally_called`) and :378-460 (`_simultaneous`):
  `simultaneous : Design → Except SReject MergeOut`, from the PRE-merge flat design (bodies carry
  `simul` = `simultaneous_list`, `indep` = `independent_list`) to the POST-merge design the rest of
  `TransactionManager.elaborate` works on, together with the `enable_call` of every call of a merged
  transaction (`enDeps`: the bodies whose `run` signals are and-ed, manager.py:454-455);
* transactron/lib/connectors.py:268-283 (`Connect`): `read` returns what `write` received and
  vice versa (`connectReadOut`, `connectWriteOut`);
* the evaluation of one cycle from the *free inputs* (`evalCycle`): `ready` of user bodies and
  `enable_call`s are inputs, `ready` of branches and the enables of merged calls are derived, the
  scheduler equations are those of `TxV.CoreModel` (Model/Sched.lean) on the post-merge design.

Sets of transactions are ascending duplicate-free lists (`norm`).  Python iterates over sets
of frozensets while creating merged transactions, so their creation order is not determined by
the source; the model (like the harness for the real objects) lists the groups in lexicographic
order of their ascending member lists and numbers merged transactions and their call sites
accordingly.  Core Lean only.
-/
namespace TxV.Simul
open TxV.CoreModel

/-- what the real code raises in `_simultaneous`, or a rejection by the core manager model -/
inductive SReject where
  | core (r : Reject)
  | simulCondUnsupported      -- "Simultaneity constraint for conditionally called method … not supported"
  | simulUnsat                -- "Unsatisfiable simultaneity constraints for …"
  | fuel                      -- closure fuel exhausted (a bound of the model, never a verdict)
deriving DecidableEq, Repr, Inhabited

def SReject.name : SReject → String
  | .core r => r.name
  | .simulCondUnsupported => "simulCondUnsupported"
  | .simulUnsat => "simulUnsat"
  | .fuel => "fuel"

def simulOf (D : Design) (b : BodyId) : List BodyId := match D.body? b with | some x => x.simul | none => []
def indepOf (D : Design) (b : BodyId) : List BodyId := match D.body? b with | some x => x.indep | none => []

/-! ## sets of body ids -/

/-- ascending, duplicate-free list of the members of `l` below `n` -/
def norm (n : Nat) (l : List Nat) : List Nat := (List.range n).filter l.contains

def union (n : Nat) (a b : List Nat) : List Nat := norm n (a ++ b)

def meets (a b : List Nat) : Bool := a.any b.contains

def subset (a b : List Nat) : Bool := a.all b.contains

/-- lexicographic order on lists of numbers -/
def lexLe : List Nat → List Nat → Bool
  | [], _ => true
  | _ :: _, [] => false
  | a :: as, b :: bs => decide (a < b) || (a == b && lexLe as bs)

def insertSorted (g : List Nat) : List (List Nat) → List (List Nat)
  | [] => [g]
  | h :: t => if lexLe g h then g :: h :: t else h :: insertSorted g t

def sortGroups : List (List Nat) → List (List Nat)
  | [] => []
  | g :: t => insertSorted g (sortGroups t)

/-- add the elements of `xs` that are not yet in `acc` (at the end) -/
def addAll (acc xs : List Nat) : List Nat := xs.foldl (fun a x => if a.contains x then a else a ++ [x]) acc

/-! ## `_conditionally_called` (manager.py:346-376) -/

/-- body.py:77-83 `conditional_calls`: callees with a call whose control path is more than one edge
deeper than the body's own (`enable_call=` wraps the call into an `m.If`, method.py:311-313) -/
def condCalls (D : Design) (b : BodyId) : List BodyId :=
  ((D.calls b).filter fun c => decide (c.path.path.length > (D.defPath b).path.length + 1)).map (·.callee)

/-- manager.py:350-355: methods with a call chain from a transaction along which some call is conditional -/
def condCalledDirect (D : Design) (mm : MethodMap) : List BodyId :=
  D.methods.filter fun m => mm.info.any fun (t, l) => l.any fun (m', ci) =>
    m' == m && (ci.ancestors.zip (ci.ancestors.drop 1 ++ [t])).any fun (callee, caller) =>
      (condCalls D caller).contains callee

/-- one pass of the worklist loop manager.py:359-374 over all methods currently in `ret` -/
def infectRound (D : Design) (mm : MethodMap) (ret : List BodyId) : Except SReject (List BodyId) :=
  (ret.filter fun b => !D.isTrans b).foldlM (init := ret) fun acc m =>
    let rdEnds := ((D.rels m).filter (·.readyDep)).map (·.dst)
    (simulOf D m).foldlM (init := acc) fun acc dep =>
      if rdEnds.contains dep && D.transactions.contains dep then
        .ok (addAll (addAll acc (mm.methodsOf dep)) [dep])
      else .error .simulCondUnsupported

def infect (D : Design) (mm : MethodMap) : Nat → List BodyId → Except SReject (List BodyId)
  | 0, ret => .ok ret
  | f + 1, ret => do
    let r ← infectRound D mm ret
    if r.length == ret.length then .ok r else infect D mm f r

def conditionallyCalled (D : Design) (mm : MethodMap) : Except SReject (List BodyId) :=
  infect D mm (D.bodies.length + 1) (condCalledDirect D mm)

/-! ## `_simultaneous` (manager.py:378-460) -/

/-- manager.py:383-395: orderings between simultaneous bodies are removed -/
def keepRel (simul : List BodyId) (r : Rel) : Bool :=
  !(!r.conflict && r.prio != .undefined && simul.contains r.dst)

/-- manager.py:398-405: for every body the transactions of it and of its `independent_list` are
pairwise independent -/
def indepSets (D : Design) (mm : MethodMap) : List (List BodyId) :=
  D.methodsAndTransactions.map fun e => (e :: indepOf D e).flatMap mm.transFor

def independent (sets : List (List BodyId)) (a b : BodyId) : Bool :=
  sets.any fun s => s.contains a && s.contains b

/-- manager.py:409-412 -/
def allSimultaneous (D : Design) (mm : MethodMap) : List BodyId :=
  D.methodsAndTransactions.flatMap fun e => (simulOf D e).flatMap mm.transFor

/-- manager.py:414-424: the pairs `(tr1, tr2)` in generation order -/
def rawPairs (D : Design) (mm : MethodMap) : List (BodyId × BodyId) :=
  D.methodsAndTransactions.flatMap fun e => (simulOf D e).flatMap fun s =>
    (mm.transFor e).flatMap fun t1 => (mm.transFor s).map fun t2 => (t1, t2)

def dedupGroups : List (List Nat) → List (List Nat)
  | [] => []
  | g :: t => g :: (dedupGroups t).filter (· != g)

/-- manager.py:431-432 -/
def conflicting (sets : List (List BodyId)) (g : List BodyId) : Bool :=
  g.any fun a => g.any fun b => a != b && independent sets a b

/-- manager.py:434-441: the worklist loop (`q.popleft()`, `q.extend(…)`, `tr_simultaneous.add`) -/
def closure (n : Nat) (pairs : List (List BodyId)) (sets : List (List BodyId)) :
    Nat → List (List BodyId) → List (List BodyId) → Option (List (List BodyId))
  | _, [], tr => some tr
  | 0, _ :: _, _ => none
  | f + 1, g :: q, tr =>
    if tr.contains g || conflicting sets g then closure n pairs sets f q tr
    else closure n pairs sets f (q ++ (pairs.filter fun p => meets g p).map fun p => union n g p) (tr ++ [g])

/-- manager.py:444-447 -/
def maximalGroups (tr : List (List BodyId)) : List (List BodyId) :=
  tr.filter fun g => !(tr.any fun g2 => subset g g2 && g != g2)

/-- the `enable_call` of the call of (the method made from) `t` in a merged transaction:
`Cat(dep.run for dep in ready_dependencies[t] & conditionally_called).all()` (manager.py:453-455) -/
def enDepsOf (D : Design) (cc : List BodyId) (t : BodyId) : List BodyId :=
  (readyDeps D t).filter cc.contains

structure MergeOut where
  /-- the post-merge design (`self.transactions`, `self.methods` after `_simultaneous`) -/
  D : Design
  /-- `final_simultaneous`, canonical order -/
  groups : List (List BodyId)
  /-- per call site of a merged transaction: the bodies whose `run` is and-ed into its `enable_call` -/
  enDeps : List (SiteId × List BodyId)
  /-- transactions dropped without being joined (simultaneous with an uncalled method) -/
  dropped : List BodyId
  condCalled : List BodyId
deriving Repr, Inhabited

def maxModule (D : Design) : Int :=
  D.bodies.foldl (fun acc b => b.calls.foldl (fun acc c => max acc c.path.module) (max acc b.defPath.module)) (-1)

def offsets : List (List Nat) → Nat → List Nat
  | [], _ => []
  | g :: t, o => o :: offsets t (o + g.length)

/-- the merged transaction of the `k`-th group (manager.py:450-455): one call per member, each
wrapped into `m.If(enable_call)` inside the manager's private `TModule` -/
def mergedBody (mod : Int) (n : Nat) (k : Nat) (off : Nat) (g : List BodyId) : Body :=
  { isTrans := true, defPath := ⟨mod, []⟩, defOrder := n + k,
    calls := g.mapIdx fun j t => { callee := t, path := ⟨mod, [⟨0, k⟩, ⟨0, j⟩]⟩, site := off + j } }

def closureFuel (pairs : List (List BodyId)) (nTrans : Nat) : Nat :=
  (pairs.length + 1) * 2 ^ (min nTrans 14) + pairs.length * pairs.length + 8

/-- manager.py:398-447: independence sets, pair generation (with the unsatisfiability check), transitive
closure, maximal groups; canonical (lexicographic) order of the result -/
def groupsOf (D : Design) (mm : MethodMap) : Except SReject (List (List BodyId)) :=
  let n := D.bodies.length
  let sets := indepSets D mm
  let raw := rawPairs D mm
  if raw.any (fun ab => independent sets ab.1 ab.2) then .error .simulUnsat
  else
    let pairs := dedupGroups (raw.map fun ab => norm n [ab.1, ab.2])
    match closure n pairs sets (closureFuel pairs D.transactions.length) pairs [] with
    | some tr => .ok (sortGroups (maximalGroups tr))
    | none => .error .fuel

/-- manager.py:383-395 (orderings removed), :449-460 (joined transactions become methods, dropped ones
disappear, one merged transaction per group) -/
def oldBody (allSim dropped : List BodyId) (i : Nat) (b : Body) : Body :=
  { b with isTrans := b.isTrans && !allSim.contains i, rels := b.rels.filter (keepRel b.simul), simul := [], indep := [],
           calls := if dropped.contains i then [] else b.calls }

def mergeOut (D : Design) (nus : Nat) (cc allSim : List BodyId) (groups : List (List BodyId)) : MergeOut :=
  let n := D.bodies.length
  let joined := norm n groups.flatten
  let dropped := (List.range n).filter fun b => D.transactions.contains b && allSim.contains b && !joined.contains b
  let mod := maxModule D + 1
  let offs := offsets groups nus
  let old := D.bodies.mapIdx (oldBody allSim dropped)
  let merged := (groups.zip offs).mapIdx fun k go => mergedBody mod n k go.2 go.1
  let bodies := old ++ merged
  let D' : Design :=
    { bodies := bodies,
      transactions := (List.range bodies.length).filter fun b => (bodies.getD b default).isTrans,
      methods := (List.range bodies.length).filter fun b => !(bodies.getD b default).isTrans }
  let enDeps := (groups.zip offs).flatMap fun go => go.1.mapIdx fun j t => (go.2 + j, enDepsOf D cc t)
  { D := D', groups := groups, enDeps := enDeps, dropped := dropped, condCalled := cc }

/-- `_simultaneous` on a design with `nus` user call sites (numbered `0 … nus-1`) -/
def simultaneous (D : Design) (nus : Nat) : Except SReject MergeOut :=
  -- manager.py:379 `MethodMap(self.transactions, self.methods)` raises for cycles / double calls
  match validateAll D with
  | .error r => .error (.core r)
  | .ok _ =>
    let mm := methodMap D
    match conditionallyCalled D mm with
    | .error e => .error e
    | .ok cc =>
      match groupsOf D mm with
      | .error e => .error e
      | .ok groups => .ok (mergeOut D nus cc (allSimultaneous D mm) groups)

/-- the call sites that are enabled whenever their caller runs: user calls placed directly in the
caller's body (control path one edge longer than the body's own: no `enable_call`, no `m.If`) and
merged calls whose `enable_call` is the empty conjunction -/
def linkSites (D : Design) (enDeps : List (SiteId × List BodyId)) (nus : Nat) : List Nat :=
  (D.allSites.filterMap fun sc =>
    if sc.2.site < nus && sc.2.path.path.length == (D.defPath sc.1).path.length + 1 then some sc.2.site else none) ++
  (enDeps.filterMap fun e => if e.2.isEmpty then some e.1 else none)

/-! ## `condition()` (simultaneous.py:57-98) -/

structure Use where
  /-- `this = Body.get()`: the body in which `condition(m)` is used -/
  parent : BodyId
  /-- the branch transactions in creation order, the implicit default of `nonblocking` included -/
  branches : List BodyId
  /-- per explicit `branch(cond)`: the index of the condition input, `none` for `branch()` -/
  conds : List (Option Nat)
  nonblocking : Bool
  priority : Bool
deriving Repr, Inhabited

/-- simultaneous.py:93-95: `if nonblocking and not last: with branch(): pass` -/
def Use.allConds (u : Use) : List (Option Nat) :=
  if u.nonblocking && u.conds.getLast? != some none then u.conds ++ [none] else u.conds

/-- the last branch is a catch-all (explicit or implicit) -/
def Use.hasDefault (u : Use) : Bool := u.allConds.getLast? == some none

/-- simultaneous.py:78 `ready.eq(cond if cond is not None else ~Cat(*conds).any())`; `conds` are the
ready signals of the branches added before, which are the condition inputs (a default can only
be last: simultaneous.py:75-76 raises otherwise) -/
def branchReady (inp : Nat → Bool) (u : Use) (k : Nat) : Bool :=
  match u.allConds[k]? with
  | some (some c) => inp c
  | some none => !((u.allConds.take k).any fun o => match o with | some c => inp c | none => false)
  | none => false

def hasRel (D : Design) (a b : BodyId) (p : Rel → Bool) : Bool := (D.rels a).any fun r => r.dst == b && p r

def consecutive : List Nat → List (Nat × Nat)
  | a :: b :: t => (a, b) :: consecutive (b :: t)
  | _ => []

/-- what one use of `condition()` leaves in the PRE-merge design: one nested transaction per branch
(body.py:94 nesting relation), `this.simultaneous_alternatives(*transactions)` (simultaneous.py:97),
the `schedule_before` chain iff `priority` (simultaneous.py:82-83), a default only in last position -/
def condOk (D : Design) (u : Use) : Bool :=
  u.branches.length == u.allConds.length &&
  (u.allConds.dropLast.all fun o => o.isSome) &&
  u.branches.Nodup && !u.branches.contains u.parent &&
  (u.branches.all fun b => D.isTrans b && (simulOf D b).contains u.parent && (simulOf D u.parent).contains b &&
    hasRel D u.parent b fun r => r.readyDep && !r.conflict && r.prio == .left) &&
  (match u.branches with
   | [] => false
   | b0 :: rest => rest.all fun b => (indepOf D b0).contains b) &&
  ((consecutive u.branches).all fun (a, b) =>
    hasRel D a b (fun r => !r.conflict && !r.readyDep && r.prio == .left) == u.priority)

/-! ## one cycle from the free inputs -/

/-- how a `ready=` / `enable_call=` of the user circuit is driven -/
inductive Src where
  | one
  | inp (k : Nat)
  /-- the body / call is written inside a control structure (If/Elif/Else, Switch, FSM state): the guard of
  its alternative, as a Boolean expression over the inputs, is and-ed (Amaranth semantics, written out by the harness) -/
  | not (a : Src)
  | and (a b : Src)
deriving Repr, Inhabited, DecidableEq

def Src.eval (inp : Nat → Bool) : Src → Bool
  | .one => true
  | .inp k => inp k
  | .not a => !(a.eval inp)
  | .and a b => a.eval inp && b.eval inp

structure Env where
  /-- the pre-merge design as extracted from the real objects -/
  pre : Design
  out : MergeOut
  E : Elab
  order : List BodyId
  uses : List Use
  /-- `ready=` of every pre-merge body that is not a branch of a `condition()` -/
  rdy : List Src
  /-- `enable_call=` of every user call site -/
  en : List Src
  /-- per user call site: data input index and width of the argument (`none`: no argument) -/
  args : List (Option (Nat × Nat))
  nus : Nat

def Env.readyOf (env : Env) (inp : Nat → Bool) (b : BodyId) : Bool :=
  if b ≥ env.pre.bodies.length then true   -- merged transactions: `Transaction.body(m)` with the default `ready=C(1)`
  else
    match env.uses.findSome? fun u => let k := u.branches.idxOf b; if k < u.branches.length then some (u, k) else none with
    | some (u, k) => branchReady inp u k
    | none => (env.rdy.getD b .one).eval inp

def Env.argOf (env : Env) (dval : Nat → Nat) (s : SiteId) : Nat :=
  match env.args.getD s none with
  | some (k, w) => dval k % 2 ^ w
  | none => 0

/-- the valuation for a given assignment `rb` of the run signals of all bodies: user enables from the
inputs, enables of merged calls from the runs they are derived from -/
def Env.valOf (env : Env) (inp : Nat → Bool) (dval : Nat → Nat) (rb : BodyId → Bool) : Val :=
  { ready := env.readyOf inp,
    en := fun s => if s < env.nus then (env.en.getD s .one).eval inp
                   else match env.out.enDeps.find? (·.1 == s) with
                        | some (_, deps) => deps.all rb
                        | none => false,
    arg := env.argOf dval,
    loc := fun _ => 0 }

structure CycleRes where
  v : Val
  run : BodyId → Bool      -- transactions (the scheduler's grants)
  rb : List Bool           -- run of every body
  fixed : Bool

def Env.runsFor (env : Env) (v : Val) : (BodyId → Bool) × List Bool :=
  let ran := evalEagerList env.out.D env.E v env.order
  let run : BodyId → Bool := fun t => ran.contains t
  (run, (List.range env.out.D.bodies.length).map (runAny env.E v run))

/-- least fixed point of the derived enables, by iteration from "no body runs" -/
def Env.iterate (env : Env) (inp : Nat → Bool) (dval : Nat → Nat) : Nat → List Bool → CycleRes
  | 0, rb =>
    let v := env.valOf inp dval fun b => rb.getD b false
    let (run, rb') := env.runsFor v
    { v := v, run := run, rb := rb', fixed := rb' == rb }
  | f + 1, rb =>
    let v := env.valOf inp dval fun b => rb.getD b false
    let (run, rb') := env.runsFor v
    if rb' == rb then { v := v, run := run, rb := rb', fixed := true } else env.iterate inp dval f rb'

def Env.evalCycle (env : Env) (inp : Nat → Bool) (dval : Nat → Nat) : CycleRes :=
  if env.out.enDeps.all (·.2.isEmpty) then
    -- no enable is derived from a run signal: the valuation does not depend on `rb`
    let v := env.valOf inp dval fun _ => false
    let (run, rb) := env.runsFor v
    { v := v, run := run, rb := rb, fixed := true }
  else
    env.iterate inp dval (env.out.D.bodies.length + 2) ((List.range env.out.D.bodies.length).map fun _ => false)

/-! ## `Connect` (connectors.py:268-283) -/

/-- `read` returns `read_value`, which `write`'s body assigns from its argument in `av_comb`
(unconditionally): the value is `write.data_in` -/
def connectReadOut (D : Design) (E : Elab) (v : Val) (rb : BodyId → Bool) (write : BodyId) : Nat :=
  dataIn D E v rb write

/-- `write` returns `rev_read_value`, assigned from `read`'s argument -/
def connectWriteOut (D : Design) (E : Elab) (v : Val) (rb : BodyId → Bool) (read : BodyId) : Nat :=
  dataIn D E v rb read

end TxV.Simul
