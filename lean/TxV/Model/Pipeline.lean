import TxV.Model.Util
/-!
Specification automaton for `transactron.lib.pipeline.PipelineBuilder` (pipeline.py:463-534)
and a model of its liveness analysis `get_live_signals` (pipeline.py:411-461).

The pipeline built by `elaborate` is a chain of nodes `0 … n-1`.  In front of every node
`i ≥ 1` there is a *link* (the forwarder created at pipeline.py:523: a `Pipe`, capacity 1, or a
`BasicFifo(depth)`), and a `no_dependency` node additionally owns a *decoupling* `Pipe`
(pipeline.py:507-512) between the node's method and its combiner.  Node `i`'s combiner
(pipeline.py:485-505) reads link `i`, hands the node's required fields to the node's method,
takes the node's generated fields, and writes the live fields to link `i+1`.

The automaton is nondeterministic: a step is labelled with the set of combiners that run, the
decoupling-pipe entries that happen and the data supplied by the environment; `step` checks that
the label is *enabled* (inputs available, outputs have room; `Pipe`: room also if its reader
runs in the same cycle) and computes the data.  The real circuit's schedule is not predicted;
the driver checks that the observed run is a run of this automaton (trace inclusion).
-/
namespace TxV.Pipeline

/-- a record travelling through the pipeline: `(field id, value)` pairs -/
abbrev Rec := List (Nat × Nat)

/-- static description of one node, abstract in its data functions -/
structure Node where
  nodep : Bool                 -- `no_dependency=True`: decoupling Pipe in front of the combiner
  cap : Nat                    -- capacity of the link in front of the node (1 = Pipe, depth = BasicFifo); unused for node 0
  isPipe : Bool                -- the link is a `Pipe`: writable also when its reader runs in the same cycle
  ret : Rec → Rec              -- input record ↦ the node's required fields (returned to / passed to the node's method)
  entryVal : Rec → Rec         -- nodep: caller's arguments ↦ what the node's method writes into the decoupling Pipe
  gen : Rec → Rec → Rec        -- input record, given values (caller's arguments / decoupling Pipe content) ↦ generated fields
  merge : Rec → Rec → Rec      -- input record, generated fields ↦ record written to the next link (pipeline.py:497-501)
  guard : Rec → Bool           -- argument validation (`validate_arguments`) of the node's method on the required fields:
                               -- the combiner can run only for an input record that passes

/-- the node's stage function on whole records -/
def Node.apply (nd : Node) (r x : Rec) : Rec := nd.merge r (nd.gen r x)

/-- dynamic state of one node: content of the link in front of it and of its decoupling Pipe -/
structure NodeSt where
  q : List Rec
  nq : List Rec
deriving Repr, DecidableEq

abbrev State := List NodeSt

def init (nodes : List Node) : State := nodes.map fun _ => { q := [], nq := [] }

/-- what happens at one node in one cycle (the label of a step) -/
structure Ev where
  fire : Bool            -- the node's combiner runs
  x : Rec                -- arguments supplied by the caller of an external, dependent node (ignored otherwise)
  entry : Option Rec     -- nodep: the node's method runs (with these caller arguments) and fills the decoupling Pipe
deriving Repr, DecidableEq

structure Label where
  evs : List Ev
  clear : Bool
deriving Repr, DecidableEq

/-- data of one combiner run -/
structure Fired where
  inp : Rec      -- record consumed from the link in front (`[]` for node 0)
  given : Rec    -- caller's arguments / decoupling Pipe content used
  ret : Rec      -- required fields handed out
  gen : Rec      -- generated fields taken in
  out : Rec      -- record written to the next link
deriving Repr, DecidableEq

structure NodeOut where
  fired : Option Fired
  ent : Option Rec       -- value written into the decoupling Pipe
deriving Repr, DecidableEq

/-- the combiner run of one node, if the label asks for it and it is enabled -/
def fireOf (first : Bool) (nd : Node) (st : NodeSt) (ev : Ev) : Except String (Option Fired) :=
  if ev.fire then
    match (if first then some [] else st.q.head?), (if nd.nodep then st.nq.head? else some ev.x) with
    | some r, some x =>
      if nd.guard r then
        .ok (some { inp := r, given := x, ret := nd.ret r, gen := nd.gen r x, out := nd.apply r x })
      else .error "combiner ran although the argument validation of the node's method rejects the item"
    | none, _ => .error "combiner ran but the link in front of it is empty"
    | _, none => .error "combiner ran but the decoupling pipe is empty"
  else .ok none

/-- one cycle of the chain, front to back; `pushed` is what the previous node writes into the
    link in front of the current one -/
def stepNodes (first : Bool) (pushed : Option Rec) :
    List Node → List NodeSt → List Ev → Except String (List NodeSt × List NodeOut)
  | [], [], [] => .ok ([], [])
  | nd :: nds, st :: sts, ev :: evs =>
    if pushed.isSome && !(decide (st.q.length < nd.cap) || (nd.isPipe && ev.fire)) then
      .error "previous combiner ran but the link has no room"
    else if ev.entry.isSome && !(nd.nodep && (st.nq.isEmpty || ev.fire)) then
      .error "decoupling pipe written but it has no room (or node is not no_dependency)"
    else
      match fireOf first nd st ev with
      | .error e => .error e
      | .ok f =>
        match stepNodes false (f.map (·.out)) nds sts evs with
        | .error e => .error e
        | .ok (sts', outs) =>
          let ent := ev.entry.map nd.entryVal
          let q' := (if f.isSome && !first then st.q.tail else st.q) ++ pushed.toList
          let nq' := (if f.isSome && nd.nodep then st.nq.tail else st.nq) ++ ent.toList
          .ok ({ q := q', nq := nq' } :: sts', { fired := f, ent := ent } :: outs)
  | _, _, _ => .error "label does not match the pipeline shape"

def step (nodes : List Node) (s : State) (l : Label) : Except String (State × List NodeOut) :=
  match stepNodes true none nodes s l.evs with
  | .error e => .error e
  | .ok (s', outs) => .ok (if l.clear then init nodes else s', outs)   -- pipeline.py:529-532

def run (nodes : List Node) (s : State) : List Label → Except String (State × List (List NodeOut))
  | [] => .ok (s, [])
  | l :: ls =>
    match step nodes s l with
    | .error e => .error e
    | .ok (s', o) =>
      match run nodes s' ls with
      | .error e => .error e
      | .ok (s'', os) => .ok (s'', o :: os)

/-! ### concrete nodes: field lists and affine stage functions (what the harness generates) -/

/-- generated field `field := (const + Σ coefs[j] * required[j]) mod 2^width`; `width = some w` when the
    stage (re)defines the field with its own shape, `none`: the field's base width -/
structure GenSpec where
  field : Nat
  const : Nat
  coefs : List Nat
  width : Option Nat
deriving Repr, DecidableEq

/-- description of a node as given to the builder -/
structure Desc where
  ext : Bool              -- `add_external` (caller supplies the generated fields) vs. called method / function stage
  nodep : Bool
  cap : Nat
  isPipe : Bool
  req : List Nat          -- required fields
  gen : List GenSpec      -- generated fields (coefficients unused for external nodes)
  vpred : Option (Nat × Nat)   -- `(field, mask)`: the node's method validates `(field & mask) != 0` on the required fields
deriving Repr, DecidableEq

def Desc.genFields (d : Desc) : List Nat := d.gen.map (·.field)

/-- `get_live_signals` (pipeline.py:422-446): fields live *after* each node, by the backward pass
    `live := (live \ generated) ∪ required` -/
def liveBefore (d : Desc) (after : List Nat) : List Nat :=
  (after.filter fun k => !d.genFields.contains k) ++ (d.req.filter fun k => !(after.filter fun k => !d.genFields.contains k).contains k)

def liveAfter : List Desc → List (List Nat)
  | [] => []
  | [_] => [[]]
  | _ :: d' :: ds =>
    match liveAfter (d' :: ds) with
    | [] => []            -- unreachable
    | l :: ls => liveBefore d' l :: l :: ls

def lookup (r : Rec) (k : Nat) : Option Nat := (r.find? fun p => p.1 == k).map (·.2)

def proj (fields : List Nat) (r : Rec) : Rec := fields.filterMap fun k => (lookup r k).map fun v => (k, v)

def sortFields (l : List Nat) : List Nat := (l.toArray.qsort (· < ·)).toList

def evalGen (widths : List Nat) (reqVals : Rec) (g : GenSpec) : Option (Nat × Nat) :=
  match (match g.width with | some w => some w | none => widths[g.field]?) with
  | none => none
  | some w =>
    let s := (List.zip g.coefs (reqVals.map (·.2))).foldl (fun acc p => acc + p.1 * p.2) g.const
    some (g.field, s % 2 ^ w)

/-- the abstract node of a description; `live` = fields live after the node -/
def mkNode (widths : List Nat) (d : Desc) (live : List Nat) : Node :=
  let compute : Rec → Rec := fun r => d.gen.filterMap (evalGen widths (proj d.req r))
  { nodep := d.nodep, cap := d.cap, isPipe := d.isPipe
    guard := fun r => match d.vpred with
      | none => true
      | some (f, mask) => match lookup r f with
        | some v => (v &&& mask) != 0
        | none => false
    ret := proj d.req
    entryVal := fun x => if d.ext then proj d.genFields x else compute []
    gen := fun r x => if d.ext || d.nodep then proj d.genFields x else compute r
    merge := fun r g => (sortFields live).filterMap fun k =>
      (if d.genFields.contains k then lookup g k else lookup r k).map fun v => (k, v) }

def mkNodes (widths : List Nat) (ds : List Desc) : List Node :=
  (List.zip ds (liveAfter ds)).map fun p => mkNode widths p.1 p.2

end TxV.Pipeline
