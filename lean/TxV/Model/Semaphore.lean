import TxV.Model.Util
/-!
Model of `transactron.lib.fifo.Semaphore` (fifo.py:370-418).

One `step` = one clock cycle.  The environment attempts calls (an `AdapterTrans` with
`en = 1` per method); the model says which of them execute (`done`) and what the
register `count` holds after the edge.  The three methods have no conflicts, `clear` is
nonexclusive and always ready.
-/
namespace TxV.Semaphore

structure State where
  max : Nat
  count : Nat
deriving Repr, DecidableEq

/-- attempted calls in a cycle -/
structure In where
  acq : Bool
  rel : Bool
  clr : Bool
deriving Repr, DecidableEq

/-- executed calls in a cycle -/
structure Out where
  acq : Bool
  rel : Bool
  clr : Bool
deriving Repr, DecidableEq

def init (max : Nat) : State := { max := max, count := 0 }

def acquireReady (s : State) : Bool := s.count < s.max   -- fifo.py:397
def releaseReady (s : State) : Bool := 0 < s.count        -- fifo.py:396

/-- width of the `count` register: `Signal(range(max+1))` -/
def width (max : Nat) : Nat := if max = 0 then 0 else Nat.log2 max + 1

def step (s : State) (i : In) : State × Out :=
  let a := i.acq && acquireReady s
  let r := i.rel && releaseReady s
  let c := i.clr
  -- fifo.py:399-404 ; the sum is evaluated at full precision and truncated on assignment
  let next := if c then 0 else (s.count + a.toNat - r.toNat) % 2 ^ (width s.max)
  ({ s with count := next }, { acq := a, rel := r, clr := c })

/-- run a history, collecting the executed calls of each cycle -/
def run (s : State) : List In → State × List Out
  | [] => (s, [])
  | i :: is =>
    let (s', o) := step s i
    let (s'', os) := run s' is
    (s'', o :: os)

end TxV.Semaphore
