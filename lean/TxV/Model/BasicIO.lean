import TxV.Model.Util
/-!
Model of `transactron.lib.basicio` (basicio.py): the shared trigger logic
`BasicIOBase._trigger` (basicio.py:25-42), `InputSampler` (basicio.py:116-129) and
`OutputBuffer` (basicio.py:200-207).

One `step` = one clock cycle.  `trigger` and `data` are plain input wires (no method
interface); `get`/`put` are single methods, the environment attempts a call per cycle.
Data is the flattened value of the layout (a `Nat`, assumed below `2^width` by the harness).
-/
namespace TxV.BasicIO

/-- constructor parameters `edge`, `polarity`, `synchronize` -/
structure Cfg where
  edge : Bool
  polarity : Bool
  sync : Bool
deriving Repr, DecidableEq

/-- registers created by `_trigger`.  `treg` is the synchroniser (`Signal()`, reset 0,
    basicio.py:27-28; exists only with `synchronize`), `old` is `old_trigger`
    (`Signal(init=not polarity)`, basicio.py:36-38; exists only with `edge`).  The model keeps
    both always; the unused one does not influence any output. -/
structure TState where
  treg : Bool
  old : Bool
deriving Repr, DecidableEq

def tinit (c : Cfg) : TState := { treg := false, old := !c.polarity }

/-- the trigger after the optional synchroniser (basicio.py:26-30) and the optional
    inversion (basicio.py:32-33): `new_trigger` -/
def tnew (c : Cfg) (s : TState) (trig : Bool) : Bool :=
  let t1 := if c.sync then s.treg else trig
  if c.polarity then t1 else !t1

/-- value returned by `_trigger` = readiness of the method (basicio.py:35-42) -/
def tready (c : Cfg) (s : TState) (trig : Bool) : Bool :=
  if c.edge then tnew c s trig && !s.old else tnew c s trig

/-- register update at the clock edge -/
def tstep (c : Cfg) (s : TState) (trig : Bool) : TState :=
  { treg := trig, old := tnew c s trig }

/-! ### InputSampler -/
namespace Sampler

structure State where
  t : TState
  dreg : Nat      -- `data = Signal.like(self.data)` (reset 0), only with `synchronize` (basicio.py:119-121)
deriving Repr, DecidableEq

structure In where
  trig : Bool
  data : Nat
  get : Bool      -- a caller attempts `get`
deriving Repr, DecidableEq

structure Out where
  ready : Bool         -- `get.ready`
  get : Option Nat     -- `some d` iff `get` executed, `d` the returned value
deriving Repr, DecidableEq

def init (c : Cfg) : State := { t := tinit c, dreg := 0 }

/-- the data `get` returns in this cycle (basicio.py:119-127) -/
def dataNow (c : Cfg) (s : State) (i : In) : Nat := if c.sync then s.dreg else i.data

def step (c : Cfg) (s : State) (i : In) : State × Out :=
  let r := tready c s.t i.trig
  ({ t := tstep c s.t i.trig, dreg := i.data },
   { ready := r, get := if i.get && r then some (dataNow c s i) else none })

def run (c : Cfg) (s : State) : List In → State × List Out
  | [] => (s, [])
  | i :: is =>
    let (s', o) := step c s i
    let (s'', os) := run c s' is
    (s'', o :: os)

end Sampler

/-! ### OutputBuffer -/
namespace OutBuf

structure State where
  t : TState
  obuf : Nat      -- the `data` port, driven from `sync` (reset 0, basicio.py:205)
deriving Repr, DecidableEq

structure In where
  trig : Bool
  put : Option Nat    -- a caller attempts `put v`
deriving Repr, DecidableEq

structure Out where
  ready : Bool     -- `put.ready`
  put : Bool       -- `put` executed
  data : Nat       -- value of the `data` port in this cycle
deriving Repr, DecidableEq

def init (c : Cfg) : State := { t := tinit c, obuf := 0 }

def step (c : Cfg) (s : State) (i : In) : State × Out :=
  let r := tready c s.t i.trig
  let nb := match i.put with
    | some v => if r then v else s.obuf
    | none => s.obuf
  ({ t := tstep c s.t i.trig, obuf := nb },
   { ready := r, put := i.put.isSome && r, data := s.obuf })

def run (c : Cfg) (s : State) : List In → State × List Out
  | [] => (s, [])
  | i :: is =>
    let (s', o) := step c s i
    let (s'', os) := run c s' is
    (s'', o :: os)

end OutBuf

end TxV.BasicIO
