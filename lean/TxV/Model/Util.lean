/-!
Shared helpers for the executable models and their line-protocol drivers.
Core Lean only (no Mathlib): everything here is also interpreted by `lean --run`.
-/
namespace TxV

/-- `2^w` as a modulus for `w`-bit data. -/
def pow2 (w : Nat) : Nat := 2 ^ w

/-- truncate to `w` bits (what an Amaranth assignment to a `w`-bit signal does) -/
def trunc (w : Nat) (x : Nat) : Nat := x % 2 ^ w

/-- list update that leaves the list unchanged when the index is out of range
    (Amaranth drops out-of-range memory writes) -/
def setAt {α} (l : List α) (i : Nat) (x : α) : List α := l.set i x

namespace Proto

/-- split a protocol line into tokens -/
def tokens (line : String) : List String :=
  ((line.trimAscii.toString.splitOn " ").filter (· ≠ ""))

/-- look up `key=value` among tokens -/
def kv? (toks : List String) (key : String) : Option String :=
  toks.findSome? fun t =>
    match t.splitOn "=" with
    | [k, v] => if k == key then some v else none
    | _ => none

def nat? (toks : List String) (key : String) : Option Nat :=
  (kv? toks key).bind String.toNat?

def natD (toks : List String) (key : String) (d : Nat) : Nat :=
  (nat? toks key).getD d

/-- `key=-` (absent call) ↦ none ; `key=17` ↦ some 17 -/
def optNat (toks : List String) (key : String) : Option Nat :=
  match kv? toks key with
  | some "-" => none
  | some v => v.toNat?
  | none => none

/-- presence flag: `key=1` -/
def flag (toks : List String) (key : String) : Bool := nat? toks key == some 1

/-- `1,2,3` ↦ [1,2,3]; `` or `-` ↦ [] -/
def natList (s : String) : List Nat :=
  if s == "" || s == "-" then [] else (s.splitOn ",").filterMap String.toNat?

def natListOf (toks : List String) (key : String) : List Nat :=
  match kv? toks key with
  | some v => natList v
  | none => []

def showOpt : Option Nat → String
  | none => "-"
  | some v => toString v

def showBool (b : Bool) : String := if b then "1" else "0"

def showList (l : List Nat) : String :=
  if l.isEmpty then "-" else ",".intercalate (l.map toString)

/-- generic driver loop: one output line per input line; state threaded through -/
partial def loop {σ} (h : IO.FS.Stream) (out : IO.FS.Stream) (s : σ) (step : σ → String → σ × String) : IO Unit := do
  let line ← h.getLine
  if line.isEmpty then
    out.flush
    return ()
  let (s', o) := step s line
  out.putStrLn o
  loop h out s' step

def run {σ} (init : σ) (step : σ → String → σ × String) : IO Unit := do
  loop (← IO.getStdin) (← IO.getStdout) init step

end Proto
end TxV
