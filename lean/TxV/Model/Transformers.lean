import TxV.Model.Util
/-!
Models of the method transformers (`transactron/lib/transformers.py`) and of the connecting
transactions (`transactron/lib/connectors.py:286-435`).

Modelling level (DESIGN §7 C18): per clock cycle the *inputs* are the readiness and the result
of every target method (an `Adapter` in the correspondence: `en` and `data_in`) and the attempted
call of the transformer's own method (`Option arg`; an `AdapterTrans` with `en = 1`); the *outputs*
are, per target, the argument it is called with (`none` = not called) and, for the method,
whether it executes and what it returns (`none` = not executed).

The Python functions passed to the transformers (`i_fun`, `o_fun`, `condition`, `combiner`) are
parameters of the models.  Data is `Nat`; truncation to the layout width is part of the function
parameters (the harness instantiates them with `fun x => (x + k) % 2^w` etc.).
-/
namespace TxV.Transformers

/-! ## ConnectTrans (connectors.py:335-345)
One transaction calling `method1(data2)` and `method2(data1)`, where `data1`/`data2` are the
results of `method1`/`method2`.  The transaction is always requested; it runs iff both methods
are ready (manager: `runnable` = conjunction of the callees' `ready`). -/

structure ConnIn where
  r1 : Bool   -- method1.ready
  r2 : Bool   -- method2.ready
  d1 : Nat    -- result of method1
  d2 : Nat    -- result of method2
deriving Repr, DecidableEq

structure ConnOut where
  m1 : Option Nat   -- argument method1 is called with (none = not called)
  m2 : Option Nat   -- argument method2 is called with
deriving Repr, DecidableEq

def connect (i : ConnIn) : ConnOut :=
  if i.r1 && i.r2 then { m1 := some i.d2, m2 := some i.d1 } else { m1 := none, m2 := none }

/-- `validate_arguments` of a target method: the manager makes a transaction runnable only if
    every method it calls accepts the argument the transaction would pass (manager.py:
    `validate_args_for_method`).  A target is callable iff ready ∧ validator(argument it would
    receive).  `v1`/`v2` are the validators of `method1`/`method2` (`fun _ => true` = none). -/
def connectV (v1 v2 : Nat → Bool) (i : ConnIn) : ConnOut :=
  connect { i with r1 := i.r1 && v1 i.d2, r2 := i.r2 && v2 i.d1 }

/-! ## CrossbarConnectTrans (connectors.py:428-435)
One `ConnectTrans` per pair `(i, j)`.  Two of them conflict iff they share a method (all target
methods are exclusive).  The eager scheduler (schedulers.py:38-43) walks the transactions in
priority order `order` and grants one iff it is runnable and no *granted* earlier transaction
conflicts with it.  `order` is a parameter: whatever linear order the manager produced. -/

structure XIn where
  t1 : List (Bool × Nat)   -- methods1: (ready, result)
  t2 : List (Bool × Nat)   -- methods2: (ready, result)
deriving Repr, DecidableEq

def readyAt (t : List (Bool × Nat)) (k : Nat) : Bool :=
  match t[k]? with
  | some (r, _) => r
  | none => false

def resultAt (t : List (Bool × Nat)) (k : Nat) : Option Nat := (t[k]?).map (·.2)

/-- does pair `p` share a method with an already granted pair? -/
def clash (acc : List (Nat × Nat)) (p : Nat × Nat) : Bool :=
  acc.any (fun q => q.1 == p.1 || q.2 == p.2)

def optAll (v : Nat → Bool) : Option Nat → Bool
  | some x => v x
  | none => false

/-- the connecting transaction of pair `p` is runnable: both methods ready and each accepts
    (`validate_arguments`) the other's result -/
def pairRunnable (v1 v2 : Nat → Bool) (i : XIn) (p : Nat × Nat) : Bool :=
  readyAt i.t1 p.1 && readyAt i.t2 p.2 && optAll v1 (resultAt i.t2 p.2) && optAll v2 (resultAt i.t1 p.1)

/-- eager scheduler over the remaining `order`, `acc` = pairs granted so far -/
def grant (rn : Nat × Nat → Bool) : List (Nat × Nat) → List (Nat × Nat) → List (Nat × Nat)
  | [], acc => acc
  | p :: rest, acc =>
    if rn p && !clash acc p then grant rn rest (acc ++ [p])
    else grant rn rest acc

/-- the pairs whose connecting transaction runs in this cycle -/
def running (v1 v2 : Nat → Bool) (order : List (Nat × Nat)) (i : XIn) : List (Nat × Nat) :=
  grant (pairRunnable v1 v2 i) order []

/-- argument `methods1[a]` is called with: the result of its partner -/
def xArg1 (v1 v2 : Nat → Bool) (order : List (Nat × Nat)) (i : XIn) (a : Nat) : Option Nat :=
  ((running v1 v2 order i).find? (fun p => p.1 == a)).bind (fun p => resultAt i.t2 p.2)

def xArg2 (v1 v2 : Nat → Bool) (order : List (Nat × Nat)) (i : XIn) (b : Nat) : Option Nat :=
  ((running v1 v2 order i).find? (fun p => p.2 == b)).bind (fun p => resultAt i.t1 p.1)

/-! ## single-target transformers -/

structure UIn where
  call : Option Nat   -- attempted call of `method` with this argument
  trdy : Bool         -- target.ready
  tret : Nat          -- target's result
deriving Repr, DecidableEq

structure UOut where
  res : Option Nat     -- `method` executes and returns this
  tcall : Option Nat   -- target is called with this argument
deriving Repr, DecidableEq

/-- MethodMap (transformers.py:143-150): `o_fun(target(i_fun(arg)))`; the target is called
    unconditionally, so the method runs iff the target is ready -/
def mapStep (ifun ofun : Nat → Nat) (i : UIn) : UOut :=
  match i.call with
  | none => { res := none, tcall := none }
  | some a =>
    if i.trdy then { res := some (ofun i.tret), tcall := some (ifun a) }
    else { res := none, tcall := none }

/-- how the value returned by the `condition` function is interpreted, in both modes: non-zero is
    true.  Plain mode: `m.If(v)` (transformers.py:254); `use_condition` mode:
    `cond.eq(Value.cast(v).bool())` (transformers.py:248-249). -/
def condHolds (v : Nat) : Bool := v != 0

/-- MethodFilter (transformers.py:239-258).
    Plain mode: the call sits under `m.If`, the target is still required to be ready.
    `use_condition` mode: `condition(nonblocking=True)` with one branch: the method runs when the
    branch condition is false, or when it is true and the target is ready. -/
def filterStep (useCond : Bool) (cond : Nat → Nat) (dflt : Nat) (i : UIn) : UOut :=
  match i.call with
  | none => { res := none, tcall := none }
  | some a =>
    let c := condHolds (cond a)
    if useCond then
      if c then
        if i.trdy then { res := some i.tret, tcall := some a } else { res := none, tcall := none }
      else { res := some dflt, tcall := none }
    else
      if i.trdy then
        if c then { res := some i.tret, tcall := some a } else { res := some dflt, tcall := none }
      else { res := none, tcall := none }

/-! ## multi-target transformers -/

structure PIn where
  call : Option Nat
  tgts : List (Bool × Nat)   -- per target: (ready, result)
deriving Repr, DecidableEq

structure POut where
  res : Option Nat
  tcalls : List (Option Nat)   -- per target: argument it is called with
deriving Repr, DecidableEq

/-- MethodProduct (transformers.py:333-343): calls every target with the same argument -/
def productStep (comb : List Nat → Nat) (i : PIn) : POut :=
  match i.call with
  | none => { res := none, tcalls := i.tgts.map (fun _ => none) }
  | some a =>
    if i.tgts.all (·.1) then
      { res := some (comb (i.tgts.map (·.2))), tcalls := i.tgts.map (fun _ => some a) }
    else { res := none, tcalls := i.tgts.map (fun _ => none) }

/-- MethodTryProduct (transformers.py:419-432): one nested transaction per target; it runs iff
    the method runs and the target is ready.  The combiner sees, per target, the success bit and
    the target's result signal (whatever it holds, also when the call did not happen). -/
def tryProductStep (comb : List (Bool × Nat) → Nat) (i : PIn) : POut :=
  match i.call with
  | none => { res := none, tcalls := i.tgts.map (fun _ => none) }
  | some a =>
    { res := some (comb i.tgts), tcalls := i.tgts.map (fun t => if t.1 then some a else none) }

/-! ## NonexclusiveWrapper (transformers.py:530-537)
`method` is nonexclusive with the default combiner (body.py:120-124: `OneHotMux` without priority,
i.e. the bitwise OR of the arguments of the running callers). -/

structure NIn where
  calls : List (Option Nat)   -- attempted calls, one per caller
  trdy : Bool
  tret : Nat
deriving Repr, DecidableEq

structure NOut where
  res : List (Option Nat)   -- per caller: executes and returns this
  tcall : Option Nat
deriving Repr, DecidableEq

def orAll (l : List Nat) : Nat := l.foldl (· ||| ·) 0

def nonexStep (i : NIn) : NOut :=
  if i.trdy then
    { res := i.calls.map (fun c => c.map (fun _ => i.tret)),
      tcall := if i.calls.any (·.isSome) then some (orAll (i.calls.filterMap id)) else none }
  else { res := i.calls.map (fun _ => none), tcall := none }

/-! ## Collector (transformers.py:477-485)
`CrossbarConnectTrans(targets, forwarder.write)` into a `Forwarder` (connectors.py:126-158);
`method` = `forwarder.read`.  All connecting transactions share `forwarder.write`, so at most one
runs: the first in scheduling order whose target is ready, provided `write` is ready
(`~reg_valid`).  `read` is ready iff `reg_valid | write.run` and returns the register or the value
being written; `write` sets `reg_valid`, `read` clears it (later statement wins). -/

structure CState where
  buf : Option Nat   -- `reg` when `reg_valid`
deriving Repr, DecidableEq

structure CIn where
  tgts : List (Bool × Nat)
  rd : Bool                  -- `method` attempted
deriving Repr, DecidableEq

structure COut where
  called : Option (Nat × Nat)   -- index of the target that is called and the result it returns
  rd : Option Nat               -- `method` executes and returns this
deriving Repr, DecidableEq

def cInit : CState := { buf := none }

/-- first target in scheduling order that is ready -/
def pick (tgts : List (Bool × Nat)) : List Nat → Option (Nat × Nat)
  | [] => none
  | k :: rest =>
    match tgts[k]? with
    | some (true, v) => some (k, v)
    | _ => pick tgts rest

def collectorStep (order : List Nat) (s : CState) (i : CIn) : CState × COut :=
  let w : Option (Nat × Nat) := if s.buf.isNone then pick i.tgts order else none
  let rv : Option Nat := match s.buf with
    | some v => some v
    | none => w.map (·.2)
  let r : Option Nat := if i.rd then rv else none
  let buf' : Option Nat :=
    if r.isSome then none
    else match w with
      | some (_, v) => some v
      | none => s.buf
  ({ buf := buf' }, { called := w, rd := r })

def collectorRun (order : List Nat) (s : CState) : List CIn → CState × List COut
  | [] => (s, [])
  | i :: is =>
    let (s', o) := collectorStep order s i
    let (s'', os) := collectorRun order s' is
    (s'', o :: os)

/-! ## targets with `validate_arguments`
The transformer's transaction is runnable only if the target accepts the argument it would receive,
so a target is *callable* iff ready ∧ valid(argument).  A call under `m.If` (plain filter) is
validated only when enabled (`~en | valid`, body.py `_validate_arguments`). -/

def mapVStep (valid : Nat → Bool) (ifun ofun : Nat → Nat) (i : UIn) : UOut :=
  mapStep ifun ofun { i with trdy := i.trdy && (match i.call with | some a => valid (ifun a) | none => true) }

def filterVStep (valid : Nat → Bool) (useCond : Bool) (cond : Nat → Nat) (dflt : Nat) (i : UIn) : UOut :=
  filterStep useCond cond dflt
    { i with trdy := i.trdy && (match i.call with
        | some a => !condHolds (cond a) || valid a
        | none => true) }

/-- product / try-product: every target is offered the same argument -/
def validTgts (valid : Nat → Bool) (i : PIn) : PIn :=
  { i with tgts := i.tgts.map (fun t => (t.1 && (match i.call with | some a => valid a | none => true), t.2)) }

/-- nonexclusive wrapper: the target is offered the combined argument.  Compared with the real circuit
    for a single caller only: with ≥ 2 callers the combined argument depends on which callers run, which
    depends on the validator (the real circuit then never runs a target that rejects zero). -/
def nonexVStep (valid : Nat → Bool) (i : NIn) : NOut :=
  nonexStep { i with trdy := i.trdy && (!i.calls.any (·.isSome) || valid (orAll (i.calls.filterMap id))) }

/-! ## competing callers of the targets
A target method may also be called by another transaction (in the correspondence: an
`AdapterTrans` per target).  Targets are exclusive, so that transaction conflicts with the
transformer's transaction that *uses* the target, and the eager scheduler grants the one that
comes first in the priority order (`first` = the competitor precedes the transformer's
transaction; read from the real manager).  From the transformer's side a target taken by a
preceding competitor is as good as not ready; a competitor that comes later runs iff the
transformer's transaction using the target does not run.  "Called by the transformer" (`own`) is
distinct from "the target ran" (`seen`). -/

structure CompIn where
  first : Bool         -- the competitor precedes the transformer's transaction in the priority order
  att : Option Nat     -- the competitor attempts a call with this argument
deriving Repr, DecidableEq

/-- readiness of a target as the transformer's transaction experiences it -/
def effReady (t : Bool × Nat) (c : CompIn) : Bool × Nat := (t.1 && !(c.first && c.att.isSome), t.2)

def effTgts (tgts : List (Bool × Nat)) (comps : List CompIn) : List (Bool × Nat) :=
  List.zipWith effReady tgts comps

/-- does the competitor's call execute? `used` = the transformer's transaction using the target runs -/
def compDone (t : Bool × Nat) (c : CompIn) (used : Bool) : Bool :=
  c.att.isSome && t.1 && (c.first || !used)

/-- the argument the target method itself receives (none = the target does not run) -/
def seenArg (own : Option Nat) (c : CompIn) (done : Bool) : Option Nat :=
  match own with
  | some a => some a
  | none => if done then c.att else none

structure PCOut where
  res : Option Nat
  own : List (Option Nat)    -- per target: the transformer's own call (its argument)
  comp : List Bool           -- per target: the competitor's call executes
  seen : List (Option Nat)   -- per target: argument the target receives from whoever calls it
deriving Repr, DecidableEq

/-- a multi-target transformer (`productStep comb` / `tryProductStep comb`) among competitors;
    its transaction(s) use a target exactly when they call it -/
def withComps (core : PIn → POut) (i : PIn) (comps : List CompIn) : PCOut :=
  let o := core { i with tgts := effTgts i.tgts comps }
  let tc := (i.tgts.zip comps).zip o.tcalls
  let cd := tc.map (fun x => compDone x.1.1 x.1.2 x.2.isSome)
  { res := o.res, own := o.tcalls, comp := cd,
    seen := tc.map (fun x => seenArg x.2 x.1.2 (compDone x.1.1 x.1.2 x.2.isSome)) }

structure UCOut where
  res : Option Nat
  own : Option Nat
  comp : Bool
  seen : Option Nat
deriving Repr, DecidableEq

/-- MethodFilter among a competitor.  Plain mode: the method's transaction uses (locks) the target
    whenever it runs, called or not; `use_condition` mode: only the branch that calls it. -/
def filterCompStep (useCond : Bool) (cond : Nat → Nat) (dflt : Nat) (i : UIn) (c : CompIn) : UCOut :=
  let o := filterStep useCond cond dflt { i with trdy := (effReady (i.trdy, i.tret) c).1 }
  let used := if useCond then o.tcall.isSome else o.res.isSome
  let cd := compDone (i.trdy, i.tret) c used
  { res := o.res, own := o.tcall, comp := cd, seen := seenArg o.tcall c cd }

/-- Collector among competitors of its targets: the connecting transaction of target `k` uses it
    iff it runs -/
def collectorCompStep (order : List Nat) (s : CState) (i : CIn) (comps : List CompIn) :
    CState × COut × List Bool :=
  let r := collectorStep order s { i with tgts := effTgts i.tgts comps }
  let used := (List.range i.tgts.length).map (fun k => r.2.called.map (·.1) == some k)
  let cd := ((i.tgts.zip comps).zip used).map (fun x => compDone x.1.1 x.1.2 x.2)
  (r.1, r.2, cd)

end TxV.Transformers
