import TxV.Model.QueueUtil
/-!
Model of `transactron.lib.connectors.Forwarder` (connectors.py:90-163).

One `step` = one clock cycle.  `write` is scheduled before `read` and `peek`
(connectors.py:134-135), so the model evaluates `write` first and lets the readiness of
`read`/`peek` depend on whether `write` runs.  There are no conflicts between the four
methods; `peek` and `clear` are nonexclusive.  The `sync` assignments to `reg_valid` are, in
source order, `write: 1` (:140), `read: 0` (:147), `clear: 0` (:157): the later one wins.
-/
namespace TxV.Forwarder
open TxV.QueueUtil

structure State where
  reg : Nat          -- overflow register (connectors.py:129, reset-less, powers up 0)
  valid : Bool       -- reg_valid (connectors.py:130)
deriving Repr, DecidableEq

structure In where
  w : Option Nat
  r : Bool
  p : Bool
  c : Bool
deriving Repr, DecidableEq

structure Out where
  wr : Option Nat    -- write executed (value)
  rd : Option Nat    -- read executed, returned value
  pk : Option Nat    -- peek executed, returned value
  clr : Bool
  rrdy : Bool        -- read.ready = peek.ready
  wrdy : Bool        -- write.ready
deriving Repr, DecidableEq

def init : State := ⟨0, false⟩

def step (s : State) (i : In) : State × Out :=
  let wrdy := !s.valid                                   -- :137 ready=~reg_valid
  let wr : Option Nat := if wrdy then i.w else none      -- write runs first (schedule_before)
  let rrdy := s.valid || wr.isSome                       -- :145, :150 ready=reg_valid | write.run
  -- read_value (:139 forwarding, :142-143 the register overrides while reg_valid);
  -- it is `some` exactly when `rrdy` holds, and only then observable through read/peek
  let value : Option Nat := if s.valid then some s.reg else wr
  let rrun := i.r && rrdy
  let valid' :=
    if i.c then false                                    -- :157 clear (last assignment)
    else if rrun then false                              -- :147 read
    else if wr.isSome then true                          -- :140 write
    else s.valid
  let reg' := match wr with                              -- :139
    | some v => v
    | none => s.reg
  (⟨reg', valid'⟩, ⟨wr, if i.r then value else none, if i.p then value else none, i.c, rrdy, wrdy⟩)

def run (s : State) (is : List In) : State × List Out := runWith step s is

/-- buffer contents -/
def abs (s : State) : List Nat := if s.valid then [s.reg] else []

def ev (o : Out) : Ev := ⟨o.wr, o.rd, o.clr⟩

end TxV.Forwarder
