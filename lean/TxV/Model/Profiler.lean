import TxV.Model.Util
/-!
Model of the Transactron profiler (transactron/profiler.py, transactron/testing/profiler.py).

* `Samples`  — `ProfileSamples`: the per-cycle values of `ready/runnable/run` of every
  transaction and of `run` of every method, in the (dict insertion) order in which
  `profiler_process` fills them (testing/profiler.py:33-41).
* `Data`     — `ProfileData` (profiler.py:46-105): the three id-indexed maps plus
  `transactions_and_methods` reduced to `id ↦ is_transaction`.
* `make`     — `CycleProfile.make` (profiler.py:225-261), loop by loop.  Python `dict`s are
  association lists updated with `dset` (assignment to an existing key replaces the value in
  place, a new key is appended), Python `set`s are lists used only through membership.
* `analyze`  — `Profile.analyze_transactions(recursive=False)` (profiler.py:293-325), and
  `analyzeRec` — the `recursive=True` variant as a flat table indexed by the path of ids
  from the root transaction.

Look-ups that raise `KeyError` in Python (`data.transaction_conflicts[t]`, …) are total here
through `getD []`; `Data.complete` is the decidable condition under which Python does not
raise, the driver refuses configurations violating it (`bad-cfg`), so the default is never
used by anything that is compared.  `next(...)` without a match (profiler.py:254) raises
`StopIteration`: `makeRaises` says when.
-/
namespace TxV.Profiler

/-- `TransactionSamples` with the id the sample is stored under -/
structure TxSample where
  id : Nat
  ready : Bool
  runnable : Bool
  run : Bool
deriving Repr, DecidableEq

/-- `MethodSamples` with its id -/
structure MSample where
  id : Nat
  run : Bool
deriving Repr, DecidableEq

structure Samples where
  txs : List TxSample
  ms : List MSample
deriving Repr, DecidableEq

structure Data where
  info : List (Nat × Bool)            -- transactions_and_methods: id ↦ is_transaction
  parents : List (Nat × List Nat)     -- method_parents
  tbm : List (Nat × List Nat)         -- transactions_by_method
  conflicts : List (Nat × List Nat)   -- transaction_conflicts
deriving Repr, DecidableEq

structure CycleProfile where
  locked : List (Nat × Nat)
  running : List (Nat × Option Nat)
deriving Repr, DecidableEq

/-- Python `d[k] = v` on an insertion-ordered dict -/
def dset {α} : List (Nat × α) → Nat → α → List (Nat × α)
  | [], k, v => [(k, v)]
  | (k', v') :: d, k, v => if k' == k then (k, v) :: d else (k', v') :: dset d k v

/-- Python `k in d` -/
def dmem {α} (d : List (Nat × α)) (k : Nat) : Bool := (d.lookup k).isSome

def keys {α} (d : List (Nat × α)) : List Nat := d.map (·.1)

def confOf (d : Data) (t : Nat) : List Nat := (d.conflicts.lookup t).getD []
def parentsOf (d : Data) (m : Nat) : List Nat := (d.parents.lookup m).getD []
def tbmOf (d : Data) (m : Nat) : List Nat := (d.tbm.lookup m).getD []

/-- `samples.transactions[t2].run` (a missing id reads as "not running"; excluded by `Data.complete`) -/
def txRun (s : Samples) (t2 : Nat) : Bool :=
  match s.txs.find? (·.id == t2) with
  | some x => x.run
  | none => false

/-- profiler.py:233-235 — the inner loop over the conflicting transactions of `t` -/
def lockLoop (s : Samples) (t : Nat) (locked : List (Nat × Nat)) (conf : List Nat) : List (Nat × Nat) :=
  conf.foldl (fun l t2 => if txRun s t2 then dset l t t2 else l) locked

/-- profiler.py:229-235 — one iteration of the loop over transactions -/
def txStep (s : Samples) (d : Data) (c : CycleProfile) (t : TxSample) : CycleProfile :=
  if t.run then { c with running := dset c.running t.id none }
  else if t.ready && t.runnable then { c with locked := lockLoop s t.id c.locked (confOf d t.id) }
  else c

def txLoop (s : Samples) (d : Data) : CycleProfile :=
  s.txs.foldl (txStep s d) { locked := [], running := [] }

/-- profiler.py:237-240 — the Python set `running` -/
def runningSet (s : Samples) (d : Data) : List Nat :=
  keys (txLoop s d).running ++ (s.ms.filter (·.run)).map (·.id)

/-- profiler.py:242-246 — the Python set `locked_methods` -/
def lockedMethods (s : Samples) (d : Data) : List Nat :=
  (s.ms.filter fun m =>
    !(runningSet s d).elem m.id && (tbmOf d m.id).any fun t => (runningSet s d).elem t).map (·.id)

/-- profiler.py:250-252 — the inner loop over the parents of a running method -/
def parentLoop (run : List Nat) (m : Nat) (running : List (Nat × Option Nat)) (ps : List Nat) :
    List (Nat × Option Nat) :=
  ps.foldl (fun r p => if run.elem p then dset r m (some p) else r) running

/-- profiler.py:254-258 — `next(...)`: the first parent that is running or locked -/
def lockedCaller (run lm : List Nat) (ps : List Nat) : Option Nat :=
  ps.find? fun p => run.elem p || lm.elem p

/-- profiler.py:248-259 — one iteration of the final loop over methods -/
def mStep (d : Data) (run lm : List Nat) (c : CycleProfile) (m : MSample) : CycleProfile :=
  if run.elem m.id then { c with running := parentLoop run m.id c.running (parentsOf d m.id) }
  else if lm.elem m.id then
    match lockedCaller run lm (parentsOf d m.id) with
    | some p => { c with locked := dset c.locked m.id p }
    | none => c       -- Python raises StopIteration here; see `makeRaises`
  else c

/-- `CycleProfile.make` -/
def make (s : Samples) (d : Data) : CycleProfile :=
  s.ms.foldl (mStep d (runningSet s d) (lockedMethods s d)) (txLoop s d)

/-- does `CycleProfile.make` raise `StopIteration` (profiler.py:254)? -/
def makeRaises (s : Samples) (d : Data) : Bool :=
  s.ms.any fun m =>
    !(runningSet s d).elem m.id && (lockedMethods s d).elem m.id &&
      (lockedCaller (runningSet s d) (lockedMethods s d) (parentsOf d m.id)).isNone

/-- no `KeyError` can occur in `make` for samples over exactly the ids `txIds`/`mIds` -/
def Data.complete (d : Data) (txIds mIds : List Nat) : Bool :=
  txIds.all (fun t => dmem d.conflicts t && (confOf d t).all fun t2 => txIds.elem t2) &&
  mIds.all (fun m => dmem d.parents m && dmem d.tbm m)

/-! ### `Profile.analyze_transactions` -/

structure Stat where
  id : Nat
  run : Nat
  locked : Nat
deriving Repr, DecidableEq

/-- profiler.py:294 — one zeroed node per transaction, in dict order -/
def initStats (d : Data) : List Stat :=
  (d.info.filter (·.2)).map fun e => { id := e.1, run := 0, locked := 0 }

/-- `if i in stats: stats[i].stat.run += 1` -/
def bumpRun (st : List Stat) (i : Nat) : List Stat :=
  st.map fun x => if x.id == i then { x with run := x.run + 1 } else x

/-- `if i in stats: stats[i].stat.locked += 1` -/
def bumpLocked (st : List Stat) (i : Nat) : List Stat :=
  st.map fun x => if x.id == i then { x with locked := x.locked + 1 } else x

/-- profiler.py:307-323 with `recursive=False`: for a key of `c.running`, `rec` takes its
    first branch (`i in c.running`), so it is `run += 1`; then the loop over `c.locked` -/
def analyzeCycle (st : List Stat) (c : CycleProfile) : List Stat :=
  (keys c.locked).foldl bumpLocked ((keys c.running).foldl bumpRun st)

def analyze (d : Data) (cycles : List CycleProfile) : List Stat :=
  cycles.foldl analyzeCycle (initStats d)

/-- the profile `profiler_process` accumulates over a history of samples -/
def profile (d : Data) (hist : List Samples) : List CycleProfile := hist.map (make · d)

def statOf (st : List Stat) (i : Nat) : Option Stat := st.find? (·.id == i)

/-! ### `analyze_transactions(recursive=True)`

The tree of `RunStatNode`s is kept flat: one row per node, keyed by the path of ids from the
root transaction down to the node.  `called[i]` (profiler.py:308-315) is a Python set; we keep
it as a duplicate-free list in insertion order — the harness prints the `callers` of every
node sorted by id, so the iteration order of that set is not compared. -/

structure Row where
  path : List Nat          -- root transaction first
  run : Nat
  locked : Nat
deriving Repr, DecidableEq

/-- `called[j]` of one cycle: the keys of `running` whose value is `j`, then the keys of
    `locked` whose value is `j` (profiler.py:310-315), without duplicates -/
def calledOf (c : CycleProfile) (j : Nat) : List Nat :=
  ((c.running.filter (·.2 == some j)).map (·.1) ++ (c.locked.filter (·.2 == j)).map (·.1)).eraseDups

/-- find-or-create the row of `path` and apply `f` -/
def updRow (rows : List Row) (path : List Nat) (f : Row → Row) : List Row :=
  if rows.any (·.path == path) then rows.map fun r => if r.path == path then f r else r
  else rows ++ [f { path := path, run := 0, locked := 0 }]

/-- profiler.py:296-305 — `rec(c, node, i)` where `node` is the row of `path` (which ends in `i`).
    `fuel` bounds the depth; `make` produces acyclic `called` relations whose depth is at most
    the number of ids, and the driver supplies that number. -/
def recRows (c : CycleProfile) : Nat → List Row → List Nat → Nat → List Row
  | 0, rows, _, _ => rows
  | fuel + 1, rows, path, i =>
    let rows1 := updRow rows path fun r =>
      if dmem c.running i then { r with run := r.run + 1 }
      else if dmem c.locked i then { r with locked := r.locked + 1 } else r
    (calledOf c i).foldl (fun rs j => recRows c fuel (updRow rs (path ++ [j]) id) (path ++ [j]) j) rows1

/-- profiler.py:307-323 with `recursive=True` -/
def analyzeCycleRec (fuel : Nat) (txIds : List Nat) (rows : List Row) (c : CycleProfile) : List Row :=
  let rows1 := (keys c.running).foldl
    (fun rs i => if txIds.elem i then recRows c fuel rs [i] i else rs) rows
  (keys c.locked).foldl
    (fun rs i => if txIds.elem i then updRow rs [i] fun r => { r with locked := r.locked + 1 } else rs) rows1

def analyzeRec (fuel : Nat) (d : Data) (cycles : List CycleProfile) : List Row :=
  let txIds := (d.info.filter (·.2)).map (·.1)
  cycles.foldl (analyzeCycleRec fuel txIds) (txIds.map fun t => { path := [t], run := 0, locked := 0 })

end TxV.Profiler
