import TxV.Model.QueueUtil
/-!
Model of `transactron.lib.connectors.Pipe` (connectors.py:166-232).

`read` and `peek` are scheduled before `write` (connectors.py:205-206): the model evaluates
`read` first and lets `write`'s readiness depend on whether `read` runs.  No conflicts;
`peek` and `clear` are nonexclusive.  `sync` assignments to `reg_valid` in source order:
`read: 0` (:210), `write: 1` (:220), `clear: 0` (:224); the later one wins.
-/
namespace TxV.Pipe
open TxV.QueueUtil

structure State where
  reg : Nat          -- connectors.py:202 (reset-less, powers up 0)
  valid : Bool       -- reg_valid (:203)
deriving Repr, DecidableEq

structure In where
  w : Option Nat
  r : Bool
  p : Bool
  c : Bool
deriving Repr, DecidableEq

structure Out where
  wr : Option Nat
  rd : Option Nat
  pk : Option Nat
  clr : Bool
  rrdy : Bool        -- read.ready = peek.ready
  wrdy : Bool        -- write.ready
deriving Repr, DecidableEq

def init : State := ⟨0, false⟩

def step (s : State) (i : In) : State × Out :=
  let rrdy := s.valid                                    -- :208, :213 ready=reg_valid
  let rrun := i.r && rrdy                                -- read runs first (schedule_before)
  let prun := i.p && rrdy
  let wrdy := !s.valid || rrun                           -- :217 ready=~reg_valid | read.run
  let wr : Option Nat := if wrdy then i.w else none
  let valid' :=
    if i.c then false                                    -- :224 clear (last assignment)
    else if wr.isSome then true                          -- :220 write
    else if rrun then false                              -- :210 read
    else s.valid
  let reg' := match wr with                              -- :219
    | some v => v
    | none => s.reg
  (⟨reg', valid'⟩, ⟨wr, if rrun then some s.reg else none, if prun then some s.reg else none, i.c, rrdy, wrdy⟩)

def run (s : State) (is : List In) : State × List Out := runWith step s is

def abs (s : State) : List Nat := if s.valid then [s.reg] else []

def ev (o : Out) : Ev := ⟨o.wr, o.rd, o.clr⟩

end TxV.Pipe
