import TxV.Model.MultiportMemXor
/-!
Multiport memories — part 3: models of `OneHotCodedILVT` (memory.py:306-440) and of
`MultiportILVTMemory` (memory.py:443-560) with its three table kinds
(`MultiportXORILVTMemory`: the table is a `MultiportXORMemory`; `MultiportOneHotILVTMemory`:
the table is a `OneHotCodedILVT` followed by an `Encoder`; the constructor default
`memory_type=memory.Memory`: the table is a plain Amaranth memory).
-/
namespace TxV.MultiportMem

/-! ### OneHotCodedILVT

Bank `k` is a `MultiReadMemory` of `nw-1`-bit rows (memory.py:345-351) with `nr + nw - 1` read
ports, all transparent for the bank's write port (memory.py:355-358): ports `0..nr-1` follow the
external read ports (memory.py:371-379), port `nr + i` is a feedback port reading at the address
of write port `k' = i + 1 if k < i + 1 else i` (memory.py:382-389).  The write is two-stage like
in the XOR memory: address and enable are registered (memory.py:360-367) and the data written in
the second stage is `write_data_sync_k = Cat(bit_selection)` computed from the feedback rows of
the other banks (memory.py:398-410).  Rows are `List Bool` of length `nw-1` (bit `i` = element `i`).
-/

/-- one physical memory of `List Bool` rows with one transparent read port -/
structure OBank where
  mem : List (List Bool)
  rdata : List Bool
deriving Repr, DecidableEq, Inhabited

/-- read a row of a table bank; out of range = the all-zero row -/
def rdRow (n : Nat) (m : List (List Bool)) (a : Nat) : List Bool := nthD (tab n (fun _ => false)) m a

/-- one edge of a table memory (read port transparent for the write port) -/
def OBank.step (n : Nat) (b : OBank) (wen : Bool) (wa : Nat) (wd : List Bool) (ren : Bool) (ra : Nat) : OBank :=
  { mem := if wen then b.mem.set wa wd else b.mem,
    rdata := if ren then (if wen && wa == ra then wd else rdRow n b.mem ra) else b.rdata }

def bit (row : List Bool) (i : Nat) : Bool := nthD false row i

namespace OneHot

structure State where
  wAddrSync : List Nat          -- write_addr_sync[k] = bank_write_port.addr   memory.py:331, 361-362
  wEnSync : List Bool           -- write_en_sync[k] = bank_write_port.en       memory.py:332, 364-365
  wAddrBy : List Nat            -- write_addr_bypass[k]                         memory.py:335, 363
  wEnBy : List Bool             -- write_en_bypass[k]                           memory.py:336, 366
  wDataBy : List (List Bool)    -- write_data_bypass[k]                         memory.py:337, 411
  banks : List (List OBank)     -- the memories of bank_k, one per read port p < nr + nw - 1
  rdAddrBy : List Nat           -- read_addr_bypass[r]                          memory.py:339, 373
  rdEnBy : List Bool            -- read_en_bypass[r]                            memory.py:340, 374
deriving Repr, DecidableEq, Inhabited

def zeroRow (nw : Nat) : List Bool := tab (nw - 1) (fun _ => false)

def bankP (s : State) (k p : Nat) : OBank := nthD ⟨[], []⟩ (nthD [] s.banks k) p

def init (depth nw nr : Nat) : State :=
  { wAddrSync := tab nw (fun _ => 0), wEnSync := tab nw (fun _ => false),
    wAddrBy := tab nw (fun _ => 0), wEnBy := tab nw (fun _ => false),
    wDataBy := tab nw (fun _ => zeroRow nw),
    banks := tab nw (fun _ => tab (nr + nw - 1) (fun _ =>
      { mem := tab depth (fun _ => zeroRow nw), rdata := zeroRow nw })),
    rdAddrBy := tab nr (fun _ => 0), rdEnBy := tab nr (fun _ => false) }

/-- `k = i + 1 if index < i + 1 else i` (memory.py:385): the write port at whose address feedback
    port `i` of bank `k` reads -/
def fbPort (k i : Nat) : Nat := if k < i + 1 then i + 1 else i

/-- the mutual-exclusion code (memory.py:399-406 and 428-434, the same expression): bit `i` of the
    row that makes `idx` the newest writer given the rows `row m` of the other banks:
    for `i < idx` the negated bit `idx-1` of bank `i`, otherwise bit `idx` of bank `i+1` -/
def exclBits (nw : Nat) (row : Nat → List Bool) (idx : Nat) : List Bool :=
  tab (nw - 1) (fun i => if i < idx then !(bit (row i) (idx - 1)) else bit (row (i + 1)) idx)

/-- `write_data_sync[k]` (memory.py:407-409): for `i < k` the row of bank `i` comes from its
    read port `nr + k - 1`, for `i ≥ k` the row of bank `i+1` from its read port `nr + k` — in
    both cases the feedback port that reads at the address of write port `k` -/
def writeData (nw nr : Nat) (s : State) (k : Nat) : List Bool :=
  exclBits nw (fun m => (bankP s m (if m < k then nr + k - 1 else nr + k)).rdata) k

/-- `bypassed_data[r][k]` (memory.py:416-426) -/
def byp (s : State) (r k : Nat) : List Bool :=
  if nthD 0 s.rdAddrBy r == nthD 0 s.wAddrBy k && nthD false s.rdEnBy r && nthD false s.wEnBy k
  then nthD [] s.wDataBy k else (bankP s k r).rdata

/-- `one_hot` of read port `r` (memory.py:428-438) -/
def outR (nw : Nat) (s : State) (r : Nat) : List Bool :=
  tab nw (fun idx => decide (exclBits nw (byp s r) idx = byp s r idx))

def step (nw nr : Nat) (s : State) (i : In) : State :=
  { wAddrSync := tab nw i.wAddr, wEnSync := tab nw i.wEn,
    wAddrBy := tab nw (fun k => nthD 0 s.wAddrSync k), wEnBy := tab nw (fun k => nthD false s.wEnSync k),
    wDataBy := tab nw (writeData nw nr s),
    banks := tab nw (fun k => tab (nr + nw - 1) (fun p =>
      (bankP s k p).step (nw - 1) (nthD false s.wEnSync k) (nthD 0 s.wAddrSync k) (writeData nw nr s k)
        (if p < nr then i.rEn p else true)
        (if p < nr then i.rAddr p else i.wAddr (fbPort k (p - nr))))),
    rdAddrBy := tab nr i.rAddr, rdEnBy := tab nr i.rEn }

/-- a row of bits as a number (bit `i` = element `i`), for printing and for the encoder -/
def toNat : List Bool → Nat
  | [] => 0
  | b :: bs => b.toNat + 2 * toNat bs

def out (nw nr : Nat) (s : State) : List Nat := tab nr (fun r => toNat (outR nw s r))

/-- `Encoder` (coding.py:46-54): position of the set bit if exactly one bit is set, else 0 -/
def encode (bits : List Bool) : Nat :=
  match (List.range bits.length).filter (fun j => bit bits j) with
  | [j] => j
  | _ => 0

end OneHot

/-! ### MultiportILVTMemory (memory.py:467-560)

Bank `k` is a `MultiReadMemory` written directly (combinationally wired) by write port `k` with
the port's granularity (memory.py:506-519) and read by every read port, non-transparently
(memory.py:513, 521-525).  The table is written at the port's address with enable
`en.any()` (memory.py:500-504) and read by every read port (memory.py:487, 528); its answer
selects the bank through a `Switch` whose missing cases leave `bank_data = 0` (memory.py:544-547).
Transparency is a bypass of last cycle's port values (memory.py:489-495, 549-554) through a
`OneHotMux` (OR of the selected inputs, `bank_data` when none is selected). -/
namespace Ilvt

inductive Kind
  | xor      -- MultiportXORILVTMemory
  | onehot   -- MultiportOneHotILVTMemory
  | plain    -- MultiportILVTMemory(memory_type=amaranth.lib.memory.Memory)
deriving Repr, DecidableEq, Inhabited

/-- the invalidation live-value table -/
inductive Table
  | xor (s : Xor.State)
  | onehot (s : OneHot.State)
  | plain (s : Ideal.State)
deriving Repr, Inhabited

/-- `bits_for(nw - 1)` (memory.py:473) -/
def bitsFor (n : Nat) : Nat := if n = 0 then 1 else Nat.log2 n + 1

/-- configuration of the table as a memory: no initial contents (memory.py:479-484), ports
    without granularity and without transparency (memory.py:486-487) -/
def tableCfg (c : Cfg) : Cfg :=
  { depth := c.depth, w := bitsFor (c.nw - 1), init := [], grans := tab c.nw (fun _ => 0),
    trs := tab c.nr (fun _ => 0) }

def Table.init (kind : Kind) (c : Cfg) : Table :=
  match kind with
  | .xor => .xor (Xor.init (tableCfg c))
  | .onehot => .onehot (OneHot.init c.depth c.nw c.nr)
  | .plain => .plain (Ideal.init (tableCfg c))

/-- the port values the table sees (memory.py:500-504, 528) -/
def tableIn (c : Cfg) (i : In) : In :=
  { ws := tab c.nw (fun k => ⟨if i.wEn k then 1 else 0, i.wAddr k, k⟩), rs := tab c.nr i.r }

def Table.step (c : Cfg) (t : Table) (i : In) : Table :=
  match t with
  | .xor s => .xor (Xor.step (tableCfg c) s (tableIn c i))
  | .onehot s => .onehot (OneHot.step c.nw c.nr s (tableIn c i))
  | .plain s => .plain (Ideal.step (tableCfg c) s (tableIn c i))

/-- the `switch` value of read port `r` (memory.py:536-542) -/
def Table.sel (c : Cfg) (t : Table) (r : Nat) : Nat :=
  match t with
  | .xor s => Xor.outR (tableCfg c) s r
  | .onehot s => OneHot.encode (OneHot.outR c.nw s r)
  | .plain s => nthD 0 s.rdata r

structure State where
  table : Table
  banks : List (List Bank)    -- the memories of bank_k, one per read port   memory.py:507-513
  wAddrBy : List Nat          -- write_addr_bypass[k]   memory.py:489, 493
  wDataBy : List Nat          -- write_data_bypass[k]   memory.py:490, 494
  wEnBy : List Nat            -- write_en_bypass[k] (one bit per granule)   memory.py:491, 495
  rdEnBy : List Bool          -- read_en_bypass (of read port r)    memory.py:530
  rdAddrBy : List Nat         -- read_addr_bypass                   memory.py:531
  syncData : List Nat         -- sync_data                          memory.py:556
deriving Repr, Inhabited

def bankR (s : State) (k r : Nat) : Bank := nthD ⟨[], 0⟩ (nthD [] s.banks k) r

def init (kind : Kind) (c : Cfg) : State :=
  { table := Table.init kind c,
    banks := tab c.nw (fun k => tab c.nr (fun _ => { mem := Xor.bankInit c k, rdata := 0 })),
    wAddrBy := tab c.nw (fun _ => 0), wDataBy := tab c.nw (fun _ => 0), wEnBy := tab c.nw (fun _ => 0),
    rdEnBy := tab c.nr (fun _ => false), rdAddrBy := tab c.nr (fun _ => 0),
    syncData := tab c.nr (fun _ => 0) }

/-- `bank_data` (memory.py:535, 544-547) -/
def bankData (c : Cfg) (s : State) (r : Nat) : Nat :=
  let v := s.table.sel c r
  if v < c.nw then (bankR s v r).rdata else 0

/-- is bypass input `k` of read port `r` selected (memory.py:550).  The select expression is
    `(write_addr_bypass == read_addr_bypass) & write_en_bypass`: the one-bit comparison is
    zero-extended to the width of the enable, so only enable bit 0 survives the `&` (and the
    `.any()` of `OneHotMux.create`, elaboratables.py:725).  Without granularity the enable has one bit. -/
def bySel (c : Cfg) (s : State) (r k : Nat) : Bool :=
  c.tr r k && (nthD 0 s.wAddrBy k == nthD 0 s.rdAddrBy r && nthD 0 s.wEnBy k % 2 == 1)

/-- OR of the selected bypass inputs `k < n` and whether any was selected -/
def byOr (c : Cfg) (s : State) (r : Nat) : Nat → Nat × Bool
  | 0 => (0, false)
  | n + 1 =>
    let (v, any) := byOr c s r n
    if bySel c s r n then (v ||| nthD 0 s.wDataBy n, true) else (v, any)

/-- `new_data` (memory.py:549-554; functions.py:379-385: OR of `Mux(sel_k, data_k, 0)` and of
    `Mux(~select.any(), default, 0)`) -/
def newData (c : Cfg) (s : State) (r : Nat) : Nat :=
  let (v, any) := byOr c s r c.nw
  if any then v else bankData c s r

def outR (c : Cfg) (s : State) (r : Nat) : Nat :=
  if nthD false s.rdEnBy r then newData c s r else nthD 0 s.syncData r

def out (c : Cfg) (s : State) : List Nat := tab c.nr (outR c s)

def step (c : Cfg) (s : State) (i : In) : State :=
  { table := s.table.step c i,
    banks := tab c.nw (fun k => tab c.nr (fun r =>
      let b := bankR s k r
      { mem := write1 c.w (nthD 0 c.grans k) b.mem (i.w k),
        rdata := if i.rEn r then rd b.mem (i.rAddr r) else b.rdata })),
    wAddrBy := tab c.nw i.wAddr, wDataBy := tab c.nw i.wData, wEnBy := tab c.nw (fun k => (i.w k).en),
    rdEnBy := tab c.nr i.rEn, rdAddrBy := tab c.nr i.rAddr,
    syncData := tab c.nr (outR c s) }

def run (c : Cfg) (s : State) : List In → List (List Nat)
  | [] => []
  | i :: is => out c s :: run c (step c s i) is

end Ilvt
end TxV.MultiportMem
