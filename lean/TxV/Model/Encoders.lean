import TxV.Model.Util
/-!
Models of the encoders / multiplexers / selecting network of
`transactron/utils/amaranth_ext/elaboratables.py` and of `one_hot_mux`
(`transactron/utils/amaranth_ext/functions.py:331-386`).

Bit vectors are `List Bool`, least significant bit first; data words are `Nat`.
Every function mirrors the *construction* in the source (same recursion / tree shape);
`TxV/Props/C38.lean` equates them with their mathematical definitions.
-/
namespace TxV.Encoders

/-- the `w` low bits of `x`, LSB first -/
def bitsOf (w x : Nat) : List Bool := (List.range w).map (fun i => x.testBit i)

/-- the number denoted by a bit list (LSB first) -/
def natOf : List Bool → Nat
  | [] => 0
  | b :: bs => b.toNat + 2 * natOf bs

/-! ### MultiPriorityEncoder (elaboratables.py:250-387) -/

/-- indices of the set bits of `bits`, ascending, the first bit having index `s` -/
def idxs : List Bool → Nat → List Nat
  | [], _ => []
  | b :: bs, s => if b then s :: idxs bs (s+1) else idxs bs (s+1)

/-- first `k` elements of `l`, padded with zeros (unassigned `level_outputs` are 0) -/
def padN (k : Nat) (l : List Nat) : List Nat := (l ++ List.replicate k 0).take k
/-- `k` valid flags of which the first `min n k` are set -/
def padB (k n : Nat) : List Bool := (List.replicate n true ++ List.replicate k false).take k

/-- the assignments of one `Case((1 << i) - 1)` (elaboratables.py:369-375):
    outputs `0..i-1` from the right (low) half, the others from the left half shifted by `i` -/
def merge (K i : Nat) (r l : List Nat × List Bool) : List Nat × List Bool :=
  (r.1.take i ++ l.1.take (K - i), r.2.take i ++ l.2.take (K - i))

/-- which case of `Switch(Cat(r_val))` matches: `some i` iff the valid vector is `(1 << i) - 1`,
    i.e. `i` leading `true`s followed by `false`s only; `none` = no case matches -/
def prefixCount : List Bool → Option Nat
  | [] => some 0
  | true :: v => (prefixCount v).map (· + 1)
  | false :: v => if v.all (!·) then some 0 else none

/-- nothing assigned: all outputs 0, all valids 0 -/
def zeros (K : Nat) : List Nat × List Bool := (List.replicate K 0, List.replicate K false)

/-- transcription of `MultiPriorityEncoder._build_tree` (elaboratables.py:348-376);
    `fuel ≥ bits.length` bounds the recursion depth -/
def build (K : Nat) : Nat → List Bool → Nat → List Nat × List Bool
  | 0, _, _ => zeros K
  | fuel+1, bits, start =>
    match bits with
    | [] => zeros K
    | [b] => if b then (padN K [start], padB K 1) else zeros K
    | b :: b' :: rest =>
      let bits := b :: b' :: rest
      let mid := bits.length / 2
      let r := build K fuel (bits.take mid) start
      let l := build K fuel (bits.drop mid) (start + mid)
      match prefixCount r.2 with
      | some i => merge K i r l
      | none => zeros K

/-- `MultiPriorityEncoder(input_width = bits.length, outputs_count = K)`: `(outputs, valids)` -/
def mpe (K : Nat) (bits : List Bool) : List Nat × List Bool := build K bits.length bits 0

/-- the mathematical definition: the first `K` set-bit indices in ascending order (zero padded)
    and a prefix of valid flags -/
def spec (K : Nat) (bits : List Bool) (start : Nat) : List Nat × List Bool :=
  (padN K (idxs bits start), padB K (idxs bits start).length)

/-- positions of the set bits of `bits` in ascending order, stated without recursion -/
def setBits (bits : List Bool) : List Nat :=
  (List.range bits.length).filter (fun j => bits[j]? == some true)

/-! ### RingMultiPriorityEncoder (elaboratables.py:515-540) -/

/-- `x & ((1 << lc) - 1)` on a bit list -/
def maskLow (lc : Nat) (l : List Bool) : List Bool := l.take lc ++ List.replicate (l.length - lc) false

/-- `(x >> sh)` assigned to a `w`-bit signal -/
def shiftRightTrunc (w sh : Nat) (l : List Bool) : List Bool := (l.drop sh ++ List.replicate w false).take w

/-- `RingMultiPriorityEncoder(input_width = inp.length, outputs_count = K)` with inputs `first`, `last` -/
def ring (K : Nat) (inp : List Bool) (first last : Nat) : List Nat × List Bool :=
  let w := inp.length
  let dbl := inp ++ inp                                        -- Cat(input, input)
  let lc := if first > last then w + last else last           -- last_corrected
  let encIn := shiftRightTrunc w first (maskLow lc dbl)        -- (double_input & mask) >> first
  let r := mpe K encIn
  (r.1.map (fun o => let mv := o + first; if mv ≥ w then mv - w else mv), r.2)

/-- the positions `first, first+1, …` (circularly) up to, not including, `last` -/
def ringOrder (w first last : Nat) : List Nat :=
  if first ≤ last then List.range' first (last - first)
  else List.range' first (w - first) ++ List.range' 0 last

/-- the mathematical definition: set bits of `inp` in circular order from `first` to `last` -/
def ringSel (inp : List Bool) (first last : Nat) : List Nat :=
  (ringOrder inp.length first last).filter (fun j => inp[j]? == some true)

/-! ### StableSelectingNetwork (elaboratables.py:578-619) -/

/-- a partial result: the (already compacted) array and the number of valid elements in it -/
abbrev Node := List Nat × Nat

/-- merge of two neighbouring nodes (elaboratables.py:592-603).  Indexing an `Array` with an
    out-of-range value yields 0 in Amaranth 0.5 (a `SwitchValue` without default), hence `getD … 0`;
    the theorems only use in-range reads. -/
def mergeNode (a b : Node) : Node :=
  let la := a.1.length
  let lb := b.1.length
  (a.1.mapIdx (fun i x => if a.2 ≤ i then b.1.getD (i - a.2) 0 else x)
    ++ (List.range lb).map (fun i => if la + i - a.2 ≥ lb then 0 else b.1.getD (la + i - a.2) 0),
   a.2 + b.2)

/-- one level of the network: neighbours are merged pairwise, an odd last element moves up unchanged -/
def pairUp : List Node → List Node
  | a :: b :: rest => mergeNode a b :: pairUp rest
  | l => l

/-- the `while len(current_level) >= 2` loop (`fuel` ≥ number of nodes) -/
def reduce : Nat → List Node → List Node
  | 0, l => l
  | f+1, l => if l.length ≥ 2 then reduce f (pairUp l) else l

/-- leaves: one single-element array per input, its count is the valid bit -/
def leaves (inputs : List Nat) (valids : List Bool) : List Node :=
  List.zipWith (fun x v => ([x], v.toNat)) inputs valids

/-- `StableSelectingNetwork(n)`: `some (outputs, output_cnt)`; `none` only for `n = 0` -/
def ssn (inputs : List Nat) (valids : List Bool) : Option Node :=
  (reduce inputs.length (leaves inputs valids)).head?

/-- the mathematical definition: the inputs whose valid bit is set, in order -/
def selectValid : List Nat → List Bool → List Nat
  | x :: xs, v :: vs => if v then x :: selectValid xs vs else selectValid xs vs
  | _, _ => []

/-! ### one_hot_mux / OneHotMux (functions.py:331-386, elaboratables.py:729-741) -/

/-- `x + 1` on `len(x)` bits -/
def incL : List Bool → List Bool
  | [] => []
  | false :: r => true :: r
  | true :: r => false :: incL r

/-- two's complement `-x` on `len(x)` bits -/
def negL (l : List Bool) : List Bool := incL (l.map (!·))

/-- `extract_lowest_set_bit`: `(value & -value)[:len(value)]` (functions.py:395) -/
def lowestSet (sel : List Bool) : List Bool := List.zipWith (· && ·) sel (negL sel)

/-- one layer of `binary_tree_reduce` with `operator.or_` (functions.py:205-207) -/
def pairOr : List Nat → List Nat
  | a :: b :: rest => (a ||| b) :: pairOr rest
  | l => l

/-- `or_value` = `binary_tree_reduce(neutral = 0, operator = |)`; `fuel ≥ l.length` -/
def treeOr : Nat → List Nat → Nat
  | _, [] => 0
  | _, [x] => x
  | 0, x :: _ :: _ => x                 -- not reached when `fuel ≥ l.length`
  | f+1, a :: b :: rest => treeOr f (pairOr (a :: b :: rest))

/-- `one_hot_mux(inputs = zip(sel, data), default, priority)` -/
def oneHotMux (priority : Bool) (sel : List Bool) (data : List Nat) (dflt : Option Nat) : Nat :=
  let first := lowestSet sel
  let oh := if priority then first else sel
  let allSel := match dflt with
    | none => oh
    | some _ => oh ++ [!(sel.any id)]
  let allData := match dflt with
    | none => data
    | some d => data ++ [d]
  match allData with
  | [x] => x                                                   -- functions.py:382-383
  | _ => treeOr allData.length (List.zipWith (fun (s : Bool) d => if s then d else 0) allSel allData)


/-! ### one_hot_mux on signed / mixed-width operands

The function returns an Amaranth `Value` whose shape is the unification of the operand shapes
(`Mux(sel, data, C(0,0))` and `|` both unify like a mux tree); every operand is sign- or zero-extended
to that width before the OR.  `oneHotMuxZ` is `oneHotMux` on the two's-complement images, read back
according to the unified shape, so that the *mathematical* value of the result is modelled
(what a consumer wider than the operands sees). -/

/-- Amaranth `Shape`: width and signedness -/
structure Shp where
  width : Nat
  signed : Bool
deriving Repr, DecidableEq

def maxL (l : List Nat) : Nat := l.foldr max 0

/-- `Shape._unify` (amaranth/hdl/_ast.py): all unsigned → the maximal width; otherwise signed, unsigned
    operands needing one more bit -/
def unifyShp (l : List Shp) : Shp :=
  if l.any (·.signed) then
    { width := maxL (l.map (fun s => if s.signed then s.width else s.width + 1)), signed := true }
  else { width := maxL (l.map (·.width)), signed := false }

/-- two's-complement image of `z` on `W` bits -/
def toBits (W : Nat) (z : Int) : Nat := (z % (2 : Int) ^ W).toNat

/-- value of the `s.width`-bit pattern `n` read with the signedness of `s` -/
def ofBits (s : Shp) (n : Nat) : Int :=
  if s.signed && decide (2 ^ (s.width - 1) ≤ n) then (n : Int) - (2 : Int) ^ s.width else (n : Int)

/-- `one_hot_mux` with typed operands: `(shape of the returned Value, its mathematical value)` -/
def oneHotMuxZ (priority : Bool) (sel : List Bool) (data : List (Shp × Int)) (dflt : Option (Shp × Int)) :
    Shp × Int :=
  let shp := unifyShp (data.map (·.1) ++ dflt.toList.map (·.1))
  (shp, ofBits shp (oneHotMux priority sel (data.map (fun d => toBits shp.width d.2))
                      (dflt.map (fun d => toBits shp.width d.2))))

end TxV.Encoders
