import TxV.Model.Util
/-!
Multiport memories of `transactron/utils/amaranth_ext/memory.py` — part 1:
shared primitives, the *ideal* Amaranth synchronous memory (the specification of C23)
and the model of `MultiReadMemory` (memory.py:128-173).

Cycle convention (DESIGN §5): `out s` are the values of the read ports' `data` signals in
the current cycle (sampled just before the clock edge); `step s i` are the register and
memory contents after the edge at which the port inputs `i` were presented.

Modelled semantics of `amaranth.lib.memory.Memory` (trusted base, DESIGN §4; transcribed
from the simulator, amaranth/sim/_pyrtl.py:555-594, and validated on every run because
the driver prints the ideal memory next to the model and the harness runs Amaranth's own
`Memory` next to the real class):
* rows beyond `init` are 0; a write to an address `≥ depth` is dropped, a read from such
  an address returns 0 (such addresses are representable when `depth` is not a power of two);
* a write replaces exactly the bits of the granules whose enable bit is set;
* a synchronous read port is a data register (reset value 0) loaded when `en` is set with
  the row as it is *before* the edge, overlaid — for every write port in the transparency
  set whose address equals the read address — with the enabled granules of that port's data;
* write ports are applied in port order (only matters outside the property's hypothesis).
-/
namespace TxV.MultiportMem

/-! ### list plumbing -/

/-- element `i` of `l`, `z` when out of range (used for wiring whose indices are in range by
    construction, and for memory rows, where `z = 0` is Amaranth's out-of-range read value) -/
def nthD {α} (z : α) (l : List α) (i : Nat) : α :=
  match l[i]? with
  | some v => v
  | none => z

/-- `[f 0, …, f (n-1)]` -/
def tab {α} (n : Nat) (f : Nat → α) : List α := (List.range n).map f

/-- read row `a` -/
def rd (m : List Nat) (a : Nat) : Nat := nthD 0 m a

/-- XOR of `f k` over `k < n` -/
def xorAll (f : Nat → Nat) : Nat → Nat
  | 0 => 0
  | n + 1 => xorAll f n ^^^ f n

/-- XOR of `f k` over `k < n`, `k ≠ j` -/
def xorExcept (f : Nat → Nat) (j : Nat) : Nat → Nat
  | 0 => 0
  | n + 1 => xorExcept f j n ^^^ (if n = j then 0 else f n)

/-! ### port inputs -/

/-- one write port in one cycle: `en` is the value of the enable signal (one bit per granule) -/
structure WrIn where
  en : Nat
  addr : Nat
  data : Nat
deriving Repr, DecidableEq, Inhabited

/-- one read port in one cycle -/
structure RdIn where
  en : Bool
  addr : Nat
deriving Repr, DecidableEq, Inhabited

structure In where
  ws : List WrIn
  rs : List RdIn
deriving Repr, DecidableEq, Inhabited

def In.w (i : In) (j : Nat) : WrIn := nthD ⟨0, 0, 0⟩ i.ws j
def In.r (i : In) (r : Nat) : RdIn := nthD ⟨false, 0⟩ i.rs r
/-- `write_port.en.any()` -/
def In.wEn (i : In) (j : Nat) : Bool := (i.w j).en != 0
def In.wAddr (i : In) (j : Nat) : Nat := (i.w j).addr
def In.wData (i : In) (j : Nat) : Nat := (i.w j).data
def In.rEn (i : In) (r : Nat) : Bool := (i.r r).en
def In.rAddr (i : In) (r : Nat) : Nat := (i.r r).addr

/-- configuration of a memory: `grans[j]` = granularity of write port `j` (0 = `None`),
    bit `j` of `trs[r]` = read port `r` is transparent for write port `j` -/
structure Cfg where
  depth : Nat
  w : Nat
  init : List Nat
  grans : List Nat
  trs : List Nat
deriving Repr, DecidableEq, Inhabited

def Cfg.nw (c : Cfg) : Nat := c.grans.length
def Cfg.nr (c : Cfg) : Nat := c.trs.length
def Cfg.tr (c : Cfg) (r j : Nat) : Bool := (nthD 0 c.trs r).testBit j

/-- the property's hypothesis for one cycle: no two *enabled* write ports address the same row -/
def DistinctRows (nw : Nat) (i : In) : Prop :=
  ∀ j k, j < nw → k < nw → j ≠ k → i.wEn j = true → i.wEn k = true → i.wAddr j ≠ i.wAddr k

/-- all addresses presented in a cycle are rows of the memory -/
def InRange (depth nw nr : Nat) (i : In) : Prop :=
  (∀ j, j < nw → i.wAddr j < depth) ∧ (∀ r, r < nr → i.rAddr r < depth)

/-! ### ideal memory -/

/-- initial contents: `init` padded with zeros -/
def initMem (depth : Nat) (init : List Nat) : List Nat := tab depth (fun a => nthD 0 init a)

/-- granule enable `mask` (bit `k` = granule `k`) expanded to a bit mask of `n` granules of `g` bits -/
def expandMask (g : Nat) : Nat → Nat → Nat
  | 0, _ => 0
  | n + 1, mask => expandMask g n mask ||| (if mask.testBit n then (2 ^ g - 1) <<< (g * n) else 0)

/-- the row after a write of `data` with enable `e` over `old` (width `w`, granularity `g`, 0 = None) -/
def wmerge (w g e old data : Nat) : Nat :=
  if g = 0 then (if e % 2 = 1 then data else old)
  else old ^^^ ((old ^^^ data) &&& expandMask g (w / g) e)

/-- one write port applied to the memory (out-of-range: `List.set` leaves the list unchanged) -/
def write1 (w g : Nat) (m : List Nat) (x : WrIn) : List Nat :=
  m.set x.addr (wmerge w g x.en (rd m x.addr) x.data)

/-- all write ports of a cycle, in port order -/
def applyWrites (w : Nat) : List Nat → List WrIn → List Nat → List Nat
  | g :: gs, x :: xs, m => applyWrites w gs xs (write1 w g m x)
  | _, _, m => m

/-- transparency overlay on the value `v` read at `a`; `j` = index of the first port of the lists -/
def overlay (w t a : Nat) : Nat → List Nat → List WrIn → Nat → Nat
  | j, g :: gs, x :: xs, v =>
    overlay w t a (j + 1) gs xs (if t.testBit j && x.addr == a then wmerge w g x.en v x.data else v)
  | _, _, _, v => v

/-- the value a synchronous read port with transparency set `t` latches for address `a` -/
def readVal (w : Nat) (grans : List Nat) (m : List Nat) (ws : List WrIn) (t a : Nat) : Nat :=
  overlay w t a 0 grans ws (rd m a)

namespace Ideal

structure State where
  mem : List Nat
  rdata : List Nat
deriving Repr, DecidableEq, Inhabited

def init (c : Cfg) : State :=
  { mem := initMem c.depth c.init, rdata := tab c.nr (fun _ => 0) }

/-- read-port data in the current cycle -/
def out (c : Cfg) (s : State) : List Nat := tab c.nr (fun r => nthD 0 s.rdata r)

def step (c : Cfg) (s : State) (i : In) : State :=
  { mem := applyWrites c.w c.grans i.ws s.mem,
    rdata := tab c.nr (fun r =>
      if i.rEn r then readVal c.w c.grans s.mem i.ws (nthD 0 c.trs r) (i.rAddr r)
      else nthD 0 s.rdata r) }

/-- outputs of every cycle of a history (cycle `t`'s output is what is visible while the
    inputs of cycle `t` are presented) -/
def run (c : Cfg) (s : State) : List In → List (List Nat)
  | [] => []
  | i :: is => out c s :: run c (step c s i) is

end Ideal

/-! ### MultiReadMemory (memory.py:128-173)

One `amaranth.lib.memory.Memory` per read port (memory.py:148-153), each with one read port
and — if a write port was requested — one write port wired to the single external write
port (memory.py:166-171, same granularity: memory.py:154).  The physical read port is
transparent for the physical write port iff the external write port is in the external read
port's transparency set (memory.py:155-159).  `write_port()` refuses a second write port
(memory.py:137-140), so `c.grans` has at most one element. -/
/-- one physical `amaranth.lib.memory.Memory` with one read port: contents and the data
    register of the read port -/
structure Bank where
  mem : List Nat
  rdata : Nat
deriving Repr, DecidableEq, Inhabited

namespace MultiRead

structure State where
  banks : List Bank
deriving Repr, DecidableEq, Inhabited

def bank (s : State) (r : Nat) : Bank := nthD ⟨[], 0⟩ s.banks r

def init (c : Cfg) : State :=
  { banks := tab c.nr (fun _ => { mem := initMem c.depth c.init, rdata := 0 }) }

def out (c : Cfg) (s : State) : List Nat := tab c.nr (fun r => (bank s r).rdata)

def step (c : Cfg) (s : State) (i : In) : State :=
  { banks := tab c.nr (fun r =>
      let b := bank s r
      { mem := applyWrites c.w c.grans i.ws b.mem,
        rdata := if i.rEn r then readVal c.w c.grans b.mem i.ws (nthD 0 c.trs r) (i.rAddr r)
                 else b.rdata }) }

def run (c : Cfg) (s : State) : List In → List (List Nat)
  | [] => []
  | i :: is => out c s :: run c (step c s i) is

end MultiRead

end TxV.MultiportMem
