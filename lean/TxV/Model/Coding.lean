import TxV.Model.Encoders
/-!
Models of `transactron/utils/amaranth_ext/coding.py` (Encoder, PriorityEncoder, Decoder,
PriorityDecoder, GrayEncoder, GrayDecoder) and of `count_trailing_zeros`
(`functions.py:79-99`) which `PriorityEncoder` is built from.
Bit vectors are `List Bool`, LSB first.
-/
namespace TxV.Coding
open TxV.Encoders

/-- `amaranth.utils.bits_for(n)` for `n ≥ 0` -/
def bitsFor (n : Nat) : Nat := if n = 0 then 0 else Nat.log2 n + 1

/-- width of `Signal(range(w))` -/
def rangeWidth (w : Nat) : Nat := if w = 0 then 0 else bitsFor (w - 1)

/-- `amaranth.utils.ceil_log2(n)`: least `k` with `n ≤ 2^k` -/
def clog2 (n : Nat) : Nat := if n ≤ 1 then 0 else Nat.log2 (n - 1) + 1

/-- `Encoder(w)` (coding.py:46-54): `Switch(i)` with `Case(1 << j)` → `o = j`, `Default` → `n = 1`.
    Result `(o, n)`. -/
def encoder (w x : Nat) : Nat × Bool :=
  match (List.range w).find? (fun j => x == 2 ^ j) with
  | some j => (j, false)
  | none => (0, true)

/-- the recursion `iter` of `count_trailing_zeros` (functions.py:80-97); the result has `step` bits -/
def ctzIter : Nat → List Bool → Nat
  | 0, _ => 0
  | step+1, s =>
    let p := 2 ^ step                       -- partition
    if s.length < p then ctzIter step s     -- Cat(iter(s, step-1), 0)
    else if (s.take p).any id then ctzIter step (s.take p)     -- Cat(lower_value, 0)
    else p + ctzIter step (s.drop p)                           -- Cat(upper_value, 1)

def ctz (s : List Bool) : Nat := ctzIter (clog2 (s.length + 1)) s

/-- `PriorityEncoder(w)` (coding.py:86-90): `o = Mux(i == 0, 0, count_trailing_zeros(i))` truncated to
    `Signal(range(w))`, `n = (i == 0)`.  Result `(o, n)`. -/
def prioEncoder (bits : List Bool) : Nat × Bool :=
  let zero := bits.all (!·)                                    -- i == 0
  ((if zero then 0 else ctz bits) % 2 ^ rangeWidth bits.length, zero)

/-- `Decoder(w)` / `PriorityDecoder(w)` (coding.py:121-129): `Switch(i)`, `Case(j)` → `o = 1 << j`
    for `j < w`; `If(n)` → `o = 0` (later assignment wins) -/
def decoder (w i : Nat) (n : Bool) : Nat :=
  let o := match (List.range w).find? (fun j => j == i) with
    | some j => 2 ^ j
    | none => 0
  if n then 0 else o

/-- `GrayEncoder` (coding.py:163): `o = i ^ i[1:]` -/
def grayEnc (bits : List Bool) : List Bool := List.zipWith xor bits (bits.drop 1 ++ [false])

/-- `GrayDecoder` (coding.py:191-194): from the top bit down, `rhs ^= i[k]; o[k] = rhs` -/
def grayDec : List Bool → List Bool
  | [] => []
  | b :: rest =>
    let r := grayDec rest
    (xor b (r.headD false)) :: r

end TxV.Coding
