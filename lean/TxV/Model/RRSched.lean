import TxV.Model.RoundRobin
/-!
Model of `trivial_roundrobin_cc_scheduler` (transactron/core/schedulers.py:47-77) as the
`TransactionManager` instantiates it (transactron/core/manager.py:557-568): one call per connected
component `cc` of the conflict graph, each creating one `OneHotRoundRobin(len(cc))`
(transactron/utils/amaranth_ext/elaboratables.py:139-192, modelled in `TxV.Model.RoundRobin`).

```
rr = OneHotRoundRobin(len(cc))                                          # schedulers.py:72
for k, transaction in enumerate(cc):                                    # schedulers.py:74
    rr.requests[k].eq(transaction.ready & transaction.runnable)         # schedulers.py:75
    transaction.run.eq(rr.grant[k] & rr.valid)                          # schedulers.py:76
```

* A *partition* `ccs : List (List Nat)` lists the components; each component lists its transactions
  (numbers `< n`) in the iteration order of the Python set `cc`, i.e. position `k` in the list is
  the arbiter input `k`.  The iteration order is an artefact of Python's set; the theorems hold
  for every order, the driver is told the order the implementation actually used.
* State: per component the index held by `grant_reg` (reset: index 0).
* Input of a cycle: the request bit `ready ∧ runnable` of every transaction.  For designs without
  ready dependencies (manager.py:539-548 with `ready_dependencies = ∅` and no argument validators)
  `runnable = transaction body ready ∧ every (transitively) called method body ready`, a function of
  the cycle's inputs only: `requestOf`.
* Output of a cycle: per component the list of `run` bits by arbiter position.
-/
namespace TxV.RRSched
open TxV.RoundRobin

/-- `rr.requests[k]` of one component: the request of the transaction at position `k`
    (schedulers.py:75; positions `≥ len(cc)` do not exist, `pick` never reads them) -/
def ccReq (cc : List Nat) (req : Nat → Bool) : Nat → Bool := fun k =>
  match cc[k]? with
  | some t => req t
  | none => false

/-- `run` bits of one component by arbiter position: `rr.grant[k] & rr.valid` (schedulers.py:76),
    `n = len(cc)`, `g` = index held by the grant register -/
def ccRuns (n g : Nat) (req : Nat → Bool) : List Bool :=
  (List.range n).map fun k => ((rrStep n g req).2.grant.testBit k && (rrStep n g req).2.valid)

/-- one clock cycle of one component: (register after the edge, run bits of the cycle) -/
def ccStep (cc : List Nat) (g : Nat) (req : Nat → Bool) : Nat × List Bool :=
  ((rrStep cc.length g (ccReq cc req)).1, ccRuns cc.length g (ccReq cc req))

/-- reset state: every arbiter's `grant_reg` has `init=1` (index 0) -/
def init (ccs : List (List Nat)) : List Nat := ccs.map fun _ => RoundRobin.init

/-- one clock cycle of all schedulers (manager.py:566-568: one scheduler per component, no signal
    shared between them) -/
def step (ccs : List (List Nat)) (s : List Nat) (req : Nat → Bool) : List Nat × List (List Bool) :=
  (((ccs.zip s).map fun p => (ccStep p.1 p.2 req).1), ((ccs.zip s).map fun p => (ccStep p.1 p.2 req).2))

/-- the `run` bit of transaction `t` in the output `out` of a cycle -/
def runOf (ccs : List (List Nat)) (out : List (List Bool)) (t : Nat) : Bool :=
  (ccs.zip out).any fun p => (p.1.zip p.2).any fun q => q.1 == t && q.2

/-- register trajectory under a request history (`reqs τ t` = request of transaction `t` in cycle `τ`) -/
def traj (ccs : List (List Nat)) (reqs : Nat → Nat → Bool) (s0 : List Nat) : Nat → List Nat
  | 0 => s0
  | τ+1 => (step ccs (traj ccs reqs s0 τ) (reqs τ)).1

/-- run bits of cycle `τ` of a history -/
def runsAt (ccs : List (List Nat)) (reqs : Nat → Nat → Bool) (s0 : List Nat) (τ : Nat) : List (List Bool) :=
  (step ccs (traj ccs reqs s0 τ) (reqs τ)).2

/-- run over a finite history, collecting (state after the edge, run bits) per cycle -/
def run (ccs : List (List Nat)) (s : List Nat) : List (Nat → Bool) → List (List Nat × List (List Bool))
  | [] => []
  | r :: rs => step ccs s r :: run ccs (step ccs s r).1 rs

/-! ### requests of a design without ready dependencies -/

/-- `transaction.ready & transaction.runnable` (manager.py:539-548) when nothing is ready dependent:
    `tr t` = ready of the transaction body, `mr m` = ready of method body `m`,
    `calls t` = `method_map.methods_by_transaction[t]` (all transitively called methods) -/
def requestOf (calls : Nat → List Nat) (tr mr : Nat → Bool) : Nat → Bool := fun t =>
  tr t && (calls t).all mr

/-! ### decidable well-formedness checks evaluated by the driver on the real `cgr` / `ccs` -/

/-- every transaction `< n` lies in exactly one component, components are non-empty -/
def validPart (n : Nat) (ccs : List (List Nat)) : Bool :=
  decide ccs.flatten.Nodup && ccs.flatten.all (· < n) && ccs.flatten.length == n && ccs.all (fun cc => !cc.isEmpty)

/-- every conflict edge joins two transactions of one component (what `_graph_ccs(cgr)` gives,
    transactron_helpers.py:35-68) -/
def edgesIntra (edges : List (Nat × Nat)) (ccs : List (List Nat)) : Bool :=
  edges.all fun e => ccs.any fun cc => cc.contains e.1 && cc.contains e.2

/-- closure of a set of vertices under the edge relation, `fuel` rounds -/
def closure (edges : List (Nat × Nat)) : Nat → List Nat → List Nat
  | 0, vs => vs
  | fuel+1, vs =>
    let new := edges.filterMap fun e =>
      if vs.contains e.1 && !vs.contains e.2 then some e.2
      else if vs.contains e.2 && !vs.contains e.1 then some e.1 else none
    closure edges fuel (vs ++ new.eraseDups)

/-- every component is connected by conflict edges (so the parts are the conflict components and
    not unions of them); driver-side sanity check, no theorem depends on it -/
def ccsConnected (edges : List (Nat × Nat)) (ccs : List (List Nat)) : Bool :=
  ccs.all fun cc =>
    match cc with
    | [] => false
    | v :: _ => cc.all fun t => (closure edges cc.length [v]).contains t

end TxV.RRSched
