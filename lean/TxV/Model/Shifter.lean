import TxV.Model.Bits
/-!
Model of `transactron/utils/amaranth_ext/shifter.py` (lines 25-433).

A value is the list of its bits, LSB first; a vector is the list of its entries, entry 0
first.  Everything is an instance of one generic function on lists, exactly as in the
source (`Cat(value1, value2).bit_select(offset, len(value1))`); the left variants are the
right variants on reversed lists; the `*_vec_*` variants slice the entries into bit planes,
shift every plane, and reassemble.  Core Lean only.
-/
namespace TxV.Shifter
open TxV.Bits

/-- `generic_shift_right` (shifter.py:25-50): `Cat(value1, value2).bit_select(offset, len(value1))`.
    Amaranth's `bit_select` with a variable offset is `(cat >> offset)[:w]`: positions past
    the end of the concatenation read `zero`. -/
def genericShiftRight {α} (zero : α) (v1 v2 : List α) (off : Nat) : List α :=
  (List.range v1.length).map fun i => ((v1 ++ v2)[i + off]?).getD zero

/-- `generic_shift_left` (shifter.py:53-77): reverse, shift right, reverse -/
def genericShiftLeft {α} (zero : α) (v1 v2 : List α) (off : Nat) : List α :=
  (genericShiftRight zero v1.reverse v2.reverse off).reverse

/-- `shift_right` (shifter.py:80-107): fill with `placeholder.replicate(len(value))` -/
def shiftRight {α} (zero : α) (v : List α) (off : Nat) (ph : α) : List α :=
  genericShiftRight zero v (List.replicate v.length ph) off

/-- `shift_left` (shifter.py:110-138) -/
def shiftLeft {α} (zero : α) (v : List α) (off : Nat) (ph : α) : List α :=
  genericShiftLeft zero v (List.replicate v.length ph) off

/-- `rotate_right` (shifter.py:141-161) -/
def rotateRight {α} (zero : α) (v : List α) (off : Nat) : List α := genericShiftRight zero v v off

/-- `rotate_left` (shifter.py:164-184) -/
def rotateLeft {α} (zero : α) (v : List α) (off : Nat) : List α := genericShiftLeft zero v v off

/-! ### vector variants (shifter.py:199-433): entries are `ew`-bit values (structured entries
are flattened with `Value.cast`) -/

/-- `Cat(val[i] for val in data)` : bit plane `i` of the entries -/
def plane (data : List Nat) (i : Nat) : List Bool := data.map (·.testBit i)

/-- `generic_shift_vec_right` (shifter.py:199-246) -/
def genericShiftVecRight (ew : Nat) (d1 d2 : List Nat) (off : Nat) : List Nat :=
  -- shifted_bits = [generic_shift_right(b1, b2, offset) for b1, b2 in zip(bits1, bits2)]
  let shifted : List (List Bool) :=
    (List.range ew).map fun i => genericShiftRight false (plane d1 i) (plane d2 i) off
  -- shifted_values = [Cat(bits[i] for bits in shifted_bits) for i in range(len(data1))]
  (List.range d1.length).map fun j => ofBits (shifted.map fun bits => (bits[j]?).getD false)

/-- `generic_shift_vec_left` (shifter.py:261-287) -/
def genericShiftVecLeft (ew : Nat) (d1 d2 : List Nat) (off : Nat) : List Nat :=
  (genericShiftVecRight ew d1.reverse d2.reverse off).reverse

/-- `shift_vec_right` (shifter.py:302-333); `placeholder=None` is the all-zero entry -/
def shiftVecRight (ew : Nat) (d : List Nat) (off : Nat) (ph : Nat) : List Nat :=
  genericShiftVecRight ew d (List.replicate d.length ph) off

/-- `shift_vec_left` (shifter.py:346-373) -/
def shiftVecLeft (ew : Nat) (d : List Nat) (off : Nat) (ph : Nat) : List Nat :=
  genericShiftVecLeft ew d (List.replicate d.length ph) off

/-- `rotate_vec_right` (shifter.py:384-403) -/
def rotateVecRight (ew : Nat) (d : List Nat) (off : Nat) : List Nat := genericShiftVecRight ew d d off

/-- `rotate_vec_left` (shifter.py:414-433) -/
def rotateVecLeft (ew : Nat) (d : List Nat) (off : Nat) : List Nat := genericShiftVecLeft ew d d off

/-! ### the same on numbers (what the driver prints) -/

def onBits (w : Nat) (f : List Bool → List Bool) (x : Nat) : Nat := ofBits (f (toBits w x))

end TxV.Shifter
