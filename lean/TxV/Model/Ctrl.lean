/-!
# Control paths (transactron/core/tmodule.py) and call-path exclusivity (manager.py:31-36)

Core Lean only.  This file is the *flat* view of control structure that the transaction
manager works with: a `CtrlPath` is what `TModule.ctrl_path` returned at a call site or at a
body definition.  The control *trees* (If/Switch/FSM semantics, `exclusive_sound`) live in
`TxV/Core/*` (theory side); the manager never sees them.

All definitions are total, structural and executable (they are interpreted by
`lean --run Driver/Core.lean`).
-/
namespace TxV.CoreModel

/-- tmodule.py:62-76 `PathEdge(alt, par)` -/
structure PathEdge where
  /-- which alternative of the control structure (If=0, Elif/Else=1,2,…; Switch/FSM push=0, Case/State=1,2,…) -/
  alt : Nat
  /-- which parallel control structure at the same level -/
  par : Nat
deriving DecidableEq, Repr, Inhabited

/-- tmodule.py:79-93 `CtrlPath(module, path)`; `module` is the `TModule.uid`
    (an opaque label: only equality is ever used; `-1` is `Body.ctrl_path`'s class default). -/
structure CtrlPath where
  module : Int
  path : List PathEdge
deriving DecidableEq, Repr, Inhabited

/-- the `for a, b in zip(self.path, other.path)` loop of `CtrlPath.exclusive_with`
    (tmodule.py:130-137).  `none` = the early `return False` (edges differ in `par`);
    `some n` = the loop ended (by `break` on a differing `alt` with equal `par`, or by
    exhausting the shorter path) with `len(common_prefix) = n`. -/
def exclLoop : List PathEdge → List PathEdge → Nat → Option Nat
  | a :: as, b :: bs, n =>
    if a = b then exclLoop as bs (n + 1)
    else if a.par ≠ b.par then none
    else some n
  | _, _, n => some n

/-- tmodule.py:118-143 `CtrlPath.exclusive_with` -/
def CtrlPath.exclusiveWith (p q : CtrlPath) : Bool :=
  match exclLoop p.path q.path 0 with
  | none => false
  | some n => decide (p.module = q.module) && (n != p.path.length) && (n != q.path.length)

/-- tmodule.py:95-107 `CtrlPath.is_prefix` (not used by the manager; kept for completeness) -/
def CtrlPath.isPrefix (p q : CtrlPath) : Bool :=
  decide (p.module = q.module) && p.path.isPrefixOf q.path

/-- manager.py:31-36 `call_paths_exclusive(path1, path2)`:
    skip the longest common prefix (element-wise equality of `CtrlPath`s); if either path is
    exhausted the answer is `False`; otherwise `exclusive_with` of the first differing pair. -/
def callPathsExclusive : List CtrlPath → List CtrlPath → Bool
  | a :: as, b :: bs => if a = b then callPathsExclusive as bs else a.exclusiveWith b
  | _, _ => false

/-- `longest_common_prefix` (utils/transactron_helpers.py:71-77) for two sequences -/
def lcp {α} [DecidableEq α] : List α → List α → List α
  | a :: as, b :: bs => if a = b then a :: lcp as bs else []
  | _, _ => []

end TxV.CoreModel
