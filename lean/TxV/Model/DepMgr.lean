import TxV.Model.Util
/-!
Model of `transactron.utils.dependencies.DependencyManager` (utils/dependencies.py:91-150) with the
key classes `SimpleKey`, `ListKey` (utils/dependencies.py:57-88) and `UnifierKey`
(lib/dependencies.py:11-35).

Keys are identified by a number; `Cfg : Nat → KeyCfg` gives the class attributes of each key
(`lock_on_get`, `cache`, `empty_valid` are class attributes that a subclass may override, so all
eight combinations exist for every kind).  Dependencies are numbers (for a unifier key: the
identity of a `Method`).  The three dictionaries of the manager are modelled as total functions
with an explicit "absent" value, so that no indexing/default convention enters the theorems.
-/
namespace TxV.DepMgr

inductive Kind | simple | list | unifier
deriving Repr, DecidableEq

/-- class attributes of a key class -/
structure KeyCfg where
  kind : Kind
  lock : Bool             -- lock_on_get
  cache : Bool            -- cache
  emptyValid : Bool       -- empty_valid
  dflt : Option Nat       -- SimpleKey.default_value (`none` = Python `None`)
deriving Repr, DecidableEq

abbrev Cfg := Nat → KeyCfg

/-- what `combine` returns -/
inductive Val
  | nat (n : Nat)               -- SimpleKey: the dependency itself / the default value
  | list (l : List Nat)         -- ListKey: the list of dependencies
  | meth (m : Nat)              -- UnifierKey with one method: `(data[0], ())`
  | unif (l : List Nat)         -- UnifierKey otherwise: a fresh `unifier(data)`; we record its argument
deriving Repr, DecidableEq

inductive Err | keyError | runtimeError
deriving Repr, DecidableEq

/-- `key.combine(data)`; `pure none` is a Python `None` result (SimpleKey with `default_value = None`) -/
def combine (c : KeyCfg) (data : List Nat) : Except Err (Option Val) :=
  match c.kind with
  | .simple =>                                   -- utils/dependencies.py:72-77
    match data with
    | [] => pure (c.dflt.map Val.nat)
    | [v] => pure (some (.nat v))
    | _ => throw .runtimeError
  | .list => pure (some (.list data))            -- utils/dependencies.py:87-88
  | .unifier =>                                  -- lib/dependencies.py:29-34
    match data with
    | [m] => pure (some (.meth m))
    | _ => pure (some (.unif data))

/-- the manager's three dictionaries -/
structure State where
  deps : Nat → Option (List Nat)           -- `self.dependencies` (`none` = key not in the defaultdict)
  cache : Nat → Option (Option Val)        -- `self.cache` (`some none` = a cached `None`)
  locked : Nat → Bool                      -- `self.locked_dependencies`

def init : State := { deps := fun _ => none, cache := fun _ => none, locked := fun _ => false }

def upd {α} (f : Nat → α) (k : Nat) (v : α) : Nat → α := fun k' => if k' = k then v else f k'

inductive Op
  | add (k : Nat) (v : Nat)     -- add_dependency(key, v)
  | get (k : Nat)               -- get_dependency(key)
  | opt (k : Nat)               -- get_optional_dependency(key)
deriving Repr, DecidableEq

inductive Out
  | added                       -- add_dependency returned
  | ret (v : Option Val)        -- a get returned (`none` = Python `None`, only from get_optional_dependency)
  | raised (e : Err)
deriving Repr, DecidableEq

/-- `defaultdict.__getitem__`: a missing key is inserted with an empty list -/
def depsOf (s : State) (k : Nat) : List Nat :=
  match s.deps k with
  | some l => l
  | none => []

/-- utils/dependencies.py:102-115 -/
def addDep (s : State) (k v : Nat) : State × Out :=
  if s.locked k then (s, .raised .keyError)
  else
    ({ s with deps := upd s.deps k (some (depsOf s k ++ [v])), cache := upd s.cache k none }, .added)

/-- `if key.lock_on_get: self.locked_dependencies.add(key)` (utils/dependencies.py:135-136) -/
def lockSt (c : Cfg) (s : State) (k : Nat) : State :=
  if (c k).lock then { s with locked := upd s.locked k true } else s

/-- utils/dependencies.py:129-150; the result is `Except` for an exception raised by `combine` -/
def getOpt (c : Cfg) (s : State) (k : Nat) : State × Except Err (Option Val) :=
  let s1 := lockSt c s k
  if !(c k).emptyValid && (s1.deps k).isNone then (s1, pure none)
  else
    match s1.cache k with
    | some v => (s1, pure v)
    | none =>
      -- `self.dependencies[key]` inserts the key
      let s2 := { s1 with deps := upd s1.deps k (some (depsOf s1 k)) }
      match combine (c k) (depsOf s1 k) with
      | .error e => (s2, .error e)
      | .ok v =>
        if (c k).cache then ({ s2 with cache := upd s2.cache k (some v) }, pure v)
        else (s2, pure v)

def step (c : Cfg) (s : State) : Op → State × Out
  | .add k v => addDep s k v
  | .opt k =>
    match getOpt c s k with
    | (s', .ok v) => (s', .ret v)
    | (s', .error e) => (s', .raised e)
  | .get k =>                                  -- utils/dependencies.py:117-127
    match getOpt c s k with
    | (s', .ok (some v)) => (s', .ret (some v))
    | (s', .ok none) => (s', .raised .keyError)
    | (s', .error e) => (s', .raised e)

/-- run a history, collecting outputs -/
def run (c : Cfg) (s : State) : List Op → State × List Out
  | [] => (s, [])
  | o :: os =>
    let (s', out) := step c s o
    let (s'', outs) := run c s' os
    (s'', out :: outs)

/-- state after a history from the empty manager -/
def after (c : Cfg) (h : List Op) : State := (run c init h).1

end TxV.DepMgr
