import TxV.Model.Util
/-!
Model of the round-robin arbiters of `transactron/utils/amaranth_ext/elaboratables.py`:

* `OneHotRoundRobin` (elaboratables.py:139-192): register `grant_reg` (one-hot, reset value 1),
  combinational outputs `grant` (one-hot) and `valid`.  The state of the model is the *index* `g`
  of the set bit of `grant_reg` (reachable states: `g < count`; the register is one-hot from
  reset on, the `Default` branch of the one-hot switch is unreachable).
* `RoundRobin` (elaboratables.py:195-247): registers `grant` (binary, reset 0) and `valid`.

Both use the same selection: with the register designating `g`, the `If`s are emitted in the order
`g-1, …, 0, count-1, …, g+1` and the *last* assignment wins, so the priority order is
`g+1, g+2, …, count-1, 0, …, g-1`; `g` itself keeps the grant only when nobody else requests
(`grant.eq(grant_reg)` / no assignment).  `pick` computes that index.

This file is reused by C09 (round-robin transaction scheduler): `pick`, `rrStep`, `traj`.
-/
namespace TxV.RoundRobin

/-- first requester among `g+k, g+k+1, …` (mod `n`), trying `fuel` candidates; `g` itself if none -/
def search (n g : Nat) (req : Nat → Bool) : Nat → Nat → Nat
  | _, 0 => g
  | k, fuel+1 => if req ((g + k) % n) then (g + k) % n else search n g req (k+1) fuel

/-- index granted in a cycle in which the register designates `g`
    (= next value of the register), elaboratables.py:179-184 and 235-243 -/
def pick (n g : Nat) (req : Nat → Bool) : Nat := search n g req 1 (n - 1)

/-- the same selection written as the source iterates it: candidates `g+1 … n-1, 0 … g-1` in
    priority order (reverse of the emission order, last assignment wins) -/
def order (n g : Nat) : List Nat := List.range' (g + 1) (n - (g + 1)) ++ List.range g

def pickSrc (n g : Nat) (req : Nat → Bool) : Nat :=
  match (order n g).find? req with
  | some j => j
  | none => g

/-- `requests.any()` -/
def anyReq (n : Nat) (req : Nat → Bool) : Bool := (List.range n).any req

/-- request vector given as a number (bit `j` = request of input `j`) -/
def reqOf (r : Nat) : Nat → Bool := fun j => r.testBit j

/-! ### OneHotRoundRobin -/

/-- outputs of `OneHotRoundRobin` in one cycle (combinational, sampled before the edge) -/
structure Out where
  grant : Nat      -- the one-hot encoded `grant` signal as a number
  valid : Bool
deriving Repr, DecidableEq

/-- reset state: `grant_reg` has `init=1`, i.e. index 0 -/
def init : Nat := 0

/-- one clock cycle of `OneHotRoundRobin`: `(index held by grant_reg after the edge, outputs)` -/
def rrStep (n g : Nat) (req : Nat → Bool) : Nat × Out :=
  (pick n g req, { grant := 2 ^ pick n g req, valid := anyReq n req })

/-- trajectory of the grant register under a request history (`reqs t` = requests of cycle `t`) -/
def traj (n : Nat) (reqs : Nat → Nat → Bool) (g0 : Nat) : Nat → Nat
  | 0 => g0
  | t+1 => pick n (traj n reqs g0 t) (reqs t)

/-- run over a finite history, collecting outputs -/
def run (n g : Nat) : List (Nat → Bool) → Nat × List Out
  | [] => (g, [])
  | r :: rs =>
    let (g', o) := rrStep n g r
    let (g'', os) := run n g' rs
    (g'', o :: os)

/-! ### RoundRobin (binary, registered outputs) -/

structure BinState where
  grant : Nat
  valid : Bool
deriving Repr, DecidableEq

def binInit : BinState := { grant := 0, valid := false }

/-- one clock cycle of `RoundRobin`: the outputs of the cycle are the register contents before the
    edge (`s` itself); the result is the register contents after the edge -/
def binStep (n : Nat) (s : BinState) (req : Nat → Bool) : BinState :=
  { grant := pick n s.grant req, valid := anyReq n req }

/-- observed outputs of `RoundRobin` over a history: element `t` is what is sampled in cycle `t` -/
def binRun (n : Nat) (s : BinState) : List (Nat → Bool) → List BinState
  | [] => []
  | r :: rs => s :: binRun n (binStep n s r) rs

/-- register trajectory of `RoundRobin` under an infinite request history -/
def binTraj (n : Nat) (reqs : Nat → Nat → Bool) (s0 : BinState) : Nat → BinState
  | 0 => s0
  | t+1 => binStep n (binTraj n reqs s0 t) (reqs t)

end TxV.RoundRobin
