import TxV.Model.Util
/-!
Model of `transactron.lib.storage.ContentAddressableMemory` (storage.py:211-310).

State: `entries_number` slots, each with `valids` bit, `address_array` and `data_array`
registers (storage.py:260-270).  One `step` = one clock cycle.  `read`, `write`, `remove`
are always ready, `push` is ready iff some slot is invalid (storage.py:278); there are no
conflicts, so all four may execute in the same cycle and all of them observe the registers
before the edge.  Each method selects a slot with a `MultiPriorityEncoder(n, 1)`, i.e. the
lowest index whose mask bit is set (spec of that encoder: C38).

Register updates are applied in source order (a later `m.d.sync` assignment to the same bit wins):
push (storage.py:279-285) sets key, data, valid of the first invalid slot; write
(storage.py:287-294) sets data of the first valid slot with that key; remove
(storage.py:303-309) clears the valid bit of the first valid slot with that key.
-/
namespace TxV.CAM

structure Slot where
  valid : Bool
  key : Nat
  data : Nat
deriving Repr, DecidableEq

structure State where
  slots : List Slot
deriving Repr, DecidableEq

/-- attempted calls in a cycle -/
structure In where
  read : Option Nat              -- key
  write : Option (Nat × Nat)     -- key, data
  remove : Option Nat            -- key
  push : Option (Nat × Nat)      -- key, data
deriving Repr, DecidableEq

/-- executed calls and their results (`none` = did not execute) -/
structure Out where
  read : Option (Nat × Bool)     -- data, not_found
  write : Option Bool            -- not_found
  remove : Bool
  push : Bool
deriving Repr, DecidableEq

/-- registers are `reset_less`; the simulator starts them at 0 -/
def init (n : Nat) : State := { slots := List.replicate n ⟨false, 0, 0⟩ }

/-- lowest valid slot holding `k` (`Cat([addr == stored …]) & valids` through the encoder) -/
def matchIdx (s : State) (k : Nat) : Option Nat :=
  s.slots.findIdx? (fun sl => sl.valid && sl.key == k)

/-- lowest invalid slot (`encoder_push.input = ~valids`, storage.py:276) -/
def freeIdx (s : State) : Option Nat :=
  s.slots.findIdx? (fun sl => !sl.valid)

/-- `ready=~valids.all()` (storage.py:278) -/
def pushReady (s : State) : Bool := s.slots.any (fun sl => !sl.valid)

/-- slot index, key, data of the push that executes this cycle -/
def pushAt (s : State) (i : In) : Option (Nat × Nat × Nat) :=
  match i.push, freeIdx s with
  | some (k, d), some j => some (j, k, d)
  | _, _ => none

/-- slot index and data of the write that hits this cycle -/
def writeAt (s : State) (i : In) : Option (Nat × Nat) :=
  match i.write with
  | some (k, d) => (matchIdx s k).map (fun j => (j, d))
  | none => none

/-- slot index cleared by remove this cycle -/
def removeAt (s : State) (i : In) : Option Nat :=
  match i.remove with
  | some k => matchIdx s k
  | none => none

/-- update one slot register (an index outside the array updates nothing; the encoders
    only produce indices of existing slots) -/
def setSlot (l : List Slot) (j : Nat) (f : Slot → Slot) : List Slot :=
  match l[j]? with
  | some sl => l.set j (f sl)
  | none => l

/-- registers after the edge: push, then write, then remove (source order; a later `sync`
    assignment to the same register wins) -/
def nextSlots (l : List Slot) (p : Option (Nat × Nat × Nat)) (w : Option (Nat × Nat))
    (x : Option Nat) : List Slot :=
  let l1 := match p with
    | some (pj, k, d) => setSlot l pj (fun _ => ⟨true, k, d⟩)
    | none => l
  let l2 := match w with
    | some (wj, d) => setSlot l1 wj (fun sl => { sl with data := d })
    | none => l1
  match x with
  | some xj => setSlot l2 xj (fun sl => { sl with valid := false })
  | none => l2

/-- data returned by `read`: `data_array[encoder_read.outputs[0]]`; when no slot matches the
    encoder outputs index 0, so the (meaningless, `not_found = 1`) data is that of slot 0,
    and 0 if there are no slots at all -/
def readData (s : State) (k : Nat) : Nat :=
  match s.slots[(matchIdx s k).getD 0]? with
  | some sl => sl.data
  | none => 0

def step (s : State) (i : In) : State × Out :=
  let p := pushAt s i
  let w := writeAt s i
  let x := removeAt s i
  ({ slots := nextSlots s.slots p w x },
   { read := i.read.map (fun k => (readData s k, (matchIdx s k).isNone)),
     write := i.write.map (fun kd => (matchIdx s kd.1).isNone),
     remove := i.remove.isSome,
     push := p.isSome })

def run (s : State) : List In → State × List Out
  | [] => (s, [])
  | i :: is =>
    let (s', o) := step s i
    let (s'', os) := run s' is
    (s'', o :: os)

end TxV.CAM
