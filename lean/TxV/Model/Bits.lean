import TxV.Model.Util
/-!
Model of the combinational helpers of `transactron/utils/amaranth_ext/functions.py`
(lines 47-446).  Each definition mirrors the *construction* in the source (same
recursion / tree shape); `TxV/Props/C36.lean` equates them with the documented function.

Data conventions: a `w`-bit Amaranth value is either a `Nat` (arithmetic helpers), a
`BitVec w` (two's-complement tricks, where wrap-around is the point), or its bit list,
LSB first (`[s[i] for i in range(len(s))]`, helpers that recurse over slices).
Core Lean only.
-/
namespace TxV.Bits

/-! ### bit lists -/

/-- `[s[i] for i in range(len(s))]` : the bits of a `w`-bit value, LSB first -/
def toBits (w x : Nat) : List Bool := (List.range w).map x.testBit

/-- `Cat(b0, b1, …)` : value of a bit list, LSB first -/
def ofBits : List Bool → Nat
  | [] => 0
  | b :: bs => b.toNat + 2 * ofBits bs

/-- `amaranth.utils.ceil_log2(n)` = `(n-1).bit_length()` (0 for n ≤ 1) -/
def ceilLog2 (n : Nat) : Nat := if n ≤ 1 then 0 else Nat.log2 (n - 1) + 1

/-- `amaranth.utils.bits_for(n)` for `n ≥ 0` -/
def bitsFor (n : Nat) : Nat := if n = 0 then 1 else ceilLog2 (n + 1)

/-! ### binary_tree_reduce (functions.py:200-209) -/

/-- one pass of the `while` loop: pair up neighbours, keep an odd last element -/
def layer {α} (op : α → α → α) : List α → List α
  | a :: b :: rest => op a b :: layer op rest
  | l => l

/-- the `while len(min_layers) > 1` loop; `fuel` ≥ number of passes needed -/
def reduceLoop {α} (op : α → α → α) : Nat → List α → List α
  | 0, l => l
  | n + 1, l => if l.length ≤ 1 then l else reduceLoop op n (layer op l)

/-- `binary_tree_reduce(*values, neutral=…, operator=op)` on the flattened value list -/
def treeReduce {α} (op : α → α → α) (neutral : α) (l : List α) : α :=
  match reduceLoop op l.length (if l.isEmpty then [neutral] else l) with
  | x :: _ => x          -- `min_layers[0]`
  | [] => neutral        -- unreachable (`treeReduce_eq` does not depend on it)

/-- `sum_value` (functions.py:212): `+` widens in Amaranth, so the sum is exact -/
def sumValue (l : List Nat) : Nat := treeReduce (· + ·) 0 l
/-- `or_value` (functions.py:216) -/
def orValue (l : List Nat) : Nat := treeReduce (· ||| ·) 0 l
/-- `and_value` (functions.py:220); the neutral `C(-1)` read at width `w` is all ones -/
def andValue (w : Nat) (l : List Nat) : Nat := treeReduce (· &&& ·) (2 ^ w - 1) l
/-- `binary_min` of `generic_min_value` with `operator.lt` (functions.py:224-232) -/
def binMin (a b : Nat) : Nat := if a < b then a else b
/-- … with `operator.gt` (functions.py:235) -/
def binMax (a b : Nat) : Nat := if a > b then a else b
def minValue (l : List Nat) : Nat := treeReduce binMin 0 l
def maxValue (l : List Nat) : Nat := treeReduce binMax 0 l

/-! ### popcount / count_trailing_zeros / count_leading_zeros (functions.py:71-103) -/

/-- `popcount(s)`: tree sum of the bits, sliced to `bits_for(len(s))` bits -/
def popcount (s : List Bool) : Nat :=
  treeReduce (· + ·) 0 (s.map Bool.toNat) % 2 ^ bitsFor s.length

/-- `iter(s, step)` of `count_trailing_zeros`; the result is a `step`-bit number.
    `Cat(v, 0)` keeps the number, `Cat(v, 1)` adds `2^(step-1)`. -/
def ctzIter (s : List Bool) : Nat → Nat
  | 0 => 0
  | step + 1 =>
    let p := 2 ^ step                                   -- partition
    if s.length < p then ctzIter s step                  -- Cat(iter(s, step-1), 0)
    else if (s.take p).any id                            -- s[:partition].any()
      then ctzIter (s.take p) step                       -- Cat(lower_value, 0)
      else p + ctzIter (s.drop p) step                   -- Cat(upper_value, 1)

def ctz (s : List Bool) : Nat := ctzIter s (ceilLog2 (s.length + 1))

/-- `count_trailing_zeros(s[::-1])` -/
def clz (s : List Bool) : Nat := ctz s.reverse

/-! ### cyclic_mask (functions.py:106-123)

`start`, `end` are unsigned signals holding positions `< bits`.  The returned expression is
wider than `bits` bits; the model is its full value (not truncated), so that
`c36_cyclic_mask` also says that no bit at or above position `bits` is set. -/
def cyclicMask (bits start end_ : Nat) : Nat :=
  let length := end_ - start + 1
  let maskSe := (2 ^ length - 1) <<< start               -- ((1 << length) - 1) << start
  let left := 2 ^ (end_ + 1) - 1                         -- (1 << (end + 1)) - 1
  let right := 2 ^ (bits - start) - 1                    -- (1 << (bits - start)) - 1
  let maskEs := left ||| (right <<< start)
  if start ≤ end_ then maskSe else maskEs

/-! ### lowest-set-bit tricks (functions.py:388-439)

Amaranth evaluates `-value` / `value - 1` one bit wider and signed; the `[: len(value)]`
slice then takes the low `w` bits.  Negation, subtraction and the bitwise operators
commute with that truncation, so the model computes in `BitVec w`. -/
def extractLowest {w} (x : BitVec w) : BitVec w := x &&& -x          -- (value & -value)[:w]
def clearLowest {w} (x : BitVec w) : BitVec w := x &&& (x - 1#w)     -- (value & (value-1))[:w]
def maskFrom {w} (x : BitVec w) : BitVec w := x ||| -x               -- (value | -value)[:w]
def maskAfter {w} (x : BitVec w) : BitVec w := maskFrom x <<< 1      -- (mask_from << 1)[:w]
def maskUntil {w} (x : BitVec w) : BitVec w := ~~~ maskAfter x
def maskBefore {w} (x : BitVec w) : BitVec w := ~~~ maskFrom x

/-! ### switch_value / mux (functions.py:265-299)

`SwitchValue(test, cases)`: the value of the first case whose key matches `test`;
key `None` always matches; `0` if no case matches. Keys are integers or tuples of
integers. -/
abbrev Key := Option (List Nat)

def keyMatches (t : Nat) : Key → Bool
  | none => true
  | some ks => ks.contains t

def switchValue (t : Nat) : List (Key × Nat) → Nat
  | [] => 0
  | (k, v) :: rest => if keyMatches t k then v else switchValue t rest

/-- `mux(sel, val1, val0) = switch_value(sel, [(0, val0), (None, val1)])` -/
def mux (sel val1 val0 : Nat) : Nat := switchValue sel [(some [0], val0), (none, val1)]

/-! ### mod_incr / mod_add (functions.py:47-68; `mod_add` as of commit 656ad56: case `mod+i ↦ i % mod`) -/

def modIncr (sig mod : Nat) : Nat :=
  if mod &&& (mod - 1) = 0 then (sig + 1) &&& (mod - 1)
  else if sig = mod - 1 then 0 else sig + 1               -- Mux(sig == mod-1, 0, sig+1)

def modAdd (sig mod incr maxIncr : Nat) : Nat :=
  if mod &&& (mod - 1) = 0 then (sig + incr) &&& (mod - 1)
  else switchValue (sig + incr)
    ((List.range maxIncr).map (fun i => (some [mod + i], i % mod)) ++ [(none, sig + incr)])

end TxV.Bits
