import TxV.Model.Util
/-!
Model of `transactron.lib.allocators.PreservedOrderAllocator` (allocators.py:94-175).

State: the array `order` (a `List Nat` of length `entries`, reset `[0, 1, …, entries-1]`) and the
counter `used`.  One `step` = one clock cycle; the environment attempts `alloc`, `free(ident)`,
`free_idx(idx)`, `order` and `clear`.

* `alloc` (ready iff `used != entries`, :146) returns `order[used]`.
* `free_idx(idx)` (:150-155): `order[i] := order[i+1]` for `idx ≤ i < entries-1`,
  `order[entries-1] := order[idx]`, i.e. the entry at `idx` is removed and re-inserted at the end.
  An out-of-range `idx` (possible when `entries` is not a power of two) only overwrites the last
  entry with the value of the out-of-range `Array` read (0 in pysim).
* `free(ident)` (:157-163) searches the position of `ident` (last match wins, 0 when there is none)
  and calls `free_idx`.  Hence the adapters of `free` and `free_idx` both call the exclusive method
  `free_idx`: they conflict, and no priority is declared.  `arbitrate`/`stepP` model the scheduler's
  choice; which of the two has priority is read off the elaborated design by the harness.
* `used := used + alloc.run - free_idx.run` (:143-144), truncated to the width of `range(entries+1)`.
* `clear` (:169-173) comes last in `elaborate`: its `sync` assignments win.
-/
namespace TxV.POAllocator

/-- width of `Signal(range(x+1))` -/
def bitsFor (x : Nat) : Nat := if x = 0 then 0 else Nat.log2 x + 1

structure State where
  order : List Nat
  used : Nat
deriving Repr, DecidableEq

structure In where
  alloc : Bool
  free : Option Nat
  freeIdx : Option Nat
  order : Bool
  clear : Bool
deriving Repr, DecidableEq

structure Out where
  alloc : Option Nat              -- returned identifier
  free : Bool
  freeIdx : Bool
  order : Option (Nat × List Nat) -- (`used`, `order`)
  clear : Bool
deriving Repr, DecidableEq

def init (n : Nat) : State := { order := List.range n, used := 0 }

/-- allocators.py:159-162 : position of `ident` in `order`, last match wins, default 0 -/
def lastIdxAux : List Nat → Nat → Nat → Nat → Nat
  | [], _, _, acc => acc
  | x :: xs, ident, pos, acc => lastIdxAux xs ident (pos + 1) (if x = ident then pos else acc)

def lastIdx (order : List Nat) (ident : Nat) : Nat := lastIdxAux order ident 0 0

/-- allocators.py:152-155 : remove the entry at `idx`, append it at the end.  When `idx` is out of
    range (possible only when `entries` is not a power of two) no `i ≥ idx` exists and the `Array`
    read `order[idx]` yields 0 in pysim (Amaranth documents "last element" for synthesis; the
    correspondence is against pysim), so only the last entry is overwritten with 0. -/
def moveToEnd (order : List Nat) (idx : Nat) : List Nat :=
  match order[idx]? with
  | some x => order.eraseIdx idx ++ [x]
  | none => order.set (order.length - 1) 0

/-- `order[k]` as an Amaranth `Array` read in pysim: out of range yields 0 -/
def arrayRead (order : List Nat) (k : Nat) : Nat :=
  match order[k]? with
  | some x => x
  | none => 0

def step (n : Nat) (s : State) (i : In) : State × Out :=
  let w := bitsFor n
  let arun := i.alloc && (s.used != n)                       -- :146
  let frun := i.free.isSome                                   -- `free` always ready; wins over `free_idx`
  let xrun := i.freeIdx.isSome && !frun                       -- adapter of `free_idx`
  -- the index `free_idx` is called with, if it runs at all
  let idx : Option Nat := match i.free with
    | some ident => some (lastIdx s.order ident)
    | none => i.freeIdx
  let incr := (s.used + arun.toNat) % 2 ^ w                   -- :143
  let used' := (incr + 2 ^ w - (idx.isSome).toNat) % 2 ^ w    -- :144
  let order' := match idx with
    | some k => moveToEnd s.order k
    | none => s.order
  let s' : State := if i.clear then init n else { order := order', used := used' }
  (s', { alloc := if arun then some (arrayRead s.order s.used) else none
         free := frun, freeIdx := xrun
         order := if i.order then some (s.used, s.order) else none
         clear := i.clear })

/-- The adapters of `free` and `free_idx` both call the exclusive method `free_idx` (:163), so the
    scheduler grants at most one of them per cycle; both are always ready, so the one with the higher
    (static, elaboration-defined) priority wins.  `freeFirst` = `free` has priority. -/
def arbitrate (freeFirst : Bool) (i : In) : In :=
  if i.free.isSome && i.freeIdx.isSome then
    (if freeFirst then { i with freeIdx := none } else { i with free := none })
  else i

/-- one cycle including the scheduler's choice between `free` and `free_idx` -/
def stepP (n : Nat) (freeFirst : Bool) (s : State) (i : In) : State × Out :=
  step n s (arbitrate freeFirst i)

def run (n : Nat) (s : State) : List In → State × List Out
  | [] => (s, [])
  | i :: is =>
    let (s', o) := step n s i
    let (s'', os) := run n s' is
    (s'', o :: os)

end TxV.POAllocator
