import TxV.Model.Util
/-!
Model of `transactron.lib.allocators.PriorityEncoderAllocator` (allocators.py:13-91) with the
`MultiPriorityEncoder` it instantiates (utils/amaranth_ext/elaboratables.py:250-387).

State: the register `not_used` as a `List Bool` of length `entries` (bit `k` set = identifier `k` is
free).  One `step` = one clock cycle; the environment attempts calls on the `alloc` ways, the `free`
ways, `peek`, `replace(mask)` and `clear`.

`sync` assignments to `not_used` in source order (later wins, Amaranth semantics):
`alloc[i]` clears bit `outputs[i]` (allocators.py:72), `free[j]` sets bit `ident` (:77),
`replace` assigns the whole mask (:85); `clear` calls `replace(init)` (:89).
`bit_select` with an index ≥ `entries` assigns nothing (`List.set` out of range).

`replace` is an exclusive method called both by its own adapter and by `clear`'s body, so the two
transactions conflict; which one the scheduler prefers is not fixed by the source (no priority is
declared).  `arbitrate`/`stepP` model the scheduler's choice; which of the two has priority is read
off the elaborated design by the harness.
-/
namespace TxV.PEAllocator

/-! ### MultiPriorityEncoder (`_build_tree`) -/

/-- indices (offset by `s`) of the set bits, ascending -/
def idxs : List Bool → Nat → List Nat
  | [], _ => []
  | b :: bs, s => if b then s :: idxs bs (s+1) else idxs bs (s+1)

/-- pad/truncate a list of outputs to exactly `k` entries (invalid outputs read 0) -/
def padN (k : Nat) (l : List Nat) : List Nat := (l ++ List.replicate k 0).take k
/-- `k` valid flags of which the first `n` are set -/
def padB (k n : Nat) : List Bool := (List.replicate n true ++ List.replicate k false).take k

/-- elaboratables.py:367-375: `Switch(Cat(r_val))`, case `(1<<i)-1`: first `i` outputs from the right
    (low) half, the remaining `K-i` from the left half -/
def merge (K i : Nat) (r l : List Nat × List Bool) : List Nat × List Bool :=
  (r.1.take i ++ l.1.take (K - i), r.2.take i ++ l.2.take (K - i))

/-- number of leading `true`s when the rest is all `false` — the only patterns the `Switch` has cases for -/
def prefixCount : List Bool → Option Nat
  | [] => some 0
  | true :: v => (prefixCount v).map (· + 1)
  | false :: v => if v.all (!·) then some 0 else none

/-- all outputs 0 / invalid (comb default when no assignment is active) -/
def zeros (K : Nat) : List Nat × List Bool := (List.replicate K 0, List.replicate K false)

/-- transcription of `MultiPriorityEncoder._build_tree` (elaboratables.py:348-376); `fuel ≥ bits.length`;
    result = (`level_outputs`, `level_valids`), each of length `K = outputs_count` -/
def build (K : Nat) : Nat → List Bool → Nat → List Nat × List Bool
  | 0, _, _ => zeros K
  | fuel+1, bits, start =>
    match bits with
    | [] => zeros K
    | [b] => if b then (padN K [start], padB K 1) else zeros K
    | b :: b' :: rest =>
      let bits := b :: b' :: rest
      let mid := bits.length / 2
      let r := build K fuel (bits.take mid) start
      let l := build K fuel (bits.drop mid) (start + mid)
      match prefixCount r.2 with
      | some i => merge K i r l
      | none => zeros K

/-- `encoder.outputs`, `encoder.valids` for the input `mask` -/
def encode (K : Nat) (mask : List Bool) : List Nat × List Bool := build K mask.length mask 0

/-! ### the allocator -/

structure Cfg where
  n : Nat                -- entries
  aw : Nat               -- alloc_ways
  fw : Nat               -- free_ways
  init : List Bool       -- reset value of `not_used` (length `n`)
deriving Repr, DecidableEq

structure State where
  mask : List Bool       -- `not_used`
deriving Repr, DecidableEq

structure In where
  alloc : List Bool              -- per alloc way: attempted?
  free : List (Option Nat)       -- per free way: attempted identifier
  peek : Bool
  replace : Option (List Bool)
  clear : Bool
deriving Repr, DecidableEq

structure Out where
  alloc : List (Option Nat)      -- per alloc way: returned identifier if executed
  free : List Bool               -- per free way: executed?
  peek : Option (List Bool)
  replace : Bool
  clear : Bool
  rdy : List Bool                -- ready bits of the alloc ways (`encoder.valids`, allocators.py:70)
deriving Repr, DecidableEq

def init (c : Cfg) : State := { mask := c.init }

/-- per way: executes iff attempted and `encoder.valids[i]` (allocators.py:70); returns `encoder.outputs[i]` -/
def allocOuts (enc : List Nat × List Bool) (att : List Bool) : List (Option Nat) :=
  List.zipWith (fun a (ov : Nat × Bool) => if a && ov.2 then some ov.1 else none) att (enc.1.zip enc.2)

/-- apply `not_used.bit_select(id, 1).eq(v)` for a list of identifiers -/
def setBits (mask : List Bool) (ids : List Nat) (v : Bool) : List Bool :=
  ids.foldl (fun m id => m.set id v) mask

def step (c : Cfg) (s : State) (i : In) : State × Out :=
  let enc := encode c.aw s.mask
  let aout := allocOuts enc i.alloc
  let fout := i.free.map Option.isSome              -- `free` ways are always ready
  let rrun := i.replace.isSome                      -- `replace` is always ready; wins over `clear`
  let crun := i.clear && !rrun
  let m1 := setBits s.mask (aout.filterMap id) false     -- allocators.py:72
  let m2 := setBits m1 (i.free.filterMap id) true        -- allocators.py:77
  let m3 := match i.replace with                         -- allocators.py:85 / :89
    | some m => m
    | none => if crun then c.init else m2
  ({ mask := m3 },
   { alloc := aout, free := fout, peek := if i.peek then some s.mask else none, replace := rrun, clear := crun,
     rdy := enc.2 })

/-- The adapter of `replace` and the body of `clear` both call the exclusive method `replace` (:89), so
    the scheduler grants at most one of the two per cycle; both are always ready, so the one with the
    higher (static, elaboration-defined) priority wins.  `clearFirst` = `clear` has priority. -/
def arbitrate (clearFirst : Bool) (i : In) : In :=
  if i.replace.isSome && i.clear then
    (if clearFirst then { i with replace := none } else { i with clear := false })
  else i

/-- one cycle including the scheduler's choice between `replace` and `clear` -/
def stepP (c : Cfg) (clearFirst : Bool) (s : State) (i : In) : State × Out :=
  step c s (arbitrate clearFirst i)

def run (c : Cfg) (s : State) : List In → State × List Out
  | [] => (s, [])
  | i :: is =>
    let (s', o) := step c s i
    let (s'', os) := run c s' is
    (s'', o :: os)

/-! ### conversions used by the driver -/

def bitsOf (w v : Nat) : List Bool := (List.range w).map (Nat.testBit v)
def natOf : List Bool → Nat
  | [] => 0
  | b :: bs => b.toNat + 2 * natOf bs

end TxV.PEAllocator
