/-!
# C10 — the signal-dependency graph of the logic the `TransactionManager` generates

A *model of which signals the generated scheduling logic reads*, not a netlist translator.
Input: the scheduling view of one (post-merge) design as the manager holds it when it
wires the circuit (`transactions`, `methods`, call sites, relations, `cgr`, `porder`;
read back from the real objects by `harness/txv/core/loopgen.py`) plus the reads the
*user's* code performs (`ready b` reads `run b'`, derived `enable_call`s, data flow).

Nodes: `ready b`, `runnable t`, `run b`, `en s` (the `enable_sig` of a call site),
`arg s` (its `arg_rec`), `dataIn m`, `dataOut m`.  `dep x y` = "`x` is combinationally
driven by `y`".  Edges, with their anchors:

* schedulers.py:38-43   `run t ← ready t, runnable t, run t'` for every `t'` that conflicts with `t`
                        and precedes it in `porder` (`range(k)`);
* manager.py:539-546    `runnable t ← ready b` for `b ∈ [t] + methods_by_transaction[t]`,
                        `← run d` for `d ∈ ready_dependencies[b]`,
                        `← en s, arg s` for the call chains from `t` to a method with `validate_arguments`;
* manager.py:548-553    `run m ← run t` for `t ∈ transactions_by_method[m]`, `← en s` for the sites of the
                        chains from `t` to `m`;
* manager.py:338-342, 555-563, body.py:120-124
                        `dataIn m ← arg s` for the call sites of `m`; `← run (caller s), en s` when the
                        combiner looks at `runs` (custom combiner, or the default one-hot mux with ≥ 2 inputs);
* user code             `ready b ← run b'` (Forwarder-style readiness), `en s ← run d` (the merged transactions
                        of `_simultaneous`, manager.py:454-455), data flow between `arg`/`dataOut`/`dataIn`.

`Method.run/ready/data_in/data_out` and `Transaction.run/ready/runnable` are plain copies of the
`Body` signals (method.py:253-256, transaction.py:97-99, manager.py:521-526): they are not nodes,
a read of `self.write.run` is a read of `run write`.

Core Lean only; everything here is executed by `Driver/C10.lean`.
-/
namespace TxV.DepGraph

abbrev BodyId := Nat
abbrev SiteId := Nat

inductive Node where
  | ready (b : BodyId)
  | runnable (t : BodyId)
  | run (b : BodyId)
  | en (s : SiteId)
  | arg (s : SiteId)
  | dataIn (m : BodyId)
  | dataOut (m : BodyId)
deriving DecidableEq, Repr, Inhabited

/-- one `(ctrl_path, arg_rec, enable_sig)` entry of some `caller.method_calls[callee]` -/
structure Site where
  id : SiteId
  caller : BodyId
  callee : BodyId
deriving DecidableEq, Repr, Inhabited

inductive Prio where
  | undefined | left | right
deriving DecidableEq, Repr, Inhabited

/-- transaction_base.py:24-38 `Relation` -/
structure Rel where
  src : BodyId
  dst : BodyId
  prio : Prio
  conflict : Bool
  readyDep : Bool
deriving DecidableEq, Repr, Inhabited

structure Meth where
  id : BodyId
  /-- widths of `data_in` / `data_out` (a zero-width signal has no nets, hence no edges) -/
  inW : Nat
  outW : Nat
  validate : Bool
  /-- a `combiner=` was given (it receives `runs`) -/
  customComb : Bool
deriving DecidableEq, Repr, Inhabited

structure Design where
  /-- `tm.transactions` after `_simultaneous` -/
  trans : List BodyId
  /-- `tm.methods` after `_simultaneous` (converted transactions included) -/
  meths : List Meth
  sites : List Site
  /-- relations of all bodies after `_simultaneous` -/
  rels : List Rel
  /-- `cgr` edges -/
  cgr : List (BodyId × BodyId)
  /-- `porder` as a list (position = priority) -/
  order : List BodyId
  /-- static call closure of every body (`methods_by_transaction` for transactions); see `closeReach` -/
  reach : List (BodyId × List BodyId)
  /-- user code: `ready b` reads `run b'` -/
  readyReads : List (BodyId × BodyId)
  /-- user code: `ready b` reads `ready b'` (BasicFifo.peek is ready iff its allocator's `free` is) -/
  readyLocal : List (BodyId × BodyId)
  /-- user / merge code: `enable_sig s` is driven under a condition that reads `run d` -/
  enReads : List (SiteId × BodyId)
  /-- user code: data flow `x ← y` between `arg` / `dataOut` / `dataIn` nodes -/
  dataReads : List (Node × Node)
deriving Repr, Inhabited

namespace Design
variable (D : Design)

def R (b : BodyId) : List BodyId :=
  match D.reach.find? (·.1 == b) with
  | some p => p.2
  | none => []

def isTrans (b : BodyId) : Bool := D.trans.contains b

/-- `ready_for_transaction` (manager.py:166-168) -/
def readyFor (t : BodyId) : List BodyId := t :: D.R t

/-- `transactions_for` (manager.py:143-148) -/
def transFor (b : BodyId) : List BodyId :=
  if D.isTrans b then [b] else D.trans.filter fun t => (D.R t).contains b

/-- `porder[t]` -/
def pos (t : BodyId) : Nat := D.order.idxOf t

def adj (a b : BodyId) : Bool := D.cgr.contains (a, b) || D.cgr.contains (b, a)

/-- `ready_dependencies[b]` (manager.py:318-329) -/
def readyDeps (b : BodyId) : List BodyId :=
  (D.rels.filter fun r => r.readyDep && r.dst == b).map (·.src)

/-- site `s` lies on a call chain from transaction `t` to method `m` (`info_by_call[(t, m)]`) -/
def onChain (t : BodyId) (s : Site) (m : BodyId) : Bool :=
  (D.readyFor t).contains s.caller && (s.callee == m || (D.R s.callee).contains m)

/-! ## the edges -/

/-- schedulers.py:38-43 -/
def edgesRunT : List (Node × Node) :=
  D.trans.flatMap fun t =>
    [(Node.run t, Node.ready t), (Node.run t, Node.runnable t)] ++
    (D.trans.filter fun t' => D.adj t t' && decide (D.pos t' < D.pos t)).map fun t' => (Node.run t, Node.run t')

/-- the call sites whose enables `runnable t` reads: those on a chain from `t` to a method with
`validate_arguments` (manager.py:531-537 `call.enable`) -/
def valEn (t : BodyId) : List Site :=
  D.sites.filter fun s => D.meths.any fun m => m.validate && D.onChain t s m.id

/-- manager.py:539-546 -/
def edgesRunnable : List (Node × Node) :=
  D.trans.flatMap fun t =>
    ((D.readyFor t).flatMap fun b =>
      (Node.runnable t, Node.ready b) :: (D.readyDeps b).map fun d => (Node.runnable t, Node.run d)) ++
    ((D.valEn t).map fun s => (Node.runnable t, Node.en s.id)) ++
    ((D.sites.filter fun s => (D.readyFor t).contains s.caller &&
        D.meths.any fun m => m.validate && m.id == s.callee && decide (0 < m.inW)).map fun s =>
      (Node.runnable t, Node.arg s.id))

/-- manager.py:548-553 -/
def edgesRunM : List (Node × Node) :=
  D.meths.flatMap fun m =>
    (D.transFor m.id).flatMap fun t =>
      (Node.run m.id, Node.run t) ::
        (D.sites.filter fun s => D.onChain t s m.id).map fun s => (Node.run m.id, Node.en s.id)

/-- manager.py:338-342, 555-563 -/
def edgesDataIn : List (Node × Node) :=
  D.meths.flatMap fun m =>
    let ss := D.sites.filter (·.callee == m.id)
    if m.inW == 0 then []
    else ss.flatMap fun s =>
      (Node.dataIn m.id, Node.arg s.id) ::
        (if m.customComb || decide (2 ≤ ss.length)
         then [(Node.dataIn m.id, Node.run s.caller), (Node.dataIn m.id, Node.en s.id)] else [])

/-- reads performed by user code (and by the bodies `_simultaneous` generates) -/
def edgesUser : List (Node × Node) :=
  D.readyReads.map (fun p => (Node.ready p.1, Node.run p.2)) ++
  D.readyLocal.map (fun p => (Node.ready p.1, Node.ready p.2)) ++
  D.enReads.map (fun p => (Node.en p.1, Node.run p.2)) ++
  D.dataReads

def edges : List (Node × Node) :=
  D.edgesRunT ++ D.edgesRunnable ++ D.edgesRunM ++ D.edgesDataIn ++ D.edgesUser

/-- `x` is combinationally driven by `y` -/
def dep (x y : Node) : Prop := (x, y) ∈ D.edges

instance (x y : Node) : Decidable (D.dep x y) := by unfold dep; infer_instance

/-! ## the manager's guarantee and the documented rule, as decidable checks -/

/-- the priority graph `pgr` (manager.py:259-305) as "must precede" pairs: every relation with a
priority, lifted to the calling transactions; conflicts inside one transaction are skipped (:293-300) -/
def before : List (BodyId × BodyId) :=
  D.rels.flatMap fun r =>
    (D.transFor r.src).flatMap fun ts =>
      (D.transFor r.dst).filterMap fun te =>
        if r.conflict && ts == te then none
        else match r.prio with
          | .left => some (ts, te)
          | .right => some (te, ts)
          | .undefined => none

/-- `porder` is a linear order of the transactions in which every `pgr` edge points forward
(what `lexicographical_topological_sort` returns, manager.py:307-314) -/
def validOrder : Bool :=
  D.order.Nodup && D.order.length == D.trans.length && D.trans.all D.order.contains &&
  D.before.all fun p => decide (D.pos p.1 < D.pos p.2)

/-- `a.schedule_before(b)` was declared (directly, or by nesting `b` in `a`: body.py:94-96) -/
def schedBefore (a b : BodyId) : Bool :=
  D.rels.any fun r => r.src == a && r.dst == b && !r.conflict && r.prio == .left

/-- `ready b` is a function of local state only: the user code reads no other manager signal for it -/
def localReady (b : BodyId) : Bool :=
  !(D.readyReads.any fun p => p.1 == b) && !(D.readyLocal.any fun p => p.1 == b)

/-- the documented rule: readiness depends on local state (possibly through the readiness of another body that
is itself purely local) or on the `run` of bodies declared to be scheduled before -/
def ruleReady : Bool :=
  (D.readyReads.all fun p => D.schedBefore p.2 p.1) && (D.readyLocal.all fun p => D.localReady p.2)

/-- `ready_dependent` only occurs on `schedule_before` relations (transaction_base.py:92-100) -/
def rdWf : Bool := D.rels.all fun r => !r.readyDep || (!r.conflict && r.prio == .left)

/-! ### run-derived enables

`en s ← run d` makes everything that runs *through* site `s` (its callee and the callee's call closure)
depend on the callers of `d`, which the priority order knows nothing about.  The side condition `enOk`
asks that every signal through which such a run feeds back into the scheduling of a transaction is
consumed only at positions after **all** callers of `d`. -/

def foldMax (l : List Nat) : Nat := l.foldl max 0
def foldMin (n : Nat) (l : List Nat) : Nat := l.foldl min n

/-- latest position among the transactions that run `b` -/
def hi (b : BodyId) : Nat := foldMax ((D.transFor b).map D.pos)
/-- earliest position among the transactions that run `b` (`order.length` if nobody does) -/
def lo (b : BodyId) : Nat := foldMin D.order.length ((D.transFor b).map D.pos)

/-- the enable of site `sid` is derived from some run signal -/
def derived (sid : SiteId) : Bool := D.enReads.any fun p => p.1 == sid

/-- `run b` reads the enable of site `sid`: `b` is the callee of the site or in the callee's call closure -/
def inDown (sid : SiteId) (b : BodyId) : Bool :=
  D.sites.any fun s => s.id == sid && (s.callee == b || (D.R s.callee).contains b)

/-- `run b` reads some run-derived enable -/
def isDown (b : BodyId) : Bool := D.enReads.any fun p => D.inDown p.1 b

/-- latest caller position of the runs that the enable of `sid` is derived from -/
def he (sid : SiteId) : Nat := foldMax ((D.enReads.filter fun p => p.1 == sid).map fun p => D.hi p.2)

/-- latest caller position of the runs that `run b` reads through run-derived enables -/
def heDown (b : BodyId) : Nat := foldMax ((D.enReads.filter fun p => D.inDown p.1 b).map fun p => D.hi p.2)

/-- side condition for run-derived enables (trivially true when `enReads = []`):
1. derived enables are not stacked (the source of a derived enable does not itself run through one);
2. a readiness that reads `run b'`, with `b'` running through a derived enable, belongs to a body all of whose
   callers come after every caller of the enable's sources;
3. the same for ready dependencies `d → b`;
4. a derived enable read by a `validate_arguments` term of transaction `t` has all its sources' callers before `t`.
The designs of findings F-c10-1 (4 fails) and F-c10-2 (3 resp. 2 fails) are exactly the ones it excludes. -/
def enOk : Bool :=
  D.enReads.all (fun p => !D.isDown p.2) &&
  D.readyReads.all (fun p => !D.isDown p.2 || decide (D.heDown p.2 < D.lo p.1)) &&
  D.rels.all (fun r => !r.readyDep || !D.isDown r.src || decide (D.heDown r.src < D.lo r.dst)) &&
  D.trans.all (fun t => (D.valEn t).all fun s => !D.derived s.id || decide (D.he s.id < D.pos t))

/-- sanity of the extracted description: methods are not transactions, callees are methods -/
def wf : Bool :=
  D.meths.all (fun m => !D.isTrans m.id) &&
  D.trans.all (fun t => (D.R t).all fun b => !D.isTrans b)

end Design

def Node.isData : Node → Bool
  | .arg _ | .dataIn _ | .dataOut _ => true
  | _ => false

def Node.isDataIn : Node → Bool
  | .dataIn _ => true
  | _ => false

/-- certificate for the user's data flow: a rank that decreases along it, and the set of *closed*
data nodes (those whose value does not depend on who runs: no `data_in` whose argument multiplexer
looks at the callers' runs is reachable from them) -/
structure DataCert where
  dr : Node → Nat
  cl : Node → Bool

/-- data rule: data is computed from data only, the data flow (argument multiplexers included) has no loop of
its own, closed nodes read closed nodes only, a `data_in` whose multiplexer reads runs/enables is not closed,
and the arguments inspected by `validate_arguments` are closed.  Excluded: the two shapes of finding F-c10-3. -/
def Design.dataOk (D : Design) (c : DataCert) : Bool :=
  D.dataReads.all (fun p => p.1.isData && p.2.isData && !p.1.isDataIn &&
    decide (c.dr p.2 < c.dr p.1) && (!c.cl p.1 || c.cl p.2)) &&
  D.edgesDataIn.all (fun p =>
    if p.2.isData then decide (c.dr p.2 < c.dr p.1) && (!c.cl p.1 || c.cl p.2) else !c.cl p.1) &&
  D.edgesRunnable.all (fun p => !p.2.isData || c.cl p.2)

/-! ## executable cycle detection by a rank certificate -/

/-- a rank that strictly decreases along every edge -/
def certOk (es : List (Node × Node)) (lv : Node → Nat) : Bool :=
  es.all fun p => decide (lv p.2 < lv p.1)

def Node.code : Node → Nat
  | .ready b => 7 * b
  | .runnable b => 7 * b + 1
  | .run b => 7 * b + 2
  | .en s => 7 * s + 3
  | .arg s => 7 * s + 4
  | .dataIn b => 7 * b + 5
  | .dataOut b => 7 * b + 6

/-- one relaxation round: `lv x := max (lv x) (lv y + 1)` for every edge `x ← y`; also says whether anything changed -/
def relax (es : List (Node × Node)) (lv : Array Nat) : Array Nat × Bool :=
  es.foldl (init := (lv, false)) fun (a, ch) p =>
    let vx := a.getD p.1.code 0
    let vy := a.getD p.2.code 0
    if vy + 1 > vx then (a.setIfInBounds p.1.code (vy + 1), true) else (a, ch)

def relaxLoop (es : List (Node × Node)) : Nat → Array Nat → Array Nat
  | 0, lv => lv
  | fuel + 1, lv =>
    let (lv', ch) := relax es lv
    if ch then relaxLoop es fuel lv' else lv'

/-- longest-path levels, indexed by `Node.code` (untrusted: only `certOk` of the result matters) -/
def levelArr (es : List (Node × Node)) : Array Nat :=
  let size := es.foldl (fun n p => max n (max p.1.code p.2.code + 1)) 0
  relaxLoop es (size + 1) (Array.replicate size 0)

def levelOf (lv : Array Nat) (x : Node) : Nat := lv.getD x.code 0

/-- `true` iff the level certificate fails, i.e. (for the levels computed above) iff there is a cycle -/
def hasCycle (es : List (Node × Node)) : Bool :=
  let lv := levelArr es
  !certOk es (levelOf lv)

/-! ## helpers of the driver: call closure and the data certificate -/

def closeStep (sites : List Site) (r : List (BodyId × List BodyId)) : List (BodyId × List BodyId) :=
  r.map fun (b, l) =>
    let direct := (sites.filter (·.caller == b)).map (·.callee)
    let viaR := l.flatMap fun c => match r.find? (·.1 == c) with | some p => p.2 | none => []
    (b, (l ++ direct ++ viaR).eraseDups)

def closeLoop (sites : List Site) : Nat → List (BodyId × List BodyId) → List (BodyId × List BodyId)
  | 0, r => r
  | fuel + 1, r => closeLoop sites fuel (closeStep sites r)

/-- static call closure of bodies `0 … n-1` -/
def closeReach (n : Nat) (sites : List Site) : List (BodyId × List BodyId) :=
  closeLoop sites (n + 1) ((List.range n).map fun b => (b, []))

/-- data edges of the whole design: user data flow and `dataIn m ← arg s` -/
def Design.dataEdges (D : Design) : List (Node × Node) :=
  D.dataReads ++ D.edgesDataIn.filter (·.2.isData)

def openLoop (es : List (Node × Node)) : Nat → List Node → List Node
  | 0, o => o
  | fuel + 1, o =>
    let more := (es.filter fun p => o.contains p.2 && !o.contains p.1).map (·.1)
    if more.isEmpty then o else openLoop es fuel (o ++ more.eraseDups)

/-- the canonical data certificate: levels of the data edges; closed = no `dataIn` with a run-reading
argument multiplexer reachable -/
def Design.dataCert (D : Design) : DataCert :=
  let es := D.dataEdges
  let opn := openLoop es (es.length + 1) ((D.edgesDataIn.filter fun p => !p.2.isData).map (·.1)).eraseDups
  let lv := levelArr es
  { dr := levelOf lv, cl := fun x => x.isData && !opn.contains x }

end TxV.DepGraph
