import TxV.Model.QueueUtil
/-!
Model of `transactron.lib.stack.Stack` (stack.py:12-152).

One `step` = one clock cycle.  `read`, `peek`, `write`, `clear` have no conflicts; `peek` and
`clear` are nonexclusive; readiness depends on the register `level` only (stack.py:114-115),
so each method executes iff attempted and ready.  `next_level` (stack.py:117-124) is a
combinational function of `level` and the run bits; memory read and write ports are both
addressed by `next_level - 1`, truncated to the address width (stack.py:126, 131); the read
port is synchronous and transparent for the write port (stack.py:109).
-/
namespace TxV.Stack
open TxV.QueueUtil

structure State where
  level : Nat        -- stack.py:105
  mem : List Nat     -- stack.py:103 `self.data`, row 0 = bottom
  rd : Nat           -- read-port data register = `head`
deriving Repr, DecidableEq

structure In where
  w : Option Nat
  r : Bool
  p : Bool
  c : Bool
deriving Repr, DecidableEq

structure Out where
  wr : Option Nat    -- write executed (value pushed)
  rd : Option Nat    -- read executed, returned value
  pk : Option Nat    -- peek executed, returned value
  clr : Bool
  rrdy : Bool        -- read_ready (read.ready = peek.ready)
  wrdy : Bool        -- write_ready
deriving Repr, DecidableEq

def init (d : Nat) : State := ⟨0, List.replicate d 0, 0⟩

/-- address width of a memory of depth `d`: `Shape.cast(range(d)).width` -/
def addrBits (d : Nat) : Nat := bitsFor (d - 1)

/-- `next_level - 1` assigned to the `addrBits d`-bit port address (two's complement wrap) -/
def addrOf (d next : Nat) : Nat := (next + 2 ^ addrBits d - 1) % 2 ^ addrBits d

def step (d : Nat) (s : State) (i : In) : State × Out :=
  let rrdy := s.level != 0                               -- stack.py:114
  let wrdy := s.level != d                               -- stack.py:115
  let rrun := i.r && rrdy
  let prun := i.p && rrdy
  let wr : Option Nat := if wrdy then i.w else none
  -- stack.py:117-124 ; the last matching `If` wins
  let next :=
    if i.c then 0
    else if wr.isSome && !rrun then (s.level + 1) % 2 ^ bitsFor d
    else if rrun && !wr.isSome then s.level - 1          -- rrun implies level ≠ 0
    else s.level
  let addr := addrOf d next                              -- stack.py:126, 131
  let mem' := match wr with                              -- out-of-range writes are dropped
    | some v => s.mem.set addr v
    | none => s.mem
  -- transparent synchronous read at the same address as the write port
  let rd' := match wr with
    | some v => v
    | none => s.mem.getD addr 0                          -- out-of-range reads give 0 (pysim)
  (⟨next, mem', rd'⟩, ⟨wr, if rrun then some s.rd else none, if prun then some s.rd else none, i.c, rrdy, wrdy⟩)

def run (d : Nat) (s : State) (is : List In) : State × List Out := runWith (step d) s is

/-! ### the abstract bounded stack (top of the stack first) -/

def specStep (d : Nat) (st : List Nat) (i : In) : List Nat × Out :=
  let rrdy := st.length != 0
  let wrdy := st.length != d
  let rrun := i.r && rrdy
  let prun := i.p && rrdy
  let wr : Option Nat := if wrdy then i.w else none
  let s1 := if rrun then st.tail else st                 -- read pops first
  let s2 := wr.toList ++ s1                              -- then write pushes
  (if i.c then [] else s2,
   ⟨wr, if rrun then st.head? else none, if prun then st.head? else none, i.c, rrdy, wrdy⟩)

def specRun (d : Nat) (st : List Nat) (is : List In) : List Nat × List Out := runWith (specStep d) st is

end TxV.Stack
