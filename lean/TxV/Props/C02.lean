import TxV.Core.Example2
import TxV.Core.ExampleReject
/-!
# C02 — explicitly conflicting transactions and methods never run together

"If add_conflict relates two transactions or methods, they are never both running in the same
cycle, whatever the inputs, the priority argument, or which transactions call them."

`ConflictRel D a b` : body `a` carries a relation with `conflict = True` ending in `b` (any
priority), both ends in the design (`_relations` prunes the others, manager.py:183).  The theorem
is unconditional for accepted designs: `Accepted.cgrExplicit` is what manager.py:291–305
establishes — a relation is lifted to every pair of distinct calling transactions unless they are
exclusive by definition, and a transaction reaching both ends is only tolerated when the ends sit
on mutually exclusive call paths (otherwise `_conflict_graph` raises).
-/
namespace TxV.Core

variable {D : Design} {v : Val} {S : Sched} {run : Nat → Bool}

-- OBLIGATION c02_conflict_never_both : whole statement, any scheduler, under hypothesis Accepted D S (PROVED from the executable model: Bridge.elaborate_static derives it from elaborate = ok and the executable order check; also evaluated per extracted design by Bridge.staticOk) and under driver-checked hypothesis Cycle D v S run (evaluated per valuation by cycleEagerB / cycleRRB: ExclSem, ExclReady, method-run equations, scheduler facts): for every accepted design, every valuation, every run assignment satisfying the cycle facts, the two ends of an add_conflict relation (transactions or methods, any priority, any callers, also the same caller) are never both running
theorem c02_conflict_never_both (hA : Accepted D S) (hC : Cycle D v S run) {a b : Nat}
    (hrel : ConflictRel D a b) : ¬ (run a = true ∧ run b = true) :=
  conflict_never_both hA hC hrel

-- OBLIGATION c02_conflict_never_both_eager : the statement under eager_deterministic_cc_scheduler, under hypothesis Accepted (proved from the executable elaborate: Bridge.elaborate_static) and driver-checked per-cycle hypotheses ExclSem, ExclReady, MethodRunEq, Eager (run solves schedulers.py:38-43 and the method-run equations)
theorem c02_conflict_never_both_eager (hA : Accepted D S) (hs : ExclSem D v) (hr : ExclReady D v)
    (hm : MethodRunEq D v run) (he : Eager D v S run) {a b : Nat} (hrel : ConflictRel D a b) :
    ¬ (run a = true ∧ run b = true) :=
  conflict_never_both hA (Cycle.ofEager hA hs hr hm he) hrel

-- OBLIGATION c02_conflict_never_both_rr : the statement under trivial_roundrobin_cc_scheduler, under hypothesis Accepted (proved from the executable elaborate: Bridge.elaborate_static) and driver-checked per-cycle hypotheses CompOk, ExclSem, ExclReady, MethodRunEq, RoundRobin (at most one grant per component, grants only requesters)
theorem c02_conflict_never_both_rr {comp : Nat → Nat} (hA : Accepted D S) (hc : CompOk D S comp)
    (hs : ExclSem D v) (hr : ExclReady D v) (hm : MethodRunEq D v run)
    (he : RoundRobin D v comp run) {a b : Nat} (hrel : ConflictRel D a b) :
    ¬ (run a = true ∧ run b = true) :=
  conflict_never_both hA (Cycle.ofRoundRobin hc hs hr hm he) hrel

-- OBLIGATION c02_exclReady_of_tree : the hypothesis ExclReady (used for the exclusive-definition exemption, manager.py:196) follows from exclusive_sound when every body definition is placed at a site of the program with its recorded path and ready ⇒ site active
theorem c02_exclReady_of_tree (cv : CVal) (mods : List (Int × Blk)) (hnd : (mods.map (·.1)).Nodup)
    (hp : BodiesPlaced D v cv mods) : ExclReady D v :=
  exclReady_of_tree cv mods hnd hp

/-- non-vacuity: the example design is accepted and contains `T1.add_conflict(T2, LEFT)`; in the
example cycle (eager) `T2` runs and `T1` does not; in the round-robin cycle `T1` runs, `T2` not -/
example : acceptedB Ex.D Ex.S = true ∧ cycleEagerB Ex.D Ex.v Ex.S Ex.run = true ∧
    cycleRRB Ex.D Ex.v Ex.S Ex.comp Ex.runRR = true ∧ BodiesPlaced Ex.D Ex.v Ex.cv [(0, Ex.tree)] ∧
    Ex.run 2 = true ∧ Ex.run 1 = false ∧ Ex.runRR 1 = true ∧ Ex.runRR 2 = false :=
  ⟨Ex.accepted, Ex.cycleEager, Ex.cycleRR, Ex.bodiesPlaced, rfl, rfl, rfl, rfl⟩
example : ConflictRel Ex.D 1 2 := ⟨by decide, by decide, ⟨2, .left, true, false⟩, by decide, rfl, rfl⟩

/-- non-vacuity (same caller): `T` calling `M1` and `M2` with `M1.add_conflict(M2)` is rejected when
the calls are unconditional and accepted when they sit in the two alternatives of an `If/Else` -/
example : accept Rej.sameTransConflict (fun t => t) = false ∧ accept Rej.sameTransExclusive (fun t => t) = true :=
  ⟨Rej.sameTransConflict_rejected, Rej.sameTransExclusive_accepted⟩

end TxV.Core

#print axioms TxV.Core.c02_conflict_never_both
#print axioms TxV.Core.c02_conflict_never_both_eager
#print axioms TxV.Core.c02_conflict_never_both_rr
#print axioms TxV.Core.c02_exclReady_of_tree
