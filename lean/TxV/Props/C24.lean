import TxV.Proofs.CAM
/-!
# C24 — ContentAddressableMemory behaves as a dictionary

"For every call history that never pushes a key already present, read returns the data
stored under the key (or not_found), write updates an existing key and reports not_found
otherwise, remove deletes the key, and push inserts the pair and is ready iff a slot is
free."

The specification is `specStep`/`specRun` in `TxV/Proofs/CAM.lean`: an association list
`Dict` with capacity `n`; in one cycle all four methods may be called, all observe the
dictionary of the beginning of the cycle, and the effects are remove, then write (remove
wins on the same key), then push.  `lookup s k` is the dictionary view of the registers.
All theorems are for every entry count `n` and every combination of simultaneous calls.
The hypothesis "never pushes a key already present" is the decidable predicate
`neverPushesPresent n [] hist` on the history (an attempted push that does not execute
because the memory is full is harmless and allowed).
-/
namespace TxV.CAM

-- OBLIGATION c24_refines : for every entry count n and every history that never pushes a present key, in every cycle the results of read (found/not_found and the data when found), write (not_found), remove and push (executed or blocked) are those of the dictionary with capacity n
theorem c24_refines (n : Nat) (hist : List In) (h : neverPushesPresent n [] hist = true) :
    AllMatch (run (init n) hist).2 (specRun n [] hist).2 := by
  obtain ⟨hi, hr, hn⟩ := init_Rel n
  exact (run_refines n (init n) [] hist hi hr hn h).1

-- OBLIGATION c24_keys_distinct : invariant - in every state reachable by such a history the valid keys are pairwise distinct, and the registers represent exactly the dictionary (same lookups, same number of entries)
theorem c24_keys_distinct (n : Nat) (hist : List In) (h : neverPushesPresent n [] hist = true) :
    Inv (run (init n) hist).1 ∧ Rel (run (init n) hist).1 (specRun n [] hist).1 := by
  obtain ⟨hi, hr, hn⟩ := init_Rel n
  exact (run_refines n (init n) [] hist hi hr hn h).2

-- OBLIGATION c24_read : read always executes and returns the data stored under the key, or not_found exactly when the key is absent (any state with distinct valid keys)
theorem c24_read (s : State) (i : In) (k : Nat) (hr : i.read = some k) :
    ∃ d nf, (step s i).2.read = some (d, nf) ∧ (nf = true ↔ lookup s k = none) ∧
      ∀ v, lookup s k = some v → d = v := by
  refine ⟨readData s k, (matchIdx s k).isNone, by simp [step, hr], ?_, fun v hv => readData_of_lookup hv⟩
  rw [matchIdx_isNone]
  cases lookup s k <;> simp

-- OBLIGATION c24_write_remove_push : one cycle in dictionary terms - write reports not_found iff the key is absent and otherwise replaces its data, remove deletes the key (also when the same key is written in that cycle), push inserts its pair; keys not addressed keep their entry; every method observes the pre-state
theorem c24_write_remove_push (s : State) (i : In) (hi : Inv s) (hp : PushOk s i) (k' : Nat) :
    lookup (step s i).1 k' = nextLookup s i k' ∧
    (step s i).2.write = i.write.map (fun kd => (lookup s kd.1).isNone) ∧
    (step s i).2.remove = i.remove.isSome ∧ Inv (step s i).1 := by
  obtain ⟨h1, h2, _⟩ := step_spec s i hi hp
  refine ⟨h2 k', ?_, by simp [step], h1⟩
  simp only [step]
  cases i.write with
  | none => rfl
  | some kd => simp [matchIdx_isNone]

-- OBLIGATION c24_remove_wins : remove wins over write on the same key - after a cycle that removes k the key is absent unless it was (legally) pushed in that cycle
theorem c24_remove_wins (s : State) (i : In) (hi : Inv s) (hp : PushOk s i) (k d : Nat)
    (hx : i.remove = some k) (hw : i.write = some (k, d)) (hpu : i.push = none) :
    lookup (step s i).1 k = none := by
  rw [(step_spec s i hi hp).2.1 k]
  simp only [nextLookup, hx, hw, hpu]
  cases h : lookup s k <;> simp

-- OBLIGATION c24_push_ready : push is ready (an attempted push executes) iff a slot is free, i.e. fewer than n entries are valid
theorem c24_push_ready (s : State) (i : In) :
    (pushReady s = true ↔ count s < s.slots.length) ∧
    ((step s i).2.push = true ↔ (i.push.isSome = true ∧ count s < s.slots.length)) := by
  refine ⟨pushReady_iff s, ?_⟩
  have : (step s i).2.push = (pushAt s i).isSome := by simp [step]
  rw [this, pushAt_isSome, Bool.and_eq_true, pushReady_iff]

/-- non-vacuity: capacity 2; fill, a blocked push, simultaneous remove+write of one key together
    with a read, then a push into the freed slot; the hypothesis holds and the outputs are as a
    dictionary's -/
example :
    let hist : List In :=
      [⟨some 5, none, none, some (5, 10)⟩,
       ⟨some 5, none, none, some (6, 11)⟩,
       ⟨some 6, some (5, 12), none, some (7, 13)⟩,
       ⟨some 5, some (5, 14), some 5, none⟩,
       ⟨some 5, some (5, 15), some 9, some (5, 16)⟩,
       ⟨some 5, none, none, none⟩]
    neverPushesPresent 2 [] hist = true ∧
    (run (init 2) hist).2.map (·.read) =
      [some (0, true), some (10, false), some (11, false), some (12, false), some (14, true), some (16, false)] ∧
    (run (init 2) hist).2.map (·.push) = [true, true, false, false, true, false] ∧
    (run (init 2) hist).2.map (·.write) = [none, none, some false, some false, some true, none] := by
  decide

end TxV.CAM

#print axioms TxV.CAM.c24_refines
#print axioms TxV.CAM.c24_keys_distinct
#print axioms TxV.CAM.c24_read
#print axioms TxV.CAM.c24_write_remove_push
#print axioms TxV.CAM.c24_remove_wins
#print axioms TxV.CAM.c24_push_ready
