import TxV.Proofs.HwLogging
/-!
# C34 — hardware logs and assertions fire exactly when triggered

"A hardware log record is reported in exactly the cycles where its trigger holds within its module
context, with its message formatted from the sampled fields as Python's format would; an
ERROR-level record (including a failed assertion) ends the simulation with a failure."

All theorems are for every list of records (levels, format specifications, `top_*`/assertion
variants), every minimum level / namespace selection and every trigger/field history.
`render : Render` is Python's `format(value, spec)` for one value: it is a parameter of every
theorem (trusted, not modelled); the theorems are about selection, order, field–chunk pairing,
`s`-string decoding, concatenation and the stop at an error.
-/
namespace TxV.HwLogging

-- OBLIGATION c34_fires_iff : "its trigger holds within its module context": all enclosing conditions hold (ignored for top_* records) and the trigger expression is non-zero (for an assertion: the asserted value is zero)
theorem c34_fires_iff (r : Rec) (x : RecIn) :
    fires r x = true ↔
      (r.top = true ∨ ∀ b ∈ x.conds, b = true) ∧ (if r.neg = true then x.trig = 0 else x.trig ≠ 0) := by
  unfold fires
  cases r.neg <;> simp

-- OBLIGATION c34_selected_iff : the records the process looks at in a cycle are exactly the registered records with level ≥ the minimum level and matching namespace, paired with their inputs of this cycle, in registration order
theorem c34_selected_iff (minLevel : Nat) (recs : List Rec) (ins : List RecIn) :
    (∀ t, t ∈ cycleRecs minLevel recs ins ↔
      recs[t.1]? = some t.2.1 ∧ ins[t.1]? = some t.2.2 ∧ minLevel ≤ t.2.1.level ∧ t.2.1.nameOk = true) ∧
    (cycleRecs minLevel recs ins).Pairwise (fun a b => a.1 < b.1) := by
  constructor
  · intro t
    unfold cycleRecs
    rw [List.mem_filter, mem_indexFrom]
    simp only [selected, Bool.and_eq_true, decide_eq_true_eq]
    constructor
    · rintro ⟨⟨j, h1, h2, h3⟩, h4, h5⟩
      have : t.1 = j := by omega
      rw [this]; exact ⟨h2, h3, h4, h5⟩
    · rintro ⟨h2, h3, h4, h5⟩
      exact ⟨⟨t.1, by omega, h2, h3⟩, h4, h5⟩
  · exact (indexFrom_sorted 0 recs ins).sublist List.filter_sublist

-- OBLIGATION c34_fire_iff : in one cycle a message is reported iff it is the message of a selected record whose trigger holds in context and no earlier selected record fired at ERROR level in this cycle (that one ended the simulation); messages come out in registration order
theorem c34_fire_iff (render : Render) (minLevel : Nat) (recs : List Rec) (ins : List RecIn) (m : Msg) :
    (m ∈ (logCycle render minLevel recs ins).1 ↔
      ∃ pre t post, cycleRecs minLevel recs ins = pre ++ t :: post ∧ fires t.2.1 t.2.2 = true ∧
        (∀ u ∈ pre, ¬ (fires u.2.1 u.2.2 = true ∧ errorLevel ≤ u.2.1.level)) ∧
        m = ⟨t.1, t.2.1.level, t.2.1.logger, formatMsg render t.2.1.spec t.2.2.vals⟩) ∧
    (((logCycle render minLevel recs ins).1.map (·.idx)).Sublist ((cycleRecs minLevel recs ins).map (·.1))) := by
  rw [logCycle_eq]
  exact ⟨mem_handleLogs render _ m, handleLogs_order render _⟩

-- OBLIGATION c34_no_error_all : when no selected record fires at ERROR level in a cycle, every selected record whose trigger holds is reported (exactly the firing ones)
theorem c34_no_error_all (render : Render) (minLevel : Nat) (recs : List Rec) (ins : List RecIn)
    (h : (logCycle render minLevel recs ins).2 = false) :
    (logCycle render minLevel recs ins).1 =
      ((cycleRecs minLevel recs ins).filter fun t => fires t.2.1 t.2.2).map (mkMsg render) := by
  rw [logCycle_eq] at h ⊢
  generalize cycleRecs minLevel recs ins = sel at h ⊢
  induction sel with
  | nil => simp [handleLogs]
  | cons t0 rest ih =>
    unfold handleLogs at h ⊢
    by_cases hf : fires t0.2.1 t0.2.2 = true
    · rw [if_pos hf] at h ⊢
      by_cases he : errorLevel ≤ t0.2.1.level
      · rw [if_pos he] at h; simp at h
      · rw [if_neg he] at h ⊢
        simp only [List.filter_cons, hf, if_true, List.map_cons]
        rw [ih h]
    · rw [if_neg hf] at h ⊢
      simp only [List.filter_cons, hf]
      exact ih h

-- OBLIGATION c34_format_chunks : the message is the concatenation, in order, of the literal chunks and of the format chunks, where the i-th format chunk renders the i-th field with its own specifier (an `s` specifier: the packed bytes decoded, specifier without the `s`)
theorem c34_format_chunks (render : Render) (spec : List Chunk) (vals : List Int) (msg : String)
    (h : formatMsg render spec vals = some msg) :
    ∃ out : List String, msg = String.join out ∧ out.length = spec.length ∧
      ∀ k (hk : k < spec.length),
        match spec[k] with
        | .lit s => out[k]? = some s
        | .fmt sp => ∃ v, vals[fmtBefore spec k]? = some v ∧
            out[k]? = (if endsWithS sp then
                        (if 0 ≤ v then some (render (dropLast sp) (.str (sBytes v.toNat))) else none)
                      else some (render sp (.int v))) := by
  unfold formatMsg at h
  simp only [Option.map_eq_some_iff] at h
  obtain ⟨out, ho, rfl⟩ := h
  obtain ⟨hl, hall⟩ := formatChunks_spec render spec vals out ho
  refine ⟨out, rfl, hl, ?_⟩
  intro k hk
  have := hall k hk
  cases hc : spec[k] with
  | lit s =>
    simp only [hc] at this
    exact this
  | fmt sp =>
    simp only [hc] at this
    obtain ⟨v, hv, hf⟩ := this
    exact ⟨v, hv, by rw [← hf]; rfl⟩

-- OBLIGATION c34_format_defined : formatting succeeds whenever there are at least as many fields as format chunks and no field is negative (registration makes them equal; `s` fields are unsigned)
theorem c34_format_defined (render : Render) (spec : List Chunk) (vals : List Int)
    (hn : (spec.filter isFmt).length ≤ vals.length) (hp : ∀ v ∈ vals, 0 ≤ v) :
    (formatMsg render spec vals).isSome = true := by
  unfold formatMsg
  rw [Option.isSome_map]
  exact formatChunks_total render spec vals hn hp

-- OBLIGATION c34_s_decode : for an `s` chunk the bytes handed to format are the non-zero bytes of the field in little-endian order: decoding the packing of any byte list returns its non-zero bytes
theorem c34_s_decode (bs : List Nat) (hb : ∀ b ∈ bs, b < 256) :
    sBytes (packLE bs) = bs.filter (· ≠ 0) :=
  decodeS_packLE bs hb _ (Nat.le_refl _)

-- OBLIGATION c34_error_cycle : `on_error` is called in a cycle iff some selected record of level ≥ ERROR (a failed assertion is one) has its trigger holding in context
theorem c34_error_cycle (render : Render) (minLevel : Nat) (recs : List Rec) (ins : List RecIn) :
    (logCycle render minLevel recs ins).2 = true ↔
      ∃ t ∈ cycleRecs minLevel recs ins, fires t.2.1 t.2.2 = true ∧ errorLevel ≤ t.2.1.level := by
  rw [logCycle_eq]
  exact handleLogs_err render _

-- OBLIGATION c34_error_stops : the simulation ends with a failure in the first cycle with such a record and nothing is reported afterwards; without one it runs to the end and reports every cycle
theorem c34_error_stops (render : Render) (minLevel : Nat) (recs : List Rec) (trace : List (List RecIn)) :
    ((run render minLevel recs 0 trace).2 = none ↔ ∀ ins ∈ trace, (logCycle render minLevel recs ins).2 = false) ∧
    ((run render minLevel recs 0 trace).2 = none → (run render minLevel recs 0 trace).1.length = trace.length) ∧
    (∀ k : Nat, (run render minLevel recs 0 trace).2 = some k →
      (run render minLevel recs 0 trace).1.length = k + 1 ∧
      ∃ ins, trace[k]? = some ins ∧ (logCycle render minLevel recs ins).2 = true ∧
        ∀ (j : Nat) ins', j < k → trace[j]? = some ins' → (logCycle render minLevel recs ins').2 = false) ∧
    (∀ (j : Nat) ms, (run render minLevel recs 0 trace).1[j]? = some ms →
      ∃ ins, trace[j]? = some ins ∧ ms = (logCycle render minLevel recs ins).1) := by
  refine ⟨run_none _ _ _ _ _, run_length_none _ _ _ _ _, ?_, run_msgs _ _ _ _ _⟩
  intro k hk
  obtain ⟨j, ins, h1, h2, h3, h4, h5⟩ := run_some _ _ _ _ _ k hk
  have : k = j := by omega
  subst this
  exact ⟨h2, ins, h3, h4, h5⟩

/-! ### non-vacuity -/

/-- a stand-in for Python's format, only to evaluate the examples -/
def demoRender : Render := fun spec v =>
  match v with
  | .int n => s!"<{spec}|{n}>"
  | .str bs => s!"<{spec}|{String.ofList (bs.map Char.ofNat)}>"

example : sBytes (packLE [104, 0, 105]) = [104, 105] := by decide

example : formatMsg demoRender [.lit "x=", .fmt "+05d", .lit " s=", .fmt ">4s", .fmt ""] [3, 26984, 7]
    = some "x=<+05d|3> s=<>4|hi><|7>" := by decide

/-- an INFO record inside an `If`, an ERROR record, an assertion, a DEBUG record below the minimum level,
    a record after the error -/
example :
    let recs : List Rec := [⟨20, true, false, false, "a", [.lit "i"]⟩, ⟨40, true, false, false, "a", [.lit "e"]⟩,
      ⟨40, true, true, true, "a", []⟩, ⟨10, true, false, false, "a", []⟩, ⟨20, true, false, false, "a", [.lit "z"]⟩]
    let quiet : List RecIn := [⟨[true, false], 1, []⟩, ⟨[], 0, []⟩, ⟨[false], 1, []⟩, ⟨[], 1, []⟩, ⟨[], 1, []⟩]
    let fail : List RecIn := [⟨[true, true], 1, []⟩, ⟨[], 0, []⟩, ⟨[false], 0, []⟩, ⟨[], 1, []⟩, ⟨[], 1, []⟩]
    let res := run demoRender 15 recs 0 [quiet, fail, quiet]
    res.2 = some 1 ∧ res.1.map (·.map (·.idx)) = [[4], [0, 2]] := by
  decide

end TxV.HwLogging

#print axioms TxV.HwLogging.c34_fires_iff
#print axioms TxV.HwLogging.c34_selected_iff
#print axioms TxV.HwLogging.c34_fire_iff
#print axioms TxV.HwLogging.c34_no_error_all
#print axioms TxV.HwLogging.c34_format_chunks
#print axioms TxV.HwLogging.c34_format_defined
#print axioms TxV.HwLogging.c34_s_decode
#print axioms TxV.HwLogging.c34_error_cycle
#print axioms TxV.HwLogging.c34_error_stops
