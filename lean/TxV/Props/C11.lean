import TxV.Core.Families
import TxV.Core.AcceptComplete
import TxV.Core.Example
import TxV.Core.ExampleReject
/-!
# C11 — ill-formed designs are rejected, well-formed ones accepted

"Elaboration raises an error when a transaction tree calls an exclusive method twice on paths that
are not mutually exclusive, when a method calls itself, when conflict priorities are cyclic, when a
single_caller method is called from two transactions, or when a transaction is ready-dependent on
a transaction it conflicts with. Designs free of these defects elaborate successfully, in
particular when an exclusive method is called several times in different alternatives of one
control structure, or a nonexclusive method whose call tree contains no exclusive method is called
several times."

`accept D ord` (Core/Accept.lean) is the conjunction of the checks of `MethodMap.__init__`
(manager.py:79–99, :129), `_conflict_graph` (:293–300 same-transaction conflicts; :309 topological
sort — here: the supplied order `ord` must be valid for the priority graph and injective),
`elaborate` (:503–514 ready-dependency check against the conflict graph `cgrOf D`; :560–562
single_caller), over the fuel-bounded enumeration of call chains.  That the implementation raises
exactly when `accept` is false for every order is what the correspondence `corr:core` compares
(reject kinds); the theorems below are about `accept`.
-/
namespace TxV.Core

variable {D : Design}

-- OBLIGATION c11_sound : soundness of accept, every design and order: accept ⇒ no double call of an exclusive method on non-exclusive paths from any root ∧ no method calls itself ∧ priority constraints acyclic ∧ every called single_caller method has ≤ 1 call site ∧ no transaction ready-dependent on a cgr-neighbour ∧ no transaction reaches both ends of an add_conflict on non-exclusive paths
theorem c11_sound {ord : Nat → Nat} (h : accept D ord = true) :
    NoDoubleCall D ∧ NoSelfCall D ∧ (∀ x, ¬ PgrPath D x x) ∧ SingleCallerOk D ∧
      NoReadyDepConflict D (cgrOf D) ∧ SameTransOk D :=
  have f := accept_facts h
  ⟨f.noDoubleCall, f.noSelfCall, validOrder_acyclic f.validOrder, f.singleCallerOk, f.noReadyDepConflict,
    f.sameTransOk⟩

-- OBLIGATION c11_accept_gives_hypotheses : an accepted design satisfies every static hypothesis of C01–C08 (Accepted, CgrSources, ValidOrder) with the conflict graph cgrOf D computed from the design
theorem c11_accept_gives_hypotheses {ord : Nat → Nat} (h : accept D ord = true) :
    Accepted D ⟨ord, cgrOf D⟩ ∧ CgrSources D ⟨ord, cgrOf D⟩ ∧ ValidOrder D ⟨ord, cgrOf D⟩ :=
  accept_sound h

-- OBLIGATION c11_reject_double_call : defect 1 ⇒ reject: two distinct call chains from one root (transaction or method) to one exclusive method whose call paths are not exclusive make accept false for every order
theorem c11_reject_double_call {r m : Nat} {ch1 ch2 : List Call} (i1 : IsChain D r ch1) (i2 : IsChain D r ch2)
    (hne : ch1 ≠ ch2) (g1 : target ch1 = some m) (g2 : target ch2 = some m) (hm : D.nonexcl m = false)
    (hc : cpe ch1 ch2 = false) (ord : Nat → Nat) : accept D ord = false := by
  cases h : accept D ord with
  | false => rfl
  | true =>
    have := (accept_facts h).noDoubleCall r ch1 ch2 m i1 i2 hne g1 g2 hm
    rw [hc] at this; cases this

-- OBLIGATION c11_reject_self_call : defect 2 ⇒ reject: a call chain from a method back to itself makes accept false for every order
theorem c11_reject_self_call {m : Nat} {ch : List Call} (i : IsChain D m ch) (g : target ch = some m)
    (ord : Nat → Nat) : accept D ord = false := by
  cases h : accept D ord with
  | false => rfl
  | true => exact absurd g ((accept_facts h).noSelfCall m ch i)

-- OBLIGATION c11_reject_priority_cycle : defect 3 ⇒ reject: a cycle of priority constraints (lifted LEFT/RIGHT relations, conflicting or schedule_before) makes accept false for every order — no porder exists
theorem c11_reject_priority_cycle {x : Nat} (p : PgrPath D x x) (ord : Nat → Nat) : accept D ord = false := by
  cases h : accept D ord with
  | false => rfl
  | true => exact absurd p (validOrder_acyclic (accept_facts h).validOrder x)

-- OBLIGATION c11_reject_single_caller : defect 4 ⇒ reject: a single_caller method that some transaction reaches and that has two different call sites (in particular one in each of two transactions) makes accept false
theorem c11_reject_single_caller {m t : Nat} (lm : m < D.n) (hs : (D.body m).singleCaller = true)
    (ht : D.isTrans t = true) (hr : Reaches D t m) {p q : Nat × Call} (hp : p ∈ D.sitesOf m)
    (hq : q ∈ D.sitesOf m) (hpq : p ≠ q) (ord : Nat → Nat) : accept D ord = false := by
  cases h : accept D ord with
  | false => rfl
  | true =>
    have hle := (accept_facts h).singleCallerOk m lm hs ⟨t, ht, hr⟩
    match hl : D.sitesOf m, hle with
    | [], _ => rw [hl] at hp; simp at hp
    | [a], _ =>
      rw [hl] at hp hq; simp at hp hq
      exact absurd (hp.trans hq.symm) hpq
    | _ :: _ :: _, hle => simp at hle

-- OBLIGATION c11_reject_readydep_conflict : defect 5 ⇒ reject: a transaction that is ready-dependent on a body it has a conflict edge with makes accept false
theorem c11_reject_readydep_conflict {t d : Nat} (ht : D.isTrans t = true) (hd : ReadyDep D d t)
    (he : cgrOf D t d = true) (ord : Nat → Nat) : accept D ord = false := by
  cases h : accept D ord with
  | false => rfl
  | true =>
    have := (accept_facts h).noReadyDepConflict t ht d hd
    rw [he] at this; cases this

-- OBLIGATION accept_exclusive_alternatives : positive family, every k and both numberings (off = 0: If/Elif/Else; off = 1: Switch/Case, FSM/State): a transaction calling one exclusive method once in each of k alternatives of one control structure is accepted
theorem accept_exclusive_alternatives (off k : Nat) : accept (famAlt off k) (fun t => t) = true :=
  famAlt_accept off k

-- OBLIGATION accept_exclusive_alternatives_paths : the call paths of that family are the positional control paths of the tree "body containing one structure of kind kd with k alternatives, call i in alternative i", every k and kind
theorem accept_exclusive_alternatives_paths (cv : CVal) (av : Bool) (kd : Kind) (k : Nat) :
    (sitesBlk cv av [] true 0 (.struct (.avoid 0) (.cons (.struct kd (altsFrom 0 k) .nil) .nil) .nil)).map
        (fun e => (e.id, (⟨0, e.path⟩ : CtrlPath))) =
      (List.range k).map fun i => ((altCall (altOffset kd) i).site, (altCall (altOffset kd) i).path) :=
  famAlt_paths cv av kd k

-- OBLIGATION accept_nonexclusive_multi : positive family, every k: a transaction calling a nonexclusive method (no exclusive method in its call tree) k times on one and the same control path is accepted
theorem accept_nonexclusive_multi (k : Nat) : accept (famNonexcl k) (fun t => t) = true :=
  famNonexcl_accept k

-- OBLIGATION accept_nonexclusive_no_double_call : generalisation of the second family: if every called method of a design is nonexclusive, no double-call condition can fail, whatever the number and placement of calls
theorem accept_nonexclusive_no_double_call (h : ∀ c ∈ D.allCalls, D.nonexcl c.callee = true) : NoDoubleCall D :=
  noDoubleCall_of_nonexclusive h

-- OBLIGATION c11_complete : converse ("designs free of these defects elaborate successfully"), every design: well-formed extraction, bounded call chains (no method calls itself), no double call, no same-transaction conflict on non-exclusive paths, acyclic priority constraints, single_caller respected, no ready-dependency on a conflict neighbour ⇒ some priority order exists for which accept is true; together with c11_sound an equivalence
theorem c11_complete :
    (∃ ord, accept D ord = true) ↔
      (D.WF ∧ Bounded D ∧ NoDoubleCall D ∧ SameTransOk D ∧ (∀ x, ¬ PgrPath D x x) ∧ SingleCallerOk D ∧
        NoReadyDepConflict D (cgrOf D)) :=
  accept_exists_iff

-- OBLIGATION c11_accept_iff : for a given order, accept is true exactly when the declarative acceptance facts hold (every checker is sound and complete)
theorem c11_accept_iff {ord : Nat → Nat} : accept D ord = true ↔ AcceptFacts D ord := accept_iff

-- OBLIGATION c11_complete_norels : special case used by the positive families: a design without relations and single_caller flags is accepted as soon as its call structure is sound
theorem c11_complete_norels (ord : Nat → Nat) (hwf : D.WF) (hb : Bounded D) (hs : NoSelfCall D)
    (hd : NoDoubleCall D) (hr : ∀ b, (D.body b).rels = []) (hsc : ∀ b, (D.body b).singleCaller = false)
    (hinj : OrdInj D ⟨ord, cgrOf D⟩) : accept D ord = true :=
  accept_of_norels ord hwf hb hs hd hr hsc hinj

/-- non-vacuity: the example design (3 transactions, shared exclusive methods, a prioritised
conflict, an `If/Else` with the same callee in both alternatives) is accepted and its computed
conflict graph is the expected one; five one-defect variants are rejected -/
example : accept Ex.D Ex.S.ord = true ∧
    ((List.range 5).all fun a => (List.range 5).all fun b => cgrOf Ex.D a b == Ex.S.cgr a b) = true :=
  ⟨Ex.accept', Ex.cgrEq⟩

/-- double call: `T` calls exclusive `M` twice on the same path -/
example : accept Rej.doubleCall (fun t => t) = false := Rej.doubleCall_rejected
/-- self call: `M1 → M2 → M1` -/
example : accept Rej.selfCall (fun t => t) = false := Rej.selfCall_rejected
/-- cyclic priorities: `T0.add_conflict(T1, LEFT)`, `T1.add_conflict(T0, LEFT)`: both orders rejected -/
example : accept Rej.prioCycle (fun t => t) = false ∧ accept Rej.prioCycle (fun t => 1 - t) = false :=
  Rej.prioCycle_rejected
/-- single_caller method called from two transactions -/
example : accept Rej.singleCaller (fun t => t) = false := Rej.singleCaller_rejected
/-- ready-dependent on a conflicting transaction: `T0.schedule_before(T1, ready_dependent)` and `T0.add_conflict(T1)` -/
example : accept Rej.readyDepConflict (fun t => t) = false := Rej.readyDepConflict_rejected
/-- one transaction reaching both ends of an `add_conflict` on non-exclusive paths -/
example : accept Rej.sameTransConflict (fun t => t) = false := Rej.sameTransConflict_rejected

end TxV.Core

#print axioms TxV.Core.c11_sound
#print axioms TxV.Core.c11_accept_gives_hypotheses
#print axioms TxV.Core.c11_reject_double_call
#print axioms TxV.Core.c11_reject_self_call
#print axioms TxV.Core.c11_reject_priority_cycle
#print axioms TxV.Core.c11_reject_single_caller
#print axioms TxV.Core.c11_reject_readydep_conflict
#print axioms TxV.Core.accept_exclusive_alternatives
#print axioms TxV.Core.accept_exclusive_alternatives_paths
#print axioms TxV.Core.accept_nonexclusive_multi
#print axioms TxV.Core.accept_nonexclusive_no_double_call
#print axioms TxV.Core.c11_complete
#print axioms TxV.Core.c11_accept_iff
#print axioms TxV.Core.c11_complete_norels
