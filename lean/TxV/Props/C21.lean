import TxV.Proofs.MemoryBank
/-!
# C21 — MemoryBank returns what an ideal memory holds

"For every configuration and every call history in which no two write ports address the same
row in one cycle, each read_resp returns the contents an ideal memory held for the requested
address at request time (or at response time with read_on_resp), counting same-cycle writes
exactly when the bank is transparent; responses come in request order per port and read_req
is ready iff fewer than two responses are pending."

Specification (`TxV/Proofs/MemoryBank.lean`): the ideal memory of `BankMem` plus, per read
port, a queue of pending responses (oldest first).  An executed `read_req a` appends
`reqEntry` = the value the ideal memory holds for `a` in that cycle (`seen`: the row after
the cycle's writes iff transparent) or, with `read_on_resp`, the address `a` itself; an
executed `read_resp` removes the oldest entry `e` and returns `respValue` = `e`, or with
`read_on_resp` the value the ideal memory holds for address `e` in the response cycle.
`read_req` is ready iff the queue has fewer than two entries, `read_resp` iff it is non-empty.

FULL STATEMENT (not provable, and false for the code: candidate defect F5):
  theorem c21_refines (c) (rp) (hist) (hw : WfHist c hist) :
      (run c (init c rp) hist).2 = (specRun c (specInit c rp) hist).2
What is proved carries the extra hypothesis `TrackOk c ∨ c.readOnResp = false`, where
`TrackOk c := c.gran = false ∨ c.n = 1` ("granularity is None, or one chunk per word - the
enable is a single bit -, or not read_on_resp"): exactly the complement of the open finding
F5 (read_on_resp with a granularity of >= 2 chunks).  In the excluded region the response-time
tracking (storage.py:126-146) selects on bit 0 of the write enable only and forwards the
whole write word, i.e. ignores the write mask; witness below (`f5_witness_*`), reproduced on
the real component by the harness.  `WfHist` = per cycle distinct write rows (the property's
hypothesis) and requested addresses `< depth` (an ideal memory of `depth` rows has no other).
All theorems are for every depth, every number of read ports (`rp`) and write ports (length of
`In.writes`), all four `transparent × read_on_resp` modes and every history.
-/
namespace TxV.MemoryBank
open TxV.BankMem

-- OBLIGATION c21_refines_partial : for every configuration outside the open finding F5 and every history with distinct write rows per cycle, everything the bank outputs in every cycle (read_req/write done bits, read_resp data, ready bits of every read port) equals the output of the specification "ideal memory + per-port queue of pending responses"; ADDED HYPOTHESIS (exact complement of F5): granularity = None ∨ one chunk per word (mask width 1) ∨ ¬read_on_resp
theorem c21_refines_partial (c : Cfg) (rp : Nat) (hist : List In)
    (hF5 : TrackOk c ∨ c.readOnResp = false) (hw : WfHist c hist) :
    (run c (init c rp) hist).2 = (specRun c (specInit c rp) hist).2 := by
  obtain ⟨hi, ha⟩ := init_inv c rp
  have := (run_refines c (init c rp) hist hF5 hw hi).1
  rw [ha] at this
  exact this.symm

-- OBLIGATION c21_resp_value : in the specification an executed read_resp returns, for the oldest pending request, the contents the ideal memory held for its address at request time (stored when the request executed) or - with read_on_resp - holds at response time, where the row after the same cycle's writes is taken exactly when the bank is transparent; an executed read_req appends its entry at the tail
theorem c21_resp_value (c : Cfg) (mem : Mem) (ws : List (Option Wr)) (q : List Nat) (a : Option Nat) (b : Bool) :
    let mem' := memNext c mem ws
    let held := fun x => if c.transparent then rd mem' x else rd mem x
    (specPort c mem mem' q a b).2.resp =
      (match q with
        | e :: _ => if b then some (if c.readOnResp then held e else e) else none
        | [] => none) ∧
    (specPort c mem mem' q a b).1 =
      (if b then q.drop 1 else q) ++
      (match a with
        | some x => if q.length < 2 then [if c.readOnResp then x else held x] else []
        | none => []) := by
  unfold specPort respValue reqEntry seen
  cases q with
  | nil => cases b <;> cases a <;> simp
  | cons e rest =>
    cases b <;> rcases a with _ | x <;> simp
    all_goals (by_cases h : rest.length + 1 < 2 <;> simp [h])

-- OBLIGATION c21_order : responses come in request order per port - over every history, at every port, the entries answered so far followed by the entries still pending are exactly the entries of the executed requests in request order (nothing lost, duplicated or reordered)
theorem c21_order (c : Cfg) (rp k : Nat) (hk : k < rp) (hist : List In) :
    ∃ pending, (specRun c (specInit c rp) hist).1.qs[k]? = some pending ∧
      (portTrace c k (specInit c rp) hist).1 ++ pending = (portTrace c k (specInit c rp) hist).2 := by
  have := spec_order c k (specInit c rp) hist [] (by simp [specInit, hk])
  simpa using this

-- OBLIGATION c21_req_ready : in every reachable state (same hypotheses) read_req of a port is ready iff fewer than two responses are pending there, it executes iff attempted and ready, and read_resp is ready iff a response is pending
theorem c21_req_ready (c : Cfg) (rp : Nat) (hist : List In) (i : In)
    (hF5 : TrackOk c ∨ c.readOnResp = false) (hw : WfHist c hist) (hwi : WfIn c i) (k : Nat) (p : Port)
    (hp : (run c (init c rp) hist).1.ports[k]? = some p) :
    ∃ o, (step c (run c (init c rp) hist).1 i).2.ports[k]? = some o ∧
      (o.reqRdy = true ↔ (absPort c p).length < 2) ∧
      (o.respRdy = true ↔ (absPort c p).length ≠ 0) ∧
      (o.req = true ↔ ((reqAt i k).isSome = true ∧ (absPort c p).length < 2)) ∧
      (o.resp.isSome = true ↔ (respAt i k = true ∧ (absPort c p).length ≠ 0)) := by
  obtain ⟨hi, _⟩ := init_inv c rp
  have hinv := (run_refines c (init c rp) hist hF5 hw hi).2.2
  generalize (run c (init c rp) hist).1 = s at hp hinv
  have hpr := (port_refines c s.mem i.writes p (reqAt i k) (respAt i k) hF5 hinv.2.1 hwi.1
    (fun x hx => by rw [hinv.1]; exact reqAt_lt c i hwi k x hx) (hinv.2.2 p (List.mem_of_getElem? hp))).1
  refine ⟨(portStep c s.mem i.writes p (reqAt i k) (respAt i k)).2, by simp [step, List.getElem?_mapIdx, hp], ?_⟩
  have h2 := congrArg Prod.snd hpr
  simp only at h2
  rw [← h2]
  unfold specPort
  cases hq : absPort c p with
  | nil => cases respAt i k <;> cases reqAt i k <;> simp
  | cons e rest => cases respAt i k <;> cases reqAt i k <;> simp

-- OBLIGATION c21_pending_le_two : at most two responses are ever pending per port, and the model state represents the specification state (invariant over all reachable states)
theorem c21_pending_le_two (c : Cfg) (rp : Nat) (hist : List In)
    (hF5 : TrackOk c ∨ c.readOnResp = false) (hw : WfHist c hist) :
    (specRun c (specInit c rp) hist).1 = abs c (run c (init c rp) hist).1 ∧
    ∀ p ∈ (run c (init c rp) hist).1.ports, (absPort c p).length ≤ 2 := by
  obtain ⟨hi, ha⟩ := init_inv c rp
  have := (run_refines c (init c rp) hist hF5 hw hi).2.1
  rw [ha] at this
  refine ⟨this, fun p _ => ?_⟩
  unfold absPort
  cases p.ov <;> cases p.rov <;> simp

/-- non-vacuity: transparent, read_on_resp, no granularity, 2 read ports, 1 write port; both
    response slots of port 0 are filled, a write hits a pending row while it waits, then the
    responses are drained; the hypotheses hold and the values are the response-time ones -/
example :
    let c : Cfg := ⟨4, false, 8, 1, true, true⟩
    let hist : List In :=
      [⟨[none, none], [false, false], [some ⟨1, 0xAB, 1⟩]⟩,
       ⟨[some 1, some 1], [false, true], [none]⟩,
       ⟨[some 2, none], [false, true], [none]⟩,
       ⟨[some 3, none], [false, false], [some ⟨1, 0xCD, 1⟩]⟩,
       ⟨[none, none], [true, false], [some ⟨1, 0x12, 1⟩]⟩,
       ⟨[none, none], [true, false], [some ⟨2, 0x34, 1⟩]⟩]
    WfHist c hist ∧ (TrackOk c ∨ c.readOnResp = false) ∧
    (run c (init c 2) hist).2.map (fun o => o.ports.map (·.resp)) =
      [[none, none], [none, none], [none, some 0xAB], [none, none], [some 0x12, none], [some 0x34, none]] ∧
    (run c (init c 2) hist).2.map (fun o => o.ports.map (·.reqRdy)) =
      [[true, true], [true, true], [true, true], [false, true], [false, true], [true, true]] := by
  decide

/-- non-vacuity of the single-chunk case: read_on_resp with granularity 8 on an 8-bit word (one
    enable bit); a write with enable 0 and one with enable 1 hit the row pending in the overflow
    buffer; the response returns the response-time contents -/
example :
    let c : Cfg := ⟨4, true, 8, 1, false, true⟩
    let hist : List In :=
      [⟨[none], [false], [some ⟨1, 0xAB, 1⟩]⟩, ⟨[some 1], [false], [none]⟩, ⟨[some 2], [false], [none]⟩,
       ⟨[none], [false], [some ⟨1, 0xCD, 0⟩]⟩, ⟨[none], [false], [some ⟨1, 0xEF, 1⟩]⟩, ⟨[none], [true], [none]⟩]
    WfHist c hist ∧ (TrackOk c ∨ c.readOnResp = false) ∧
    ((run c (init c 1) hist).2.map (fun o => o.ports.map (·.resp))).getLast? = some [some 0xEF] := by
  decide

/-- F5 witness (model level; the same history is run against the real component by the
    harness): `read_on_resp` with granularity, 2 chunks of 4 bits.  Row 1 holds 0xAB, the
    request for it waits in the overflow buffer, a write of the high chunk only (mask 0b10)
    makes the row 0xCB, but the response still returns 0xAB: model and specification differ,
    so the hypothesis `TrackOk c ∨ readOnResp = false` of `c21_refines_partial` cannot be
    dropped. -/
example :
    let c : Cfg := ⟨4, true, 4, 2, false, true⟩
    let hist : List In :=
      [⟨[none], [false], [some ⟨1, 0xAB, 3⟩]⟩, ⟨[some 1], [false], [none]⟩, ⟨[some 2], [false], [none]⟩,
       ⟨[none], [false], [some ⟨1, 0xCD, 2⟩]⟩, ⟨[none], [true], [none]⟩]
    WfHist c hist ∧
    ((run c (init c 1) hist).2.map (fun o => o.ports.map (·.resp))).getLast? = some [some 0xAB] ∧
    ((specRun c (specInit c 1) hist).2.map (fun o => o.ports.map (·.resp))).getLast? = some [some 0xCB] := by
  decide

end TxV.MemoryBank

#print axioms TxV.MemoryBank.c21_refines_partial
#print axioms TxV.MemoryBank.c21_resp_value
#print axioms TxV.MemoryBank.c21_order
#print axioms TxV.MemoryBank.c21_req_ready
#print axioms TxV.MemoryBank.c21_pending_le_two
