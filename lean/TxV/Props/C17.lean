import TxV.Proofs.Forwarder
import TxV.Proofs.Pipe
/-!
# C17 — Forwarder and Pipe are lossless one-slot buffers

"For every sequence of calls, Forwarder and Pipe deliver every written value exactly once and
in order; Forwarder.write is ready iff its buffer is empty and its read is ready iff the buffer
is full or write runs in the same cycle (then returning the written value); Pipe.read is ready
iff its buffer is full and Pipe.write iff the buffer is empty or read runs in the same cycle;
clear empties the buffer and wins over a simultaneous write; peek never consumes."

`abs s` is the buffer content (`[]` or `[reg]`), `hist` the values delivered by reads / stored by
writes since the last clear (`Proofs/QueueUtil.lean`).  Every theorem is for every history of
simultaneous call attempts from reset (or for every state) and every data value.
-/

namespace TxV.Forwarder
open TxV.QueueUtil

def after (is : List In) : State := (run init is).1
def events (is : List In) : List Ev := (run init is).2.map ev
/-- buffer content after a history from reset -/
def buffer (is : List In) : List Nat := abs (after is)

-- OBLIGATION c17_fwd_order : Forwarder, every history: (values delivered by reads) ++ (buffer) = (values written), since the last clear — every written value is delivered exactly once and in order
theorem c17_fwd_order (is : List In) :
    (hist (events is)).1 ++ buffer is = (hist (events is)).2 :=
  hist_run is init ([], []) rfl

-- OBLIGATION c17_fwd_read_value : Forwarder, every cycle (also with clear): an executed read or peek returns the oldest value written (this cycle's write included: forwarding) and not yet delivered
theorem c17_fwd_read_value (is : List In) (i : In) (v : Nat)
    (h : (step (after is) i).2.rd = some v ∨ (step (after is) i).2.pk = some v) :
    ((hist (events is)).2 ++ (step (after is) i).2.wr.toList)[(hist (events is)).1.length]? = some v := by
  have ho := c17_fwd_order is
  rw [← ho]
  unfold buffer
  generalize after is = s at *
  obtain ⟨reg, valid⟩ := s
  obtain ⟨w, r, p, c⟩ := i
  cases valid <;> cases w <;> cases r <;> cases p <;> simp_all [step, abs]

-- OBLIGATION c17_fwd_ready : Forwarder: write is ready (executes when attempted) iff the buffer is empty; read and peek are ready iff the buffer is full or write runs in the same cycle, then returning the written value (the buffered one when full); clear always runs
theorem c17_fwd_ready (s : State) (i : In) :
    let o := (step s i).2
    (o.wrdy = true ↔ abs s = []) ∧
    (o.wr = if abs s = [] then i.w else none) ∧
    (o.rrdy = true ↔ (abs s ≠ [] ∨ o.wr.isSome = true)) ∧
    (o.rd.isSome = true ↔ (i.r = true ∧ o.rrdy = true)) ∧
    (o.pk.isSome = true ↔ (i.p = true ∧ o.rrdy = true)) ∧
    (o.clr = i.c) ∧
    (∀ v, abs s = [] → o.wr = some v → (i.r = true → o.rd = some v) ∧ (i.p = true → o.pk = some v)) ∧
    (∀ x, abs s = [x] → (i.r = true → o.rd = some x) ∧ (i.p = true → o.pk = some x)) := by
  obtain ⟨reg, valid⟩ := s
  obtain ⟨w, r, p, c⟩ := i
  cases valid <;> cases w <;> cases r <;> cases p <;> simp [step, abs]

-- OBLIGATION c17_fwd_clear : Forwarder: after a cycle in which clear runs the buffer is empty, also when write executes in that cycle (clear wins)
theorem c17_fwd_clear (s : State) (i : In) (hc : i.c = true) :
    abs (step s i).1 = [] ∧ ∀ j : In, (step (step s i).1 j).2.wrdy = true := by
  obtain ⟨w, r, p, c⟩ := i
  simp at hc
  subst hc
  simp [step, abs]

-- OBLIGATION c17_fwd_peek : Forwarder: peek never consumes: attempting peek changes neither the next state nor the outcome of write/read/clear, and peek returns what read returns
theorem c17_fwd_peek (s : State) (i : In) :
    (step s i).1 = (step s { i with p := false }).1 ∧
    (step s i).2.rd = (step s { i with p := false }).2.rd ∧
    (step s i).2.wr = (step s { i with p := false }).2.wr ∧
    (step s i).2.clr = (step s { i with p := false }).2.clr ∧
    (i.p = true → (step s i).2.pk = (step s { i with r := true }).2.rd) := by
  obtain ⟨w, r, p, c⟩ := i
  cases p <;> simp [step]


-- OBLIGATION c17_fwd_callers : when several transactions call read (resp. write) in one cycle, at most one of the callers executes, it is one that attempted, and it gets exactly the single-port outcome of the step — so the theorems above hold for the union of all callers (every value delivered to exactly one reader)
theorem c17_fwd_callers (s : State) (ow or : List Nat) (i : MIn) (k1 k2 v1 v2 : Nat) :
    let e := eff ow or i
    let o := (step s ⟨e.w, e.r, e.p, e.c⟩).2
    ((onlyTo i.ws.length e.gr o.rd)[k1]? = some (some v1) → (onlyTo i.ws.length e.gr o.rd)[k2]? = some (some v2) →
        k1 = k2 ∧ o.rd = some v1 ∧ i.rs.getD k1 false = true) ∧
    ((onlyTo i.ws.length e.gw o.wr)[k1]? = some (some v1) → (onlyTo i.ws.length e.gw o.wr)[k2]? = some (some v2) →
        k1 = k2 ∧ o.wr = some v1 ∧ (i.ws.map Option.isSome).getD k1 false = true) :=
  ⟨fun h1 h2 => callers_exclusive h1 h2, fun h1 h2 => callers_exclusive h1 h2⟩

/-- non-vacuity: forwarding, buffering, a clear that wins over an executed write, forwarding in a clear cycle -/
example :
    let is : List In := [⟨some 1, true, true, false⟩, ⟨some 2, false, false, false⟩, ⟨some 3, true, false, false⟩,
                         ⟨some 4, false, false, true⟩, ⟨some 5, true, false, true⟩, ⟨some 6, false, true, false⟩]
    (run init is).2.map (fun o => (o.wr, o.rd, o.pk)) =
      [(some 1, some 1, some 1), (some 2, none, none), (none, some 2, none), (some 4, none, none),
       (some 5, some 5, none), (some 6, none, some 6)] ∧
    hist (events is) = ([], [6]) ∧ buffer is = [6] := by decide

end TxV.Forwarder

namespace TxV.Pipe
open TxV.QueueUtil

def after (is : List In) : State := (run init is).1
def events (is : List In) : List Ev := (run init is).2.map ev
def buffer (is : List In) : List Nat := abs (after is)

-- OBLIGATION c17_pipe_order : Pipe, every history: (values delivered by reads) ++ (buffer) = (values written), since the last clear — every written value is delivered exactly once and in order
theorem c17_pipe_order (is : List In) :
    (hist (events is)).1 ++ buffer is = (hist (events is)).2 :=
  hist_run is init ([], []) rfl

-- OBLIGATION c17_pipe_read_value : Pipe, every cycle (also with clear): an executed read or peek returns the oldest written value not yet delivered
theorem c17_pipe_read_value (is : List In) (i : In) (v : Nat)
    (h : (step (after is) i).2.rd = some v ∨ (step (after is) i).2.pk = some v) :
    (hist (events is)).2[(hist (events is)).1.length]? = some v := by
  have ho := c17_pipe_order is
  rw [← ho]
  unfold buffer
  generalize after is = s at *
  obtain ⟨reg, valid⟩ := s
  obtain ⟨w, r, p, c⟩ := i
  cases valid <;> cases r <;> cases p <;> simp_all [step, abs]

-- OBLIGATION c17_pipe_ready : Pipe: read and peek are ready (execute when attempted) iff the buffer is full, returning its content; write is ready iff the buffer is empty or read runs in the same cycle; clear always runs
theorem c17_pipe_ready (s : State) (i : In) :
    let o := (step s i).2
    (o.rrdy = true ↔ abs s ≠ []) ∧
    (o.rd.isSome = true ↔ (i.r = true ∧ abs s ≠ [])) ∧
    (o.pk.isSome = true ↔ (i.p = true ∧ abs s ≠ [])) ∧
    (o.wrdy = true ↔ (abs s = [] ∨ o.rd.isSome = true)) ∧
    (o.wr = if o.wrdy = true then i.w else none) ∧
    (o.clr = i.c) ∧
    (∀ x, abs s = [x] → (i.r = true → o.rd = some x) ∧ (i.p = true → o.pk = some x)) := by
  obtain ⟨reg, valid⟩ := s
  obtain ⟨w, r, p, c⟩ := i
  cases valid <;> cases w <;> cases r <;> cases p <;> simp [step, abs]

-- OBLIGATION c17_pipe_clear : Pipe: after a cycle in which clear runs the buffer is empty, also when write executes in that cycle (clear wins)
theorem c17_pipe_clear (s : State) (i : In) (hc : i.c = true) :
    abs (step s i).1 = [] ∧ ∀ j : In, (step (step s i).1 j).2.wrdy = true ∧ (step (step s i).1 j).2.rrdy = false := by
  obtain ⟨w, r, p, c⟩ := i
  simp at hc
  subst hc
  simp [step, abs]

-- OBLIGATION c17_pipe_peek : Pipe: peek never consumes: attempting peek changes neither the next state nor the outcome of write/read/clear, and peek returns what read returns
theorem c17_pipe_peek (s : State) (i : In) :
    (step s i).1 = (step s { i with p := false }).1 ∧
    (step s i).2.rd = (step s { i with p := false }).2.rd ∧
    (step s i).2.wr = (step s { i with p := false }).2.wr ∧
    (step s i).2.clr = (step s { i with p := false }).2.clr ∧
    (i.p = true → (step s i).2.pk = (step s { i with r := true }).2.rd) := by
  obtain ⟨w, r, p, c⟩ := i
  cases p <;> simp [step]


-- OBLIGATION c17_pipe_callers : when several transactions call read (resp. write) in one cycle, at most one of the callers executes, it is one that attempted, and it gets exactly the single-port outcome of the step — so the theorems above hold for the union of all callers (every value delivered to exactly one reader)
theorem c17_pipe_callers (s : State) (ow or : List Nat) (i : MIn) (k1 k2 v1 v2 : Nat) :
    let e := eff ow or i
    let o := (step s ⟨e.w, e.r, e.p, e.c⟩).2
    ((onlyTo i.ws.length e.gr o.rd)[k1]? = some (some v1) → (onlyTo i.ws.length e.gr o.rd)[k2]? = some (some v2) →
        k1 = k2 ∧ o.rd = some v1 ∧ i.rs.getD k1 false = true) ∧
    ((onlyTo i.ws.length e.gw o.wr)[k1]? = some (some v1) → (onlyTo i.ws.length e.gw o.wr)[k2]? = some (some v2) →
        k1 = k2 ∧ o.wr = some v1 ∧ (i.ws.map Option.isSome).getD k1 false = true) :=
  ⟨fun h1 h2 => callers_exclusive h1 h2, fun h1 h2 => callers_exclusive h1 h2⟩

/-- non-vacuity of the multi-caller statement: two readers and two writers compete, one of each wins -/
example :
    let i : MIn := ⟨[some 5, some 6], [true, true], [false, true], false⟩
    let e := eff [1, 0] [0, 1] i
    e.gw = some 1 ∧ e.w = some 6 ∧ e.gr = some 0 ∧
    onlyTo 2 e.gr (step ⟨9, true⟩ ⟨e.w, e.r, e.p, e.c⟩).2.rd = [some 9, none] ∧
    onlyTo 2 e.gw (step ⟨9, true⟩ ⟨e.w, e.r, e.p, e.c⟩).2.wr = [none, some 6] := by decide

/-- non-vacuity: pass-through (read and write in one cycle when full), a blocked write, a clear
    that wins over an executed write -/
example :
    let is : List In := [⟨some 1, true, true, false⟩, ⟨some 2, true, true, false⟩, ⟨some 3, false, false, false⟩,
                         ⟨some 4, true, false, true⟩, ⟨some 5, false, false, false⟩, ⟨none, false, true, false⟩]
    (run init is).2.map (fun o => (o.wr, o.rd, o.pk)) =
      [(some 1, none, none), (some 2, some 1, some 1), (none, none, none), (some 4, some 2, none),
       (some 5, none, none), (none, none, some 5)] ∧
    hist (events is) = ([], [5]) ∧ buffer is = [5] := by decide

end TxV.Pipe

#print axioms TxV.Forwarder.c17_fwd_order
#print axioms TxV.Forwarder.c17_fwd_read_value
#print axioms TxV.Forwarder.c17_fwd_ready
#print axioms TxV.Forwarder.c17_fwd_clear
#print axioms TxV.Forwarder.c17_fwd_peek
#print axioms TxV.Forwarder.c17_fwd_callers
#print axioms TxV.Pipe.c17_pipe_callers
#print axioms TxV.Pipe.c17_pipe_order
#print axioms TxV.Pipe.c17_pipe_read_value
#print axioms TxV.Pipe.c17_pipe_ready
#print axioms TxV.Pipe.c17_pipe_clear
#print axioms TxV.Pipe.c17_pipe_peek
