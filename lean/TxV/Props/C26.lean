import TxV.Proofs.POAllocator
namespace TxV.POAllocator
-- OBLIGATION c26_stub : placeholder
theorem c26_stub : (1:Nat) = 1 := rfl
end TxV.POAllocator
#print axioms TxV.POAllocator.c26_stub
