import TxV.Proofs.POAllocator
/-!
# C26 — PreservedOrderAllocator tracks allocation order

"For every call history that only frees allocated identifiers (and indices below the used count),
order is always a permutation whose first used entries are the allocated identifiers from oldest to
newest; alloc returns a free identifier and is ready iff one exists; free/free_idx remove exactly the
designated identifier; clear restores the initial state."

All theorems hold for every entry count `n`.  `Inv n s`: `order` is a permutation of `range n` and
`used ≤ n`; `allocated s = order.take used`.  `EnvOk s i` (environment hypothesis for one cycle):
`free(ident)` only with `ident ∈ allocated s` and not together with `free_idx` (both call the
exclusive `free_idx`; the scheduler grants one — `arbitrate`/`stepP`, `c26_exclusive`), `free_idx(idx)` only with
`idx < used`.  `Reach n s A` quantifies over all histories from reset (simultaneous alloc and free
included); `A` is the list of allocated identifiers, oldest first, rebuilt from the observations.
-/
namespace TxV.POAllocator

-- OBLIGATION c26_history : for every history from reset that only frees allocated identifiers / indices below the used count, order is a permutation of range(entries), used ≤ entries, and its first used entries are exactly the allocated identifiers from oldest to newest (bookkeeping list rebuilt from the observed calls)
theorem c26_history (n : Nat) (s : State) (A : List Nat) (h : Reach n s A) :
    s.order.Perm (List.range n) ∧ s.used ≤ n ∧ s.order.take s.used = A ∧ A.length = s.used := by
  obtain ⟨hI, hA⟩ := reach_inv h
  exact ⟨hI.1, hI.2, hA, by rw [← hA, allocated_length hI]⟩

-- OBLIGATION c26_inv : one cycle (any combination of alloc, free or free_idx, order, clear) preserves the invariant under the environment hypotheses
theorem c26_inv (n : Nat) (s : State) (i : In) (hI : Inv n s) (hE : EnvOk s i) : Inv n (step n s i).1 :=
  inv_step hI hE

-- OBLIGATION c26_alloc : alloc executes iff attempted and used ≠ entries, which holds iff a free identifier exists; the returned identifier is order[used], below entries and not allocated
theorem c26_alloc (n : Nat) (s : State) (i : In) (hI : Inv n s) :
    (((step n s i).2.alloc ≠ none) ↔ (i.alloc = true ∧ s.used ≠ n)) ∧
    (s.used ≠ n ↔ ∃ id, id < n ∧ id ∉ allocated s) ∧
    (∀ id, (step n s i).2.alloc = some id → s.order[s.used]? = some id ∧ id < n ∧ id ∉ allocated s) := by
  have hlen := inv_length hI
  have hnd := inv_nodup hI
  have hout : (step n s i).2.alloc = if (i.alloc && (s.used != n)) then some (arrayRead s.order s.used) else none := rfl
  -- the entry at position `used` is outside the allocated prefix
  have fresh : ∀ (h : s.used < s.order.length), s.order[s.used] < n ∧ s.order[s.used] ∉ allocated s := by
    intro h
    constructor
    · have : s.order[s.used] ∈ List.range n := (hI.1.mem_iff).mp (List.getElem_mem h)
      simpa using this
    · intro hm
      obtain ⟨j, hj⟩ := List.mem_iff_getElem?.mp hm
      simp only [allocated, List.getElem?_take] at hj
      split at hj
      · rename_i hju
        have hjl : j < s.order.length := by have := hI.2; omega
        have := (List.getElem?_inj (i := j) (j := s.used) hjl hnd).mp (by rw [hj, List.getElem?_eq_getElem h])
        omega
      · cases hj
  refine ⟨?_, ?_, ?_⟩
  · rw [hout]
    by_cases h1 : i.alloc = true <;> by_cases h2 : s.used = n <;> simp [h1, h2]
  · constructor
    · intro hne
      have hlt : s.used < s.order.length := by have := hI.2; omega
      exact ⟨s.order[s.used], (fresh hlt).1, (fresh hlt).2⟩
    · rintro ⟨id, hid, hna⟩ heq
      apply hna
      have : allocated s = s.order := by
        simp only [allocated]; rw [heq, ← hlen]; exact List.take_length
      rw [this]
      exact (hI.1.mem_iff).mpr (by simpa using hid)
  · intro id h
    rw [hout] at h
    by_cases ha : (i.alloc && (s.used != n)) = true
    · rw [if_pos ha] at h
      simp only [Bool.and_eq_true, bne_iff_ne] at ha
      have hlt : s.used < s.order.length := by have := hI.2; omega
      simp only [arrayRead, List.getElem?_eq_getElem hlt, Option.some.injEq] at h
      subst h
      exact ⟨List.getElem?_eq_getElem hlt, (fresh hlt).1, (fresh hlt).2⟩
    · rw [if_neg ha] at h; cases h

-- OBLIGATION c26_free_idx : an executed free_idx(idx) with idx < used removes exactly the identifier at position idx of the allocated list, keeps the order of the others, and the identifier returned by a simultaneous alloc is appended as the newest
theorem c26_free_idx (n : Nat) (s : State) (i : In) (k : Nat) (hI : Inv n s) (hE : EnvOk s i)
    (hc : i.clear = false) (hf : i.free = none) (hx : i.freeIdx = some k) :
    allocated (step n s i).1 =
      (allocated s).eraseIdx k ++ (match (step n s i).2.alloc with | some id => [id] | none => []) ∧
    (step n s i).2.freeIdx = true ∧
    (∀ x, (allocated s)[k]? = some x → x ∉ (allocated s).eraseIdx k) := by
  refine ⟨?_, by simp [step, hf, hx], ?_⟩
  · rw [allocated_step hI hE hc]
    simp only [calledIdx, hf, hx]
    rfl
  · intro x hxk hm
    obtain ⟨j, hjk, hj⟩ := List.mem_eraseIdx_iff_getElem?.mp hm
    have hjl : j < (allocated s).length := (List.getElem?_eq_some_iff.mp hj).1
    exact hjk ((List.getElem?_inj hjl (allocated_nodup hI)).mp (by rw [hj, hxk]))

-- OBLIGATION c26_free : an executed free(ident) of an allocated identifier removes exactly ident from the allocated list, keeps the order of the others, and the identifier returned by a simultaneous alloc is appended as the newest
theorem c26_free (n : Nat) (s : State) (i : In) (id : Nat) (hI : Inv n s) (hE : EnvOk s i)
    (hc : i.clear = false) (hf : i.free = some id) :
    allocated (step n s i).1 =
      (allocated s).erase id ++ (match (step n s i).2.alloc with | some x => [x] | none => []) ∧
    (step n s i).2.free = true ∧ id ∉ (allocated s).erase id := by
  refine ⟨?_, by simp [step, hf], ?_⟩
  · have := ghost_agrees hI hE
    rw [this]
    have hcl : (step n s i).2.clear = false := by simp [step, hc]
    simp only [ghostStep, hcl, Bool.false_eq_true, if_false, hf]
    rfl
  · intro hm
    have := (List.Nodup.mem_erase_iff (allocated_nodup hI)).mp hm
    exact this.1 rfl

-- OBLIGATION c26_clear : clear always executes and restores the initial state (order = 0..entries-1, used = 0) whatever else is attempted in the cycle; without free/free_idx/clear the order array is unchanged
theorem c26_clear (n : Nat) (s : State) (i : In) :
    (i.clear = true → (step n s i).1 = init n ∧ (step n s i).2.clear = true) ∧
    ((step n s i).2.clear = i.clear) ∧
    (i.clear = false → i.free = none → i.freeIdx = none → (step n s i).1.order = s.order) := by
  refine ⟨fun h => ⟨step_clear n s i h, by simp [step, h]⟩, rfl, ?_⟩
  intro hc hf hx
  simp [step, hc, hf, hx]

-- OBLIGATION c26_order : the order method executes iff attempted and reports the registers used and order unchanged
theorem c26_order (n : Nat) (s : State) (i : In) :
    (step n s i).2.order = if i.order then some (s.used, s.order) else none := rfl

-- OBLIGATION c26_exclusive : free and free_idx share one exclusive removal port: whatever is attempted, at most one of them executes per cycle; attempted together exactly one executes (the one with scheduling priority), attempted alone each executes; the arbitrated input never carries both, so c26_inv/c26_free/c26_free_idx/c26_history apply to it
theorem c26_exclusive (n : Nat) (ff : Bool) (s : State) (i : In) :
    ¬ ((stepP n ff s i).2.free = true ∧ (stepP n ff s i).2.freeIdx = true) ∧
    (i.free.isSome = true → i.freeIdx.isSome = true →
      (stepP n ff s i).2.free = ff ∧ (stepP n ff s i).2.freeIdx = !ff) ∧
    (i.freeIdx = none → (stepP n ff s i).2.free = i.free.isSome ∧ (stepP n ff s i).2.freeIdx = false) ∧
    (i.free = none → (stepP n ff s i).2.freeIdx = i.freeIdx.isSome ∧ (stepP n ff s i).2.free = false) ∧
    (∀ id, (arbitrate ff i).free = some id → (arbitrate ff i).freeIdx = none) := by
  cases hf : i.free <;> cases hx : i.freeIdx <;> cases ff <;>
    simp [stepP, arbitrate, step, hf, hx]

/-- non-vacuity: entries = 3; allocate 0,1,2; free_idx(0) (oldest); free(2) together with alloc.  The
    final state is reachable, the bookkeeping list is [1, 0]: identifier 0 was re-allocated as the newest. -/
example :
    let a : In := ⟨true, none, none, true, false⟩
    let x : In := ⟨false, none, some 0, true, false⟩
    let f : In := ⟨true, some 2, none, true, false⟩
    (run 3 (init 3) [a, a, a, x, f]).1 = ⟨[1, 0, 2], 2⟩ ∧
    ((run 3 (init 3) [a, a, a, x, f]).2.map (·.alloc)) = [some 0, some 1, some 2, none, some 0] := by
  decide

example : Reach 3 ⟨[1, 0, 2], 2⟩ [1, 0] := by
  let a : In := ⟨true, none, none, true, false⟩
  let x : In := ⟨false, none, some 0, true, false⟩
  let f : In := ⟨true, some 2, none, true, false⟩
  have r1 := Reach.step a (Reach.init (n := 3)) (by decide) (by decide)
  have r2 := Reach.step a r1 (by decide) (by decide)
  have r3 := Reach.step a r2 (by decide) (by decide)
  have r4 := Reach.step x r3 (by decide) (by decide)
  have r5 := Reach.step f r4 (by decide) (by decide)
  have e1 : (step 3 (step 3 (step 3 (step 3 (step 3 (init 3) a).fst a).fst a).fst x).fst f).fst = ⟨[1, 0, 2], 2⟩ := by
    decide
  have e2 : (ghostStep (ghostStep (ghostStep (ghostStep (ghostStep [] a (step 3 (init 3) a).snd) a
      (step 3 (step 3 (init 3) a).fst a).snd) a (step 3 (step 3 (step 3 (init 3) a).fst a).fst a).snd) x
      (step 3 (step 3 (step 3 (step 3 (init 3) a).fst a).fst a).fst x).snd) f
      (step 3 (step 3 (step 3 (step 3 (step 3 (init 3) a).fst a).fst a).fst x).fst f).snd) = [1, 0] := by
    decide
  rw [e1, e2] at r5
  exact r5

end TxV.POAllocator

#print axioms TxV.POAllocator.c26_history
#print axioms TxV.POAllocator.c26_inv
#print axioms TxV.POAllocator.c26_alloc
#print axioms TxV.POAllocator.c26_free_idx
#print axioms TxV.POAllocator.c26_free
#print axioms TxV.POAllocator.c26_clear
#print axioms TxV.POAllocator.c26_order
#print axioms TxV.POAllocator.c26_exclusive
