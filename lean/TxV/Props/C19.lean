import TxV.Proofs.ReqRes
import TxV.Model.ReqResProto  -- (the driver's front end; imported only so that building this module builds it)
/-!
# C19 — Serializer and ArgumentsToResultsZipper keep requests and responses matched

"For every interleaving of client requests and in-order server responses, each Serializer client
receives exactly the responses to its own requests, in order, and no response is lost or
duplicated; ArgumentsToResultsZipper.read returns the k-th written argument paired with the k-th
written result."

The server is the environment: per cycle it chooses the readiness of its request and response
methods and the response data.  "In-order server" means that the k-th executed call of the
response method returns the answer to the k-th executed call of the request method; the theorems
therefore identify responses by their position in the sequence of executed response calls
(`sRespCalls`) and requests by their position in the sequence of executed request calls.

All theorems are for every port count, queue depth, scheduling order of the request ports and
every history from reset (`NoClear`: `clear` is not called; the property does not speak about it).
-/
namespace TxV.ReqRes

-- OBLIGATION c19_serializer : the k-th executed serialize_out is executed by the client (port) of the k-th executed serialize_in and returns the k-th response of the server; the k-th request seen by the server is the argument of the k-th executed serialize_in (every port count, depth, order, history without clear)
theorem c19_serializer (depth : Nat) (order : List Nat) (is : List SIn) (hc : NoClear is)
    (k p d : Nat) (h : (sOuts (sRun depth order sInit is).2)[k]? = some (p, d)) :
    (∃ a, (sIns (sRun depth order sInit is).2)[k]? = some (p, a) ∧
          (sReqCalls (sRun depth order sInit is).2)[k]? = some a) ∧
    (sRespCalls (sRun depth order sInit is).2)[k]? = some d := by
  have hh := sRun_hist depth order sInit is hc
  have hcalls := sRun_calls depth order sInit is
  simp only [sInit, List.nil_append] at hh
  constructor
  · have hk : ((sOuts (sRun depth order { q := [] } is).2).map (·.1))[k]? = some p := by
      simp only [sInit] at h
      simp [List.getElem?_map, h]
    have := getElem?_of_prefix _ _ _ hh k p hk
    simp only [List.getElem?_map, Option.map_eq_some_iff] at this
    obtain ⟨⟨p', a⟩, hpa, hp⟩ := this
    simp only at hp
    subst hp
    refine ⟨a, hpa, ?_⟩
    rw [hcalls.2]
    simp only [sInit] at hpa ⊢
    simp [List.getElem?_map, hpa]
  · rw [hcalls.1]
    simp [List.getElem?_map, h]

-- OBLIGATION c19_serializer_clients : the sequence of (client, data) of executed serialize_out calls equals the sequence of clients of executed serialize_in calls zipped with the server's responses; hence every client receives exactly the responses to its own requests, in order, none lost and none duplicated (per-client projection)
theorem c19_serializer_clients (depth : Nat) (order : List Nat) (is : List SIn) (hc : NoClear is) :
    sOuts (sRun depth order sInit is).2
      = List.zip ((sIns (sRun depth order sInit is).2).map (·.1)) (sRespCalls (sRun depth order sInit is).2) ∧
    ∀ c, ((sOuts (sRun depth order sInit is).2).filter (·.1 == c)).map (·.2)
      = ((List.zip ((sIns (sRun depth order sInit is).2).map (·.1))
            (sRespCalls (sRun depth order sInit is).2)).filter (·.1 == c)).map (·.2) := by
  have hh := sRun_hist depth order sInit is hc
  have hcalls := sRun_calls depth order sInit is
  simp only [sInit, List.nil_append] at hh
  have hz : sOuts (sRun depth order sInit is).2
      = List.zip ((sIns (sRun depth order sInit is).2).map (·.1)) (sRespCalls (sRun depth order sInit is).2) := by
    rw [hcalls.1]
    simp only [sInit]
    rw [← hh]
    exact (zip_fst_snd_append _ _).symm
  exact ⟨hz, fun c => by rw [← hz]⟩

-- OBLIGATION c19_serializer_bound : the number of pending requests never exceeds the depth, responses are only delivered for requests made before (#serialize_out <= #serialize_in), and every executed call of the server's response method is delivered by exactly one serialize_out (the lists coincide) - also with clear calls for the first part
theorem c19_serializer_bound (depth : Nat) (order : List Nat) (is : List SIn) :
    (sRun depth order sInit is).1.q.length ≤ depth ∧
    sRespCalls (sRun depth order sInit is).2 = (sOuts (sRun depth order sInit is).2).map (·.2) ∧
    (NoClear is → (sOuts (sRun depth order sInit is).2).length + (sRun depth order sInit is).1.q.length
        = (sIns (sRun depth order sInit is).2).length) := by
  refine ⟨sRun_cap depth order sInit is (by simp [sInit]), (sRun_calls depth order sInit is).1, ?_⟩
  intro hc
  have hh := sRun_hist depth order sInit is hc
  have := congrArg List.length hh
  simpa [sInit] using this

-- OBLIGATION c19_serializer_step : one cycle: a request port executes only if it attempted, the pending queue is not full and the server accepts (then the server's request method gets exactly its argument); if some port of the order attempts under those conditions one of them executes; serialize_out[p] executes iff p is the oldest pending client, it attempts and the server's response is ready, and returns the server's data
theorem c19_serializer_step (depth : Nat) (order : List Nat) (s : SState) (i : SIn) :
    (∀ p a, (sStep depth order s i).2.inDone = some (p, a) →
      p ∈ order ∧ i.ins[p]? = some (some a) ∧ s.q.length < depth ∧ i.reqRdy = true ∧
      (sStep depth order s i).2.reqCall = some a) ∧
    (s.q.length < depth → i.reqRdy = true → (∃ p ∈ order, ∃ a, i.ins[p]? = some (some a)) →
      (sStep depth order s i).2.inDone.isSome) ∧
    (∀ p d, (sStep depth order s i).2.outDone = some (p, d) ↔
      (s.q.head? = some p ∧ i.outs[p]? = some true ∧ i.respRdy = true ∧ d = i.respData)) := by
  simp only [sStep]
  refine ⟨?_, ?_, ?_⟩
  · intro p a h
    split at h
    · rename_i hc
      simp only [Bool.and_eq_true, decide_eq_true_eq] at hc
      have := pickIn_some _ _ _ _ h
      exact ⟨this.1, this.2, hc.1, hc.2, by simp [h, hc.1, hc.2]⟩
    · simp at h
  · intro hl hr ⟨p, hp, a, ha⟩
    simp only [hl, hr, decide_true, Bool.and_self, if_true]
    cases hpick : pickIn i.ins order with
    | some pa => simp
    | none => exact absurd ha (pickIn_none _ _ hpick p hp a)
  · intro p d
    cases hq : s.q with
    | nil => simp
    | cons p' rest =>
      simp only [List.head?_cons, Option.some.injEq]
      by_cases hc : (i.respRdy && i.outs[p']? == some true) = true
      · simp only [hc, if_true, Option.some.injEq, Prod.mk.injEq]
        simp only [Bool.and_eq_true, beq_iff_eq] at hc
        constructor
        · rintro ⟨rfl, rfl⟩; exact ⟨rfl, hc.2, hc.1, rfl⟩
        · rintro ⟨rfl, _, _, rfl⟩; exact ⟨rfl, rfl⟩
      · simp only [hc]
        simp only [Bool.and_eq_true, beq_iff_eq, not_and] at hc
        constructor
        · intro h; simp at h
        · rintro ⟨rfl, h1, h2, _⟩; exact absurd h1 (hc h2)

-- OBLIGATION c19_two_callers : two transactions calling the same (exclusive) method: per method and cycle at most one caller is granted (the result names one caller or none), the granted caller did request, and the component sees exactly its request; Serializer: the granted request slot attempted with the forwarded argument and belongs to the port that executes, the granted response slot attempted and belongs to the oldest pending client
theorem c19_two_callers :
    (∀ (pr : Bool × Bool × Bool) (s : ZState) (a b : ZIn),
      let r := zStepTwin pr s a b
      (r.2.2.wa = 1 → r.2.1.wa.isSome ∧ r.2.1.wa = a.wa) ∧ (r.2.2.wa = 2 → r.2.1.wa.isSome ∧ r.2.1.wa = b.wa) ∧
      (r.2.2.wr = 1 → r.2.1.wr.isSome ∧ r.2.1.wr = a.wr) ∧ (r.2.2.wr = 2 → r.2.1.wr.isSome ∧ r.2.1.wr = b.wr) ∧
      (r.2.2.rd = 1 → r.2.1.rd.isSome ∧ a.rd = true) ∧ (r.2.2.rd = 2 → r.2.1.rd.isSome ∧ b.rd = true) ∧
      r.2.2.wa ≤ 2 ∧ r.2.2.wr ≤ 2 ∧ r.2.2.rd ≤ 2) ∧
    (∀ (n depth : Nat) (order oorder : List Nat) (s : SState) (i : SIn),
      let r := sStepTwin n depth order oorder s i
      (∀ sl, r.2.2.1 = some sl →
        sl ∈ order ∧ ∃ a, i.ins[sl]? = some (some a) ∧ r.2.1.inDone = some (sl % n, a) ∧ r.2.1.reqCall = some a) ∧
      (∀ sl, r.2.2.2 = some sl →
        sl ∈ oorder ∧ i.outs[sl]? = some true ∧ s.q.head? = some (sl % n) ∧
        r.2.1.outDone = some (sl % n, i.respData))) := by
  constructor
  · intro pr s a b
    simp only [zStepTwin]
    have hwa := arb2_spec pr.1 a.wa b.wa
    have hwr := arb2_spec pr.2.1 a.wr b.wr
    have hrd := arb2_spec pr.2.2 (boolOpt a.rd) (boolOpt b.rd)
    generalize arb2 pr.1 a.wa b.wa = xa at hwa ⊢
    generalize arb2 pr.2.1 a.wr b.wr = xr at hwr ⊢
    generalize arb2 pr.2.2 (boolOpt a.rd) (boolOpt b.rd) = xd at hrd ⊢
    have hex := zStep_exec s { wa := xa.1, wr := xr.1, rd := xd.1.isSome, pk := a.pk }
    generalize zStep s { wa := xa.1, wr := xr.1, rd := xd.1.isSome, pk := a.pk } = r at hex ⊢
    simp only at hex
    have hb : ∀ (x : Bool), boolOpt x = none ∨ (x = true) := by intro x; cases x <;> simp [boolOpt]
    refine ⟨?_, ?_, ?_, ?_, ?_, ?_, ?_, ?_, ?_⟩
    · intro h
      obtain ⟨h1, h2⟩ := ite_who h (by omega)
      exact ⟨h1, by rw [hex.1 h1, hwa.2.1 h2]⟩
    · intro h
      obtain ⟨h1, h2⟩ := ite_who h (by omega)
      exact ⟨h1, by rw [hex.1 h1, hwa.2.2.1 h2]⟩
    · intro h
      obtain ⟨h1, h2⟩ := ite_who h (by omega)
      exact ⟨h1, by rw [hex.2.1 h1, hwr.2.1 h2]⟩
    · intro h
      obtain ⟨h1, h2⟩ := ite_who h (by omega)
      exact ⟨h1, by rw [hex.2.1 h1, hwr.2.2.1 h2]⟩
    · intro h
      obtain ⟨h1, h2⟩ := ite_who h (by omega)
      refine ⟨h1, ?_⟩
      have h3 := hex.2.2 h1
      rw [hrd.2.1 h2] at h3
      rcases hb a.rd with h4 | h4
      · simp [h4] at h3
      · exact h4
    · intro h
      obtain ⟨h1, h2⟩ := ite_who h (by omega)
      refine ⟨h1, ?_⟩
      have h3 := hex.2.2 h1
      rw [hrd.2.2.1 h2] at h3
      rcases hb b.rd with h4 | h4
      · simp [h4] at h3
      · exact h4
    · split <;> rcases hwa.1 with h | h <;> omega
    · split <;> rcases hwr.1 with h | h <;> omega
    · split <;> rcases hrd.1 with h | h <;> omega
  · intro n depth order oorder s i
    constructor
    · intro sl h
      simp only [sStepTwin] at h ⊢
      split at h
      · rename_i hdone
        cases hw : pickIn i.ins order with
        | none => simp [hw] at h
        | some sa =>
          obtain ⟨sl', a⟩ := sa
          simp only [hw, Option.map_some, Option.some.injEq] at h
          subst h
          have hp := pickIn_some _ _ _ _ hw
          refine ⟨hp.1, a, hp.2, ?_⟩
          simp only [hw] at hdone ⊢
          simp only [sStep] at hdone ⊢
          split at hdone
          · rename_i hc
            simp only [hc, if_true]
            cases hq : pickIn ((List.range n).map fun p => if sl' % n = p then some a else none) (List.range n) with
            | none => simp [hq] at hdone
            | some pa =>
              obtain ⟨p, a'⟩ := pa
              have h2 := (pickIn_some _ _ _ _ hq).2
              simp only [List.getElem?_map] at h2
              cases hr : (List.range n)[p]? with
              | none => simp [hr] at h2
              | some p' =>
                have hpp : p' = p := by
                  rw [List.getElem?_eq_some_iff] at hr
                  obtain ⟨hlt, he⟩ := hr
                  simpa using he.symm
                subst hpp
                simp only [hr, Option.map_some, Option.some.injEq] at h2
                split at h2
                · rename_i he
                  simp only [Option.some.injEq] at h2
                  subst h2
                  simp [he]
                · simp at h2
          · simp at hdone
      · simp at h
    · intro sl h
      simp only [sStepTwin] at h ⊢
      generalize hgen : sStep depth (List.range n) s _ = r at h ⊢
      cases hod : r.2.outDone with
      | none => simp [hod] at h
      | some pd =>
        obtain ⟨p, d⟩ := pd
        simp only [hod, Option.bind_some] at h
        have hf := firstSlot_some _ _ _ _ _ h
        have hod' := hod
        rw [← hgen] at hod'
        obtain ⟨hq, _, _, hd⟩ := ((c19_serializer_step _ _ _ _).2.2 p d).1 hod'
        refine ⟨hf.1, hf.2.2, by rw [hf.2.1]; exact hq, ?_⟩
        rw [hf.2.1, hd]

-- OBLIGATION c19_zipper : the k-th executed read returns the k-th written argument paired with the k-th written result (every history from reset)
theorem c19_zipper (is : List ZIn) (k a r : Nat) (h : (zReads (zRun zInit is).2)[k]? = some (a, r)) :
    (zArgsW (zRun zInit is).2)[k]? = some a ∧ (zResW (zRun zInit is).2)[k]? = some r := by
  have hh := zRun_hist zInit is
  simp only [zInit, List.nil_append, Option.toList_none] at hh
  simp only [zInit] at h
  constructor
  · apply getElem?_of_prefix _ _ _ hh.1
    simp [List.getElem?_map, h]
  · apply getElem?_of_prefix _ _ _ hh.2
    simp [List.getElem?_map, h]

-- OBLIGATION c19_zipper_nodrop : every written argument/result is either already returned by a read or still stored (arguments read ++ FIFO contents = arguments written; results read ++ buffer = results written), the FIFO never holds more than two arguments
theorem c19_zipper_nodrop (is : List ZIn) :
    (zReads (zRun zInit is).2).map (·.1) ++ (zRun zInit is).1.args = zArgsW (zRun zInit is).2 ∧
    (zReads (zRun zInit is).2).map (·.2) ++ (zRun zInit is).1.res.toList = zResW (zRun zInit is).2 ∧
    (zRun zInit is).1.args.length ≤ 2 := by
  have hh := zRun_hist zInit is
  simp only [zInit, List.nil_append, Option.toList_none] at hh
  refine ⟨by simpa [zInit] using hh.1, by simpa [zInit] using hh.2, ?_⟩
  have : ∀ (s : ZState) (is : List ZIn), s.args.length ≤ zDepth → (zRun s is).1.args.length ≤ zDepth := by
    intro s is
    induction is generalizing s with
    | nil => intro h; simpa [zRun]
    | cons i is ih => intro h; simp only [zRun]; exact ih _ (zStep_cap s i h)
  exact this zInit is (by simp [zInit])

/-- non-vacuity (serializer): three clients, depth 2, competing requests, responses delivered
    to the right clients -/
example :
    let is : List SIn := [
      ⟨[some 1, some 2, some 3], [true, true, true], true, true, 9, false⟩,
      ⟨[none, some 2, some 3], [true, true, true], true, true, 10, false⟩,
      ⟨[none, some 2, some 3], [true, true, true], true, false, 11, false⟩,
      ⟨[none, none, some 3], [true, true, true], true, true, 12, false⟩]
    sIns (sRun 2 [0, 1, 2] sInit is).2 = [(0, 1), (1, 2), (1, 2)] ∧
    sOuts (sRun 2 [0, 1, 2] sInit is).2 = [(0, 10), (1, 12)] ∧
    (sRun 2 [0, 1, 2] sInit is).1.q = [1] := by decide

/-- non-vacuity (zipper): FIFO full, a buffered and a forwarded result -/
example :
    let is : List ZIn := [⟨some 1, none, true, true⟩, ⟨some 2, none, true, true⟩, ⟨some 3, none, true, true⟩,
      ⟨none, some 9, false, true⟩, ⟨some 4, some 10, true, true⟩, ⟨none, some 11, true, false⟩]
    zReads (zRun zInit is).2 = [(1, 9), (2, 11)] ∧ zArgsW (zRun zInit is).2 = [1, 2] ∧
    zResW (zRun zInit is).2 = [9, 11] := by decide

end TxV.ReqRes

#print axioms TxV.ReqRes.c19_serializer
#print axioms TxV.ReqRes.c19_serializer_clients
#print axioms TxV.ReqRes.c19_serializer_bound
#print axioms TxV.ReqRes.c19_serializer_step
#print axioms TxV.ReqRes.c19_two_callers
#print axioms TxV.ReqRes.c19_zipper
#print axioms TxV.ReqRes.c19_zipper_nodrop
