import TxV.Proofs.Profiler
/-!
# C35 — Profiler records what actually ran

"A transaction profile lists, for every cycle, exactly the transactions and methods that ran
(each method with a running caller), marks a transaction as locked only when it was ready
and runnable but a conflicting transaction ran, and the per-transaction run/locked
statistics equal the counts over cycles."

`make s d` is `CycleProfile.make(samples, data)`; `profile d hist` is what `profiler_process`
accumulates over a history of per-cycle samples (`c35_cycle`), `analyze` is
`Profile.analyze_transactions()`.  All theorems hold for every `ProfileData d` (any call graph,
any conflict lists, in any order) and every sample valuation / history.  `s.wf` says the ids in
one `ProfileSamples` are pairwise distinct (they are dict keys from one `IdGenerator`).
-/
namespace TxV.Profiler

-- OBLIGATION c35_cycle : "for every cycle" — the i-th cycle profile is CycleProfile.make of the i-th samples (every history, every i)
theorem c35_cycle (d : Data) (hist : List Samples) (i : Nat) :
    (profile d hist)[i]? = (hist[i]?).map (make · d) := by
  simp [profile]

-- OBLIGATION c35_running_tx : a transaction is listed in `running` (with caller None) iff its sampled run bit is set (every data, every distinct-id samples)
theorem c35_running_tx (s : Samples) (d : Data) (h : s.wf) (t : TxSample) (ht : t ∈ s.txs) :
    (make s d).running.lookup t.id = if t.run then some none else none :=
  make_running_tx s d h t ht

-- OBLIGATION c35_method_caller_running : a method is listed in `running` iff its run bit is set, and then with a caller that is one of its parents and itself runs; hypothesis = C04 on the samples (a running method has a running parent)
theorem c35_method_caller_running (s : Samples) (d : Data) (h : s.wf) (m : MSample) (hm : m ∈ s.ms)
    (c04 : m.run = true → ∃ p ∈ parentsOf d m.id, isRunning s p) :
    (m.run = true → ∃ p, (make s d).running.lookup m.id = some (some p) ∧
        p ∈ parentsOf d m.id ∧ isRunning s p) ∧
    (m.run = false → (make s d).running.lookup m.id = none) :=
  make_running_m s d h m hm c04

-- OBLIGATION c35_running_exact : nothing else is listed — every entry of `running` is a sampled id whose run bit is set, transactions with caller None, methods with a parent that runs (no hypothesis)
theorem c35_running_exact (s : Samples) (d : Data) (k : Nat) (v : Option Nat)
    (h : (make s d).running.lookup k = some v) :
    k ∈ s.ids ∧ isRunning s k ∧
      ((v = none ∧ ∃ t ∈ s.txs, t.id = k ∧ t.run = true) ∨
       (∃ p, v = some p ∧ (∃ m ∈ s.ms, m.id = k) ∧ p ∈ parentsOf d k ∧ isRunning s p)) := by
  rcases make_running_sound s d k v h with ⟨hv, t, ht, hid, hr⟩ | ⟨p, hv, ⟨m, hm, hid⟩, hr, hp, hpr⟩
  · refine ⟨?_, Or.inl ⟨t, ht, hid, hr⟩, Or.inl ⟨hv, t, ht, hid, hr⟩⟩
    unfold Samples.ids
    exact List.mem_append_left _ (List.mem_map.2 ⟨t, ht, hid⟩)
  · refine ⟨?_, hr, Or.inr ⟨p, hv, ⟨m, hm, hid⟩, hp, hpr⟩⟩
    unfold Samples.ids
    exact List.mem_append_right _ (List.mem_map.2 ⟨m, hm, hid⟩)

-- OBLIGATION c35_locked : locked[t] = t' only if t was ready and runnable, did not run, t' is in transaction_conflicts[t] and t' ran (every data, every distinct-id samples)
theorem c35_locked (s : Samples) (d : Data) (h : s.wf) (t : TxSample) (ht : t ∈ s.txs) (t' : Nat)
    (hl : (make s d).locked.lookup t.id = some t') :
    t.ready = true ∧ t.runnable = true ∧ t.run = false ∧ t' ∈ confOf d t.id ∧
      ∃ x ∈ s.txs, x.id = t' ∧ x.run = true :=
  make_locked_tx s d h t ht t' hl

-- OBLIGATION c35_locked_iff : a transaction has a `locked` entry exactly when ready ∧ runnable ∧ ¬run ∧ some transaction of its conflict list ran
theorem c35_locked_iff (s : Samples) (d : Data) (h : s.wf) (t : TxSample) (ht : t ∈ s.txs) :
    dmem (make s d).locked t.id = true ↔
      (t.run = false ∧ t.ready = true ∧ t.runnable = true ∧ ∃ t' ∈ confOf d t.id, txRun s t' = true) := by
  rw [dmem_iff, make_locked_tx_iff s d h t ht]
  simp [lockedCond, and_assoc]

-- OBLIGATION c35_stats : analyze_transactions: run = number of cycles in which the transaction's run bit was set, locked = number of cycles in which it was ready, runnable, not run and a conflicting transaction ran (every history)
theorem c35_stats (d : Data) (hist : List Samples) (t : Nat)
    (hinfo : (t, true) ∈ d.info)
    (hwf : ∀ s ∈ hist, s.wf ∧ ∃ y ∈ s.txs, y.id = t) :
    statOf (analyze d (profile d hist)) t =
      some { id := t, run := hist.countP (fun s => txRun s t),
             locked := hist.countP (fun s => lockedB s d t) } := by
  unfold analyze
  rw [statOf_analyze_fold d hist t _ _ (statOf_initStats d t hinfo) hwf]
  simp

-- OBLIGATION c35_no_raise : CycleProfile.make never raises StopIteration (profiler.py:254) when transactions_by_method is consistent with method_parents, so a cycle profile exists for every cycle of every history
theorem c35_no_raise (s : Samples) (d : Data) (h : tbmClosed s d) : makeRaises s d = false :=
  makeRaises_false s d h

/-- non-vacuity: T1 and T2 conflict (both call M5 through M4 / directly), T2 runs, T1 is ready
    and runnable and locked; M4 is used by T1 only, M5 runs with running parent T2 -/
example :
    let d : Data := { info := [(1, true), (2, true), (4, false), (5, false)],
                      parents := [(4, [1]), (5, [4, 2])], tbm := [(4, [1]), (5, [1, 2])],
                      conflicts := [(1, [2]), (2, [1])] }
    let s : Samples := { txs := [⟨1, true, true, false⟩, ⟨2, true, true, true⟩],
                         ms := [⟨4, false⟩, ⟨5, true⟩] }
    s.ids.Nodup ∧ make s d = { locked := [(1, 2)], running := [(2, none), (5, some 2)] } ∧
      makeRaises s d = false ∧
      analyze d (profile d [s, s]) = [⟨1, 0, 2⟩, ⟨2, 2, 0⟩] := by
  decide

end TxV.Profiler

#print axioms TxV.Profiler.c35_cycle
#print axioms TxV.Profiler.c35_running_tx
#print axioms TxV.Profiler.c35_method_caller_running
#print axioms TxV.Profiler.c35_running_exact
#print axioms TxV.Profiler.c35_locked
#print axioms TxV.Profiler.c35_locked_iff
#print axioms TxV.Profiler.c35_stats
#print axioms TxV.Profiler.c35_no_raise
