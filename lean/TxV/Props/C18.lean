import TxV.Proofs.Transformers
import TxV.Model.TransformersProto  -- (the driver's front end; imported only so that building this module builds it)
/-!
# C18 — method transformers and connectors implement their documented function

"ConnectTrans/CrossbarConnectTrans transfer data between two methods exactly when both can run;
MethodMap applies its input and output maps; MethodFilter calls the target only when the
condition holds (returning the default otherwise, and not blocking on the target when
use_condition is set); MethodProduct calls all targets; MethodTryProduct calls exactly the ready
targets and reports which succeeded; NonexclusiveWrapper forwards calls; Collector delivers every
target result exactly once."

All theorems hold for every readiness pattern of the targets, every argument, every target
result and every map / condition / combiner function (these are universally quantified
parameters); crossbar and collector additionally for every number of methods and every
scheduling order, the collector for every call history.
-/
namespace TxV.Transformers

-- OBLIGATION c18_connect : ConnectTrans: both methods are called iff both are ready, and then each receives the other's result (every readiness/data valuation)
theorem c18_connect (i : ConnIn) :
    ((connect i).m1.isSome ↔ (i.r1 = true ∧ i.r2 = true)) ∧
    ((connect i).m2.isSome ↔ (i.r1 = true ∧ i.r2 = true)) ∧
    (i.r1 = true → i.r2 = true → (connect i).m1 = some i.d2 ∧ (connect i).m2 = some i.d1) := by
  unfold connect
  cases i.r1 <;> cases i.r2 <;> simp

-- OBLIGATION c18_connect_valid : ConnectTrans whose methods validate their arguments: both are called iff both are ready and each accepts (validate_arguments) the other's result - i.e. exactly when both can run - and then each receives the other's result (every validator pair)
theorem c18_connect_valid (v1 v2 : Nat → Bool) (i : ConnIn) :
    ((connectV v1 v2 i).m1.isSome ↔ (i.r1 = true ∧ i.r2 = true ∧ v1 i.d2 = true ∧ v2 i.d1 = true)) ∧
    ((connectV v1 v2 i).m2.isSome ↔ (connectV v1 v2 i).m1.isSome) ∧
    (i.r1 = true → i.r2 = true → v1 i.d2 = true → v2 i.d1 = true →
      (connectV v1 v2 i).m1 = some i.d2 ∧ (connectV v1 v2 i).m2 = some i.d1) := by
  unfold connectV connect
  cases i.r1 <;> cases i.r2 <;> cases v1 i.d2 <;> cases v2 i.d1 <;> simp

-- OBLIGATION c18_crossbar_transfers : CrossbarConnectTrans: every running pair is a pair of the crossbar whose two methods are ready and accept each other's result (validate_arguments; trivially true without validators), and each of the two receives the other's result (every size, every scheduling order, every valuation, every validators)
theorem c18_crossbar_transfers (v1 v2 : Nat → Bool) (order : List (Nat × Nat)) (i : XIn) (p : Nat × Nat)
    (hp : p ∈ running v1 v2 order i) :
    p ∈ order ∧ readyAt i.t1 p.1 = true ∧ readyAt i.t2 p.2 = true ∧
    (∃ v, resultAt i.t2 p.2 = some v ∧ v1 v = true ∧ xArg1 v1 v2 order i p.1 = some v) ∧
    (∃ v, resultAt i.t1 p.1 = some v ∧ v2 v = true ∧ xArg2 v1 v2 order i p.2 = some v) := by
  obtain ⟨ho, hr⟩ := running_mem v1 v2 order i p hp
  obtain ⟨h1, h2, ⟨x, hx, hvx⟩, ⟨y, hy, hvy⟩⟩ := (pairRunnable_iff v1 v2 i p).1 hr
  have hn := running_noClash v1 v2 order i
  refine ⟨ho, h1, h2, ⟨x, hx, hvx, ?_⟩, ⟨y, hy, hvy, ?_⟩⟩
  · simp [xArg1, find_fst_of_noClash _ hn p hp, hx]
  · simp [xArg2, find_snd_of_noClash _ hn p hp, hy]

-- OBLIGATION c18_crossbar_matching : CrossbarConnectTrans: no method serves two running pairs (the running pairs are pairwise disjoint in both coordinates)
theorem c18_crossbar_matching (v1 v2 : Nat → Bool) (order : List (Nat × Nat)) (i : XIn) :
    (running v1 v2 order i).Pairwise (fun p q => p.1 ≠ q.1 ∧ p.2 ≠ q.2) :=
  running_noClash v1 v2 order i

-- OBLIGATION c18_crossbar_exact : CrossbarConnectTrans: a pair that can run (both methods ready and accepting each other's result) is either running or one of its methods is taken by a running pair (nothing that can run is left idle); a method is called iff it belongs to a running pair
theorem c18_crossbar_exact (v1 v2 : Nat → Bool) (order : List (Nat × Nat)) (i : XIn) :
    (∀ p ∈ order, pairRunnable v1 v2 i p = true →
      ∃ q ∈ running v1 v2 order i, q.1 = p.1 ∨ q.2 = p.2) ∧
    (∀ a, (xArg1 v1 v2 order i a).isSome ↔ ∃ q ∈ running v1 v2 order i, q.1 = a) ∧
    (∀ b, (xArg2 v1 v2 order i b).isSome ↔ ∃ q ∈ running v1 v2 order i, q.2 = b) := by
  refine ⟨?_, ?_, ?_⟩
  · intro p hp h1
    have := grant_maximal _ order [] p hp h1
    rw [clash_true_iff] at this
    exact this
  · intro a
    constructor
    · intro h
      unfold xArg1 at h
      cases hf : (running v1 v2 order i).find? (fun p => p.1 == a) with
      | none => simp [hf] at h
      | some q =>
        have hm := List.mem_of_find?_eq_some hf
        have hq := List.find?_some hf
        exact ⟨q, hm, by simpa using hq⟩
    · rintro ⟨q, hq, rfl⟩
      obtain ⟨_, _, _, ⟨v, _, _, hv⟩, _⟩ := c18_crossbar_transfers v1 v2 order i q hq
      simp [hv]
  · intro b
    constructor
    · intro h
      unfold xArg2 at h
      cases hf : (running v1 v2 order i).find? (fun p => p.2 == b) with
      | none => simp [hf] at h
      | some q =>
        have hm := List.mem_of_find?_eq_some hf
        have hq := List.find?_some hf
        exact ⟨q, hm, by simpa using hq⟩
    · rintro ⟨q, hq, rfl⟩
      obtain ⟨_, _, _, _, ⟨v, _, _, hv⟩⟩ := c18_crossbar_transfers v1 v2 order i q hq
      simp [hv]

-- OBLIGATION c18_validated : transformers whose target validates its arguments behave as with a target that is callable iff ready and accepting the argument it would receive: MethodMap executes iff called, target ready and valid(i_fun arg); plain MethodFilter iff target ready and (condition false or valid arg); MethodFilter(use_condition) iff condition false or (target ready and valid arg); product/try-product offer every target the call's argument
theorem c18_validated (valid : Nat → Bool) (ifun ofun cond : Nat → Nat) (dflt : Nat) (i : UIn) (a : Nat)
    (h : i.call = some a) :
    ((mapVStep valid ifun ofun i).res.isSome ↔ (i.trdy = true ∧ valid (ifun a) = true)) ∧
    ((filterVStep valid false cond dflt i).res.isSome ↔ (i.trdy = true ∧ (cond a = 0 ∨ valid a = true))) ∧
    ((filterVStep valid true cond dflt i).res.isSome ↔ (cond a = 0 ∨ (i.trdy = true ∧ valid a = true))) ∧
    ((filterVStep valid true cond dflt i).tcall.isSome ↔ (cond a ≠ 0 ∧ i.trdy = true ∧ valid a = true)) ∧
    (∀ (j : PIn), j.call = some a → (validTgts valid j).tgts = j.tgts.map (fun t => (t.1 && valid a, t.2))) := by
  refine ⟨?_, ?_, ?_, ?_, ?_⟩
  · unfold mapVStep mapStep
    cases ht : i.trdy <;> cases hv : valid (ifun a) <;> simp [h, hv]
  · unfold filterVStep filterStep condHolds
    by_cases hc : cond a = 0 <;> cases ht : i.trdy <;> cases hv : valid a <;> simp [h, hc, hv]
  · unfold filterVStep filterStep condHolds
    by_cases hc : cond a = 0 <;> cases ht : i.trdy <;> cases hv : valid a <;> simp [h, hc, hv]
  · unfold filterVStep filterStep condHolds
    by_cases hc : cond a = 0 <;> cases ht : i.trdy <;> cases hv : valid a <;> simp [h, hc, hv]
  · intro j hj
    simp [validTgts, hj]

-- OBLIGATION c18_map : MethodMap: the method executes iff it is called and the target is ready; then the target is called with i_fun(arg) and the method returns o_fun(target result); otherwise the target is not called (every i_fun, o_fun)
theorem c18_map (ifun ofun : Nat → Nat) (i : UIn) :
    ((mapStep ifun ofun i).res.isSome ↔ (i.call.isSome ∧ i.trdy = true)) ∧
    ((mapStep ifun ofun i).tcall.isSome ↔ (mapStep ifun ofun i).res.isSome) ∧
    (∀ a, i.call = some a → i.trdy = true →
      (mapStep ifun ofun i).tcall = some (ifun a) ∧ (mapStep ifun ofun i).res = some (ofun i.tret)) := by
  unfold mapStep
  cases hc : i.call <;> cases ht : i.trdy <;> simp

-- OBLIGATION c18_filter_plain : MethodFilter (use_condition=False): the method executes iff called and the target is ready; the target is called iff moreover the condition value is non-zero, with the unchanged argument, and its result is returned; otherwise the default is returned (every condition function, default)
theorem c18_filter_plain (cond : Nat → Nat) (dflt : Nat) (i : UIn) (a : Nat) (h : i.call = some a) :
    ((filterStep false cond dflt i).res.isSome ↔ i.trdy = true) ∧
    ((filterStep false cond dflt i).tcall.isSome ↔ (i.trdy = true ∧ cond a ≠ 0)) ∧
    (i.trdy = true → cond a ≠ 0 →
      (filterStep false cond dflt i).tcall = some a ∧ (filterStep false cond dflt i).res = some i.tret) ∧
    (i.trdy = true → cond a = 0 → (filterStep false cond dflt i).res = some dflt) := by
  unfold filterStep condHolds
  by_cases hc : cond a = 0 <;> cases ht : i.trdy <;> simp [h, hc]

-- OBLIGATION c18_filter_usecond : MethodFilter (use_condition=True): executes iff called and (condition value zero or target ready) - i.e. does not block on the target when the condition is false; target called iff condition value non-zero and target ready, with the unchanged argument, and its result is returned; default returned when the condition is false (every condition function incl. multi-bit values, every default)
theorem c18_filter_usecond (cond : Nat → Nat) (dflt : Nat) (i : UIn) (a : Nat)
    (h : i.call = some a) :
    ((filterStep true cond dflt i).res.isSome ↔ (cond a = 0 ∨ i.trdy = true)) ∧
    ((filterStep true cond dflt i).tcall.isSome ↔ (cond a ≠ 0 ∧ i.trdy = true)) ∧
    (cond a ≠ 0 → i.trdy = true →
      (filterStep true cond dflt i).tcall = some a ∧ (filterStep true cond dflt i).res = some i.tret) ∧
    (cond a = 0 → (filterStep true cond dflt i).res = some dflt) := by
  unfold filterStep condHolds
  by_cases hc : cond a = 0 <;> cases ht : i.trdy <;> simp [h, hc]

-- OBLIGATION c18_filter_nocall : MethodFilter (both modes): without a call nothing executes and the target is not called
theorem c18_filter_nocall (uc : Bool) (cond : Nat → Nat) (dflt : Nat) (i : UIn) (h : i.call = none) :
    filterStep uc cond dflt i = { res := none, tcall := none } := by
  simp [filterStep, h]

/-- the former defect F-b6-1 (repaired): a two-bit condition value with LSB 0 counts as true -/
example : filterStep true (fun x => x &&& 6) 9 { call := some 2, trdy := true, tret := 5 }
    = { res := some 5, tcall := some 2 } := by decide

-- OBLIGATION c18_product : MethodProduct: executes iff called and all targets are ready; then every target is called with the argument and the result is combiner(results); otherwise no target is called (every number of targets, every combiner)
theorem c18_product (comb : List Nat → Nat) (i : PIn) :
    ((productStep comb i).res.isSome ↔ (i.call.isSome ∧ ∀ t ∈ i.tgts, t.1 = true)) ∧
    (productStep comb i).tcalls.length = i.tgts.length ∧
    (∀ a, i.call = some a → (∀ t ∈ i.tgts, t.1 = true) →
      (productStep comb i).res = some (comb (i.tgts.map (·.2))) ∧
      ∀ c ∈ (productStep comb i).tcalls, c = some a) ∧
    ((productStep comb i).res = none → ∀ c ∈ (productStep comb i).tcalls, c = none) := by
  unfold productStep
  cases hc : i.call with
  | none => simp
  | some a =>
    by_cases hall : i.tgts.all (·.1) = true
    · have hall' : ∀ t ∈ i.tgts, t.1 = true := by simpa using hall
      simp only [if_pos hall]
      refine ⟨?_, by simp, ?_, by simp⟩
      · constructor
        · intro _; exact ⟨rfl, hall'⟩
        · intro _; rfl
      · intro a' ha' _
        simp only [Option.some.injEq] at ha'
        subst ha'
        simp
    · have hall' : ¬ ∀ t ∈ i.tgts, t.1 = true := by simpa using hall
      simp only [if_neg hall]
      refine ⟨?_, by simp, ?_, by simp⟩
      · constructor
        · intro h; simp at h
        · intro h; exact absurd h.2 hall'
      · intro a' _ h
        exact absurd h hall'

-- OBLIGATION c18_tryproduct : MethodTryProduct: executes whenever called (never blocked by a target); target k is called (with the argument) iff it is ready; the success bits given to the combiner are exactly the called targets and the result is combiner(success bits, results) (every number of targets, every combiner)
theorem c18_tryproduct (comb : List (Bool × Nat) → Nat) (i : PIn) :
    ((tryProductStep comb i).res.isSome ↔ i.call.isSome) ∧
    (tryProductStep comb i).tcalls.length = i.tgts.length ∧
    (∀ a, i.call = some a →
      (tryProductStep comb i).res = some (comb i.tgts) ∧
      (∀ k (h : k < i.tgts.length),
        (tryProductStep comb i).tcalls[k]? = some (if (i.tgts[k]).1 = true then some a else none)) ∧
      (tryProductStep comb i).tcalls.map (·.isSome) = i.tgts.map (·.1)) ∧
    (i.call = none → ∀ c ∈ (tryProductStep comb i).tcalls, c = none) := by
  unfold tryProductStep
  cases hc : i.call with
  | none => simp
  | some a =>
    refine ⟨by simp, by simp, ?_, by simp⟩
    intro a' ha'
    simp only [Option.some.injEq] at ha'
    subst ha'
    refine ⟨rfl, ?_, ?_⟩
    · intro k hk
      simp [List.getElem?_map, List.getElem?_eq_getElem hk]
    · simp only [List.map_map]
      apply List.map_congr_left
      intro t _
      obtain ⟨r, v⟩ := t
      cases r <;> simp

-- OBLIGATION c18_tryproduct_own : MethodTryProduct among competing callers of its targets (each before or after it in the priority order): the try-product's OWN call to target k executes iff it is called, target k is ready and not taken by a preceding competitor; the success bits given to the combiner are exactly the own executed calls (not "the target ran"); a target never serves both in one cycle, and what it receives is the own argument or the competitor's
theorem c18_tryproduct_own (comb : List (Bool × Nat) → Nat) (i : PIn) (comps : List CompIn) (a : Nat)
    (hc : i.call = some a) (hlen : comps.length = i.tgts.length) :
    let o := withComps (tryProductStep comb) i comps
    o.res = some (comb (effTgts i.tgts comps)) ∧
    (effTgts i.tgts comps).map (·.1) = o.own.map (·.isSome) ∧
    (∀ k (h : k < i.tgts.length) (h' : k < comps.length),
      o.own[k]? = some (if (i.tgts[k]).1 = true ∧ ¬((comps[k]).first = true ∧ (comps[k]).att.isSome) then some a else none) ∧
      (∀ x, o.own[k]? = some (some x) → o.comp[k]? = some false ∧ o.seen[k]? = some (some x)) ∧
      (o.comp[k]? = some true → (i.tgts[k]).1 = true ∧ o.own[k]? = some none ∧ o.seen[k]? = some (comps[k]).att)) := by
  intro o
  have hown : o.own = (effTgts i.tgts comps).map (fun t => if t.1 then some a else none) := by
    simp [o, withComps, tryProductStep, hc]
  have hel : (effTgts i.tgts comps).length = i.tgts.length := by simp [effTgts, hlen]
  refine ⟨by simp [o, withComps, tryProductStep, hc], ?_, ?_⟩
  · rw [hown, List.map_map]
    apply List.map_congr_left
    intro t _
    obtain ⟨r, v⟩ := t
    cases r <;> simp
  · intro k h h'
    have hk : k < (effTgts i.tgts comps).length := by omega
    have he : (effTgts i.tgts comps)[k]? = some (effReady i.tgts[k] comps[k]) := by
      simp [effTgts, List.getElem?_zipWith, List.getElem?_eq_getElem h, List.getElem?_eq_getElem h']
    have hownk : o.own[k]? = some (if (effReady i.tgts[k] comps[k]).1 then some a else none) := by
      rw [hown]; simp [List.getElem?_map, he]
    have hz : ((i.tgts.zip comps).zip o.own)[k]? = some ((i.tgts[k], comps[k]), if (effReady i.tgts[k] comps[k]).1 then some a else none) := by
      simp [List.getElem?_zip_eq_some, List.getElem?_eq_getElem h, List.getElem?_eq_getElem h', hownk]
    have hcomp : o.comp[k]? = some (compDone i.tgts[k] comps[k] (if (effReady i.tgts[k] comps[k]).1 then some a else none).isSome) := by
      simp only [o, withComps] at hz ⊢
      simp [List.getElem?_map, hz]
    have hseen : o.seen[k]? = some (seenArg (if (effReady i.tgts[k] comps[k]).1 then some a else none) comps[k]
        (compDone i.tgts[k] comps[k] (if (effReady i.tgts[k] comps[k]).1 then some a else none).isSome)) := by
      simp only [o, withComps] at hz ⊢
      simp [List.getElem?_map, hz]
    rw [hownk, hcomp, hseen]
    generalize i.tgts[k] = t
    generalize comps[k] = c
    obtain ⟨r, v⟩ := t
    obtain ⟨f, at'⟩ := c
    cases r <;> cases f <;> cases at' <;> simp [effReady, compDone, seenArg]

-- OBLIGATION c18_comp_exclusive : any transformer among competing callers (product, filter in both modes, collector): the competitor's call to a target executes only if it attempts and the target is ready, and never in a cycle in which the transformer's transaction uses that target unless the competitor precedes it - in which case the transformer sees the target as not ready (so an exclusive target serves one caller per cycle)
theorem c18_comp_exclusive (t : Bool × Nat) (c : CompIn) (used : Bool) :
    (compDone t c used = true → c.att.isSome = true ∧ t.1 = true ∧ (c.first = true ∨ used = false)) ∧
    (compDone t c used = true → c.first = true → (effReady t c).1 = false) ∧
    (c.att = none → effReady t c = t) ∧
    (t.1 = true → c.att.isSome = true → (compDone t c used = true ∨ used = true ∨ c.first = false)) := by
  obtain ⟨r, v⟩ := t
  obtain ⟨f, at'⟩ := c
  cases r <;> cases f <;> cases at' <;> cases used <;> simp [effReady, compDone]

-- OBLIGATION c18_nonex : NonexclusiveWrapper: every attempted caller executes iff the target is ready and receives the target's result; the target is called iff some caller executes; when all simultaneous callers pass the same argument (in particular when there is one caller) the target receives it (every number of callers)
theorem c18_nonex (i : NIn) :
    (nonexStep i).res.length = i.calls.length ∧
    (∀ k (h : k < i.calls.length),
      (nonexStep i).res[k]? = some (if i.trdy = true ∧ (i.calls[k]).isSome then some i.tret else none)) ∧
    ((nonexStep i).tcall.isSome ↔ (i.trdy = true ∧ ∃ c ∈ i.calls, c.isSome)) ∧
    (∀ a, i.trdy = true → (∃ c ∈ i.calls, c.isSome) → (∀ c ∈ i.calls, ∀ x, c = some x → x = a) →
      (nonexStep i).tcall = some a) := by
  unfold nonexStep
  cases ht : i.trdy with
  | false =>
    refine ⟨by simp, ?_, by simp, by simp⟩
    intro k hk
    simp [List.getElem?_eq_getElem hk]
  | true =>
    simp only [if_true]
    refine ⟨by simp, ?_, ?_, ?_⟩
    · intro k hk
      simp only [List.getElem?_map, List.getElem?_eq_getElem hk, Option.map_some]
      cases i.calls[k] <;> simp
    · by_cases hany : i.calls.any (·.isSome) = true
      · simp only [if_pos hany]
        have : ∃ c ∈ i.calls, c.isSome = true := by simpa using hany
        simp [this]
      · simp only [if_neg hany]
        have : ¬ ∃ c ∈ i.calls, c.isSome = true := by simpa using hany
        simp [this]
    · intro a _ hex hall
      have hany : i.calls.any (·.isSome) = true := by simpa using hex
      simp only [if_pos hany]
      simp only [Option.some.injEq]
      apply orAll_const
      · intro x hx
        simp only [List.mem_filterMap, id] at hx
        obtain ⟨c, hc, hcx⟩ := hx
        exact hall c hc x hcx
      · obtain ⟨c, hc, hs⟩ := hex
        intro hnil
        cases hcv : c with
        | none => simp [hcv] at hs
        | some x =>
          have : x ∈ i.calls.filterMap id := by
            simp only [List.mem_filterMap, id]
            exact ⟨c, hc, hcv⟩
          simp [hnil] at this

-- OBLIGATION c18_collector_once : Collector: for every number of targets, scheduling order and call history from reset, the results delivered by `method` followed by the (at most one) buffered result are exactly the results of the executed target calls, in order - every target result is delivered exactly once or is still buffered
theorem c18_collector_once (order : List Nat) (is : List CIn) :
    delivered (collectorRun order cInit is).2 ++ (collectorRun order cInit is).1.buf.toList
      = produced (collectorRun order cInit is).2 := by
  have := collector_run_hist order cInit is
  simpa [cInit] using this

-- OBLIGATION c18_collector_step : Collector, one cycle: a target is called only if it is ready, belongs to the crossbar and the buffer is empty, and the recorded result is the one it returned; if the buffer is empty and some target is ready then a target is called; `method` executes iff attempted and a result is buffered or produced in this cycle
theorem c18_collector_step (order : List Nat) (s : CState) (i : CIn) :
    (∀ k v, (collectorStep order s i).2.called = some (k, v) →
      k ∈ order ∧ i.tgts[k]? = some (true, v) ∧ s.buf = none) ∧
    (s.buf = none → (∃ k ∈ order, readyAt i.tgts k = true) → (collectorStep order s i).2.called.isSome) ∧
    ((collectorStep order s i).2.rd.isSome ↔
      (i.rd = true ∧ (s.buf.isSome ∨ (collectorStep order s i).2.called.isSome))) := by
  simp only [collectorStep]
  refine ⟨?_, ?_, ?_⟩
  · intro k v h
    cases hb : s.buf with
    | some x => simp [hb] at h
    | none =>
      simp only [hb, Option.isNone_none, if_true] at h
      have := pick_some _ _ _ _ h
      exact ⟨this.1, this.2, rfl⟩
  · intro hb ⟨k, hk, hr⟩
    simp only [hb, Option.isNone_none, if_true]
    cases hp : pick i.tgts order with
    | some kv => simp
    | none =>
      have := pick_none _ _ hp k hk
      simp [this] at hr
  · cases hb : s.buf with
    | some x => cases hr : i.rd <;> simp
    | none =>
      cases hp : pick i.tgts order with
      | none => cases hr : i.rd <;> simp
      | some kv => cases hr : i.rd <;> simp

/-- non-vacuity: a crossbar valuation with two running pairs and a blocked ready pair -/
example :
    running (fun _ => true) (fun _ => true) [(0, 0), (0, 1), (1, 0), (1, 1)] { t1 := [(true, 13), (true, 14)], t2 := [(true, 5), (true, 6)] }
      = [(0, 0), (1, 1)] := by decide

/-- non-vacuity: a receiver rejecting zero: pair (0,0) cannot run (methods2[0] would receive 0), (0,1) runs -/
example :
    running (fun _ => true) (fun x => x != 0) [(0, 0), (0, 1)] { t1 := [(true, 0)], t2 := [(true, 5), (false, 6)] } = [] ∧
    running (fun x => x != 0) (fun _ => true) [(0, 0), (0, 1)] { t1 := [(true, 3)], t2 := [(true, 0), (true, 6)] } = [(0, 1)] := by
  decide

/-- non-vacuity: a collector history with buffering, forwarding and a blocked target -/
example :
    let is : List CIn := [⟨[(false, 1), (true, 2), (true, 3)], false⟩, ⟨[(true, 1), (true, 2), (true, 3)], false⟩,
      ⟨[(true, 4), (true, 5), (true, 6)], true⟩, ⟨[(true, 4), (true, 5), (true, 6)], true⟩,
      ⟨[(false, 0), (false, 0), (true, 7)], false⟩]
    produced (collectorRun [0, 1, 2] cInit is).2 = [2, 4, 7] ∧
    delivered (collectorRun [0, 1, 2] cInit is).2 = [2, 4] ∧
    (collectorRun [0, 1, 2] cInit is).1.buf = some 7 := by decide

/-- non-vacuity: a ready target taken by a preceding competitor: success bit 0, target sees the
    competitor's argument; the later competitor of target 1 is blocked by the own call -/
example :
    withComps (tryProductStep (fun l => (l.filter (·.1)).length)) { call := some 2, tgts := [(true, 1), (true, 2)] }
      [{ first := true, att := some 7 }, { first := false, att := some 8 }]
      = { res := some 1, own := [none, some 2], comp := [true, false], seen := [some 7, some 2] } := by decide

/-- non-vacuity: try-product with a partial success -/
example :
    tryProductStep (fun l => (l.filter (·.1)).length) { call := some 2, tgts := [(true, 1), (false, 2), (true, 4)] }
      = { res := some 2, tcalls := [some 2, none, some 2] } := by decide

end TxV.Transformers

#print axioms TxV.Transformers.c18_connect
#print axioms TxV.Transformers.c18_connect_valid
#print axioms TxV.Transformers.c18_validated
#print axioms TxV.Transformers.c18_crossbar_transfers
#print axioms TxV.Transformers.c18_crossbar_matching
#print axioms TxV.Transformers.c18_crossbar_exact
#print axioms TxV.Transformers.c18_map
#print axioms TxV.Transformers.c18_filter_plain
#print axioms TxV.Transformers.c18_filter_usecond
#print axioms TxV.Transformers.c18_filter_nocall
#print axioms TxV.Transformers.c18_product
#print axioms TxV.Transformers.c18_tryproduct
#print axioms TxV.Transformers.c18_tryproduct_own
#print axioms TxV.Transformers.c18_comp_exclusive
#print axioms TxV.Transformers.c18_nonex
#print axioms TxV.Transformers.c18_collector_once
#print axioms TxV.Transformers.c18_collector_step
