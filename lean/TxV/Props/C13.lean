import TxV.Proofs.Simultaneous
import TxV.Proofs.SimultaneousShape
/-!
# C13 — simultaneous methods run together and exchange data

"Two bodies related by simultaneous() (e.g. Connect.read and Connect.write) run in exactly the same
cycles, and data passed into one is delivered to the other in the same cycle in both directions —
for every design connecting callers through Connect or simultaneous(), with arbitrary readiness of
the callers' other methods."

As for C12 the theorems are about the POST-merge flat design (every group of simultaneous
transactions has become one merged transaction calling the methods made from its members), every
valuation and every assignment `run` of the run signals satisfying the core's cycle facts
(`Accepted`, `Cycle`: obtained from the executable model by `c12_model_hyps`).  `ShapeC13 D a b L`
(decidable: `shapeC13B`; printed by `Driver/C13.lean` as `shape13=`; PROVED for `w` writers × `r`
readers of one `Connect` from the executable model of `_simultaneous`: `simultaneous_shape_connect`)
says that every transaction reaching one of the two bodies calls the other one through
unconditional calls; `LinkEn` says that such calls are enabled whenever their caller runs.

`Connect` (connectors.py:268-283) is two wires: `read` returns `read_value`, assigned from `write`'s
argument, and `write` returns `rev_read_value`, assigned from `read`'s argument
(`connectReadOut`, `connectWriteOut` = the other method's `data_in`).
-/
namespace TxV.Core

variable {D : Design} {v : Val} {S : Sched} {run : Nat → Bool} {L : List Nat}

-- OBLIGATION c13_same_cycles : sentence 1 (PARTIAL for uses other than w writers x r readers of one Connect - plain simultaneous() between transactions/methods, chained Connects: the added hypothesis ShapeC13 is checked there per generated design by the driver; proved for the Connect family, see simultaneous_shape_connect and c13_connect_family): for every post-merge design with ShapeC13 for the pair (a, b) (driver-checked per design; proved for the Connect family), every valuation and run assignment with the core cycle facts and LinkEn: a runs iff b runs
theorem c13_same_cycles (hA : Accepted D S) (hC : Cycle D v S run) (hl : LinkEn D v run L) {a b : Nat}
    (hS : ShapeC13 D a b L) : run a = true ↔ run b = true :=
  same_cycles hA hC hl hS

-- OBLIGATION c13_same_cycles_nested : sentence 1 for a transaction b nested in a body a and declared simultaneous with it (plain simultaneous() used the way condition() uses it, a reached through call chains with conditional links: the merged call of b is then enabled by a.run, DerEn): under the added, driver-checked hypothesis ShapeC12 for the one-branch use (a, [b]) : a runs iff b runs
theorem c13_same_cycles_nested (hA : Accepted D S) (hC : Cycle D v S run) {Dr : List (Nat × List Nat)}
    {a b : Nat} {hd pr : Bool} (hS : ShapeC12 D ⟨a, [b], hd, pr⟩ L Dr) (hl : LinkEn D v run L) (hde : DerEn v run Dr) :
    run a = true ↔ run b = true :=
  same_cycles_nested hA hC hS hl hde

-- OBLIGATION c13_data : sentence 2 for Connect (same added hypothesis ShapeC13) (exclusive write w and read r): in every cycle in which write runs, write and read each have exactly one active call site, read returns the argument passed to write at that site and write returns the argument passed to read (both directions, same cycle; any number of writers and readers)
theorem c13_data (hA : Accepted D S) (hC : Cycle D v S run) (hn : D.SitesNodup) (hl : LinkEn D v run L)
    {w r : Nat} (hS : ShapeC13 D w r L) (hxw : D.nonexcl w = false) (hxr : D.nonexcl r = false)
    (hr : run w = true) :
    ∃ sw sr, activeSites D v run w = [sw] ∧ activeSites D v run r = [sr] ∧
      connectReadOut D v run w = v.arg sw.2.site ∧ connectWriteOut D v run r = v.arg sr.2.site :=
  connect_data hA hC hn hl hS hxw hxr hr

-- OBLIGATION c13_callers_together : consequence for the callers: the caller whose call of write is active and the caller whose call of read is active both run in that cycle (the data is exchanged between running callers)
theorem c13_callers_together (hA : Accepted D S) (hC : Cycle D v S run) (hn : D.SitesNodup) (hl : LinkEn D v run L)
    {w r : Nat} (hS : ShapeC13 D w r L) (hxw : D.nonexcl w = false) (hxr : D.nonexcl r = false)
    (hr : run w = true) :
    ∃ sw sr, sw ∈ D.allSites ∧ sr ∈ D.allSites ∧ sw.2.callee = w ∧ sr.2.callee = r ∧
      run sw.1 = true ∧ run sr.1 = true := by
  obtain ⟨sw, sr, h1, h2, _, _⟩ := connect_data hA hC hn hl hS hxw hxr hr
  have m1 : sw ∈ activeSites D v run w := by rw [h1]; simp
  have m2 : sr ∈ activeSites D v run r := by rw [h2]; simp
  obtain ⟨⟨c1, r1, _⟩, e1⟩ := mem_activeSites.1 m1
  obtain ⟨⟨c2, r2, _⟩, e2⟩ := mem_activeSites.1 m2
  exact ⟨sw, sr, Design.mem_allSites.2 c1, Design.mem_allSites.2 c2, e1, e2, r1, r2⟩

-- OBLIGATION c13_shape_checker_sound : the Boolean checkers evaluated by the driver imply ShapeC13 and LinkEn
theorem c13_shape_checker_sound (hb : Bounded D) {a b : Nat} :
    (shapeC13B D a b L = true → ShapeC13 D a b L) ∧ (linkEnB D v run L = true → LinkEn D v run L) :=
  ⟨shapeC13B_sound hb, linkEnB_sound⟩

-- OBLIGATION simultaneous_shape_connect : the shape hypothesis is PROVED for the Connect family, for every w >= 1 writers and r >= 1 readers: whenever the executable model of _simultaneous succeeds on the pre-merge design of "w transactions calling Connect.write, r transactions calling Connect.read" (TxV.Simul.connPre), its result satisfies ShapeC13 for (write, read) (the groups are exactly the pairs {writer_a, reader_c}; every merged transaction reaches both methods through unconditional calls)
theorem simultaneous_shape_connect (w r : Nat) (hw : 0 < w) (hr : 0 < r) {R : Simul.MergeOut}
    (h : Simul.simultaneous (Simul.connPre w r) (w + r) = .ok R) :
    ShapeC13 (Bridge.toAbs R.D) (w + r) (w + r + 1) (Simul.linkSites R.D R.enDeps (w + r)) :=
  Simul.simultaneous_shape_connect w r hw hr h

-- OBLIGATION c13_connect_family : both sentences WITHOUT a shape hypothesis for w >= 1 writers x r >= 1 readers of one Connect: from the executable models alone (model of _simultaneous succeeds, manager model accepts the merged design, validOrder) and the per-valuation checks cycleOk / linkEnB: write runs iff read runs, and when they run each has exactly one active caller, read returns that writer's argument and write returns that reader's argument
theorem c13_connect_family (w r : Nat) (hw : 0 < w) (hr : 0 < r) {R : Simul.MergeOut} {E : CoreModel.Elab}
    {order : List Nat} {vm : CoreModel.Val} {rn : Nat → Bool}
    (h : Simul.simultaneous (Simul.connPre w r) (w + r) = .ok R) (hel : CoreModel.elaborate R.D = .ok E)
    (hvo : CoreModel.validOrder E.g.before R.D.transactions order = true)
    (hcy : Bridge.cycleOk R.D E order vm rn = true)
    (hl : linkEnB (Bridge.toAbs R.D) (Bridge.toVal R.D vm) (Bridge.runAll E vm rn)
      (Simul.linkSites R.D R.enDeps (w + r)) = true)
    (hxw : (Bridge.toAbs R.D).nonexcl (w + r) = false) (hxr : (Bridge.toAbs R.D).nonexcl (w + r + 1) = false) :
    (Bridge.runAll E vm rn (w + r) = true ↔ Bridge.runAll E vm rn (w + r + 1) = true) ∧
    (Bridge.runAll E vm rn (w + r) = true →
      ∃ sw sr, activeSites (Bridge.toAbs R.D) (Bridge.toVal R.D vm) (Bridge.runAll E vm rn) (w + r) = [sw] ∧
        activeSites (Bridge.toAbs R.D) (Bridge.toVal R.D vm) (Bridge.runAll E vm rn) (w + r + 1) = [sr] ∧
        connectReadOut (Bridge.toAbs R.D) (Bridge.toVal R.D vm) (Bridge.runAll E vm rn) (w + r) = vm.arg sw.2.site ∧
        connectWriteOut (Bridge.toAbs R.D) (Bridge.toVal R.D vm) (Bridge.runAll E vm rn) (w + r + 1) = vm.arg sr.2.site) := by
  obtain ⟨hA, _, hN, hC, _⟩ := model_hyps hel hvo hcy
  have hS := Simul.simultaneous_shape_connect w r hw hr h
  have hL := linkEnB_sound hl
  exact ⟨same_cycles hA hC hL hS, fun hrun => connect_data hA hC hN hL hS hxw hxr hrun⟩

/-- non-vacuity: two writers and one reader of one `Connect`.  The model of `_simultaneous` succeeds, the
manager model accepts the merged design (merged transactions 5 = {W0,R}, 6 = {W1,R}), and in the cycle where
everything is ready the hypotheses hold, `write` (3) and `read` (4) both run, `read` returns the argument 5
of the running writer W0 and `write` returns the reader's argument 9 -/
def nvC13 : Bool :=
  match Simul.simultaneous (Simul.connPre 2 1) 3 with
  | .ok R =>
    match CoreModel.elaborate R.D with
    | .ok E =>
      let v : CoreModel.Val := ⟨fun _ => true, fun _ => true, fun s => if s == 0 then 5 else if s == 1 then 6 else 9, fun _ => 0⟩
      let run := CoreModel.evalEager R.D E v [5, 6]
      let rb := Bridge.runAll E v run
      let L := Simul.linkSites R.D R.enDeps 3
      CoreModel.validOrder E.g.before R.D.transactions [5, 6] &&
      Bridge.cycleOk R.D E [5, 6] v run &&
      shapeC13B (Bridge.toAbs R.D) 3 4 L &&
      linkEnB (Bridge.toAbs R.D) (Bridge.toVal R.D v) rb L &&
      rb 3 && rb 4 && rb 0 && !rb 1 &&
      connectReadOut (Bridge.toAbs R.D) (Bridge.toVal R.D v) rb 3 == 5 &&
      connectWriteOut (Bridge.toAbs R.D) (Bridge.toVal R.D v) rb 4 == 9
    | .error _ => false
  | .error _ => false

example : nvC13 = true := by decide +kernel

end TxV.Core

#print axioms TxV.Core.simultaneous_shape_connect
#print axioms TxV.Core.c13_connect_family
#print axioms TxV.Core.c13_same_cycles
#print axioms TxV.Core.c13_same_cycles_nested
#print axioms TxV.Core.c13_data
#print axioms TxV.Core.c13_callers_together
#print axioms TxV.Core.c13_shape_checker_sound
